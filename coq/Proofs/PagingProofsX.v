(* Proofs for C16 over the REGENERATED counter logic of Postprocessing.apply (Gen/PostprocGen.v, run by the skeleton of
   Model/PagingPP.v).  First the refinement: the coded generator computes, for every limit (negative ones included),
   every row sequence and every filter, exactly what the hand-written model Model/Paging.v computes -- the model the
   correspondence run compares with the implementation.  Then the property clauses over the generated definitions. *)
From Coq Require Import ZArith List Bool Lia.
From V Require Import Model.Paging Model.PagingPPBase Gen.PostprocGen Model.PagingPP Proofs.PagingProofs Proofs.PagingProofsOrder.
Import ListNotations.
Open Scope Z_scope.

Ltac gen_unfold :=
  unfold pp_inactive, pp_pre, pp_row_start, pp_before_yield, pp_yielded, pp_post, sk_after_loop, flow_state, bindf,
    set_sl, set_lc, oz_eqb, oz_ltb, oz_leb, oz_gtb, oz_geb, oz_none, oz_truthy, oz_add in *; cbn [fst snd negb] in *.

(* ---------------- generic simulation: any counter logic whose per-row steps track the model's limit ----------------
   `eff s` says where the live counter sits in the state (self._limit itself, or the local variable it was copied to).
   The three step facts are non-recursive; the induction over the rows of a page is done once, here. *)
Definition m_pass (l : option Z) : option Z * bool :=
  match l with None => (None, false) | Some k => if k - 1 =? 0 then (Some 0, true) else (Some (k - 1), false) end.

Section Sim.
  Context {A : Type}.
  Variables f_row_start f_before_yield f_yielded f_post : ppstate -> flow.
  Variable eff : ppstate -> option Z.

  (* a passing row: None = the generator stops without yielding it; Some (s', stop) = yields it, then stops or goes on *)
  Definition g_pass (s : ppstate) : option (ppstate * bool) :=
    match f_row_start s with
    | Fall s1 => match f_before_yield s1 with
                 | Fall s2 => match f_yielded s2 with
                              | Fall s3 => Some (s3, false)
                              | Ret s' => Some (s', true)
                              | Brk s' => Some (sk_after_loop f_post s', true)
                              end
                 | _ => None
                 end
    | _ => None
    end.
  Definition g_skip (s : ppstate) : option ppstate := match f_row_start s with Fall s1 => Some s1 | _ => None end.

  Hypothesis H_pass : forall s, exists s',
    g_pass s = Some (s', snd (m_pass (eff s))) /\ (if snd (m_pass (eff s)) then fst s' else eff s') = fst (m_pass (eff s)).
  Hypothesis H_skip : forall s, exists s1, g_skip s = Some s1 /\ eff s1 = eff s.
  Hypothesis H_end : forall s, fst (sk_after_loop f_post s) = eff s.

  Lemma sk_rows_sim : forall (keep : A -> bool) rows s,
    fst (sk_rows f_row_start f_before_yield f_yielded f_post keep s rows) = fst (apply_rows keep (eff s) rows)
    /\ fst (snd (sk_rows f_row_start f_before_yield f_yielded f_post keep s rows)) = snd (apply_rows keep (eff s) rows).
  Proof.
    induction rows as [|r rest IH]; intros s.
    - cbn [sk_rows apply_rows fst snd]. split; [reflexivity | apply H_end].
    - cbn [sk_rows apply_rows]. destruct (keep r).
      + destruct (H_pass s) as [s' [E1 E2]]. unfold g_pass in E1.
        destruct (f_row_start s) as [s1| |]; try discriminate E1.
        destruct (f_before_yield s1) as [s2| |]; try discriminate E1.
        unfold m_pass in E1, E2 |- *.
        destruct (f_yielded s2) as [s3|sr|sb]; destruct (eff s) as [k|]; try destruct (k - 1 =? 0);
          cbn [fst snd] in *; inversion E1; subst; cbn [fst snd]; auto.
        * specialize (IH s'). rewrite E2 in IH. destruct (sk_rows _ _ _ _ keep s' rest), (apply_rows keep (Some (k - 1)) rest).
          cbn [fst snd] in *. destruct IH as [-> ->]. auto.
        * specialize (IH s'). rewrite E2 in IH. destruct (sk_rows _ _ _ _ keep s' rest), (apply_rows keep None rest).
          cbn [fst snd] in *. destruct IH as [-> ->]. auto.
      + destruct (H_skip s) as [s1 [E1 E2]]. unfold g_skip in E1.
        destruct (f_row_start s) as [s1'| |]; try discriminate E1. inversion E1; subst. rewrite <- E2. apply IH.
  Qed.
End Sim.

Ltac zb := repeat match goal with
  | H : (_ =? _) = true |- _ => apply Z.eqb_eq in H
  | H : (_ =? _) = false |- _ => apply Z.eqb_neq in H
  | H : (_ <=? _) = true |- _ => apply Z.leb_le in H
  | H : (_ <=? _) = false |- _ => apply Z.leb_gt in H
  | H : (_ <? _) = true |- _ => apply Z.ltb_lt in H
  | H : (_ <? _) = false |- _ => apply Z.ltb_ge in H
  end.
Ltac split_cmp := repeat (match goal with
  | |- context [?a =? ?b] => destruct (a =? b) eqn:?
  | |- context [?a <=? ?b] => destruct (a <=? b) eqn:?
  | |- context [?a <? ?b] => destruct (a <? b) eqn:?
  end; cbn).
Ltac leaf := zb; try (exfalso; lia); try discriminate;
  try (eexists; split; [reflexivity|]); cbn; try reflexivity; try (f_equal; lia); try (split; [f_equal; lia | congruence]).
Ltac brute eff :=
  exists eff; (split; [|split; [|split]]);
  [ intros [k|]; unfold g_pass, g_skip, m_pass; gen_unfold; cbn; split_cmp; leaf; try (split; [reflexivity|congruence]); try (split; congruence)
  | intros [[a|] [b|]]; unfold g_pass, g_skip, m_pass; gen_unfold; cbn; split_cmp; leaf
  | intros [[a|] [b|]]; unfold g_pass, g_skip, m_pass; gen_unfold; cbn; split_cmp; leaf
  | intros [[a|] [b|]]; unfold g_pass, g_skip, m_pass; gen_unfold; cbn; split_cmp; leaf ].

(* the regenerated counter logic satisfies the step facts, with the live counter in self._limit or in the local *)
Lemma gen_steps : exists eff : ppstate -> option Z,
  (forall lim, match pp_pre (lim, None) with
               | Fall s => eff s = lim /\ lim <> Some 0
               | Ret s | Brk s => lim = Some 0 /\ fst s = Some 0
               end)
  /\ (forall s, exists s', g_pass pp_row_start pp_before_yield pp_yielded pp_post s = Some (s', snd (m_pass (eff s)))
                           /\ (if snd (m_pass (eff s)) then fst s' else eff s') = fst (m_pass (eff s)))
  /\ (forall s, exists s1, g_skip pp_row_start s = Some s1 /\ eff s1 = eff s)
  /\ (forall s, fst (sk_after_loop pp_post s) = eff s).
Proof. first [ solve [brute (@fst (option Z) (option Z))] | solve [brute (@snd (option Z) (option Z))] ]. Qed.

Lemma gen_inactive : forall t c, pp_inactive t c = negb (t || c).
Proof. intros [|] [|]; reflexivity. Qed.

Section X.
  Context {A : Type}.
  Implicit Types (rows : list A) (keep : A -> bool) (pgs : list (list A)).

  (* ---------------- refinement: generated counter logic = hand-written model ---------------- *)
  Lemma gapply_eq : forall t c keep lim rows, gapply t c keep lim rows = apply (t || c) keep lim rows.
  Proof.
    intros t c keep lim rows. unfold gapply, sk_apply, apply. rewrite gen_inactive.
    destruct (negb (t || c)); [reflexivity|].
    destruct gen_steps as [eff [Hpre [Hp [Hs He]]]]. specialize (Hpre lim).
    destruct (pp_pre (lim, None)) as [s|s|s].
    - destruct Hpre as [E N].
      destruct (sk_rows_sim pp_row_start pp_before_yield pp_yielded pp_post eff Hp Hs He keep rows s) as [S1 S2].
      rewrite E in S1, S2.
      destruct (sk_rows pp_row_start pp_before_yield pp_yielded pp_post keep s rows) as [o s'].
      cbn [fst snd] in *. subst o. rewrite S2.
      destruct lim as [[|p|p]|]; try (exfalso; apply N; reflexivity); destruct (apply_rows keep _ rows); reflexivity.
    - destruct Hpre as [-> ->]. reflexivity.
    - destruct Hpre as [-> ->]. reflexivity.
  Qed.

  Lemma gpages_cons : forall t c keep lim p pgs,
    gpages t c keep lim (p :: pgs) =
      (fst (gapply t c keep lim p) :: fst (gpages t c keep (snd (gapply t c keep lim p)) pgs),
       snd (gpages t c keep (snd (gapply t c keep lim p)) pgs)).
  Proof.
    intros. unfold gpages, gapply. cbn [sk_pages].
    destruct (sk_apply _ _ _ _ _ _ t c keep lim p) as [o l']. cbn [fst snd].
    destruct (sk_pages _ _ _ _ _ _ t c keep l' pgs). reflexivity.
  Qed.

  Lemma grun_pages_eq : forall t c keep pgs lim, grun_pages t c keep lim pgs = run_pages (t || c) keep lim pgs.
  Proof.
    induction pgs as [|p rest IH]; intros lim; [reflexivity|].
    unfold grun_pages in *. rewrite gpages_cons. cbn [fst run_pages]. rewrite IH, gapply_eq.
    destruct (apply (t || c) keep lim p). reflexivity.
  Qed.

  Lemma gexecute_eq : forall c pp keep lim rows, gexecute c pp keep lim rows = execute c pp keep lim rows.
  Proof. intros. unfold gexecute, execute. rewrite grun_pages_eq, orb_false_r. reflexivity. Qed.

  Lemma giterate_eq : forall c pp keep lim rows, giterate c pp keep lim rows = iterate c pp keep lim rows.
  Proof. intros. unfold giterate, iterate. now rewrite gexecute_eq. Qed.

  Lemma gcount_eq : forall pp keep lim rows e d, gcount pp keep lim rows e d = count pp keep lim rows e d.
  Proof. intros. unfold gcount, count. rewrite gapply_eq. reflexivity. Qed.

  Lemma gany_driver_eq : forall pp keep rows e x, gany_driver pp keep rows e x = any_driver pp keep rows e x.
  Proof.
    intros. unfold gany_driver, any_driver. rewrite gapply_eq. cbn [orb]. unfold apply. cbn [negb].
    rewrite apply_rows_none. cbn [fst]. rewrite existsb_filter. reflexivity.
  Qed.

  Lemma gany_eq : forall pp keep lim rows e x, gany pp keep lim rows e x = any pp keep lim rows e x.
  Proof. intros. unfold gany, any. now rewrite gany_driver_eq. Qed.

  Lemma refines_p : forall (t c : bool) keep lim rows pgs (cf : cfg) (pp e x : bool),
    gapply t c keep lim rows = apply (t || c) keep lim rows
    /\ grun_pages t c keep lim pgs = run_pages (t || c) keep lim pgs
    /\ gexecute cf pp keep lim rows = execute cf pp keep lim rows
    /\ gcount pp keep lim rows e x = count pp keep lim rows e x
    /\ gany pp keep lim rows e x = any pp keep lim rows e x.
  Proof.
    intros. repeat split; [apply gapply_eq | apply grun_pages_eq | apply gexecute_eq | apply gcount_eq | apply gany_eq].
  Qed.

  (* ---------------- the counter across raw pages ---------------- *)
  Definition lim_after (lim : option Z) (n : Z) : option Z := match lim with Some k => Some (k - n) | None => None end.

  Lemma gapply_active_spec : forall t c keep lim rows, t || c = true -> lim_ok lim ->
    gapply t c keep lim rows =
      (firstn_opt lim (filter keep rows), lim_after lim (zlen (firstn_opt lim (filter keep rows)))).
  Proof.
    intros t c keep lim rows Ha Hl. rewrite gapply_eq, Ha, apply_spec by assumption.
    destruct lim; reflexivity.
  Qed.

  (* ANY split of the rows into raw pages (equal sized or ragged): the pages' outputs concatenate to the first `lim`
     passing rows in order, and the counter left in the object is the limit minus the number of rows handed out *)
  Lemma gpages_exact_p : forall t c keep pgs lim, t || c = true -> lim_ok lim ->
    concat (grun_pages t c keep lim pgs) = firstn_opt lim (filter keep (concat pgs))
    /\ gfinal_limit t c keep lim pgs = lim_after lim (zlen (concat (grun_pages t c keep lim pgs)))
    /\ lim_ok (gfinal_limit t c keep lim pgs).
  Proof.
    intros t c keep pgs lim Ha Hl. split.
    - rewrite grun_pages_eq, Ha. apply run_pages_active; assumption.
    - revert lim Hl. induction pgs as [|p rest IH]; intros lim Hl.
      + unfold gfinal_limit, grun_pages. cbn. destruct lim; cbn in *; [|auto]. split; [f_equal; lia | assumption].
      + unfold gfinal_limit, grun_pages in *. rewrite gpages_cons. cbn [fst snd concat].
        rewrite gapply_active_spec by assumption. cbn [fst snd].
        set (o := firstn_opt lim (filter keep p)).
        assert (Hl' : lim_ok (lim_after lim (zlen o))).
        { destruct lim as [k|]; cbn in *; [|exact I]. subst o. cbn. unfold zlen. rewrite firstn_length. lia. }
        destruct (IH _ Hl') as [E1 E2]. split; [|exact E2]. rewrite E1.
        unfold zlen. rewrite app_length. destruct lim as [k|]; cbn; [f_equal; lia | reflexivity].
  Qed.

  Lemma grun_pages_exhausted_p : forall t c keep pgs, t || c = true ->
    grun_pages t c keep (Some 0) pgs = map (fun _ => []) pgs /\ gfinal_limit t c keep (Some 0) pgs = Some 0.
  Proof.
    intros t c keep pgs Ha. induction pgs as [|p rest [IH1 IH2]]; [split; reflexivity|].
    unfold grun_pages, gfinal_limit in *. rewrite gpages_cons, gapply_eq, Ha. cbn [apply negb fst snd map].
    rewrite IH1, IH2. split; reflexivity.
  Qed.

  (* once the limit is reached inside a page, every later raw page comes out empty *)
  Lemma after_limit_empty_p : forall t c keep pgs1 pgs2 k, t || c = true -> 0 <= k ->
    zlen (concat (grun_pages t c keep (Some k) pgs1)) = k ->
    grun_pages t c keep (Some k) (pgs1 ++ pgs2) = grun_pages t c keep (Some k) pgs1 ++ map (fun _ => []) pgs2.
  Proof.
    intros t c keep pgs1 pgs2 k Ha Hk Hn.
    assert (F : gfinal_limit t c keep (Some k) pgs1 = Some 0).
    { destruct (gpages_exact_p t c keep pgs1 (Some k) Ha Hk) as [_ [E _]]. rewrite E, Hn. cbn. f_equal. lia. }
    clear Hn. revert k Hk F. induction pgs1 as [|p rest IH]; intros k Hk F.
    - unfold gfinal_limit in F. cbn in F. injection F as ->. cbn [app]. apply grun_pages_exhausted_p; assumption.
    - unfold grun_pages, gfinal_limit in *. cbn [app]. rewrite !gpages_cons in *. cbn [fst snd] in *.
      rewrite gapply_active_spec in * by (assumption || exact Hk). cbn [fst snd lim_after] in *.
      rewrite <- app_comm_cons. f_equal. apply IH; [|exact F]. unfold zlen. cbn [firstn_opt]. rewrite firstn_length. lia.
  Qed.

  (* no row moves to another page: every output page is a prefix of the passing rows of its own raw page *)
  Lemma page_outputs_local_p : forall t c keep pgs lim, t || c = true -> lim_ok lim ->
    Forall2 (fun p o => exists n : nat, o = firstn n (filter keep p)) pgs (grun_pages t c keep lim pgs).
  Proof.
    intros t c keep pgs. induction pgs as [|p rest IH]; intros lim Ha Hl; [constructor|].
    unfold grun_pages in *. rewrite gpages_cons. cbn [fst]. rewrite gapply_active_spec by assumption. cbn [fst snd].
    constructor.
    - destruct lim as [k|]; cbn [firstn_opt]; [eexists; reflexivity|].
      exists (length (filter keep p)). now rewrite firstn_all.
    - apply IH; [assumption|]. destruct lim as [k|]; cbn in *; [|exact I]. unfold zlen. rewrite firstn_length. lia.
  Qed.

  (* ---------------- the property clauses over the coded loop ---------------- *)
  Lemma pages_exactly_once_p : forall c pp keep rows, 0 <= raw_page c -> 0 <= factor c ->
    giterate c pp keep None rows = visible pp keep rows
    /\ (NoDup rows -> NoDup (giterate c pp keep None rows))
    /\ (forall r, In r (giterate c pp keep None rows) <-> In r rows /\ (pp = true -> keep r = true)).
  Proof. intros. rewrite giterate_eq. apply each_row_once_p; assumption. Qed.

  Lemma pages_exactly_once_n_p : forall keep (n : nat) lim rows cv, (1 <= n)%nat -> lim_ok lim ->
    concat (grun_pages true cv keep lim (pages n rows)) = firstn_opt lim (filter keep rows).
  Proof.
    intros keep n lim rows cv Hn Hl.
    destruct (gpages_exact_p true cv keep (pages n rows) lim eq_refl Hl) as [E _]. rewrite E, pages_concat by assumption. reflexivity.
  Qed.

  Lemma limit_prefix_pages_p : forall c pp keep k rows, 0 <= raw_page c -> 0 <= factor c -> 0 <= k ->
    giterate c pp keep (Some k) rows = firstn (Z.to_nat k) (visible pp keep rows)
    /\ giterate c pp keep (Some k) rows = firstn (Z.to_nat k) (giterate c pp keep None rows)
    /\ zlen (giterate c pp keep (Some k) rows) = Z.min k (zlen (visible pp keep rows)).
  Proof.
    intros c pp keep k rows H1 H2 H3. rewrite !giterate_eq.
    destruct (limit_prefix_p c pp keep k rows H1 H2 H3) as [E1 E2].
    pose proof (execute_exact_p c pp keep None rows H1 H2 I) as E0. cbn [firstn_opt] in E0.
    rewrite E0 in *. auto.
  Qed.

  Lemma page_size_irrelevant_pages_p : forall c1 c2 pp keep lim rows,
    0 <= raw_page c1 -> 0 <= factor c1 -> 0 <= raw_page c2 -> 0 <= factor c2 -> lim_ok lim ->
    giterate c1 pp keep lim rows = giterate c2 pp keep lim rows.
  Proof. intros. rewrite !giterate_eq. apply page_size_irrelevant_p; assumption. Qed.

  Lemma count_any_agree_pages_p : forall c pp keep lim rows, 0 <= raw_page c -> 0 <= factor c -> lim_ok lim ->
    gcount pp keep lim rows true true = Ok (zlen (giterate c pp keep lim rows))
    /\ gany pp keep lim rows true true = Ok (negb (is_nil (giterate c pp keep lim rows)))
    /\ (exists n, gcount pp keep lim rows false true = Ok n /\ zlen (giterate c pp keep lim rows) <= n)
    /\ (forall e x, gany pp keep lim rows e x = Ok false -> giterate c pp keep lim rows = []).
  Proof.
    intros c pp keep lim rows H1 H2 H3. rewrite giterate_eq, !gcount_eq, gany_eq.
    split; [apply count_agrees_p; assumption|]. split; [apply any_agrees_p; assumption|].
    split; [apply count_inexact_upper_p; assumption|].
    intros e x. rewrite gany_eq. apply any_false_sound_p; assumption.
  Qed.
End X.

(* ---------------- constraint spellings through the paged, limited iteration ---------------- *)
Lemma spellings_paged_p : forall (c : cfg) (pp : bool) (keep : row -> bool) (lim : option Z) (d kw : dataid) (rows : list row),
  NoDup (keys_of d) -> NoDup (keys_of kw) ->
  let m := merge d kw in
  giterate c pp keep lim (filter (constraint_pred d kw) rows) = giterate c pp keep lim (filter (dataid_pred m) rows)
  /\ giterate c pp keep lim (filter (kw_pred m) rows) = giterate c pp keep lim (filter (dataid_pred m) rows)
  /\ giterate c pp keep lim (filter (where_pred m) rows) = giterate c pp keep lim (filter (dataid_pred m) rows)
  /\ (forall e x, gcount pp keep lim (filter (constraint_pred d kw) rows) e x = gcount pp keep lim (filter (where_pred m) rows) e x
                  /\ gcount pp keep lim (filter (kw_pred m) rows) e x = gcount pp keep lim (filter (where_pred m) rows) e x).
Proof.
  intros c pp keep lim d kw rows Hd Hk m.
  destruct (constraint_spellings_p d kw rows Hd Hk) as [E1 [E2 E3]]. fold m in E1, E2, E3.
  rewrite E1, E2, E3. repeat split; reflexivity.
Qed.

(* ---------------- what the in-place write of self._limit is needed for: the two seeded variants ---------------- *)
Lemma writeback_after_loop_only_refuted_p : exists (lim : Z) (pgs : list (list Z)),
  0 <= lim /\ concat (vb_pages (fun _ => true) (Some lim) pgs) <> firstn (Z.to_nat lim) (concat pgs)
  /\ zlen (concat (vb_pages (fun _ => true) (Some lim) pgs)) > lim.
Proof. exists 1, [[1; 2]; [3; 4]; [5; 6]]. vm_compute. repeat split; discriminate. Qed.

Lemma writeback_at_zero_only_refuted_p : exists (lim : Z) (pgs : list (list Z)),
  0 <= lim /\ concat (va_pages (fun _ => true) (Some lim) pgs) <> firstn (Z.to_nat lim) (concat pgs)
  /\ zlen (concat (va_pages (fun _ => true) (Some lim) pgs)) > lim.
Proof. exists 3, [[1; 2]; [3; 4]; [5; 6]]. vm_compute. repeat split; discriminate. Qed.
