(* Lemmas about the calibration model (Model/Calib.v).  The set semantics of the regenerated
   `py_overlaps` / `py_isEmpty` and of `diff GEN_MAX` come from C11 (Proofs/TimespanProofs.v). *)
From Coq Require Import ZArith NArith List Bool Lia ZifyBool Permutation.
From V Require Import Base.Tri Gen.TimespanGen Gen.CalibDiffGen Model.Timespan Proofs.TimespanProofs Model.Calib.
Import ListNotations.
Open Scope N_scope.

(* ---------- small list facts ---------- *)
Lemma memN_In k l : memN k l = true <-> In k l.
Proof.
  unfold memN. rewrite existsb_exists. split.
  - intros (y & Hy & E). apply N.eqb_eq in E. subst. exact Hy.
  - intros H. exists k. split; [exact H|apply N.eqb_refl].
Qed.

Lemma filter_nil_all {A} (f : A -> bool) l : (forall a, In a l -> f a = false) -> filter f l = [].
Proof.
  induction l as [|a l IH]; intros H; cbn; [reflexivity|].
  rewrite (H a (or_introl eq_refl)). apply IH. intros b Hb. apply H. right. exact Hb.
Qed.

Lemma length_filter_le {A} (f : A -> bool) l : (length (filter f l) <= length l)%nat.
Proof. induction l as [|a l IH]; cbn; [lia|]. destruct (f a); cbn; lia. Qed.

Lemma memb_mem x a : memb x a = true <-> mem x a.
Proof. unfold memb, mem. lia. Qed.

(* ---------- valid_at over row lists ---------- *)
Definition va (l : list crow) (c ty d : N) (x : Z) : list N :=
  map r_ds (filter (fun r => key_match c ty d r && memb x (r_ts r)) l).
Definition contrib (c ty d : N) (x : Z) (r : crow) : list N :=
  if key_match c ty d r && memb x (r_ts r) then [r_ds r] else [].

Lemma valid_at_va s c ty d x : valid_at s c ty d x = va (calibs s) c ty d x.
Proof. reflexivity. Qed.

Lemma va_app l1 l2 c ty d x : va (l1 ++ l2) c ty d x = va l1 c ty d x ++ va l2 c ty d x.
Proof. unfold va. rewrite filter_app, map_app. reflexivity. Qed.

Lemma va_flat l c ty d x : va l c ty d x = flat_map (contrib c ty d x) l.
Proof.
  unfold va, contrib. induction l as [|r l IH]; cbn; [reflexivity|].
  destruct (key_match c ty d r && memb x (r_ts r)); cbn; rewrite IH; reflexivity.
Qed.

Definition rows_wf (l : list crow) : Prop := Forall (fun r => wf (r_ts r)) l.
Definition Inv (s : state) : Prop :=
  rows_wf (calibs s) /\ forall c ty d x, (length (valid_at s c ty d x) <= 1)%nat.
Definition wf_op (o : op) : Prop :=
  match o with Certify _ _ t => wf t | Decertify _ _ t _ => wf t | Remove _ => True end.

Lemma overlaps_witness a t x : wf a -> wf t -> mem x a -> mem x t -> py_overlaps a t = true.
Proof. intros Ha Ht H1 H2. apply overlaps_spec_p; [assumption..|]. exists x. split; assumption. Qed.

Lemma empty_no_mem t x : wf t -> py_isEmpty t = true -> memb x t = false.
Proof.
  intros Ht He. destruct (memb x t) eqn:E; [|reflexivity].
  apply memb_mem in E. apply (isEmpty_spec_p t Ht) in E; [contradiction|exact He].
Qed.

(* ---------- certify ---------- *)
Definition new_rows (c ty : N) (t : TimespanGen.ts) (rs : list ref) : list crow :=
  map (fun r => mkRow c ty (f_did r) (f_ds r) t) rs.

Lemma va_new c ty t rs c' ty' d' x :
  va (new_rows c ty t rs) c' ty' d' x =
  if (c =? c') && (ty =? ty') && memb x t then map f_ds (filter (fun r => f_did r =? d') rs) else [].
Proof.
  unfold va, new_rows. induction rs as [|r rs IH]; cbn.
  - destruct ((c =? c') && (ty =? ty') && memb x t); reflexivity.
  - unfold key_match at 1. cbn [r_coll r_ty r_did r_ts].
    destruct (c =? c') eqn:E1, (ty =? ty') eqn:E2, (memb x t) eqn:E3, (f_did r =? d') eqn:E4; cbn in *;
      rewrite IH; reflexivity.
Qed.

Lemma batch_dup_filter rs (d : N) : batch_dup rs = false -> (length (filter (fun r => (f_did r =? d)%N) rs) <= 1)%nat.
Proof.
  induction rs as [|r rs IH]; cbn; intros H; [lia|].
  apply orb_false_iff in H as [H1 H2]. specialize (IH H2).
  destruct (f_did r =? d) eqn:E; [|exact IH].
  apply N.eqb_eq in E. subst d. cbn.
  assert (filter (fun r0 => f_did r0 =? f_did r) rs = []) as ->; [|cbn; lia].
  apply filter_nil_all. intros a Ha. destruct (f_did a =? f_did r) eqn:E; [|reflexivity].
  apply N.eqb_eq in E. exfalso.
  assert (memN (f_did r) (map f_did rs) = true) as Hm; [|rewrite Hm in H1; discriminate].
  apply memN_In. rewrite <- E. apply in_map. exact Ha.
Qed.

Lemma certify_group_ok_shape chk s c k ty rs t s' :
  certify_group chk s c k ty rs t = inl s' ->
  (rs = [] /\ s' = s) \/ (rs <> [] /\ existsb (hit c ty t (Some (map f_did rs))) (calibs s) = false /\
             (chk && batch_dup rs && negb (py_isEmpty t) = false) /\
             s' = set_calibs s (calibs s ++ new_rows c ty t rs)).
Proof.
  unfold certify_group. destruct (lookup ty (dtypes s)) as [[|]|]; try discriminate.
  destruct (negb (is_calib k)); try discriminate.
  destruct (chk && batch_dup rs && negb (py_isEmpty t)) eqn:Ed; try discriminate.
  destruct rs as [|r0 rs0] eqn:Ers; [intros H; inversion H; left; split; reflexivity|].
  rewrite <- Ers in *.
  destruct (existsb (hit c ty t (Some (map f_did rs))) (calibs s)) eqn:Eh; [subst rs; discriminate|].
  destruct (forallb (fun r => memN (f_ds r) (dsets s)) rs); [|subst rs; discriminate].
  intros H. right. repeat split; try assumption.
  - subst rs. discriminate.
  - subst rs. inversion H. reflexivity.
Qed.

Lemma certify_group_inv s c k ty rs t s' :
  Inv s -> wf t -> certify_group true s c k ty rs t = inl s' -> Inv s'.
Proof.
  intros [Hwf Hcnt] Ht H. apply certify_group_ok_shape in H as [[_ ->]|(Hne & Hh & Hd & ->)]; [split; assumption|].
  split.
  - cbn. apply Forall_app. split; [exact Hwf|]. unfold new_rows. apply Forall_forall.
    intros r Hr. apply in_map_iff in Hr as (f & <- & _). exact Ht.
  - intros c' ty' d' x. rewrite valid_at_va. cbn [calibs set_calibs]. rewrite va_app, va_new, app_length.
    specialize (Hcnt c' ty' d' x). rewrite valid_at_va in Hcnt.
    destruct ((c =? c') && (ty =? ty') && memb x t) eqn:Ec; [|cbn; lia].
    apply andb_true_iff in Ec as [Ec Hx]. apply andb_true_iff in Ec as [Ec1 Ec2].
    apply N.eqb_eq in Ec1, Ec2. subst c' ty'.
    destruct (filter (fun r => f_did r =? d') rs) as [|f0 fs] eqn:Ef; [cbn; lia|].
    (* some ref of the batch has data ID d': no existing row of that key is valid at x *)
    assert (Hin : In f0 (filter (fun r => f_did r =? d') rs)) by (rewrite Ef; left; reflexivity).
    apply filter_In in Hin as [Hin Hd0]. apply N.eqb_eq in Hd0.
    assert (va (calibs s) c ty d' x = []) as ->.
    { unfold va. rewrite filter_nil_all; [reflexivity|]. intros r Hr.
      destruct (key_match c ty d' r && memb x (r_ts r)) eqn:E; [|reflexivity]. exfalso.
      apply andb_true_iff in E as [Ek Em]. unfold key_match in Ek.
      apply andb_true_iff in Ek as [Ek Ek3]. apply andb_true_iff in Ek as [Ek1 Ek2].
      assert (hit c ty t (Some (map f_did rs)) r = true) as Hhit.
      { unfold hit. rewrite Ek1, Ek2. cbn [andb selected].
        rewrite (overlaps_witness (r_ts r) t x); [| | exact Ht | apply memb_mem; exact Em | apply memb_mem; exact Hx].
        - cbn. apply memN_In. apply N.eqb_eq in Ek3. rewrite Ek3, <- Hd0. apply in_map. exact Hin.
        - unfold rows_wf in Hwf. rewrite Forall_forall in Hwf. apply Hwf. exact Hr. }
      assert (existsb (hit c ty t (Some (map f_did rs))) (calibs s) = true) as Hex
        by (apply existsb_exists; exists r; split; assumption).
      rewrite Hex in Hh. discriminate. }
    rewrite <- Ef. cbn [app]. rewrite map_length.
    cbn [andb] in Hd. destruct (batch_dup rs) eqn:Eb.
    + cbn in Hd. apply negb_false_iff in Hd. rewrite (empty_no_mem t x Ht Hd) in Hx. discriminate.
    + apply batch_dup_filter. exact Eb.
Qed.

Lemma certify_groups_inv gs : forall s c k t s',
  Inv s -> wf t -> certify_groups true s c k gs t = inl s' -> Inv s'.
Proof.
  induction gs as [|[ty rs] gs IH]; intros s c k t s' Hi Ht H; cbn in H.
  - inversion H. subst. exact Hi.
  - destruct (certify_group true s c k ty rs t) as [s1|e] eqn:E; [|discriminate].
    eapply IH; [|exact Ht|exact H]. eapply certify_group_inv; eassumption.
Qed.

Lemma certify_inv s c refs t : Inv s -> wf t -> Inv (fst (certify true s c refs t)).
Proof.
  intros Hi Ht. unfold certify. destruct (lookup c (colls s)) as [k|]; [|exact Hi].
  destruct (certify_groups true s c k (group_by_type refs) t) as [s'|e] eqn:E; [|exact Hi].
  cbn. eapply certify_groups_inv; eassumption.
Qed.

(* ---------- remove ---------- *)
Lemma va_remove l ds c ty d x :
  va (filter (fun r => negb (r_ds r =? ds)) l) c ty d x = filter (fun n => negb (n =? ds)) (va l c ty d x).
Proof.
  unfold va. induction l as [|r l IH]; cbn; [reflexivity|].
  destruct (r_ds r =? ds) eqn:E1, (key_match c ty d r && memb x (r_ts r)) eqn:E2; cbn; rewrite ?E1, ?E2; cbn;
    rewrite ?E1; cbn; rewrite IH; reflexivity.
Qed.

Lemma rows_wf_filter f l : rows_wf l -> rows_wf (filter f l).
Proof.
  unfold rows_wf. rewrite !Forall_forall. intros H r Hr. apply filter_In in Hr as [Hr _]. apply H, Hr.
Qed.

Lemma remove_inv s ds : Inv s -> Inv (fst (remove s ds)).
Proof.
  intros [Hwf Hcnt]. split.
  - cbn. apply rows_wf_filter, Hwf.
  - intros c ty d x. rewrite valid_at_va. unfold remove. cbn [fst calibs]. rewrite va_remove.
    specialize (Hcnt c ty d x). rewrite valid_at_va in Hcnt.
    pose proof (length_filter_le (fun n => negb (n =? ds)) (va (calibs s) c ty d x)). lia.
Qed.

(* ---------- decertify ---------- *)
(* the REGENERATED Timespan.difference (Gen/CalibDiffGen.v) is the C11 hand model: a semantic edit of
   Timespan.intersection / Timespan.difference breaks this proof *)
Lemma py_difference_diff a b : py_difference a b = diff GEN_MAX a b.
Proof. reflexivity. Qed.

(* at every instant, the pieces Timespan.difference leaves of `a` count once exactly where a \ t does *)
Lemma diff_count {A} (v : A) a t x : wf a -> wf t ->
  flat_map (fun p => if memb x p then [v] else []) (diff GEN_MAX a t) = if memb x a && negb (memb x t) then [v] else [].
Proof.
  destruct a as [a1 a2], t as [b1 b2]; intros Ha Hb.
  unfold diff, inter2, inter, is_empty, ts_eqb, mk, memb; cbn [fold_left map fst snd].
  pose proof min_lt_max as Hmm. unfold MINN, GEN_MIN in *.
  wf_cases; unfold GEN_MIN in *.
  all: match goal with |- context [if (?c >=? ?d) then (GEN_MAX, 0%Z) else _] =>
         let E0 := fresh "E0" in destruct (c >=? d)%Z eqn:E0; cbn [fst snd] in * end.
  all: repeat match goal with
       | |- context [if ?c then _ else _] => let E := fresh "E" in destruct c eqn:E; cbn [fst snd app flat_map] in *
       end; try reflexivity; try lia.
  all: exfalso; repeat match goal with
       | H : context [if ?c then _ else _] |- _ => let E := fresh "E" in destruct c eqn:E; cbn [fst snd] in H
       end; lia.
Qed.

Lemma partition_perm {A B} (f : A -> list B) (g : A -> list A) (h : A -> bool) l :
  Permutation (flat_map f (filter (fun r => negb (h r)) l) ++ flat_map f (flat_map g (filter h l)))
              (flat_map (fun r => if h r then flat_map f (g r) else f r) l).
Proof.
  induction l as [|r l IH]; cbn; [constructor|].
  destruct (h r) eqn:E; cbn.
  - rewrite flat_map_app. etransitivity; [apply Permutation_app_swap_app|]. apply Permutation_app_head. exact IH.
  - rewrite <- app_assoc. apply Permutation_app_head. exact IH.
Qed.

Definition dec_cond (c ty : N) (t : TimespanGen.ts) (sel : option (list N)) (c' ty' d' : N) (x : Z) : bool :=
  (c' =? c) && (ty' =? ty) && selected sel d' && memb x t.

Lemma contrib_pieces c' ty' d' x t r : wf (r_ts r) -> wf t ->
  flat_map (contrib c' ty' d' x) (pieces t r) =
  if key_match c' ty' d' r && memb x (r_ts r) && negb (memb x t) then [r_ds r] else [].
Proof.
  intros Hr Ht. unfold pieces. rewrite py_difference_diff, flat_map_concat_map, map_map, <- flat_map_concat_map.
  unfold contrib, key_match. cbn [r_coll r_ty r_did r_ds r_ts].
  destruct ((r_coll r =? c') && (r_ty r =? ty') && (r_did r =? d')) eqn:Ek; cbn [andb].
  - apply diff_count; assumption.
  - induction (diff GEN_MAX (r_ts r) t); cbn; [reflexivity|assumption].
Qed.

Lemma dec_row c ty t sel c' ty' d' x r : wf (r_ts r) -> wf t ->
  (if hit c ty t sel r then flat_map (contrib c' ty' d' x) (pieces t r) else contrib c' ty' d' x r) =
  (if dec_cond c ty t sel c' ty' d' x then [] else contrib c' ty' d' x r).
Proof.
  intros Hr Ht. rewrite (contrib_pieces c' ty' d' x t r Hr Ht). unfold contrib, dec_cond, hit, key_match.
  destruct (r_coll r =? c') eqn:K1, (r_ty r =? ty') eqn:K2, (r_did r =? d') eqn:K3; cbn [andb];
    try (destruct (hit c ty t sel r), ((c' =? c) && (ty' =? ty) && selected sel d' && memb x t); reflexivity);
    try (destruct ((r_coll r =? c) && (r_ty r =? ty) && py_overlaps (r_ts r) t && selected sel (r_did r)),
                  ((c' =? c) && (ty' =? ty) && selected sel d' && memb x t); reflexivity).
  apply N.eqb_eq in K1, K2, K3. subst c' ty' d'.
  destruct (memb x (r_ts r)) eqn:M1, (memb x t) eqn:M2; cbn [andb negb];
    try (destruct ((r_coll r =? c) && (r_ty r =? ty) && py_overlaps (r_ts r) t && selected sel (r_did r)),
                  ((r_coll r =? c) && (r_ty r =? ty) && selected sel (r_did r)); reflexivity).
  (* valid at x, x inside t: the row is selected exactly when the condition holds *)
  rewrite (overlaps_witness (r_ts r) t x Hr Ht); [|apply memb_mem; assumption..].
  destruct (r_coll r =? c), (r_ty r =? ty), (selected sel (r_did r)); reflexivity.
Qed.

Lemma dec_pointwise_perm c ty t sel l c' ty' d' x : rows_wf l -> wf t ->
  Permutation (va (decertify_rows c ty t sel l) c' ty' d' x)
              (if dec_cond c ty t sel c' ty' d' x then [] else va l c' ty' d' x).
Proof.
  intros Hl Ht. unfold decertify_rows. rewrite va_app, !va_flat.
  etransitivity; [apply (partition_perm (contrib c' ty' d' x) (pieces t) (hit c ty t sel))|].
  assert (E : flat_map (fun r => if hit c ty t sel r then flat_map (contrib c' ty' d' x) (pieces t r) else contrib c' ty' d' x r) l
              = if dec_cond c ty t sel c' ty' d' x then [] else flat_map (contrib c' ty' d' x) l).
  { induction l as [|r l IH]; cbn.
    - destruct (dec_cond c ty t sel c' ty' d' x); reflexivity.
    - inversion Hl; subst. rewrite dec_row by assumption. rewrite IH by assumption.
      destruct (dec_cond c ty t sel c' ty' d' x); reflexivity. }
  rewrite E. apply Permutation_refl.
Qed.

Lemma perm_short {A} (l l' : list A) : Permutation l l' -> (length l' <= 1)%nat -> l = l'.
Proof.
  intros P H. destruct l' as [|a [|b l']]; cbn in H; try lia.
  - apply Permutation_sym, Permutation_nil in P. exact P.
  - apply Permutation_sym, Permutation_length_1_inv in P. exact P.
Qed.

Lemma pieces_wf t r : wf (r_ts r) -> wf t -> rows_wf (pieces t r).
Proof.
  intros Hr Ht. destruct (diff_spec_p (r_ts r) t Hr Ht) as [H _]. unfold rows_wf, pieces. rewrite py_difference_diff.
  rewrite Forall_forall in *. intros q Hq. apply in_map_iff in Hq as (p & <- & Hp). cbn. apply H, Hp.
Qed.

Lemma decertify_rows_wf c ty t sel l : rows_wf l -> wf t -> rows_wf (decertify_rows c ty t sel l).
Proof.
  intros Hl Ht. unfold decertify_rows, rows_wf. apply Forall_app. split; [apply rows_wf_filter, Hl|].
  apply Forall_forall. intros q Hq. apply in_flat_map in Hq as (r & Hr & Hq).
  apply filter_In in Hr as [Hr _]. unfold rows_wf in Hl. rewrite Forall_forall in Hl.
  pose proof (pieces_wf t r (Hl r Hr) Ht) as Hp. unfold rows_wf in Hp. rewrite Forall_forall in Hp. apply Hp, Hq.
Qed.

Lemma decertify_shape s c ty t sel :
  (exists e, decertify s c ty t sel = (s, Err e)) \/
  (decertify s c ty t sel = (set_calibs s (decertify_rows c ty t sel (calibs s)), Ok) /\
   lookup c (colls s) = Some KCalibration /\ lookup ty (dtypes s) = Some true).
Proof.
  unfold decertify. destruct (lookup c (colls s)) as [k|]; [|left; eexists; reflexivity].
  destruct (lookup ty (dtypes s)) as [[|]|]; try (left; eexists; reflexivity).
  destruct k; cbn; try (left; eexists; reflexivity). right. repeat split.
Qed.

Lemma decertify_pointwise_p s c ty t sel s' c' ty' d' x :
  Inv s -> wf t -> decertify s c ty t sel = (s', Ok) ->
  valid_at s' c' ty' d' x = if dec_cond c ty t sel c' ty' d' x then [] else valid_at s c' ty' d' x.
Proof.
  intros [Hwf Hcnt] Ht H. destruct (decertify_shape s c ty t sel) as [(e & E)|(E & _)]; rewrite E in H; [discriminate|].
  inversion H. subst s'. rewrite !valid_at_va. cbn [calibs set_calibs].
  apply perm_short; [apply dec_pointwise_perm; assumption|].
  destruct (dec_cond c ty t sel c' ty' d' x); [cbn; lia|]. rewrite <- valid_at_va. apply Hcnt.
Qed.

Lemma decertify_inv s c ty t sel : Inv s -> wf t -> Inv (fst (decertify s c ty t sel)).
Proof.
  intros Hi Ht. destruct (decertify_shape s c ty t sel) as [(e & E)|(E & _)]; rewrite E; cbn; [exact Hi|].
  split.
  - cbn. apply decertify_rows_wf; [apply Hi|exact Ht].
  - intros c' ty' d' x. rewrite (decertify_pointwise_p s c ty t sel _ c' ty' d' x Hi Ht E).
    destruct (dec_cond c ty t sel c' ty' d' x); [cbn; lia|apply Hi].
Qed.

(* ---------- every history ---------- *)
Lemma step_inv s o : Inv s -> wf_op o -> Inv (fst (step true s o)).
Proof.
  intros Hi Ho. destruct o; cbn in *.
  - apply certify_inv; assumption.
  - apply decertify_inv; assumption.
  - apply remove_inv; assumption.
Qed.

Lemma run_inv h : forall s, Inv s -> Forall wf_op h -> Inv (run true s h).
Proof.
  induction h as [|o h IH]; intros s Hi Hh; cbn; [exact Hi|].
  inversion Hh; subst. apply IH; [apply step_inv; assumption|assumption].
Qed.

Lemma inv_empty cs ts ds : Inv (mkState cs ts ds []).
Proof. split; [constructor|]. intros; cbn; lia. Qed.

Lemma disjoint_inv_p s h : Inv s -> Forall wf_op h ->
  forall c ty d x, (length (valid_at (run true s h) c ty d x) <= 1)%nat.
Proof. intros Hi Hh. apply (run_inv h s Hi Hh). Qed.

(* a refused operation changes nothing *)
Lemma refused_changes_nothing_p chk s o s' e : step chk s o = (s', Err e) -> s' = s.
Proof.
  destruct o; cbn.
  - unfold certify. destruct (lookup c (colls s)); [|intros H; inversion H; reflexivity].
    destruct (certify_groups chk s c c0 (group_by_type refs) t); intros H; inversion H; reflexivity.
  - intros H. destruct (decertify_shape s c ty t sel) as [(e' & E)|(E & _)]; rewrite E in H; inversion H; reflexivity.
  - unfold remove. intros H. inversion H.
Qed.

(* ---------- certify is refused exactly when it would make two ranges overlap ---------- *)
Lemma fold_group_single ty refs : forall acc, Forall (fun f => f_ty f = ty) refs ->
  fold_left (fun gs r => group_insert r gs) refs [(ty, acc)] = [(ty, acc ++ refs)].
Proof.
  induction refs as [|r refs IH]; intros acc H; cbn; [rewrite app_nil_r; reflexivity|].
  inversion H; subst. rewrite N.eqb_refl. rewrite IH by assumption. rewrite <- app_assoc. reflexivity.
Qed.

Lemma group_single ty r refs : Forall (fun f => f_ty f = ty) (r :: refs) -> group_by_type (r :: refs) = [(ty, r :: refs)].
Proof.
  intros H. inversion H; subst. unfold group_by_type. cbn. apply (fold_group_single (f_ty r) refs [r]). assumption.
Qed.

Definition conflict_sem (s : state) (c ty : N) (rs : list ref) (t : TimespanGen.ts) : Prop :=
  (batch_dup rs = true /\ exists x, mem x t) \/
  (exists r f x, In r (calibs s) /\ In f rs /\ r_coll r = c /\ r_ty r = ty /\ r_did r = f_did f /\ mem x (r_ts r) /\ mem x t).

Lemma hit_exists_sem s c ty rs t : rows_wf (calibs s) -> wf t ->
  (existsb (hit c ty t (Some (map f_did rs))) (calibs s) = true <->
   exists r f x, In r (calibs s) /\ In f rs /\ r_coll r = c /\ r_ty r = ty /\ r_did r = f_did f /\ mem x (r_ts r) /\ mem x t).
Proof.
  intros Hwf Ht. unfold rows_wf in Hwf. rewrite Forall_forall in Hwf. rewrite existsb_exists. split.
  - intros (r & Hr & Hh). unfold hit in Hh.
    apply andb_true_iff in Hh as [Hh H4]. apply andb_true_iff in Hh as [Hh H3]. apply andb_true_iff in Hh as [H1 H2].
    cbn in H4. apply memN_In in H4. apply in_map_iff in H4 as (f & Hf & Hin).
    apply (overlaps_spec_p (r_ts r) t (Hwf r Hr) Ht) in H3 as (x & Hx1 & Hx2).
    exists r, f, x. apply N.eqb_eq in H1, H2. repeat split; try assumption; try (symmetry; assumption); apply Hx1 || apply Hx2.
  - intros (r & f & x & Hr & Hf & H1 & H2 & H3 & Hx1 & Hx2). exists r. split; [exact Hr|]. unfold hit.
    rewrite (proj2 (N.eqb_eq _ _) H1), (proj2 (N.eqb_eq _ _) H2), (overlaps_witness _ _ x (Hwf r Hr) Ht Hx1 Hx2). cbn.
    apply memN_In. rewrite H3. apply in_map. exact Hf.
Qed.

Lemma nonempty_sem t : wf t -> (py_isEmpty t = false <-> exists x, mem x t).
Proof.
  intros Ht. split.
  - intros H. destruct t as [b e]. unfold py_isEmpty in H. cbn in H. exists b. unfold mem. cbn. lia.
  - intros (x & Hx). destruct (py_isEmpty t) eqn:E; [|reflexivity]. apply (isEmpty_spec_p t Ht) in Hx; [contradiction|exact E].
Qed.

Lemma certify_group_conflict_iff_p s c k ty rs t :
  lookup ty (dtypes s) = Some true -> is_calib k = true -> rows_wf (calibs s) -> wf t ->
  (certify_group true s c k ty rs t = inr Conflict <-> conflict_sem s c ty rs t).
Proof.
  intros Hty Hk Hwf Ht. unfold certify_group, conflict_sem. rewrite Hty, Hk. cbn [negb andb].
  pose proof (nonempty_sem t Ht) as Hne.
  destruct (batch_dup rs) eqn:Eb; cbn [andb].
  - destruct (py_isEmpty t) eqn:Ee; cbn [negb].
    + (* empty timespan: nothing can overlap *)
      assert (Hno : forall x, ~ mem x t) by (intros x Hx; apply (isEmpty_spec_p t Ht) in Hx; [exact Hx|exact Ee]).
      destruct rs as [|r0 rs0]; [discriminate Eb|].
      destruct (existsb (hit c ty t (Some (map f_did (r0 :: rs0)))) (calibs s)) eqn:Ex.
      * apply (hit_exists_sem s c ty (r0 :: rs0) t Hwf Ht) in Ex as (r & f & x & _ & _ & _ & _ & _ & _ & Hx).
        exfalso. apply (Hno x Hx).
      * split.
        -- destruct (forallb (fun r => memN (f_ds r) (dsets s)) (r0 :: rs0)); discriminate.
        -- intros [[_ (x & Hx)]|(r & f & x & _ & _ & _ & _ & _ & _ & Hx)]; exfalso; apply (Hno x Hx).
    + split; [intros _|reflexivity]. left. split; [reflexivity|]. apply Hne. reflexivity.
  - destruct rs as [|r0 rs0].
    + split; [discriminate|]. intros [[H _]|(r & f & x & _ & [] & _)]. discriminate.
    + destruct (existsb (hit c ty t (Some (map f_did (r0 :: rs0)))) (calibs s)) eqn:Ex.
      * split; [intros _|reflexivity]. right. apply (hit_exists_sem s c ty (r0 :: rs0) t Hwf Ht). exact Ex.
      * split.
        -- destruct (forallb (fun r => memN (f_ds r) (dsets s)) (r0 :: rs0)); discriminate.
        -- intros [[H _]|H]; [discriminate|]. apply (hit_exists_sem s c ty (r0 :: rs0) t Hwf Ht) in H.
           rewrite Ex in H. discriminate.
Qed.

Lemma certify_refused_iff_p s c ty refs t :
  lookup c (colls s) = Some KCalibration -> lookup ty (dtypes s) = Some true ->
  refs <> [] -> Forall (fun f => f_ty f = ty) refs -> rows_wf (calibs s) -> wf t ->
  (snd (certify true s c refs t) = Err Conflict <-> conflict_sem s c ty refs t).
Proof.
  intros Hc Hty Hne Hall Hwf Ht. unfold certify. rewrite Hc.
  destruct refs as [|r refs]; [contradiction|]. rewrite (group_single ty r refs Hall). cbn [certify_groups].
  rewrite <- (certify_group_conflict_iff_p s c KCalibration ty (r :: refs) t Hty eq_refl Hwf Ht).
  destruct (certify_group true s c KCalibration ty (r :: refs) t) as [s'|e]; cbn.
  - split; discriminate.
  - split; intros H; inversion H; reflexivity.
Qed.

(* an accepted single-type certify adds exactly the batch, valid exactly inside t *)
Lemma certify_accepted_pointwise_p s c ty refs t s' c' ty' d' x :
  Forall (fun f => f_ty f = ty) refs -> certify true s c refs t = (s', Ok) ->
  valid_at s' c' ty' d' x =
  valid_at s c' ty' d' x ++
  (if (c =? c') && (ty =? ty') && memb x t then map f_ds (filter (fun r => f_did r =? d') refs) else []).
Proof.
  intros Hall. unfold certify. destruct (lookup c (colls s)) as [k|]; [|discriminate].
  destruct refs as [|r refs].
  - cbn. intros H. inversion H. subst. destruct ((c =? c') && (ty =? ty') && memb x t); rewrite app_nil_r; reflexivity.
  - rewrite (group_single ty r refs Hall). cbn [certify_groups].
    destruct (certify_group true s c k ty (r :: refs) t) as [s1|e] eqn:E; [|discriminate].
    intros H. inversion H. subst s1.
    apply certify_group_ok_shape in E as [[E _]|(_ & _ & _ & ->)]; [discriminate E|].
    rewrite !valid_at_va. cbn [calibs set_calibs]. rewrite va_app, va_new. reflexivity.
Qed.

(* ---------- lookups ---------- *)
Lemma lookup_span_spec_p s c ty d q :
  (forall ds, lookup_span s c ty d q = Unique ds <-> exists r, overlapping s c ty d q = [r] /\ r_ds r = ds) /\
  (lookup_span s c ty d q = Ambiguous <-> (length (overlapping s c ty d q) >= 2)%nat) /\
  (lookup_span s c ty d q = NotFound <-> overlapping s c ty d q = []).
Proof.
  unfold lookup_span. destruct (overlapping s c ty d q) as [|r [|r2 l]]; cbn.
  - repeat split; try discriminate; try lia; try reflexivity. intros (r & H & _). discriminate.
  - repeat split; try discriminate; try lia.
    + intros H. inversion H. exists r. split; reflexivity.
    + intros (r' & H & <-). inversion H. reflexivity.
  - repeat split; try discriminate; try lia; try reflexivity. intros (r' & H & _). discriminate.
Qed.

Lemma overlapping_sem s c ty d q r : rows_wf (calibs s) -> wf q ->
  (In r (overlapping s c ty d q) <->
   In r (calibs s) /\ r_coll r = c /\ r_ty r = ty /\ r_did r = d /\ exists x, mem x (r_ts r) /\ mem x q).
Proof.
  intros Hwf Hq. unfold rows_wf in Hwf. rewrite Forall_forall in Hwf. unfold overlapping. rewrite filter_In. unfold key_match.
  split.
  - intros (Hr & H). apply andb_true_iff in H as [H H4]. apply andb_true_iff in H as [H H3]. apply andb_true_iff in H as [H1 H2].
    apply N.eqb_eq in H1, H2, H3. apply (overlaps_spec_p _ _ (Hwf r Hr) Hq) in H4. tauto.
  - intros (Hr & H1 & H2 & H3 & x & Hx1 & Hx2). split; [exact Hr|].
    rewrite (proj2 (N.eqb_eq _ _) H1), (proj2 (N.eqb_eq _ _) H2), (proj2 (N.eqb_eq _ _) H3). cbn.
    exact (overlaps_witness _ _ x (Hwf r Hr) Hq Hx1 Hx2).
Qed.

(* a lookup at an instant (1-ns span) sees exactly the datasets valid at that instant *)
Lemma instant_rows s c ty d x : map r_ds (overlapping s c ty d (x, x + 1)%Z) = valid_at s c ty d x.
Proof.
  unfold overlapping, valid_at. f_equal. apply filter_ext. intros r. f_equal.
  unfold py_overlaps, memb. cbn [fst snd]. destruct (r_ts r) as [b e]. cbn [fst snd]. lia.
Qed.

Lemma lookup_instant_p s c ty d x : Inv s ->
  lookup_span s c ty d (x, x + 1)%Z <> Ambiguous /\
  (forall ds, lookup_span s c ty d (x, x + 1)%Z = Unique ds <-> valid_at s c ty d x = [ds]) /\
  (lookup_span s c ty d (x, x + 1)%Z = NotFound <-> valid_at s c ty d x = []).
Proof.
  intros [_ Hcnt]. specialize (Hcnt c ty d x). rewrite <- instant_rows in *. unfold lookup_span.
  destruct (overlapping s c ty d (x, x + 1)%Z) as [|r [|r2 l]]; cbn in *; try lia.
  - repeat split; try discriminate; try reflexivity.
  - repeat split; try discriminate.
    + intros H. inversion H. reflexivity.
    + intros H. inversion H. reflexivity.
Qed.

(* ---------- frame corollaries ---------- *)
Lemma decertify_frame_p s c ty t sel s' c' ty' d' x :
  Inv s -> wf t -> decertify s c ty t sel = (s', Ok) ->
  (c' <> c \/ ty' <> ty \/ selected sel d' = false \/ ~ mem x t) ->
  valid_at s' c' ty' d' x = valid_at s c' ty' d' x.
Proof.
  intros Hi Ht H Hc. rewrite (decertify_pointwise_p s c ty t sel s' c' ty' d' x Hi Ht H).
  assert (dec_cond c ty t sel c' ty' d' x = false) as ->; [|reflexivity].
  unfold dec_cond. destruct Hc as [Hc|[Hc|[Hc|Hc]]].
  - apply N.eqb_neq in Hc. rewrite Hc. reflexivity.
  - apply N.eqb_neq in Hc. rewrite Hc. apply andb_false_iff. left. apply andb_false_iff. left. apply andb_false_r.
  - rewrite Hc. apply andb_false_iff. left. apply andb_false_r.
  - destruct (memb x t) eqn:E; [apply memb_mem in E; contradiction|apply andb_false_r].
Qed.

Lemma decertify_clears_p s c ty t sel s' d' x :
  Inv s -> wf t -> decertify s c ty t sel = (s', Ok) -> selected sel d' = true -> mem x t ->
  valid_at s' c ty d' x = [].
Proof.
  intros Hi Ht H Hs Hx. rewrite (decertify_pointwise_p s c ty t sel s' c ty d' x Hi Ht H).
  unfold dec_cond. rewrite !N.eqb_refl, Hs, (proj2 (memb_mem x t) Hx). reflexivity.
Qed.

Lemma decertify_ok_iff_p s c ty t sel :
  snd (decertify s c ty t sel) = Ok <-> (lookup c (colls s) = Some KCalibration /\ lookup ty (dtypes s) = Some true).
Proof.
  unfold decertify. destruct (lookup c (colls s)) as [k|]; [|cbn; split; [discriminate|intros [H _]; discriminate]].
  destruct (lookup ty (dtypes s)) as [[|]|]; destruct k; cbn; split; intros H;
    try discriminate; try (destruct H as [H1 H2]; discriminate); try (split; reflexivity); reflexivity.
Qed.

Lemma remove_pointwise_p s ds c ty d x :
  valid_at (fst (remove s ds)) c ty d x = filter (fun n => negb (n =? ds)) (valid_at s c ty d x).
Proof. rewrite !valid_at_va. unfold remove. cbn [fst calibs]. apply va_remove. Qed.

Lemma reachable_rows_wf_p s h : Inv s -> Forall wf_op h -> Forall (fun r => wf (r_ts r)) (calibs (run true s h)).
Proof. intros Hi Hh. apply (run_inv h s Hi Hh). Qed.

(* pairwise form of the invariant: two different rows of one key never share an instant *)
Lemma inv_pairwise_p s : Inv s -> forall l1 r1 l2 r2 l3 x, calibs s = l1 ++ r1 :: l2 ++ r2 :: l3 ->
  r_coll r1 = r_coll r2 -> r_ty r1 = r_ty r2 -> r_did r1 = r_did r2 -> mem x (r_ts r1) -> mem x (r_ts r2) -> False.
Proof.
  intros [_ Hcnt] l1 r1 l2 r2 l3 x E H1 H2 H3 M1 M2.
  specialize (Hcnt (r_coll r1) (r_ty r1) (r_did r1) x). rewrite valid_at_va, E in Hcnt.
  rewrite va_app in Hcnt. change (r1 :: l2 ++ r2 :: l3) with ([r1] ++ l2 ++ [r2] ++ l3) in Hcnt.
  rewrite !va_app, !app_length in Hcnt.
  assert (K1 : va [r1] (r_coll r1) (r_ty r1) (r_did r1) x = [r_ds r1]).
  { unfold va, key_match. cbn. rewrite !N.eqb_refl, (proj2 (memb_mem _ _) M1). reflexivity. }
  assert (K2 : va [r2] (r_coll r1) (r_ty r1) (r_did r1) x = [r_ds r2]).
  { unfold va, key_match. cbn. rewrite H1, H2, H3, !N.eqb_refl, (proj2 (memb_mem _ _) M2). reflexivity. }
  rewrite K1, K2 in Hcnt. cbn in Hcnt. lia.
Qed.

(* ---------- ordered-path lookup with a single collection is the plain lookup ---------- *)
Lemma path_rows_single s c ty d q :
  path_rows s [c] ty d q = map (fun r => (0, r)) (overlapping s c ty d q).
Proof.
  unfold path_rows, overlapping, key_match. induction (calibs s) as [|r l IH]; cbn [flat_map filter map]; [reflexivity|].
  rewrite IH. cbn [rank_of]. destruct (r_coll r =? c) eqn:E1; cbn [andb app]; [|reflexivity].
  destruct ((r_ty r =? ty) && (r_did r =? d) && py_overlaps (r_ts r) q) eqn:E2; reflexivity.
Qed.

Lemma fold_best_zero (l : list crow) : forall row tie,
  fold_left best_step (map (fun r => (0, r)) l) (0, row, tie) = (0, row, tie || match l with [] => false | _ => true end).
Proof.
  induction l as [|r l IH]; intros row tie; cbn [map fold_left]; [rewrite orb_false_r; reflexivity|].
  unfold best_step at 2. cbn [fst snd]. cbn. rewrite IH. destruct tie, l; reflexivity.
Qed.

Lemma lookup_path_single_p s c ty d q : lookup_path s [c] ty d q = lookup_span s c ty d q.
Proof.
  unfold lookup_path, lookup_span. rewrite path_rows_single.
  destruct (overlapping s c ty d q) as [|r l]; cbn [map]; [reflexivity|].
  cbn [fst snd]. rewrite fold_best_zero. destruct l; reflexivity.
Qed.
