(* Wave-5 extensions for C13 (3): the code-exact fetch key (through a data ID over the element's minimal group,
   Model/DataIdX.v `_x` functions) coincides with Model/DataId.v's direct reading of `keys` in every universe whose
   elements' minimal groups require exactly the elements' own required dimensions (minimal_required_ok). *)
From Coq Require Import String List Bool Arith ZArith Lia.
From V Require Import Model.Universe Model.Group Model.DataId Model.DataIdX Model.DataIdCheck Proofs.GroupProofs
  Proofs.DataIdProofs Proofs.DataIdProofsExpand Proofs.DataIdProofsErrors Proofs.DataIdProofsX2.
Import ListNotations.
Open Scope string_scope.
Open Scope list_scope.

Lemma fetch_key_direct u e keys : minimal_required_ok u = true -> In e u ->
  fetch_key u e keys = match map_opt (aget keys) (ereq e) with Some kv => Ok kv | None => Err EDimensionName end.
Proof.
  intros MR He. unfold minimal_required_ok in MR. rewrite forallb_forall in MR. specialize (MR e He).
  unfold fetch_key. destruct (mkgroup u (deps e)) as [M| |] eqn:HM; try discriminate.
  apply list_eqb_eq in MR.
  destruct (map_opt (aget keys) (ereq e)) as [kv|] eqn:MO.
  - assert (exists di, std_core M keys = Ok di) as [di Hdi].
    { apply (std_core_ok_iff u _ M keys HM). intros k Hk. rewrite MR in Hk.
      destruct (map_opt_all _ _ _ MO k Hk) as [v Hv]. unfold has_key. now rewrite Hv. }
    rewrite Hdi. simpl.
    assert (map_opt (dc_get di) (ereq e) = Some kv) as ->; [|reflexivity].
    rewrite <- MO. apply map_opt_ext_in. intros k Hk. rewrite <- MR in Hk.
    now destruct (std_core_required _ _ _ _ _ _ HM Hdi Hk).
  - destruct (std_core M keys) as [di|er] eqn:Hdi; simpl.
    + exfalso. assert (exists d, std_core M keys = Ok d) as Hex by eauto.
      pose proof (proj1 (std_core_ok_iff u _ M keys HM) Hex) as Hex'. clear Hex. rename Hex' into Hex.
      destruct (map_opt_total (aget keys) (ereq e)) as [vs Hvs]; [|congruence].
      intros k Hk. rewrite <- MR in Hk. specialize (Hex k Hk). unfold has_key in Hex.
      destruct (aget keys k); [eauto | discriminate].
    + now rewrite (std_core_err _ _ _ Hdi).
Qed.

Lemma expand_step_m_eq u D G st x : minimal_required_ok u = true -> expand_step_m u D G st x = expand_step u D G st x.
Proof.
  intro MR. destruct st as [keys recs]. unfold expand_step_m, expand_step.
  destruct (find_elem u x) as [e|] eqn:F; [|reflexivity].
  apply find_elem_some in F as [He _]. rewrite (fetch_key_direct u e keys MR He).
  destruct (is_dimension e && negb (present keys x)); [reflexivity|].
  destruct (map_opt (aget keys) (ereq e)); reflexivity.
Qed.

Lemma expand_step_x_eq u D G given st x : minimal_required_ok u = true ->
  expand_step_x u D G given st x = expand_step_r u D G given st x.
Proof.
  intro MR. unfold expand_step_x, expand_step_r. destruct (aget given x); [reflexivity | now apply expand_step_m_eq].
Qed.

Lemma expand_loop_x_eq u D G given order : minimal_required_ok u = true ->
  forall acc, fold_left (fun acc x => rbind acc (fun s => expand_step_x u D G given s x)) order acc
            = fold_left (fun acc x => rbind acc (fun s => expand_step_r u D G given s x)) order acc.
Proof.
  intro MR. induction order as [|x order IH]; intro acc; [reflexivity|]. simpl. rewrite IH. f_equal.
  destruct acc as [s|]; simpl; [now apply expand_step_x_eq | reflexivity].
Qed.

Lemma expand_keys_x_eq u D G given k0 : minimal_required_ok u = true ->
  expand_keys_x u D G given k0 = expand_keys_r u D G given k0.
Proof.
  intro MR. unfold expand_keys_x, expand_keys_r, expand_loop_x, expand_loop_r.
  destruct (glookup G); auto. now apply expand_loop_x_eq.
Qed.

Lemma expand_x_eq u D given d : minimal_required_ok u = true -> expand_x u D given d = expand_r u D given d.
Proof. intro MR. unfold expand_x, expand_r. now rewrite expand_keys_x_eq. Qed.

(* the code-exact model and the model the C13 theorems are stated over are the same function *)
Lemma expand_data_id_x_eq_p u D given dims mp kw df : minimal_required_ok u = true ->
  expand_data_id_x u D given dims mp kw df = expand_data_id_r u D given dims mp kw df.
Proof.
  intro MR. unfold expand_data_id_x, expand_data_id_r. destruct (standardize u dims mp kw df); simpl; [|reflexivity].
  now apply expand_x_eq.
Qed.

Lemma expand_data_id_x_plain_p u D dims mp kw df : minimal_required_ok u = true ->
  expand_data_id_x u D [] dims mp kw df = expand_data_id u D dims mp kw df.
Proof. intro MR. rewrite expand_data_id_x_eq_p by exact MR. apply expand_data_id_r_nil_p. Qed.

Lemma expand_data_id_dc_x_eq_p u D given dims d kw df : minimal_required_ok u = true ->
  expand_data_id_dc_x u D given dims d kw df = expand_data_id_dc u D given dims d kw df.
Proof.
  intro MR. unfold expand_data_id_dc_x, expand_data_id_dc. destruct (standardize_dc u dims d kw df); simpl; [|reflexivity].
  now apply expand_x_eq.
Qed.
