(* C14 proofs, conversion layer (wave 6): the visitor methods REGENERATED from queries/_expression_strings.py
   (Gen/ConvGen.v), folded over the tree as exprTree.py's Node.visit does (Model/ConvVisit.v `visit`), return exactly what the
   hand model says -- ParserConv.of_tree followed by C05's SqlExpr.conv / ctype -- on every tree that of_tree converts. *)
From Coq Require Import ZArith List Bool String Ascii NArith Lia.
From V Require Import Base.Tri Gen.TimespanGen Model.Expr Model.SqlExpr Model.Lexer Model.ExprTree Model.Parser Model.ParserConv
  Model.ConvPrims Gen.ConvGen Model.ConvVisit Proofs.ParserProofs.
Import ListNotations.
Open Scope string_scope.

(* ------------------------------------------------------------------ numeric literals: int(text), else float(text) *)
Lemma span_all_iff : forall l ip r, span is_digit l = (ip, r) ->
  (r = [] -> forallb is_digit l = true /\ ip = l) /\ (forallb is_digit l = true -> r = [] /\ ip = l).
Proof.
  induction l as [|c l IH]; simpl; intros ip r E.
  - inversion E; subst. split; auto.
  - destruct (is_digit c) eqn:D.
    + destruct (span is_digit l) as [a b] eqn:S. inversion E; subst.
      destruct (IH a r eq_refl) as [I1 I2]. split.
      * intros R. destruct (I1 R) as [F Q]. subst. split; auto.
      * intros F. simpl in F. destruct (I2 F) as [R Q]. subst. split; auto.
    + inversion E; subst. split; [discriminate|]. simpl. discriminate.
Qed.

Theorem gen_numeric_rule_p : forall s, gen_visitNumericLiteral s = Ok (XCol (ELit (num_value s))).
Proof.
  intros s. unfold gen_visitNumericLiteral. do 3 f_equal.
  unfold py_int, py_float, num_value, split_sign.
  set (l := list_ascii_of_string s).
  assert (K : forall sg l1,
    match (match l1 with [] => None | _ :: _ => if forallb is_digit l1 then Some (sg * digits_val l1)%Z else None end) with
    | Some z => VInt z
    | None =>
        let '(ip, r1) := span is_digit l1 in
        let '(fp, r2) := match r1 with "."%char :: r' => span is_digit r' | _ => ([], r1) end in
        let mant := (sg * digits_val (ip ++ fp)%list)%Z in
        let sc := (exp_value r2 - Z.of_nat (List.length fp))%Z in
        if (0 <=? sc)%Z then VReal (mant * Z.pow 10 sc) 1 else VReal mant (Z.to_pos (Z.pow 10 (- sc)))
    end =
    (let '(ip, r1) := span is_digit l1 in
     match ip, r1 with
     | _ :: _, [] => VInt (sg * digits_val ip)
     | _, _ =>
        let '(fp, r2) := match r1 with "."%char :: r' => span is_digit r' | _ => ([], r1) end in
        let mant := (sg * digits_val (ip ++ fp)%list)%Z in
        let sc := (exp_value r2 - Z.of_nat (List.length fp))%Z in
        if (0 <=? sc)%Z then VReal (mant * Z.pow 10 sc) 1 else VReal mant (Z.to_pos (Z.pow 10 (- sc)))
     end)).
  { intros sg l1. destruct (span is_digit l1) as [ip r1] eqn:S.
    destruct (span_all_iff _ _ _ S) as [I1 I2].
    destruct l1 as [|c l1].
    - simpl in S. inversion S; subst. reflexivity.
    - destruct (forallb is_digit (c :: l1)) eqn:F.
      + destruct (I2 eq_refl) as [R Q]. subst. reflexivity.
      + destruct ip as [|i ip]; [reflexivity|]. destruct r1 as [|x r1]; [|reflexivity].
        destruct (I1 eq_refl) as [F' _]. congruence. }
  destruct l as [|c l'].
  - apply (K 1%Z []).
  - destruct (Ascii.eqb c "-"%char) eqn:E1; [apply Ascii.eqb_eq in E1; subst; apply (K (-1)%Z l')|].
    destruct (Ascii.eqb c "+"%char) eqn:E2; [apply Ascii.eqb_eq in E2; subst; apply (K 1%Z l')|].
    assert (Hc : (match c with "-"%char => ((-1)%Z, l') | "+"%char => (1%Z, l') | _ => (1%Z, c :: l') end) = (1%Z, c :: l')).
    { destruct c as [[|] [|] [|] [|] [|] [|] [|] [|]]; try reflexivity; discriminate. }
    rewrite Hc. apply (K 1%Z (c :: l')).
Qed.

(* ------------------------------------------------------------------ str.lower() twice *)
Lemma lower_char_idem : forall c, lower_char (lower_char c) = lower_char c.
Proof. intros c. destruct c as [[|] [|] [|] [|] [|] [|] [|] [|]]; reflexivity. Qed.

Lemma lower_idem : forall s, lower (lower s) = lower s.
Proof.
  intros s. unfold lower. rewrite list_ascii_of_string_of_list_ascii, map_map. f_equal.
  apply map_ext. intros c. apply lower_char_idem.
Qed.

(* ------------------------------------------------------------------ what the hand model says a converted expression is *)
Inductive cls (e : expr) : Prop :=
  | CNull : e = ENull -> cls e
  | CPredCol : forall c, e = ECol c TyBool -> cls e
  | CPred : forall f, is_ENull e = false -> conv e = Some f -> ctype e = None -> get_bool_ref f = None -> null_operand e = false -> cls e
  | CCol : forall t, is_ENull e = false -> conv e = None -> ctype e = Some t -> cls e
  | CBad : is_ENull e = false -> conv e = None -> ctype e = None -> null_operand e = false -> cls e.

Lemma conv_items_noref : forall a ta its acc f, conv_items a ta its acc = Some f -> get_bool_ref acc = None -> get_bool_ref f = None.
Proof.
  intros a ta. induction its as [|it its IH]; simpl; intros acc f H N.
  - inversion H; subst; auto.
  - destruct (conv_item a ta it); [|discriminate]. eapply IH; eauto.
Qed.

Lemma conv_shape : forall e f, conv e = Some f ->
  is_ENull e = false /\ ctype e = None /\ ((exists c, e = ECol c TyBool) \/ (get_bool_ref f = None /\ null_operand e = false)).
Proof.
  intros e f C. destruct e; simpl in C; try discriminate C.
  - destruct t; try discriminate C. repeat split; eauto.
  - repeat split; try reflexivity. right. split; [|reflexivity].
    destruct (is_ENull e2); [destruct (null_operand e1); [destruct o|]|
      destruct (is_ENull e1); [destruct (null_operand e2); [destruct o|]|
        destruct (ctype e1); [destruct (ctype e2); [destruct (cmp_ok o t t0)|]|]]];
      try discriminate C; inversion C; reflexivity.
  - repeat split; try reflexivity. right. split; [|reflexivity].
    destruct (ctype e1) as [[]|]; try discriminate C; destruct (ctype e2) as [[]|]; try discriminate C; inversion C; reflexivity.
  - repeat split; try reflexivity. right. split; [|reflexivity].
    destruct (ctype e) as [ta|]; [|discriminate C].
    destruct (conv_items e ta its (BConst false)) as [g|] eqn:CI; [|discriminate C].
    pose proof (conv_items_noref _ _ _ _ _ CI eq_refl) as N.
    inversion C; subst. destruct neg; auto.
  - repeat split; try reflexivity. right. split; [|reflexivity].
    destruct (conv e); inversion C; reflexivity.
  - repeat split; try reflexivity. right. split; [|reflexivity].
    destruct (conv e1); [destruct (conv e2)|]; inversion C; reflexivity.
  - repeat split; try reflexivity. right. split; [|reflexivity].
    destruct (conv e1); [destruct (conv e2)|]; inversion C; reflexivity.
Qed.

Lemma classify_expr : forall e, cls e.
Proof.
  intros e. destruct (conv e) as [f|] eqn:C.
  - destruct (conv_shape _ _ C) as [N [T [[c E]|[G O]]]].
    + eapply CPredCol; eauto.
    + eapply CPred; eauto.
  - assert (N : is_ENull e = false \/ e = ENull) by (destruct e; auto).
    destruct N as [N|N]; [|apply CNull; auto].
    destruct (ctype e) as [t'|] eqn:T; [eapply CCol; eauto|].
    eapply CBad; eauto. unfold null_operand. rewrite T. destruct e; try reflexivity.
    destruct t; try reflexivity; discriminate C.
Qed.

Lemma rep_cls : forall e, cls e ->
  match rep e with
  | Ok XNull => e = ENull
  | Ok (XPred f) => conv e = Some f /\ is_ENull e = false /\ ctype e = None
  | Ok (XCol x) => x = e /\ conv e = None /\ is_ENull e = false /\ exists t, ctype e = Some t
  | Invalid => conv e = None /\ ctype e = None /\ is_ENull e = false
  | _ => False
  end.
Proof.
  intros e [E|c E|f N C T G O|t N C T|N C T O]; subst; simpl; auto.
  - unfold rep. destruct e; try discriminate N; rewrite C; auto.
  - unfold rep. destruct e; try discriminate N; rewrite C, T; eauto 6.
  - unfold rep. destruct e; try discriminate N; rewrite C, T; auto.
Qed.

Section Agree.
  Variable res : string -> option rid.
  Variable bound : string -> bool.
  Variable tns : string -> Z.
  Notation oft := (of_tree res bound tns).
  Notation vis := (visit res bound tns).

  Lemma rep_pred : forall e f, is_ENull e = false -> conv e = Some f -> rep e = Ok (XPred f).
  Proof. intros e f N C. unfold rep. destruct e; try discriminate N; rewrite C; reflexivity. Qed.
  Lemma rep_col : forall e t, is_ENull e = false -> conv e = None -> ctype e = Some t -> rep e = Ok (XCol e).
  Proof. intros e t N C T. unfold rep. destruct e; try discriminate N; rewrite C, T; reflexivity. Qed.
  Lemma rep_bad : forall e, is_ENull e = false -> conv e = None -> ctype e = None -> rep e = Invalid.
  Proof. intros e N C T. unfold rep. destruct e; try discriminate N; rewrite C, T; reflexivity. Qed.

  Ltac fin :=
    repeat (unfold p_binexpr, p_compare, p_unexpr, p_in_range, p_in_container, p_is_null, gen_convert_comparison_operator, rbind; simpl;
      repeat match goal with
      | H : ?x = _ |- context[?x] => rewrite H
      end);
    try reflexivity.

  Lemma binary_ok : forall o a b,
    rbind (rep a) (fun ra => rbind (rep b) (fun rb => gen_visitBinaryOp o ra rb)) = rep (mk_bin o a b).
  Proof.
    intros o a b.
    destruct (classify_expr a) as [?|ca ?|fa Na Ca Ta Ga Oa|ta Na Ca Ta|Na Ca Ta Oa]; subst;
    destruct (classify_expr b) as [?|cb ?|fb Nb Cb Tb Gb Ob|tb Nb Cb Tb|Nb Cb Tb Ob]; subst;
    try rewrite (rep_pred _ _ Na Ca); try rewrite (rep_pred _ _ Nb Cb);
    try rewrite (rep_col _ _ Na Ca Ta); try rewrite (rep_col _ _ Nb Cb Tb);
    try rewrite (rep_bad _ Na Ca Ta); try rewrite (rep_bad _ Nb Cb Tb);
    destruct o; unfold rep; fin.
    all: try (destruct ta; try reflexivity; destruct tb; reflexivity).
    all: try (destruct tb; reflexivity).
    all: try (unfold null_operand; fin).
  Qed.

  Lemma unary_ok : forall o e, o <> UPlus ->
    rbind (rep e) (gen_visitUnaryOp o) = rep (match o with UMinus => ENeg e | _ => ENot e end).
  Proof.
    intros o e NP.
    destruct (classify_expr e) as [?|ca ?|fa Na Ca Ta Ga Oa|ta Na Ca Ta|Na Ca Ta Oa]; subst;
    try rewrite (rep_pred _ _ Na Ca); try rewrite (rep_col _ _ Na Ca Ta); try rewrite (rep_bad _ Na Ca Ta);
    destruct o; try congruence; unfold rep, ctype_in; fin.
    all: try (unfold ctype_in; rewrite Ta; destruct ta; reflexivity).
  Qed.

  Lemma uplus_ok : forall e t, ctype e = Some t -> numeric t = true -> rbind (rep e) (gen_visitUnaryOp UPlus) = rep e.
  Proof.
    intros e t T NU.
    destruct (classify_expr e) as [?|ca ?|fa Na Ca Ta Ga Oa|ta Na Ca Ta|Na Ca Ta Oa]; subst; try discriminate T; try congruence.
    rewrite (rep_col _ _ Na Ca Ta). simpl. unfold ctype_in. rewrite Ta.
    rewrite T in Ta. inversion Ta; subst. destruct ta; try discriminate NU; reflexivity.
  Qed.

  (* ---------------------------------------------------------------- IN lists *)
  Lemma in_item_ok : forall a ta it, ctype a = Some ta ->
    gen_convert_in_clause_to_predicate a (item_vres it) = match conv_item a ta it with Some p => Ok p | None => Invalid end.
  Proof.
    intros a ta it T. destruct it as [v|c t|s e st|vs|]; simpl.
    - unfold p_compare. simpl. rewrite T. destruct v; simpl; try reflexivity;
        try (destruct (cmp_ok CEq ta _); reflexivity); try (rewrite andb_false_r; reflexivity).
    - destruct t; simpl; unfold p_compare; simpl; rewrite ?T; try (destruct (cmp_ok CEq ta _); reflexivity);
        try (rewrite andb_false_r; reflexivity).
    - destruct st as [k|]; simpl; unfold p_in_range; rewrite T; simpl; rewrite Z.add_simpl_r;
        destruct (ty_eqb ta TyInt && _ && _); reflexivity.
    - unfold p_in_container. rewrite T. destruct (negb (ty_eqb ta TySpan) && _); reflexivity.
    - reflexivity.
  Qed.

  Lemma in_items_ok : forall A (K : bform -> ConvPrims.res A) a ta its acc, ctype a = Some ta ->
    rbind (rmap (fun rhs => rbind (gen_convert_in_clause_to_predicate a rhs) (fun c => Ok c)) (map item_vres its))
          (fun ps => K (fold_left SqlExpr.BOr ps acc))
    = match conv_items a ta its acc with Some f => K f | None => Invalid end.
  Proof.
    intros A K a ta its. induction its as [|it its IH]; intros acc T; simpl; [reflexivity|].
    rewrite (in_item_ok a ta it T). destruct (conv_item a ta it) as [p|]; simpl; [|reflexivity].
    specialize (IH (SqlExpr.BOr acc p) T).
    destruct (rmap _ (map item_vres its)) as [ps| |]; simpl in *; exact IH.
  Qed.

  Lemma rbind_ok_r : forall A (x : ConvPrims.res A), rbind x (fun v => Ok v) = x.
  Proof. intros A [a| |]; reflexivity. Qed.

  Lemma isin_ok : forall a its ng,
    rbind (rep a) (fun ra => gen_visitIsIn ra (map item_vres its) ng) = rep (EIn a its ng).
  Proof.
    intros a its ng.
    destruct (classify_expr a) as [?|ca ?|fa Na Ca Ta Ga Oa|ta Na Ca Ta|Na Ca Ta Oa]; subst;
    try rewrite (rep_pred _ _ Na Ca); try rewrite (rep_col _ _ Na Ca Ta); try rewrite (rep_bad _ Na Ca Ta);
    unfold rep; simpl; rewrite ?Ta; try reflexivity.
    pose (K := fun f : bform => if ng then Ok (XPred (SqlExpr.BNot f)) else Ok (XPred f)).
    pose proof (in_items_ok _ K a ta its (BConst false) Ta) as H.
    unfold gen_visitIsIn. simpl. unfold K in H. cbv zeta. rewrite H.
    destruct (conv_items a ta its (BConst false)); [destruct ng|]; reflexivity.
  Qed.

  Definition vlist := fix vl (ts : list tree) : ConvPrims.res (list vres) :=
    match ts with
    | [] => Ok []
    | x :: r => rbind (vis x) (fun y => rbind (vl r) (fun ys => Ok (y :: ys)))
    end.

  Lemma rid_item_ok : forall r it, item_of_rid r = IOk it -> vres_of_rid r = Ok (item_vres it).
  Proof. intros [[c t| | | | | |]|] it H; simpl in H; inversion H; subst; try reflexivity. destruct t; reflexivity. Qed.

  Lemma bind_ok : forall s, gen_visitBind bound (ident res) s = vres_of_rid (lookup_bind res bound s).
  Proof.
    intros s. unfold gen_visitBind, lookup_bind, ident. rewrite lower_idem.
    destruct (bound (lower s)); simpl; [apply rbind_ok_r | reflexivity].
  Qed.

  Lemma item_ok : forall t it, of_item res bound tns t = IOk it -> vis t = Ok (item_vres it).
  Proof.
    intros t it H. destruct t; simpl in H; try discriminate H; try (inversion H; subst; reflexivity).
    - inversion H; subst. simpl. apply gen_numeric_rule_p.
    - simpl. unfold ident. apply rid_item_ok. exact H.
    - simpl. rewrite bind_ok. apply rid_item_ok. exact H.
  Qed.

  Lemma items_ok : forall vs its, of_items res bound tns vs = Some (Some its) -> vlist vs = Ok (map item_vres its).
  Proof.
    induction vs as [|v vs IH]; simpl; intros its H.
    - inversion H; subst. reflexivity.
    - destruct (of_item res bound tns v) as [it| |] eqn:I; try discriminate H.
      destruct (of_items res bound tns vs) as [[its'|]|]; try discriminate H.
      inversion H; subst. rewrite (item_ok _ _ I). simpl. rewrite (IH its' eq_refl). reflexivity.
  Qed.

  Lemma num_value_numeric : forall s, (exists z, num_value s = VInt z) \/ (exists n d, num_value s = VReal n d).
  Proof.
    intros s.
    assert (E : num_value s = match py_int s with Some z => VInt z | None => py_float s end).
    { pose proof (gen_numeric_rule_p s) as H. unfold gen_visitNumericLiteral in H. cbv zeta in H. congruence. }
    rewrite E. destruct (py_int s); [eauto|]. right.
    unfold py_float. destruct (split_sign _) as [sg l1]. destruct (span is_digit l1) as [ip r1].
    destruct (match r1 with "."%char :: r' => span is_digit r' | _ => ([], r1) end) as [fp r2].
    cbv zeta. destruct (0 <=? _)%Z; eauto.
  Qed.

  (* identifier resolution never yields a boolean LITERAL (make_column_literal(True) is an int literal) *)
  Hypothesis res_wf : forall n b, res n <> Some (RLit (VBool b)).

  Lemma rid_ok : forall n e, of_rid (res n) = TConv e -> vres_of_rid (res n) = rep e.
  Proof.
    intros n e H. pose proof (res_wf n) as W. destruct (res n) as [[c t| | | | v| |]|]; simpl in H; inversion H; subst; try reflexivity.
    - destruct t; reflexivity.
    - destruct v; try reflexivity. exfalso. eapply W; reflexivity.
  Qed.

  Theorem gen_conv_agrees_p : forall t e, oft t = TConv e -> vis t = rep e.
  Proof.
    intros t. induction t using tree_ind2; intros e HC.
    - simpl in HC. inversion HC; subst. simpl. rewrite gen_numeric_rule_p.
      destruct (num_value_numeric s) as [[z Q]|[n [d Q]]]; rewrite Q; reflexivity.
    - simpl in HC. inversion HC; subst. reflexivity.
    - simpl in HC. inversion HC; subst. reflexivity.
    - discriminate HC.
    - simpl in *. unfold ident, lookup_ident in *. apply rid_ok. exact HC.
    - simpl in *. rewrite bind_ok. unfold lookup_bind in *. destruct (bound (lower s)); [apply rid_ok; exact HC | discriminate HC].
    - simpl in HC. destruct (oft t) as [e0| |] eqn:O; try (destruct o; discriminate HC).
      simpl. rewrite (IHt e0 eq_refl). destruct o; simpl in HC.
      + destruct (ctype e0) as [ty0|] eqn:T; [|discriminate HC]. destruct (numeric ty0) eqn:NU; [|discriminate HC].
        inversion HC; subst. eapply uplus_ok; eauto.
      + inversion HC; subst. apply (unary_ok UMinus e0). discriminate.
      + inversion HC; subst. apply (unary_ok UNot e0). discriminate.
    - simpl in HC. destruct (oft t1) as [a| |] eqn:O1; try discriminate HC. destruct (oft t2) as [b| |] eqn:O2; try discriminate HC.
      simpl in HC. inversion HC; subst. simpl. rewrite (IHt1 a eq_refl), (IHt2 b eq_refl). apply binary_ok.
    - simpl in HC. destruct (oft t) as [a| |] eqn:O1; try discriminate HC. simpl in HC.
      destruct (of_items res bound tns vs) as [[its|]|] eqn:OI; try discriminate HC. inversion HC; subst.
      change (vis (IsIn t vs neg)) with (rbind (vis t) (fun a => rbind (vlist vs) (fun rs => gen_visitIsIn a rs neg))).
      rewrite (IHt a eq_refl), (items_ok _ _ OI). simpl. apply isin_ok.
    - simpl in *. rewrite (IHt e HC). apply rbind_ok_r.
    - simpl in HC. destruct (oft t1) as [a| |] eqn:O1; try discriminate HC. destruct (oft t2) as [b| |] eqn:O2; try discriminate HC.
      simpl in HC. simpl. rewrite (IHt1 a eq_refl), (IHt2 b eq_refl).
      destruct a as [[]| | | | | | | | | | | |]; simpl in HC; try discriminate HC;
        destruct b as [[]| | | | | | | | | | | |]; simpl in HC; try discriminate HC; inversion HC; subst; reflexivity.
    - simpl in HC. destruct (oft t1) as [a| |] eqn:O1; try discriminate HC. destruct (oft t2) as [b| |] eqn:O2; try discriminate HC.
      simpl in HC. destruct (is_num_lit a && is_num_lit b); discriminate HC.
    - discriminate HC.
  Qed.
End Agree.

(* ------------------------------------------------------------------ corollaries *)
Section Corollaries.
  Variable res : string -> option rid.
  Variable bound : string -> bool.
  Variable tns : string -> Z.
  Hypothesis res_wf : forall n b, res n <> Some (RLit (VBool b)).

  (* the Predicate the regenerated visitor builds is the one of C05's model, leaf for leaf *)
  Theorem gen_predicate_is_conv_p : forall t e f, of_tree res bound tns t = TConv e -> conv e = Some f ->
    visit res bound tns t = Ok (XPred f).
  Proof.
    intros t e f O C. rewrite (gen_conv_agrees_p res bound tns res_wf t e O).
    destruct (conv_shape _ _ C) as [N _]. apply rep_pred; assumption.
  Qed.

  (* ... and it returns a Predicate exactly when conv accepts *)
  Theorem gen_accepts_iff_conv_p : forall t e, of_tree res bound tns t = TConv e ->
    gen_accepts res bound tns t = Some (match conv e with Some _ => true | None => false end).
  Proof.
    intros t e O. unfold gen_accepts. rewrite (gen_conv_agrees_p res bound tns res_wf t e O).
    destruct (classify_expr e) as [?|ca ?|fa Na Ca Ta Ga Oa|ta Na Ca Ta|Na Ca Ta Oa]; subst; try reflexivity.
    - rewrite (rep_pred _ _ Na Ca), Ca. reflexivity.
    - rewrite (rep_col _ _ Na Ca Ta), Ca. reflexivity.
    - rewrite (rep_bad _ Na Ca Ta), Ca. reflexivity.
  Qed.

  (* the verdict of the hand model is the verdict of the regenerated visitor *)
  Theorem gen_verdict_p : forall t e, of_tree res bound tns t = TConv e -> has_span_eq e = false ->
    tree_verdict res bound tns t = match gen_accepts res bound tns t with Some true => Accept | _ => Reject end.
  Proof.
    intros t e O S. rewrite (gen_accepts_iff_conv_p t e O). unfold tree_verdict. rewrite O, S.
    destruct (conv e); reflexivity.
  Qed.
End Corollaries.

(* a range literal a..b:s of an IN list becomes Predicate.in_range(member, a, b + 1, s): C05's leaf with the INCLUSIVE stop b *)
Theorem gen_range_stop_p : forall m a b st, ctype m = Some TyInt -> (1 <= stride_of st)%Z -> (a <= b + 1)%Z ->
  gen_convert_in_clause_to_predicate m (XRange a b st) = Ok (BLeaf (LInRange m a b (stride_of st))).
Proof.
  intros m a b st T S L. change (XRange a b st) with (item_vres (IRange a b st)).
  rewrite (in_item_ok m TyInt (IRange a b st) T).
  apply Z.leb_le in S. apply Z.leb_le in L. simpl. rewrite S, L. reflexivity.
Qed.

Theorem gen_null_comparison_p : forall a,
  gen_visitBinaryOp BEq (XCol a) XNull = Ok (XPred (BLeaf (LIsNull a))) /\
  gen_visitBinaryOp BNe (XCol a) XNull = Ok (XPred (BNot (BLeaf (LIsNull a)))) /\
  gen_visitBinaryOp BEq XNull (XCol a) = Ok (XPred (BLeaf (LIsNull a))) /\
  gen_visitBinaryOp BNe XNull (XCol a) = Ok (XPred (BNot (BLeaf (LIsNull a)))) /\
  gen_visitBinaryOp BLt (XCol a) XNull = Invalid /\ gen_visitBinaryOp BEq XNull XNull = Invalid.
Proof. intros a. repeat split; reflexivity. Qed.

(* shapes the visitor refuses whatever the operand types *)
Theorem gen_refused_shapes_p : forall o a b st vs f args x,
  gen_visitBinaryOp o (XRange a b st) x = Invalid /\ gen_visitBinaryOp o x (XRange a b st) = Invalid /\
  gen_visitBinaryOp o (XSeq vs) x = Invalid /\ gen_visitBinaryOp o x (XSeq vs) = Invalid /\
  (forall u, gen_visitUnaryOp u (XRange a b st) = Invalid /\ gen_visitUnaryOp u (XSeq vs) = Invalid /\ gen_visitUnaryOp u XNull = Invalid) /\
  gen_visitFunctionCall f args = Invalid /\
  (forall ng rs, gen_visitIsIn (XRange a b st) rs ng = Invalid /\ gen_visitIsIn XNull rs ng = Invalid /\ gen_visitIsIn (XSeq vs) rs ng = Invalid) /\
  (forall ra, gen_visitTupleNode [ra] = Invalid) /\ gen_visitTupleNode [XRange a b st; x] = Invalid.
Proof.
  intros. repeat split; try reflexivity; try (destruct o, x; reflexivity); try (destruct u; reflexivity).
Qed.
