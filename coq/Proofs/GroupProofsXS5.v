(* lookup_order with one skypix dimension: for every skypix dimension and every subset of the others *)
From Coq Require Import String List Bool Arith Lia.
From V Require Import Model.Universe Model.Group Model.GroupX Gen.Universes Proofs.GroupProofs Proofs.GroupProofsShipped Proofs.GroupProofsXS Proofs.GroupProofsXS0 Proofs.GroupProofsXS1 Proofs.GroupProofsXS2 Proofs.GroupProofsXS3 Proofs.GroupProofsXS4.
Import ListNotations.
Open Scope string_scope.
Open Scope list_scope.

Lemma skypix_known (u : universe) s : In s (skypix_names u) -> In s (names_of u).
Proof. unfold skypix_names. apply filtered_known. Qed.

Lemma skypix_lookup_parts : forall k, k < 4 -> skypix_lookup_okb u_current (sky_part k) cl_current = true.
Proof.
  intros k Hk. destruct k as [|[|[|[|k]]]].
  - exact skypix_lookup_part0.
  - exact skypix_lookup_part1.
  - exact skypix_lookup_part2.
  - exact skypix_lookup_part3.
  - exfalso. lia.
Qed.

Lemma one_skypix_p :
  forall s S, In s (skypix_names u_current) -> In S (all_subsets (nonskypix_dimension_names u_current)) ->
  exists g, mkgroup u_current (s :: S) = GOk g /\ lookup_okb u_current g = true.
Proof.
  intros s S Hs HS. pose proof skypix_lookup_parts as Hparts.
  pose proof (closures_tabulated_p S HS) as HB.
  unfold closure_in in HB. destruct (closure u_current S) as [C| |] eqn:HC; try discriminate.
  apply existsb_exists in HB as [C' [HC' E]]. apply list_eqb_eq in E. subst C'.
  destruct (sky_parts s Hs) as [k [Hk Hin]]. specialize (Hparts k Hk).
  unfold skypix_lookup_okb in Hparts. rewrite forallb_forall in Hparts. specialize (Hparts s Hin).
  rewrite forallb_forall in Hparts. specialize (Hparts C HC').
  rewrite (mkgroup_cons_closure u_current s S C current_wf_p (skypix_known u_current s Hs) HC).
  unfold group_okb in Hparts. destruct (mkgroup u_current (s :: C)) as [g| |]; try discriminate. eauto.
Qed.
