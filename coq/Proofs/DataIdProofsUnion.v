(* union commutes when the operands agree on their common keys (data IDs without attached records). *)
From Coq Require Import String List Bool Arith ZArith Lia.
From V Require Import Model.Universe Model.DataId Proofs.GroupProofs Proofs.DataIdProofs.
Import ListNotations.
Open Scope string_scope.
Open Scope list_scope.

(* the documented precondition: "unspecified on conflicting common keys" made explicit *)
Definition agree_on_common (a b : dataid) : Prop :=
  forall k va vb, dc_get a k = Some va -> dc_get b k = Some vb -> va = vb.

(* the value tuple really holds the required values under the required keys (true of everything standardize returns) *)
Definition has_required (d : dataid) : Prop :=
  map_opt (dc_get d) (grequired (dgroup d)) = Some (required_values d).

Lemma std_core_has_required u l G m d : mkgroup u l = GOk G -> std_core G m = Ok d -> has_required d.
Proof.
  intros HG H. unfold has_required. destruct (std_core_inv _ _ _ H) as [EG _]. rewrite EG.
  rewrite <- (required_values_std _ _ _ _ _ HG H). apply map_opt_ext_in.
  intros k Hk. now destruct (std_core_required _ _ _ _ _ _ HG H Hk).
Qed.

Lemma standardize_has_required_p u dims mp kw df d : standardize u dims mp kw df = Ok d -> has_required d.
Proof. intro H. apply standardize_inv in H as (G & HG & H). eapply std_core_has_required; eauto. Qed.

Lemma union_plain_strong u la lb a b c :
  mkgroup u la = GOk (dgroup a) -> mkgroup u lb = GOk (dgroup b) -> drecs a = None ->
  has_required a -> has_required b -> union u a b = Ok c ->
  exists G, gunion u (dgroup a) (dgroup b) = GOk G /\ dgroup c = G /\ has_required c /\
    forall k v, dc_get c k = Some v -> dc_get b k = Some v \/ dc_get a k = Some v.
Proof.
  intros Ha Hb R Wa Wb H. unfold union in H.
  destruct (gunion u (dgroup a) (dgroup b)) as [G| |] eqn:U; simpl in H; try discriminate.
  exists G. split; [reflexivity|]. rewrite R in H. unfold gunion in U.
  assert (forall c, std_core G (dmapping b ++ dmapping a) = Ok c ->
            dgroup c = G /\ has_required c /\ forall k v, dc_get c k = Some v -> dc_get b k = Some v \/ dc_get a k = Some v) as M.
  { intros c0 Hc. destruct (std_core_inv _ _ _ Hc) as [EG _]. split; [exact EG|]. split; [eapply std_core_has_required; eauto|].
    intros k v Hk. apply (std_core_restricts _ _ _ _ _ Hc) in Hk. rewrite aget_app in Hk.
    unfold dc_get. destruct (aget (dmapping b) k); [left; exact Hk | right; exact Hk]. }
  assert (forall x lx, mkgroup u lx = GOk (dgroup x) -> geqb (dgroup x) G = true -> dgroup x = G) as EQ.
  { intros x lx Hx E. apply list_eqb_eq in E. eapply group_ext; eauto. intro y. now rewrite E. }
  destruct (dfull a).
  - destruct (geqb (dgroup b) G && has_recs b) eqn:E1.
    + inversion H; subst. apply andb_true_iff in E1 as [E1 _]. repeat split; eauto.
    + destruct (geqb (dgroup a) G && negb (has_recs b)) eqn:E2.
      * inversion H; subst. apply andb_true_iff in E2 as [E2 _]. repeat split; eauto.
      * now apply M.
  - destruct (geqb (dgroup b) G) eqn:E1.
    + inversion H; subst. repeat split; eauto.
    + now apply M.
Qed.

Lemma union_commutes_p u la lb a b c1 c2 : wf_universe u = true ->
  mkgroup u la = GOk (dgroup a) -> mkgroup u lb = GOk (dgroup b) -> drecs a = None -> drecs b = None ->
  has_required a -> has_required b -> agree_on_common a b ->
  union u a b = Ok c1 -> union u b a = Ok c2 -> dc_eq c1 c2 = true.
Proof.
  intros W Ha Hb Ra Rb Wa Wb AG U1 U2.
  destruct (union_plain_strong _ _ _ _ _ _ Ha Hb Ra Wa Wb U1) as (G1 & HG1 & E1 & R1 & P1).
  destruct (union_plain_strong _ _ _ _ _ _ Hb Ha Rb Wb Wa U2) as (G2 & HG2 & E2 & R2 & P2).
  assert (G2 = G1) as ->.
  { unfold gunion in *. assert (mkgroup u (gnames (dgroup b) ++ gnames (dgroup a)) = GOk G1) as H.
    { eapply group_canonical_p; eauto. intro x. rewrite !in_app_iff. tauto. }
    rewrite H in HG2. now inversion HG2. }
  apply dc_eq_spec. rewrite E1, E2. split; [reflexivity|].
  unfold has_required in R1, R2. rewrite E1 in R1. rewrite E2 in R2.
  apply (map_opt_eq_iff _ _ _ _ _ R1 R2). intros k Hk.
  destruct (map_opt_all _ _ _ R1 k Hk) as [v1 H1]. destruct (map_opt_all _ _ _ R2 k Hk) as [v2 H2].
  rewrite H1, H2. f_equal.
  destruct (P1 _ _ H1) as [S1|S1], (P2 _ _ H2) as [S2|S2]; try congruence.
  - symmetry. eapply AG; eauto.
  - eapply AG; eauto.
Qed.

