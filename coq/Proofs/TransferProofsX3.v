(* C19 extender, part X3: a well-formed export is ACCEPTED by an empty target (more generally: by a target whose registry
   content is a part of the source's and that has no datastore records and no validity ranges).
   `wf rank s`: the invariants every repository built through the public API satisfies (unique ids, unique
   (type, data id, run), runs / types / dimension records of datasets exist, TAGGED memberships unique per
   (collection, type, data id), validity ranges of one (collection, type, data id) disjoint, chains acyclic -- witnessed
   by a rank function). *)
From Coq Require Import NArith PeanoNat List Bool Lia.
From V Require Import Model.Transfer Proofs.TransferProofs Proofs.TransferProofs2 Proofs.TransferProofsX1 Proofs.TransferProofsX2.
Import ListNotations.
Open Scope N_scope.

Fixpoint pairwise {A} (R : A -> A -> Prop) (l : list A) : Prop :=
  match l with [] => True | x :: r => (forall y, In y r -> R x y) /\ pairwise R r end.
Lemma pairwise_filter {A} (R : A -> A -> Prop) f l : pairwise R l -> pairwise R (filter f l).
Proof.
  induction l as [|x l IH]; simpl; [auto|]. intros [H1 H2]. destruct (f x); simpl; [|auto]. split; [|auto].
  intros y Hy. apply filter_In in Hy. apply H1. tauto.
Qed.

Definition calib_compat (s : state) (p q : N * N * (N * N)) : Prop :=
  forall d d', In d (dsets s) -> In d' (dsets s) -> d_id d = snd (fst p) -> d_id d' = snd (fst q) ->
    fst (fst p) = fst (fst q) -> d_type d = d_type d' -> d_data d = d_data d' -> ranges_overlap (snd p) (snd q) = false.

Record wf (rank : N -> nat) (s : state) : Prop := {
  wf_ids : forall d1 d2, In d1 (dsets s) -> In d2 (dsets s) -> d_id d1 = d_id d2 -> d1 = d2;
  wf_keys : forall d1 d2, In d1 (dsets s) -> In d2 (dsets s) -> same_key d1 d2 = true -> d1 = d2;
  wf_ds : forall d, In d (dsets s) ->
    lookup (d_run d) (colls s) = Some RUN /\ has_key (d_type d) (types s) = true /\ has_dims (d_data d) s = true;
  wf_tags : forall c n, In (c, n) (tags s) -> lookup c (colls s) = Some TAGGED;
  wf_tag_unique : forall c n1 n2 d1 d2, In (c, n1) (tags s) -> In (c, n2) (tags s) -> In d1 (dsets s) -> In d2 (dsets s) ->
    d_id d1 = n1 -> d_id d2 = n2 -> d_type d1 = d_type d2 -> d_data d1 = d_data d2 -> n1 = n2;
  wf_calibs : forall c n r, In (c, n, r) (calibs s) -> lookup c (colls s) = Some CALIB /\
    forall d, In d (dsets s) -> d_id d = n -> is_calib_type (d_type d) s = true;
  wf_calib_disjoint : pairwise (calib_compat s) (calibs s);
  wf_acyclic : forall c x, lookup c (colls s) = Some CHAINED -> In x (children_of c s) ->
    lookup x (colls s) = Some CHAINED -> (rank x < rank c)%nat
}.

(* the registry content of t is a part of the source's *)
Definition agrees (src t : state) : Prop :=
  (forall k c, lookup k (types t) = Some c -> lookup k (types src) = Some c) /\
  (forall c k, lookup c (colls t) = Some k -> lookup c (colls src) = Some k) /\
  (forall c l, lookup c (chains t) = Some l -> incl l (children_of c src)) /\
  incl (dsets t) (dsets src) /\ incl (tags t) (tags src).

Lemma agrees_empty src : agrees src empty.
Proof. repeat split; simpl; try discriminate; intros x []. Qed.

Lemma lookup_app_inv {A} k (l : list (N * A)) k' v c : lookup k (l ++ [(k', v)]) = Some c ->
  lookup k l = Some c \/ (k = k' /\ c = v).
Proof.
  destruct (lookup k l) eqn:El.
  - rewrite (lookup_app_some _ _ _ _ El). auto.
  - rewrite (lookup_app_none _ _ _ El). simpl. destruct (k =? k') eqn:E; [|discriminate].
    apply N.eqb_eq in E. intros H; inversion H. auto.
Qed.

(* ---------------------------------------------------------------- register succeeds *)
Lemma reg_type_ok src p t : agrees src t -> lookup (fst p) (types src) = Some (snd p) ->
  exists t', reg_type p t = ROk t' /\ agrees src t'.
Proof.
  intros (A1 & A2 & A3 & A4 & A5) Hp. unfold reg_type. destruct (lookup (fst p) (types t)) eqn:El.
  - apply A1 in El. rewrite Hp in El. inversion El; subst. rewrite N.eqb_refl. exists t. repeat split; auto.
  - eexists. split; [reflexivity|]. repeat split; simpl; auto. intros k c Hk. destruct p as [k' v]. apply lookup_app_inv in Hk.
    destruct Hk as [Hk|[-> ->]]; [auto | exact Hp].
Qed.
Lemma reg_types_ok src l : forall t, agrees src t -> (forall p, In p l -> lookup (fst p) (types src) = Some (snd p)) ->
  exists t1, reg_steps reg_type l t = (t1, None) /\ agrees src t1.
Proof.
  induction l as [|p l IH]; simpl; intros t Ha Hl; [eauto|].
  destruct (reg_type_ok src p t Ha (Hl p (or_introl eq_refl))) as (t' & E & Ha'). rewrite E. apply IH; auto.
Qed.

Lemma reg_coll_agrees src c k t : agrees src t -> lookup c (colls src) = Some k -> agrees src (reg_coll c k t).
Proof.
  intros (A1 & A2 & A3 & A4 & A5) Hc. unfold reg_coll. destruct (has_key c (colls t)); [repeat split; auto|].
  assert (Hco : forall c0 k0, lookup c0 (colls t ++ [(c, k)]) = Some k0 -> lookup c0 (colls src) = Some k0).
  { intros c0 k0 H0. apply lookup_app_inv in H0. destruct H0 as [H0|[-> ->]]; auto. }
  destruct k; repeat split; simpl; auto.
  intros c0 l0 H0. apply lookup_app_inv in H0. destruct H0 as [H0|[-> ->]]; [auto | intros x []].
Qed.
Lemma fold_reg_coll_agrees src (es : list (N * kind * list N)) : forall t, agrees src t ->
  (forall p, In p es -> lookup (cname p) (colls src) = Some (snd (fst p))) ->
  agrees src (fold_left (fun t p => reg_coll (fst (fst p)) (snd (fst p)) t) es t).
Proof.
  induction es as [|x es IH]; simpl; intros t Ha H; [exact Ha|]. apply IH; [|auto].
  apply reg_coll_agrees; [exact Ha | apply (H x (or_introl eq_refl))].
Qed.

Lemma reach_rank rank src t : agrees src t ->
  (forall c x, lookup c (colls src) = Some CHAINED -> In x (children_of c src) -> lookup x (colls src) = Some CHAINED -> (rank x < rank c)%nat) ->
  forall f cs x, In x (reach f t cs) -> exists c0, In c0 cs /\ lookup c0 (colls t) = Some CHAINED /\ (rank x <= rank c0)%nat.
Proof.
  intros (A1 & A2 & A3 & A4 & A5) Hac. induction f as [|f IH]; simpl; intros cs x Hx; [contradiction|].
  apply in_flat_map in Hx. destruct Hx as (c & Hc & Hx). destruct (lookup c (colls t)) as [[]|] eqn:Ek; try contradiction.
  destruct Hx as [<-|Hx]; [exists c; auto|].
  destruct (lookup c (chains t)) as [l|] eqn:El; [|destruct f; simpl in Hx; contradiction].
  apply IH in Hx. destruct Hx as (c1 & Hc1 & Hk1 & Hr). exists c. repeat split; auto.
  assert ((rank c1 < rank c)%nat); [|lia]. apply Hac; auto. apply (A3 c l El). exact Hc1.
Qed.

Lemma set_chain_ok rank src c t : agrees src t ->
  (forall c x, lookup c (colls src) = Some CHAINED -> In x (children_of c src) -> lookup x (colls src) = Some CHAINED -> (rank x < rank c)%nat) ->
  lookup c (colls src) = Some CHAINED -> has_key c (colls t) = true ->
  (forall x, In x (children_of c src) -> has_key x (colls t) = true) ->
  exists t', set_chain c (children_of c src) t = ROk t' /\ agrees src t' /\ colls t' = colls t.
Proof.
  intros Ha Hac Hc Hk Hch. pose proof Ha as (A1 & A2 & A3 & A4 & A5). unfold set_chain.
  assert (forallb (fun x => has_key x (colls t)) (children_of c src) = true) as -> by (apply forallb_forall; exact Hch).
  change (negb true) with false. cbv iota. destruct (memN c (reach (S (length (colls t))) t (children_of c src))) eqn:Em.
  - exfalso. apply memN_In in Em. apply (reach_rank rank src t Ha Hac) in Em. destruct Em as (c0 & H0 & K0 & R0).
    assert ((rank c0 < rank c)%nat); [|lia]. apply Hac; auto.
  - apply has_key_lookup in Hk. destruct Hk as [k Hk]. pose proof (A2 _ _ Hk) as Hk'. rewrite Hc in Hk'. inversion Hk'; subst k.
    rewrite Hk. eexists. split; [reflexivity|]. split; [|reflexivity]. repeat split; simpl; auto.
    intros c0 l0 H0. destruct (N.eq_dec c0 c) as [->|Hne].
    + rewrite lookup_set_key_same in H0. inversion H0; subst. apply incl_refl.
    + rewrite lookup_set_key_other in H0 by exact Hne. eauto.
Qed.

(* children of every chain entry are available (registered before, or an earlier entry) *)
Fixpoint ready (avail : list N) (es : list (N * kind * list N)) : Prop :=
  match es with [] => True | p :: r => (forall x, In x (snd p) -> In x avail) /\ ready (cname p :: avail) r end.

Lemma chain_steps_ok rank src :
  (forall c x, lookup c (colls src) = Some CHAINED -> In x (children_of c src) -> lookup x (colls src) = Some CHAINED -> (rank x < rank c)%nat) ->
  forall es avail t, agrees src t ->
  (forall p, In p es -> lookup (cname p) (colls src) = Some CHAINED /\ snd p = children_of (cname p) src) ->
  ready avail es -> (forall x, In x avail -> has_key x (colls t) = true) ->
  exists t0, reg_steps chain_step (chain_ops es) t = (t0, None) /\ agrees src t0.
Proof.
  intros Hac. induction es as [|[[c k] ch] es IH]; intros avail t Ha Hes Hr Hav; [simpl; eauto|].
  destruct (Hes _ (or_introl eq_refl)) as [Hc Hch]. unfold cname in Hc, Hch. simpl in Hc, Hch. subst ch.
  destruct Hr as [Hr1 Hr2]. simpl in Hr1. unfold cname in Hr2. simpl in Hr2.
  simpl. unfold chain_step at 1. simpl. set (ta := reg_coll c CHAINED t).
  unfold chain_step at 1. simpl.
  assert (Hta : agrees src ta) by (apply reg_coll_agrees; assumption).
  assert (Hmono : forall x, has_key x (colls t) = true -> has_key x (colls ta) = true).
  { intros x Hx. apply has_key_lookup in Hx. destruct Hx as [v Hv]. apply (lookup_has_key _ _ v). apply reg_coll_mono. exact Hv. }
  destruct (set_chain_ok rank src c ta Hta Hac Hc (reg_coll_has c CHAINED t)) as (tb & Es & Hb & Hcb).
  { intros x Hx. apply Hmono, Hav, Hr1, Hx. }
  rewrite Es. fold (chain_ops es). apply (IH (c :: avail)); auto.
  - intros p Hp. apply Hes. right. exact Hp.
  - intros x [<-|Hx]; rewrite Hcb; [apply reg_coll_has | apply Hmono, Hav, Hx].
Qed.

Lemma ready_of_ordered order : forall avail, ordered order ->
  (forall p x, In p order -> In x (snd p) -> In x avail \/ In x (names order)) ->
  ready avail (map (fun p => (fst p, CHAINED, snd p)) order).
Proof.
  induction order as [|p r IH]; simpl; intros avail Ho H; [exact I|]. destruct Ho as [O1 O2]. split.
  - intros x Hx. destruct (H p x (or_introl eq_refl) Hx) as [?|Hn]; [assumption|]. exfalso. apply (O1 x Hx). exact Hn.
  - unfold cname; simpl. apply IH; [exact O2|]. intros q x Hq Hx. destruct (H q x (or_intror Hq) Hx) as [?|[<-|?]]; simpl; auto.
Qed.

(* ---------------------------------------------------------------- topo succeeds on acyclic chains *)
Definition acyc (rank : N -> nat) (rem : list (N * list N)) : Prop :=
  forall p x, In p rem -> In x (snd p) -> In x (names rem) -> (rank x < rank (fst p))%nat.

Lemma exists_min {A} (f : A -> nat) l : l <> [] -> exists p, In p l /\ forall q, In q l -> (f p <= f q)%nat.
Proof.
  induction l as [|x l IH]; [congruence|]. intros _. destruct l as [|y l].
  - exists x. split; [left; reflexivity|]. intros q [<-|[]]. lia.
  - destruct IH as (p & Hp & Hm); [discriminate|]. destruct (Nat.le_gt_cases (f x) (f p)).
    + exists x. split; [left; reflexivity|]. intros q [<-|Hq]; [lia|]. specialize (Hm q Hq). lia.
    + exists p. split; [right; exact Hp|]. intros q [<-|Hq]; [lia | auto].
Qed.
Lemma unblocked_exists rank rem : rem <> [] -> acyc rank rem -> filter (unblocked rem) rem <> [].
Proof.
  intros Hne Ha. destruct (exists_min (fun p => rank (fst p)) rem Hne) as (p & Hp & Hm).
  assert (Hu : unblocked rem p = true).
  { unfold unblocked. apply negb_true_iff. destruct (existsb _ (snd p)) eqn:Ex; [|reflexivity]. exfalso.
    apply existsb_exists in Ex. destruct Ex as (x & Hx & Hn). apply memN_In in Hn.
    pose proof (Ha p x Hp Hx Hn) as Hlt. apply names_in in Hn. destruct Hn as (q & Hq & He). specialize (Hm q Hq). simpl in Hm. subst x. lia. }
  intros Hf. assert (Hin : In p (filter (unblocked rem) rem)) by (apply filter_In; auto). rewrite Hf in Hin. contradiction.
Qed.
Lemma filter_split_length {A} (f : A -> bool) l : (length (filter f l) + length (filter (fun x => negb (f x)) l) = length l)%nat.
Proof. induction l as [|x l IH]; simpl; [reflexivity|]. destruct (f x); simpl; lia. Qed.

Lemma topo_succeeds rank : forall f rem, (length rem <= f)%nat -> acyc rank rem -> exists out, topo f rem = Some out.
Proof.
  induction f as [|f IH]; intros rem Hl Ha; destruct rem as [|r0 rem]; try (simpl; eauto; fail); [simpl in Hl; lia|].
  rewrite topo_S. set (R := r0 :: rem) in *.
  pose proof (unblocked_exists rank R) as Hu. destruct (filter (unblocked R) R) as [|u0 u] eqn:Eu.
  - exfalso. apply Hu; [discriminate | exact Ha | reflexivity].
  - destruct (IH (filter (fun p => negb (unblocked R p)) R)) as (r & Er).
    + pose proof (filter_split_length (unblocked R) R) as Hs. rewrite Eu in Hs. change (length (u0 :: u)) with (S (length u)) in Hs. lia.
    + intros p x Hp Hx Hn. apply filter_In in Hp. apply (Ha p x); [tauto | exact Hx|].
      apply names_in in Hn. destruct Hn as (q & Hq & He). apply filter_In in Hq. apply names_in. exists q. tauto.
    + rewrite Er. eauto.
Qed.

(* ---------------------------------------------------------------- load succeeds *)
Definition importable (d : dset) (t : state) : Prop :=
  lookup (d_run d) (colls t) = Some RUN /\ has_dims (d_data d) t = true /\ has_key (d_type d) (types t) = true.
Lemma importable_grows d t t' : importable d t -> grows t t' -> importable d t'.
Proof.
  intros (A & B & C) (G1 & G2 & G3 & G4 & G5 & G6 & G7 & G8). unfold importable, has_dims in *. rewrite G1, G2. auto.
Qed.
Lemma find_id_in d l : In d l -> find_id (d_id d) l <> None.
Proof.
  intros Hin Hn. unfold find_id in Hn. pose proof (find_none _ _ Hn d Hin) as H. simpl in H. rewrite N.eqb_refl in H. discriminate.
Qed.

Lemma import_one_ok rank src d t : wf rank src -> In d (dsets src) -> incl (dsets t) (dsets src) -> importable d t ->
  exists t', import_one d t = ROk t' /\ incl (dsets t') (dsets src).
Proof.
  intros W Hd Hi (A & Bd & C). unfold import_one. rewrite A, Bd, C. simpl.
  destruct (find_id (d_id d) (dsets t)) as [d'|] eqn:Ef.
  - apply find_id_some in Ef. destruct Ef as [Hin He].
    assert (d' = d) by (apply (wf_ids rank src W); auto). subst d'.
    assert (dset_eqb d d = true) as -> by (apply dset_eqb_eq; reflexivity). eauto.
  - destruct (existsb (same_key d) (dsets t)) eqn:Ex.
    + exfalso. apply existsb_exists in Ex. destruct Ex as (d' & Hin & Hk).
      assert (d = d') by (apply (wf_keys rank src W); auto). subst d'. exact (find_id_in d _ Hin Ef).
    + eexists. split; [reflexivity|]. simpl. intros x Hx. apply in_app_or in Hx. destruct Hx as [Hx|[<-|[]]]; auto.
Qed.
Lemma import_all_ok rank src l : wf rank src -> forall t, incl l (dsets src) -> incl (dsets t) (dsets src) ->
  (forall d, In d l -> importable d t) -> exists t', foldr import_one l t = ROk t' /\ incl (dsets t') (dsets src).
Proof.
  intros W. induction l as [|d l IH]; simpl; intros t Hl Hi Himp; [eauto|].
  destruct (import_one_ok rank src d t W (Hl d (or_introl eq_refl)) Hi (Himp d (or_introl eq_refl))) as (t1 & E1 & I1).
  rewrite E1. simpl. apply IH; auto.
  - intros x Hx. apply Hl. right. exact Hx.
  - intros x Hx. apply importable_grows with t; [apply Himp; right; exact Hx | apply (import_one_grows _ _ _ E1)].
Qed.

Lemma assoc_all_ok rank src l : wf rank src -> forall t, incl (dsets t) (dsets src) -> incl (tags t) (tags src) -> incl l (tags src) ->
  (forall p, In p l -> lookup (fst p) (colls t) = Some TAGGED /\ find_id (snd p) (dsets t) <> None) ->
  exists t', foldr assoc_one l t = ROk t' /\ same_core t t' /\ calibs t' = calibs t.
Proof.
  intros W. induction l as [|[c n] l IH]; simpl; intros t Hd Ht Hl Hp.
  - exists t. repeat split.
  - destruct (Hp _ (or_introl eq_refl)) as [Hk Hf]. simpl in Hk, Hf.
    assert (E1 : exists t1, assoc_one (c, n) t = ROk t1).
    { unfold assoc_one. simpl. rewrite Hk. destruct (find_id n (dsets t)) as [d|] eqn:Ef; [|contradiction Hf; reflexivity].
      destruct (existsb _ (tags t)) eqn:Ex.
      - exfalso. apply existsb_exists in Ex. destruct Ex as ([c' n'] & Hin & Hq). simpl in Hq.
        destruct (find_id n' (dsets t)) as [d'|] eqn:Ef'; [|rewrite andb_false_r in Hq; discriminate].
        apply andb_true_iff in Hq. destruct Hq as [Hq Hq3]. apply andb_true_iff in Hq. destruct Hq as [Hq1 Hq2].
        apply andb_true_iff in Hq3. destruct Hq3 as [Hty Hda]. apply N.eqb_eq in Hq1, Hty, Hda. subst c'.
        apply negb_true_iff, N.eqb_neq in Hq2. apply find_id_some in Ef, Ef'. destruct Ef as [Hi1 He1], Ef' as [Hi2 He2].
        apply Hq2. apply (wf_tag_unique rank src W c n' n d' d); auto. apply Hl. left. reflexivity.
      - destruct (existsb (fun q : N * N => (fst q =? c) && (snd q =? n)) (tags t)); eexists; reflexivity. }
    destruct E1 as (t1 & E1). rewrite E1. simpl. pose proof (assoc_one_spec _ _ _ E1) as (C1 & K1 & T1).
    destruct C1 as (c1 & c2 & c3 & c4 & c5 & c6).
    destruct (IH t1) as (t' & E' & C' & K').
    + rewrite c5. exact Hd.
    + destruct T1 as [[-> _]|[-> _]]; [exact Ht|]. intros x Hx. apply in_app_or in Hx. destruct Hx as [Hx|[<-|[]]]; [auto | apply Hl; left; reflexivity].
    + intros x Hx. apply Hl. right. exact Hx.
    + intros p Hin. rewrite c3, c5. apply Hp. right. exact Hin.
    + exists t'. split; [exact E'|]. split; [|congruence]. eapply same_core_trans; [|exact C']. repeat split; assumption.
Qed.

Lemma ranges_overlap_sym a b : ranges_overlap a b = ranges_overlap b a.
Proof. unfold ranges_overlap. apply andb_comm. Qed.

Lemma certify_all_ok rank src l : wf rank src -> forall t, incl (dsets t) (dsets src) ->
  (forall q p, In q (calibs t) -> In p l -> calib_compat src q p) -> pairwise (calib_compat src) l ->
  (forall p, In p l -> lookup (fst (fst p)) (colls t) = Some CALIB /\
     exists d, find_id (snd (fst p)) (dsets t) = Some d /\ is_calib_type (d_type d) t = true) ->
  exists t', foldr certify_one l t = ROk t'.
Proof.
  intros W. induction l as [|[[c n] r] l IH]; intros t Hd Hq Hpw Hp; [simpl; eauto|].
  change (foldr certify_one ((c, n, r) :: l) t) with (bind (certify_one (c, n, r) t) (foldr certify_one l)).
  destruct (Hp _ (or_introl eq_refl)) as [Hk (d & Hf & Hct)]. simpl in Hk, Hf.
  assert (E1 : exists t1, certify_one (c, n, r) t = ROk t1).
  { unfold certify_one. rewrite Hk, Hf, Hct. simpl. destruct (existsb _ (calibs t)) eqn:Ex; [|eauto].
    exfalso. apply existsb_exists in Ex. destruct Ex as ([[c' n'] r'] & Hin & Hx).
    destruct (find_id n' (dsets t)) as [d'|] eqn:Ef'; [|rewrite andb_false_r in Hx; discriminate].
    apply andb_true_iff in Hx. destruct Hx as [Hx Hx3]. apply andb_true_iff in Hx. destruct Hx as [Hx1 Hx2].
    apply andb_true_iff in Hx3. destruct Hx3 as [Hty Hda]. apply N.eqb_eq in Hx1, Hty, Hda. subst c'.
    apply find_id_some in Hf, Ef'. destruct Hf as [Hi1 He1], Ef' as [Hi2 He2].
    pose proof (Hq (c, n', r') (c, n, r) Hin (or_introl eq_refl) d' d (Hd _ Hi2) (Hd _ Hi1) He2 He1 eq_refl Hty Hda) as Hno.
    simpl in Hno. rewrite ranges_overlap_sym in Hno. congruence. }
  destruct E1 as (t1 & E1). rewrite E1. simpl. pose proof (certify_one_spec _ _ _ E1) as ((c1 & c2 & c3 & c4 & c5 & c6) & T1 & K1).
  destruct Hpw as [Hp1 Hp2]. apply IH; auto.
  - rewrite c5. exact Hd.
  - intros q p Hin Hpl. rewrite K1 in Hin. apply in_app_or in Hin. destruct Hin as [Hin|[<-|[]]]; [apply Hq; [exact Hin | right; exact Hpl] | apply Hp1; exact Hpl].
  - intros p Hin. unfold is_calib_type. rewrite c3, c5, c2. apply Hp. right. exact Hin.
Qed.

(* ---------------------------------------------------------------- types survive the collection steps of register *)
Lemma reg_coll_types c k t : types (reg_coll c k t) = types t.
Proof. unfold reg_coll. destruct (has_key _ _); [reflexivity|]. destruct k; reflexivity. Qed.
Lemma fold_reg_coll_types (es : list (N * kind * list N)) : forall u,
  types (fold_left (fun t p => reg_coll (fst (fst p)) (snd (fst p)) t) es u) = types u.
Proof. induction es as [|x l IH]; simpl; intros u; [reflexivity|]. rewrite IH. apply reg_coll_types. Qed.
Lemma register_types b t t0 : register b t = (t0, None) -> forall p, In p (b_types b) -> lookup (fst p) (types t0) = Some (snd p).
Proof.
  unfold register. destruct (reg_steps reg_type (b_types b) t) as [t1 [e|]] eqn:E1; [discriminate|]. intros H.
  destruct (type_steps_lookup true _ _ _ E1) as [T1 _].
  assert (Ht : types t0 = types t1).
  { set (t2 := fold_left _ _ t1) in H.
    assert (H2 : types t2 = types t1).
    { unfold t2. apply fold_reg_coll_types. }
    rewrite <- H2. apply (reg_steps_inv (fun a b => types b = types a) chain_step) with (l := flat_map (fun p : N * kind * list N => [(fst (fst p), None); (fst (fst p), Some (snd p))]) (filter is_chain_entry (b_colls b))) (oe := None);
      [reflexivity | intros a b0 c; congruence | | exact H].
    intros x u u'. unfold chain_step. destruct (snd x).
    - unfold set_chain. destruct (negb _); [discriminate|]. destruct (memN _ _); [discriminate|].
      destruct (lookup _ _) as [[]|]; try discriminate. intros Hx; inversion Hx; reflexivity.
    - intros Hx; inversion Hx. apply reg_coll_types. }
  intros p Hp. rewrite Ht. apply T1. exact Hp.
Qed.

(* ---------------------------------------------------------------- the whole thing *)
Definition well_formed_request (ids cs : list N) (src : state) : Prop :=
  (forall n, In n ids -> exists d, In d (dsets src) /\ d_id d = n) /\
  (forall d, exported ids src d -> content_of (d_id d) src <> None) /\
  (forall c, In c cs -> has_key c (colls src) = true) /\
  (forall c x, saved ids cs src c -> lookup c (colls src) = Some CHAINED -> In x (children_of c src) -> saved ids cs src x).

Lemma saved_iff ids cs src c : saved ids cs src c <-> In c (exp_cnames ids cs src).
Proof.
  rewrite exp_cnames_in. unfold saved, exported. split; (intros [?|(d & A)]; [left; assumption | right; exists d; tauto]).
Qed.

Lemma export_ok rank ids cs src : wf rank src -> well_formed_request ids cs src -> exists b, export ids cs src = XOk b.
Proof.
  intros W (R1 & R2 & R3 & R4). unfold export. fold (exp_sel ids src). fold (exp_cnames ids cs src).
  assert (forallb (fun n => match find_id n (dsets src) with Some _ => true | None => false end) ids = true) as ->.
  { apply forallb_forall. intros n Hn. destruct (R1 n Hn) as (d & Hd & He). pose proof (find_id_in d _ Hd) as Hf. rewrite He in Hf.
    destruct (find_id n (dsets src)); [reflexivity | contradiction Hf; reflexivity]. }
  assert (forallb (fun d => match content_of (d_id d) src with Some _ => true | None => false end) (exp_sel ids src) = true) as ->.
  { apply forallb_forall. intros d Hd. apply exp_sel_in in Hd. pose proof (R2 d Hd) as Hc. destruct (content_of (d_id d) src); [reflexivity | contradiction Hc; reflexivity]. }
  assert (forallb (fun c => has_key c (colls src)) cs = true) as -> by (apply forallb_forall; exact R3).
  simpl.
  change (flat_map (fun c => match lookup c (colls src) with
                             | Some CHAINED => [(c, match lookup c (chains src) with Some l => l | None => [] end)]
                             | _ => [] end) (exp_cnames ids cs src)) with (exp_chs ids cs src).
  destruct (topo_succeeds rank (length (exp_chs ids cs src)) (exp_chs ids cs src)) as (order & Eo); [lia | | rewrite Eo; eauto].
  destruct (exp_chs_names ids cs src) as [_ Hin]. intros p x Hp Hx Hn. apply Hin in Hp. destruct Hp as (P1 & P2 & P3).
  apply names_in in Hn. destruct Hn as (q & Hq & He). apply Hin in Hq. destruct Hq as (Q1 & Q2 & Q3). subst x.
  apply (wf_acyclic rank src W); auto. rewrite <- P3. exact Hx.
Qed.

Lemma accept_l : forall rank m ids cs src t, wf rank src -> well_formed_request ids cs src ->
  agrees src t -> stored t = [] -> calibs t = [] -> exists t', exim m ids cs src t = (t', Ok).
Proof.
  intros rank m ids cs src t W R Ha Hst Hca. pose proof R as (R1 & R2 & R3 & R4).
  destruct (export_ok rank ids cs src W R) as (b & Ex). unfold exim, exim_v. rewrite Ex.
  pose proof (export_dsets _ _ _ _ Ex) as Hds. pose proof (export_order _ _ _ _ Ex) as Hord.
  pose proof Ex as Ex'. apply export_shape in Ex'. destruct Ex' as (order & Et & _ & _ & _ & Eb).
  set (plainl := filter (fun c => match lookup c (colls src) with Some CHAINED => false | _ => true end) (exp_cnames ids cs src)) in *.
  assert (Hbc : b_colls b = map (fun c => (c, kd src c, [])) plainl ++ map (fun p => (fst p, CHAINED, snd p)) order) by (rewrite Eb; reflexivity).
  pose proof (export_chain_entries _ _ _ _ _ Hbc) as Hce.
  destruct (exp_chs_names ids cs src) as [Hnd Hin].
  assert (Hno : NoDup (names order)) by (eapply topo_nodup; eassumption).
  assert (Hmap : map cname (map (fun p : N * list N => (fst p, CHAINED, snd p)) order) = names order) by (unfold names; rewrite map_map; reflexivity).
  assert (Hsrc_key : forall c, saved ids cs src c -> exists k, lookup c (colls src) = Some k).
  { intros c [Hc|(d & (Hd & _) & <-)]; [apply has_key_lookup, R3, Hc|]. exists RUN. apply (wf_ds rank src W d Hd). }
  (* plain entries *)
  assert (Hplain : filter (fun p => negb (is_chain_entry p)) (b_colls b) = map (fun c => (c, kd src c, [])) plainl).
  { rewrite Hbc, filter_app.
    assert (H2 : filter (fun p => negb (is_chain_entry p)) (map (fun p : N * list N => (fst p, CHAINED, snd p)) order) = []).
    { clear. induction order as [|p o IH]; simpl; [reflexivity | exact IH]. }
    rewrite H2, app_nil_r. unfold plainl. clear. induction (exp_cnames ids cs src) as [|c l IH]; simpl; [reflexivity|].
    destruct (lookup c (colls src)) as [[]|] eqn:El; simpl; try exact IH; unfold is_chain_entry, kd; simpl; rewrite El; simpl; f_equal; exact IH. }
  assert (Hplain_src : forall c, In c plainl -> lookup c (colls src) = Some (kd src c) /\ kd src c <> CHAINED).
  { intros c Hc. apply filter_In in Hc. destruct Hc as [Hc Hk]. apply saved_iff in Hc. destruct (Hsrc_key c Hc) as [k Hk'].
    unfold kd. rewrite Hk' in *. split; [reflexivity|]. destruct k; discriminate. }
  (* register *)
  assert (Er : exists t0, register b t = (t0, None) /\ agrees src t0).
  { unfold register.
    destruct (reg_types_ok src (b_types b) t Ha) as (t1 & E1 & A1).
    { intros p Hp. rewrite Eb in Hp. simpl in Hp. apply in_flat_map in Hp. destruct Hp as (ty & _ & Hp).
      destruct (lookup ty (types src)) eqn:El; [|contradiction]. destruct Hp as [<-|[]]. exact El. }
    rewrite E1, Hplain, Hce. set (t2 := fold_left _ _ t1).
    assert (A2 : agrees src t2).
    { apply fold_reg_coll_agrees; [exact A1|]. intros p Hp. apply in_map_iff in Hp. destruct Hp as (c & <- & Hc). unfold cname; simpl. apply Hplain_src, Hc. }
    destruct (fold_reg_coll_spec (map (fun c => (c, kd src c, [])) plainl) t1) as (_ & P2 & _). fold t2 in P2.
    apply (chain_steps_ok rank src (wf_acyclic rank src W) _ plainl t2 A2).
    - intros p Hp. apply in_map_iff in Hp. destruct Hp as (q & <- & Hq). unfold cname; simpl.
      apply (topo_sub _ _ _ Et) in Hq. apply Hin in Hq. tauto.
    - apply ready_of_ordered; [eapply topo_ordered; exact Et|]. intros p x Hp Hx.
      pose proof (topo_sub _ _ _ Et p Hp) as Hp'. apply Hin in Hp'. destruct Hp' as (P1 & P2' & P3).
      assert (Hsx : saved ids cs src x) by (apply (R4 (fst p)); [apply saved_iff; exact P1 | exact P2' | rewrite <- P3; exact Hx]).
      destruct (Hsrc_key x Hsx) as [k Hk]. destruct (kind_eqb k CHAINED) eqn:Ek.
      + right. assert (k = CHAINED) by (destruct k; try discriminate; reflexivity). subst k.
        apply names_in. exists (x, children_of x src). split; [|reflexivity]. apply (topo_in _ _ _ Et). apply Hin. simpl.
        split; [apply saved_iff; exact Hsx | auto].
      + left. apply filter_In. split; [apply saved_iff; exact Hsx|]. rewrite Hk. destruct k; try reflexivity; discriminate.
    - intros x Hx. apply (P2 (x, kd src x, [])). apply in_map_iff. exists x. auto. }
  destruct Er as (t0 & Er & A0). unfold import_, import_v. rewrite Er.
  pose proof (register_same _ _ _ _ Er) as (Sd & Sr & Sst & Stg & Sca).
  pose proof (register_types _ _ _ Er) as Rty.
  destruct (register_spec b t t0) as (_ & Pk & _ & _); [rewrite Hce, Hmap; exact Hno | exact Er |].
  destruct A0 as (A1 & A2 & A3 & A4 & A5).
  assert (Hcoll : forall c k, saved ids cs src c -> lookup c (colls src) = Some k -> k <> CHAINED -> lookup c (colls t0) = Some k).
  { intros c k Hs Hk Hnc. assert (Hh : has_key c (colls t0) = true).
    { apply (Pk (c, kd src c, [])). rewrite Hbc. apply in_or_app. left. apply in_map_iff. exists c. split; [reflexivity|]. apply filter_In. split; [apply saved_iff; exact Hs|].
      rewrite Hk. destruct k; try reflexivity. contradiction Hnc; reflexivity. }
    apply has_key_lookup in Hh. destruct Hh as [k' Hk']. pose proof (A2 _ _ Hk') as Hk''. congruence. }
  (* load *)
  unfold load, load_v. set (t1 := add_dims (b_dims b) t0).
  destruct (add_dims_other (b_dims b) t0) as (D1 & D2 & D3 & D4 & D5 & D6 & D7). fold t1 in D1, D2, D3, D4, D5, D6, D7.
  assert (Himp : forall d, In d (map fst (b_dsets b)) -> importable d t1).
  { intros d Hd. apply Hds in Hd. destruct Hd as [Hd Hm]. destruct (wf_ds rank src W d Hd) as (W1 & W2 & W3). repeat split.
    - rewrite D2. apply (Hcoll _ RUN); [right; exists d; unfold exported; auto | exact W1 | discriminate].
    - unfold has_dims in *. apply andb_true_iff in W3. destruct W3 as [W3 W4]. apply andb_true_iff.
      assert (Hk : forall k, k = inst_key (d_data d) \/ k = d_data d -> has_key k (dims src) = true -> has_key k (dims t1) = true).
      { intros k Hk Hs. apply has_key_lookup. unfold t1. rewrite add_dims_lookup. destruct (lookup k (dims t0)); [eauto|].
        rewrite Eb. simpl. rewrite lookup_flat_keys.
        assert (memN k (exp_dk ids src) = true) as -> by (apply memN_In, exp_dk_in; exists d; auto).
        apply has_key_lookup. exact Hs. }
      split; apply Hk; auto.
    - rewrite D1. apply has_key_lookup in W2. destruct W2 as [c Hc]. apply (lookup_has_key _ _ c).
      apply (Rty (d_type d, c)). rewrite Eb. simpl. apply in_flat_map. exists (d_type d). split.
      + apply in_sortN, in_dedup, in_map. apply exp_sel_in. auto.
      + rewrite Hc. left. reflexivity. }
  destruct (import_all_ok rank src (map fst (b_dsets b)) W t1) as (t2 & E2 & I2); auto.
  { intros d Hd. apply Hds in Hd. tauto. }
  { rewrite D4. exact A4. }
  rewrite E2. pose proof (foldr_import_colls _ _ _ E2) as Hc2.
  destruct (foldr_import_settled _ _ _ E2) as ((G1 & G2 & G3 & G4 & G5 & G6 & G7 & G8) & St2).
  assert (existsb (fun n => is_stored n t2) (bundle_ids b) = false) as ->.
  { destruct (existsb _ (bundle_ids b)) eqn:Ee; [|reflexivity]. apply existsb_exists in Ee. destruct Ee as (n & _ & Hn).
    unfold is_stored in Hn. rewrite G3, D5, Sst, Hst in Hn. discriminate. }
  set (t3 := store_new m (b_dsets b) t2).
  assert (Hfind : forall n, memN n (map d_id (exp_sel ids src)) = true -> exists d, find_id n (dsets t3) = Some d /\ In d (dsets src) /\ d_id d = n).
  { intros n Hn. apply memN_ids in Hn. destruct Hn as (d & Hd & <-). exists d. split; [|split; [apply Hd | reflexivity]].
    apply (St2 d). apply Hds. exact Hd. }
  destruct (assoc_all_ok rank src (b_tags b) W t3) as (t4 & E4 & (C1 & C2 & C3 & C4 & C5 & C6) & K4).
  { exact I2. }
  { simpl. rewrite G4, D6. exact A5. }
  { rewrite Eb. simpl. intros p Hp. apply filter_In in Hp. tauto. }
  { intros [c n] Hp. rewrite Eb in Hp. simpl in Hp. apply filter_In in Hp. destruct Hp as [Hp Hf]. simpl in Hf.
    apply andb_true_iff in Hf. destruct Hf as [Hf Hn]. apply andb_true_iff in Hf. destruct Hf as [Hc Hk].
    apply memN_In, saved_iff in Hc. apply (kd_eq src c TAGGED) in Hk; [|discriminate]. simpl. split.
    - change (colls t3) with (colls t2). rewrite Hc2, D2. apply (Hcoll c TAGGED); auto. discriminate.
    - destruct (Hfind n Hn) as (d & Hf & _). change (dsets t3) with (dsets t2) in Hf. rewrite Hf. discriminate. }
  rewrite E4. simpl.
  destruct (certify_all_ok rank src (b_calibs b) W t4) as (t5 & E5).
  { rewrite C5. exact I2. }
  { intros q p Hq. rewrite K4 in Hq. simpl in Hq. rewrite G5, D7, Sca, Hca in Hq. contradiction. }
  { rewrite Eb. simpl. apply pairwise_filter. apply (wf_calib_disjoint rank src W). }
  { intros [[c n] r] Hp. rewrite Eb in Hp. simpl in Hp. apply filter_In in Hp. destruct Hp as [Hp Hf]. simpl in Hf.
    apply andb_true_iff in Hf. destruct Hf as [Hf Hn]. apply andb_true_iff in Hf. destruct Hf as [Hc Hk].
    apply memN_In, saved_iff in Hc. apply (kd_eq src c CALIB) in Hk; [|discriminate]. simpl. split.
    - rewrite C3. change (colls t3) with (colls t2). rewrite Hc2, D2. apply (Hcoll c CALIB); auto. discriminate.
    - destruct (Hfind n Hn) as (d & Hf & Hd & He). exists d. rewrite C5. split; [exact Hf|].
      destruct (wf_calibs rank src W c n r Hp) as [_ Hct]. specialize (Hct d Hd He). unfold is_calib_type in *.
      rewrite C2. change (types t3) with (types t2). rewrite G2, D1.
      destruct (lookup (d_type d) (types src)) as [cc|] eqn:Ety; [|discriminate].
      assert (Hty : lookup (d_type d) (types t0) = Some cc); [apply (Rty (d_type d, cc)) | rewrite Hty; exact Hct]. rewrite Eb. simpl. apply in_flat_map. exists (d_type d). split.
      + apply in_sortN, in_dedup, in_map. apply memN_ids in Hn. destruct Hn as (d2 & Hd2 & He2).
        assert (d2 = d) by (apply (wf_ids rank src W); [apply Hd2 | exact Hd | congruence]). subst d2. apply exp_sel_in. exact Hd2.
      + rewrite Ety. left. reflexivity. }
  rewrite E5. eauto.
Qed.

Lemma import_into_empty_accepted_l : forall rank m ids cs src, wf rank src -> well_formed_request ids cs src ->
  exists t', exim m ids cs src empty = (t', Ok).
Proof. intros. eapply accept_l; eauto. apply agrees_empty. Qed.
