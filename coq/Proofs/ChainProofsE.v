(* C03 proofs, part E: the two flattening algorithms of the code base return the same path:
     resolve_wildcard  = expand everything depth first, drop chains, keep first occurrences   (flatten)
     _filter_collections = depth first with a `done` set that also stops re-expansion of a chain (flattenB)
   under the invariant (acyclic chain definitions). *)
From Coq Require Import ZArith NArith List Bool Lia.
From V Require Import Model.Chain Proofs.ChainProofsA Proofs.ChainProofsB Proofs.ChainProofsC.
Import ListNotations.

Lemma recB_nil : forall f s dn, recB (S f) s [] dn = Some (dn, []).
Proof. reflexivity. Qed.
Lemma recB_cons : forall f s n rest dn,
  recB (S f) s (n :: rest) dn =
    if memN n dn then recB (S f) s rest dn
    else if is_chained s n
    then match recB f s (children s n) (n :: dn) with
         | None => None
         | Some (d1, o1) => match recB (S f) s rest d1 with Some (d2, o2) => Some (d2, o1 ++ o2) | None => None end
         end
    else match recB (S f) s rest (n :: dn) with Some (d, o) => Some (d, n :: o) | None => None end.
Proof. reflexivity. Qed.

Lemma dedup_acc_agree : forall l s1 s2, (forall x, In x l -> (In x s1 <-> In x s2)) -> dedup_acc s1 l = dedup_acc s2 l.
Proof.
  induction l as [|x t IH]; simpl; intros s1 s2 H; [reflexivity|].
  assert (E : memN x s1 = memN x s2).
  { destruct (memN x s1) eqn:E1, (memN x s2) eqn:E2; try reflexivity.
    - apply memN_In in E1. apply H in E1; [|auto]. apply memN_In in E1. congruence.
    - apply memN_In in E2. apply H in E2; [|auto]. apply memN_In in E2. congruence. }
  rewrite E. destruct (memN x s2).
  - apply IH. intros y Hy. apply H. auto.
  - f_equal. apply IH. intros y Hy. simpl. rewrite (H y) by auto. tauto.
Qed.
Lemma dedup_acc_all_seen : forall l seen, (forall x, In x l -> In x seen) -> dedup_acc seen l = [].
Proof.
  induction l as [|x t IH]; simpl; intros; [reflexivity|].
  assert (memN x seen = true) by (apply memN_In; auto). rewrite H0. apply IH. auto.
Qed.
Lemma leaves_In : forall s L x, In x (leaves s L) <-> In x L /\ is_chained s x = false.
Proof. intros. unfold leaves. rewrite filter_In, negb_true_iff. tauto. Qed.
Lemma order_list_cons : forall f s n rest L, order_list f s (n :: rest) = Some L ->
  exists Ln Lr, order f s n = Some Ln /\ order_list f s rest = Some Lr /\ L = Ln ++ Lr.
Proof.
  intros f s n rest L H. unfold order_list in *. simpl map in H.
  change (opt_concat (order f s n :: map (order f s) rest)) with
    (match order f s n with None => None | Some x => match opt_concat (map (order f s) rest) with Some r => Some (x ++ r) | None => None end end) in H.
  destruct (order f s n) as [Ln|]; [|discriminate].
  destruct (opt_concat (map (order f s) rest)) as [Lr|]; [|discriminate]. inversion H. eauto.
Qed.

Section Agree.
  Variable s : st.
  Hypothesis A : acyclic (rows s).
  Hypothesis W : rows_wf s.

  Definition complete (n : N) (dn : list N) : Prop :=
    forall x, reach (rows s) n x -> is_chained s x = false -> In x dn.
  Definition Inv (names dn : list N) : Prop :=
    forall n, In n dn -> is_chained s n = true ->
      complete n dn \/ (forall m, In m names -> ~ reachs (rows s) m n).
  Definition Post (dn L dn' : list N) : Prop :=
    incl dn dn' /\
    (forall x, is_chained s x = false -> (In x dn' <-> In x dn \/ In x L)) /\
    (forall n, In n dn' -> ~ In n dn -> is_chained s n = true -> complete n dn').

  Lemma complete_mono : forall n d d', incl d d' -> complete n d -> complete n d'.
  Proof. intros n d d' I C x R Lf. apply I. apply C; assumption. Qed.

  Lemma Inv_tail : forall n rest dn, Inv (n :: rest) dn -> Inv rest dn.
  Proof. intros n rest dn H m Hm Cm. destruct (H m Hm Cm) as [?|Hr]; [left; assumption|right]. intros k Hk. apply Hr. right. assumption. Qed.

  Lemma order_leaf : forall f n L, is_chained s n = false -> order f s n = Some L -> L = [n].
  Proof. intros f n L C H. destruct f; [discriminate|]. simpl in H. rewrite C in H. inversion H. reflexivity. Qed.

  Lemma recB_agree : forall f names dn L,
    order_list f s names = Some L -> Inv names dn ->
    exists dn' out, recB (S f) s names dn = Some (dn', out) /\ out = dedup_acc dn (leaves s L) /\ Post dn L dn'.
  Proof.
    induction f as [f IHf] using lt_wf_ind.
    induction names as [|n rest IHn]; intros dn L O I.
    - unfold order_list in O. simpl in O. inversion O; subst. exists dn, []. rewrite recB_nil.
      split; [reflexivity|]. split; [reflexivity|]. split; [apply incl_refl|]. split; [intros; simpl; tauto|]. intros; tauto.
    - destruct (order_list_cons _ _ _ _ _ O) as [Ln [Lr [On [Or ->]]]].
      rewrite recB_cons. destruct (memN n dn) eqn:M.
      + (* already done *)
        apply memN_In in M.
        destruct (IHn dn Lr Or (Inv_tail _ _ _ I)) as [dn' [out [R [Eo [P1 [P2 P3]]]]]].
        assert (Hall : forall x, In x (leaves s Ln) -> In x dn).
        { intros x Hx. apply leaves_In in Hx. destruct Hx as [Hx Lf].
          destruct (is_chained s n) eqn:Cn.
          - destruct (I n M Cn) as [C|Hr].
            + apply C; [|assumption]. destruct (order_sound _ _ _ _ On x Hx) as [<-|R']; [congruence|assumption].
            + exfalso. apply (Hr n); [left; reflexivity|left; reflexivity].
          - rewrite (order_leaf _ _ _ Cn On) in Hx. destruct Hx as [<-|[]]. assumption. }
        exists dn', out. split; [assumption|]. split.
        * rewrite Eo, leaves_app, dedup_acc_app, (dedup_acc_all_seen _ _ Hall). simpl.
          apply dedup_acc_ext. intro y. rewrite in_app_iff, <- in_rev. split; [tauto|]. intros [?|?]; auto.
        * split; [assumption|]. split; [|assumption]. intros x Lf. rewrite P2 by assumption. rewrite in_app_iff.
          split; [tauto|]. intros [?|[Hx|?]]; auto. left. apply Hall. apply leaves_In. auto.
      + apply memN_false in M. destruct (is_chained s n) eqn:Cn.
        * (* a chain not seen yet *)
          destruct f as [|f0]; [discriminate|].
          destruct (order_chain_unfold _ _ _ _ Cn On) as [Lc [Oc ->]].
          assert (I1 : Inv (children s n) (n :: dn)).
          { intros m Hm Cm. destruct Hm as [<-|Hm].
            - right. intros c Hc Rc. apply (A n). eapply reachs_trans_r; [apply r_step; apply children_edge; exact Hc|exact Rc].
            - destruct (I m Hm Cm) as [C|Hr].
              + left. eapply complete_mono; [|exact C]. apply incl_tl, incl_refl.
              + right. intros c Hc Rc. apply (Hr n); [left; reflexivity|]. right.
                eapply reachs_trans_r; [apply r_step; apply children_edge; exact Hc|exact Rc]. }
          destruct (IHf f0 (Nat.lt_succ_diag_r f0) (children s n) (n :: dn) Lc Oc I1) as [d1 [o1 [R1 [E1 [P11 [P12 P13]]]]]].
          rewrite R1.
          assert (Cn1 : complete n d1).
          { intros x R Lf. apply P12; [assumption|]. right.
            destruct (reach_first _ _ _ R) as [c [Ec Rc]].
            eapply order_list_complete; [exact W|exact Oc|apply children_edge; exact Ec|exact Rc]. }
          assert (I2 : Inv rest d1).
          { intros m Hm Cm. destruct (in_dec N.eq_dec m (n :: dn)) as [Hin|Hnin].
            - destruct Hin as [<-|Hin]; [left; assumption|].
              destruct (I m Hin Cm) as [C|Hr].
              + left. eapply complete_mono; [|exact C]. intros y Hy. apply P11. right. assumption.
              + right. intros k Hk. apply Hr. right. assumption.
            - left. apply P13; assumption. }
          assert (Or' : order_list (S f0) s rest = Some Lr) by assumption.
          destruct (IHn d1 Lr Or' I2) as [d2 [o2 [R2 [E2 [P21 [P22 P23]]]]]].
          rewrite R2. exists d2, (o1 ++ o2). split; [reflexivity|]. split.
          -- simpl. rewrite leaves_app. unfold leaves at 1. simpl. rewrite Cn. simpl. fold (leaves s Lc).
             rewrite dedup_acc_app. f_equal.
             ++ rewrite E1. apply dedup_acc_agree. intros x Hx. apply leaves_In in Hx. destruct Hx as [_ Lf].
                simpl. split; [intros [<-|?]; [congruence|assumption]|auto].
             ++ rewrite E2. apply dedup_acc_agree. intros x Hx. apply leaves_In in Hx. destruct Hx as [_ Lf].
                rewrite (P12 x Lf), in_app_iff, <- in_rev, leaves_In. simpl.
                split; [intros [[<-|?]|?]; [congruence|auto|auto]|intros [[? _]|?]; auto].
          -- split; [intros y Hy; apply P21, P11; right; assumption|]. split.
             ++ intros x Lf. rewrite (P22 x Lf), (P12 x Lf). simpl. rewrite in_app_iff.
                split; [intros [[[<-|?]|?]|?]; [congruence|auto|auto|auto]|intros [?|[<-|[?|?]]]; [auto|congruence|auto|auto]].
             ++ intros m Hm Hnd Cm. destruct (in_dec N.eq_dec m d1) as [Hd1|Hnd1]; [|apply P23; assumption].
                eapply complete_mono; [exact P21|].
                destruct (N.eq_dec m n) as [->|Hne]; [assumption|]. apply P13; [assumption| |assumption].
                intros [?|?]; [congruence|tauto].
        * (* a plain collection not seen yet *)
          rewrite (order_leaf _ _ _ Cn On) in *.
          assert (I1 : Inv rest (n :: dn)).
          { intros m Hm Cm. destruct Hm as [<-|Hm]; [congruence|]. destruct (I m Hm Cm) as [C|Hr].
            - left. eapply complete_mono; [|exact C]. apply incl_tl, incl_refl.
            - right. intros k Hk. apply Hr. right. assumption. }
          destruct (IHn (n :: dn) Lr Or I1) as [d [o [R [Eo [P1 [P2 P3]]]]]]. rewrite R.
          exists d, (n :: o). split; [reflexivity|]. split.
          -- simpl. unfold leaves. simpl. rewrite Cn. simpl. fold (leaves s Lr).
             assert (Mf : memN n dn = false) by (apply memN_false; assumption). rewrite Mf, Eo. reflexivity.
          -- split; [intros y Hy; apply P1; right; assumption|]. split.
             ++ intros x Lf. rewrite (P2 x Lf). simpl. tauto.
             ++ intros m Hm Hnd Cm. apply P3; [assumption| |assumption]. intros [<-|?]; [congruence|tauto].
  Qed.
End Agree.

Lemma flattenB_flatten_p : forall s ns, wf s -> flattenB s ns = flatten s ns.
Proof.
  intros s ns [A [W _]]. unfold flattenB, flatten. destruct (expand s ns) as [L|e] eqn:E; [|reflexivity].
  unfold map_res. unfold expand in E. destruct (forallb (exists_c s) ns); [|discriminate].
  destruct (order_list (fuel_of s) s ns) as [L'|] eqn:O; [|discriminate]. inversion E; subst.
  destruct (recB_agree s A W (fuel_of s) ns [] L O) as [dn' [out [R [Eo _]]]].
  - intros n [].
  - rewrite R, Eo. reflexivity.
Qed.

Lemma find_window_general_full : forall s cons ty d ns path, wf s -> flatten s ns = Ok path ->
  find_window s cons ty d ns = Ok (if consistent s cons ty d then opt_list (first_match (cont s) ty d path) else []).
Proof.
  intros s cons ty d ns path Hwf F. apply find_window_general; [assumption| |eapply flatten_NoDup; eauto].
  rewrite flattenB_flatten_p; assumption.
Qed.
Lemma find_window_first_full : forall s cons ty d ns path, wf s -> consistent s cons ty d = true -> flatten s ns = Ok path ->
  find_window s cons ty d ns = Ok (opt_list (first_match (cont s) ty d path)).
Proof. intros s cons ty d ns path Hwf CS F. rewrite (find_window_general_full _ _ _ _ _ _ Hwf F), CS. reflexivity. Qed.

Lemma three_agree_p : forall s cons ty d ns path, wf s -> is_calty s ty = false -> consistent s cons ty d = true ->
  flatten s ns = Ok path ->
  find_rank s ty d ns = Ok (first_match (cont s) ty d path) /\
  find_get s ty d ns = Ok (first_match (cont s) ty d path) /\
  find_window s cons ty d ns = Ok (opt_list (first_match (cont s) ty d path)) /\
  find_legacy s cons ty d ns = Ok (opt_list (first_match (cont s) ty d path)).
Proof.
  intros. split; [apply find_rank_first; assumption|]. split; [apply find_get_first; assumption|].
  split; [apply find_window_first_full; assumption|]. apply find_legacy_first; assumption.
Qed.

Lemma three_agree_hist_p : forall ops cons ty d ns, is_calty (run init ops) ty = false ->
  consistent (run init ops) cons ty d = true -> forallb (exists_c (run init ops)) ns = true ->
  exists path, flatten (run init ops) ns = Ok path /\
    find_rank (run init ops) ty d ns = Ok (first_match (cont (run init ops)) ty d path) /\
    find_get (run init ops) ty d ns = Ok (first_match (cont (run init ops)) ty d path) /\
    find_window (run init ops) cons ty d ns = Ok (opt_list (first_match (cont (run init ops)) ty d path)) /\
    find_legacy (run init ops) cons ty d ns = Ok (opt_list (first_match (cont (run init ops)) ty d path)).
Proof.
  intros ops cons ty d ns NT CS Ex. pose proof (run_wf ops init init_wf) as Hwf.
  destruct Hwf as [A R] eqn:Keep. clear Keep.
  destruct (expand_ok _ ns A Ex) as [L E].
  exists (dedup (leaves (run init ops) L)).
  assert (F : flatten (run init ops) ns = Ok (dedup (leaves (run init ops) L))) by (unfold flatten; rewrite E; reflexivity).
  split; [exact F|]. apply three_agree_p; [exact (conj A R)|assumption|assumption|exact F].
Qed.

(* calibration dataset types, any search path (CALIBRATION collections included), after any history:
   findDataset without timespan answers for the path without the CALIBRATION collections; Butler.get (unbounded
   timespan) and the new query system answer for the whole path; the legacy query refuses an explicitly named
   CALIBRATION collection that survives the pruning and otherwise answers for the whole path *)
Lemma calibration_search_p : forall ops cons ty d ns, consistent (run init ops) cons ty d = true ->
  forallb (exists_c (run init ops)) ns = true ->
  exists path, flatten (run init ops) ns = Ok path /\
    find_rank (run init ops) ty d ns = Ok (first_match (cont (run init ops)) ty d (skip_calib (run init ops) path)) /\
    find_get (run init ops) ty d ns = Ok (first_match (cont (run init ops)) ty d path) /\
    find_window (run init ops) cons ty d ns = Ok (opt_list (first_match (cont (run init ops)) ty d path)) /\
    find_legacy (run init ops) cons ty d ns =
      if existsb (fun c => is_calib (run init ops) c && memN c ns) (prune (run init ops) cons ty path) then Err ENotImpl
      else Ok (opt_list (first_match (cont (run init ops)) ty d path)).
Proof.
  intros ops cons ty d ns CS Ex. pose proof (run_wf ops init init_wf) as Hwf.
  destruct Hwf as [A R] eqn:Keep. clear Keep.
  destruct (expand_ok _ ns A Ex) as [L E].
  exists (dedup (leaves (run init ops) L)).
  assert (F : flatten (run init ops) ns = Ok (dedup (leaves (run init ops) L))) by (unfold flatten; rewrite E; reflexivity).
  pose proof (conj A R) as Hwf2.
  split; [exact F|]. split; [apply find_rank_skips; assumption|]. split; [apply find_get_first; assumption|].
  split; [apply find_window_first_full; assumption|].
  rewrite (find_legacy_general _ _ _ _ _ _ Hwf2 F), CS. reflexivity.
Qed.

