(* C14 proofs, part 9: the UNCONDITIONAL string-level round trip for parsed trees.
   (1) token side: every token the lexer produces has a re-lexable payload and, for range literals, a stride >= 1
       (lex_tok_ok2);
   (2) "leaves come from tokens": one induction on the fuel over the conjunction of the parser functions (same
       skeleton as ParserProofsCanon.all_fuel) showing that every tree the parser returns satisfies payload_ok / range_ok;
   (3) reparse_show_string_p, lex_show_parsed_p and the faithful-printer variant for plain trees. *)
From Coq Require Import ZArith List Bool String Ascii NArith Arith Lia.
From V Require Import Model.ExprTree Model.Lexer Model.Parser Model.ParserShow Gen.GrammarGen
                      Proofs.LexerProofs Proofs.ParserProofs Proofs.ParserProofs2 Proofs.ParserProofsCanon
                      Proofs.ParserProofsFuel Proofs.ParserProofsX Proofs.ParserProofsShow Proofs.ParserProofsShow2.
Import ListNotations.
Open Scope list_scope.
Open Scope char_scope.

Ltac bits c := destruct c as [[|] [|] [|] [|] [|] [|] [|] [|]].
Ltac crk H :=
  repeat match type of H with
         | context [match ?x with _ => _ end] => destruct x eqn:?; try discriminate H
         end.

(* ------------------------------------------------------------------ (1) strides read by the lexer are >= 1 *)
Lemma fold_dv_nonneg ds : forall x, (0 <= x)%Z -> (0 <= fold_left (fun acc c => (acc * 10 + digit_val c)%Z) ds x)%Z.
Proof.
  induction ds as [|d ds IH]; intros x H; simpl; [exact H|]. apply IH. unfold digit_val. lia.
Qed.
Lemma dv_nonneg ds : (0 <= digits_val ds)%Z.
Proof. apply fold_dv_nonneg. lia. Qed.

Lemma digit_val_pos c : is_digit c = true -> Ascii.eqb c "0" = false -> (1 <= digit_val c)%Z.
Proof. intros D Z. bits c; try discriminate D; try discriminate Z; vm_compute; discriminate. Qed.

Lemma dv_pos c ds : is_digit c = true -> Ascii.eqb c "0" = false -> (1 <= digits_val (c :: ds))%Z.
Proof.
  intros D Z. rewrite dv_cons. pose proof (digit_val_pos c D Z). pose proof (dv_nonneg ds).
  assert (1 <= 10 ^ Z.of_nat (List.length ds))%Z by (apply Z.lt_pred_le, Z.pow_pos_nonneg; lia). nia.
Qed.

Lemma m_stride_pos l s r : m_stride l = (Some s, r) -> (1 <= s)%Z.
Proof.
  unfold m_stride. intros H. destruct (skip_space l) as [|c r0]; [discriminate|].
  assert (D : match skip_space r0 with
              | c :: r2 => if is_digit c && negb (Ascii.eqb c "0")
                   then let '(ds, r3) := span is_digit r2 in (Some (digits_val (c :: ds)), r3)
                   else (None, l)
              | [] => (None, l)
              end = (Some s, r)).
  { bits c; try discriminate H. exact H. }
  clear H. destruct (skip_space r0) as [|d r2]; [discriminate|].
  destruct (is_digit d) eqn:Dd; [|discriminate]. destruct (Ascii.eqb d "0") eqn:Zd; [discriminate|].
  simpl in D. destruct (span is_digit r2) as [ds r3]. inversion D; subst. apply dv_pos; assumption.
Qed.

Definition range_pos (t : token) : Prop :=
  match t with TRange _ _ (Some s) => (1 <= s)%Z | _ => True end.
Definition tok_ok2 (t : token) : Prop := tok_ok t /\ range_pos t.

Lemma m_token_range_pos l t r : m_token l = Some (t, r) -> range_pos t.
Proof.
  unfold m_token, orelse. intros H.
  destruct (m_time l) as [[t0 r0]|] eqn:E1.
  { inversion H; subst. unfold m_time in E1. crk E1. inversion E1; exact I. }
  destruct (m_string l) as [[t0 r0]|] eqn:E2.
  { inversion H; subst. unfold m_string in E2. crk E2. inversion E2; exact I. }
  destruct (m_range l) as [[t0 r0]|] eqn:E3.
  { inversion H; subst. unfold m_range in E3.
    destruct (m_int l) as [[a r1]|]; [|discriminate].
    destruct (skip_space r1) as [|c1 [|c2 r2]]; try discriminate.
    { bits c1; discriminate. }
    assert (D : match m_int (skip_space r2) with
                | Some (b, r3) => let '(st, r4) := m_stride r3 in Some (TRange a b st, r4)
                | None => None
                end = Some (t, r)).
    { bits c1; try discriminate E3; bits c2; try discriminate E3; exact E3. }
    destruct (m_int (skip_space r2)) as [[b r3]|]; [|discriminate].
    destruct (m_stride r3) as [st r4] eqn:ST. inversion D; subst. simpl.
    destruct st as [s|]; [eapply m_stride_pos; eauto|exact I]. }
  destruct (m_number l) as [[t0 r0]|] eqn:E4.
  { inversion H; subst. rewrite m_number_eq in E4. crk E4; inversion E4; exact I. }
  destruct (m_qualified l) as [[t0 r0]|] eqn:E5.
  { inversion H; subst. unfold m_qualified in E5. crk E5; inversion E5; exact I. }
  destruct (m_simple l) as [[t0 r0]|] eqn:E6.
  { inversion H; subst. unfold m_simple in E6. destruct (m_ident l) as [[i r']|]; [|discriminate].
    inversion E6; subst. pose proof (classify_spec_p (string_of_list_ascii i)) as C.
    repeat match type of C with context [String.eqb ?a ?b] => destruct (String.eqb a b) end; rewrite C; exact I. }
  destruct (m_bind l) as [[t0 r0]|] eqn:E7.
  { inversion H; subst. unfold m_bind in E7. crk E7. inversion E7; exact I. }
  unfold m_op in H. crk H; inversion H; exact I.
Qed.

Theorem lex_chars_tok_ok2 : forall fuel l, Forall tok_ok2 (lex_chars fuel l).
Proof.
  induction fuel as [|f IH]; intros l; [repeat constructor|].
  rewrite lex_chars_S. destruct l as [|c r]; [constructor|].
  destruct (is_ignore c || is_nl c); [apply IH|].
  destruct (m_token (c :: r)) as [[t r']|] eqn:E; [|repeat constructor].
  constructor; [split; [eapply m_token_ok; eauto|eapply m_token_range_pos; eauto]|apply IH].
Qed.

Theorem lex_tok_ok2 : forall s, Forall tok_ok2 (lex s).
Proof. intros s. unfold lex. apply lex_chars_tok_ok2. Qed.

(* ------------------------------------------------------------------ (2) leaves come from tokens *)
Lemma num_text_ok s : num_text (cs s) -> num_ok s.
Proof.
  intros T. destruct (num_text_facts (cs s) [] T (sep_num_next _ sep_nil)) as (_ & _ & _ & c & tl & E & Hc).
  destruct s as [|c' r']; [discriminate E|]. change (cs (String c' r')) with (c' :: cs r') in E.
  inversion E; subst. unfold num_ok.
  assert (N : Ascii.eqb c "+" || Ascii.eqb c "-" = false).
  { destruct Hc as [D| ->]; [|reflexivity]. bits c; try reflexivity; discriminate D. }
  rewrite N. exact T.
Qed.

Section Leaves.
  Variable tv : string -> option string.
  Variable tun : string -> string.
  Hypothesis Htun : forall v, quote_free (cs (tun v)) = true.

  Notation W := (Forall tok_ok2).
  Definition good (t : tree) : Prop := payload_ok true tun t /\ range_ok t = true.
  Definition goods (xs : list tree) : Prop := all_p (payload_ok true tun) xs /\ forallb range_ok xs = true.

  Lemma W_tail t r : W (t :: r) -> W r.
  Proof. intros H. inversion H; assumption. Qed.
  Lemma W_tail2 t u r : W (t :: u :: r) -> W r.
  Proof. intros H. apply W_tail in H. apply W_tail in H. exact H. Qed.
  Lemma W_tail3 t u v r : W (t :: u :: v :: r) -> W r.
  Proof. intros H. apply W_tail2 in H. apply W_tail in H. exact H. Qed.

  Lemma goods_nil : goods [].
  Proof. split; [exact I|reflexivity]. Qed.
  Lemma goods_cons x xs : good x -> goods xs -> goods (x :: xs).
  Proof. intros [A B] [C D]. split; [split; assumption|simpl; rewrite B, D; reflexivity]. Qed.
  Lemma good_binary l o x : good l -> good x -> good (Binary l o x).
  Proof. intros [A B] [C D]. split; [split; assumption|simpl; rewrite B, D; reflexivity]. Qed.
  Lemma good_unary o x : good x -> good (Unary o x).
  Proof. intros [A B]. split; assumption. Qed.

  Lemma good_tok tok r x : W (tok :: r) ->
    match tok with
    | TNum s => x = Num s | TStr s => x = Str s | TTime s => exists v, x = Time v | TRange a b st => x = Range a b st
    | TQId s | TId s => x = Ident s | TBind s => x = Bind s | _ => False
    end -> good x.
  Proof.
    intros Wt H. inversion Wt as [|? ? [T1 T2] W0]; subst. destruct tok; try contradiction.
    - subst x. split; [apply num_text_ok; exact T1|reflexivity].
    - destruct H as [v ->]. split; [apply Htun|reflexivity].
    - subst x. split; [exact T1|reflexivity].
    - subst x. split; [exact I|]. simpl. destruct st as [s0|]; [apply Z.leb_le; exact T2|reflexivity].
    - subst x. split; [right; exact T1|reflexivity].
    - subst x. split; [left; exact T1|reflexivity].
    - subst x. split; [exact T1|reflexivity].
  Qed.

  Lemma good_signed c s r : W (TNum s :: r) -> c = "+" \/ c = "-" -> good (Num (String c s)).
  Proof.
    intros Wt Hc. inversion Wt as [|? ? [T1 T2] W0]; subst. split; [|reflexivity].
    destruct Hc as [-> | ->]; exact T1.
  Qed.

  Lemma p_item_good ts x r : W ts -> p_item tv ts = POk (x, r) -> good x /\ W r.
  Proof.
    intros Wt H. unfold p_item in H. destruct ts as [|tok r0]; [discriminate|].
    pose proof (W_tail _ _ Wt) as W0.
    destruct tok; try discriminate H.
    - inversion H; subst. split; [eapply good_tok; [exact Wt|reflexivity]|exact W0].
    - destruct (tv s) eqn:E; inversion H; subst. split; [eapply good_tok; [exact Wt|eexists; reflexivity]|exact W0].
    - inversion H; subst. split; [eapply good_tok; [exact Wt|reflexivity]|exact W0].
    - inversion H; subst. split; [eapply good_tok; [exact Wt|reflexivity]|exact W0].
    - inversion H; subst. split; [eapply good_tok; [exact Wt|reflexivity]|exact W0].
    - inversion H; subst. split; [eapply good_tok; [exact Wt|reflexivity]|exact W0].
    - inversion H; subst. split; [eapply good_tok; [exact Wt|reflexivity]|exact W0].
    - destruct r0 as [|tok r1]; [discriminate|]. destruct tok; try discriminate H.
      inversion H; subst. split; [eapply good_signed; [exact W0|left; reflexivity]|eapply W_tail; eauto].
    - destruct r0 as [|tok r1]; [discriminate|]. destruct tok; try discriminate H.
      inversion H; subst. split; [eapply good_signed; [exact W0|right; reflexivity]|eapply W_tail; eauto].
  Qed.

  Lemma p_inlist_good : forall f ts vs r, W ts -> p_inlist tv f ts = POk (vs, r) -> goods vs /\ W r.
  Proof.
    induction f as [|f IH]; intros ts vs r Wt H; [discriminate|].
    rewrite p_inlist_eq in H.
    destruct (p_item tv ts) as [[x r0]|e|] eqn:E; simpl in H; try discriminate.
    destruct (p_item_good _ _ _ Wt E) as [Gx W0].
    destruct r0 as [|tok r1]; [discriminate|].
    destruct tok; try discriminate H.
    - inversion H; subst. split; [apply goods_cons; [exact Gx|apply goods_nil]|eapply W_tail; eauto].
    - destruct (p_inlist tv f r1) as [[xs r2]|e|] eqn:E2; simpl in H; try discriminate.
      inversion H; subst. destruct (IH _ _ _ (W_tail _ _ W0) E2) as [Gxs W2].
      split; [apply goods_cons; assumption|exact W2].
  Qed.

  Definition L_simple f := forall ts t r, W ts -> p_simple tv f ts = POk (t, r) -> good t /\ W r.
  Definition L_args f := forall ts xs r, W ts -> p_args tv f ts = POk (xs, r) -> goods xs /\ W r.
  Definition L_args_tail f := forall ts xs r, W ts -> p_args_tail tv f ts = POk (xs, r) -> goods xs /\ W r.
  Definition L_bit f := forall minp ts t r, W ts -> p_bit tv f minp ts = POk (t, r) -> good t /\ W r.
  Definition L_bit_loop f := forall minp l ts t r, W ts -> good l -> p_bit_loop tv f minp l ts = POk (t, r) -> good t /\ W r.
  Definition L_pred f := forall ts t r, W ts -> p_pred tv f ts = POk (t, r) -> good t /\ W r.
  Definition L_bprim f := forall ts t r, W ts -> p_bprim tv f ts = POk (t, r) -> good t /\ W r.
  Definition L_bprim_loop f := forall l ts t r, W ts -> good l -> p_bprim_loop tv f l ts = POk (t, r) -> good t /\ W r.
  Definition L_expr f := forall minp ts t r, W ts -> p_expr tv f minp ts = POk (t, r) -> good t /\ W r.
  Definition L_expr_loop f := forall minp l ts t r, W ts -> good l -> p_expr_loop tv f minp l ts = POk (t, r) -> good t /\ W r.

  Definition LAll f :=
    L_simple f /\ L_args f /\ L_args_tail f /\ L_bit f /\ L_bit_loop f /\ L_pred f /\ L_bprim f /\
    L_bprim_loop f /\ L_expr f /\ L_expr_loop f.

  Lemma lstep_simple f : L_simple f -> L_args f -> L_expr f -> L_simple (S f).
  Proof.
    intros HS HA HE ts t r Wt H. rewrite p_simple_eq in H.
    destruct ts as [|tok r0]; [discriminate|]. pose proof (W_tail _ _ Wt) as W0.
    destruct tok; try discriminate H.
    - inversion H; subst. split; [eapply good_tok; [exact Wt|reflexivity]|exact W0].
    - destruct (tv s) eqn:E; inversion H; subst. split; [eapply good_tok; [exact Wt|eexists; reflexivity]|exact W0].
    - inversion H; subst. split; [eapply good_tok; [exact Wt|reflexivity]|exact W0].
    - inversion H; subst. split; [eapply good_tok; [exact Wt|reflexivity]|exact W0].
    - inversion H; subst. split; [eapply good_tok; [exact Wt|reflexivity]|exact W0].
    - (* TId *)
      assert (Hid : forall r1, POk (Ident s, r1) = POk (t, r) -> r1 = r0 -> good t /\ W r).
      { intros r1 H1 E1. inversion H1; subst. split; [eapply good_tok; [exact Wt|reflexivity]|exact W0]. }
      destruct r0 as [|tok r1]; [eapply Hid; eauto|].
      destruct tok; try solve [eapply Hid; eauto].
      clear Hid.
      destruct (p_args tv f r1) as [[args r2]|e|] eqn:E; simpl in H; try discriminate.
      destruct (HA _ _ _ (W_tail _ _ W0) E) as [[PA RA] W2].
      inversion Wt as [|? ? [Tid _] _]; subst. simpl in Tid.
      unfold mk_call in H.
      destruct (String.eqb (upper s) "POINT") eqn:EP.
      + destruct args as [|a [|b [|c args]]]; try (destruct (follows_simple r2); discriminate H).
        simpl in H. inversion H; subst. split; [|exact W2].
        simpl in PA, RA. destruct PA as (Pa & Pb & _). split; [split; assumption|].
        simpl. rewrite andb_true_r in RA. exact RA.
      + simpl in H. inversion H; subst. split; [|exact W2]. split; [split; assumption|exact RA].
    - inversion H; subst. split; [eapply good_tok; [exact Wt|reflexivity]|exact W0].
    - (* TLP *)
      destruct (p_expr tv f 0 r0) as [[e r1]|e|] eqn:E; simpl in H; try discriminate.
      destruct (HE _ _ _ _ W0 E) as (Ge & W1).
      destruct r1 as [|tok r2]; [discriminate|].
      destruct tok; try discriminate H.
      + inversion H; subst. split; [exact Ge|eapply W_tail; eauto].
      + destruct (p_expr tv f 0 r2) as [[e2 r3]|e'|] eqn:E2; simpl in H; try discriminate.
        destruct (HE _ _ _ _ (W_tail _ _ W1) E2) as (Ge2 & W3).
        destruct r3 as [|tok r4]; [discriminate|].
        destruct tok; try discriminate H.
        inversion H; subst. split; [|eapply W_tail; eauto].
        destruct Ge as [A B], Ge2 as [C D]. split; [split; assumption|simpl; rewrite B, D; reflexivity].
    - destruct (p_simple tv f r0) as [[x r1]|e|] eqn:E; simpl in H; try discriminate.
      destruct (HS _ _ _ W0 E) as [Gx W1]. inversion H; subst. split; [apply good_unary; exact Gx|exact W1].
    - destruct (p_simple tv f r0) as [[x r1]|e|] eqn:E; simpl in H; try discriminate.
      destruct (HS _ _ _ W0 E) as [Gx W1]. inversion H; subst. split; [apply good_unary; exact Gx|exact W1].
  Qed.

  Lemma largs_tail_body f ts xs r : L_expr f -> L_args_tail f -> W ts ->
    bind (p_expr tv f 0 ts) (fun '(e, r') => bind (p_args_tail tv f r') (fun '(es, r'') => POk (e :: es, r''))) = POk (xs, r) ->
    goods xs /\ W r.
  Proof.
    intros HE HT Wt H.
    destruct (p_expr tv f 0 ts) as [[e r1]|e|] eqn:E; simpl in H; try discriminate.
    destruct (HE _ _ _ _ Wt E) as (Ge & W1).
    destruct (p_args_tail tv f r1) as [[es r2]|e'|] eqn:E2; simpl in H; try discriminate.
    destruct (HT _ _ _ W1 E2) as [Ges W2].
    inversion H; subst. split; [apply goods_cons; assumption|exact W2].
  Qed.

  Lemma lstep_args_tail f : L_expr f -> L_args_tail f -> L_args_tail (S f).
  Proof.
    intros HE HT ts xs r Wt H. rewrite p_args_tail_eq in H.
    destruct ts as [|tok r0]; [discriminate|].
    destruct tok; try discriminate H.
    - inversion H; subst. split; [apply goods_nil|eapply W_tail; eauto].
    - exact (largs_tail_body f r0 xs r HE HT (W_tail _ _ Wt) H).
  Qed.

  Lemma lstep_args f : L_expr f -> L_args_tail f -> L_args (S f).
  Proof.
    intros HE HT ts xs r Wt H. rewrite p_args_eq in H.
    destruct ts as [|tok r0]; [exact (largs_tail_body f _ xs r HE HT Wt H)|].
    destruct tok; try solve [exact (largs_tail_body f _ xs r HE HT Wt H)].
    - inversion H; subst. split; [apply goods_nil|eapply W_tail; eauto].
    - eapply HT; eauto.
  Qed.

  Lemma lstep_bit f : L_simple f -> L_bit_loop f -> L_bit (S f).
  Proof.
    intros HS HL minp ts t r Wt H. rewrite p_bit_eq in H.
    destruct (p_simple tv f ts) as [[l r1]|e|] eqn:E; simpl in H; try discriminate.
    destruct (HS _ _ _ Wt E) as [G W1]. exact (HL minp l r1 t r W1 G H).
  Qed.

  Lemma lstep_bit_loop f : L_bit f -> L_bit_loop f -> L_bit_loop (S f).
  Proof.
    intros HB HL minp l ts t r Wt G H. rewrite p_bit_loop_eq in H.
    destruct ts as [|tok r0]; [inversion H; subst; split; assumption|].
    destruct (arith_op tok) as [o|] eqn:EO; [|inversion H; subst; split; assumption].
    destruct (Nat.leb minp (lvl o)); [|inversion H; subst; split; assumption].
    destruct (p_bit tv f (rmin o) r0) as [[x r1]|e|] eqn:EB; simpl in H; try discriminate.
    destruct (HB _ _ _ _ (W_tail _ _ Wt) EB) as (Gx & W1).
    exact (HL minp (Binary l o x) r1 t r W1 (good_binary _ _ _ G Gx) H).
  Qed.

  Lemma lstep_pred f : L_bit f -> L_pred (S f).
  Proof.
    intros HB ts t r Wt H. rewrite p_pred_eq in H.
    destruct (p_bit tv f 0 ts) as [[l r1]|e|] eqn:E; simpl in H; try discriminate.
    destruct (HB _ _ _ _ Wt E) as (Gl & W1).
    assert (Hplain : forall r2, POk (l, r2) = POk (t, r) -> r2 = r1 -> good t /\ W r).
    { intros r2 H1 E1. inversion H1; subst. split; assumption. }
    assert (Hin : forall r2 neg, W r2 ->
               bind (p_inlist tv f r2) (fun '(vs, r'') => POk (IsIn l vs neg, r'')) = POk (t, r) -> good t /\ W r).
    { intros r2 neg W2 H1.
      destruct (p_inlist tv f r2) as [[vs r3]|e|] eqn:E2; simpl in H1; try discriminate.
      destruct (p_inlist_good _ _ _ _ W2 E2) as ([PV RV] & W3).
      inversion H1; subst. split; [|exact W3]. destruct Gl as [A B].
      split; [split; assumption|simpl; rewrite B, RV; reflexivity]. }
    destruct r1 as [|tok r2]; [eapply Hplain; eauto|].
    destruct tok; try solve [eapply Hplain; eauto].
    - destruct r2 as [|tok r3]; [discriminate|].
      destruct tok; try discriminate H.
      exact (Hin r3 false (W_tail2 _ _ _ W1) H).
    - destruct r2 as [|tok r3]; [discriminate|].
      destruct tok; try discriminate H.
      destruct r3 as [|tok r4]; [discriminate|].
      destruct tok; try discriminate H.
      exact (Hin r4 true (W_tail3 _ _ _ _ W1) H).
  Qed.

  Lemma lstep_bprim f : L_pred f -> L_bprim_loop f -> L_bprim (S f).
  Proof.
    intros HP HL ts t r Wt H. rewrite p_bprim_eq in H.
    destruct (p_pred tv f ts) as [[l r1]|e|] eqn:E; simpl in H; try discriminate.
    destruct (HP _ _ _ Wt E) as [G W1]. exact (HL l r1 t r W1 G H).
  Qed.

  Lemma lstep_bprim_loop f : L_pred f -> L_bprim_loop f -> L_bprim_loop (S f).
  Proof.
    intros HP HL l ts t r Wt G H. rewrite p_bprim_loop_eq in H.
    destruct ts as [|tok r0]; [inversion H; subst; split; assumption|].
    destruct (cmp_op tok) as [o|] eqn:EO; [|inversion H; subst; split; assumption].
    destruct (p_pred tv f r0) as [[x r1]|e|] eqn:EB; simpl in H; try discriminate.
    destruct (HP _ _ _ (W_tail _ _ Wt) EB) as (Gx & W1).
    exact (HL (Binary l o x) r1 t r W1 (good_binary _ _ _ G Gx) H).
  Qed.

  Lemma lstep_expr f : L_expr f -> L_bprim f -> L_expr_loop f -> L_expr (S f).
  Proof.
    intros HE HP HL minp ts t r Wt H. rewrite p_expr_eq in H.
    assert (Hb : bind (p_bprim tv f ts) (fun '(l, r) => p_expr_loop tv f minp l r) = POk (t, r) -> good t /\ W r).
    { intros H1.
      destruct (p_bprim tv f ts) as [[l r1]|e|] eqn:E; simpl in H1; try discriminate.
      destruct (HP _ _ _ Wt E) as [G W1]. exact (HL minp l r1 t r W1 G H1). }
    destruct ts as [|tok r0]; [exact (Hb H)|].
    destruct tok; try solve [exact (Hb H)].
    clear Hb.
    destruct (p_expr tv f not_lvl r0) as [[x r1]|e|] eqn:E; simpl in H; try discriminate.
    destruct (HE _ _ _ _ (W_tail _ _ Wt) E) as (Gx & W1).
    exact (HL minp (Unary UNot x) r1 t r W1 (good_unary _ _ Gx) H).
  Qed.

  Lemma lstep_expr_loop f : L_expr f -> L_expr_loop f -> L_expr_loop (S f).
  Proof.
    intros HB HL minp l ts t r Wt G H. rewrite p_expr_loop_eq in H.
    destruct ts as [|tok r0]; [inversion H; subst; split; assumption|].
    destruct (logic_op tok) as [o|] eqn:EO; [|inversion H; subst; split; assumption].
    destruct (Nat.leb minp (lvl o)); [|inversion H; subst; split; assumption].
    destruct (p_expr tv f (rmin o) r0) as [[x r1]|e|] eqn:EB; simpl in H; try discriminate.
    destruct (HB _ _ _ _ (W_tail _ _ Wt) EB) as (Gx & W1).
    exact (HL minp (Binary l o x) r1 t r W1 (good_binary _ _ _ G Gx) H).
  Qed.

  Lemma lall_fuel : forall f, LAll f.
  Proof.
    induction f as [|f IH].
    - unfold LAll, L_simple, L_args, L_args_tail, L_bit, L_bit_loop, L_pred, L_bprim, L_bprim_loop, L_expr, L_expr_loop.
      repeat split; intros; discriminate.
    - destruct IH as (H1 & H2 & H3 & H4 & H5 & H6 & H7 & H8 & H9 & H10).
      unfold LAll. repeat apply conj.
      + apply lstep_simple; auto.
      + apply lstep_args; auto.
      + apply lstep_args_tail; auto.
      + apply lstep_bit; auto.
      + apply lstep_bit_loop; auto.
      + apply lstep_pred; auto.
      + apply lstep_bprim; auto.
      + apply lstep_bprim_loop; auto.
      + apply lstep_expr; auto.
      + apply lstep_expr_loop; auto.
  Qed.

  Theorem p_expr_good_p : forall f minp ts t r, W ts -> p_expr tv f minp ts = POk (t, r) -> good t /\ W r.
  Proof. intros f. destruct (lall_fuel f) as (_ & _ & _ & _ & _ & _ & _ & _ & H & _). exact H. Qed.

  Theorem parse_good_p : forall fuel ts t, W ts -> parse tv fuel ts = POk (Some t) ->
    payload_ok true tun t /\ range_ok t = true.
  Proof.
    intros fuel ts t Wt H. unfold parse in H.
    destruct ts as [|tok r0]; [discriminate|].
    destruct (p_expr tv fuel 0 (tok :: r0)) as [[e r1]|e|] eqn:E; simpl in H; try discriminate.
    destruct (p_expr_good_p _ _ _ _ _ Wt E) as (G & _).
    destruct r1; [|discriminate]. inversion H; subst. exact G.
  Qed.

  Theorem parse_string_good_p : forall s t, parse_string tv s = POk (Some t) ->
    payload_ok true tun t /\ range_ok t = true.
  Proof. intros s t H. unfold parse_string, parse_tokens in H. eapply parse_good_p; [apply lex_tok_ok2|exact H]. Qed.
End Leaves.

(* for a tree without TimeLiteral / BindName the payload conditions do not depend on the printer *)
Lemma payload_plain fixed tshow fixed' tshow' : forall t, plain t = true ->
  payload_ok fixed tshow t -> payload_ok fixed' tshow' t.
Proof.
  induction t using tree_ind2; cbn [plain payload_ok]; intros PL P; try discriminate PL; auto.
  - apply andb_true_iff in PL. destruct PL, P. split; auto.
  - apply andb_true_iff in PL. destruct PL as [PL1 PL2], P as [P1 P2]. split; auto.
    clear IHt P1 PL1. induction H as [|x r Hx Hr IH]; [exact I|].
    simpl in PL2. apply andb_true_iff in PL2. destruct PL2, P2. split; auto.
  - apply andb_true_iff in PL. destruct PL, P. split; auto.
  - apply andb_true_iff in PL. destruct PL, P. split; auto.
  - destruct P as [P1 P2]. split; auto.
    clear P1. induction H as [|x r Hx Hr IH]; [exact I|].
    simpl in PL. apply andb_true_iff in PL. destruct PL, P2. split; auto.
Qed.

(* ------------------------------------------------------------------ (3) the unconditional theorems *)
Theorem lex_show_parsed_p : forall tv tun, (forall v, quote_free (cs (tun v)) = true) -> forall s t,
  parse_string tv s = POk (Some t) -> lex (string_of_list_ascii (show_fix tun t)) = print_fix tun t.
Proof.
  intros tv tun Htun s t P. destruct (parse_string_good_p tv tun Htun s t P) as [PO R].
  exact (lex_show_payload_p true tun t PO R).
Qed.

Theorem reparse_show_string_p : forall tv tun, tun_inverts tv tun -> (forall v, quote_free (cs (tun v)) = true) ->
  forall s t, parse_string tv s = POk (Some t) ->
  parse_string tv (string_of_list_ascii (show_fix tun t)) = POk (Some t).
Proof.
  intros tv tun TI Htun s t P. destruct (parse_string_good_p tv tun Htun s t P) as [PO R].
  exact (reparse_show_p tv tun TI s t P PO R).
Qed.

(* faithful printer (Node.__str__), trees without TimeLiteral / BindName: no hypothesis on tshow *)
Theorem lex_show_parsed_plain_p : forall tv tshow s t,
  parse_string tv s = POk (Some t) -> plain t = true -> lex (string_of_list_ascii (show tshow t)) = print tshow t.
Proof.
  intros tv tshow s t P PL.
  destruct (parse_string_good_p tv (fun _ => EmptyString) (fun _ => eq_refl) s t P) as [PO R].
  exact (lex_show_payload_p false tshow t (payload_plain _ _ false tshow t PL PO) R).
Qed.

Theorem reparse_show_string_plain_p : forall tv tun, tun_inverts tv tun -> forall tshow s t,
  parse_string tv s = POk (Some t) -> plain t = true ->
  parse_string tv (string_of_list_ascii (show tshow t)) = POk (Some t).
Proof.
  intros tv tun TI tshow s t P PL.
  destruct (parse_string_good_p tv (fun _ => EmptyString) (fun _ => eq_refl) s t P) as [PO R].
  exact (reparse_show_partial_p tv tun tshow TI s t P PL (payload_plain _ _ false tshow t PL PO) R).
Qed.
