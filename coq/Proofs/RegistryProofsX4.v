(* C02: the conflict error is raised exactly when uniqueness would break -- BATCH form for insertDatasets. *)
From Coq Require Import NArith Arith List Bool Lia.
From V Require Import Model.Registry Model.RegistryAbs Proofs.RegistryProofs Proofs.RegistryProofsX1
  Proofs.RegistryProofsX2 Proofs.RegistryProofsX3.
Import ListNotations.
Open Scope N_scope.

Lemma tag_insert_ok : forall tg r, ~ In (ukey r) (map ukey tg) -> ~ In (pkey r) (map pkey tg) ->
  tag_insert tg r = Some (r :: tg).
Proof.
  intros tg r Hu Hp. unfold tag_insert. destruct (existsb (fun x => pk_eq r x || uk_eq r x) tg) eqn:E; [|reflexivity].
  exfalso. apply existsb_exists in E. destruct E as [x [Hx E]]. apply orb_true_iff in E. destruct E as [E|E].
  - apply pk_eq_true in E. apply Hp. rewrite E. apply in_map; auto.
  - apply uk_eq_true in E. apply Hu. rewrite E. apply in_map; auto.
Qed.

(* a batch of INSERTs succeeds iff the batch is duplicate-free and clashes with no existing row *)
Lemma tag_fold_ok_iff : forall rows tg,
  fold_opt tag_insert tg rows <> None <->
  (NoDup (map ukey rows) /\ NoDup (map pkey rows) /\
   forall r, In r rows -> ~ In (ukey r) (map ukey tg) /\ ~ In (pkey r) (map pkey tg)).
Proof.
  induction rows as [|r rows IH]; intros tg; simpl.
  - split; [intros _; split; [constructor | split; [constructor | intros r []]] | discriminate].
  - destruct (tag_insert tg r) as [tg1|] eqn:E.
    + apply tag_insert_some in E. destruct E as [-> [Hu Hp]]. rewrite IH. simpl. split.
      * intros [N1 [N2 H]]. split; [|split].
        -- constructor; auto. intros F. apply in_map_iff in F. destruct F as [y [Ey Hy]].
           destruct (H y Hy) as [H1 _]. apply H1. left. symmetry; exact Ey.
        -- constructor; auto. intros F. apply in_map_iff in F. destruct F as [y [Ey Hy]].
           destruct (H y Hy) as [_ H1]. apply H1. left. symmetry; exact Ey.
        -- intros r' [<-|Hr']; [split; auto|]. destruct (H r' Hr') as [H1 H2].
           split; intros F; [apply H1 | apply H2]; right; exact F.
      * intros [N1 [N2 H]]. inversion N1 as [|? ? U1 U2]; subst. inversion N2 as [|? ? P1 P2]; subst.
        split; [exact U2 | split; [exact P2|]].
        intros r' Hr'. destruct (H r' (or_intror Hr')) as [H1 H2]. split.
        -- intros [F|F]; [|auto]. apply U1. rewrite F. apply in_map; auto.
        -- intros [F|F]; [|auto]. apply P1. rewrite F. apply in_map; auto.
    + split; [intros F; exfalso; apply F; reflexivity|]. intros [N1 [N2 H]]. exfalso.
      destruct (H r (or_introl eq_refl)) as [H1 H2]. rewrite (tag_insert_ok tg r H1 H2) in E. discriminate.
Qed.

Lemma ds_fold_ok_iff : forall news ds,
  fold_opt ds_insert ds news <> None <->
  (NoDup (map d_id news) /\ forall x, In x news -> ~ In (d_id x) (map d_id ds)).
Proof.
  induction news as [|x news IH]; intros ds; simpl.
  - split; [intros _; split; [constructor | intros x []] | discriminate].
  - unfold ds_insert at 1. destruct (ds_find ds (d_id x)) eqn:E.
    + split; [intros F; exfalso; apply F; reflexivity|]. intros [_ H]. exfalso.
      apply (H x (or_introl eq_refl)). apply ds_find_some in E. destruct E as [E1 E2]. rewrite <- E2. apply in_map; auto.
    + apply ds_find_none in E. rewrite IH. simpl. split.
      * intros [N1 H]. split.
        -- constructor; auto. intros F. apply in_map_iff in F. destruct F as [y [Ey Hy]]. apply (H y Hy). left; auto.
        -- intros y [<-|Hy]; auto. intros F. apply (H y Hy). right; auto.
      * intros [N1 H]. inversion N1; subst. split; auto.
        intros y Hy [F|F]; [|apply (H y (or_intror Hy)); auto]. apply H2. rewrite F. apply in_map; auto.
Qed.

Lemma NoDup_map_of : forall {A B} (f : A -> B) l, NoDup (map f l) -> NoDup l.
Proof.
  intros A B f l; induction l as [|a l IH]; simpl; intros H; [constructor|]. inversion H; subst.
  constructor; auto. intros F. apply H2. apply in_map; auto.
Qed.
Lemma NoDup_map_inj' : forall {A B} (f : A -> B) l, (forall x y, f x = f y -> x = y) -> NoDup l -> NoDup (map f l).
Proof.
  intros A B f l Hf; induction l as [|a l IH]; simpl; intros H; [constructor|]. inversion H; subst.
  constructor; auto. intros F. apply in_map_iff in F. destruct F as [y [Ey Hy]]. apply Hf in Ey. subst. auto.
Qed.
Lemma NoDup_map_comp : forall {A B C} (f : A -> B) (g : B -> C) l, (forall x y, g x = g y -> x = y) ->
  (NoDup (map (fun x => g (f x)) l) <-> NoDup (map f l)).
Proof.
  intros A B C f g l Hg. rewrite <- (map_map f g). split; [apply NoDup_map_of | apply NoDup_map_inj'; exact Hg].
Qed.

(* Valid arguments, non-empty batch, ANY reachable state: insertDatasets is refused with Conflict exactly unless the
   batch names pairwise different new dataset ids and pairwise different data IDs, no id is in use and no
   (run, dataset type, data ID) key is held; otherwise it succeeds. *)
Lemma insert_batch_ok_iff_p : forall h t c items,
  has_type (run h) t = true -> coll_type (run h) c = Some RUN ->
  forallb (fun it => valid_d (fst it)) items = true -> items <> [] ->
  (snd (step (run h) (Insert t c items)) = Ok <->
   (NoDup (map snd items) /\ NoDup (map fst items) /\
    forall d i, In (d, i) items -> alive (run h) i = false /\ find (run h) c t d = None)) /\
  (snd (step (run h) (Insert t c items)) = Ok \/ snd (step (run h) (Insert t c items)) = Err Conflict).
Proof.
  intros h t c items Ht Hc Hv Hne. simpl. unfold do_insert. rewrite Ht, Hc, Hv. simpl.
  destruct items as [|it items]; [congruence|]. cbv iota. remember (it :: items) as its eqn:Eits. clear Eits Hne.
  pose proof (ds_fold_ok_iff (map (fun it0 => Ds (snd it0) t c) its) (datasets (run h))) as QD.
  pose proof (tag_fold_ok_iff (map (fun it0 => Row c t (fst it0) (snd it0)) its) (tags (run h))) as QT.
  assert (FKr : forall y, In y (tags (run h)) -> alive (run h) (r_id y) = true)
    by (intros y Hy; apply (tags_refer_to_live_p h y Hy)).
  assert (KU : NoDup (map (fun x => ukey (Row c t (fst x) (snd x))) its) <-> NoDup (map fst its)).
  { apply (NoDup_map_comp fst (fun d => (c, t, d))). intros x y E; inversion E; auto. }
  assert (KP : NoDup (map (fun x => pkey (Row c t (fst x) (snd x))) its) <-> NoDup (map snd its)).
  { apply (NoDup_map_comp snd (fun i => (i, c))). intros x y E; inversion E; auto. }
  assert (AL : forall i, alive (run h) i = false <-> ~ In i (map d_id (datasets (run h)))).
  { intros i. split; [|apply not_alive]. intros A F. unfold alive in A.
    destruct (ds_find (datasets (run h)) i) eqn:E; [discriminate|]. apply ds_find_none in E. auto. }
  assert (Good : (NoDup (map snd its) /\ NoDup (map fst its) /\
                  forall d i, In (d, i) its -> alive (run h) i = false /\ find (run h) c t d = None) <->
                 (fold_opt ds_insert (datasets (run h)) (map (fun it0 => Ds (snd it0) t c) its) <> None /\
                  fold_opt tag_insert (tags (run h)) (map (fun it0 => Row c t (fst it0) (snd it0)) its) <> None)).
  { split.
    - intros [N1 [N2 H]]. split.
      + apply QD. split; [rewrite map_map; exact N1|].
        intros x Hx. apply in_map_iff in Hx. destruct Hx as [[d i] [<- Hx]]. simpl. apply AL. apply (H d i Hx).
      + apply QT. split; [rewrite map_map; apply KU; exact N2 | split; [rewrite map_map; apply KP; exact N1|]].
        intros r Hr. apply in_map_iff in Hr. destruct Hr as [[d i] [<- Hx]]. destruct (H d i Hx) as [A L]. split.
        * apply look_none. exact L.
        * intros F. apply in_map_iff in F. destruct F as [y [Ey Hy]]. unfold pkey in Ey; simpl in Ey. inversion Ey.
          specialize (FKr y Hy). congruence.
    - intros [G1 G2]. apply QD in G1. apply QT in G2. destruct G1 as [N1 H1]. destruct G2 as [N2 [N3 H2]].
      rewrite map_map in N1, N2, N3. split; [exact N1 | split; [apply KU; exact N2|]]. intros d i Hin. split.
      + apply AL. apply (H1 (Ds i t c)). apply in_map_iff. exists (d, i). auto.
      + assert (In (Row c t d i) (map (fun it0 => Row c t (fst it0) (snd it0)) its)) as Hr
          by (apply in_map_iff; exists (d, i); auto).
        destruct (H2 _ Hr) as [H3 _]. apply (proj2 (look_none (tags (run h)) c t d)). exact H3. }
  destruct (fold_opt ds_insert (datasets (run h)) (map (fun it0 => Ds (snd it0) t c) its)) as [ds'|].
  - destruct (fold_opt tag_insert (tags (run h)) (map (fun it0 => Row c t (fst it0) (snd it0)) its)) as [tg'|]; simpl.
    + split; [|left; reflexivity]. split; [intros _; apply Good; split; discriminate | reflexivity].
    + split; [|right; reflexivity]. split; [discriminate|]. intros G. apply Good in G. destruct G as [_ G]. congruence.
  - simpl. split; [|right; reflexivity]. split; [discriminate|]. intros G. apply Good in G. destruct G as [G _]. congruence.
Qed.

Lemma insert_conflict_iff_batch_p : forall h t c items,
  has_type (run h) t = true -> coll_type (run h) c = Some RUN ->
  forallb (fun it => valid_d (fst it)) items = true -> items <> [] ->
  (snd (step (run h) (Insert t c items)) = Err Conflict <->
   ~ (NoDup (map snd items) /\ NoDup (map fst items) /\
      forall d i, In (d, i) items -> alive (run h) i = false /\ find (run h) c t d = None)).
Proof.
  intros h t c items Ht Hc Hv Hne. destruct (insert_batch_ok_iff_p h t c items Ht Hc Hv Hne) as [[A B] [C|C]].
  - split; [intros F; rewrite C in F; discriminate | intros F; exfalso; apply F; apply A; exact C].
  - split; [intros _ G; apply B in G; rewrite C in G; discriminate | intros _; exact C].
Qed.
