(* C08 lemmas, part S: shared artifacts (Model/CrashShared.v).  A dataset that shares its artifact with the targets of a
   removal keeps its rows AND its file at every crash point; a multi-ref / zip ingest is jointly all-or-nothing; no partial
   file under a final name. *)
From Coq Require Import NArith PeanoNat List Bool Lia.
From V Require Import Model.Crash Model.CrashShared Proofs.CrashProofsA.
Import ListNotations.
Open Scope N_scope.

(* ------------------------------------------------------------------ prefixes *)
Lemma scrash_nil : forall s k, scrash s [] k = s.
Proof. intros s k. unfold scrash. destruct k; reflexivity. Qed.

Lemma scrash_zero : forall s p, scrash s p 0 = s.
Proof. reflexivity. Qed.

Lemma scrash_cons : forall s e p k, scrash s (e :: p) (S k) = scrash (do_eff s e) p k.
Proof. reflexivity. Qed.

Lemma scrash_all : forall s p, scrash s p (length p) = run_effs s p.
Proof. intros. unfold scrash. rewrite firstn_all. reflexivity. Qed.

Lemma scrash_snoc : forall s p e k,
  scrash s (p ++ [e]) k = scrash s p k \/ scrash s (p ++ [e]) k = do_eff (run_effs s p) e.
Proof.
  intros s p e k. unfold scrash. destruct (Nat.le_gt_cases k (length p)) as [L|L].
  - left. rewrite firstn_app. replace (k - length p)%nat with 0%nat by lia. cbn [firstn]. rewrite app_nil_r. reflexivity.
  - right. rewrite firstn_all2 by (rewrite app_length; cbn [length]; lia). unfold run_effs. rewrite fold_left_app. reflexivity.
Qed.

(* ------------------------------------------------------------------ the shape of emptyTrash *)
Definition erows (b : sdb) (ord : list N) : list N := order_by ord (filter (has_rec b) (s_trash b)).
Definition del_of (b : sdb) (rows : list N) (d : N) : list eff :=
  match art_of b d with Some a => if keeps b rows a then [] else [EDelete (Final a)] | None => [] end.
Definition edels (b : sdb) (ord : list N) : list eff := flat_map (del_of b (erows b ord)) (erows b ord).
Definition eb2 (b : sdb) (ord : list N) : sdb :=
  mkSdb (s_ds b) (s_loc b) (reml (erows b ord) (s_trash b)) (del_recs (erows b ord) (s_recs b)).

Lemma splan_empty_shape : forall b ord,
  splan_empty b ord = [] \/ splan_empty b ord = edels b ord ++ [ECommit (eb2 b ord)].
Proof.
  intros b ord. unfold splan_empty, edels, eb2, erows, del_of.
  destruct (order_by ord (filter (has_rec b) (s_trash b))) as [|x r]; [left | right]; reflexivity.
Qed.

Definition unkept_del (b : sdb) (rows : list N) (e : eff) : Prop :=
  exists a, e = EDelete (Final a) /\ keeps b rows a = false.

Lemma dels_unkept : forall b rows l, Forall (unkept_del b rows) (flat_map (del_of b rows) l).
Proof.
  induction l as [|d r IH]; cbn [flat_map]; [constructor|]. apply Forall_app. split; [|exact IH].
  unfold del_of. destruct (art_of b d) as [a|]; [|constructor]. destruct (keeps b rows a) eqn:K; [constructor|].
  constructor; [|constructor]. exists a. split; [reflexivity | exact K].
Qed.

(* deletions of other artifacts leave the rows and this artifact alone *)
Lemma dels_keep : forall a p s, Forall (fun e => exists a', e = EDelete (Final a') /\ a' <> a) p ->
  forall k, sb (scrash s p k) = sb s /\ fget (Final a) (sf (scrash s p k)) = fget (Final a) (sf s).
Proof.
  induction p as [|e r IH]; intros s F k.
  - rewrite scrash_nil. split; reflexivity.
  - destruct k; [split; reflexivity|]. inversion F as [|? ? (a' & E & N) F']; subst. rewrite scrash_cons.
    destruct (IH (do_eff s (EDelete (Final a'))) F' k) as [A B]. split; [rewrite A; reflexivity|].
    rewrite B. cbn [do_eff sf]. apply fget_fdel_other. intros X. inversion X. congruence.
Qed.

Lemma art_of_rec : forall b d a, art_of b d = Some a -> In (d, a) (s_recs b).
Proof.
  intros b d a H. unfold art_of in H. destruct (find (fun r => fst r =? d) (s_recs b)) as [r|] eqn:F; [|discriminate].
  apply find_some in F. destruct F as [I E]. apply N.eqb_eq in E. inversion H. subst. destruct r; exact I.
Qed.

Lemma find_del_recs : forall rows d rs, mem d rows = false ->
  find (fun r => fst r =? d) (del_recs rows rs) = find (fun r : N * N => fst r =? d) rs.
Proof.
  induction rs as [|r q IH]; intros M; cbn [del_recs filter find]; [reflexivity|].
  destruct (mem (fst r) rows) eqn:Mr; cbn [negb find].
  - destruct (N.eqb_spec (fst r) d) as [E|N]; [subst; congruence | apply IH, M].
  - destruct (fst r =? d); [reflexivity | apply IH, M].
Qed.

(* a located dataset's artifact is kept by emptyTrash, whichever rule applies *)
Lemma keeps_located : forall b rows d a, art_of b d = Some a -> mem d (s_loc b) = true -> mem d rows = false -> keeps b rows a = true.
Proof.
  intros b rows d a A L R. pose proof (art_of_rec b d a A) as I. unfold keeps, kept, kept_loc.
  destruct (is_zip a); apply existsb_exists; exists (d, a); (split; [exact I|]); cbn [fst snd]; rewrite N.eqb_refl.
  - rewrite R. reflexivity.
  - rewrite L. reflexivity.
Qed.

Definition by_inv (d a : N) (ds_bit : bool) (f0 : option fcont) (u : sstate) : Prop :=
  mem d (s_loc (sb u)) = true /\ mem d (s_trash (sb u)) = false /\ art_of (sb u) d = Some a
  /\ mem d (s_ds (sb u)) = ds_bit /\ fget (Final a) (sf u) = f0.

Lemma empty_bystander : forall b ord x d a, sb x = b ->
  mem d (s_loc b) = true -> mem d (s_trash b) = false -> art_of b d = Some a ->
  forall k, by_inv d a (mem d (s_ds b)) (fget (Final a) (sf x)) (scrash x (splan_empty b ord) k).
Proof.
  intros b ord x d a Eb L T A k.
  assert (NR : mem d (erows b ord) = false).
  { unfold erows. rewrite mem_order_by, mem_filter, T. reflexivity. }
  assert (KD : Forall (fun e => exists a', e = EDelete (Final a') /\ a' <> a) (edels b ord)).
  { unfold edels. eapply Forall_impl; [|apply dels_unkept]. intros e (a' & E & K). exists a'. split; [exact E|].
    intros ->. rewrite (keeps_located b (erows b ord) d a A L NR) in K. discriminate. }
  destruct (splan_empty_shape b ord) as [P|P]; rewrite P.
  - rewrite scrash_nil. unfold by_inv. rewrite Eb. auto.
  - destruct (scrash_snoc x (edels b ord) (ECommit (eb2 b ord)) k) as [E|E]; rewrite E.
    + destruct (dels_keep a (edels b ord) x KD k) as [S1 S2]. unfold by_inv. rewrite S1, S2, Eb. auto.
    + destruct (dels_keep a (edels b ord) x KD (length (edels b ord))) as [_ S2]. rewrite scrash_all in S2.
      unfold by_inv. cbn [do_eff sb sf eb2 s_ds s_loc s_trash s_recs]. rewrite S2.
      split; [exact L|]. split; [rewrite mem_reml, T; reflexivity|]. split; [|split; reflexivity].
      unfold art_of in *. unfold eb2. cbn [s_recs]. rewrite (find_del_recs _ _ _ NR). exact A.
Qed.

(* THEOREM material: at every crash point of every removal, a located dataset that is not a target keeps its rows and its
   artifact -- also when the artifact is shared with targets *)
Definition sdisj (b : sdb) : Prop := forall d, mem d (s_loc b) = true -> mem d (s_trash b) = false.

Lemma shared_bystander_l : forall s o d a k,
  sdisj (sb s) -> s_is_removal o = true -> s_target o d = false ->
  mem d (s_loc (sb s)) = true -> art_of (sb s) d = Some a ->
  by_inv d a (mem d (s_ds (sb s))) (fget (Final a) (sf s)) (scrash s (splan s o) k).
Proof.
  intros s o d a k D R T L A. pose proof (D d L) as NT.
  assert (HERE : by_inv d a (mem d (s_ds (sb s))) (fget (Final a) (sf s)) s) by (unfold by_inv; auto).
  destruct o as [mv a0 v l | l ord | l ord | l | ord]; try discriminate; cbn [s_target] in T; cbn [splan].
  - (* purge *)
    destruct (inter l (s_ds (sb s))) as [|y r] eqn:E.
    + apply (empty_bystander (sb s) ord s d a eq_refl L NT A).
    + destruct k; [exact HERE|]. rewrite scrash_cons.
      assert (M1 : mem d (y :: r) = false) by (rewrite <- E, mem_inter, T; reflexivity).
      assert (M2 : mem d (inter (y :: r) (s_loc (sb s))) = false) by (rewrite mem_inter, M1; reflexivity).
      set (b1 := mkSdb (reml (y :: r) (s_ds (sb s))) (reml (inter (y :: r) (s_loc (sb s))) (s_loc (sb s)))
                       (addl (inter (y :: r) (s_loc (sb s))) (s_trash (sb s))) (s_recs (sb s))).
      pose proof (empty_bystander b1 ord (do_eff s (ECommit b1)) d a eq_refl) as X.
      cbn [do_eff sf] in X. replace (mem d (s_ds (sb s))) with (mem d (s_ds b1)).
      * apply X; unfold b1; cbn [s_loc s_trash s_recs].
        -- rewrite mem_reml, L, M2. reflexivity.
        -- rewrite mem_addl, M2, NT. reflexivity.
        -- exact A.
      * unfold b1. cbn [s_ds]. rewrite mem_reml, M1. cbn [negb]. apply andb_true_r.
  - (* unstore *)
    destruct (inter (inter l (s_ds (sb s))) (s_loc (sb s))) as [|y r] eqn:E.
    + apply (empty_bystander (sb s) ord s d a eq_refl L NT A).
    + destruct k; [exact HERE|]. rewrite scrash_cons.
      assert (M2 : mem d (y :: r) = false) by (rewrite <- E, !mem_inter, T; reflexivity).
      set (b1 := mkSdb (s_ds (sb s)) (reml (y :: r) (s_loc (sb s))) (addl (y :: r) (s_trash (sb s))) (s_recs (sb s))).
      pose proof (empty_bystander b1 ord (do_eff s (ECommit b1)) d a eq_refl) as X.
      cbn [do_eff sf] in X. change (mem d (s_ds (sb s))) with (mem d (s_ds b1)).
      apply X; unfold b1; cbn [s_loc s_trash s_recs].
      * rewrite mem_reml, L, M2. reflexivity.
      * rewrite mem_addl, M2, NT. reflexivity.
      * exact A.
  - (* Datastore.trash *)
    destruct (inter (inter l (s_ds (sb s))) (s_loc (sb s))) as [|y r] eqn:E; [rewrite scrash_nil; exact HERE|].
    assert (M2 : mem d (y :: r) = false) by (rewrite <- E, !mem_inter, T; reflexivity).
    destruct k; [exact HERE|]. rewrite scrash_cons, scrash_nil. unfold by_inv. cbn [do_eff sb sf s_ds s_loc s_trash s_recs].
    split; [rewrite mem_reml, L, M2; reflexivity|]. split; [rewrite mem_addl, M2, NT; reflexivity|]. auto.
  - (* emptyTrash *)
    apply (empty_bystander (sb s) ord s d a eq_refl L NT A).
Qed.

(* ------------------------------------------------------------------ a multi-ref / zip ingest is jointly all-or-nothing *)
Lemma find_map_app : forall (a d : N) l rs, mem d l = true ->
  find (fun r : N * N => fst r =? d) (map (fun x => (x, a)) l ++ rs) = Some (d, a).
Proof.
  induction l as [|x q IH]; intros rs M; [discriminate|]. cbn [map app find fst]. cbn [mem] in M.
  destruct (N.eqb_spec d x) as [E|N].
  - subst x. rewrite N.eqb_refl. reflexivity.
  - destruct (N.eqb_spec x d) as [E2|_]; [congruence|]. apply IH, M.
Qed.

Lemma shared_store_joint_l : forall s mv a v l k, sstore_ok (sb s) l = true ->
  let o := SStore mv a v l in
  let u := scrash s (splan s o) k in
  sb u = sb s
  \/ (u = srun_op s o
      /\ forall d, mem d l = true ->
           mem d (s_ds (sb u)) = true /\ mem d (s_loc (sb u)) = true /\ art_of (sb u) d = Some a /\ sget u d = GotValue v).
Proof.
  intros s mv a v l k OK o u. unfold u, o, srun_op. cbn [splan]. rewrite OK.
  set (b' := mkSdb (addl l (s_ds (sb s))) (addl l (s_loc (sb s))) (s_trash (sb s)) (map (fun d => (d, a)) l ++ s_recs (sb s))).
  set (files := if mv then [EAppear (Final a) (Complete v)]
                else [EWrite (Tmp (next_tmp (sf s))) Partial; EWrite (Tmp (next_tmp (sf s))) (Complete v);
                      ERename (Tmp (next_tmp (sf s))) (Final a)]).
  assert (FL : forall j, sb (scrash s files j) = sb s).
  { intros j. unfold files. destruct mv.
    - destruct j as [|[|j]]; reflexivity.
    - destruct j as [|[|[|[|j]]]]; try reflexivity; unfold scrash; cbn [firstn run_effs fold_left do_eff sb sf];
        rewrite fget_fset_same; reflexivity. }
  assert (FF : fget (Final a) (sf (run_effs s files)) = Some (Complete v)).
  { unfold files. destruct mv; unfold run_effs; cbn [fold_left do_eff sf]; [apply fget_fset_same|].
    rewrite fget_fset_same. cbn [sf]. apply fget_fset_same. }
  destruct (scrash_snoc s files (ECommit b') k) as [E|E]; rewrite E.
  - left. apply FL.
  - right. split; [unfold run_effs; rewrite fold_left_app; reflexivity|].
    intros d M. cbn [do_eff sb sf]. unfold sget, art_of. cbn [do_eff sb sf]. unfold b'. cbn [s_ds s_loc s_recs].
    rewrite !mem_addl, M, (find_map_app a d l _ M). cbn [snd]. rewrite FF. repeat split; reflexivity.
Qed.

(* ------------------------------------------------------------------ never a partial file under a final name *)
Definition sJ (s : sstate) : Prop := J (sf s).

Lemma sJ_commit_delete : forall p s, Forall (fun e => match e with ECommit _ | EDelete _ => True | _ => False end) p ->
  sJ s -> forall k, sJ (scrash s p k).
Proof.
  induction p as [|e r IH]; intros s F H k; [rewrite scrash_nil; exact H|].
  destruct k; [exact H|]. inversion F; subst. rewrite scrash_cons. apply IH; [assumption|].
  destruct e; try contradiction; unfold sJ; cbn [do_eff sf]; [exact H | apply J_fdel, H].
Qed.

Lemma splan_empty_cd : forall b ord, Forall (fun e => match e with ECommit _ | EDelete _ => True | _ => False end) (splan_empty b ord).
Proof.
  intros b ord. destruct (splan_empty_shape b ord) as [P|P]; rewrite P; [constructor|].
  apply Forall_app. split; [|repeat constructor].
  eapply Forall_impl; [|apply dels_unkept]. intros e (a & -> & _). exact I.
Qed.

Lemma shared_no_partial_l : forall s o k, sJ s -> sJ (scrash s (splan s o) k).
Proof.
  intros s o k H.
  destruct o as [mv a v l | l ord | l ord | l | ord]; cbn [splan].
  - destruct (sstore_ok (sb s) l); [|rewrite scrash_nil; exact H]. destruct mv; cbn [app].
    + assert (H1 : sJ (do_eff s (EAppear (Final a) (Complete v)))) by (unfold sJ; cbn [do_eff sf]; apply J_fset_complete, H).
      destruct k; [exact H|]. rewrite scrash_cons. destruct k; [exact H1|]. rewrite scrash_cons, scrash_nil. exact H1.
    + set (t := next_tmp (sf s)).
      assert (H1 : sJ (do_eff s (EWrite (Tmp t) Partial))) by (unfold sJ; cbn [do_eff sf]; apply J_fset_tmp, H).
      assert (H2 : sJ (do_eff (do_eff s (EWrite (Tmp t) Partial)) (EWrite (Tmp t) (Complete v))))
        by (unfold sJ; cbn [do_eff sf]; apply J_fset_tmp, H1).
      assert (H3 : sJ (do_eff (do_eff (do_eff s (EWrite (Tmp t) Partial)) (EWrite (Tmp t) (Complete v))) (ERename (Tmp t) (Final a)))).
      { unfold sJ in *. cbn [do_eff sf sb] in *. rewrite fget_fset_same. cbn [sf]. apply J_fset_complete, J_fdel, H2. }
      destruct k; [exact H|]. rewrite scrash_cons. destruct k; [exact H1|]. rewrite scrash_cons.
      destruct k; [exact H2|]. rewrite scrash_cons. destruct k; [exact H3|]. rewrite scrash_cons, scrash_nil. exact H3.
  - destruct (inter l (s_ds (sb s))); [apply sJ_commit_delete; [apply splan_empty_cd | exact H]|].
    apply sJ_commit_delete; [constructor; [exact I | apply splan_empty_cd] | exact H].
  - destruct (inter (inter l (s_ds (sb s))) (s_loc (sb s))); [apply sJ_commit_delete; [apply splan_empty_cd | exact H]|].
    apply sJ_commit_delete; [constructor; [exact I | apply splan_empty_cd] | exact H].
  - destruct (inter (inter l (s_ds (sb s))) (s_loc (sb s))); [rewrite scrash_nil; exact H|].
    apply sJ_commit_delete; [repeat constructor | exact H].
  - apply sJ_commit_delete; [apply splan_empty_cd | exact H].
Qed.

(* ------------------------------------------------------------------ "located and pending exclude each other" survives every
   crash of every removal (the premise of the bystander theorem) *)
Lemma dels_sb : forall p s, Forall (fun e => match e with EDelete _ => True | _ => False end) p ->
  forall k, sb (scrash s p k) = sb s.
Proof.
  induction p as [|e r IH]; intros s F k; [rewrite scrash_nil; reflexivity|].
  destruct k; [reflexivity|]. inversion F; subst. rewrite scrash_cons, IH by assumption.
  destruct e; try contradiction. reflexivity.
Qed.

Lemma empty_sb_cases : forall b ord x k, sb x = b ->
  sb (scrash x (splan_empty b ord) k) = b \/ sb (scrash x (splan_empty b ord) k) = eb2 b ord.
Proof.
  intros b ord x k E. destruct (splan_empty_shape b ord) as [P|P]; rewrite P; [left; rewrite scrash_nil; exact E|].
  destruct (scrash_snoc x (edels b ord) (ECommit (eb2 b ord)) k) as [H|H]; rewrite H.
  - left. rewrite dels_sb; [exact E|]. unfold edels. eapply Forall_impl; [|apply dels_unkept]. intros e (a & -> & _). exact I.
  - right. reflexivity.
Qed.

Lemma sdisj_eb2 : forall b ord, sdisj b -> sdisj (eb2 b ord).
Proof. intros b ord D d L. unfold eb2 in *. cbn [s_loc s_trash] in *. rewrite mem_reml, (D d L). reflexivity. Qed.

Lemma sdisj_phase1 : forall b ds' tl, sdisj b -> sdisj (mkSdb ds' (reml tl (s_loc b)) (addl tl (s_trash b)) (s_recs b)).
Proof.
  intros b ds' tl D d L. cbn [s_loc s_trash] in *. rewrite mem_reml in L. rewrite mem_addl.
  destruct (mem d tl); cbn [negb orb] in *; [rewrite andb_false_r in L; discriminate|].
  rewrite andb_true_r in L. apply D, L.
Qed.

Lemma sdisj_crash_removal_l : forall s o k, sdisj (sb s) -> s_is_removal o = true -> sdisj (sb (scrash s (splan s o) k)).
Proof.
  intros s o k D R.
  assert (EM : forall ord b x j, sb x = b -> sdisj b -> sdisj (sb (scrash x (splan_empty b ord) j))).
  { intros ord b x j E Db. destruct (empty_sb_cases b ord x j E) as [H|H]; rewrite H; [exact Db | apply sdisj_eb2, Db]. }
  destruct o as [mv a0 v l | l ord | l ord | l | ord]; try discriminate; cbn [splan].
  - destruct (inter l (s_ds (sb s))) as [|y r]; [apply (EM ord (sb s) s k eq_refl D)|].
    destruct k; [exact D|]. rewrite scrash_cons. apply EM; [reflexivity | apply sdisj_phase1, D].
  - destruct (inter (inter l (s_ds (sb s))) (s_loc (sb s))) as [|y r]; [apply (EM ord (sb s) s k eq_refl D)|].
    destruct k; [exact D|]. rewrite scrash_cons. apply EM; [reflexivity | apply sdisj_phase1, D].
  - destruct (inter (inter l (s_ds (sb s))) (s_loc (sb s))) as [|y r]; [rewrite scrash_nil; exact D|].
    destruct k; [exact D|]. rewrite scrash_cons, scrash_nil. cbn [do_eff sb]. apply sdisj_phase1, D.
  - apply (EM ord (sb s) s k eq_refl D).
Qed.
