(* C06 lemmas, part X3 (extension): Butler.query_dimension_records inside the model.  The record query joins the
   element's own table in addition to the planned ones; it returns exactly the stored records whose data ID is one of the
   rows of the specification over the element's minimal group. *)
From Coq Require Import String List Bool ZArith NArith Lia.
From V Require Import Model.Universe Model.Group Gen.Universes Model.Join Model.JoinCheck
  Proofs.GroupProofs Proofs.JoinProofs Proofs.JoinProofsB Proofs.JoinProofsC Proofs.JoinProofsX2.
Import ListNotations.
Open Scope string_scope.
Open Scope list_scope.

Lemma covers_app c plan extra ns : covers c plan ns = true -> covers c (plan ++ extra) ns = true.
Proof.
  unfold covers. rewrite !forallb_forall. intros H d Hd. specialize (H d Hd). unfold provided in *.
  rewrite existsb_app, H. reflexivity.
Qed.

Lemma joined_app c d plan extra a : joined c d (plan ++ extra) a = joined c d plan a && joined c d extra a.
Proof. unfold joined. apply forallb_app. Qed.

Lemma existsb_filter_false {A} (f g : A -> bool) l : existsb f l = false -> existsb f (filter g l) = false.
Proof.
  induction l as [|x l IH]; simpl; auto. rewrite orb_false_iff. intros [Hx Hl].
  destruct (g x); simpl; [rewrite Hx|]; auto.
Qed.

(* joining more tables only filters the answer *)
Lemma run_plan_extra c ov s plan extra ns l :
  run_plan c ov s plan ns = QOk l ->
  run_plan c ov s (plan ++ extra) ns = QOk (filter (joined c (recs s) extra) l).
Proof.
  unfold run_plan. destruct (covers c plan ns) eqn:Hc; simpl; [|discriminate].
  rewrite (covers_app _ _ extra _ Hc). simpl.
  assert (Hbase : filter (joined c (recs s) (plan ++ extra)) (cands (recs s) ns)
                  = filter (joined c (recs s) extra) (filter (joined c (recs s) plan) (cands (recs s) ns))).
  { rewrite filter_filter. apply filter_ext. intros a. apply joined_app. }
  rewrite Hbase.
  destruct (spatial_pair c ns) as [|ea eb|]; try discriminate.
  - intros [= <-]. reflexivity.
  - set (base := filter (joined c (recs s) plan) (cands (recs s) ns)).
    destruct (existsb _ (filter (pre (ovl s) ea eb) base)) eqn:Hcr; [discriminate|].
    intros [= <-].
    assert (Hcomm : filter (pre (ovl s) ea eb) (filter (joined c (recs s) extra) base)
                    = filter (joined c (recs s) extra) (filter (pre (ovl s) ea eb) base)).
    { rewrite !filter_filter. apply filter_ext. intros a. apply andb_comm. }
    rewrite Hcomm. rewrite (existsb_filter_false _ _ _ Hcr). f_equal.
    rewrite !filter_filter. apply filter_ext. intros a.
    destruct (pre (ovl s) ea eb a), (joined c (recs s) extra a), (sp_overlap ov (recs s) ea eb a); reflexivity.
Qed.

Lemma existsb_ext_in {A} (f g : A -> bool) l : (forall x, In x l -> f x = g x) -> existsb f l = existsb g l.
Proof.
  induction l as [|x l IH]; simpl; auto. intros H. rewrite (H x), IH; auto.
Qed.

Lemma recs_of_rows_joined c d e rows : view_of c (ename e) = None ->
  recs_of_rows d e (filter (joined c d [e]) rows) = recs_of_rows d e rows.
Proof.
  intros Hv. unfold recs_of_rows. apply filter_ext_in. intros r Hr.
  apply bool_iff. rewrite !existsb_exists. split.
  - intros (a & Ha & Hag). apply filter_In in Ha. exists a. tauto.
  - intros (a & Ha & Hag). exists a. split; auto. apply filter_In. split; auto.
    unfold joined. simpl. rewrite andb_true_r. apply has_row_ex. unfold cols, src. rewrite Hv. exists r. auto.
Qed.

Section GeoR.
  Variable ov : N -> N -> bool.
  Variable env : N -> list N.
  Hypothesis env_sound : forall x y, ov x y = true -> exists p, In p (env x) /\ In p (env y).

  Theorem records_query_correct_p c s e ns :
    wf_universe (ju c) = true -> uni_okb c = true -> view_of c (ename e) = None ->
    closure (ju c) (deps e) = GOk ns -> plan_okb c ns = true ->
    fk_closed c (recs s) -> view_closed c (recs s) -> ovl_sound c env s -> ovl_nonnull c s ->
    qrecords c ov s e = ROkRecs (filter (fun r => existsb (agrees (deps e) (rvals r)) (spec c ov (recs s) ns))
                                        (tget (recs s) (ename e))).
  Proof.
    intros Hwf Hu Hv Hcl Hok Hfk Hvc Hos Hon. unfold qrecords, qrecords_with. rewrite Hcl.
    pose proof (query_correct_p ov env env_sound c s ns Hwf Hu Hok Hfk Hvc Hos Hon) as Hq. unfold query in Hq.
    rewrite (run_plan_extra _ _ _ _ [e] _ _ Hq). rewrite recs_of_rows_joined by exact Hv. reflexivity.
  Qed.

  (* after ANY history without skip_existing *)
  Theorem history_records_query_correct_p c h e ns :
    wf_universe (ju c) = true -> uni_okb c = true -> view_of c (ename e) = None ->
    closure (ju c) (deps e) = GOk ns -> plan_okb c ns = true -> skip_free h = true ->
    let s := run_hist c env h st0 in
    view_closed c (recs s) ->
    qrecords c ov s e = ROkRecs (filter (fun r => existsb (agrees (deps e) (rvals r)) (spec c ov (recs s) ns))
                                        (tget (recs s) (ename e))).
  Proof.
    intros Hwf Hu Hv Hcl Hok Hsf s Hvc. apply records_query_correct_p; auto; subst s.
    - apply fk_closed_hist_p; auto.
    - apply ovl_sound_hist_p; auto.
    - apply (ovl_inv_hist_p c env h Hwf Hsf).
  Qed.
End GeoR.

(* a record query never returns anything that is not stored, whatever the state *)
Lemma records_query_subset c ov s e l : qrecords c ov s e = ROkRecs l -> incl l (tget (recs s) (ename e)).
Proof.
  unfold qrecords, qrecords_with. destruct (closure (ju c) (deps e)); try discriminate.
  destruct (run_plan _ _ _ _ _); try discriminate. intros [= <-] r Hr. unfold recs_of_rows in Hr.
  apply filter_In in Hr. tauto.
Qed.

(* the checker's per-side evaluation of the prefilter is the model's prefilter *)
Lemma fpre_pre o ea eb a : fpre o ea eb a = pre o ea eb a.
Proof.
  unfold fpre, pre. apply bool_iff. rewrite !existsb_exists. split.
  - intros (p & Hp & Hq). apply in_map_iff in Hp. destruct Hp as ([k p'] & <- & Hk). apply filter_In in Hk. destruct Hk as [Hk Ha].
    apply existsb_exists in Hq. destruct Hq as (q & Hq & E). apply in_map_iff in Hq. destruct Hq as ([k2 q'] & <- & Hk2).
    apply filter_In in Hk2. destruct Hk2 as [Hk2 Hb]. simpl in *.
    exists (k, p'). split; auto. simpl. rewrite Ha. simpl. apply existsb_exists. exists (k2, q'). split; auto. simpl. rewrite E, Hb. reflexivity.
  - intros ([k p] & Hk & H). simpl in H. apply andb_true_iff in H. destruct H as [Ha H]. apply existsb_exists in H.
    destruct H as ([k2 q] & Hk2 & H). simpl in H. apply andb_true_iff in H. destruct H as [E Hb].
    exists p. split.
    + apply in_map_iff. exists (k, p). split; auto. apply filter_In. auto.
    + apply existsb_exists. exists q. split; auto. apply in_map_iff. exists (k2, q). split; auto. apply filter_In. auto.
Qed.
