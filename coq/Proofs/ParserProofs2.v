(* C14 proofs, part 2: the five-level induction behind parse_print, the round-trip theorems, the refutations for the
   faithful printer, and the precedence / associativity lemmas (closed computations over symbolic operand names). *)
From Coq Require Import ZArith List Bool String Ascii Arith Lia.
From V Require Import Model.ExprTree Model.Lexer Model.Parser Gen.GrammarGen Proofs.ParserProofs.
Import ListNotations.
Open Scope string_scope.
Open Scope list_scope.

#[local] Arguments lvl : simpl never.
#[local] Arguments rmin : simpl never.
#[local] Arguments not_lvl : simpl never.

Section Main.
  Variable tv : string -> option string.
  Variable tun : string -> string.
  Notation pr := (print_g true tun).
  Notation can := (canon tv tun).

  (* ---- unfolding equations (all by conversion) *)
  Lemma p_bit_eq k minp ts :
    p_bit tv (S k) minp ts = bind (p_simple tv k ts) (fun '(l, r) => p_bit_loop tv k minp l r).
  Proof. reflexivity. Qed.
  Lemma p_bprim_eq k ts :
    p_bprim tv (S k) ts = bind (p_pred tv k ts) (fun '(l, r) => p_bprim_loop tv k l r).
  Proof. reflexivity. Qed.
  Lemma p_pred_eq k ts :
    p_pred tv (S k) ts = bind (p_bit tv k 0 ts) (fun '(l, r) =>
          match r with
          | TIN :: TLP :: r' => bind (p_inlist tv k r') (fun '(vs, r'') => POk (IsIn l vs false, r''))
          | TIN :: _ => PErr ESyntax
          | TNOT :: TIN :: TLP :: r' => bind (p_inlist tv k r') (fun '(vs, r'') => POk (IsIn l vs true, r''))
          | TNOT :: _ => PErr ESyntax
          | _ => POk (l, r)
          end).
  Proof. reflexivity. Qed.

  Lemma bit_loop_stop k minp l s : stop_bit minp s = true -> p_bit_loop tv (S k) minp l s = POk (l, s).
  Proof.
    destruct s as [|t s]; simpl; auto. destruct (arith_op t); auto.
    intros H. apply Nat.ltb_lt in H. destruct (Nat.leb minp (lvl b)) eqn:E; auto. apply Nat.leb_le in E. lia.
  Qed.
  Lemma bprim_loop_stop k l s : stop_bprim s = true -> p_bprim_loop tv (S k) l s = POk (l, s).
  Proof.
    unfold stop_bprim. intros H. apply andb_true_iff in H. destruct H as [_ H].
    destruct s as [|t s]; simpl; auto. destruct (cmp_op t); auto. discriminate.
  Qed.
  Lemma expr_loop_stop k minp l s : stop_expr minp s = true -> p_expr_loop tv (S k) minp l s = POk (l, s).
  Proof.
    unfold stop_expr. intros H. apply andb_true_iff in H. destruct H as [_ H].
    destruct s as [|t s]; simpl; auto. destruct (logic_op t); auto.
    apply Nat.ltb_lt in H. destruct (Nat.leb minp (lvl b)) eqn:E; auto. apply Nat.leb_le in E. lia.
  Qed.

  (* ---- the five claims *)
  Definition CS t := forall s, can 0 0 t = true -> stop_simple s = true ->
    ev (fun k => p_simple tv k (pr t ++ s)) (t, s).
  Definition CB t := forall m minp s res, can 1 m t = true -> minp <= m -> stop_bit (S m) s = true ->
    ev (fun k => p_bit_loop tv k minp t s) res -> ev (fun k => p_bit tv k minp (pr t ++ s)) res.
  Definition CP t := forall s, can 2 0 t = true -> stop_pred s = true ->
    ev (fun k => p_pred tv k (pr t ++ s)) (t, s).
  Definition CBP t := forall s res, can 3 0 t = true -> stop_pred s = true ->
    ev (fun k => p_bprim_loop tv k t s) res -> ev (fun k => p_bprim tv k (pr t ++ s)) res.
  Definition CE t := forall m minp s res, can 4 m t = true -> minp <= m -> stop_expr (S m) s = true ->
    ev (fun k => p_expr_loop tv k minp t s) res -> ev (fun k => p_expr tv k minp (pr t ++ s)) res.

  Lemma lift_SB t : CS t -> (forall m, can 1 m t = true -> can 0 0 t = true) -> CB t.
  Proof.
    intros HS Hc m minp s res C L St Hl.
    eapply ev_step with (G := fun k => p_simple tv k (pr t ++ s)) (a := (t, s))
                        (H := fun k '(l, r) => p_bit_loop tv k minp l r).
    - intros k. apply p_bit_eq.
    - apply HS; eauto using stop_bit_simple.
    - exact Hl.
  Qed.

  Lemma lift_BP t : CB t -> (can 2 0 t = true -> can 1 0 t = true) -> CP t.
  Proof.
    intros HB Hc s C St.
    eapply ev_step with (G := fun k => p_bit tv k 0 (pr t ++ s)) (a := (t, s)).
    - intros k. apply p_pred_eq.
    - apply (HB 0 0 s (t, s)); auto using stop_pred_bit.
      apply ev_const. intros k. apply bit_loop_stop. apply stop_pred_bit; auto.
    - apply ev_const. intros k. destruct s as [|x s]; auto.
      destruct x; simpl in St; try discriminate; reflexivity.
  Qed.

  Lemma lift_PBP t : CP t -> (can 3 0 t = true -> can 2 0 t = true) -> CBP t.
  Proof.
    intros HP Hc s res C St Hl.
    eapply ev_step with (G := fun k => p_pred tv k (pr t ++ s)) (a := (t, s))
                        (H := fun k '(l, r) => p_bprim_loop tv k l r).
    - intros k. apply p_bprim_eq.
    - apply HP; auto.
    - exact Hl.
  Qed.

  Lemma ev_now {A} (F : nat -> pres A) x : (forall k, F k = POk x) -> ev F x.
  Proof. intros H. exists 0. intros; apply H. Qed.

  (* ---- first tokens *)
  Lemma num_tokens_cases s :
    (unsigned s = true /\ num_tokens s = [TNum s]) \/
    (exists r, s = String "+"%char r /\ num_tokens s = [TADD; TNum r]) \/
    (exists r, s = String "-"%char r /\ num_tokens s = [TSUB; TNum r]).
  Proof.
    destruct s as [|c s]; [left; auto|].
    destruct c as [[|] [|] [|] [|] [|] [|] [|] [|]]; simpl;
      first [left; split; reflexivity | right; left; eexists; split; reflexivity | right; right; eexists; split; reflexivity].
  Qed.

  Lemma pr_head_any t : exists x r, pr t = x :: r /\ x <> TRP /\ x <> TCOMMA.
  Proof.
    induction t; simpl;
      try (destruct IHt as (x & r & E & N1 & N2));
      try (destruct IHt1 as (x & r & E & N1 & N2));
      try solve [do 2 eexists; split; [reflexivity | split; discriminate]].
    - destruct (num_tokens_cases s) as [[_ E]|[(r & _ & E)|(r & _ & E)]]; rewrite E;
        do 2 eexists; split; try reflexivity; split; discriminate.
    - unfold ident_token. destruct (has_dot s); do 2 eexists; split; try reflexivity; split; discriminate.
    - destruct op; do 2 eexists; split; try reflexivity; split; discriminate.
    - rewrite E. simpl. do 2 eexists; split; [reflexivity | split; assumption].
    - rewrite E. simpl. do 2 eexists; split; [reflexivity | split; assumption].
  Qed.

  Lemma lev_ne4 lev : lev <= 3 -> Nat.eqb lev 4 = false.
  Proof. intros H. apply Nat.eqb_neq. lia. Qed.

  Lemma pr_head_low t : forall lev m, lev <= 3 -> can lev m t = true -> exists x r, pr t = x :: r /\ x <> TNOT.
  Proof.
    induction t; intros lev m L C; simpl in *;
      try solve [do 2 eexists; split; [reflexivity | discriminate]].
    - destruct (num_tokens_cases s) as [[_ E]|[(r & _ & E)|(r & _ & E)]]; rewrite E;
        do 2 eexists; split; try reflexivity; discriminate.
    - unfold ident_token. destruct (has_dot s); do 2 eexists; split; try reflexivity; discriminate.
    - destruct op; try solve [do 2 eexists; split; [reflexivity | discriminate]].
      rewrite (lev_ne4 lev L) in C. discriminate.
    - destruct (is_logic op).
      + rewrite (lev_ne4 lev L) in C. discriminate.
      + destruct (is_cmp op).
        * apply andb_true_iff in C. destruct C as [C _]. apply andb_true_iff in C. destruct C as [_ C].
          destruct (IHt1 3 0 ltac:(lia) C) as (x & r & E & N). rewrite E. simpl. eauto.
        * apply andb_true_iff in C. destruct C as [C _]. apply andb_true_iff in C. destruct C as [_ C].
          destruct (IHt1 1 _ ltac:(lia) C) as (x & r & E & N). rewrite E. simpl. eauto.
    - apply andb_true_iff in C. destruct C as [C _]. apply andb_true_iff in C. destruct C as [C _].
      apply andb_true_iff in C. destruct C as [_ C].
      destruct (IHt 1 0 ltac:(lia) C) as (x & r & E & N). rewrite E. simpl. eauto.
  Qed.

  Lemma lift_BPE t : CBP t -> (forall m, can 4 m t = true -> can 3 0 t = true) -> CE t.
  Proof.
    intros HP Hc m minp s res C L St Hl.
    destruct (pr_head_low t 3 0 ltac:(lia) (Hc m C)) as (x & r & Ex & Nx).
    eapply ev_step with (G := fun k => p_bprim tv k (pr t ++ s)) (a := (t, s))
                        (H := fun k '(l, r) => p_expr_loop tv k minp l r).
    - intros k. rewrite Ex. destruct x; try reflexivity. congruence.
    - apply HP; eauto using stop_expr_bprim, stop_bprim_pred.
      apply ev_const. intros k. apply bprim_loop_stop. eauto using stop_expr_bprim.
    - exact Hl.
  Qed.

  (* ---- IN lists *)
  Lemma item_parse v rest : item_ok tv tun v = true -> p_item tv (pr v ++ rest) = POk (v, rest).
  Proof.
    destruct v; simpl; intros H; try discriminate; try reflexivity.
    - destruct (num_tokens_cases s) as [[U E]|[(r & Es & E)|(r & Es & E)]]; rewrite E; subst; simpl; try reflexivity.
    - unfold time_ok in H. destruct (tv (tun v)) eqn:E; try discriminate. apply String.eqb_eq in H. subst. reflexivity.
    - unfold ident_token. destruct (has_dot s); reflexivity.
  Qed.

  Lemma p_inlist_eq k ts :
    p_inlist tv (S k) ts = bind (p_item tv ts) (fun '(x, r) =>
          match r with
          | TRP :: r' => POk ([x], r')
          | TCOMMA :: r' => bind (p_inlist tv k r') (fun '(xs, r'') => POk (x :: xs, r''))
          | _ => PErr ESyntax
          end).
  Proof. reflexivity. Qed.

  Lemma inlist_ok vs : forall s, vs <> [] -> forallb (item_ok tv tun) vs = true ->
    ev (fun k => p_inlist tv k (sep_by [TCOMMA] (map pr vs) ++ TRP :: s)) (vs, s).
  Proof.
    induction vs as [|v vs IH]; intros s NE F; [congruence|].
    simpl in F. apply andb_true_iff in F. destruct F as [Fv Fr].
    destruct vs as [|v2 vs].
    - simpl. apply ev_const. intros k. rewrite p_inlist_eq, item_parse by assumption. reflexivity.
    - change (sep_by [TCOMMA] (map pr (v :: v2 :: vs))) with (pr v ++ [TCOMMA] ++ sep_by [TCOMMA] (map pr (v2 :: vs))).
      rewrite <- !app_assoc. simpl.
      destruct (IH s ltac:(discriminate) Fr) as [n Hn].
      exists (S n). intros [|k] Hk; [lia|].
      rewrite p_inlist_eq, item_parse by assumption. simpl. rewrite Hn by lia. reflexivity.
  Qed.

  (* ---- call arguments *)
  Lemma p_args_tail_eq k ts :
    p_args_tail tv (S k) ts =
      match ts with
      | TRP :: r => POk ([], r)
      | TCOMMA :: r => bind (p_expr tv k 0 r) (fun '(e, r') => bind (p_args_tail tv k r') (fun '(es, r'') => POk (e :: es, r'')))
      | _ => PErr ESyntax
      end.
  Proof. reflexivity. Qed.

  Definition tail_toks (args : list tree) : list token := flat_map (fun a => TCOMMA :: pr a) args.

  Lemma logic_lvl_pos o : is_logic o = true -> 1 <= lvl o.
  Proof. destruct o; intros H; try discriminate H; vm_compute; lia. Qed.

  Lemma stop_expr_1_0 s : stop_expr 1 s = true -> stop_expr 0 s = true.
  Proof.
    unfold stop_expr. intros H. apply andb_true_iff in H. destruct H as [H1 H2]. rewrite H1. simpl.
    destruct s as [|t r]; auto. destruct (logic_op t) eqn:E; auto.
    assert (is_logic b = true) by (destruct t; simpl in E; inversion E; reflexivity).
    pose proof (logic_lvl_pos b H). apply Nat.ltb_lt in H2. lia.
  Qed.

  Lemma expr_whole e rest : CE e -> can 4 0 e = true -> stop_expr 1 rest = true ->
    ev (fun k => p_expr tv k 0 (pr e ++ rest)) (e, rest).
  Proof.
    intros H C St. apply (H 0 0 rest (e, rest)); auto.
    apply ev_const. intros k. apply expr_loop_stop. apply stop_expr_1_0; assumption.
  Qed.

  Lemma tail_ok args : forall s, Forall CE args -> forallb (can 4 0) args = true ->
    ev (fun k => p_args_tail tv k (tail_toks args ++ TRP :: s)) (args, s).
  Proof.
    induction args as [|a args IH]; intros s FA C.
    - simpl. apply ev_const. intros; reflexivity.
    - inversion FA; subst. simpl in C. apply andb_true_iff in C. destruct C as [Ca Cr].
      simpl. rewrite <- app_assoc.
      destruct (IH s H2 Cr) as [n1 H1'].
      assert (St : stop_expr 1 (tail_toks args ++ TRP :: s) = true) by (destruct args; reflexivity).
      destruct (expr_whole a _ H1 Ca St) as [n2 H2'].
      exists (S (Nat.max n1 n2)). intros [|k] Hk; [lia|].
      rewrite p_args_tail_eq. rewrite H2' by lia. simpl. rewrite H1' by lia. reflexivity.
  Qed.

  Lemma sep_by_tail args a : sep_by [TCOMMA] (map pr (a :: args)) = pr a ++ tail_toks args.
  Proof.
    revert a. induction args as [|b args IH]; intros a; simpl.
    - rewrite app_nil_r. reflexivity.
    - specialize (IH b). simpl in IH. rewrite IH. reflexivity.
  Qed.

  Lemma p_args_eq k ts :
    p_args tv (S k) ts =
      match ts with
      | TRP :: r => POk ([], r)
      | TCOMMA :: _ => p_args_tail tv k ts
      | _ => bind (p_expr tv k 0 ts) (fun '(e, r) => bind (p_args_tail tv k r) (fun '(es, r') => POk (e :: es, r')))
      end.
  Proof. reflexivity. Qed.

  Lemma p_args_expr k x r rest : x <> TRP -> x <> TCOMMA ->
    p_args tv (S k) ((x :: r) ++ rest) =
    bind (p_expr tv k 0 ((x :: r) ++ rest)) (fun '(e, r) => bind (p_args_tail tv k r) (fun '(es, r') => POk (e :: es, r'))).
  Proof. intros; destruct x; try congruence; reflexivity. Qed.

  Lemma args_ok args s : Forall CE args -> forallb (can 4 0) args = true ->
    ev (fun k => p_args tv k (sep_by [TCOMMA] (map pr args) ++ TRP :: s)) (args, s).
  Proof.
    intros FA C. destruct args as [|a args].
    - simpl. apply ev_const. intros; reflexivity.
    - rewrite sep_by_tail, <- app_assoc.
      inversion FA; subst. simpl in C. apply andb_true_iff in C. destruct C as [Ca Cr].
      destruct (tail_ok args s H2 Cr) as [n1 H1'].
      assert (St : stop_expr 1 (tail_toks args ++ TRP :: s) = true) by (destruct args; reflexivity).
      destruct (expr_whole a _ H1 Ca St) as [n2 H2'].
      destruct (pr_head_any a) as (x & r & E & N1 & N2).
      rewrite E in *.
      exists (S (Nat.max n1 n2)). intros [|k] Hk; [lia|].
      rewrite p_args_expr by assumption.
      rewrite H2' by lia. simpl. rewrite H1' by lia. reflexivity.
  Qed.

  Lemma ev_bind {A B} (G : nat -> pres A) (H : nat -> A -> pres B) a res :
    ev G a -> ev (fun k => H k a) res -> ev (fun k => bind (G k) (H k)) res.
  Proof.
    intros [n1 H1] [n2 H2]. exists (Nat.max n1 n2). intros k Hk. rewrite H1 by lia. simpl. apply H2. lia.
  Qed.

  Lemma not_logic_cmp_arith o : is_logic o = false -> is_cmp o = false -> is_arith o = true.
  Proof. destruct o; simpl; intros; try discriminate; reflexivity. Qed.

  Lemma bit_loop_cons k minp l t o R : arith_op t = Some o -> Nat.leb minp (lvl o) = true ->
    p_bit_loop tv (S k) minp l (t :: R) =
    bind (p_bit tv k (rmin o) R) (fun '(x, r') => p_bit_loop tv k minp (Binary l o x) r').
  Proof. intros H1 H2. simpl. rewrite H1, H2. reflexivity. Qed.
  Lemma bprim_loop_cons k l t o R : cmp_op t = Some o ->
    p_bprim_loop tv (S k) l (t :: R) =
    bind (p_pred tv k R) (fun '(x, r') => p_bprim_loop tv k (Binary l o x) r').
  Proof. intros H1. simpl. rewrite H1. reflexivity. Qed.
  Lemma expr_loop_cons k minp l t o R : logic_op t = Some o -> Nat.leb minp (lvl o) = true ->
    p_expr_loop tv (S k) minp l (t :: R) =
    bind (p_expr tv k (rmin o) R) (fun '(x, r') => p_expr_loop tv k minp (Binary l o x) r').
  Proof. intros H1 H2. simpl. rewrite H1, H2. reflexivity. Qed.

  Lemma p_simple_lp k r :
    p_simple tv (S k) (TLP :: r) =
    bind (p_expr tv k 0 r) (fun '(e, r') =>
      match r' with
      | TRP :: r'' => POk (Parens e, r'')
      | TCOMMA :: r'' =>
          bind (p_expr tv k 0 r'') (fun '(e2, r3) =>
            match r3 with TRP :: r4 => POk (Tuple e e2, r4) | _ => PErr ESyntax end)
      | _ => PErr ESyntax
      end).
  Proof. reflexivity. Qed.
  Lemma p_simple_call k f r :
    p_simple tv (S k) (TId f :: TLP :: r) =
    bind (p_args tv k r) (fun '(args, r') => bind (mk_call f args r') (fun t => POk (t, r'))).
  Proof. reflexivity. Qed.
  Lemma p_expr_not k minp r :
    p_expr tv (S k) minp (TNOT :: r) =
    bind (p_expr tv k not_lvl r) (fun '(x, r') => p_expr_loop tv k minp (Unary UNot x) r').
  Proof. reflexivity. Qed.

  Lemma stop_expr_ge_not s m m' : stop_expr m s = true -> not_lvl <= m' -> stop_expr m' s = true.
  Proof.
    unfold stop_expr. intros H L. apply andb_true_iff in H. destruct H as [H1 H2].
    rewrite H1. simpl. destruct s as [|t s]; auto. destruct (logic_op t) eqn:E; auto.
    apply Nat.ltb_lt. assert (is_logic b = true) by (destruct t; simpl in E; inversion E; reflexivity).
    pose proof (logic_below_not b H). lia.
  Qed.

  Lemma finish_simple t : CS t -> (forall lev m, can lev m t = can 0 0 t) -> CS t /\ CB t /\ CP t /\ CBP t /\ CE t.
  Proof.
    intros HS Hc.
    assert (HB : CB t) by (apply lift_SB; auto; intros m C; rewrite Hc in C; auto).
    assert (HP : CP t) by (apply lift_BP; auto; intros C; rewrite Hc in *; auto).
    assert (HBP : CBP t) by (apply lift_PBP; auto; intros C; rewrite Hc in *; auto).
    assert (HE : CE t) by (apply lift_BPE; auto; intros m C; rewrite Hc in *; auto).
    tauto.
  Qed.

  Theorem all_claims : forall t, CS t /\ CB t /\ CP t /\ CBP t /\ CE t.
  Proof.
    induction t using tree_ind2.
    - (* Num *) apply finish_simple; [|reflexivity].
      intros s0 C St. simpl in C.
      destruct (num_tokens_cases s) as [[U E]|[(r & Es & E)|(r & Es & E)]]; try (subst; discriminate C).
      simpl. rewrite E. apply ev_const. intros; reflexivity.
    - (* Str *) apply finish_simple; [|reflexivity]. intros s0 C St. apply ev_const. intros; reflexivity.
    - (* Time *) apply finish_simple; [|reflexivity]. intros s0 C St. simpl in C. unfold time_ok in C.
      destruct (tv (tun v)) eqn:E; try discriminate. apply String.eqb_eq in C. subst.
      apply ev_const. intros; simpl. rewrite E. reflexivity.
    - (* Range *) apply finish_simple; [|reflexivity]. intros s0 C St. apply ev_const. intros; reflexivity.
    - (* Ident *) apply finish_simple; [|reflexivity]. intros s0 C St. simpl. unfold ident_token.
      destruct (has_dot s); apply ev_const; intros; [reflexivity|].
      destruct s0 as [|x s0]; [reflexivity|]. destruct x; simpl in St; try discriminate; reflexivity.
    - (* Bind *) apply finish_simple; [|reflexivity]. intros s0 C St. apply ev_const. intros; reflexivity.
    - (* Unary *) destruct IHt as (IS & IB & IP & IBP & IE). destruct o.
      + apply finish_simple; [|reflexivity]. intros s C St. simpl in C.
        eapply ev_step with (G := fun k => p_simple tv k (pr t ++ s)) (a := (t, s))
                            (H := fun k '(x, r') => POk (Unary UPlus x, r')).
        * intros; reflexivity.
        * apply IS; auto.
        * apply ev_now; intros; reflexivity.
      + apply finish_simple; [|reflexivity]. intros s C St. simpl in C.
        eapply ev_step with (G := fun k => p_simple tv k (pr t ++ s)) (a := (t, s))
                            (H := fun k '(x, r') => POk (Unary UMinus x, r')).
        * intros; reflexivity.
        * apply IS; auto.
        * apply ev_now; intros; reflexivity.
      + repeat split.
        * intros s C; simpl in C; discriminate.
        * intros m minp s res C; simpl in C; discriminate.
        * intros s C; simpl in C; discriminate.
        * intros s res C; simpl in C; discriminate.
        * intros m minp s res C L St Hl. simpl in C.
          eapply ev_step with (G := fun k => p_expr tv k not_lvl (pr t ++ s)) (a := (t, s))
                              (H := fun k '(x, r') => p_expr_loop tv k minp (Unary UNot x) r').
          -- intros k. apply p_expr_not.
          -- apply (IE not_lvl not_lvl s (t, s)); auto.
             ++ eapply stop_expr_ge_not; eauto.
             ++ apply ev_const. intros k. apply expr_loop_stop. eapply stop_expr_ge_not; eauto.
          -- exact Hl.
    - (* Binary *)
      destruct IHt1 as (IS1 & IB1 & IP1 & IBP1 & IE1). destruct IHt2 as (IS2 & IB2 & IP2 & IBP2 & IE2).
      assert (PR : forall s, pr (Binary t1 o t2) ++ s = pr t1 ++ bop_token o :: pr t2 ++ s)
        by (intros; simpl; rewrite <- app_assoc; reflexivity).
      destruct (is_logic o) eqn:EL; [|destruct (is_cmp o) eqn:EC].
      + (* logic *)
        repeat split.
        * intros s C; simpl in C; rewrite EL in C; discriminate.
        * intros m minp s res C; simpl in C; rewrite EL in C; discriminate.
        * intros s C; simpl in C; rewrite EL in C; discriminate.
        * intros s res C; simpl in C; rewrite EL in C; discriminate.
        * intros m minp s res C L St Hl. simpl in C. rewrite EL in C. simpl in C.
          apply andb_true_iff in C. destruct C as [C C2]. apply andb_true_iff in C. destruct C as [Cm C1].
          apply Nat.leb_le in Cm.
          rewrite PR.
          apply (IE1 (lvl o) minp (bop_token o :: pr t2 ++ s) res); auto; try lia.
          -- destruct o; try discriminate EL; unfold stop_expr; simpl; apply Nat.ltb_lt; lia.
          -- eapply ev_step with (G := fun k => p_expr tv k (rmin o) (pr t2 ++ s)) (a := (t2, s))
                                  (H := fun k '(x, r') => p_expr_loop tv k minp (Binary t1 o x) r').
             ++ intros k. apply expr_loop_cons; [apply logic_op_token; auto | apply Nat.leb_le; lia].
             ++ rewrite rmin_logic by auto.
                apply (IE2 (S (lvl o)) (S (lvl o)) s (t2, s)); auto.
                ** eapply stop_expr_mono; [|eauto]. lia.
                ** apply ev_const. intros k. apply expr_loop_stop. eapply stop_expr_mono; [|eauto]. lia.
             ++ exact Hl.
      + (* comparison *)
        assert (HBP : CBP (Binary t1 o t2)).
        { intros s res C St Hl. simpl in C. rewrite EL, EC in C. simpl in C.
          apply andb_true_iff in C. destruct C as [C1 C2].
          rewrite PR.
          apply (IBP1 (bop_token o :: pr t2 ++ s) res); auto.
          - destruct o; try discriminate EC; reflexivity.
          - eapply ev_step with (G := fun k => p_pred tv k (pr t2 ++ s)) (a := (t2, s))
                                (H := fun k '(x, r') => p_bprim_loop tv k (Binary t1 o x) r').
            + intros k. apply bprim_loop_cons. apply cmp_op_token; auto.
            + apply IP2; auto.
            + exact Hl. }
        repeat split; auto.
        * intros s C; simpl in C; rewrite EL, EC in C; discriminate.
        * intros m minp s res C; simpl in C; rewrite EL, EC in C; discriminate.
        * intros s C; simpl in C; rewrite EL, EC in C; discriminate.
        * apply lift_BPE; auto; intros m C; simpl in *; rewrite EL, EC in *; exact C.
      + (* arithmetic *)
        pose proof (not_logic_cmp_arith o EL EC) as EA.
        assert (HB : CB (Binary t1 o t2)).
        { intros m minp s res C L St Hl. simpl in C. rewrite EL, EC in C. simpl in C.
          apply andb_true_iff in C. destruct C as [C C2]. apply andb_true_iff in C. destruct C as [Cm C1].
          apply Nat.leb_le in Cm.
          rewrite PR.
          apply (IB1 (lvl o) minp (bop_token o :: pr t2 ++ s) res); auto; try lia.
          - simpl. rewrite (arith_op_token o EA). apply Nat.ltb_lt; lia.
          - eapply ev_step with (G := fun k => p_bit tv k (rmin o) (pr t2 ++ s)) (a := (t2, s))
                                (H := fun k '(x, r') => p_bit_loop tv k minp (Binary t1 o x) r').
            + intros k. apply bit_loop_cons; [apply arith_op_token; auto | apply Nat.leb_le; lia].
            + rewrite rmin_arith by auto.
              apply (IB2 (S (lvl o)) (S (lvl o)) s (t2, s)); auto.
              * eapply stop_bit_mono; [|eauto]. lia.
              * apply ev_const. intros k. apply bit_loop_stop. eapply stop_bit_mono; [|eauto]. lia.
            + exact Hl. }
        assert (HP : CP (Binary t1 o t2)).
        { apply lift_BP; auto; intros C; simpl in *; rewrite EL, EC in *; exact C. }
        assert (HBP : CBP (Binary t1 o t2)).
        { apply lift_PBP; auto; intros C; simpl in *; rewrite EL, EC in *; exact C. }
        repeat split; auto.
        * intros s C; simpl in C; rewrite EL, EC in C; discriminate.
        * apply lift_BPE; auto; intros m C; simpl in *; rewrite EL, EC in *; simpl in *; exact C.
    - (* IsIn *)
      destruct IHt as (IS & IB & IP & IBP & IE).
      assert (HP : CP (IsIn t vs neg)).
      { intros s C St. simpl in C.
        apply andb_true_iff in C. destruct C as [C CF]. apply andb_true_iff in C. destruct C as [Cl CN].
        assert (NE : vs <> []) by (destruct vs; [discriminate|discriminate]).
        set (items := sep_by [TCOMMA] (map pr vs)).
        assert (PR : pr (IsIn t vs neg) ++ s =
                     pr t ++ (if neg then [TNOT; TIN] else [TIN]) ++ TLP :: items ++ TRP :: s).
        { simpl. fold items. rewrite <- !app_assoc. simpl. rewrite <- !app_assoc. reflexivity. }
        rewrite PR.
        eapply ev_step with (G := fun k => p_bit tv k 0 (pr t ++ (if neg then [TNOT; TIN] else [TIN]) ++ TLP :: items ++ TRP :: s))
                            (a := (t, (if neg then [TNOT; TIN] else [TIN]) ++ TLP :: items ++ TRP :: s)).
        - intros k. apply p_pred_eq.
        - apply (IB 0 0); auto.
          + destruct neg; reflexivity.
          + apply ev_const. intros k. apply bit_loop_stop. destruct neg; reflexivity.
        - destruct neg; simpl.
          + eapply ev_bind with (G := fun k => p_inlist tv k (items ++ TRP :: s)) (a := (vs, s))
                                (H := fun k '(vs0, r'') => POk (IsIn t vs0 true, r'')).
            * apply inlist_ok; auto.
            * apply ev_now; intros; reflexivity.
          + eapply ev_bind with (G := fun k => p_inlist tv k (items ++ TRP :: s)) (a := (vs, s))
                                (H := fun k '(vs0, r'') => POk (IsIn t vs0 false, r'')).
            * apply inlist_ok; auto.
            * apply ev_now; intros; reflexivity. }
      assert (HBP : CBP (IsIn t vs neg)) by (apply lift_PBP; auto).
      repeat split; auto.
      * intros s C; simpl in C; discriminate.
      * intros m minp s res C; simpl in C; discriminate.
      * apply lift_BPE; auto.
    - (* Parens *)
      destruct IHt as (IS & IB & IP & IBP & IE).
      apply finish_simple; [|reflexivity]. intros s C St. simpl in C.
      assert (PR : pr (Parens t) ++ s = TLP :: pr t ++ TRP :: s) by (simpl; rewrite <- app_assoc; reflexivity).
      rewrite PR.
      eapply ev_step with (G := fun k => p_expr tv k 0 (pr t ++ TRP :: s)) (a := (t, TRP :: s)).
      + intros k. apply p_simple_lp.
      + apply expr_whole; auto.
      + apply ev_now; intros; reflexivity.
    - (* Tuple *)
      destruct IHt1 as (IS1 & IB1 & IP1 & IBP1 & IE1). destruct IHt2 as (IS2 & IB2 & IP2 & IBP2 & IE2).
      apply finish_simple; [|reflexivity]. intros s C St. simpl in C.
      apply andb_true_iff in C. destruct C as [C1 C2].
      assert (PR : pr (Tuple t1 t2) ++ s = TLP :: pr t1 ++ TCOMMA :: pr t2 ++ TRP :: s)
        by (simpl; repeat (rewrite <- app_assoc; simpl); reflexivity).
      rewrite PR.
      eapply ev_step with (G := fun k => p_expr tv k 0 (pr t1 ++ TCOMMA :: pr t2 ++ TRP :: s)) (a := (t1, TCOMMA :: pr t2 ++ TRP :: s)).
      + intros k. apply p_simple_lp.
      + apply expr_whole; auto.
      + simpl.
        eapply ev_bind with (G := fun k => p_expr tv k 0 (pr t2 ++ TRP :: s)) (a := (t2, TRP :: s))
                            (H := fun k '(e2, r3) => match r3 with TRP :: r4 => POk (Tuple t1 e2, r4) | _ => PErr ESyntax end).
        * apply expr_whole; auto.
        * apply ev_now; intros; reflexivity.
    - (* Point *)
      destruct IHt1 as (IS1 & IB1 & IP1 & IBP1 & IE1). destruct IHt2 as (IS2 & IB2 & IP2 & IBP2 & IE2).
      apply finish_simple; [|reflexivity]. intros s C St. simpl in C.
      assert (PR : pr (Point t1 t2) ++ s = TId "POINT" :: TLP :: sep_by [TCOMMA] (map pr [t1; t2]) ++ TRP :: s)
        by (simpl; repeat (rewrite <- app_assoc; simpl); reflexivity).
      rewrite PR.
      eapply ev_step with (G := fun k => p_args tv k (sep_by [TCOMMA] (map pr [t1; t2]) ++ TRP :: s)) (a := ([t1; t2], s)).
      + intros k. apply p_simple_call.
      + apply args_ok; auto. simpl. rewrite andb_true_r. exact C.
      + apply ev_now; intros; reflexivity.
    - (* Call *)
      apply finish_simple; [|reflexivity]. intros s C St. simpl in C.
      apply andb_true_iff in C. destruct C as [C CA]. apply andb_true_iff in C. destruct C as [CD CP'].
      assert (PR : pr (Call f args) ++ s = TId f :: TLP :: sep_by [TCOMMA] (map pr args) ++ TRP :: s)
        by (simpl; rewrite <- app_assoc; reflexivity).
      rewrite PR.
      eapply ev_step with (G := fun k => p_args tv k (sep_by [TCOMMA] (map pr args) ++ TRP :: s)) (a := (args, s)).
      + intros k. apply p_simple_call.
      + apply args_ok; auto.
        eapply Forall_impl; [|exact H]. intros a Ha. cbv beta in Ha. destruct Ha as (_ & _ & _ & _ & HE). exact HE.
      + apply ev_now; intros. simpl. unfold mk_call.
        apply negb_true_iff in CP'. rewrite CP'. reflexivity.
  Qed.

  (* ---- the round trip *)
  Theorem parse_print_fix_p t :
    canonical tv tun t = true -> ev (fun k => parse tv k (print_fix tun t)) (Some t).
  Proof.
    intros C. destruct (all_claims t) as (_ & _ & _ & _ & HE).
    destruct (pr_head_any t) as (x & r & E & _).
    assert (H : ev (fun k => p_expr tv k 0 (pr t ++ [])) (t, [])) by (apply expr_whole; auto).
    rewrite app_nil_r in H. destruct H as [n Hn]. exists n. intros k Hk.
    unfold parse, print_fix. rewrite E in *. rewrite Hn by auto. reflexivity.
  Qed.

  Theorem paren_redundant_p t :
    canonical tv tun t = true -> ev (fun k => parse tv k (TLP :: print_fix tun t ++ [TRP])) (Some (Parens t)).
  Proof. intros C. apply (parse_print_fix_p (Parens t)). exact C. Qed.

  Lemma map_plain f g b1 b2 vs :
    Forall (fun t => plain t = true -> print_g b1 f t = print_g b2 g t) vs -> forallb plain vs = true ->
    map (print_g b1 f) vs = map (print_g b2 g) vs.
  Proof.
    induction 1; simpl; intros F; auto. apply andb_true_iff in F. destruct F as [F1 F2].
    rewrite H, IHForall; auto.
  Qed.

  Lemma print_plain f g b1 b2 t : plain t = true -> print_g b1 f t = print_g b2 g t.
  Proof.
    induction t using tree_ind2; simpl; intros P; try discriminate; try reflexivity.
    - rewrite IHt; auto.
    - apply andb_true_iff in P. destruct P. rewrite IHt1, IHt2; auto.
    - apply andb_true_iff in P. destruct P as [P1 P2]. rewrite IHt, (map_plain f g b1 b2 vs); auto.
    - rewrite IHt; auto.
    - apply andb_true_iff in P. destruct P. rewrite IHt1, IHt2; auto.
    - apply andb_true_iff in P. destruct P. rewrite IHt1, IHt2; auto.
    - rewrite (map_plain f g b1 b2 args); auto.
  Qed.

  Theorem parse_print_p tshow t :
    canonical tv tun t = true -> plain t = true -> ev (fun k => parse tv k (print tshow t)) (Some t).
  Proof.
    intros C P. unfold print. rewrite (print_plain tshow tun false true t P). apply parse_print_fix_p; auto.
  Qed.

  (* ---- the faithful printer does NOT round trip on the two remaining node kinds *)
  Theorem print_bind_refuted_p tshow x :
    canonical tv tun (Bind x) = true /\ forall fuel, parse tv fuel (print tshow (Bind x)) <> POk (Some (Bind x)).
  Proof.
    split; [reflexivity|]. intros fuel.
    do 7 (destruct fuel as [|fuel]; [simpl; discriminate|]). simpl. discriminate.
  Qed.

  Theorem print_time_refuted_p tshow v :
    forall fuel, parse tv fuel (print tshow (Time v)) <> POk (Some (Time v)).
  Proof.
    intros fuel. do 7 (destruct fuel as [|fuel]; [simpl; discriminate|]). simpl. discriminate.
  Qed.
End Main.

(* ------------------------------------------------------------------ precedence / associativity, token level *)
Section Prec.
  Variable tv : string -> option string.

  Definition tri (a : string) (o1 : bop) (b : string) (o2 : bop) (c : string) : list token :=
    [TId a; bop_token o1; TId b; bop_token o2; TId c].
  Definition left_nested a o1 b o2 c := Binary (Binary (Ident a) o1 (Ident b)) o2 (Ident c).
  Definition right_nested a o1 b o2 c := Binary (Ident a) o1 (Binary (Ident b) o2 (Ident c)).

  (* every pair of boolean operators and every pair of arithmetic operators: the operator whose row is further
     down the precedence table binds tighter, operators of one row associate to the left *)
  Theorem prec_pairs_p : forall o1 o2 a b c,
    (is_logic o1 && is_logic o2 || is_arith o1 && is_arith o2) = true ->
    parse_tokens tv (tri a o1 b o2 c) =
    POk (Some (if Nat.ltb (lvl o1) (lvl o2) then right_nested a o1 b o2 c else left_nested a o1 b o2 c)).
  Proof. intros o1 o2 a b c H. destruct o1, o2; try discriminate H; reflexivity. Qed.

  (* comparison operators (incl. OVERLAPS) never use the table: always nested to the left *)
  Theorem cmp_left_nested_p : forall o1 o2 a b c, is_cmp o1 = true -> is_cmp o2 = true ->
    parse_tokens tv (tri a o1 b o2 c) = POk (Some (left_nested a o1 b o2 c)).
  Proof. intros o1 o2 a b c H1 H2. destruct o1; try discriminate H1; destruct o2; try discriminate H2; reflexivity. Qed.

  (* between the classes: arithmetic binds tighter than comparison, comparison tighter than AND / OR, on both sides *)
  Theorem class_order_p : forall oa oc ol a b c,
    is_arith oa = true -> is_cmp oc = true -> is_logic ol = true ->
    parse_tokens tv (tri a oa b oc c) = POk (Some (left_nested a oa b oc c)) /\
    parse_tokens tv (tri a oc b oa c) = POk (Some (right_nested a oc b oa c)) /\
    parse_tokens tv (tri a oc b ol c) = POk (Some (left_nested a oc b ol c)) /\
    parse_tokens tv (tri a ol b oc c) = POk (Some (right_nested a ol b oc c)) /\
    parse_tokens tv (tri a oa b ol c) = POk (Some (left_nested a oa b ol c)) /\
    parse_tokens tv (tri a ol b oa c) = POk (Some (right_nested a ol b oa c)).
  Proof.
    intros oa oc ol a b c H1 H2 H3.
    destruct oa; try discriminate H1; destruct oc; try discriminate H2; destruct ol; try discriminate H3;
      repeat split; reflexivity.
  Qed.

  (* NOT: looser than every comparison and than IN, tighter than AND / OR; unary sign: tighter than every
     arithmetic operator; a signed number is a UnaryOp outside IN lists and ONE literal inside *)
  Theorem not_placement_p : forall oc ol a b,
    is_cmp oc = true -> is_logic ol = true ->
    parse_tokens tv [TNOT; TId a; bop_token oc; TId b] = POk (Some (Unary UNot (Binary (Ident a) oc (Ident b)))) /\
    parse_tokens tv [TNOT; TId a; bop_token ol; TId b] = POk (Some (Binary (Unary UNot (Ident a)) ol (Ident b))) /\
    parse_tokens tv [TNOT; TId a; TIN; TLP; TId b; TRP] = POk (Some (Unary UNot (IsIn (Ident a) [Ident b] false))) /\
    parse_tokens tv [TNOT; TNOT; TId a] = POk (Some (Unary UNot (Unary UNot (Ident a)))).
  Proof.
    intros oc ol a b H1 H2. destruct oc; try discriminate H1; destruct ol; try discriminate H2; repeat split; reflexivity.
  Qed.

  Theorem unary_sign_p : forall oa a b n,
    is_arith oa = true ->
    parse_tokens tv [TSUB; TId a; bop_token oa; TId b] = POk (Some (Binary (Unary UMinus (Ident a)) oa (Ident b))) /\
    parse_tokens tv [TId a; bop_token oa; TSUB; TId b] = POk (Some (Binary (Ident a) oa (Unary UMinus (Ident b)))) /\
    parse_tokens tv [TSUB; TNum n] = POk (Some (Unary UMinus (Num n))) /\
    parse_tokens tv [TId a; TIN; TLP; TSUB; TNum n; TCOMMA; TADD; TNum n; TRP] =
      POk (Some (IsIn (Ident a) [Num (String "-"%char n); Num (String "+"%char n)] false)).
  Proof. intros oa a b n H. destruct oa; try discriminate H; repeat split; reflexivity. Qed.

  (* rejected: IN is not chainable, NOT needs IN after a bit_expr, empty lists and parentheses, stray tokens *)
  Theorem rejects_p : forall a b,
    parse_tokens tv [TId a; TIN; TLP; TId b; TRP; TIN; TLP; TId b; TRP] = PErr ESyntax /\
    parse_tokens tv [TId a; TNOT; TId b] = PErr ESyntax /\
    parse_tokens tv [TId a; TIN; TLP; TRP] = PErr ESyntax /\
    parse_tokens tv [TLP; TRP] = PErr ESyntax /\
    parse_tokens tv [TId a; TId b] = PErr ESyntax /\
    parse_tokens tv [TId a; TEQ] = PErr ESyntax /\
    parse_tokens tv [TId a; TIN; TLP; TLP; TId b; TRP; TRP] = PErr ESyntax /\
    parse_tokens tv [TId a; TEQ; TId b; TBad] = PErr ESyntax /\
    parse_tokens tv [TId "POINT"; TLP; TNum "1"; TRP] = PErr EArity /\
    parse_tokens tv [] = POk None.
  Proof. intros a b. repeat split; reflexivity. Qed.

  (* the model is faithful to a defect: a leading comma in a call's argument list is dropped *)
  Theorem call_leading_comma_refuted_p :
    exists ts t, hd_error (skipn 2 ts) = Some TCOMMA /\ parse_tokens tv ts = POk (Some t).
  Proof.
    exists [TId "POINT"; TLP; TCOMMA; TNum "1"; TCOMMA; TNum "2"; TRP], (Point (Num "1") (Num "2")).
    split; reflexivity.
  Qed.
End Prec.
