(* C07, file-system side of atomicity for ADDITIVE programs -- compositional proof (statements collected in Props/C07.v).

   Vocabulary
     feq f g          the two file maps agree on every slot (association lists are compared extensionally: an undone
                      Move ingest puts the staged file back at the FRONT of the list, so `ext s' = ext s` is false
                      literally and true extensionally)
     no_orphan s      every artifact under the root belongs to a registered dataset
     restores l s' s  replaying the undo entries l (newest first) on any state whose files agree with s' gives files
                      that agree with s
   Three predicates on actions, each closed under the model's combinators:
     NA m             m never touches fs / ext / the datastore log / the SQL stack (registry-only work)
     FA P m           started inside a datastore transaction (ptr s = l :: rest) in a no_orphan state satisfying P, m
                      ends -- whatever the outcome -- with ptr = (l' ++ l) :: rest where l' restores the files
     FAc P m          "clean": as FA when the outcome is Normal; when m raises the files ARE already restored and the
                      pointer is what it was (this is what Datastore.transaction() provides)
   Every clause is under the premise `cfault s' = false` (no fault at a COMMIT / RELEASE boundary), which is exactly
   the guard under which the property holds on the faithful model (Props/C07.v additive_op_atomic_refuted_commit_fault). *)
From Coq Require Import NArith PeanoNat List Bool Lia.
From V Require Import Model.Txn Model.TxnCheck Proofs.TxnProofs.
Import ListNotations.
Open Scope N_scope.

(* ---------------------------------------------------------------------------------------------------------- *)
(* file maps *)
Definition feq (f g : files) : Prop := forall d, fget d f = fget d g.

Lemma feq_refl : forall f, feq f f.
Proof. intros f d; reflexivity. Qed.

Lemma feq_trans : forall f g h, feq f g -> feq g h -> feq f h.
Proof. intros f g h A B d; rewrite A; apply B. Qed.

Lemma feq_sym : forall f g, feq f g -> feq g f.
Proof. intros f g A d; symmetry; apply A. Qed.

Lemma fget_frm : forall x d f, fget x (frm d f) = if x =? d then None else fget x f.
Proof.
  intros x d f; induction f as [|[k v] f IH]; simpl.
  - destruct (x =? d); reflexivity.
  - destruct (k =? d) eqn:E; simpl.
    + apply N.eqb_eq in E; subst k. rewrite IH. rewrite (N.eqb_sym d x). destruct (x =? d); reflexivity.
    + rewrite IH. destruct (k =? x) eqn:F; [|reflexivity]. apply N.eqb_eq in F; subst k. rewrite E. reflexivity.
Qed.

Lemma fget_fset : forall x d v f, fget x (fset d v f) = if x =? d then Some v else fget x f.
Proof.
  intros x d v f; unfold fset; simpl. rewrite fget_frm, (N.eqb_sym d x). destruct (x =? d); reflexivity.
Qed.

Lemma feq_frm : forall d f g, feq f g -> feq (frm d f) (frm d g).
Proof. intros d f g A x; rewrite !fget_frm, A; reflexivity. Qed.

Lemma feq_fset : forall d v f g, feq f g -> feq (fset d v f) (fset d v g).
Proof. intros d v f g A x; rewrite !fget_fset, A; reflexivity. Qed.

Lemma frm_fresh : forall d f, fget d f = None -> feq (frm d f) f.
Proof.
  intros d f A x; rewrite fget_frm. destruct (x =? d) eqn:E; [|reflexivity].
  apply N.eqb_eq in E; subst x; auto.
Qed.

Lemma frm_fset : forall d v f, feq (frm d (fset d v f)) (frm d f).
Proof. intros d v f x; rewrite !fget_frm, fget_fset. destruct (x =? d); reflexivity. Qed.

Lemma fset_frm_back : forall d v f, fget d f = Some v -> feq (fset d v (frm d f)) f.
Proof.
  intros d v f A x; rewrite fget_fset, fget_frm. destruct (x =? d) eqn:E; [|reflexivity].
  apply N.eqb_eq in E; subst x; auto.
Qed.

Lemma mem_add_same : forall d l, mem d (add d l) = true.
Proof.
  intros d l; unfold add. destruct (mem d l) eqn:E; [exact E|]. unfold mem; simpl. rewrite N.eqb_refl; reflexivity.
Qed.

Lemma mem_add_mono : forall x d l, mem x l = true -> mem x (add d l) = true.
Proof.
  intros x d l A; unfold add. destruct (mem d l); [exact A|]. unfold mem in *; simpl. rewrite A. apply orb_true_r.
Qed.

(* ---------------------------------------------------------------------------------------------------------- *)
Definition no_orphan (s : st) : Prop := forall d, fget d (fs s) <> None -> mem d (ds (cur s)) = true.

Definition undo_all (l : list undo) (t : st) : st := fold_left run_undo l t.

Definition restores (l : list undo) (s' s : st) : Prop :=
  forall t, feq (fs t) (fs s') -> feq (ext t) (ext s') ->
            feq (fs (undo_all l t)) (fs s) /\ feq (ext (undo_all l t)) (ext s).

Lemma restores_nil : forall s' s, feq (fs s') (fs s) -> feq (ext s') (ext s) -> restores [] s' s.
Proof. intros s' s A B t F E; simpl; split; eapply feq_trans; eauto. Qed.

Lemma restores_app : forall l1 l2 s0 s1 s2, restores l1 s1 s0 -> restores l2 s2 s1 -> restores (l2 ++ l1) s2 s0.
Proof.
  intros l1 l2 s0 s1 s2 R1 R2 t F E. unfold undo_all. rewrite fold_left_app.
  destruct (R2 t F E) as (A & B). apply (R1 (fold_left run_undo l2 t)); assumption.
Qed.

(* replaying undo entries only removes artifacts and touches neither the registry nor the flags *)
Lemma undo_shrinks : forall l t d, fget d (fs (undo_all l t)) <> None -> fget d (fs t) <> None.
Proof.
  induction l as [|u l IH]; intros t d H; simpl in *; [exact H|].
  apply IH in H. destruct u; simpl in H.
  - rewrite fget_frm in H; destruct (d =? d0); congruence.
  - destruct (fget d0 (fs t)) eqn:G; simpl in H; [rewrite fget_frm in H; destruct (d =? d0); congruence | exact H].
Qed.

Definition Mono (s s' : st) : Prop :=
  (cfault s = true -> cfault s' = true) /\ (fuse s = None -> fuse s' = None /\ cfault s' = cfault s).

Lemma Mono_refl : forall s, Mono s s.
Proof. intro s; split; auto. Qed.

Lemma Mono_trans : forall a b c, Mono a b -> Mono b c -> Mono a c.
Proof.
  intros a b c (A1 & A2) (B1 & B2); split; [auto|].
  intro F. destruct (A2 F) as (X & Y). destruct (B2 X) as (Z & W). split; congruence.
Qed.

Lemma tick_eq : forall s s1 b, tick s = (s1, b) ->
  exists x, s1 = set_fuse x s /\ (fuse s = None -> x = None /\ b = false).
Proof.
  unfold tick; intros s s1 b H. destruct (fuse s) as [[|n]|] eqn:F; inversion H; subst.
  - exists None; split; [reflexivity | discriminate].
  - exists (Some n); split; [reflexivity | discriminate].
  - exists None; split; [destruct s1; simpl in *; subst; reflexivity | auto].
Qed.

Lemma Mono_set_fuse : forall s x, (fuse s = None -> x = None) -> Mono s (set_fuse x s).
Proof. intros s x H; split; simpl; auto. Qed.

Ltac tk T := apply tick_eq in T; let x := fresh "x" in let TE := fresh "TE" in let TN := fresh "TN" in
             destruct T as (x & TE & TN); subst.

(* ---------------------------------------------------------------------------------------------------------- *)
(* NA: registry-only actions *)
Definition NA (m : act) : Prop := forall s s' r, m s = (s', r) ->
  fs s' = fs s /\ ext s' = ext s /\ ptr s' = ptr s /\ sql s' = sql s /\ Mono s s' /\ (no_orphan s -> no_orphan s').

(* state updates that leave files, stacks and flags alone and never shrink the dataset table *)
Definition Neutral (f : st -> st) : Prop := forall s,
  fs (f s) = fs s /\ ext (f s) = ext s /\ ptr (f s) = ptr s /\ sql (f s) = sql s /\ cfault (f s) = cfault s /\
  fuse (f s) = fuse s /\ (forall d, mem d (ds (cur s)) = true -> mem d (ds (cur (f s))) = true).

Ltac na5 := split; [|split; [|split; [|split; [|split]]]].

Lemma NA_ret : NA ret.
Proof. intros s s' r H; inversion H; subst; na5; auto using Mono_refl. Qed.

Lemma NA_raise : NA raise.
Proof. intros s s' r H; inversion H; subst; na5; auto using Mono_refl. Qed.

Lemma NA_guard : forall b, NA (guard b).
Proof. intros b s s' r H; unfold guard in H; destruct (b s); inversion H; subst; na5; auto using Mono_refl. Qed.

Lemma NA_upd : forall f, Neutral f -> NA (upd f).
Proof.
  intros f N s s' r H; inversion H; subst. destruct (N s) as (A & B & C & D & E & F & G).
  na5; auto.
  - split; [congruence|]. intro X; split; congruence.
  - intros O d X. apply G, O. rewrite <- A; exact X.
Qed.

Lemma NA_bind : forall m1 m2, NA m1 -> NA m2 -> NA (m1 ;; m2).
Proof.
  intros m1 m2 H1 H2 s s' r H; unfold bind in H. destruct (m1 s) as [s1 r1] eqn:E1.
  destruct (H1 _ _ _ E1) as (A & B & C & D & M & O). destruct r1.
  - destruct (H2 _ _ _ H) as (A' & B' & C' & D' & M' & O').
    split; [congruence|]. split; [congruence|]. split; [congruence|]. split; [congruence|].
    split; [eapply Mono_trans; eauto | auto].
  - inversion H; subst; na5; auto.
Qed.

Lemma NA_ev : forall m, NA m -> NA (ev m).
Proof.
  intros m Hm s s' r H; unfold ev in H. destruct (tick s) as [s1 b] eqn:T. tk T.
  assert (M0 : Mono s (set_fuse x s)) by (apply Mono_set_fuse; intro F; apply TN; auto).
  destruct b.
  - inversion H; subst; simpl; na5; auto.
  - destruct (Hm _ _ _ H) as (A & B & C & D & M & O); simpl in *.
    na5; auto. eapply Mono_trans; eauto.
Qed.

Lemma NA_swallow : forall m, NA m -> NA (swallow m).
Proof.
  intros m Hm s s' r H; unfold swallow in H; destruct (m s) as [s1 r1] eqn:E.
  destruct r1 as [|[|]]; inversion H; subst; eapply Hm; eauto.
Qed.

Lemma rollback_reg_all : forall y fr r, sql y = fr :: r ->
  sql (rollback_reg y) = r /\ ptr (rollback_reg y) = ptr y /\ fs (rollback_reg y) = fs y /\ ext (rollback_reg y) = ext y /\
  cfault (rollback_reg y) = cfault y /\ fuse (rollback_reg y) = fuse y /\
  cur (rollback_reg y) = match fr with FReal d => d | FSave d => d | FNoop => cur y end.
Proof. intros y fr r H; unfold rollback_reg; rewrite H; destruct fr; simpl; repeat split; auto. Qed.

Lemma reset_dc_all : forall b y,
  sql (reset_dc b y) = sql y /\ ptr (reset_dc b y) = ptr y /\ fs (reset_dc b y) = fs y /\ ext (reset_dc b y) = ext y /\
  cfault (reset_dc b y) = cfault y /\ fuse (reset_dc b y) = fuse y /\ cur (reset_dc b y) = cur y.
Proof. intros b y; destruct b; simpl; repeat split; auto. Qed.

Lemma Mono_of : forall a b, cfault b = cfault a -> fuse b = fuse a -> Mono a b.
Proof. intros a b A B; split; intros; [congruence | split; congruence]. Qed.

Lemma Mono_fired : forall a b, fuse a <> None -> cfault b = true -> Mono a b.
Proof. intros a b A B; split; intros; [auto | contradiction]. Qed.

Lemma no_orphan_of : forall a b, fs b = fs a -> cur b = cur a -> no_orphan a -> no_orphan b.
Proof. intros a b A B O d X. rewrite B. apply O. rewrite <- A. exact X. Qed.

(* the frame pushed by with_reg *)
Definition frame_of (sp : bool) (s : st) : frame :=
  match sql s with [] => FReal (cur s) | _ :: _ => if sp || existsb is_save (sql s) then FSave (cur s) else FNoop end.

Lemma frame_of_cases : forall sp s, frame_of sp s = FReal (cur s) \/ frame_of sp s = FSave (cur s) \/ frame_of sp s = FNoop.
Proof. intros sp s; unfold frame_of; destruct (sql s); auto. destruct (sp || existsb is_save (f :: l)); auto. Qed.

Lemma NA_with_reg : forall sp dc m, NA m -> NA (with_reg sp dc m).
Proof.
  intros sp dc m Hm s s' r H; unfold with_reg in H. fold (frame_of sp s) in H.
  assert (FR := frame_of_cases sp s). remember (frame_of sp s) as fr eqn:Hfr. clear Hfr.
  destruct (match fr with FNoop => true | _ => false end) eqn:NO.
  - (* FNoop: no boundaries *)
    assert (fr = FNoop) by (destruct fr; try discriminate; reflexivity). subst fr. clear FR NO.
    revert H; destruct (m _) as [s2 r2] eqn:E; intro H.
    destruct (Hm _ _ _ E) as (A & B & C & D & M & O); simpl in *.
    destruct r2; inversion H; subst; clear H.
    + unfold pop_reg; simpl; rewrite D; simpl. na5; auto.
    + destruct (rollback_reg_all s2 _ _ D) as (Q1 & Q2 & Q3 & Q4 & Q5 & Q6 & Q7).
      destruct (reset_dc_all dc (rollback_reg s2)) as (R1 & R2 & R3 & R4 & R5 & R6 & R7).
      na5; try congruence.
      * eapply Mono_trans; [exact M | apply Mono_of; congruence].
      * intro X; apply (no_orphan_of s2); [congruence | rewrite R7, Q7; reflexivity | auto].
  - assert (FR' : fr = FReal (cur s) \/ fr = FSave (cur s)) by (destruct FR as [F|[F|F]]; auto; subst fr; discriminate).
    clear FR.
    destruct (tick s) as [s0 b] eqn:T; tk T.
    assert (M0 : Mono s (set_fuse x s)) by (apply Mono_set_fuse; intro F; apply TN; auto).
    destruct b.
    + inversion H; subst. destruct (reset_dc_all dc (set_fuse x s)) as (R1 & R2 & R3 & R4 & R5 & R6 & R7).
      simpl in *. na5; try congruence.
      * eapply Mono_trans; [exact M0 | apply Mono_of; simpl; congruence].
      * apply no_orphan_of; simpl; congruence.
    + simpl in H. revert H; destruct (m _) as [s2 r2] eqn:E; intro H.
      destruct (Hm _ _ _ E) as (A & B & C & D & M & O); simpl in *.
      assert (MM : Mono s s2) by (eapply Mono_trans; eauto).
      destruct r2.
      * destruct (tick s2) as [s3 b3] eqn:T3; tk T3.
        assert (M3 : Mono s2 (set_fuse x0 s2)) by (apply Mono_set_fuse; intro F; apply TN0; auto).
        destruct b3.
        -- assert (F0 : fuse s <> None)
             by (intro F; destruct MM as (_ & M2); destruct (M2 F) as (G & _); destruct (TN0 G); discriminate).
           assert (D3 : sql (set_fuse x0 s2) = fr :: sql s) by exact D.
           destruct (rollback_reg_all _ _ _ D3) as (Q1 & Q2 & Q3 & Q4 & Q5 & Q6 & Q7).
           destruct (reset_dc_all dc (rollback_reg (set_fuse x0 s2))) as (R1 & R2 & R3 & R4 & R5 & R6 & R7).
           destruct (reset_dc_all dc (pop_reg (set_fuse x0 s2))) as (P1 & P2 & P3 & P4 & P5 & P6 & P7).
           unfold pop_reg in *. simpl in *. rewrite D in *. simpl in *.
           destruct FR' as [F|F]; subst fr; inversion H; subst; clear H; simpl.
           ++ na5; simpl; try congruence.
              ** apply Mono_fired; auto.
              ** intro X; apply (no_orphan_of s); simpl; [congruence | rewrite R7, Q7; reflexivity | exact X].
           ++ na5; simpl; try congruence.
              ** apply Mono_fired; auto.
              ** intro X; apply (no_orphan_of s2); simpl; auto.
        -- inversion H; subst; clear H; unfold pop_reg; simpl; rewrite D; simpl; na5; auto;
             try (eapply Mono_trans; [exact MM|]; eapply Mono_trans; [exact M3 | apply Mono_of; reflexivity]);
             try (intro X; apply (no_orphan_of s2); auto).
      * inversion H; subst; clear H.
        destruct (rollback_reg_all s2 _ _ D) as (Q1 & Q2 & Q3 & Q4 & Q5 & Q6 & Q7).
        destruct (reset_dc_all dc (rollback_reg s2)) as (R1 & R2 & R3 & R4 & R5 & R6 & R7).
        simpl in *; na5; try congruence.
        -- eapply Mono_trans; [exact MM | apply Mono_of; simpl; congruence].
        -- intro X; apply (no_orphan_of s); [congruence | rewrite R7, Q7; destruct FR' as [F|F]; subst fr; reflexivity | exact X].
Qed.

Lemma undo_all_proj : forall l t,
  cur (undo_all l t) = cur t /\ cfault (undo_all l t) = cfault t /\ fuse (undo_all l t) = fuse t /\
  sql (undo_all l t) = sql t /\ ptr (undo_all l t) = ptr t.
Proof.
  induction l as [|u l IH]; intro t; simpl; [repeat split; reflexivity|].
  destruct (IH (run_undo t u)) as (A & B & C & D & E). unfold undo_all in *. rewrite A, B, C, D, E.
  destruct u; simpl; try destruct (fget d (fs t)); simpl; repeat split; reflexivity.
Qed.

Lemma NA_with_ds : forall m, NA m -> NA (with_ds shipped m).
Proof.
  intros m Hm s s' r H; unfold with_ds in H.
  destruct (m (set_ptr ([] :: ptr s) s)) as [s2 r2] eqn:E.
  destruct (Hm _ _ _ E) as (A & B & C & D & M & O); simpl in *.
  assert (M' : Mono s s2) by exact M.
  rewrite C in H. destruct r2; inversion H; subst; clear H.
  - destruct (ptr s) as [|p rr] eqn:P; simpl; na5; auto; try (eapply Mono_trans; [exact M' | apply Mono_of; reflexivity]);
      intro X; apply (no_orphan_of s2); auto.
  - simpl. na5; auto.
Qed.

Lemma NA_load_dc : NA load_dc.
Proof.
  intros s s' r H. unfold load_dc in H. destruct (dcache s).
  - revert H. generalize s s' r. apply NA_ret.
  - revert H. generalize s s' r. apply NA_ev, NA_upd. intro a; simpl; repeat split; auto.
Qed.

Ltac neutral := let s := fresh in intro s; unfold on_cur; simpl; repeat split; auto using mem_add_mono.

(* the operations that never touch an artifact *)
Lemma NA_assoc : forall d, NA (exec_op shipped (Assoc d)).
Proof. intro d; simpl. apply NA_bind; [apply NA_ev, NA_guard | apply NA_with_reg, NA_ev, NA_upd; neutral]. Qed.

Lemma NA_untag : forall d, NA (exec_op shipped (Untag d)).
Proof.
  intro d; simpl. apply NA_bind; [apply NA_ev, NA_guard | apply NA_with_ds, NA_with_reg, NA_ev, NA_upd; neutral].
Qed.

Lemma NA_cert : forall d, NA (exec_op shipped (Cert d)).
Proof.
  intro d; simpl. apply NA_bind; [apply NA_ev, NA_guard |].
  apply NA_with_reg, NA_bind; [apply NA_ev, NA_guard | apply NA_upd; neutral].
Qed.

Lemma NA_insdim : forall g, NA (exec_op shipped (InsDim g)).
Proof.
  intro g; simpl. apply NA_bind; [apply NA_upd; neutral |].
  apply NA_with_reg, NA_bind; [apply NA_ev, NA_guard | apply NA_upd; neutral].
Qed.

Lemma NA_expand : forall g, NA (exec_op shipped (Expand g)).
Proof. intro g; simpl. apply NA_bind; [apply NA_load_dc | apply NA_guard]. Qed.

(* ---------------------------------------------------------------------------------------------------------- *)
(* FA / FAc *)
Definition precond := db -> files -> files -> Prop.
Definition holds (P : precond) (s : st) : Prop := P (cur s) (fs s) (ext s).
Definition PT : precond := fun _ _ _ => True.

Definition FA (P : precond) (m : act) : Prop := forall s s' r, m s = (s', r) ->
  Mono s s' /\
  forall l rest, ptr s = l :: rest -> no_orphan s -> holds P s -> cfault s' = false ->
    no_orphan s' /\ exists l', ptr s' = (l' ++ l) :: rest /\ restores l' s' s.

Definition FAc (P : precond) (m : act) : Prop := forall s s' r, m s = (s', r) ->
  Mono s s' /\
  (no_orphan s -> holds P s -> cfault s' = false ->
   no_orphan s' /\
   match r with
   | Raised _ => ptr s' = ptr s /\ feq (fs s') (fs s) /\ feq (ext s') (ext s)
   | Normal => match ptr s with
               | [] => ptr s' = []
               | l :: rest => exists l', ptr s' = (l' ++ l) :: rest /\ restores l' s' s
               end
   end).

Lemma eq_feq : forall f g : files, f = g -> feq f g.
Proof. intros f g E; subst; apply feq_refl. Qed.

Lemma NA_FAc : forall P m, NA m -> FAc P m.
Proof.
  intros P m Hm s s' r H. destruct (Hm _ _ _ H) as (A & B & C & D & M & O). split; [exact M|].
  intros X _ _. split; [auto|]. destruct r.
  - rewrite C. destruct (ptr s) as [|l rest]; [reflexivity|]. exists []. split; [reflexivity|].
    apply restores_nil; apply eq_feq; assumption.
  - repeat split; auto using eq_feq.
Qed.

Lemma FAc_FA : forall P m, FAc P m -> FA P m.
Proof.
  intros P m Hm s s' r H. destruct (Hm _ _ _ H) as (M & K). split; [exact M|].
  intros l rest Pt O Pz CF. destruct (K O Pz CF) as (O' & Q). split; [exact O'|]. destruct r.
  - rewrite Pt in Q. exact Q.
  - destruct Q as (Q1 & Q2 & Q3). exists []. split; [rewrite Q1, Pt; reflexivity | apply restores_nil; assumption].
Qed.

Lemma FA_weaken : forall P m, FA PT m -> FA P m.
Proof.
  intros P m Hm s s' r H. destruct (Hm _ _ _ H) as (M & K). split; [exact M|].
  intros l rest Pt O _ CF. apply (K l rest Pt O I CF).
Qed.

Lemma FAc_weaken : forall P m, FAc PT m -> FAc P m.
Proof.
  intros P m Hm s s' r H. destruct (Hm _ _ _ H) as (M & K). split; [exact M|].
  intros O _ CF. apply (K O I CF).
Qed.

Lemma Mono_cf : forall a b, Mono a b -> cfault b = false -> cfault a = false.
Proof. intros a b (M & _) C. destruct (cfault a); [rewrite M in C; auto | reflexivity]. Qed.

Lemma FA_bind : forall P m1 m2, FA P m1 -> FA PT m2 -> FA P (m1 ;; m2).
Proof.
  intros P m1 m2 H1 H2 s s' r H; unfold bind in H. destruct (m1 s) as [s1 r1] eqn:E1.
  destruct (H1 _ _ _ E1) as (M1 & K1). destruct r1.
  - destruct (H2 _ _ _ H) as (M2 & K2). split; [eapply Mono_trans; eauto|].
    intros l rest Pt O Pz CF.
    destruct (K1 l rest Pt O Pz (Mono_cf _ _ M2 CF)) as (O1 & l1 & P1 & R1).
    destruct (K2 (l1 ++ l) rest P1 O1 I CF) as (O2 & l2 & P2 & R2).
    split; [exact O2|]. exists (l2 ++ l1). split; [rewrite P2, app_assoc; reflexivity | eapply restores_app; eauto].
  - inversion H; subst. split; [exact M1|]. exact K1.
Qed.

Lemma FA_guard_pre : forall P b m, FA P m -> FA P (guard b ;; m).
Proof.
  intros P b m Hm s s' r H; unfold bind, guard in H. destruct (b s).
  - eapply Hm; eauto.
  - inversion H; subst. split; [apply Mono_refl|]. intros l rest Pt O _ _. split; [exact O|].
    exists []. split; [exact Pt | apply restores_nil; apply feq_refl].
Qed.

Lemma FAc_swallow : forall P m, FAc P m -> FAc P (swallow m).
Proof.
  intros P m Hm s s' r H; unfold swallow in H. destruct (m s) as [s1 r1] eqn:E.
  destruct (Hm _ _ _ E) as (M & K). destruct r1 as [|[|]]; inversion H; subst; clear H; (split; [exact M|]); try exact K.
  intros O Pz CF. destruct (K O Pz CF) as (O' & Q1 & Q2 & Q3). split; [exact O'|].
  rewrite Q1. destruct (ptr s) as [|l rest]; [reflexivity|]. exists []. split; [reflexivity | apply restores_nil; assumption].
Qed.

Lemma FAc_with_ds : forall P m, FA P m -> FAc P (with_ds shipped m).
Proof.
  intros P m Hm s s' r H; unfold with_ds in H.
  destruct (m (set_ptr ([] :: ptr s) s)) as [s2 r2] eqn:E.
  destruct (Hm _ _ _ E) as (M & K). assert (M' : Mono s s2) by exact M.
  specialize (K [] (ptr s) eq_refl). simpl fix_ptr in H.
  destruct r2; inversion H; subst; clear H.
  - split.
    + destruct (ptr s2) as [|l [|p rr]]; (eapply Mono_trans; [exact M' | apply Mono_of; reflexivity]).
    + intros O Pz CF.
      assert (CF2 : cfault s2 = false) by (destruct (ptr s2) as [|l [|p rr]]; exact CF).
      destruct (K O Pz CF2) as (O2 & l' & P2 & R). rewrite P2. rewrite app_nil_r in *.
      destruct (ptr s) as [|p rr] eqn:Ps.
      * split; [apply (no_orphan_of s2); auto | reflexivity].
      * split; [apply (no_orphan_of s2); auto|]. exists l'. split; [reflexivity | exact R].
  - assert (U : forall l, Mono s2 (undo_all l s2)).
    { intro l. destruct (undo_all_proj l s2) as (_ & U2 & U3 & _). apply Mono_of; assumption. }
    split.
    + destruct (ptr s2) as [|l rr]; [exact M'|]. eapply Mono_trans; [exact M'|]. eapply Mono_trans; [apply (U l) | apply Mono_of; reflexivity].
    + intros O Pz CF.
      assert (CF2 : cfault s2 = false).
      { destruct (ptr s2) as [|l rr]; [exact CF|]. simpl in CF. destruct (undo_all_proj l s2) as (_ & U2 & _).
        unfold undo_all in U2. rewrite U2 in CF. exact CF. }
      destruct (K O Pz CF2) as (O2 & l' & P2 & R). rewrite P2. rewrite app_nil_r in *.
      destruct (R s2 (feq_refl _) (feq_refl _)) as (R1 & R2).
      destruct (undo_all_proj l' s2) as (U1 & _).
      fold (undo_all l' s2). simpl. split; [|repeat split; assumption].
      intros d X. simpl in *. rewrite U1. apply O2. eapply undo_shrinks; eauto.
Qed.

Lemma no_orphan_feq : forall a b, feq (fs b) (fs a) -> cur b = cur a -> no_orphan a -> no_orphan b.
Proof. intros a b A B O d X. rewrite B. apply O. rewrite <- A. exact X. Qed.

(* Database._transaction around a clean body is clean: a registry rollback restores a snapshot taken when the files
   were what they are again now *)
Lemma FAc_with_reg : forall P sp dc m, FAc P m -> WB m -> FAc P (with_reg sp dc m).
Proof.
  intros P sp dc m Hm W s s' r H; unfold with_reg in H. fold (frame_of sp s) in H.
  assert (FR := frame_of_cases sp s). remember (frame_of sp s) as fr eqn:Hfr. clear Hfr.
  destruct (match fr with FNoop => true | _ => false end) eqn:NO.
  - assert (fr = FNoop) by (destruct fr; try discriminate; reflexivity). subst fr. clear FR NO.
    revert H; destruct (m _) as [s2 r2] eqn:E; intro H.
    destruct (Hm _ _ _ E) as (M & K). destruct (W _ _ _ E) as (D & _). simpl in D.
    assert (M' : Mono s s2) by exact M.
    destruct r2; inversion H; subst; clear H.
    + split; [eapply Mono_trans; [exact M' | apply Mono_of; reflexivity]|].
      intros O Pz CF. destruct (K O Pz CF) as (O2 & Q). split; [apply (no_orphan_of s2); auto | exact Q].
    + destruct (rollback_reg_all s2 _ _ D) as (Q1 & Q2 & Q3 & Q4 & Q5 & Q6 & Q7).
      destruct (reset_dc_all dc (rollback_reg s2)) as (R1 & R2 & R3 & R4 & R5 & R6 & R7).
      split; [eapply Mono_trans; [exact M' | apply Mono_of; congruence]|].
      intros O Pz CF. assert (CF2 : cfault s2 = false) by congruence.
      destruct (K O Pz CF2) as (O2 & K1 & K2 & K3). simpl in K1.
      split; [apply (no_orphan_of s2); [congruence | congruence | exact O2]|].
      rewrite R2, R3, R4, Q2, Q3, Q4. repeat split; assumption.
  - assert (FR' : fr = FReal (cur s) \/ fr = FSave (cur s)) by (destruct FR as [F|[F|F]]; auto; subst fr; discriminate).
    clear FR.
    destruct (tick s) as [s0 b] eqn:T; tk T.
    assert (M0 : Mono s (set_fuse x s)) by (apply Mono_set_fuse; intro F; apply TN; auto).
    destruct b.
    + inversion H; subst. destruct (reset_dc_all dc (set_fuse x s)) as (R1 & R2 & R3 & R4 & R5 & R6 & R7).
      simpl in *. split; [eapply Mono_trans; [exact M0 | apply Mono_of; simpl; congruence]|].
      intros O _ _. split; [apply (no_orphan_of s); auto|].
      rewrite R2, R3, R4. repeat split; apply feq_refl.
    + simpl in H. revert H; destruct (m _) as [s2 r2] eqn:E; intro H.
      destruct (Hm _ _ _ E) as (M & K). destruct (W _ _ _ E) as (D & _). simpl in D.
      assert (MM : Mono s s2) by (eapply Mono_trans; [exact M0 | exact M]).
      destruct r2.
      * destruct (tick s2) as [s3 b3] eqn:T3; tk T3.
        assert (M3 : Mono s2 (set_fuse x0 s2)) by (apply Mono_set_fuse; intro F; apply TN0; auto).
        destruct b3.
        -- assert (F0 : fuse s <> None)
             by (intro F; destruct MM as (_ & M2); destruct (M2 F) as (G & _); destruct (TN0 G); discriminate).
           destruct (reset_dc_all dc (rollback_reg (set_fuse x0 s2))) as (R1 & R2 & R3 & R4 & R5 & R6 & R7).
           destruct (reset_dc_all dc (pop_reg (set_fuse x0 s2))) as (P1 & P2 & P3 & P4 & P5 & P6 & P7).
           destruct fr; inversion H; subst; clear H;
             (split; [apply Mono_fired; [exact F0 | reflexivity] | intros _ _ CF; simpl in CF; discriminate CF]).
        -- inversion H; subst; clear H.
           split; [eapply Mono_trans; [exact MM|]; eapply Mono_trans; [exact M3 | apply Mono_of; reflexivity]|].
           intros O Pz CF. destruct (K O Pz CF) as (O2 & Q). split; [apply (no_orphan_of s2); auto | exact Q].
      * inversion H; subst; clear H.
        destruct (rollback_reg_all s2 _ _ D) as (Q1 & Q2 & Q3 & Q4 & Q5 & Q6 & Q7).
        destruct (reset_dc_all dc (rollback_reg s2)) as (R1 & R2 & R3 & R4 & R5 & R6 & R7).
        split; [eapply Mono_trans; [exact MM | apply Mono_of; congruence]|].
        intros O Pz CF. assert (CF2 : cfault s2 = false) by congruence.
        destruct (K O Pz CF2) as (O2 & K1 & K2 & K3). simpl in K1, K2, K3.
        split.
        -- apply (no_orphan_feq s); [rewrite R3, Q3; exact K2 | rewrite R7, Q7; destruct FR' as [F|F]; subst fr; reflexivity | exact O].
        -- rewrite R2, R3, R4, Q2, Q3, Q4. repeat split; assumption.
Qed.

(* Butler.transaction() around any body that keeps the log discipline is clean *)
Lemma FAc_butler_txn : forall P m, FA P m -> WB m -> FAc P (butler_txn shipped m).
Proof. intros P m Hm W. unfold butler_txn. apply FAc_with_reg; [apply FAc_with_ds; exact Hm | apply WB_with_ds; exact W]. Qed.

(* ---------------------------------------------------------------------------------------------------------- *)
(* the artifact-writing units.  Pd d: slot d is registered and has no artifact yet. *)
Definition Pd (d : N) : precond := fun c f _ => fget d f = None /\ mem d (ds c) = true.

Lemma restores_URm : forall d s' s, feq (frm d (fs s')) (fs s) -> feq (ext s') (ext s) -> restores [URm d] s' s.
Proof.
  intros d s' s A B t F E; simpl; split; [eapply feq_trans; [apply feq_frm; exact F | exact A] | eapply feq_trans; eauto].
Qed.

Lemma restores_UBack : forall d v s' s, fget d (fs s') = Some v ->
  feq (frm d (fs s')) (fs s) -> feq (fset d v (ext s')) (ext s) -> restores [UBack d v] s' s.
Proof.
  intros d v s' s G A B t F E; simpl. rewrite (F d), G. simpl. split;
    [eapply feq_trans; [apply feq_frm; exact F | exact A] | eapply feq_trans; [apply feq_fset; exact E | exact B]].
Qed.

Lemma no_orphan_write : forall d v s y, no_orphan s -> mem d (ds (cur s)) = true ->
  fs y = fset d v (fs s) -> cur y = cur s -> no_orphan y.
Proof.
  intros d v s y O Md F C x X. rewrite C. rewrite F, fget_fset in X. destruct (x =? d) eqn:E.
  - apply N.eqb_eq in E; subst x; exact Md.
  - apply O; exact X.
Qed.

Definition wr (d v : N) : st -> st := fun s => set_fs (fset d v (fs s)) s.

(* FileDatastore.put: undo registered BEFORE the artifact is moved into place *)
Lemma FA_put_unit : forall d v rest, NA rest ->
  FA (Pd d) (reg_undo (URm d) ;; ev ret ;; ev_absorb (upd (wr d v)) ;; rest).
Proof.
  intros d v rest Hr s s' r H. unfold bind at 1 in H. unfold reg_undo in H.
  destruct (ptr s) as [|l0 r0] eqn:Ps.
  { inversion H; subst. split; [apply Mono_refl|]. intros l rr Pt; discriminate Pt. }
  unfold bind at 1 in H. unfold ev at 1 in H.
  match type of H with context [tick ?a] => destruct (tick a) as [s1 b1] eqn:T1 end. tk T1.
  assert (G0 : forall y, fs y = fs s -> ext y = ext s -> ptr y = (URm d :: l0) :: r0 -> cur y = cur s ->
               forall l rr, l0 :: r0 = l :: rr -> no_orphan s -> holds (Pd d) s ->
               no_orphan y /\ exists l', ptr y = (l' ++ l) :: rr /\ restores l' y s).
  { intros y Y1 Y2 Y3 Y4 l rr Pt O (Pf & Pm). inversion Pt; subst. split; [apply (no_orphan_of s); auto|].
    exists [URm d]. split; [exact Y3|]. apply restores_URm; [rewrite Y1; apply frm_fresh; exact Pf | rewrite Y2; apply feq_refl]. }
  destruct b1.
  { inversion H; subst; clear H. split; [split; simpl; [auto | intro F; destruct (TN F) as (_ & X2); discriminate X2]|].
    intros l rr Pt O Pz _. apply G0; auto. }
  simpl in H. unfold bind at 1 in H. unfold ev_absorb at 1 in H.
  match type of H with context [tick ?a] => destruct (tick a) as [s2 b2] eqn:T2 end. tk T2.
  simpl in H.
  assert (M1 : Mono s (set_fuse x0 (set_fuse x (set_ptr ((URm d :: l0) :: r0) s)))).
  { split; simpl; [auto|]. intro F. destruct (TN F) as (X1 & _). subst x. simpl in TN0. destruct (TN0 eq_refl) as (X2 & _). auto. }
  destruct (b2 && hard s) eqn:BH.
  { inversion H; subst; clear H. split; [exact M1|]. intros l rr Pt O Pz _. apply G0; auto. }
  unfold upd in H.
  destruct (Hr _ _ _ H) as (A & B & C & D & M & Or). simpl in A, B, C.
  split; [eapply Mono_trans; [exact M1 | exact M]|].
  intros l rr Pt O (Pf & Pm) CF. inversion Pt; subst.
  split.
  - apply Or. eapply (no_orphan_write d v s); eauto.
  - exists [URm d]. split; [exact C|]. apply restores_URm.
    + rewrite A. eapply feq_trans; [apply frm_fset | apply frm_fresh; exact Pf].
    + rewrite B. apply feq_refl.
Qed.

(* ingest: the file is put in place and THEN the undo is registered; no boundary lies between the two *)
Lemma FA_transfer : forall mo d, FA (Pd d) (transfer mo d).
Proof.
  intros mo d s s' r H. unfold transfer in H. destruct (fget d (ext s)) as [v|] eqn:Ev.
  2: { inversion H; subst. split; [apply Mono_refl|]. intros l rr Pt O _ _. split; [exact O|].
       exists []. split; [exact Pt | apply restores_nil; apply feq_refl]. }
  assert (G0 : forall x, Mono s (set_fuse x s) ->
               Mono s (set_fuse x s) /\
               forall l rr, ptr (set_fuse x s) = l :: rr -> no_orphan s -> holds (Pd d) s -> cfault (set_fuse x s) = false ->
               no_orphan (set_fuse x s) /\ exists l', ptr (set_fuse x s) = (l' ++ l) :: rr /\ restores l' (set_fuse x s) s).
  { intros x M. split; [exact M|]. intros l rr Pt O _ _. split; [exact O|].
    exists []. split; [exact Pt | apply restores_nil; apply feq_refl]. }
  destruct mo.
  - (* Copy *)
    unfold bind at 1 in H. unfold ev at 1 in H. destruct (tick s) as [s1 b1] eqn:T1. tk T1.
    destruct b1.
    { inversion H; subst; clear H. apply G0. split; simpl; [auto | intro F; destruct (TN F) as (_ & X2); discriminate X2]. }
    simpl in H. unfold bind at 1 in H. unfold ev at 1 in H.
    match type of H with context [tick ?a] => destruct (tick a) as [s2 b2] eqn:T2 end. tk T2.
    assert (M1 : forall b, (fuse (set_fuse x s) = None -> x0 = None /\ b = false) -> Mono s (set_fuse x0 s)).
    { intros b TB. split; simpl; [auto|]. intro F. destruct (TN F) as (X1 & _). subst x. destruct (TB eq_refl) as (X2 & _). auto. }
    destruct b2.
    { inversion H; subst; clear H. apply (G0 x0). eapply M1; eauto. }
    simpl in H. unfold reg_undo in H. simpl in H.
    destruct (ptr s) as [|l0 r0] eqn:Ps; inversion H; subst; clear H.
    { split; [apply (Mono_trans _ (set_fuse x0 s)); [eapply M1; eauto | apply Mono_of; reflexivity]|].
      intros l rr Pt; discriminate Pt. }
    split; [apply (Mono_trans _ (set_fuse x0 s)); [eapply M1; eauto | apply Mono_of; reflexivity]|].
    intros l rr Pt O (Pf & Pm) _. inversion Pt; subst. split.
    + eapply (no_orphan_write d v s); eauto.
    + exists [URm d]. split; [reflexivity|]. apply restores_URm; simpl.
      * eapply feq_trans; [apply frm_fset | apply frm_fresh; exact Pf].
      * apply feq_refl.
  - (* Move *)
    unfold bind at 1 in H. unfold ev_absorb at 1 in H. destruct (tick s) as [s1 b1] eqn:T1. tk T1.
    simpl in H.
    assert (M1 : Mono s (set_fuse x s)) by (apply Mono_set_fuse; intro F; apply TN; exact F).
    destruct (b1 && hard s).
    { inversion H; subst; clear H. apply G0. exact M1. }
    simpl in H. unfold reg_undo in H. simpl in H.
    destruct (ptr s) as [|l0 r0] eqn:Ps; inversion H; subst; clear H.
    { split; [eapply Mono_trans; [exact M1 | apply Mono_of; reflexivity]|].
      intros l rr Pt; discriminate Pt. }
    split; [eapply Mono_trans; [exact M1 | apply Mono_of; reflexivity]|].
    intros l rr Pt O (Pf & Pm) _. inversion Pt; subst. split.
    + eapply (no_orphan_write d v s); eauto.
    + exists [UBack d v]. split; [reflexivity|]. apply restores_UBack; simpl.
      * rewrite N.eqb_refl. reflexivity.
      * eapply feq_trans; [apply frm_fset | apply frm_fresh; exact Pf].
      * apply fset_frm_back; exact Ev.
Qed.

(* registry.insertDatasets refuses a slot that is registered; in a no_orphan state the accepted slot has no artifact *)
Lemma FA_fresh : forall d m, FA (Pd d) m ->
  FA PT (ev (guard (fun s => negb (has_ds d s))) ;; upd (on_cur (up_ds (add d))) ;; m).
Proof.
  intros d m Hm s s' r H. unfold bind at 1 in H. unfold ev in H. destruct (tick s) as [s1 b1] eqn:T1. tk T1.
  assert (M1 : Mono s (set_fuse x s)) by (apply Mono_set_fuse; intro F; apply TN; exact F).
  assert (G0 : Mono s (set_fuse x s) /\
               forall l rr, ptr (set_fuse x s) = l :: rr -> no_orphan s -> holds PT s -> cfault (set_fuse x s) = false ->
               no_orphan (set_fuse x s) /\ exists l', ptr (set_fuse x s) = (l' ++ l) :: rr /\ restores l' (set_fuse x s) s).
  { split; [exact M1|]. intros l rr Pt O _ _. split; [exact O|].
    exists []. split; [exact Pt | apply restores_nil; apply feq_refl]. }
  destruct b1; [inversion H; subst; exact G0|].
  unfold guard in H. unfold has_ds in H. simpl in H. destruct (mem d (ds (cur s))) eqn:Md; simpl in H.
  { inversion H; subst; exact G0. }
  unfold bind at 1, upd at 1 in H. destruct (Hm _ _ _ H) as (M & K).
  split; [eapply Mono_trans; [exact M1 | exact M]|].
  intros l rr Pt O _ CF.
  assert (O2 : no_orphan (on_cur (up_ds (add d)) (set_fuse x s))).
  { intros y Y. unfold on_cur; simpl. apply mem_add_mono. apply O. exact Y. }
  assert (Pz : holds (Pd d) (on_cur (up_ds (add d)) (set_fuse x s))).
  { split; unfold on_cur; simpl; [|apply mem_add_same].
    destruct (fget d (fs s)) eqn:Fd; [|reflexivity]. exfalso.
    assert (X : mem d (ds (cur s)) = true) by (apply O; rewrite Fd; discriminate). congruence. }
  exact (K l rr Pt O2 Pz CF).
Qed.

Lemma FA_of_NA : forall P m, NA m -> FA P m.
Proof. intros P m H; apply FAc_FA, NA_FAc, H. Qed.

Lemma NA_stored_rows : forall d, NA (ev (stored_rows d)).
Proof. intro d; apply NA_ev, NA_upd; neutral. Qed.

(* actions that touch neither tables nor files nor stacks (a lookup behind a boundary, the cache load): the precondition of
   what follows survives them *)
Definition Silent (m0 : act) : Prop := forall s s1 r1, m0 s = (s1, r1) ->
  Mono s s1 /\ cur s1 = cur s /\ fs s1 = fs s /\ ext s1 = ext s /\ ptr s1 = ptr s.

Lemma Silent_ev_guard : forall b, Silent (ev (guard b)).
Proof.
  intros b s s1 r1 H. unfold ev, guard in H. destruct (tick s) as [s2 t] eqn:T. tk T.
  assert (M0 : Mono s (set_fuse x s)) by (apply Mono_set_fuse; intro F; apply TN; auto).
  destruct t; [|destruct (b (set_fuse x s))]; inversion H; subst; simpl; (split; [exact M0 | repeat split; auto]).
Qed.

Lemma Silent_load_dc : Silent load_dc.
Proof.
  intros s s1 r1 E. unfold load_dc in E. destruct (dcache s).
  - inversion E; subst. split; [apply Mono_refl | repeat split; auto].
  - unfold ev, upd in E. destruct (tick s) as [s2 b] eqn:T. tk T.
    assert (M0 : Mono s (set_fuse x s)) by (apply Mono_set_fuse; intro F; apply TN; auto).
    destruct b; inversion E; subst; simpl.
    + split; [exact M0 | repeat split; auto].
    + split; [apply (Mono_trans _ (set_fuse x s)); [exact M0 | apply Mono_of; reflexivity] | repeat split; auto].
Qed.

Lemma FA_after_silent : forall P m0 m, Silent m0 -> FA P m -> FA P (m0 ;; m).
Proof.
  intros P m0 m H0 Hm s s' r H. unfold bind in H. destruct (m0 s) as [s1 r1] eqn:E.
  destruct (H0 _ _ _ E) as (M1 & C1 & F1 & X1 & P1).
  destruct r1.
  - destruct (Hm _ _ _ H) as (M2 & K2). split; [eapply Mono_trans; eauto|].
    intros l rest Pt0 O Pz CF.
    assert (O1 : no_orphan s1) by (apply (no_orphan_of s); auto).
    assert (Pz1 : holds P s1) by (unfold holds in *; rewrite C1, F1, X1; exact Pz).
    destruct (K2 l rest (eq_trans P1 Pt0) O1 Pz1 CF) as (O2 & l' & Q1 & Q2).
    split; [exact O2|]. exists l'. split; [exact Q1|].
    intros t Ft Et. destruct (Q2 t Ft Et) as (A & B). rewrite <- F1, <- X1. auto.
  - inversion H; subst. split; [exact M1|]. intros l rest Pt0 O _ _.
    split; [apply (no_orphan_of s); auto|]. exists []. split; [rewrite P1; exact Pt0|].
    apply restores_nil; [rewrite F1 | rewrite X1]; apply feq_refl.
Qed.

Lemma Silent_refuse_held : forall d, Silent (refuse_held shipped d).
Proof. intro d. unfold refuse_held; simpl. apply Silent_ev_guard. Qed.

Lemma FAc_put : forall d v, FAc PT (exec_op shipped (Put d v)).
Proof.
  intros d v; simpl; unfold do_put. apply FAc_butler_txn.
  - apply FA_bind; [apply FA_of_NA, NA_load_dc|]. apply FA_fresh. apply FAc_FA, FAc_with_ds.
    apply (FA_put_unit d v (ev ret ;; ev (stored_rows d))).
    apply NA_bind; [apply NA_ev, NA_ret | apply NA_stored_rows].
  - repeat first [ apply WB_bind | apply WB_ev | apply WB_ev_absorb | apply WB_ret | apply WB_guard | apply WB_with_ds
                 | apply WB_reg_undo | apply WB_load_dc | apply WB_stored_rows | (apply WB_upd; keeps) ].
Qed.

Lemma FAc_ingest : forall mo d, FAc PT (exec_op shipped (Ingest mo d)).
Proof.
  intros mo d; simpl; unfold do_ingest. apply FAc_butler_txn.
  - apply FA_bind; [apply FA_of_NA, NA_load_dc|]. apply FA_fresh. apply FA_guard_pre. apply FAc_FA, FAc_with_ds.
    apply FA_after_silent; [apply Silent_refuse_held|].
    apply FA_bind; [apply FA_transfer | apply FA_of_NA, NA_stored_rows].
  - repeat first [ apply WB_refuse_held | apply WB_bind | apply WB_ev | apply WB_ret | apply WB_guard | apply WB_with_ds | apply WB_transfer
                 | apply WB_load_dc | apply WB_stored_rows | (apply WB_upd; keeps) ].
Qed.

(* ---------------------------------------------------------------------------------------------------------- *)
(* additive programs: any nesting of blocks / try / failures around operations other than the three removals *)
Definition additive_op (o : op) : bool :=
  match o with Purge _ | Unstore _ | EmptyTrash | Transfer _ | ImportDs _ => false | _ => true end.

Fixpoint additive (p : prog) : bool :=
  match p with
  | POp o => additive_op o
  | PBlock ps => (fix al (l : list prog) : bool := match l with [] => true | q :: r => additive q && al r end) ps
  | PTry q => additive q
  | PFail => true
  end.

Definition additive_list (ps : list prog) : bool := forallb additive ps.

Lemma additive_block : forall ps, additive (PBlock ps) = additive_list ps.
Proof. induction ps as [|q r IH]; simpl; [reflexivity|]. simpl in IH. rewrite IH. reflexivity. Qed.

Lemma FAc_exec : forall p, additive p = true -> FAc PT (exec shipped p).
Proof.
  fix IH 1. destruct p as [o|ps|q|]; simpl; intro A.
  - destruct o; try discriminate A.
    + apply FAc_put.
    + apply FAc_ingest.
    + apply NA_FAc, NA_assoc.
    + apply NA_FAc, NA_untag.
    + apply NA_FAc, NA_cert.
    + apply NA_FAc, NA_insdim.
    + apply NA_FAc, NA_expand.
  - apply FAc_butler_txn; [|apply WB_seq].
    induction ps as [|q r IHr]; [apply FA_of_NA, NA_ret|].
    apply andb_true_iff in A. destruct A as (A1 & A2).
    apply FA_bind; [apply FAc_FA, IH, A1 | apply IHr, A2].
  - apply FAc_swallow, IH, A.
  - apply NA_FAc, NA_raise.
Qed.

(* ---- the statements --------------------------------------------------------------------------------------- *)
(* an additive program that raises (anywhere: top level or inside open transactions, any fault position / flavour,
   inner failures caught or not) leaves the artifacts and the staging area as they were, the datastore pointer too *)
Lemma prog_files_atomic_p : forall p s s' h,
  additive p = true -> no_orphan s -> exec shipped p s = (s', Raised h) -> cfault s' = false ->
  feq (fs s') (fs s) /\ feq (ext s') (ext s) /\ ptr s' = ptr s /\ no_orphan s'.
Proof.
  intros p s s' h A O H CF. destruct (FAc_exec p A _ _ _ H) as (_ & K).
  destruct (K O I CF) as (O' & Q1 & Q2 & Q3). auto.
Qed.

Lemma block_files_atomic_p : forall ps s s' h,
  additive_list ps = true -> no_orphan s -> exec shipped (PBlock ps) s = (s', Raised h) -> cfault s' = false ->
  feq (fs s') (fs s) /\ feq (ext s') (ext s) /\ ptr s' = ptr s /\ no_orphan s'.
Proof. intros ps s s' h A. apply prog_files_atomic_p. rewrite additive_block. exact A. Qed.

Lemma op_files_atomic_p : forall o s s' h,
  additive_op o = true -> no_orphan s -> exec shipped (POp o) s = (s', Raised h) -> cfault s' = false ->
  feq (fs s') (fs s) /\ feq (ext s') (ext s) /\ ptr s' = ptr s /\ no_orphan s'.
Proof. intros o s s' h A. apply prog_files_atomic_p. exact A. Qed.

Lemma put_files_atomic_p : forall d v s s' h,
  no_orphan s -> exec shipped (POp (Put d v)) s = (s', Raised h) -> cfault s' = false ->
  feq (fs s') (fs s) /\ feq (ext s') (ext s) /\ ptr s' = ptr s /\ no_orphan s'.
Proof. intros d v s s' h. apply prog_files_atomic_p. reflexivity. Qed.

Lemma ingest_files_atomic_p : forall mo d s s' h,
  no_orphan s -> exec shipped (POp (Ingest mo d)) s = (s', Raised h) -> cfault s' = false ->
  feq (fs s') (fs s) /\ feq (ext s') (ext s) /\ ptr s' = ptr s /\ no_orphan s'.
Proof. intros mo d s s' h. apply prog_files_atomic_p. reflexivity. Qed.

(* an additive program that ends normally inside a datastore transaction has pushed onto the current log exactly
   the entries whose replay restores the files: whatever the enclosing block does later, its rollback is complete *)
Lemma prog_log_restores_p : forall p s s' l rest,
  additive p = true -> no_orphan s -> ptr s = l :: rest -> exec shipped p s = (s', Normal) -> cfault s' = false ->
  no_orphan s' /\ exists l', ptr s' = (l' ++ l) :: rest /\ restores l' s' s.
Proof.
  intros p s s' l rest A O Pt H CF. destruct (FAc_exec p A _ _ _ H) as (_ & K).
  destruct (K O I CF) as (O' & Q). rewrite Pt in Q. auto.
Qed.

(* at top level an additive program keeps no_orphan whatever happens (short of a COMMIT fault) *)
Lemma prog_no_orphan_p : forall p s s' r,
  additive p = true -> no_orphan s -> exec shipped p s = (s', r) -> cfault s' = false -> no_orphan s'.
Proof.
  intros p s s' r A O H CF. destruct (FAc_exec p A _ _ _ H) as (_ & K). destruct (K O I CF) as (O' & _). exact O'.
Qed.

(* the invariant is established by every committed additive pre-history (the start states of the correspondence) *)
Lemma run_pre_inv : forall pre s, additive_list pre = true ->
  no_orphan s -> fuse s = None -> cfault s = false ->
  no_orphan (run_pre shipped pre s) /\ fuse (run_pre shipped pre s) = None /\ cfault (run_pre shipped pre s) = false.
Proof.
  induction pre as [|p r IH]; intros s A O F C; simpl; [auto|].
  simpl in A. apply andb_true_iff in A. destruct A as (A1 & A2).
  destruct (exec shipped p s) as [s1 r1] eqn:E. simpl.
  destruct (FAc_exec p A1 _ _ _ E) as ((_ & M2) & K). destruct (M2 F) as (F1 & C1).
  assert (C1' : cfault s1 = false) by congruence.
  destruct (K O I C1') as (O1 & _). apply IH; auto.
Qed.

Lemma no_orphan_init : forall e, no_orphan (init e).
Proof. intros e d X. simpl in X. congruence. Qed.

Lemma no_orphan_reachable_p : forall e pre, additive_list pre = true -> no_orphan (run_pre shipped pre (init e)).
Proof. intros e pre A. apply run_pre_inv; auto using no_orphan_init. Qed.

Lemma run_pre_top : forall pre s, sql s = [] -> ptr s = [] ->
  sql (run_pre shipped pre s) = [] /\ ptr (run_pre shipped pre s) = [].
Proof.
  induction pre as [|q r IH]; intros s S P; simpl; [auto|].
  destruct (exec shipped q s) as [s1 r1] eqn:E. simpl.
  destruct (pointer_restored_p _ _ _ _ E P) as (P1 & S1). apply IH; congruence.
Qed.

(* what the correspondence observes of a file map *)
Lemma fvec_feq : forall f g, feq f g -> fvec f = fvec g.
Proof. intros f g A. unfold fvec. apply map_ext. intro d. rewrite A. reflexivity. Qed.

(* the run the correspondence performs: committed additive pre-history, then the program with the fault at boundary j *)
Definition armed (s0 : st) (j : option nat) (h : bool) : st :=
  mkst (cur s0) (sql s0) (ptr s0) (fs s0) (ext s0) (dcache s0) j h false.

Lemma reachable_atomic_p : forall e pre p j h s' h',
  additive_list pre = true -> additive p = true ->
  exec shipped p (armed (run_pre shipped pre (init e)) j h) = (s', Raised h') -> cfault s' = false ->
  fvec (fs s') = fvec (fs (run_pre shipped pre (init e))) /\ fvec (ext s') = fvec (ext (run_pre shipped pre (init e))) /\
  ptr s' = [] /\ sql s' = [].
Proof.
  intros e pre p j h s' h' A1 A2 H CF.
  set (s0 := run_pre shipped pre (init e)) in *.
  assert (O : no_orphan (armed s0 j h)) by (apply (no_orphan_of s0); [reflexivity | reflexivity | apply no_orphan_reachable_p; exact A1]).
  destruct (prog_files_atomic_p _ _ _ _ A2 O H CF) as (Q1 & Q2 & Q3 & _).
  split; [apply fvec_feq; exact Q1|]. split; [apply fvec_feq; exact Q2|].
  assert (SP : sql s0 = [] /\ ptr s0 = []) by (apply run_pre_top; reflexivity).
  destruct SP as (S0 & P0).
  destruct (pointer_restored_p _ _ _ _ H P0) as (P1 & S1). simpl in S1.
  split; [exact P1 | congruence].
Qed.

(* ---------------------------------------------------------------------------------------------------------- *)
(* the guard `cfault s' = false` is needed also for NESTED blocks: a fault at the RELEASE SAVEPOINT of an inner
   Butler.transaction() makes the block raise with its registry rows and its artifact still in place (the datastore
   transaction has already handed its log to the parent).  s_in = inside an open outer block. *)
Definition s_in : st := set_sql [FReal db0] (set_ptr [[]] (init e0)).

Lemma release_fault_inner_p :
  exists j, let '(s', r) := exec shipped (PBlock [POp (Put 0 1)]) (with_fuse j s_in) in
            r = Raised false /\ ds (cur s') = [0] /\ ds (cur s_in) = [] /\ fget 0 (fs s') = Some 1 /\ fs s_in = [] /\
            cfault s' = true.
Proof. exists 9%nat. vm_compute. repeat split. Qed.

(* the same seen from outside: the inner block raises, the program catches it, the outer block commits *)
Definition prog_rel := PBlock [PTry (PBlock [POp (Put 0 1)]); POp (Assoc 0)].

Lemma release_fault_program_p :
  exists j, let '(s', r) := exec shipped prog_rel (with_fuse j (init e0)) in
            r = Normal /\ fuse s' = None /\ cfault s' = true /\ ds (cur s') = [0] /\ tags (cur s') = [0] /\ fget 0 (fs s') = Some 1.
Proof. exists 10%nat. vm_compute. repeat split. Qed.

(* why the statements are extensional in the staging area: an undone Move ingest re-creates the staged file at the
   front of the association list *)
Lemma ext_literal_differs_p :
  let '(s', r) := exec shipped (PBlock [POp (Ingest Move 2); PFail]) s_one in
  r = Raised false /\ cfault s' = false /\ ext s' <> ext s_one /\ fvec (ext s') = fvec (ext s_one).
Proof. vm_compute. repeat split. discriminate. Qed.

Lemma no_orphan_s_one : no_orphan s_one.
Proof. apply (no_orphan_reachable_p e0 [POp (Put 1 2)]). reflexivity. Qed.
