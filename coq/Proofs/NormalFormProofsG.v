(* C15 -- the REGENERATED legacy normal-form rules (Gen/NormalFormGen.v, produced on every run from the current
   normalForm.py by harness/translators/normalform.py) against the hand model (Model/NormalForm.v), and the legacy
   theorems re-stated over the generated definitions.

   Part A: generated = hand model, function by function (every case split is on the constructor of the receiver,
           i.e. on the Python class, and on the `allows` tests; `rec` is arbitrary).
   Part B: soundness of the generated dispatch rules proved DIRECTLY (Kleene truth tables of the rules, no reference
           to the hand model): a rewrite of a rule that keeps its meaning keeps this proof.
   Part C: the legacy theorems over py_* . *)
From Coq Require Import NArith List Bool Lia Arith.
From V Require Import Base.Tri Model.Pred Model.NormalForm Gen.NormalFormGen Proofs.NormalFormProofs.
Import ListNotations.

(* ---- Part A: generated = hand ------------------------------------------------------------------------------ *)
Lemma py_allows_eq : forall f i o, py_allows f i o = allows f i o.
Proof. intros [] [] []; reflexivity. Qed.

Lemma py_form_outer_eq : forall f, py_form_outer f = f.
Proof. intros []; reflexivity. Qed.
Lemma py_form_inner_eq : forall f, py_form_inner f = negb f.
Proof. intros []; reflexivity. Qed.

Lemma py_apply_eq : forall o l r, py_apply o l r = WBin l o r.
Proof. reflexivity. Qed.

Lemma py_not_eq : forall w, py_not_ w = not_ w.
Proof. induction w as [a|a|l IHl o r IHr]; cbn [py_not_ not_]; congruence. Qed.

Lemma py_satdisp_eq : forall form l o r, py_satisfiesDispatch form l o r = sat_dispatch form l o r.
Proof.
  intros form l o r.
  destruct l as [a|a|ll lo lr]; destruct r as [b|b|rl ro rr];
    cbv [py_satisfiesDispatch py_satisfiesDispatchAtomic py_satisfiesDispatchBinary sat_dispatch];
    rewrite ?py_allows_eq; try reflexivity;
    repeat match goal with |- context [allows ?f ?i ?o] => destruct (allows f i o) end; reflexivity.
Qed.

Lemma py_satisfies_eq : forall form w, py_satisfies form w = satisfies form w.
Proof.
  intros form w. induction w as [a|a|l IHl o r IHr]; cbn [py_satisfies satisfies]; [reflexivity|reflexivity|].
  (* insensitive to the order of the three conjuncts in the source *)
  rewrite ?IHl, ?IHr, ?py_satdisp_eq.
  destruct (satisfies form l), (satisfies form r), (sat_dispatch form l o r); reflexivity.
Qed.

Ltac split_rec rec :=
  repeat match goal with |- context [rec ?x] => destruct (rec x) end.

Lemma py_dispatch_eq : forall rec form L o R, py_normalizeDispatch rec form L o R = dispatch rec form L o R.
Proof.
  intros rec form L o R.
  destruct L as [a|a|ll lo lr]; destruct R as [b|b|rl ro rr];
    cbv [py_normalizeDispatch py_normalizeDispatchAtomic py_normalizeDispatchBinary dispatch py_apply];
    rewrite ?py_allows_eq; try reflexivity;
    repeat match goal with |- context [allows ?f ?i ?o] => destruct (allows f i o) end;
    try reflexivity; split_rec rec; reflexivity.
Qed.

Lemma dispatch_ext : forall (r1 r2 : wrap -> option wrap) form L o R,
  (forall x, r1 x = r2 x) -> dispatch r1 form L o R = dispatch r2 form L o R.
Proof.
  intros r1 r2 form L o R H.
  destruct L as [a|a|ll lo lr]; destruct R as [b|b|rl ro rr]; cbv [dispatch]; rewrite ?H; reflexivity.
Qed.

Lemma py_normalize_eq : forall fuel form w, py_normalize fuel form w = normalize fuel form w.
Proof.
  induction fuel as [|n IH]; intros form w; [reflexivity|].
  cbn [py_normalize normalize]. destruct w as [a|a|l o r]; cbn [py_normalize_step]; try reflexivity.
  rewrite py_satisfies_eq. destruct (satisfies form (WBin l o r)); [reflexivity|].
  rewrite !IH. destruct (normalize n form l) as [L|]; [|reflexivity].
  destruct (normalize n form r) as [R|]; [|reflexivity].
  rewrite py_dispatch_eq. apply dispatch_ext. intros x. apply IH.
Qed.

Lemma py_flatten_eq : forall op w, py_flatten op w = flatten op w.
Proof.
  intros op w. induction w as [a|a|l IHl o r IHr]; cbn [py_flatten flatten]; [reflexivity|reflexivity|].
  rewrite IHl, IHr. destruct (Bool.eqb op o); reflexivity.
Qed.

Lemma py_wrap_of_eq : forall t, py_wrap_of t = wrap_of t.
Proof.
  induction t as [a|t IH|l IHl o r IHr|t IH]; cbn [py_wrap_of wrap_of].
  - reflexivity.
  - now rewrite IH, py_not_eq.
  - now rewrite IHl, IHr.
  - exact IH.
Qed.

Lemma py_nodes_of_eq : forall form w, py_nodes_of form w = nodes_of form w.
Proof.
  intros form w. unfold py_nodes_of, nodes_of. rewrite py_form_outer_eq, py_form_inner_eq, py_flatten_eq.
  apply map_ext. intros x. now rewrite py_flatten_eq.
Qed.

Lemma py_from_tree_eq : forall fuel form t, py_from_tree fuel form t = from_tree fuel form t.
Proof.
  intros fuel form t. unfold py_from_tree, from_tree. rewrite py_normalize_eq, py_wrap_of_eq.
  destruct (normalize fuel form (wrap_of t)); [|reflexivity]. now rewrite py_nodes_of_eq.
Qed.

(* ---- Part B: the generated rules preserve the Kleene value, directly --------------------------------------- *)
(* every rule is an identity of the Kleene algebra in the values of its (at most four) sub-expressions *)
Ltac kleene_table v :=
  repeat match goal with |- context [weval3 v ?x] => generalize (weval3 v x); intro end;
  repeat match goal with |- context [v ?a] => generalize (v a); intro end;
  repeat match goal with x : bool |- _ => destruct x end;
  repeat match goal with x : tri |- _ => destruct x end;
  intros; try reflexivity; try (exfalso; cbn in *; congruence).

Lemma py_not_sound_direct : forall v w, weval3 v (py_not_ w) = tri_not (weval3 v w).
Proof.
  intros v w. induction w as [a|a|l IHl o r IHr]; cbn [py_not_ weval3].
  - reflexivity.
  - now destruct (v a).
  - rewrite IHl, IHr. kleene_table v.
Qed.

Lemma py_dispatch_sound_direct : forall v rec form L o R w, rec_sound v rec ->
  py_normalizeDispatch rec form L o R = Some w -> weval3 v w = bop3 o (weval3 v L) (weval3 v R).
Proof.
  intros v rec form L o R w HR H.
  destruct L as [a|a|ll lo lr]; destruct R as [b|b|rl ro rr];
    cbv [py_normalizeDispatch py_normalizeDispatchAtomic py_normalizeDispatchBinary py_apply] in H;
    repeat match type of H with
    | (if ?c then _ else _) = Some _ => let A := fresh "A" in destruct c eqn:A
    | match rec ?x with Some _ => _ | None => _ end = Some _ =>
        let E := fresh "E" in destruct (rec x) eqn:E; [apply HR in E|discriminate H]
    end;
    try discriminate H; inversion H; subst; clear H; cbn [weval3] in *;
    repeat match goal with E : weval3 v _ = _ |- _ => rewrite E; clear E end;
    repeat match goal with A : py_allows _ _ _ = _ |- _ => revert A end;
    cbv [py_allows py_form_outer]; kleene_table v.
Qed.

Lemma py_normalize_sound_direct : forall v fuel form w w',
  py_normalize fuel form w = Some w' -> weval3 v w' = weval3 v w.
Proof.
  intros v fuel form. induction fuel as [|n IH]; intros w w' H; [discriminate|].
  cbn [py_normalize] in H. destruct w as [a|a|l o r]; cbn [py_normalize_step] in H; try (inversion H; reflexivity).
  destruct (py_satisfies form (WBin l o r)); [inversion H; reflexivity|].
  destruct (py_normalize n form l) as [L|] eqn:EL; [|discriminate].
  destruct (py_normalize n form r) as [R|] eqn:ER; [|discriminate].
  apply (py_dispatch_sound_direct v) in H; [|exact IH].
  cbn [weval3]. now rewrite H, (IH _ _ EL), (IH _ _ ER).
Qed.

(* ---- Part C: the legacy theorems over the generated definitions --------------------------------------------- *)
Lemma g_wrap_of_sound : forall v t, weval3 v (py_wrap_of t) = leval3 v t.
Proof. intros. rewrite py_wrap_of_eq. apply wrap_of_sound_p. Qed.

Lemma g_normalize_normal : forall fuel form w w', py_normalize fuel form w = Some w' -> py_satisfies form w' = true.
Proof. intros fuel form w w'. rewrite py_normalize_eq, py_satisfies_eq. apply normalize_normal_p. Qed.

Lemma g_normalize_total : forall form w, exists n w', py_normalize n form w = Some w'.
Proof. intros form w. destruct (normalize_total_p form w) as (n & w' & E). exists n, w'. now rewrite py_normalize_eq. Qed.

Lemma g_normalize_mono : forall n m form w w', n <= m -> py_normalize n form w = Some w' -> py_normalize m form w = Some w'.
Proof. intros n m form w w'. rewrite !py_normalize_eq. apply normalize_mono. Qed.

Lemma g_normalize_fixpoint : forall n form w, py_satisfies form w = true -> py_normalize (S n) form w = Some w.
Proof. intros n form w. rewrite py_normalize_eq, py_satisfies_eq. apply normalize_fixpoint_p. Qed.

Lemma g_flatten_sound : forall v op w, fold3 v op (py_flatten op w) = weval3 v w.
Proof. intros. rewrite py_flatten_eq. apply flatten_sound_p. Qed.

Lemma g_from_tree_sound : forall v fuel form t nodes, py_from_tree fuel form t = Some nodes ->
  nodes_eval3 v form nodes = leval3 v t.
Proof. intros v fuel form t nodes. rewrite py_from_tree_eq. apply from_tree_sound_p. Qed.

Lemma g_from_tree_normal : forall fuel form t nodes, py_from_tree fuel form t = Some nodes -> nodes_normal nodes = true.
Proof. intros fuel form t nodes. rewrite py_from_tree_eq. apply from_tree_normal_p. Qed.

Lemma g_from_to_tree_sound : forall v fuel form t nodes t', py_from_tree fuel form t = Some nodes ->
  to_tree form nodes = Some t' -> leval3 v t' = leval3 v t.
Proof. intros v fuel form t nodes t'. rewrite py_from_tree_eq. apply from_to_tree_sound_p. Qed.

Lemma g_from_to_tree_total : forall form t, exists n nodes t',
  py_from_tree n form t = Some nodes /\ to_tree form nodes = Some t'.
Proof.
  intros form t. destruct (from_to_tree_total_p form t) as (n & nodes & t' & E1 & E2).
  exists n, nodes, t'. now rewrite py_from_tree_eq.
Qed.

(* the AssertionError of LogicalBinaryOperation._normalizeDispatchBinary is unreachable: on normalised operands the
   generated dispatch never takes its `else None` branch when the recursive calls return *)
Lemma g_dispatch_no_assert : forall rec form L o R,
  (forall x, exists y, rec x = Some y) -> exists w, py_normalizeDispatch rec form L o R = Some w.
Proof.
  intros rec form L o R T.
  destruct L as [a|a|ll lo lr]; destruct R as [b|b|rl ro rr];
    cbv [py_normalizeDispatch py_normalizeDispatchAtomic py_normalizeDispatchBinary py_apply];
    repeat match goal with
    | |- exists w, (if ?c then _ else _) = Some w => let A := fresh "A" in destruct c eqn:A
    | |- exists w, match rec ?x with Some _ => _ | None => _ end = Some w =>
        let y := fresh "y" in let E := fresh "E" in destruct (T x) as [y E]; rewrite E
    end; eauto.
  (* the remaining goal is the assert branch: its three `allows` facts are contradictory *)
  all: exfalso; repeat match goal with A : py_allows _ _ _ = _ |- _ => revert A end;
    cbv [py_allows py_form_outer]; destruct form, o, lo, ro; discriminate.
Qed.
