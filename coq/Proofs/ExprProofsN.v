(* C05 proofs, part N: a sufficient condition for acceptance by the legacy converter (PredicateConversionVisitor). *)
From Coq Require Import ZArith List Bool String Lia.
From V Require Import Base.Tri Gen.TimespanGen Model.Expr Model.SqlExpr Model.ExprLegacy
  Proofs.ExprProofsA Proofs.ExprProofsB Proofs.ExprProofsL.
Import ListNotations.
Open Scope Z_scope.

(* column expressions without unary minus, `%`, `.begin`, `.end` *)
Fixpoint lplain_s (e : expr) : bool :=
  match e with
  | ELit _ | ECol _ _ => true
  | EArith o a b => (match o with OMod => false | _ => true end) && lplain_s a && lplain_s b
  | _ => false
  end.
Definition lplain_item (it : item) : bool := match it with INull => false | _ => true end.
Fixpoint lplain (e : expr) : bool :=
  match e with
  | ECol _ _ => true
  | ECmp _ a b | EOverlaps a b => lplain_s a && lplain_s b
  | EIn a its _ => lplain_s a && forallb lplain_item its
  | ENot a => lplain a
  | EAnd a b | EOr a b => lplain a && lplain b
  | _ => false
  end.

Lemma erase_dty_of_ty : forall t, erase (dty_of_ty t) = t.
Proof. destruct t; reflexivity. Qed.

Lemma ltype_of_plain : forall e t, typeof e = Some t -> t <> DBool -> lplain_s e = true -> ltype e = lty_of_ty (erase t).
Proof.
  induction e; simpl; intros dt Ht Hnb Hp; try discriminate.
  - destruct v; inversion Ht; subst; reflexivity.
  - inversion Ht; subst. now rewrite erase_dty_of_ty.
  - apply andb_true_iff in Hp as [Hp P2]. apply andb_true_iff in Hp as [Po P1].
    destruct (typeof e1) as [ta|] eqn:T1; [|discriminate]. destruct (typeof e2) as [tb|] eqn:T2; [|dsc].
    destruct (intlike ta && intlike tb) eqn:Ei.
    + apply andb_true_iff in Ei as [Ia Ib].
      assert (Na : ta <> DBool) by (destruct ta; discriminate). assert (Nb : tb <> DBool) by (destruct tb; discriminate).
      rewrite (IHe1 ta eq_refl Na P1), (IHe2 tb eq_refl Nb P2).
      assert (Ea : erase ta = TyInt) by (destruct ta; try discriminate; reflexivity).
      assert (Eb : erase tb = TyInt) by (destruct tb; try discriminate; reflexivity). rewrite Ea, Eb. simpl.
      assert (Ed : erase dt = TyInt).
      { destruct o; try (destruct (dty_eqb ta DInt && dty_eqb tb DInt)); inversion Ht; reflexivity. }
      rewrite Ed. destruct o; try reflexivity. discriminate.
    + destruct (dty_eqb ta DReal && dty_eqb tb DReal) eqn:Er; [|dsc].
      apply andb_true_iff in Er as [Ea Eb]. apply dty_eqb_eq in Ea, Eb. subst.
      rewrite (IHe1 DReal eq_refl ltac:(discriminate) P1), (IHe2 DReal eq_refl ltac:(discriminate) P2). simpl.
      destruct o; inversion Ht; subst; try reflexivity.
Qed.

Lemma lin_item_accepts : forall m ta la it,
  lty_of_ty (erase ta) = Some la -> item_ok ta it = true -> lplain_item it = true -> lin_item m la it <> None.
Proof.
  intros m ta la it Hla Hok Hp. destruct it as [v|c t|s e st|vs|]; simpl in *; try discriminate.
  - apply andb_true_iff in Hok as [E _]. apply ty_eqb_eq in E. rewrite E, Hla.
    destruct la; simpl; discriminate.
  - apply andb_true_iff in Hok as [E _]. apply ty_eqb_eq in E. rewrite E, Hla.
    destruct la; simpl; discriminate.
  - apply andb_true_iff in Hok as [Hok _]. apply andb_true_iff in Hok as [H1 H2].
    apply dty_eqb_eq in H1; subst ta. simpl in Hla. inversion Hla; subst la. simpl. rewrite H2. discriminate.
  - destruct vs as [|v vs]; [discriminate|]. apply andb_true_iff in Hok as [E _].
    assert (F : forallb (fun v0 => match lty_of_ty (ty_of v0) with Some t => lty_eqb t la | None => false end) (v :: vs) = true).
    { rewrite forallb_forall in *. intros x Hx. specialize (E x Hx). apply ty_eqb_eq in E. rewrite E, Hla.
      destruct la; reflexivity. }
    rewrite F. discriminate.
Qed.

Lemma lin_items_accepts : forall m ta la, lty_of_ty (erase ta) = Some la ->
  forall its cl it, forallb (item_ok ta) its = true -> forallb lplain_item its = true -> lin_items m la its cl it <> None.
Proof.
  intros m ta la Hla. induction its as [|i its IH]; intros cl it Hok Hp; simpl in *; [discriminate|].
  apply andb_true_iff in Hok as [O1 O2]. apply andb_true_iff in Hp as [P1 P2].
  pose proof (lin_item_accepts m ta la i Hla O1 P1) as A.
  destruct (lin_item m la i) as [[q|l]|]; [apply IH; assumption | apply IH; assumption | contradiction].
Qed.

(* every documented-well-typed expression without NULL comparisons, NULL items, unary minus, `%`, `.begin`, `.end` is
   accepted by the legacy converter (the refusals of legacy_refuses_* are the only ones on well-typed input, apart from
   NULL comparisons / NULL items, which have their own rules) *)
Lemma lsql_accepts_p : forall e,
  typeof e = Some DBool -> no_null_cmp e = true -> lplain e = true -> lsql e <> None.
Proof.
  induction e; intros Ht Hn Hp; try (simpl in Hp; discriminate Hp).
  - simpl in Ht. destruct t; discriminate.
  - (* ECmp *)
    simpl in Ht, Hn, Hp. apply andb_true_iff in Hn as [N1 N2]. apply negb_true_iff in N1, N2. rewrite N1, N2 in Ht.
    apply andb_true_iff in Hp as [P1 P2].
    destruct (typeof e1) as [ta|] eqn:T1; [|discriminate]. destruct (typeof e2) as [tb|] eqn:T2; [|discriminate].
    destruct (ty_eqb (erase ta) (erase tb) && negb (dty_eqb ta DBool) && negb (dty_eqb ta DSpan)
              && (cop_is_eq o || ordered (erase ta))) eqn:C; [|discriminate].
    apply andb_true_iff in C as [C _]. apply andb_true_iff in C as [C C3]. apply andb_true_iff in C as [C1 C2].
    assert (Na : ta <> DBool) by (intros ->; discriminate).
    assert (Nb : tb <> DBool) by (intros ->; apply ty_eqb_eq in C1; apply erase_bool in C1; contradiction).
    simpl. rewrite (ltype_of_plain e1 ta T1 Na P1), (ltype_of_plain e2 tb T2 Nb P2).
    apply ty_eqb_eq in C1. rewrite <- C1.
    destruct ta; try discriminate; simpl; discriminate.
  - (* EOverlaps *)
    simpl in Ht, Hp. apply andb_true_iff in Hp as [P1 P2].
    destruct (typeof e1) as [ta|] eqn:T1; [|discriminate]. destruct (typeof e2) as [tb|] eqn:T2; [|destruct ta; discriminate].
    assert (Na : ta <> DBool) by (intros ->; discriminate).
    assert (Nb : tb <> DBool) by (intros ->; destruct ta; discriminate).
    simpl. rewrite (ltype_of_plain e1 ta T1 Na P1), (ltype_of_plain e2 tb T2 Nb P2).
    destruct ta; try discriminate; destruct tb; try discriminate; simpl; discriminate.
  - (* EIn *)
    simpl in Ht, Hp. apply andb_true_iff in Hp as [P1 P2].
    destruct (typeof e) as [ta|] eqn:T; [|discriminate].
    destruct (negb (dty_eqb ta DBool) && forallb (item_ok ta) its) eqn:C; [|discriminate].
    apply andb_true_iff in C as [C1 C2].
    assert (Na : ta <> DBool) by (intros ->; discriminate).
    simpl. rewrite (ltype_of_plain e ta T Na P1).
    destruct (lty_of_ty (erase ta)) as [la|] eqn:L; [|destruct ta; try discriminate; contradiction Na; reflexivity].
    pose proof (lin_items_accepts (sc e) ta la L its [] [] C2 P2) as A.
    destruct (lin_items (sc e) la its [] []) as [[cl it]|]; [discriminate|contradiction].
  - simpl in Ht, Hn, Hp. destruct (typeof e) as [[]|] eqn:T; try discriminate.
    simpl. pose proof (IHe eq_refl Hn Hp). destruct (lsql e); [discriminate|contradiction].
  - simpl in Ht, Hn, Hp. apply andb_true_iff in Hn as [N1 N2]. apply andb_true_iff in Hp as [P1 P2].
    destruct (typeof e1) as [[]|] eqn:T1; try discriminate. destruct (typeof e2) as [[]|] eqn:T2; try discriminate.
    simpl. pose proof (IHe1 eq_refl N1 P1). pose proof (IHe2 eq_refl N2 P2).
    destruct (lsql e1); [|contradiction]. destruct (lsql e2); [discriminate|contradiction].
  - simpl in Ht, Hn, Hp. apply andb_true_iff in Hn as [N1 N2]. apply andb_true_iff in Hp as [P1 P2].
    destruct (typeof e1) as [[]|] eqn:T1; try discriminate. destruct (typeof e2) as [[]|] eqn:T2; try discriminate.
    simpl. pose proof (IHe1 eq_refl N1 P1). pose proof (IHe2 eq_refl N2 P2).
    destruct (lsql e1); [|contradiction]. destruct (lsql e2); [discriminate|contradiction].
Qed.
