(* C14 proofs, part 8: LAYER 2 of the string-level round trip -- payload facts.  Syntactic conditions on the payload
   texts (all satisfied by what the lexer itself produces, see the *_out lemmas) that discharge the `reads` /
   `reads_name` hypotheses of ParserProofsShow.lex_show_p, a non-vacuity example using every leaf kind, and the
   end-to-end corollary over parse_string. *)
From Coq Require Import ZArith List Bool String Ascii NArith Arith Lia.
From V Require Import Model.ExprTree Model.Lexer Model.Parser Model.ParserShow Gen.GrammarGen
                      Proofs.LexerProofs Proofs.ParserProofs Proofs.ParserProofs2 Proofs.ParserProofsCanon
                      Proofs.ParserProofsFuel Proofs.ParserProofsX Proofs.ParserProofsShow.
Import ListNotations.
Open Scope list_scope.
Open Scope char_scope.

Ltac bits c := destruct c as [[|] [|] [|] [|] [|] [|] [|] [|]].

(* ------------------------------------------------------------------ character classes *)
Lemma alpha_not c d : is_alpha_ d = false -> is_alpha_ c = true -> c <> d.
Proof. intros H1 H2 ->. congruence. Qed.
Lemma alpha_not_digit c : is_alpha_ c = true -> is_digit c = false.
Proof. intros H. bits c; try reflexivity; discriminate H. Qed.
Lemma alpha_not_ws c : is_alpha_ c = true -> is_ignore c || is_nl c = false.
Proof. intros H. bits c; try reflexivity; discriminate H. Qed.
Lemma alpha_eqb c d : is_alpha_ d = false -> is_alpha_ c = true -> Ascii.eqb c d = false.
Proof. intros H1 H2. destruct (Ascii.eqb_spec c d) as [->|]; [congruence|reflexivity]. Qed.
Lemma alnum_eqb c d : is_alnum_ d = false -> is_alnum_ c = true -> Ascii.eqb c d = false.
Proof. intros H1 H2. destruct (Ascii.eqb_spec c d) as [->|]; [congruence|reflexivity]. Qed.

(* ------------------------------------------------------------------ what may follow an identifier-like text *)
Definition id_next (rest : chars) : Prop :=
  match rest with c :: _ => is_alnum_ c = false /\ c <> "." /\ Ascii.eqb c "'" = false | [] => True end.

Lemma sep_id_next rest : sep rest -> id_next rest.
Proof. intros S. inversion S; simpl; auto; repeat split; auto; discriminate. Qed.
Lemma lp_id_next rest : id_next ("(" :: rest).
Proof. simpl. repeat split; auto; discriminate. Qed.

Definition is_ident (i : chars) : bool :=
  match i with c :: tl => is_alpha_ c && forallb is_alnum_ tl | [] => false end.

Lemma m_ident_out l i r : m_ident l = Some (i, r) -> is_ident i = true.
Proof.
  unfold m_ident. intros H. destruct l as [|c l]; [discriminate|]. destruct (is_alpha_ c) eqn:A; [|discriminate].
  destruct (span is_alnum_ l) as [a b] eqn:E. inversion H; subst. simpl. rewrite A. simpl. eapply span_forall; eauto.
Qed.

Lemma m_ident_in i rest : is_ident i = true ->
  match rest with c :: _ => is_alnum_ c = false | [] => True end -> m_ident (i ++ rest) = Some (i, rest).
Proof.
  intros H N. destruct i as [|c tl]; [discriminate|]. simpl in H. apply andb_true_iff in H. destruct H as [A F].
  cbn [app]. unfold m_ident. rewrite A, (span_all is_alnum_ tl rest F N). reflexivity.
Qed.

Lemma m_time_none_snd c l :
  match l with q :: _ => Ascii.eqb q "'" = false | [] => True end -> m_time (c :: l) = None.
Proof. intros H. unfold m_time. destruct l as [|q l]; [reflexivity|]. bits q; try reflexivity. discriminate H. Qed.

Lemma m_range_none c l : is_digit c = false -> c <> "-" -> m_range (c :: l) = None.
Proof.
  intros D N. unfold m_range. rewrite m_int_eq. destruct (Ascii.eqb_spec c "-") as [->|_]; [congruence|].
  cbn [span]. rewrite D. reflexivity.
Qed.

Lemma m_number_none c l : is_digit c = false -> c <> "." -> m_number (c :: l) = None.
Proof.
  intros D N. unfold m_number. cbn [span]. rewrite D. bits c; try reflexivity. congruence.
Qed.

Lemma m_dot_ident_none (l : chars) : match l with c :: _ => c <> "." | [] => True end -> m_dot_ident l = None.
Proof. intros H. unfold m_dot_ident. destruct l as [|c l]; [reflexivity|]. bits c; try reflexivity. congruence. Qed.

(* at a letter (whose next character is not a quote) only the two identifier rules can match *)
Lemma m_token_alpha c l : is_alpha_ c = true ->
  match l with q :: _ => Ascii.eqb q "'" = false | [] => True end ->
  m_token (c :: l) = match m_qualified (c :: l) with Some x => Some x | None => m_simple (c :: l) end.
Proof.
  intros A Q. unfold m_token.
  rewrite (m_time_none_snd c l Q), (m_string_none c l (alpha_eqb c "'" eq_refl A)).
  rewrite (m_range_none c l (alpha_not_digit c A) (alpha_not c "-" eq_refl A)).
  rewrite (m_number_none c l (alpha_not_digit c A) (alpha_not c "." eq_refl A)).
  unfold orelse. destruct (m_qualified (c :: l)) as [x|]; [reflexivity|].
  unfold m_simple, m_ident. rewrite A. destruct (span is_alnum_ l). reflexivity.
Qed.

(* second character of an identifier-like text followed by id_next is not a quote *)
Lemma ident_snd (c : ascii) tl rest : forallb is_alnum_ tl = true -> id_next rest ->
  match tl ++ rest with q :: _ => Ascii.eqb q "'" = false | [] => True end.
Proof.
  intros F N. destruct tl as [|d tl]; cbn [app].
  - destruct rest as [|q r]; [exact I|]. simpl in N. tauto.
  - simpl in F. apply andb_true_iff in F. destruct F as [F _]. apply alnum_eqb; [reflexivity|exact F].
Qed.

Lemma id_next_alnum rest : id_next rest -> match rest with c :: _ => is_alnum_ c = false | [] => True end.
Proof. destruct rest; simpl; tauto. Qed.
Lemma id_next_dot rest : id_next rest -> match rest with c :: _ => c <> "." | [] => True end.
Proof. destruct rest; simpl; tauto. Qed.

Lemma m_token_ident i rest : is_ident i = true -> id_next rest ->
  m_token (i ++ rest) = Some (classify (string_of_list_ascii i), rest).
Proof.
  intros H N. pose proof (m_ident_in i rest H (id_next_alnum _ N)) as E.
  destruct i as [|c tl]; [discriminate|]. simpl in H. apply andb_true_iff in H. destruct H as [A F].
  cbn [app] in *. rewrite (m_token_alpha c (tl ++ rest) A (ident_snd c tl rest F N)).
  unfold m_qualified, m_simple. rewrite E, (m_dot_ident_none rest (id_next_dot _ N)). reflexivity.
Qed.

Lemma ident_head_ws i rest : is_ident i = true ->
  match i ++ rest with c :: _ => is_ignore c || is_nl c = false | [] => False end.
Proof.
  destruct i as [|c tl]; [discriminate|]. simpl. intros H. apply andb_true_iff in H. destruct H as [A _].
  apply alpha_not_ws. exact A.
Qed.

Lemma is_ident_no_dot i : is_ident i = true -> has_dot (string_of_list_ascii i) = false.
Proof.
  destruct i as [|c tl]; [discriminate|]. simpl is_ident. intros H. apply andb_true_iff in H. destruct H as [A F].
  rewrite has_dot_list. apply alnum_no_dot. simpl. unfold is_alnum_ at 1. rewrite A, F. reflexivity.
Qed.

(* simple identifiers that are not reserved words: Ident leaves, BindName under the faithful printer, function names *)
Definition simple_ok (s : string) : Prop := is_ident (cs s) = true /\ classify s = TId s.

Lemma cs_string s : string_of_list_ascii (cs s) = s.
Proof. apply string_of_list_ascii_of_string. Qed.

Lemma reads_simple s : simple_ok s -> reads (cs s) [TId s].
Proof.
  intros [H C] rest S.
  rewrite (lex_cs_tok' _ _ _ (m_token_ident (cs s) rest H (sep_id_next _ S)) (ident_head_ws _ rest H)).
  rewrite cs_string, C. reflexivity.
Qed.

Lemma reads_ident_simple fixed tshow s : simple_ok s -> reads (show_g fixed tshow (Ident s)) (print_g fixed tshow (Ident s)).
Proof.
  intros H. cbn [show_g print_g]. unfold ident_token.
  destruct H as [H C]. pose proof (is_ident_no_dot _ H) as D. rewrite cs_string in D. rewrite D.
  apply reads_simple. split; assumption.
Qed.

Lemma reads_name_simple f : simple_ok f -> reads_name f.
Proof.
  intros [H C] rest.
  rewrite (lex_cs_tok' _ _ _ (m_token_ident (cs f) ("(" :: rest) H (lp_id_next rest)) (ident_head_ws _ _ H)).
  rewrite cs_string, C, lex_lp. reflexivity.
Qed.

(* bind names *)
Lemma m_token_bind i rest : is_ident i = true -> id_next rest ->
  m_token (":" :: i ++ rest) = Some (TBind (string_of_list_ascii i), rest).
Proof.
  intros H N. unfold m_token. rewrite m_time_none, m_string_none by reflexivity.
  rewrite (m_range_none ":" (i ++ rest)) by (reflexivity || discriminate).
  rewrite (m_number_none ":" (i ++ rest)) by (reflexivity || discriminate).
  assert (Q : m_qualified (":" :: i ++ rest) = None) by reflexivity.
  assert (P : m_simple (":" :: i ++ rest) = None) by reflexivity.
  rewrite Q, P. unfold orelse, m_bind. rewrite (m_ident_in i rest H (id_next_alnum _ N)). reflexivity.
Qed.

Lemma reads_bind (fixed : bool) tshow s :
  (if fixed return Prop then is_ident (cs s) = true else simple_ok s) ->
  reads (show_g fixed tshow (Bind s)) (print_g fixed tshow (Bind s)).
Proof.
  destruct fixed; cbn [show_g print_g]; intros H.
  - intros rest S. cbn [app].
    rewrite (lex_cs_tok ":" _ _ _ eq_refl (m_token_bind (cs s) rest H (sep_id_next _ S))), cs_string. reflexivity.
  - apply reads_simple. exact H.
Qed.

(* quoted bodies: no quote, no newline; any continuation *)
Definition quote_free (b : chars) : bool := forallb (fun c => negb (Ascii.eqb c "'") && negb (is_nl c)) b.

Lemma m_quoted_in b rest : quote_free b = true -> m_quoted (b ++ "'" :: rest) = Some (b, rest).
Proof. intros H. unfold m_quoted. rewrite (span_all _ b ("'" :: rest) H eq_refl). reflexivity. Qed.

Lemma m_quoted_out l b r : m_quoted l = Some (b, r) -> quote_free b = true.
Proof.
  unfold m_quoted. intros H.
  destruct (span (fun c => negb (Ascii.eqb c "'") && negb (is_nl c)) l) as [body r0] eqn:E.
  destruct r0 as [|q r1]; [discriminate|]. bits q; try discriminate H. inversion H; subst.
  eapply span_forall; eauto.
Qed.

Lemma lex_str b rest : quote_free b = true ->
  lex_cs ("'" :: b ++ "'" :: rest) = TStr (string_of_list_ascii b) :: lex_cs rest.
Proof.
  intros H. apply lex_cs_tok; [reflexivity|]. unfold m_token. rewrite m_time_none by reflexivity.
  unfold orelse, m_string. rewrite (m_quoted_in b rest H). reflexivity.
Qed.

Lemma lex_time b rest : quote_free b = true ->
  lex_cs ("T" :: "'" :: b ++ "'" :: rest) = TTime (string_of_list_ascii b) :: lex_cs rest.
Proof.
  intros H. apply lex_cs_tok; [reflexivity|]. unfold m_token, orelse, m_time. cbv iota beta.
  rewrite (m_quoted_in b rest H). reflexivity.
Qed.

Lemma reads_str fixed tshow s : quote_free (cs s) = true ->
  reads (show_g fixed tshow (Str s)) (print_g fixed tshow (Str s)).
Proof.
  intros H rest _. cbn [show_g print_g]. cbn [app]. rewrite <- app_assoc. cbn [app].
  rewrite (lex_str (cs s) rest H), cs_string. reflexivity.
Qed.

Lemma reads_time fixed tshow v : quote_free (cs (tshow v)) = true ->
  reads (show_g fixed tshow (Time v)) (print_g fixed tshow (Time v)).
Proof.
  intros H rest _. cbn [show_g print_g]. destruct fixed; cbn [app]; rewrite <- app_assoc; cbn [app].
  - rewrite (lex_time _ rest H), cs_string. reflexivity.
  - rewrite (lex_str _ rest H), cs_string. reflexivity.
Qed.

(* ------------------------------------------------------------------ numeric texts *)
Definition is_e (c : ascii) : bool := Ascii.eqb c "e" || Ascii.eqb c "E".

Inductive exp_text : chars -> Prop :=
  | exp_none : exp_text []
  | exp_some e sg ds : is_e e = true -> (sg = [] \/ sg = ["-"] \/ sg = ["+"]) -> ds <> [] -> forallb is_digit ds = true ->
      exp_text (e :: sg ++ ds).

(* digits [. digits*] [exp]  |  . digits+ [exp] *)
Inductive num_text : chars -> Prop :=
  | num_int ds ex : ds <> [] -> forallb is_digit ds = true -> exp_text ex -> num_text (ds ++ ex)
  | num_frac ds fs ex : ds <> [] -> forallb is_digit ds = true -> forallb is_digit fs = true -> exp_text ex ->
      num_text (ds ++ "." :: fs ++ ex)
  | num_dot fs ex : fs <> [] -> forallb is_digit fs = true -> exp_text ex -> num_text ("." :: fs ++ ex).

Definition nodd (l : chars) : Prop := forall r, skip_space l <> "." :: "." :: r.

(* what may follow a numeric text *)
Definition num_next (rest : chars) : Prop :=
  not_digit_next rest /\ m_exp rest = ([], rest) /\ match rest with c :: _ => c <> "." | [] => True end /\ nodd rest.

Lemma sep_num_next rest : sep rest -> num_next rest.
Proof.
  intros S. inversion S as [| | |c r H]; subst; unfold num_next, nodd; simpl; repeat split; auto; try discriminate.
  unfold op_start, op_chars in H. simpl in H. intros r0.
  repeat (destruct H as [<-|H]; [discriminate|]). contradiction.
Qed.

Definition sgn_of (l : chars) : chars * chars :=
  match l with "-" :: r' => (["-"], r') | "+" :: r' => (["+"], r') | _ => ([], l) end.
Definition frac_of (r : chars) : chars * chars :=
  match r with "." :: r' => let '(fs, r'') := span is_digit r' in ("." :: fs, r'') | _ => ([], r) end.

Lemma m_exp_eq l :
  m_exp l = match l with
            | e :: r => if is_e e then let '(sg, r1) := sgn_of r in
                          match span is_digit r1 with ([], _) => ([], l) | (ds, r2) => (e :: sg ++ ds, r2) end
                        else ([], l)
            | [] => ([], l)
            end.
Proof. reflexivity. Qed.

Lemma m_number_eq l :
  m_number l = match span is_digit l with
               | (c :: ds, r) => let '(frac, r1) := frac_of r in let '(ex, r2) := m_exp r1 in
                                 Some (TNum (string_of_list_ascii ((c :: ds) ++ frac ++ ex)), r2)
               | ([], _) => match l with
                            | "." :: r => match span is_digit r with
                                          | ([], _) => None
                                          | (fs, r1) => let '(ex, r2) := m_exp r1 in
                                                        Some (TNum (string_of_list_ascii ("." :: fs ++ ex)), r2)
                                          end
                            | _ => None
                            end
               end.
Proof. reflexivity. Qed.

Lemma sgn_digit d l : is_digit d = true -> sgn_of (d :: l) = ([], d :: l).
Proof. intros H. bits d; try discriminate H; reflexivity. Qed.

Lemma frac_none (r : chars) : match r with c :: _ => c <> "." | [] => True end -> frac_of r = ([], r).
Proof. intros H. destruct r as [|c r]; [reflexivity|]. bits c; try reflexivity. congruence. Qed.

Lemma is_e_not_digit e : is_e e = true -> is_digit e = false.
Proof. intros H. bits e; try reflexivity; discriminate H. Qed.
Lemma is_e_not_dot e : is_e e = true -> e <> ".".
Proof. intros H ->. discriminate H. Qed.
Lemma is_e_not_space e : is_e e = true -> is_space e = false.
Proof. intros H. bits e; try reflexivity; discriminate H. Qed.
Lemma digit_not_dot d : is_digit d = true -> d <> ".".
Proof. intros H ->. discriminate H. Qed.

Lemma digits_head ds : ds <> [] -> forallb is_digit ds = true -> exists d tl, ds = d :: tl /\ is_digit d = true.
Proof.
  destruct ds as [|d tl]; [congruence|]. intros _ H. simpl in H. apply andb_true_iff in H. exists d, tl. tauto.
Qed.

Lemma m_exp_in ex rest : exp_text ex -> not_digit_next rest -> m_exp rest = ([], rest) -> m_exp (ex ++ rest) = (ex, rest).
Proof.
  intros X N E0. destruct X as [|e sg ds He Hsg Hne Hds]; [exact E0|].
  destruct (digits_head ds Hne Hds) as (d & tl & -> & Hd).
  rewrite m_exp_eq. cbn [app]. rewrite He.
  assert (SG : sgn_of ((sg ++ d :: tl) ++ rest) = (sg, (d :: tl) ++ rest)).
  { destruct Hsg as [->|[->| ->]]; cbn [app]; [apply sgn_digit; exact Hd|reflexivity|reflexivity]. }
  rewrite SG, (span_all is_digit (d :: tl) rest Hds N). reflexivity.
Qed.

Lemma exp_next ex rest : exp_text ex -> num_next rest ->
  not_digit_next (ex ++ rest) /\ match ex ++ rest with c :: _ => c <> "." | [] => True end /\ nodd (ex ++ rest).
Proof.
  intros X (N1 & N2 & N3 & N4). destruct X as [|e sg ds He _ _ _]; [tauto|]. cbn [app].
  split; [exact (is_e_not_digit e He)|]. split; [exact (is_e_not_dot e He)|].
  intros r. rewrite (skip_space_ns e) by (apply is_e_not_space; exact He). intros E. inversion E; subst. discriminate He.
Qed.

(* the range rule does not fire on [-]digits followed by something that is not ".." *)
Lemma m_range_nodd l a r1 : m_int l = Some (a, r1) -> nodd r1 -> m_range l = None.
Proof.
  intros E D. unfold m_range. rewrite E. unfold nodd in D.
  destruct (skip_space r1) as [|x l'] eqn:K; [reflexivity|].
  destruct (Ascii.eqb_spec x ".") as [->|Nx].
  - destruct l' as [|y r]; [reflexivity|].
    destruct (Ascii.eqb_spec y ".") as [->|Ny]; [exfalso; exact (D r eq_refl)|].
    bits y; try reflexivity; congruence.
  - bits x; try reflexivity; congruence.
Qed.

Lemma nodd_dot l : match l with c :: _ => c <> "." | [] => True end -> nodd ("." :: l).
Proof.
  intros H r. rewrite (skip_space_ns ".") by reflexivity. intros E. inversion E; subst. congruence.
Qed.

Lemma frac_dot X : frac_of ("." :: X) = let '(fs, r'') := span is_digit X in ("." :: fs, r'').
Proof. reflexivity. Qed.
Lemma span_dot X : span is_digit ("." :: X) = ([], "." :: X).
Proof. reflexivity. Qed.

(* a numeric text followed by a separator: the range rule fails (with or without a leading "-"), the number rule
   reads exactly the text *)
Lemma num_text_facts txt rest : num_text txt -> num_next rest ->
  m_range (txt ++ rest) = None /\ m_range ("-" :: txt ++ rest) = None /\
  m_number (txt ++ rest) = Some (TNum (string_of_list_ascii txt), rest) /\
  exists c tl, txt = c :: tl /\ (is_digit c = true \/ c = ".").
Proof.
  intros T NX. pose proof NX as (N1 & N2 & N3 & N4).
  destruct T as [ds ex Hne Hds X | ds fs ex Hne Hds Hfs X | fs ex Hne Hfs X];
    destruct (exp_next ex rest X NX) as (P1 & P2 & P3); pose proof (m_exp_in ex rest X N1 N2) as ME.
  - rewrite <- app_assoc.
    destruct (m_int_value ds (ex ++ rest) Hne Hds P1) as [I1 I2].
    split; [exact (m_range_nodd _ _ _ I1 P3)|]. split; [exact (m_range_nodd _ _ _ I2 P3)|].
    destruct (digits_head ds Hne Hds) as (d & tl & -> & Hd). split; [|exists d, (tl ++ ex); auto].
    rewrite m_number_eq, (span_all is_digit (d :: tl) (ex ++ rest) Hds P1), (frac_none _ P2), ME. reflexivity.
  - rewrite <- app_assoc. cbn [app]. rewrite <- app_assoc.
    assert (Q1 : not_digit_next ("." :: fs ++ ex ++ rest)) by reflexivity.
    assert (HD : match fs ++ ex ++ rest with c :: _ => c <> "." | [] => True end).
    { destruct fs as [|f fs']; [exact P2|]. simpl in Hfs. apply andb_true_iff in Hfs. destruct Hfs as [Hf _].
      cbn [app]. apply digit_not_dot. exact Hf. }
    pose proof (nodd_dot _ HD) as D.
    destruct (m_int_value ds _ Hne Hds Q1) as [I1 I2].
    split; [exact (m_range_nodd _ _ _ I1 D)|]. split; [exact (m_range_nodd _ _ _ I2 D)|].
    destruct (digits_head ds Hne Hds) as (d & tl & -> & Hd). split; [|exists d, (tl ++ "." :: fs ++ ex); auto].
    rewrite m_number_eq, (span_all is_digit (d :: tl) ("." :: fs ++ ex ++ rest) Hds Q1), frac_dot, (span_all is_digit fs (ex ++ rest) Hfs P1), ME.
    reflexivity.
  - cbn [app]. rewrite <- app_assoc.
    split; [apply m_range_none; [reflexivity|discriminate]|]. split; [reflexivity|].
    split; [|exists ".", (fs ++ ex); auto].
    rewrite m_number_eq, span_dot. cbv iota beta. rewrite (span_all is_digit fs (ex ++ rest) Hfs P1), ME.
    destruct fs as [|f fs']; [congruence|reflexivity].
Qed.

Lemma numhead_not_T c : is_digit c = true \/ c = "." -> Ascii.eqb c "T" || Ascii.eqb c "t" = false.
Proof. intros [D| ->]; [|reflexivity]. bits c; try reflexivity; discriminate D. Qed.
Lemma numhead_not_quote c : is_digit c = true \/ c = "." -> Ascii.eqb c "'" = false.
Proof. intros [D| ->]; [|reflexivity]. bits c; try reflexivity; discriminate D. Qed.
Lemma numhead_not_ws c : is_digit c = true \/ c = "." -> is_ignore c || is_nl c = false.
Proof. intros [D| ->]; [|reflexivity]. bits c; try reflexivity; discriminate D. Qed.

Lemma m_token_num txt rest : num_text txt -> num_next rest ->
  m_token (txt ++ rest) = Some (TNum (string_of_list_ascii txt), rest) /\
  m_token ("-" :: txt ++ rest) = Some (TSUB, txt ++ rest) /\
  m_token ("+" :: txt ++ rest) = Some (TADD, txt ++ rest) /\
  match txt ++ rest with c :: _ => is_ignore c || is_nl c = false | [] => False end.
Proof.
  intros T NX. destruct (num_text_facts txt rest T NX) as (R1 & R2 & M & c & tl & E & Hc).
  split; [|split; [|split]].
  - rewrite E in *. cbn [app] in *. unfold m_token.
    rewrite (m_time_none _ _ (numhead_not_T c Hc)), (m_string_none _ _ (numhead_not_quote c Hc)), R1, M. reflexivity.
  - unfold m_token. rewrite m_time_none, m_string_none by reflexivity. rewrite R2.
    rewrite (m_number_none "-" (txt ++ rest)) by (reflexivity || discriminate). reflexivity.
  - unfold m_token. rewrite m_time_none, m_string_none by reflexivity.
    rewrite (m_range_none "+" (txt ++ rest)) by (reflexivity || discriminate).
    rewrite (m_number_none "+" (txt ++ rest)) by (reflexivity || discriminate). reflexivity.
  - rewrite E. cbn [app]. apply numhead_not_ws. exact Hc.
Qed.

Lemma reads_num_text txt : num_text txt -> reads txt [TNum (string_of_list_ascii txt)].
Proof.
  intros T rest S. destruct (m_token_num txt rest T (sep_num_next _ S)) as (E & _ & _ & W).
  rewrite (lex_cs_tok' _ _ _ E W). reflexivity.
Qed.

(* numeric payloads: an optional sign (signed literals occur in IN lists) and a numeric text *)
Definition num_ok (s : string) : Prop :=
  match s with
  | String c r => if Ascii.eqb c "+" || Ascii.eqb c "-" then num_text (cs r) else num_text (cs s)
  | EmptyString => False
  end.

Lemma num_tokens_eq c r :
  num_tokens (String c r) =
  if Ascii.eqb c "+" then [TADD; TNum r] else if Ascii.eqb c "-" then [TSUB; TNum r] else [TNum (String c r)].
Proof. bits c; reflexivity. Qed.

Lemma reads_num fixed tshow s : num_ok s -> reads (show_g fixed tshow (Num s)) (print_g fixed tshow (Num s)).
Proof.
  cbn [show_g print_g]. destruct s as [|c r]; [contradiction|]. rewrite num_tokens_eq. unfold num_ok.
  destruct (Ascii.eqb_spec c "+") as [->|N1].
  - cbn [orb]. intros T rest S. change (cs (String "+" r) ++ rest) with ("+" :: cs r ++ rest).
    destruct (m_token_num _ rest T (sep_num_next _ S)) as (_ & _ & E & _).
    rewrite (lex_cs_tok "+" _ _ _ eq_refl E), (reads_num_text _ T rest S), cs_string. reflexivity.
  - destruct (Ascii.eqb_spec c "-") as [->|N2].
    + cbn [orb]. intros T rest S. change (cs (String "-" r) ++ rest) with ("-" :: cs r ++ rest).
      destruct (m_token_num _ rest T (sep_num_next _ S)) as (_ & E & _ & _).
      rewrite (lex_cs_tok "-" _ _ _ eq_refl E), (reads_num_text _ T rest S), cs_string. reflexivity.
    + cbn [orb]. intros T rest S. rewrite (reads_num_text _ T rest S), cs_string. reflexivity.
Qed.

(* ------------------------------------------------------------------ qualified identifiers *)
Inductive qual_text : chars -> Prop :=
  | qual2 i j : is_ident i = true -> is_ident j = true -> qual_text (i ++ "." :: j)
  | qual3 i j k : is_ident i = true -> is_ident j = true -> is_ident k = true -> qual_text (i ++ "." :: j ++ "." :: k).

Lemma m_dot_ident_in j Y : is_ident j = true -> match Y with c :: _ => is_alnum_ c = false | [] => True end ->
  m_dot_ident ("." :: j ++ Y) = Some ("." :: j, Y).
Proof.
  intros H N.
  change (m_dot_ident ("." :: j ++ Y)) with
    (match m_ident (j ++ Y) with Some (i, r') => Some ("." :: i, r') | None => None end).
  rewrite (m_ident_in j Y H N). reflexivity.
Qed.

Lemma ident_snd' (tl rest : chars) : forallb is_alnum_ tl = true ->
  match rest with q :: _ => Ascii.eqb q "'" = false | [] => True end ->
  match tl ++ rest with q :: _ => Ascii.eqb q "'" = false | [] => True end.
Proof.
  intros F N. destruct tl as [|d tl]; cbn [app]; [exact N|].
  simpl in F. apply andb_true_iff in F. destruct F as [F _]. apply alnum_eqb; [reflexivity|exact F].
Qed.

Lemma m_token_qual txt rest : qual_text txt -> id_next rest ->
  m_token (txt ++ rest) = Some (TQId (string_of_list_ascii txt), rest) /\
  match txt ++ rest with c :: _ => is_ignore c || is_nl c = false | [] => False end.
Proof.
  intros Q N. pose proof (id_next_alnum _ N) as NA. pose proof (m_dot_ident_none rest (id_next_dot _ N)) as ND.
  destruct Q as [i j Hi Hj | i j k Hi Hj Hk].
  - rewrite <- app_assoc. cbn [app]. split; [|apply ident_head_ws; exact Hi].
    pose proof (m_ident_in i ("." :: j ++ rest) Hi eq_refl) as E1.
    pose proof (m_dot_ident_in j rest Hj NA) as E2.
    destruct i as [|c tl]; [discriminate|]. simpl in Hi. apply andb_true_iff in Hi. destruct Hi as [A F].
    cbn [app] in *. rewrite (m_token_alpha c _ A (ident_snd' tl ("." :: j ++ rest) F eq_refl)).
    unfold m_qualified. rewrite E1, E2, ND. reflexivity.
  - rewrite <- app_assoc. cbn [app]. rewrite <- app_assoc. cbn [app]. split; [|apply ident_head_ws; exact Hi].
    pose proof (m_ident_in i ("." :: j ++ "." :: k ++ rest) Hi eq_refl) as E1.
    pose proof (m_dot_ident_in j ("." :: k ++ rest) Hj eq_refl) as E2.
    pose proof (m_dot_ident_in k rest Hk NA) as E3.
    destruct i as [|c tl]; [discriminate|]. simpl in Hi. apply andb_true_iff in Hi. destruct Hi as [A F].
    cbn [app] in *. rewrite (m_token_alpha c _ A (ident_snd' tl ("." :: j ++ "." :: k ++ rest) F eq_refl)).
    unfold m_qualified. rewrite E1, E2, E3. reflexivity.
Qed.

Lemma qual_has_dot txt : qual_text txt -> has_dot (string_of_list_ascii txt) = true.
Proof.
  intros Q. rewrite has_dot_list. destruct Q; rewrite existsb_app; simpl; apply orb_true_r.
Qed.

Lemma reads_ident_qual fixed tshow s : qual_text (cs s) ->
  reads (show_g fixed tshow (Ident s)) (print_g fixed tshow (Ident s)).
Proof.
  intros Q rest S. cbn [show_g print_g]. unfold ident_token.
  pose proof (qual_has_dot _ Q) as D. rewrite cs_string in D. rewrite D.
  destruct (m_token_qual _ rest Q (sep_id_next _ S)) as [E W].
  rewrite (lex_cs_tok' _ _ _ E W), cs_string. reflexivity.
Qed.

(* identifier payloads: a simple identifier that is not a reserved word, or a qualified one *)
Definition ident_ok (s : string) : Prop := simple_ok s \/ qual_text (cs s).

Lemma reads_ident fixed tshow s : ident_ok s -> reads (show_g fixed tshow (Ident s)) (print_g fixed tshow (Ident s)).
Proof. intros [H|H]; [apply reads_ident_simple|apply reads_ident_qual]; exact H. Qed.

(* ------------------------------------------------------------------ payload conditions for a whole tree *)
Section PayloadOk.
  Variable fixed : bool.
  Variable tshow : string -> string.

  Fixpoint payload_ok (t : tree) : Prop :=
    match t with
    | Num s => num_ok s
    | Str s => quote_free (cs s) = true
    | Time v => quote_free (cs (tshow v)) = true
    | Range _ _ _ => True
    | Ident s => ident_ok s
    | Bind s => if fixed return Prop then is_ident (cs s) = true else simple_ok s
    | Unary _ x => payload_ok x
    | Binary l _ r => payload_ok l /\ payload_ok r
    | IsIn l vs _ => payload_ok l /\ all_p payload_ok vs
    | Parens x => payload_ok x
    | Tuple a b | Point a b => payload_ok a /\ payload_ok b
    | Call f args => simple_ok f /\ all_p payload_ok args
    end.

  Lemma all_p_imp (P Q : tree -> Prop) l : Forall (fun t => P t -> Q t) l -> all_p P l -> all_p Q l.
  Proof. induction 1 as [|x r Hx Hr IH]; simpl; [auto|]. intros [A B]. split; auto. Qed.

  Theorem payload_lexable : forall t, payload_ok t -> lexable fixed tshow t.
  Proof.
    induction t using tree_ind2; cbn [payload_ok lexable]; intros P.
    - apply reads_num; exact P.
    - apply reads_str; exact P.
    - apply reads_time; exact P.
    - exact I.
    - apply reads_ident; exact P.
    - apply reads_bind; exact P.
    - auto.
    - destruct P; split; auto.
    - destruct P as [P1 P2]; split; auto. eapply all_p_imp; eauto.
    - auto.
    - destruct P; split; auto.
    - destruct P; split; auto.
    - destruct P as [P1 P2]; split; [apply reads_name_simple; exact P1|]. eapply all_p_imp; eauto.
  Qed.

  (* the string-level round trip from syntactic conditions on the payloads only *)
  Theorem lex_show_payload_p : forall t, payload_ok t -> range_ok t = true ->
    lex (string_of_list_ascii (show_g fixed tshow t)) = print_g fixed tshow t.
  Proof. intros t P R. apply lex_show_string; [apply payload_lexable; exact P|exact R]. Qed.
End PayloadOk.

(* ------------------------------------------------------------------ end-to-end corollary over parse_string *)
(* (the payload conditions and range_ok are hypotheses here: that every tree the parser returns satisfies them needs a
   "leaves come from lexer tokens" induction over the parser, which is not done; the lexer side is below, *_out) *)
Theorem reparse_show_p : forall tv tun, tun_inverts tv tun -> forall s t,
  parse_string tv s = POk (Some t) -> payload_ok true tun t -> range_ok t = true ->
  parse_string tv (string_of_list_ascii (show_fix tun t)) = POk (Some t).
Proof.
  intros tv tun TI s t P PO R. unfold parse_string at 1. unfold show_fix.
  rewrite (lex_show_payload_p true tun t PO R). exact (reparse_string_p tv tun TI s t P).
Qed.

Theorem reparse_show_partial_p : forall tv tun tshow, tun_inverts tv tun -> forall s t,
  parse_string tv s = POk (Some t) -> plain t = true -> payload_ok false tshow t -> range_ok t = true ->
  parse_string tv (string_of_list_ascii (show tshow t)) = POk (Some t).
Proof.
  intros tv tun tshow TI s t P PL PO R. unfold parse_string at 1. unfold show.
  rewrite (lex_show_payload_p false tshow t PO R). exact (reparse_string_partial_p tv tun TI tshow s t P PL).
Qed.

(* ------------------------------------------------------------------ non-vacuity: every leaf kind *)
Definition ex_tshow (v : string) : string := "2020-01-01T00:00:00"%string.
Definition ex_tree : tree :=
  IsIn (Binary (Ident "a.b.c") BAdd (Unary UMinus (Num "1.5e3")))
       [Num "-1"; Range 2 5 (Some 3%Z); Range (-10) (-1) None; Str "x y"; Bind "x"; Ident "c"; Time "v"; Num ".5E-2";
        Call "f" [Num "1"; Ident "t.u"]] true.

Lemma ex_exp1 : exp_text ["e"; "3"].
Proof. exact (exp_some "e" [] ["3"] eq_refl (or_introl eq_refl) ltac:(discriminate) eq_refl). Qed.
Lemma ex_exp2 : exp_text ["E"; "-"; "2"].
Proof. exact (exp_some "E" ["-"] ["2"] eq_refl (or_intror (or_introl eq_refl)) ltac:(discriminate) eq_refl). Qed.

Example ex_payload_ok : forall fixed, payload_ok fixed ex_tshow ex_tree.
Proof.
  intros fixed. cbn [ex_tree payload_ok all_p]. repeat split; try exact I; try reflexivity.
  - right. exact (qual3 ["a"] ["b"] ["c"] eq_refl eq_refl eq_refl).
  - exact (num_frac ["1"] ["5"] _ ltac:(discriminate) eq_refl eq_refl ex_exp1).
  - exact (num_int ["1"] [] ltac:(discriminate) eq_refl exp_none).
  - destruct fixed; [reflexivity|split; reflexivity].
  - left. split; reflexivity.
  - exact (num_dot ["5"] _ ltac:(discriminate) eq_refl ex_exp2).
  - exact (num_int ["1"] [] ltac:(discriminate) eq_refl exp_none).
  - right. exact (qual2 ["t"] ["u"] eq_refl eq_refl).
Qed.

Example ex_lexable : forall fixed, lexable fixed ex_tshow ex_tree.
Proof. intros fixed. apply payload_lexable, ex_payload_ok. Qed.

Example ex_round_trip : forall fixed,
  lex (string_of_list_ascii (show_g fixed ex_tshow ex_tree)) = print_g fixed ex_tshow ex_tree.
Proof. intros fixed. apply lex_show_payload_p; [apply ex_payload_ok|reflexivity]. Qed.

(* the same by evaluation, and the printed text itself *)
Example ex_round_trip_eval :
  string_of_list_ascii (show_fix ex_tshow ex_tree) =
    "a.b.c + - 1.5e3 NOT IN (-1, 2..5:3, -10..-1, 'x y', :x, c, T'2020-01-01T00:00:00', .5E-2, f(1, t.u))"%string /\
  lex_cs (show_fix ex_tshow ex_tree) = print_fix ex_tshow ex_tree /\
  lex_cs (show ex_tshow ex_tree) = print ex_tshow ex_tree.
Proof. vm_compute. repeat split. Qed.

(* ------------------------------------------------------------------ what the lexer produces satisfies the payload conditions *)
Lemma cs_of_list l : cs (string_of_list_ascii l) = l.
Proof. apply list_ascii_of_string_of_list_ascii. Qed.

Lemma m_exp_out l ex r : m_exp l = (ex, r) -> exp_text ex.
Proof.
  rewrite m_exp_eq. destruct l as [|e r0]; [inversion 1; constructor|].
  destruct (is_e e) eqn:He; [|inversion 1; constructor].
  destruct (sgn_of r0) as [sg r1] eqn:SG.
  assert (Hsg : sg = [] \/ sg = ["-"] \/ sg = ["+"]).
  { unfold sgn_of in SG. destruct r0 as [|a r']; [inversion SG; auto|]. bits a; inversion SG; auto. }
  destruct (span is_digit r1) as [[|d ds] r2] eqn:E; inversion 1; subst; [constructor|].
  apply exp_some; auto; [discriminate|eapply span_forall; eauto].
Qed.

Lemma m_number_out l s r : m_number l = Some (TNum s, r) -> num_text (cs s).
Proof.
  rewrite m_number_eq. intros H. destruct (span is_digit l) as [[|c ds] r0] eqn:E.
  - destruct l as [|d l']; [discriminate|].
    assert (D : d = "."). { bits d; try discriminate H; reflexivity. } subst d. cbv iota beta in H.
    destruct (span is_digit l') as [[|f fs] r1] eqn:E1; [discriminate|].
    destruct (m_exp r1) as [ex r2] eqn:E2. injection H as <- <-.
    assert (G : forall txt, num_text txt -> num_text (cs (string_of_list_ascii txt)))
      by (intros txt T; rewrite cs_of_list; exact T).
    apply (G ("." :: (f :: fs) ++ ex)).
    apply num_dot; [discriminate|eapply span_forall; eauto|eapply m_exp_out; eauto].
  - pose proof (span_forall _ _ _ _ E) as Hds.
    destruct (frac_of r0) as [frac r1] eqn:F. destruct (m_exp r1) as [ex r2] eqn:E2.
    pose proof (m_exp_out _ _ _ E2) as X. injection H as <- <-.
    assert (G : forall txt, num_text txt -> num_text (cs (string_of_list_ascii txt)))
      by (intros txt T; rewrite cs_of_list; exact T).
    apply (G ((c :: ds) ++ frac ++ ex)).
    unfold frac_of in F. destruct r0 as [|x r']; [inversion F; apply num_int; auto; discriminate|].
    destruct (Ascii.eqb_spec x ".") as [->|Nx].
    + cbv iota beta in F. destruct (span is_digit r') as [fs r''] eqn:E3. inversion F; subst.
      apply num_frac; auto; [discriminate|eapply span_forall; eauto].
    + assert (frac = []) by (bits x; try (inversion F; reflexivity); congruence). subst frac.
      apply num_int; auto; discriminate.
Qed.

Lemma m_dot_ident_out l d r : m_dot_ident l = Some (d, r) -> exists j, d = "." :: j /\ is_ident j = true.
Proof.
  unfold m_dot_ident. intros H. destruct l as [|c l]; [discriminate|].
  destruct (m_ident l) as [[j r']|] eqn:E; [|bits c; discriminate H].
  bits c; try discriminate H. inversion H; subst. exists j. split; [reflexivity|eapply m_ident_out; eauto].
Qed.

Lemma m_qualified_out l s r : m_qualified l = Some (TQId s, r) -> qual_text (cs s).
Proof.
  unfold m_qualified. intros H. destruct (m_ident l) as [[i r0]|] eqn:E0; [|discriminate].
  apply m_ident_out in E0. destruct (m_dot_ident r0) as [[d1 r1]|] eqn:E1; [|discriminate].
  apply m_dot_ident_out in E1. destruct E1 as (j & -> & Hj).
  destruct (m_dot_ident r1) as [[d2 r2]|] eqn:E2.
  - apply m_dot_ident_out in E2. destruct E2 as (k & -> & Hk). injection H as <- <-. rewrite cs_of_list.
    change (i ++ ("." :: j) ++ "." :: k) with (i ++ "." :: j ++ "." :: k). apply qual3; assumption.
  - injection H as <- <-. rewrite cs_of_list. apply qual2; assumption.
Qed.

Lemma classify_id x s : classify x = TId s -> s = x.
Proof.
  rewrite classify_spec_p.
  repeat match goal with |- context [String.eqb ?a ?b] => destruct (String.eqb a b); try discriminate end.
  intros H. inversion H. reflexivity.
Qed.

(* payload condition per token *)
Definition tok_ok (t : token) : Prop :=
  match t with
  | TNum s => num_text (cs s)
  | TStr s | TTime s => quote_free (cs s) = true
  | TQId s => qual_text (cs s)
  | TId s => simple_ok s
  | TBind s => is_ident (cs s) = true
  | _ => True
  end.

Lemma m_token_ok l t r : m_token l = Some (t, r) -> tok_ok t.
Proof.
  unfold m_token, orelse. intros H.
  destruct (m_time l) as [[t0 r0]|] eqn:E1.
  { inversion H; subst. unfold m_time in E1. destruct l as [|c [|q l]]; try discriminate.
    destruct (m_quoted l) as [[b r']|] eqn:E.
    - apply m_quoted_out in E. bits q; try discriminate E1.
      destruct (Ascii.eqb c "T" || Ascii.eqb c "t"); [|discriminate]. inversion E1; subst. simpl. rewrite cs_of_list. exact E.
    - bits q; try discriminate E1. destruct (Ascii.eqb c "T" || Ascii.eqb c "t"); discriminate. }
  destruct (m_string l) as [[t0 r0]|] eqn:E2.
  { inversion H; subst. unfold m_string in E2. destruct l as [|c l]; [discriminate|].
    destruct (m_quoted l) as [[b r']|] eqn:E.
    - apply m_quoted_out in E. bits c; try discriminate E2. inversion E2; subst. simpl. rewrite cs_of_list. exact E.
    - bits c; discriminate E2. }
  destruct (m_range l) as [[t0 r0]|] eqn:E3.
  { inversion H; subst. unfold m_range in E3.
    repeat match type of E3 with context [match ?x with _ => _ end] => destruct x eqn:?; try discriminate E3 end.
    inversion E3; subst. exact I. }
  destruct (m_number l) as [[t0 r0]|] eqn:E4.
  { inversion H; subst. assert (exists s, t = TNum s) as [s ->].
    { pose proof E4 as E4'. rewrite m_number_eq in E4'.
      repeat match type of E4' with context [match ?x with _ => _ end] => destruct x eqn:?; try discriminate E4' end;
        inversion E4'; eexists; reflexivity. }
    simpl. eapply m_number_out; eauto. }
  destruct (m_qualified l) as [[t0 r0]|] eqn:E5.
  { inversion H; subst. assert (exists s, t = TQId s) as [s ->].
    { pose proof E5 as E5'. unfold m_qualified in E5'.
      repeat match type of E5' with context [match ?x with _ => _ end] => destruct x eqn:?; try discriminate E5' end;
        inversion E5'; eexists; reflexivity. }
    simpl. eapply m_qualified_out; eauto. }
  destruct (m_simple l) as [[t0 r0]|] eqn:E6.
  { inversion H; subst. unfold m_simple in E6. destruct (m_ident l) as [[i r']|] eqn:E; [|discriminate].
    apply m_ident_out in E. inversion E6; subst.
    pose proof (classify_spec_p (string_of_list_ascii i)) as C.
    repeat match type of C with context [String.eqb ?a ?b] => destruct (String.eqb a b) end;
      rewrite C; try exact I.
    simpl. split; [rewrite cs_of_list; exact E|exact C]. }
  destruct (m_bind l) as [[t0 r0]|] eqn:E7.
  { inversion H; subst. unfold m_bind in E7. destruct l as [|c l]; [discriminate|].
    destruct (m_ident l) as [[i r']|] eqn:E; [|bits c; discriminate E7].
    apply m_ident_out in E. bits c; try discriminate E7. inversion E7; subst. simpl. rewrite cs_of_list. exact E. }
  unfold m_op in H.
  repeat match type of H with context [match ?x with _ => _ end] => destruct x eqn:?; try discriminate H end;
    inversion H; exact I.
Qed.

(* every token of every lexed string has a payload that show / lex reproduce *)
Theorem lex_chars_tok_ok : forall fuel l, Forall tok_ok (lex_chars fuel l).
Proof.
  induction fuel as [|f IH]; intros l; [repeat constructor|].
  rewrite lex_chars_S. destruct l as [|c r]; [constructor|].
  destruct (is_ignore c || is_nl c); [apply IH|].
  destruct (m_token (c :: r)) as [[t r']|] eqn:E; [|repeat constructor].
  constructor; [eapply m_token_ok; eauto|apply IH].
Qed.

Theorem lex_tok_ok : forall s, Forall tok_ok (lex s).
Proof. intros s. unfold lex. apply lex_chars_tok_ok. Qed.
