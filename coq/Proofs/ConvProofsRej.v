(* C14 proofs, conversion layer (wave 6), the REFUSING direction: on every tree inside the modelled fragment (`supported`: no
   POINT node, no identifier outside C05's column types, IN items of the shapes the grammar builds) the regenerated visitor
   (Gen/ConvGen.v folded by ConvVisit.visit) never crashes, and where the hand model `of_tree` says "InvalidQueryError is certain"
   (TRej) the visitor raises InvalidQueryError or returns a _RangeLiteral / _Sequence, which every consumer and the top level
   refuse.  With ConvProofs.gen_conv_agrees_p this makes the hand model's verdict equal to the regenerated visitor's on the whole
   fragment. *)
From Coq Require Import ZArith List Bool String Ascii NArith Lia.
From V Require Import Base.Tri Gen.TimespanGen Model.Expr Model.SqlExpr Model.Lexer Model.ExprTree Model.Parser Model.ParserConv
  Model.ConvPrims Gen.ConvGen Model.ConvVisit Proofs.ParserProofs Proofs.ConvProofs.
Import ListNotations.
Open Scope string_scope.

Inductive refusing : ConvPrims.res vres -> Prop :=
  | rf_inv : refusing Invalid
  | rf_range a b st : refusing (Ok (XRange a b st))
  | rf_seq vs : refusing (Ok (XSeq vs)).

Definition nocrash {A} (k : ConvPrims.res A) : Prop := k = Invalid \/ exists v, k = Ok v.

Lemma rep_nocrash : forall e, nocrash (rep e).
Proof.
  intros e. unfold nocrash, rep. destruct e; try (right; eexists; reflexivity);
    destruct (conv _); try (right; eexists; reflexivity); destruct (ctype _); eauto.
Qed.

Lemma refusing_nocrash : forall r, refusing r -> nocrash r.
Proof. intros r H. inversion H; unfold nocrash; eauto. Qed.

Lemma un_refusing : forall r o, refusing r -> rbind r (gen_visitUnaryOp o) = Invalid.
Proof. intros r o H. inversion H; subst; simpl; destruct o; reflexivity. Qed.

Lemma bin_refusing_l : forall r o k, refusing r -> nocrash k ->
  rbind r (fun a => rbind k (fun b => gen_visitBinaryOp o a b)) = Invalid.
Proof.
  intros r o k H [K|[v K]]; subst; inversion H; subst; simpl; try reflexivity; destruct o, v; reflexivity.
Qed.

Lemma bin_refusing_r : forall r o a, refusing r -> rbind r (fun b => gen_visitBinaryOp o a b) = Invalid.
Proof. intros r o a H. inversion H; subst; simpl; try reflexivity; destruct o, a; reflexivity. Qed.

Lemma uplus_rej : forall e, (forall t, ctype e = Some t -> numeric t = false) -> rbind (rep e) (gen_visitUnaryOp UPlus) = Invalid.
Proof.
  intros e H.
  destruct (classify_expr e) as [?|ca ?|fa Na Ca Ta Ga Oa|ta Na Ca Ta|Na Ca Ta Oa]; subst; try reflexivity.
  - rewrite (rep_pred _ _ Na Ca). reflexivity.
  - rewrite (rep_col _ _ Na Ca Ta). simpl. unfold ctype_in. rewrite Ta. specialize (H ta Ta). destruct ta; try discriminate H; reflexivity.
  - rewrite (rep_bad _ Na Ca Ta). reflexivity.
Qed.

Lemma tb_nocrash : forall r, nocrash (gen_to_timespan_bound r).
Proof. intros r. unfold nocrash. destruct r; simpl; eauto. destruct (is_time_lit e); eauto. Qed.

Lemma tb_rep : forall e open, span_bound open e = None -> rbind (rep e) gen_to_timespan_bound = Invalid.
Proof.
  intros e open H.
  destruct (classify_expr e) as [?|ca ?|fa Na Ca Ta Ga Oa|ta Na Ca Ta|Na Ca Ta Oa]; subst; try discriminate H; try reflexivity.
  - rewrite (rep_pred _ _ Na Ca). reflexivity.
  - rewrite (rep_col _ _ Na Ca Ta). simpl. destruct e; try reflexivity. destruct v; try reflexivity. discriminate H.
  - rewrite (rep_bad _ Na Ca Ta). reflexivity.
Qed.

Lemma tuple_node : forall ra rb,
  gen_visitTupleNode [ra; rb] =
  rbind (gen_to_timespan_bound ra) (fun b => rbind (gen_to_timespan_bound rb) (fun e => Ok (XCol (ELit (mk_timespan b e))))).
Proof. reflexivity. Qed.

Lemma tuple_rej : forall ea eb, span_bound GEN_MIN ea = None \/ span_bound GEN_MAX eb = None ->
  rbind (rep ea) (fun ra => rbind (rep eb) (fun rb => gen_visitTupleNode [ra; rb])) = Invalid.
Proof.
  intros ea eb H.
  destruct (rep_nocrash ea) as [A|[ra A]]; rewrite A; [reflexivity|]. simpl.
  destruct (rep_nocrash eb) as [B|[rb B]]; rewrite B; [reflexivity|]. simpl. rewrite tuple_node.
  destruct H as [H|H].
  - pose proof (tb_rep ea _ H) as T. rewrite A in T. simpl in T. rewrite T. reflexivity.
  - pose proof (tb_rep eb _ H) as T. rewrite B in T. simpl in T. rewrite T.
    destruct (tb_nocrash ra) as [C|[v C]]; rewrite C; reflexivity.
Qed.

Lemma tuple_refusing_l : forall r k, refusing r -> nocrash k -> rbind r (fun ra => rbind k (fun rb => gen_visitTupleNode [ra; rb])) = Invalid.
Proof. intros r k H [K|[v K]]; subst; inversion H; subst; reflexivity. Qed.

Lemma tuple_refusing_r : forall r ra, refusing r -> rbind r (fun rb => gen_visitTupleNode [ra; rb]) = Invalid.
Proof.
  intros r ra H. inversion H; subst; simpl; try reflexivity; rewrite tuple_node;
    destruct (tb_nocrash ra) as [C|[v C]]; rewrite C; reflexivity.
Qed.

Section Rej.
  Variable res : string -> option rid.
  Variable bound : string -> bool.
  Variable tns : string -> Z.
  Hypothesis res_wf : forall n b, res n <> Some (RLit (VBool b)).
  Notation oft := (of_tree res bound tns).
  Notation vis := (visit res bound tns).

  Definition rid_supported (r : option rid) : bool := match r with Some ROther => false | _ => true end.
  Definition rid_item_supported (r : option rid) : bool :=
    match r with Some ROther | Some (RBegin _) | Some (REnd _) => false | _ => true end.
  (* the IN items the grammar builds: literal | identifier | bind name *)
  Definition item_shape (t : tree) : bool :=
    match t with
    | Num _ | Str _ | Time _ | Range _ _ _ => true
    | Ident s => rid_item_supported (lookup_ident res s)
    | Bind s => rid_item_supported (lookup_bind res bound s)
    | _ => false
    end.
  Fixpoint supported (t : tree) : bool :=
    match t with
    | Num _ | Str _ | Time _ | Range _ _ _ => true
    | Ident s => rid_supported (lookup_ident res s)
    | Bind s => rid_supported (lookup_bind res bound s)
    | Unary _ x | Parens x => supported x
    | Binary l _ r | Tuple l r => supported l && supported r
    | IsIn l vs _ => supported l && forallb item_shape vs
    | Point _ _ => false
    | Call _ args => forallb supported args
    end.

  Definition outcome (t : tree) : Prop :=
    match oft t with
    | TConv e => vis t = rep e
    | TRej => refusing (vis t)
    | TUnsup => False
    end.

  Lemma outcome_nocrash : forall t, outcome t -> nocrash (vis t).
  Proof.
    intros t. unfold outcome. destruct (oft t) as [e| |]; intros H; [rewrite H; apply rep_nocrash | apply refusing_nocrash; exact H | contradiction].
  Qed.

  Lemma rid_total : forall r, rid_supported r = true ->
    match of_rid r with TConv _ => True | TRej => refusing (vres_of_rid r) | TUnsup => False end.
  Proof. intros [[c t| | | | | |]|] H; simpl in *; try exact I; try constructor. discriminate H. Qed.

  Lemma item_total : forall v, item_shape v = true ->
    match of_item res bound tns v with
    | IOk it => vis v = Ok (item_vres it)
    | IRej => vis v = Invalid
    | IUnsup => False
    end.
  Proof.
    intros v H. destruct (of_item res bound tns v) as [it| |] eqn:O.
    - apply (item_ok res bound tns v it O).
    - destruct v; simpl in H, O; try discriminate H; try discriminate O.
      + simpl. unfold ident. fold (lookup_ident res s). destruct (lookup_ident res s) as [[]|]; simpl in O; try discriminate O. reflexivity.
      + simpl. rewrite bind_ok. destruct (lookup_bind res bound s) as [[]|]; simpl in O; try discriminate O. reflexivity.
    - destruct v; simpl in H, O; try discriminate H; try discriminate O.
      + destruct (lookup_ident res s) as [[]|]; simpl in O, H; try discriminate O; discriminate H.
      + destruct (lookup_bind res bound s) as [[]|]; simpl in O, H; try discriminate O; discriminate H.
  Qed.

  Lemma items_total : forall vs, forallb item_shape vs = true ->
    match of_items res bound tns vs with
    | Some (Some its) => vlist res bound tns vs = Ok (map item_vres its)
    | None => vlist res bound tns vs = Invalid
    | Some None => False
    end.
  Proof.
    induction vs as [|v vs IH]; simpl; intros H; [reflexivity|].
    apply andb_true_iff in H. destruct H as [Hv Hr]. pose proof (item_total v Hv) as I. specialize (IH Hr).
    destruct (of_item res bound tns v) as [it| |]; [|rewrite I; reflexivity|contradiction].
    rewrite I. simpl. destruct (of_items res bound tns vs) as [[its|]|]; [|contradiction|]; rewrite IH; reflexivity.
  Qed.

  Lemma vlist_nocrash : forall ts, Forall (fun t => supported t = true -> outcome t) ts -> forallb supported ts = true ->
    nocrash (vlist res bound tns ts).
  Proof.
    induction ts as [|t ts IH]; intros F S; simpl; [right; eexists; reflexivity|].
    inversion F as [|? ? Ft Fr]; subst. simpl in S. apply andb_true_iff in S. destruct S as [St Sr].
    destruct (outcome_nocrash t (Ft St)) as [A|[v A]]; rewrite A; simpl; [left; reflexivity|].
    destruct (IH Fr Sr) as [B|[w B]]; rewrite B; simpl; [left; reflexivity | right; eexists; reflexivity].
  Qed.

  Lemma rbind_parens : forall r, rbind r gen_visitParens = r.
  Proof. intros [v| |]; reflexivity. Qed.

  Theorem visit_total_p : forall t, supported t = true -> outcome t.
  Proof.
    intros t. induction t using tree_ind2; intros S; unfold outcome;
      match goal with |- match oft ?x with _ => _ end => destruct (oft x) as [e| |] eqn:O end;
      try (apply (gen_conv_agrees_p res bound tns res_wf _ _ O)).
    all: try (simpl in O; discriminate O).
    - (* Range *) simpl. constructor.
    - (* Ident *) simpl in *. unfold ident. fold (lookup_ident res s). pose proof (rid_total _ S) as R. fold (lookup_ident res s) in O. rewrite O in R. exact R.
    - simpl in *. fold (lookup_ident res s) in O. pose proof (rid_total _ S) as R. rewrite O in R. exact R.
    - (* Bind *) simpl in *. rewrite bind_ok. pose proof (rid_total _ S) as R. rewrite O in R. exact R.
    - simpl in *. pose proof (rid_total _ S) as R. rewrite O in R. exact R.
    - (* Unary, TRej *) simpl in S, O. specialize (IHt S). unfold outcome in IHt.
      change (vis (Unary o t)) with (rbind (vis t) (gen_visitUnaryOp o)).
      destruct (oft t) as [e0| |] eqn:O0; [|rewrite (un_refusing _ _ IHt); constructor|contradiction].
      rewrite IHt. destruct o; simpl in O; try discriminate O.
      rewrite uplus_rej; [constructor|]. intros ty T. rewrite T in O. destruct (numeric ty); [discriminate O|reflexivity].
    - (* Unary, TUnsup *) simpl in S, O. specialize (IHt S). unfold outcome in IHt.
      destruct (oft t) as [e0| |] eqn:O0; [|destruct o; simpl in O; discriminate O|contradiction].
      destruct o; simpl in O; try discriminate O. destruct (ctype e0) as [ty|]; [destruct (numeric ty)|]; discriminate O.
    - (* Binary, TRej *) simpl in S, O. apply andb_true_iff in S. destruct S as [S1 S2].
      pose proof (IHt1 S1) as I1. pose proof (IHt2 S2) as I2. pose proof (outcome_nocrash _ I2) as N2. unfold outcome in I1, I2. simpl.
      destruct (oft t1) as [a| |] eqn:O1; [|rewrite (bin_refusing_l _ _ _ I1 N2); constructor|contradiction].
      destruct (oft t2) as [b| |] eqn:O2; [simpl in O; discriminate O| |contradiction].
      rewrite I1. destruct (rep_nocrash a) as [A|[ra A]]; rewrite A; simpl; [constructor|].
      rewrite (bin_refusing_r _ _ ra I2). constructor.
    - (* Binary, TUnsup *) simpl in S, O. apply andb_true_iff in S. destruct S as [S1 S2].
      pose proof (IHt1 S1) as I1. pose proof (IHt2 S2) as I2. unfold outcome in I1, I2.
      destruct (oft t1) as [a| |]; [|simpl in O; discriminate O|contradiction].
      destruct (oft t2) as [b| |]; [simpl in O; discriminate O|simpl in O; discriminate O|contradiction].
    - (* IsIn, TRej *) simpl in S, O. apply andb_true_iff in S. destruct S as [S1 S2].
      pose proof (IHt S1) as I1. pose proof (items_total vs S2) as IT. unfold outcome in I1.
      change (vis (IsIn t vs neg)) with (rbind (vis t) (fun a => rbind (vlist res bound tns vs) (fun rs => gen_visitIsIn a rs neg))).
      assert (NV : nocrash (vlist res bound tns vs)).
      { destruct (of_items res bound tns vs) as [[its|]|]; [right; eexists; exact IT | contradiction | left; exact IT]. }
      destruct (oft t) as [a| |] eqn:O1; [| |contradiction].
      + simpl in O. destruct (of_items res bound tns vs) as [[its|]|]; try discriminate O. rewrite I1, IT.
        destruct (rep_nocrash a) as [A|[ra A]]; rewrite A; simpl; constructor.
      + inversion I1 as [E|a0 b0 st0 E|vs0 E]; simpl; try constructor;
          destruct NV as [B|[w B]]; rewrite B; simpl; constructor.
    - (* IsIn, TUnsup *) simpl in S, O. apply andb_true_iff in S. destruct S as [S1 S2].
      pose proof (IHt S1) as I1. pose proof (items_total vs S2) as IT. unfold outcome in I1.
      destruct (oft t) as [a| |]; [|simpl in O; discriminate O|contradiction]. simpl in O.
      destruct (of_items res bound tns vs) as [[its|]|]; try discriminate O. contradiction.
    - (* Parens *) simpl in S, O. specialize (IHt S). unfold outcome in IHt. rewrite O in IHt. simpl. rewrite rbind_parens. exact IHt.
    - simpl in S, O. specialize (IHt S). unfold outcome in IHt. rewrite O in IHt. exact IHt.
    - (* Tuple, TRej *) simpl in S, O. apply andb_true_iff in S. destruct S as [S1 S2].
      pose proof (IHt1 S1) as I1. pose proof (IHt2 S2) as I2. pose proof (outcome_nocrash _ I2) as N2. unfold outcome in I1, I2. simpl.
      destruct (oft t1) as [a| |] eqn:O1; [|rewrite (tuple_refusing_l _ _ I1 N2); constructor|contradiction].
      destruct (oft t2) as [b| |] eqn:O2; [| |contradiction].
      + rewrite I1, I2. rewrite tuple_rej; [constructor|]. simpl in O.
        destruct (span_bound GEN_MIN a); [|left; reflexivity]. destruct (span_bound GEN_MAX b); [discriminate O|right; reflexivity].
      + rewrite I1. destruct (rep_nocrash a) as [A|[ra A]]; rewrite A; simpl; [constructor|].
        rewrite (tuple_refusing_r _ ra I2). constructor.
    - (* Tuple, TUnsup *) simpl in S, O. apply andb_true_iff in S. destruct S as [S1 S2].
      pose proof (IHt1 S1) as I1. pose proof (IHt2 S2) as I2. unfold outcome in I1, I2.
      destruct (oft t1) as [a| |]; [|simpl in O; discriminate O|contradiction].
      destruct (oft t2) as [b| |]; [|simpl in O; discriminate O|contradiction].
      simpl in O. destruct (span_bound GEN_MIN a); [destruct (span_bound GEN_MAX b)|]; discriminate O.
    - (* Point *) discriminate S.
    - discriminate S.
    - (* Call *) simpl in S.
      change (vis (Call f args)) with (rbind (vlist res bound tns args) (fun rs => gen_visitFunctionCall f rs)).
      destruct (vlist_nocrash args H S) as [B|[w B]]; rewrite B; simpl; constructor.
  Qed.

  (* what the hand model refuses, the regenerated visitor refuses *)
  Theorem gen_rejects_p : forall t, supported t = true -> oft t = TRej -> gen_accepts res bound tns t = Some false.
  Proof.
    intros t S O. pose proof (visit_total_p t S) as V. unfold outcome in V. rewrite O in V. unfold gen_accepts.
    inversion V as [E|a b st E|vs E]; reflexivity.
  Qed.

  Theorem supported_claims_p : forall t, supported t = true -> oft t <> TUnsup /\ nocrash (vis t).
  Proof.
    intros t S. pose proof (visit_total_p t S) as V. split; [|apply outcome_nocrash; exact V].
    unfold outcome in V. intros E. rewrite E in V. exact V.
  Qed.

  (* the verdict of the hand model = the verdict of the regenerated visitor on the whole fragment *)
  Theorem gen_verdict_total_p : forall t, supported t = true ->
    (forall e, oft t = TConv e -> has_span_eq e = false) ->
    tree_verdict res bound tns t = match gen_accepts res bound tns t with Some true => Accept | _ => Reject end.
  Proof.
    intros t S Q. destruct (oft t) as [e| |] eqn:O.
    - apply (gen_verdict_p res bound tns res_wf t e O (Q e eq_refl)).
    - rewrite (gen_rejects_p t S O). unfold tree_verdict. rewrite O. reflexivity.
    - exfalso. apply (proj1 (supported_claims_p t S)). exact O.
  Qed.
End Rej.
