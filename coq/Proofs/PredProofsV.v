(* C15 -- SimplePredicateVisitor.apply_logical_not / apply_logical_or / apply_logical_and (Gen/PredVisitGen.v,
   regenerated from queries/visitors.py): the helpers that rebuild a Predicate from per-leaf visit results
   (None = leaf unchanged, Some p = leaf replaced by p).

   Specification (C15's statement applied to them): the rebuilt predicate has the value of the original formula
   with every replaced leaf substituted.  All three meet it since /repo 33efa74; before that commit apply_logical_not
   ignored the replacement and negated the ORIGINAL leaf (`apply_not_refuted_without_fix`, on the old body). *)
From Coq Require Import NArith List Bool Lia.
From V Require Import Base.Tri Model.Pred Gen.PredGen Gen.PredVisitGen Proofs.PredProofs.
Import ListNotations.

(* value of a leaf after substitution *)
Definition res_val (v : atom -> tri) (original : lit) (result : option cnf) : tri :=
  match result with None => lit_eval v original | Some r => eval3 v r end.
Definition res_val_group (v : atom -> tri) (original : list lit) (result : option (bool * cnf)) : tri :=
  match result with None => any3 v original | Some fr => eval3 v (snd fr) end.

Lemma forallb_is_none : forall {A} (l : list (option A)), forallb is_none l = true <-> forall x, In x l -> x = None.
Proof.
  intros A l. rewrite forallb_forall. split; intros H x Hx; specialize (H x Hx).
  - destruct x; [discriminate|reflexivity].
  - now subst.
Qed.

Lemma some_inj : forall {A} (x y : A), Some x = Some y -> x = y.
Proof. intros A x y H. now inversion H. Qed.

(* ---- apply_logical_or ------------------------------------------------------------------------------------------- *)
Lemma apply_or_none_p : forall originals results,
  py_apply_logical_or originals results = None <-> forall x, In x results -> x = None.
Proof.
  intros originals results. unfold py_apply_logical_or. rewrite <- forallb_is_none.
  destruct (forallb is_none results); split; intros H; try reflexivity; discriminate.
Qed.

Lemma apply_or_sound_p : forall v originals results r,
  py_apply_logical_or originals results = Some r ->
  eval3 v r = or_all3 FF (map (fun ox => res_val v (fst ox) (snd ox)) (combine originals results)).
Proof.
  intros v originals results r H. unfold py_apply_logical_or in H.
  destruct (forallb is_none results); [discriminate|]. apply some_inj in H; subst.
  rewrite logical_or_sound_p, from_bool_sound_p, map_map. cbn [tri_of_bool]. f_equal.
  apply map_ext. intros [o [x|]]; cbn [fst snd res_val]; [reflexivity|].
  unfold py_from_leaf. apply eval3_single.
Qed.

(* ---- apply_logical_and ------------------------------------------------------------------------------------------ *)
(* the arguments logical_and receives: a fresh one-group predicate for an unchanged group (never identical to the
   accumulated operands), the visitor's own object otherwise (flag supplied by the environment) *)
Definition and_args (originals : cnf) (results : list (option (bool * cnf))) : list (bool * cnf) :=
  map (fun ox => match snd ox with None => (false, [fst ox]) | Some fr => fr end) (combine originals results).

Lemma apply_and_unfold : forall originals results,
  py_apply_logical_and originals results =
  if forallb is_none results then None else Some (py_logical_and [] (and_args originals results)).
Proof.
  intros. unfold py_apply_logical_and, and_args. destruct (forallb is_none results); [reflexivity|].
  do 2 f_equal. apply map_ext. intros [o [x|]]; reflexivity.
Qed.

Lemma apply_and_none_p : forall originals results,
  py_apply_logical_and originals results = None <-> forall x, In x results -> x = None.
Proof.
  intros originals results. rewrite apply_and_unfold, <- forallb_is_none.
  destruct (forallb is_none results); split; intros H; try reflexivity; discriminate.
Qed.

Lemma apply_and_sound_p : forall v originals results r,
  flags_ok py_impl_and [] (and_args originals results) ->
  py_apply_logical_and originals results = Some r ->
  eval3 v r = and_all3 TT (map (fun ox => res_val_group v (fst ox) (snd ox)) (combine originals results)).
Proof.
  intros v originals results r F H. rewrite apply_and_unfold in H.
  destruct (forallb is_none results); [discriminate|]. apply some_inj in H; subst.
  rewrite (logical_and_sound_p v _ _ F). unfold and_args. rewrite map_map. cbn [eval3 fold_right]. f_equal.
  apply map_ext. intros [o [x|]]; cbn [fst snd res_val_group]; [reflexivity|].
  cbn [eval3 fold_right]. apply tri_and_TT_r.
Qed.

(* ---- apply_logical_not -------------------------------------------------------------------------------------------- *)
Lemma apply_not_none_p : forall a, py_apply_logical_not a None = None.
Proof. reflexivity. Qed.

(* repaired by /repo 33efa74: the REPLACEMENT is negated *)
Lemma apply_not_sound_p : forall v a r r', py_apply_logical_not a (Some r) = Some r' ->
  eval3 v r' = tri_not (eval3 v r).
Proof.
  intros v a r r' H. unfold py_apply_logical_not in H. apply some_inj in H; subst.
  apply logical_not_sound_p.
Qed.

(* the body before 33efa74 (`return Predicate._from_leaf(original).logical_not()`: NOT of the ORIGINAL leaf whatever the
   replacement is), kept as a model variant so that the witness of the repaired defect stays machine-checked *)
Definition apply_logical_not_unfixed (original : atom) (result : option cnf) : option cnf :=
  match result with
  | None => None
  | Some _ => Some (py_logical_not (py_from_leaf (Pos original)))
  end.

(* visiting NOT(x0) with x0 replaced by TRUE gave NOT(x0), which is TRUE when x0 is FALSE, while NOT(TRUE) is FALSE *)
Lemma apply_not_refuted_without_fix_p : exists v a r r',
  apply_logical_not_unfixed a (Some r) = Some r' /\ eval3 v r' <> tri_not (eval3 v r).
Proof.
  exists (fun _ => FF), 0%N, (py_from_bool true), [[Neg 0%N]]. split; [vm_compute; reflexivity|].
  vm_compute. discriminate.
Qed.

(* and the repaired body differs from it on exactly that input *)
Lemma apply_not_fix_differs_p : exists a r,
  py_apply_logical_not a (Some r) <> apply_logical_not_unfixed a (Some r).
Proof. exists 0%N, (py_from_bool true). vm_compute. discriminate. Qed.
