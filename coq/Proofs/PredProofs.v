(* C15 -- lemmas about the new query system's Predicate operations, over the REGENERATED definitions
   (Gen/PredGen.v).  Everything after the two `impl_*_sound` lemmas uses only those lemmas and the fold
   structure of the callers, so the proofs survive harmless rewrites of the bodies of _impl_and/_impl_or. *)
From Coq Require Import NArith List Bool Lia.
From V Require Import Base.Tri Model.Pred Gen.PredGen.
Import ListNotations.

Local Arguments tri_and : simpl never.
Local Arguments tri_or : simpl never.
Local Arguments tri_not : simpl never.
(* the primitive combinators are used through their soundness lemmas only *)
Local Arguments py_impl_and : simpl never.
Local Arguments py_impl_or : simpl never.

(* ---- Kleene algebra facts ------------------------------------------------------------------------ *)
Ltac tri_cases := intros; repeat match goal with x : tri |- _ => destruct x end; reflexivity.

Lemma tri_and_assoc : forall a b c, tri_and a (tri_and b c) = tri_and (tri_and a b) c. Proof. tri_cases. Qed.
Lemma tri_or_assoc : forall a b c, tri_or a (tri_or b c) = tri_or (tri_or a b) c. Proof. tri_cases. Qed.
Lemma tri_and_comm : forall a b, tri_and a b = tri_and b a. Proof. tri_cases. Qed.
Lemma tri_or_comm : forall a b, tri_or a b = tri_or b a. Proof. tri_cases. Qed.
Lemma tri_and_idem : forall a, tri_and a a = a. Proof. tri_cases. Qed.
Lemma tri_and_TT_r : forall a, tri_and a TT = a. Proof. tri_cases. Qed.
Lemma tri_and_TT_l : forall a, tri_and TT a = a. Proof. tri_cases. Qed.
Lemma tri_and_FF_r : forall a, tri_and a FF = FF. Proof. tri_cases. Qed.
Lemma tri_or_FF_r : forall a, tri_or a FF = a. Proof. tri_cases. Qed.
Lemma tri_or_FF_l : forall a, tri_or FF a = a. Proof. tri_cases. Qed.
Lemma tri_or_TT_l : forall a, tri_or TT a = TT. Proof. tri_cases. Qed.
Lemma tri_or_TT_r : forall a, tri_or a TT = TT. Proof. tri_cases. Qed.
Lemma tri_not_invol : forall a, tri_not (tri_not a) = a. Proof. tri_cases. Qed.
Lemma tri_not_and : forall a b, tri_not (tri_and a b) = tri_or (tri_not a) (tri_not b). Proof. tri_cases. Qed.
Lemma tri_not_or : forall a b, tri_not (tri_or a b) = tri_and (tri_not a) (tri_not b). Proof. tri_cases. Qed.
Lemma tri_or_and_distr_l : forall x a b, tri_or x (tri_and a b) = tri_and (tri_or x a) (tri_or x b). Proof. tri_cases. Qed.
Lemma tri_or_and_distr_r : forall x a b, tri_or (tri_and a b) x = tri_and (tri_or a x) (tri_or b x). Proof. tri_cases. Qed.
Lemma tri_and_or_distr_l : forall x a b, tri_and x (tri_or a b) = tri_or (tri_and x a) (tri_and x b). Proof. tri_cases. Qed.

(* ---- evaluation of concatenations ------------------------------------------------------------------ *)
Lemma any3_app : forall v g1 g2, any3 v (g1 ++ g2) = tri_or (any3 v g1) (any3 v g2).
Proof.
  intros v g1 g2. induction g1 as [|l g1 IH]; simpl.
  - now rewrite tri_or_FF_l.
  - fold (any3 v (g1 ++ g2)). fold (any3 v g1). rewrite IH. apply tri_or_assoc.
Qed.

Lemma eval3_cons : forall v g p, eval3 v (g :: p) = tri_and (any3 v g) (eval3 v p).
Proof. reflexivity. Qed.

Lemma eval3_app : forall v a b, eval3 v (a ++ b) = tri_and (eval3 v a) (eval3 v b).
Proof.
  intros v a b. induction a as [|g a IH]; simpl.
  - now rewrite tri_and_TT_l.
  - fold (eval3 v (a ++ b)). fold (eval3 v a). rewrite IH. apply tri_and_assoc.
Qed.

Lemma eval3_single : forall v l, eval3 v [[l]] = lit_eval v l.
Proof. intros. simpl. now rewrite tri_or_FF_r, tri_and_TT_r. Qed.

Lemma eval3_true_p : forall v, eval3 v [] = TT. Proof. reflexivity. Qed.
Lemma eval3_false_p : forall v, eval3 v [[]] = FF. Proof. reflexivity. Qed.

Lemma invert_sound_p : forall v l, lit_eval v (py_invert l) = tri_not (lit_eval v l).
Proof. intros v [a|a]; simpl; auto using eq_sym, tri_not_invol. Qed.

Lemma invert_invol_p : forall l, py_invert (py_invert l) = l.
Proof. now intros [a|a]. Qed.

(* an empty OR-group makes the whole predicate false *)
Lemma py_all_false : forall v (p : cnf), py_all p = false -> eval3 v p = FF.
Proof.
  intros v p. induction p as [|g p IH]; simpl; [discriminate|].
  destruct g as [|l g]; simpl.
  - reflexivity.
  - intros H. fold (eval3 v p). rewrite (IH H). apply tri_and_FF_r.
Qed.

(* ---- the two primitive combinators ------------------------------------------------------------------ *)
Lemma impl_and_sound_p : forall v same a b, (same = true -> b = a) ->
  eval3 v (py_impl_and same a b) = tri_and (eval3 v a) (eval3 v b).
Proof.
  intros v same a b H. unfold py_impl_and. destruct same; simpl.
  - rewrite (H eq_refl). now rewrite tri_and_idem.
  - apply eval3_app.
Qed.

Lemma eval3_map_app : forall v x b, eval3 v (map (fun y => x ++ y) b) = tri_or (any3 v x) (eval3 v b).
Proof.
  intros v x b. induction b as [|y b IH]; simpl.
  - now rewrite tri_or_TT_r.
  - fold (eval3 v (map (fun y0 => x ++ y0) b)). fold (eval3 v b). rewrite IH, any3_app.
    now rewrite tri_or_and_distr_l.
Qed.

Lemma impl_or_shape_p : forall a b, py_impl_or a b = p_impl_or a b.
Proof.
  intros a b. unfold py_impl_or, p_impl_or. induction a as [|x a IH]; simpl; [reflexivity|].
  rewrite map_app, map_map. simpl. now rewrite IH.
Qed.

Lemma impl_or_sound_p : forall v a b, eval3 v (py_impl_or a b) = tri_or (eval3 v a) (eval3 v b).
Proof.
  intros v a b. rewrite impl_or_shape_p. unfold p_impl_or. induction a as [|x a IH]; simpl.
  - now rewrite tri_or_TT_l.
  - fold (eval3 v a). rewrite eval3_app, eval3_map_app, IH. now rewrite tri_or_and_distr_r.
Qed.

(* ---- constants ------------------------------------------------------------------------------------- *)
Lemma from_bool_sound_p : forall v b, eval3 v (py_from_bool b) = tri_of_bool b.
Proof. intros v []; reflexivity. Qed.
Lemma from_bool_true_p : py_from_bool true = []. Proof. reflexivity. Qed.
Lemma from_bool_false_p : py_from_bool false = [[]]. Proof. reflexivity. Qed.

(* ---- logical_and (n-ary, with the collapse rule) ----------------------------------------------------- *)
Lemma and_fold_sound : forall v args acc, flags_ok py_impl_and acc args ->
  eval3 v (fold_left (fun operands arg => py_impl_and (fst arg) operands (snd arg)) args acc)
  = and_all3 (eval3 v acc) (map (fun a => eval3 v (snd a)) args).
Proof.
  intros v args. induction args as [|[s b] args IH]; intros acc H; simpl in *.
  - reflexivity.
  - destruct H as [Hs Hr]. rewrite (IH _ Hr). unfold and_all3. simpl. now rewrite impl_and_sound_p.
Qed.

Lemma collapse_sound : forall v (p : cnf), eval3 v (if negb (py_all p) then [[]] else p) = eval3 v p.
Proof.
  intros v p. destruct (py_all p) eqn:E; simpl; [reflexivity|]. now rewrite (py_all_false v p E).
Qed.

Lemma logical_and_sound_p : forall v self args, flags_ok py_impl_and self args ->
  eval3 v (py_logical_and self args) = and_all3 (eval3 v self) (map (fun a => eval3 v (snd a)) args).
Proof.
  intros v self args H. unfold py_logical_and. cbv zeta.
  rewrite collapse_sound. now apply and_fold_sound.
Qed.

Lemma logical_and_collapsed_p : forall self args,
  py_all (py_logical_and self args) = true \/ py_logical_and self args = [[]].
Proof.
  intros. unfold py_logical_and. cbv zeta.
  set (x := fold_left _ args self).
  destruct (py_all x) eqn:E; simpl; auto.
Qed.

Lemma logical_and2_sound_p : forall v same a b, (same = true -> b = a) ->
  eval3 v (py_logical_and a [(same, b)]) = tri_and (eval3 v a) (eval3 v b).
Proof. intros. rewrite logical_and_sound_p; simpl; auto. Qed.

(* ---- logical_or (n-ary) ------------------------------------------------------------------------------ *)
Lemma logical_or_sound_p : forall v args self,
  eval3 v (py_logical_or self args) = or_all3 (eval3 v self) (map (eval3 v) args).
Proof.
  intros v args. unfold py_logical_or. cbv zeta.
  induction args as [|b args IH]; intros self; simpl.
  - reflexivity.
  - rewrite IH. unfold or_all3. simpl. now rewrite impl_or_sound_p.
Qed.

Lemma logical_or2_sound_p : forall v a b, eval3 v (py_logical_or a [b]) = tri_or (eval3 v a) (eval3 v b).
Proof. intros. now rewrite logical_or_sound_p. Qed.

(* ---- logical_not: De Morgan through the two combinators ------------------------------------------------ *)
Lemma not_inner_sound : forall v g acc,
  eval3 v (fold_left (fun new_group leaf => py_impl_and false new_group [[py_invert leaf]]) g acc)
  = tri_and (eval3 v acc) (tri_not (any3 v g)).
Proof.
  intros v g. induction g as [|l g IH]; intros acc; simpl.
  - now rewrite tri_and_TT_r.
  - rewrite IH. rewrite impl_and_sound_p by discriminate.
    rewrite eval3_single, invert_sound_p. fold (any3 v g).
    now rewrite tri_not_or, tri_and_assoc.
Qed.

Lemma not_outer_sound : forall v p acc,
  eval3 v (fold_left (fun new_operands or_group =>
             py_impl_or new_operands
               (fold_left (fun new_group leaf => py_impl_and false new_group [[py_invert leaf]]) or_group [])) p acc)
  = tri_or (eval3 v acc) (tri_not (eval3 v p)).
Proof.
  intros v p. induction p as [|g p IH]; intros acc; simpl.
  - now rewrite tri_or_FF_r.
  - rewrite IH, impl_or_sound_p, not_inner_sound. simpl. rewrite tri_and_TT_l.
    fold (eval3 v p). now rewrite tri_not_and, tri_or_assoc.
Qed.

Lemma logical_not_sound_p : forall v self, eval3 v (py_logical_not self) = tri_not (eval3 v self).
Proof.
  intros v self. unfold py_logical_not. cbv zeta.
  rewrite not_outer_sound. simpl. now rewrite tri_or_FF_l.
Qed.

(* ---- arbitrary formulas ------------------------------------------------------------------------------- *)
Lemma build_sound_p : forall v f, py_form_ok f -> eval3 v (py_build f) = feval3 v f.
Proof.
  intros v f. induction f as [a|b|f IH|s f IHf g IHg|f IHf g IHg]; cbn [py_build feval3 py_form_ok]; intros H.
  - unfold py_from_leaf. apply eval3_single.
  - apply from_bool_sound_p.
  - rewrite logical_not_sound_p. now rewrite IH.
  - destruct H as (Hf & Hg & Hs). rewrite logical_and2_sound_p by exact Hs. now rewrite IHf, IHg.
  - destruct H as (Hf & Hg). rewrite logical_or2_sound_p. now rewrite IHf, IHg.
Qed.

(* formulas whose identity flags are all false are always consistent: the unflagged statement *)
Fixpoint no_flags (f : form) : bool :=
  match f with
  | FAtom _ | FConst _ => true
  | FNot f => no_flags f
  | FAnd s f g => negb s && no_flags f && no_flags g
  | FOr f g => no_flags f && no_flags g
  end.
Lemma no_flags_ok : forall f, no_flags f = true -> py_form_ok f.
Proof.
  induction f as [a|b|f IH|s f IHf g IHg|f IHf g IHg]; simpl; intros H; auto.
  - apply andb_prop in H as [H Hg]. apply andb_prop in H as [Hs Hf].
    repeat split; auto. destruct s; [discriminate|]. discriminate.
  - apply andb_prop in H as [Hf Hg]. split; auto.
Qed.
Lemma build_sound_noflags_p : forall v f, no_flags f = true -> eval3 v (py_build f) = feval3 v f.
Proof. intros. apply build_sound_p. now apply no_flags_ok. Qed.

(* Boolean assignments give Boolean values: the two-valued statement is the special case *)
Lemma lit_two_valued : forall v l, (forall a, v a <> UU) -> lit_eval v l <> UU.
Proof. intros v [a|a] H; simpl; specialize (H a); destruct (v a); cbv; congruence. Qed.
Lemma eval3_two_valued_p : forall v (p : cnf), (forall a, v a <> UU) -> eval3 v p <> UU.
Proof.
  intros v p H. induction p as [|g p IH]; simpl; [discriminate|].
  fold (eval3 v p).
  assert (G : any3 v g <> UU).
  { induction g as [|l g IHg]; simpl; [discriminate|]. fold (any3 v g).
    pose proof (lit_two_valued v l H). destruct (lit_eval v l), (any3 v g); cbv; congruence. }
  destruct (any3 v g), (eval3 v p); cbv; congruence.
Qed.

(* ---- the hand model used by the correspondence check is the regenerated one -------------------------- *)
Lemma impl_and_shape_p : forall s a b, py_impl_and s a b = p_impl_and s a b.
Proof. intros [] a b; reflexivity. Qed.

Lemma fold_left_ext_p : forall {A B} (f g : A -> B -> A), (forall a b, f a b = g a b) ->
  forall l a, fold_left f l a = fold_left g l a.
Proof. intros A B f g H l. induction l; intros; simpl; auto. now rewrite H. Qed.

Lemma logical_and_shape_p : forall self args, py_logical_and self args = p_and self args.
Proof.
  intros. unfold py_logical_and, p_and, p_collapse. cbv zeta.
  rewrite (fold_left_ext_p _ (fun acc arg => p_impl_and (fst arg) acc (snd arg))) by (intros; apply impl_and_shape_p).
  set (x := fold_left _ args self).
  destruct (py_all x); reflexivity.
Qed.

Lemma logical_or_shape_p : forall self args, py_logical_or self args = p_or self args.
Proof.
  intros. unfold py_logical_or, p_or. cbv zeta.
  apply fold_left_ext_p. intros. apply impl_or_shape_p.
Qed.

Lemma not_inner_shape : forall g acc,
  fold_left (fun new_group leaf => py_impl_and false new_group [[py_invert leaf]]) g acc
  = acc ++ map (fun l => [invert l]) g.
Proof.
  induction g as [|l g IH]; intros acc; simpl.
  - now rewrite app_nil_r.
  - rewrite IH. unfold py_impl_and. simpl. rewrite <- app_assoc. simpl.
    destruct l; reflexivity.
Qed.

Lemma logical_not_shape_p : forall self, py_logical_not self = p_not self.
Proof.
  intros. unfold py_logical_not, p_not. cbv zeta.
  apply fold_left_ext_p. intros a g. rewrite not_inner_shape. simpl. apply impl_or_shape_p.
Qed.

Lemma build_shape_p : forall f, py_build f = build f.
Proof.
  induction f as [a|b|f IH|s f IHf g IHg|f IHf g IHg]; cbn [py_build build].
  - reflexivity.
  - now destruct b.
  - now rewrite logical_not_shape_p, IH.
  - now rewrite logical_and_shape_p, IHf, IHg.
  - now rewrite logical_or_shape_p, IHf, IHg.
Qed.
