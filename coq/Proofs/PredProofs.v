From Coq Require Import NArith List Bool.
From V Require Import Base.Tri Model.Pred Gen.PredGen.
Import ListNotations.

Lemma const_true_p : forall v, eval3 v (py_from_bool true) = TT.
Proof. reflexivity. Qed.
