(* C17: the bounds right after move_to_cache, removal, datasets mode, own-write visibility. *)
From Coq Require Import ZArith NArith List Bool Lia Permutation.
From V Require Import Model.Cache Proofs.CacheProofs Proofs.CacheProofsB.
Import ListNotations.
Open Scope Z_scope.

Definition after_move (f : bool) (c : cfg) (now : Z) (k : N) (size : Z) (dm : list entry * mgr) : list entry * mgr :=
  fst (mstep f c now (Move k size) dm).

Lemma after_move_unfold : forall f c now k size dm, c_mode c <> MDisabled ->
  after_move f c now k size dm =
  let dm1 := expire f c now dm in
  if has_key k (entries (snd dm1)) then dm1
  else (disk_put (mkEntry k size now) (fst dm1), reg_add (mkEntry k size now) (snd dm1)).
Proof.
  intros. unfold after_move, mstep. destruct (c_mode c) eqn:M; try congruence;
    cbv zeta; destruct (has_key k (entries (snd (expire f c now dm)))); reflexivity.
Qed.

Lemma disk_put_length : forall e d, (length (disk_put e d) <= length d + 1)%nat.
Proof. intros. unfold disk_put, drop_key. rewrite app_length. simpl. assert (H := filter_length_le (fun x => negb (N.eqb (e_key x) (e_key e))) d). lia. Qed.

Lemma move_files_bound : forall f thr now k size d m, 0 <= thr -> DInv d ->
  Z.of_nat (length (entries (snd (after_move f (mkCfg MFiles thr) now k size (d, m))))) <= thr + 1
  /\ Z.of_nat (length (fst (after_move f (mkCfg MFiles thr) now k size (d, m)))) <= thr + 1.
Proof.
  intros. rewrite after_move_unfold by (simpl; congruence). cbv zeta.
  assert (C := expire_files_count f thr now d m H). assert (D := expire_files_disk f thr now d m H H0).
  destruct (has_key k (entries (snd (expire f (mkCfg MFiles thr) now (d, m))))); simpl.
  - lia.
  - unfold reg_add. simpl. rewrite app_length. simpl.
    assert (L := disk_put_length (mkEntry k size now) (fst (expire f (mkCfg MFiles thr) now (d, m)))). lia.
Qed.

Lemma move_size_bound : forall f thr now k size d m, 0 <= thr -> 0 <= size -> DInv d -> MInv m ->
  msize (snd (after_move f (mkCfg MSize thr) now k size (d, m))) <= thr + size.
Proof.
  intros. rewrite after_move_unfold by (simpl; congruence). cbv zeta.
  assert (C := expire_size_bound f thr now d m H H1 H2).
  destruct (has_key k (entries (snd (expire f (mkCfg MSize thr) now (d, m))))); simpl; lia.
Qed.

Lemma move_age_bound : forall thr now k size d m e, 0 <= thr ->
  In e (entries (snd (after_move true (mkCfg MAge thr) now k size (d, m)))) -> now - e_ctime e <= thr.
Proof.
  intros thr now k size d m e Ht. rewrite after_move_unfold by (simpl; congruence). cbv zeta.
  destruct (has_key k (entries (snd (expire true (mkCfg MAge thr) now (d, m))))); simpl; intros Hi.
  - now apply (expire_age_bound thr now d m e).
  - apply in_app_or in Hi. destruct Hi as [Hi|[Hi|[]]]; [now apply (expire_age_bound thr now d m e)|]. subst. simpl. lia.
Qed.

(* ---- datasets mode: the datasets left after the expiry fit in a list of at most `thr` dataset ids ---- *)
Lemma nodup_n_In : forall x l, In x (nodup_n l) <-> In x l.
Proof.
  induction l; simpl; [tauto|]. split.
  - intros [H|H]; auto. apply filter_In in H. right. apply IHl. tauto.
  - intros [H|H]; auto. destruct (N.eq_dec x a); [left; auto|]. right. apply filter_In. split; [now apply IHl|].
    apply negb_true_iff. now apply N.eqb_neq.
Qed.

Lemma expire_datasets_bound : forall f thr now d m, 0 <= thr ->
  exists allowed, Z.of_nat (length allowed) <= thr /\
    forall e, In e (entries (snd (expire f (mkCfg MDatasets thr) now (d, m)))) -> In (e_ref e) allowed.
Proof.
  intros. unfold expire. simpl. set (es := entries (scan d m)). set (sorted := sort_entries es).
  set (refs := nodup_n (map e_ref sorted)). set (n := n_over (length refs) thr).
  exists (skipn n refs). split.
  - rewrite skipn_length. unfold n, n_over. lia.
  - intros e He.
    destruct (remove_keys_spec (keys (filter (fun e0 => existsb (N.eqb (e_ref e0)) (firstn n refs)) sorted)) (d, scan d m)) as [_ H2].
    rewrite H2 in He. simpl in He. apply filter_In in He. destruct He as [Hi Hn]. fold es in Hi.
    assert (Hr : In (e_ref e) refs).
    { unfold refs. apply nodup_n_In. apply in_map. apply (Permutation_in e (Permutation_sym (sort_perm es))). exact Hi. }
    rewrite <- (firstn_skipn n refs) in Hr. apply in_app_or in Hr. destruct Hr as [Hr|Hr]; auto. exfalso.
    unfold notin in Hn. apply negb_true_iff in Hn. rewrite <- not_true_iff_false in Hn. apply Hn.
    apply existsb_exists. exists (e_key e). split; [|apply N.eqb_refl]. apply in_map. apply filter_In. split.
    + apply (Permutation_in e (Permutation_sym (sort_perm es))). exact Hi.
    + apply existsb_exists. exists (e_ref e). split; auto. apply N.eqb_refl.
Qed.

Lemma move_datasets_bound : forall f thr now k size d m, 0 <= thr ->
  exists allowed, Z.of_nat (length allowed) <= thr + 1 /\
    forall e, In e (entries (snd (after_move f (mkCfg MDatasets thr) now k size (d, m)))) -> In (e_ref e) allowed.
Proof.
  intros. rewrite after_move_unfold by (simpl; congruence). cbv zeta.
  destruct (expire_datasets_bound f thr now d m H) as [al [L A]]. exists (ref_of k :: al). split; [simpl length; lia|].
  destruct (has_key k (entries (snd (expire f (mkCfg MDatasets thr) now (d, m))))); simpl; intros e He.
  - right. now apply A.
  - apply in_app_or in He. destruct He as [He|[He|[]]]; [right; now apply A|]. subst. left. reflexivity.
Qed.

(* ---- remove_from_cache ---- *)
Lemma remove_complete : forall f c now refs d m e,
  In e (entries (snd (fst (mstep f c now (Remove refs) (d, m))))) -> existsb (N.eqb (e_ref e)) refs = false.
Proof.
  intros f c now refs d m e. cbn [mstep fst snd]. destruct (entries m) as [|x r] eqn:E; cbn [fst snd]; [rewrite E; intros []|]. rewrite <- E.
  destruct (remove_keys_spec (keys (filter (fun e0 => existsb (N.eqb (e_ref e0)) refs) (entries m))) (d, m)) as [_ H2].
  rewrite H2. simpl. intros Hi. apply filter_In in Hi. destruct Hi as [Hi Hn].
  destruct (existsb (N.eqb (e_ref e)) refs) eqn:X; auto. exfalso.
  unfold notin in Hn. apply negb_true_iff in Hn. rewrite <- not_true_iff_false in Hn. apply Hn.
  apply existsb_exists. exists (e_key e). split; [|apply N.eqb_refl]. apply in_map. apply filter_In. auto.
Qed.

(* the files of the removed datasets that this manager knew are gone from the directory too *)
Lemma remove_deletes_files : forall f c now refs d m e x,
  In e (entries m) -> existsb (N.eqb (e_ref e)) refs = true ->
  In x (fst (fst (mstep f c now (Remove refs) (d, m)))) -> e_key x <> e_key e.
Proof.
  intros f c now refs d m e x He Hr. cbn [mstep fst snd]. destruct (entries m) as [|y r] eqn:E; [destruct He|]. rewrite <- E in *. cbn [fst snd].
  destruct (remove_keys_spec (keys (filter (fun e0 => existsb (N.eqb (e_ref e0)) refs) (entries m))) (d, m)) as [H1 _].
  rewrite H1. simpl. intros Hi Hk. apply filter_In in Hi. destruct Hi as [_ Hn].
  unfold notin in Hn. apply negb_true_iff in Hn. rewrite <- not_true_iff_false in Hn. apply Hn.
  apply existsb_exists. exists (e_key e). split; [|now apply N.eqb_eq]. apply in_map. apply filter_In. auto.
Qed.

Lemma find_never_invents : forall f c now k d m s,
  snd (mstep f c now (Find k) (d, m)) = RFound s -> exists e, In e d /\ e_key e = k /\ e_size e = s.
Proof.
  intros f c now k d m s. simpl.
  assert (G : snd (match find_key k d with Some e => ((disk_touch k now d, m), RFound (e_size e)) | None => ((d, m), RNotFound) end) = RFound s
              -> exists e, In e d /\ e_key e = k /\ e_size e = s).
  { destruct (find_key k d) as [e|] eqn:F; simpl; intros H; [|discriminate]. inversion H; subst. unfold find_key in F.
    apply find_some in F. destruct F as [F1 F2]. exists e. split; auto. split; auto. now apply N.eqb_eq. }
  destruct (c_mode c); simpl; auto; discriminate.
Qed.

(* ---- with an expiry mode configured, the file just moved is in the directory and in the registry ---- *)
Lemma remove_keys_cons : forall a ks dm, remove_keys (a :: ks) dm = remove_keys ks (remove1 a dm).
Proof. reflexivity. Qed.

Lemma size_loop_is_remove : forall thr ks dm, exists ks', size_loop thr ks dm = remove_keys ks' dm.
Proof.
  induction ks; intros dm.
  - exists []. reflexivity.
  - cbn [size_loop]. destruct (msize (snd (remove1 a dm)) <=? thr).
    + exists [a]. reflexivity.
    + destruct (IHks (remove1 a dm)) as [ks' H]. exists (a :: ks'). rewrite remove_keys_cons. exact H.
Qed.

Lemma age_loop_is_remove : forall f thr now l dm, exists ks', age_loop f thr now l dm = remove_keys ks' dm.
Proof.
  induction l; intros dm.
  - exists []. reflexivity.
  - cbn [age_loop]. destruct (thr <? age_of f now (e_ctime a)).
    + destruct (IHl (remove1 (e_key a) dm)) as [ks' H]. exists (e_key a :: ks'). rewrite remove_keys_cons. exact H.
    + exists []. reflexivity.
Qed.

Definition expiring (md : mode) : Prop := md = MFiles \/ md = MDatasets \/ md = MSize \/ md = MAge.

Lemma expire_is_remove : forall f c now d m, expiring (c_mode c) ->
  exists ks, expire f c now (d, m) = remove_keys ks (d, scan d m).
Proof.
  intros f c now d m H. unfold expire. cbn [fst snd].
  destruct H as [H|[H|[H|H]]]; rewrite H.
  - eexists. reflexivity.
  - eexists. reflexivity.
  - destruct (c_thr c <? msize (scan d m)); [apply size_loop_is_remove | exists []; reflexivity].
  - apply age_loop_is_remove.
Qed.

(* after an expiry every registry entry has its file *)
Lemma expire_entries_on_disk : forall f c now d m k, expiring (c_mode c) ->
  In k (keys (entries (snd (expire f c now (d, m))))) -> In k (keys (fst (expire f c now (d, m)))).
Proof.
  intros f c now d m k H. destruct (expire_is_remove f c now d m H) as [ks E]. rewrite E.
  destruct (remove_keys_spec ks (d, scan d m)) as [H1 H2]. rewrite H1, H2. cbn [fst snd]. intros Hi.
  apply (sync_filter (notin ks) d (entries (scan d m))); auto.
  - intros k0. apply scan_keys.
  - intros. now apply notin_key.
Qed.

Lemma moved_file_present_p : forall f c now k size d m, expiring (c_mode c) ->
  In k (keys (fst (after_move f c now k size (d, m)))) /\ In k (keys (entries (snd (after_move f c now k size (d, m))))).
Proof.
  intros f c now k size d m H. rewrite after_move_unfold by (destruct H as [H|[H|[H|H]]]; rewrite H; discriminate). cbv zeta.
  destruct (has_key k (entries (snd (expire f c now (d, m))))) eqn:E.
  - apply has_key_In in E. split; auto. now apply expire_entries_on_disk.
  - cbn [fst snd]. split.
    + unfold disk_put, keys. rewrite map_app. apply in_or_app. right. simpl. auto.
    + unfold reg_add, keys. cbn [entries]. rewrite map_app. apply in_or_app. right. simpl. auto.
Qed.

(* ... and, more generally, after move_to_cache with a mode configured every registry entry has its file *)
Lemma move_entries_on_disk_p : forall f c now k size d m x, expiring (c_mode c) ->
  In x (keys (entries (snd (after_move f c now k size (d, m))))) -> In x (keys (fst (after_move f c now k size (d, m)))).
Proof.
  intros f c now k size d m x H. rewrite after_move_unfold by (destruct H as [H|[H|[H|H]]]; rewrite H; discriminate). cbv zeta.
  destruct (has_key k (entries (snd (expire f c now (d, m))))) eqn:E.
  - now apply expire_entries_on_disk.
  - cbn [fst snd]. unfold reg_add, disk_put, keys. cbn [entries]. rewrite !map_app. intros Hi. apply in_app_or in Hi.
    apply in_or_app. destruct Hi as [Hi|Hi]; [|right; exact Hi].
    destruct (N.eq_dec x k); [right; simpl; auto|]. left.
    assert (D := expire_entries_on_disk f c now d m x H Hi). unfold keys in D. apply in_map_iff in D. destruct D as [e [He Hd]].
    apply in_map_iff. exists e. split; auto. unfold drop_key. apply filter_In. split; auto. simpl.
    apply negb_true_iff. apply N.eqb_neq. congruence.
Qed.

(* ---- registry: a client sees its own write through a coherent cache ---- *)
Open Scope N_scope.
Lemma own_write_visible_p : forall uc t cs id ty run, wf_tables t -> Coherent t cs ->
  key_of t run <> None -> lookup run (chains t) = None ->
  In id (snd (rstep as_coded uc (fst (rstep as_coded uc (t, cs) (Put id ty run))) (QData ty run))).
Proof.
  intros uc t cs id ty run Hw Hc Hk Hn.
  assert (C := coherent_step uc t cs (Put id ty run) Hw Hc).
  assert (W := wf_tables_step as_coded uc t cs (Put id ty run) Hw).
  assert (E1 : exists_b t run = true) by (apply exists_b_true; auto).
  assert (E2 : is_chain_b t run = false) by (apply is_chain_b_false; auto).
  cbn [rstep fst snd] in *. rewrite E1, E2 in *. cbn [andb negb fst snd] in *.
  set (t' := mkTables (ckeys t) (chains t) (if existsb (fun p => (fst p =? run) && (snd p =? ty)) (summ t) then summ t else summ t ++ [(run, ty)])
                      (data t ++ [(id, ty, run)])) in *.
  remember (snd (record_of t cs run)) as cs1.
  set (cs' := mkCaches (rcache cs1) (match scache cs1 with Some _ => Some [] | None => None end)) in *.
  cbn [rstep]. destruct (query_datasets_spec t' ty run cs' W C) as [Q _].
  destruct (query_datasets t' cs' ty run) as [r cs2]. cbn [fst snd] in *. subst r.
  assert (Ch : chains t' = chains t) by reflexivity. assert (Ck : key_of t' run = key_of t run) by reflexivity.
  unfold query_ans. rewrite Ck. destruct (key_of t run) eqn:K; [|congruence].
  unfold members. rewrite Ch, Hn. cbn [true_query]. rewrite app_nil_r.
  unfold summary_ans. rewrite Ck.
  assert (S : memN ty (true_summary t' run) = true).
  { unfold true_summary. rewrite Ch, Hn. unfold table_summary, memN. apply existsb_exists.
    exists ty. split; [|apply N.eqb_refl]. apply in_map_iff. exists (run, ty). split; auto. apply filter_In. split; [|simpl; apply N.eqb_refl].
    unfold t'. simpl. destruct (existsb (fun p => (fst p =? run) && (snd p =? ty)) (summ t)) eqn:X.
    - apply existsb_exists in X. destruct X as [[a b] [Xi Xe]]. simpl in Xe. apply andb_true_iff in Xe. destruct Xe as [X1 X2].
      apply N.eqb_eq in X1. apply N.eqb_eq in X2. subst. exact Xi.
    - apply in_or_app. right. simpl. auto. }
  rewrite S. apply datasets_in_put.
Qed.
