(* C07 lemmas, part 4: file-system side of put atomicity by symbolic execution over every fault position. *)
From Coq Require Import NArith PeanoNat List Bool Lia.
From V Require Import Model.Txn Model.TxnCheck Proofs.TxnProofs.
Import ListNotations. Open Scope N_scope.

Lemma frm_fresh : forall d f, fget d f = None -> frm d f = f.
Proof.
  induction f as [|[k v] f IH]; simpl; auto. destruct (k =? d) eqn:E; [discriminate|]. intro H. simpl. rewrite IH; auto.
Qed.
Lemma frm_frm : forall d f, frm d (frm d f) = frm d f.
Proof.
  induction f as [|[k v] f IH]; simpl; auto. destruct (k =? d) eqn:E; simpl; auto. rewrite E. simpl. rewrite IH. auto.
Qed.
Lemma frm_fset : forall d v f, frm d (fset d v f) = frm d f.
Proof. intros. unfold fset. simpl. rewrite N.eqb_refl. simpl. apply frm_frm. Qed.

Lemma put_files_atomic_p : forall d v s s' h, ptr s = [] -> sql s = [] -> fget d (fs s) = None ->
  exec_op shipped (Put d v) s = (s', Raised h) -> cfault s' = false -> fs s' = fs s.
Proof.
  intros d v s s' h P Q F H C.
  destruct s as [c q p f e dc fu hd cf]. simpl in P, Q, F. subst p q.
  simpl in H. unfold do_put, butler_txn, with_reg, with_ds, bind, ev, ev_absorb, load_dc, upd, guard, reg_undo, stored_rows, ret, tick, has_ds in H.
  simpl in H.
  destruct fu as [n|];
    [ do 8 (try destruct n as [|n]) | ];
    simpl in H; destruct dc; simpl in H;
    repeat (match type of H with context [if ?b then _ else _] => destruct b eqn:?; simpl in H end);
    try (match goal with H0 : negb (?x =? ?x) = true |- _ => rewrite N.eqb_refl in H0; discriminate H0 end);
    inversion H; subst; simpl in *; try discriminate; rewrite ?frm_fset, ?frm_frm, ?(frm_fresh _ _ F); auto.
Qed.
