(* C14 proofs, fuel: the fuel argument of the precedence-climbing parser is only a recursion-depth bound.
   (1) monotonicity: once a run does not end in PFuel, more fuel gives the same result;
   (2) adequacy: 5 * length ts + c fuel is enough (c <= 6), hence fuel_for ts = 12 * length ts + 20 is;
   so parse_tokens is THE result of the parser, and `ev (fun fuel => parse tv fuel ts) x` (the form in which the
   round-trip theorems of ParserProofs2 are stated) is the same as `parse_tokens tv ts = POk x`. *)
From Coq Require Import ZArith List Bool String Ascii Arith Lia.
From V Require Import Model.ExprTree Model.Lexer Model.Parser Gen.GrammarGen Proofs.ParserProofs.
Import ListNotations. Open Scope string_scope. Open Scope list_scope.

#[local] Arguments lvl : simpl never.
#[local] Arguments rmin : simpl never.
#[local] Arguments not_lvl : simpl never.

(* ------------------------------------------------------------------ bind *)
Lemma bind_mono {A B} (a a' : pres A) (k k' : A -> pres B) :
  (a <> PFuel -> a' = a) -> (forall x, a = POk x -> k x <> PFuel -> k' x = k x) ->
  bind a k <> PFuel -> bind a' k' = bind a k.
Proof.
  intros Ha Hk. destruct a as [x|e|]; simpl; intros H.
  - rewrite Ha by discriminate. simpl. apply Hk; auto.
  - rewrite Ha by discriminate. reflexivity.
  - congruence.
Qed.

(* G n a : a is not PFuel and, when it succeeds, fewer than n tokens are left *)
Definition G {T} (n : nat) (a : pres (T * list token)) : Prop :=
  a <> PFuel /\ forall t r, a = POk (t, r) -> List.length r < n.

Lemma G_ok {T} n (t : T) r : List.length r < n -> G n (POk (t, r)).
Proof. intros H. split; [discriminate|]. intros t' r' E. inversion E; subst; auto. Qed.
Lemma G_err {T} n e : @G T n (PErr e).
Proof. split; [discriminate|]. intros t r E. discriminate. Qed.
Lemma G_weaken {T} n m (a : pres (T * list token)) : G n a -> n <= m -> G m a.
Proof. intros [H1 H2] L. split; auto. intros t r E. specialize (H2 t r E). lia. Qed.
Lemma G_bind {T U} n m (a : pres (T * list token)) (k : T * list token -> pres (U * list token)) :
  G n a -> (forall x r, List.length r < n -> G m (k (x, r))) -> G m (bind a k).
Proof.
  intros [H1 H2] Hk. destruct a as [[x r]|e|]; simpl.
  - apply Hk. eapply H2; reflexivity.
  - apply G_err.
  - congruence.
Qed.
Lemma G_mk_call n s args r : List.length r < n -> G n (bind (mk_call s args r) (fun t => POk (t, r))).
Proof.
  intros H. unfold mk_call.
  destruct (String.eqb (upper s) "POINT").
  - destruct args as [|a [|b [|c l]]]; simpl; try (destruct (follows_simple r); apply G_err).
    apply G_ok; auto.
  - simpl. apply G_ok; auto.
Qed.

Section Fuel.
  Variable tv : string -> option string.

  (* ---- unfolding equations (all by conversion) *)
  Lemma p_inlist_eq k ts :
    p_inlist tv (S k) ts =
      bind (p_item tv ts) (fun '(x, r) =>
        match r with
        | TRP :: r' => POk ([x], r')
        | TCOMMA :: r' => bind (p_inlist tv k r') (fun '(xs, r'') => POk (x :: xs, r''))
        | _ => PErr ESyntax
        end).
  Proof. reflexivity. Qed.

  Lemma p_simple_eq k ts :
    p_simple tv (S k) ts =
      match ts with
      | TNum s :: r => POk (Num s, r)
      | TStr s :: r => POk (Str s, r)
      | TTime s :: r => match tv s with Some v => POk (Time v, r) | None => PErr ESyntax end
      | TRange a b st :: r => POk (Range a b st, r)
      | TQId s :: r => POk (Ident s, r)
      | TBind s :: r => POk (Bind s, r)
      | TId s :: TLP :: r =>
          bind (p_args tv k r) (fun '(args, r') => bind (mk_call s args r') (fun t => POk (t, r')))
      | TId s :: r => POk (Ident s, r)
      | TADD :: r => bind (p_simple tv k r) (fun '(x, r') => POk (Unary UPlus x, r'))
      | TSUB :: r => bind (p_simple tv k r) (fun '(x, r') => POk (Unary UMinus x, r'))
      | TLP :: r =>
          bind (p_expr tv k 0 r) (fun '(e, r') =>
            match r' with
            | TRP :: r'' => POk (Parens e, r'')
            | TCOMMA :: r'' =>
                bind (p_expr tv k 0 r'') (fun '(e2, r3) =>
                  match r3 with TRP :: r4 => POk (Tuple e e2, r4) | _ => PErr ESyntax end)
            | _ => PErr ESyntax
            end)
      | _ => PErr ESyntax
      end.
  Proof. reflexivity. Qed.

  Lemma p_args_eq k ts :
    p_args tv (S k) ts =
      match ts with
      | TRP :: r => POk ([], r)
      | TCOMMA :: _ => p_args_tail tv k ts
      | _ => bind (p_expr tv k 0 ts) (fun '(e, r) => bind (p_args_tail tv k r) (fun '(es, r') => POk (e :: es, r')))
      end.
  Proof. reflexivity. Qed.

  Lemma p_args_tail_eq k ts :
    p_args_tail tv (S k) ts =
      match ts with
      | TRP :: r => POk ([], r)
      | TCOMMA :: r =>
          bind (p_expr tv k 0 r) (fun '(e, r') => bind (p_args_tail tv k r') (fun '(es, r'') => POk (e :: es, r'')))
      | _ => PErr ESyntax
      end.
  Proof. reflexivity. Qed.

  Lemma p_bit_eq k minp ts :
    p_bit tv (S k) minp ts = bind (p_simple tv k ts) (fun '(l, r) => p_bit_loop tv k minp l r).
  Proof. reflexivity. Qed.

  Lemma p_bit_loop_eq k minp l ts :
    p_bit_loop tv (S k) minp l ts =
      match ts with
      | t :: r =>
          match arith_op t with
          | Some o =>
              if Nat.leb minp (lvl o)
              then bind (p_bit tv k (rmin o) r) (fun '(x, r') => p_bit_loop tv k minp (Binary l o x) r')
              else POk (l, ts)
          | None => POk (l, ts)
          end
      | [] => POk (l, ts)
      end.
  Proof. reflexivity. Qed.

  Lemma p_pred_eq k ts :
    p_pred tv (S k) ts = bind (p_bit tv k 0 ts) (fun '(l, r) =>
          match r with
          | TIN :: TLP :: r' => bind (p_inlist tv k r') (fun '(vs, r'') => POk (IsIn l vs false, r''))
          | TIN :: _ => PErr ESyntax
          | TNOT :: TIN :: TLP :: r' => bind (p_inlist tv k r') (fun '(vs, r'') => POk (IsIn l vs true, r''))
          | TNOT :: _ => PErr ESyntax
          | _ => POk (l, r)
          end).
  Proof. reflexivity. Qed.

  Lemma p_bprim_eq k ts :
    p_bprim tv (S k) ts = bind (p_pred tv k ts) (fun '(l, r) => p_bprim_loop tv k l r).
  Proof. reflexivity. Qed.

  Lemma p_bprim_loop_eq k l ts :
    p_bprim_loop tv (S k) l ts =
      match ts with
      | t :: r =>
          match cmp_op t with
          | Some o => bind (p_pred tv k r) (fun '(x, r') => p_bprim_loop tv k (Binary l o x) r')
          | None => POk (l, ts)
          end
      | [] => POk (l, ts)
      end.
  Proof. reflexivity. Qed.

  Lemma p_expr_eq k minp ts :
    p_expr tv (S k) minp ts =
      match ts with
      | TNOT :: r => bind (p_expr tv k not_lvl r) (fun '(x, r') => p_expr_loop tv k minp (Unary UNot x) r')
      | _ => bind (p_bprim tv k ts) (fun '(l, r) => p_expr_loop tv k minp l r)
      end.
  Proof. reflexivity. Qed.

  Lemma p_expr_loop_eq k minp l ts :
    p_expr_loop tv (S k) minp l ts =
      match ts with
      | t :: r =>
          match logic_op t with
          | Some o =>
              if Nat.leb minp (lvl o)
              then bind (p_expr tv k (rmin o) r) (fun '(x, r') => p_expr_loop tv k minp (Binary l o x) r')
              else POk (l, ts)
          | None => POk (l, ts)
          end
      | [] => POk (l, ts)
      end.
  Proof. reflexivity. Qed.

  (* ================================================================== (1) fuel monotonicity *)
  (* goal shape:  body f <> PFuel -> body f' = body f *)
  Ltac mono_solve :=
    cbv beta iota;
    first
      [ intros _; reflexivity
      | let Hne := fresh "Hne" in
        intros Hne;
        match goal with H : forall _, _ |- _ => apply H; [lia | exact Hne] end
      | apply bind_mono; [ mono_solve | intros [? ?] _; mono_solve ]
      | match goal with |- context [match ?x with _ => _ end] => destruct x; mono_solve end ].

  Lemma p_inlist_mono : forall f f' ts, f <= f' -> p_inlist tv f ts <> PFuel -> p_inlist tv f' ts = p_inlist tv f ts.
  Proof.
    induction f as [|f IH]; intros f' ts L.
    - intros H. exfalso. apply H. reflexivity.
    - destruct f' as [|f']; [lia|]. assert (L' : f <= f') by lia. clear L.
      rewrite !p_inlist_eq. mono_solve.
  Qed.

  Definition MONO (f : nat) : Prop :=
    (forall f' ts, f <= f' -> p_simple tv f ts <> PFuel -> p_simple tv f' ts = p_simple tv f ts) /\
    (forall f' ts, f <= f' -> p_args tv f ts <> PFuel -> p_args tv f' ts = p_args tv f ts) /\
    (forall f' ts, f <= f' -> p_args_tail tv f ts <> PFuel -> p_args_tail tv f' ts = p_args_tail tv f ts) /\
    (forall f' minp ts, f <= f' -> p_bit tv f minp ts <> PFuel -> p_bit tv f' minp ts = p_bit tv f minp ts) /\
    (forall f' minp l ts, f <= f' -> p_bit_loop tv f minp l ts <> PFuel ->
       p_bit_loop tv f' minp l ts = p_bit_loop tv f minp l ts) /\
    (forall f' ts, f <= f' -> p_pred tv f ts <> PFuel -> p_pred tv f' ts = p_pred tv f ts) /\
    (forall f' ts, f <= f' -> p_bprim tv f ts <> PFuel -> p_bprim tv f' ts = p_bprim tv f ts) /\
    (forall f' l ts, f <= f' -> p_bprim_loop tv f l ts <> PFuel -> p_bprim_loop tv f' l ts = p_bprim_loop tv f l ts) /\
    (forall f' minp ts, f <= f' -> p_expr tv f minp ts <> PFuel -> p_expr tv f' minp ts = p_expr tv f minp ts) /\
    (forall f' minp l ts, f <= f' -> p_expr_loop tv f minp l ts <> PFuel ->
       p_expr_loop tv f' minp l ts = p_expr_loop tv f minp l ts).

  Ltac mono_start IH f' L :=
    destruct IH as (I1 & I2 & I3 & I4 & I5 & I6 & I7 & I8 & I9 & I10);
    pose proof p_inlist_mono as I0;
    destruct f' as [|f']; [lia|];
    match type of L with S ?f <= S _ => assert (L' : f <= f') by lia end; clear L.

  Lemma MONO_0 : MONO 0.
  Proof. repeat apply conj; intros; match goal with H : _ <> PFuel |- _ => exfalso; apply H; reflexivity end. Qed.

  Lemma MS_simple f : MONO f ->
    forall f' ts, S f <= f' -> p_simple tv (S f) ts <> PFuel -> p_simple tv f' ts = p_simple tv (S f) ts.
  Proof. intros IH f' ts L. mono_start IH f' L. rewrite !p_simple_eq. mono_solve. Qed.
  Lemma MS_args f : MONO f ->
    forall f' ts, S f <= f' -> p_args tv (S f) ts <> PFuel -> p_args tv f' ts = p_args tv (S f) ts.
  Proof. intros IH f' ts L. mono_start IH f' L. rewrite !p_args_eq. mono_solve. Qed.
  Lemma MS_args_tail f : MONO f ->
    forall f' ts, S f <= f' -> p_args_tail tv (S f) ts <> PFuel -> p_args_tail tv f' ts = p_args_tail tv (S f) ts.
  Proof. intros IH f' ts L. mono_start IH f' L. rewrite !p_args_tail_eq. mono_solve. Qed.
  Lemma MS_bit f : MONO f ->
    forall f' minp ts, S f <= f' -> p_bit tv (S f) minp ts <> PFuel -> p_bit tv f' minp ts = p_bit tv (S f) minp ts.
  Proof. intros IH f' minp ts L. mono_start IH f' L. rewrite !p_bit_eq. mono_solve. Qed.
  Lemma MS_bit_loop f : MONO f ->
    forall f' minp l ts, S f <= f' -> p_bit_loop tv (S f) minp l ts <> PFuel ->
      p_bit_loop tv f' minp l ts = p_bit_loop tv (S f) minp l ts.
  Proof. intros IH f' minp l ts L. mono_start IH f' L. rewrite !p_bit_loop_eq. mono_solve. Qed.
  Lemma MS_pred f : MONO f ->
    forall f' ts, S f <= f' -> p_pred tv (S f) ts <> PFuel -> p_pred tv f' ts = p_pred tv (S f) ts.
  Proof. intros IH f' ts L. mono_start IH f' L. rewrite !p_pred_eq. mono_solve. Qed.
  Lemma MS_bprim f : MONO f ->
    forall f' ts, S f <= f' -> p_bprim tv (S f) ts <> PFuel -> p_bprim tv f' ts = p_bprim tv (S f) ts.
  Proof. intros IH f' ts L. mono_start IH f' L. rewrite !p_bprim_eq. mono_solve. Qed.
  Lemma MS_bprim_loop f : MONO f ->
    forall f' l ts, S f <= f' -> p_bprim_loop tv (S f) l ts <> PFuel ->
      p_bprim_loop tv f' l ts = p_bprim_loop tv (S f) l ts.
  Proof. intros IH f' l ts L. mono_start IH f' L. rewrite !p_bprim_loop_eq. mono_solve. Qed.
  Lemma MS_expr f : MONO f ->
    forall f' minp ts, S f <= f' -> p_expr tv (S f) minp ts <> PFuel -> p_expr tv f' minp ts = p_expr tv (S f) minp ts.
  Proof. intros IH f' minp ts L. mono_start IH f' L. rewrite !p_expr_eq. mono_solve. Qed.
  Lemma MS_expr_loop f : MONO f ->
    forall f' minp l ts, S f <= f' -> p_expr_loop tv (S f) minp l ts <> PFuel ->
      p_expr_loop tv f' minp l ts = p_expr_loop tv (S f) minp l ts.
  Proof. intros IH f' minp l ts L. mono_start IH f' L. rewrite !p_expr_loop_eq. mono_solve. Qed.

  Lemma MONO_all : forall f, MONO f.
  Proof.
    induction f as [|f IH]; [apply MONO_0|].
    repeat apply conj.
    - apply MS_simple; auto.
    - apply MS_args; auto.
    - apply MS_args_tail; auto.
    - apply MS_bit; auto.
    - apply MS_bit_loop; auto.
    - apply MS_pred; auto.
    - apply MS_bprim; auto.
    - apply MS_bprim_loop; auto.
    - apply MS_expr; auto.
    - apply MS_expr_loop; auto.
  Qed.

  Lemma p_simple_mono : forall f f' ts, f <= f' -> p_simple tv f ts <> PFuel -> p_simple tv f' ts = p_simple tv f ts.
  Proof. intros f. apply (MONO_all f). Qed.
  Lemma p_args_mono : forall f f' ts, f <= f' -> p_args tv f ts <> PFuel -> p_args tv f' ts = p_args tv f ts.
  Proof. intros f. apply (MONO_all f). Qed.
  Lemma p_args_tail_mono : forall f f' ts,
    f <= f' -> p_args_tail tv f ts <> PFuel -> p_args_tail tv f' ts = p_args_tail tv f ts.
  Proof. intros f. apply (MONO_all f). Qed.
  Lemma p_bit_mono : forall f f' minp ts,
    f <= f' -> p_bit tv f minp ts <> PFuel -> p_bit tv f' minp ts = p_bit tv f minp ts.
  Proof. intros f. apply (MONO_all f). Qed.
  Lemma p_bit_loop_mono : forall f f' minp l ts,
    f <= f' -> p_bit_loop tv f minp l ts <> PFuel -> p_bit_loop tv f' minp l ts = p_bit_loop tv f minp l ts.
  Proof. intros f. apply (MONO_all f). Qed.
  Lemma p_pred_mono : forall f f' ts, f <= f' -> p_pred tv f ts <> PFuel -> p_pred tv f' ts = p_pred tv f ts.
  Proof. intros f. apply (MONO_all f). Qed.
  Lemma p_bprim_mono : forall f f' ts, f <= f' -> p_bprim tv f ts <> PFuel -> p_bprim tv f' ts = p_bprim tv f ts.
  Proof. intros f. apply (MONO_all f). Qed.
  Lemma p_bprim_loop_mono : forall f f' l ts,
    f <= f' -> p_bprim_loop tv f l ts <> PFuel -> p_bprim_loop tv f' l ts = p_bprim_loop tv f l ts.
  Proof. intros f. apply (MONO_all f). Qed.
  Lemma p_expr_mono : forall f f' minp ts,
    f <= f' -> p_expr tv f minp ts <> PFuel -> p_expr tv f' minp ts = p_expr tv f minp ts.
  Proof. intros f. apply (MONO_all f). Qed.
  Lemma p_expr_loop_mono : forall f f' minp l ts,
    f <= f' -> p_expr_loop tv f minp l ts <> PFuel -> p_expr_loop tv f' minp l ts = p_expr_loop tv f minp l ts.
  Proof. intros f. apply (MONO_all f). Qed.

  Theorem parse_fuel_mono : forall f f' ts, f <= f' -> parse tv f ts <> PFuel -> parse tv f' ts = parse tv f ts.
  Proof.
    intros f f' ts L. unfold parse. destruct ts as [|t ts]; [reflexivity|].
    apply bind_mono.
    - apply p_expr_mono; auto.
    - intros; reflexivity.
  Qed.

  (* ================================================================== (2) linear fuel adequacy *)
  Lemma p_item_G ts : G (List.length ts) (p_item tv ts).
  Proof.
    unfold p_item.
    repeat match goal with
           | |- G _ (POk _) => apply G_ok; cbn [List.length]; lia
           | |- G _ (PErr _) => apply G_err
           | |- context [match ?x with _ => _ end] => destruct x; cbv beta iota
           end.
  Qed.

  Definition ADQ (f : nat) : Prop :=
    (forall ts, 5 * List.length ts + 1 <= f -> G (List.length ts) (p_simple tv f ts)) /\
    (forall ts, 5 * List.length ts + 6 <= f -> G (List.length ts) (p_args tv f ts)) /\
    (forall ts, 5 * List.length ts + 1 <= f -> G (List.length ts) (p_args_tail tv f ts)) /\
    (forall minp ts, 5 * List.length ts + 2 <= f -> G (List.length ts) (p_bit tv f minp ts)) /\
    (forall minp l ts, 5 * List.length ts + 2 <= f -> G (S (List.length ts)) (p_bit_loop tv f minp l ts)) /\
    (forall ts, 5 * List.length ts + 3 <= f -> G (List.length ts) (p_pred tv f ts)) /\
    (forall ts, 5 * List.length ts + 4 <= f -> G (List.length ts) (p_bprim tv f ts)) /\
    (forall l ts, 5 * List.length ts + 4 <= f -> G (S (List.length ts)) (p_bprim_loop tv f l ts)) /\
    (forall minp ts, 5 * List.length ts + 5 <= f -> G (List.length ts) (p_expr tv f minp ts)) /\
    (forall minp l ts, 5 * List.length ts + 5 <= f -> G (S (List.length ts)) (p_expr_loop tv f minp l ts)).

  (* the IH facts are used through G_weaken so that the bound of the goal need not be the exact length *)
  Ltac adq_ih :=
    match goal with
    | H : forall _, _ |- G _ _ => eapply G_weaken; [apply H; cbn [List.length] in *; lia | cbn [List.length] in *; lia]
    end.

  Ltac adq_solve :=
    cbv beta iota;
    first
      [ apply G_err
      | apply G_ok; cbn [List.length] in *; lia
      | apply G_mk_call; cbn [List.length] in *; lia
      | adq_ih
      | eapply G_bind; [ first [apply p_item_G | adq_ih_exact] | intros ? ? ?; adq_solve ]
      | match goal with |- context [match ?x with _ => _ end] => destruct x; adq_solve end ]
  with adq_ih_exact :=
    match goal with
    | H : forall _, _ |- G _ _ => apply H; cbn [List.length] in *; lia
    end.

  Lemma p_inlist_adq : forall f ts, 5 * List.length ts + 1 <= f -> G (List.length ts) (p_inlist tv f ts).
  Proof.
    induction f as [|f IH]; intros ts L; [lia|].
    rewrite p_inlist_eq. adq_solve.
  Qed.

  Ltac adq_start IH :=
    destruct IH as (I1 & I2 & I3 & I4 & I5 & I6 & I7 & I8 & I9 & I10);
    pose proof p_inlist_adq as I0.

  Lemma ADQ_0 : ADQ 0.
  Proof. repeat apply conj; intros; lia. Qed.

  Lemma AS_simple f : ADQ f -> forall ts, 5 * List.length ts + 1 <= S f -> G (List.length ts) (p_simple tv (S f) ts).
  Proof. intros IH ts L. adq_start IH. rewrite p_simple_eq. adq_solve. Qed.
  Lemma AS_args f : ADQ f -> forall ts, 5 * List.length ts + 6 <= S f -> G (List.length ts) (p_args tv (S f) ts).
  Proof. intros IH ts L. adq_start IH. rewrite p_args_eq. adq_solve. Qed.
  Lemma AS_args_tail f : ADQ f ->
    forall ts, 5 * List.length ts + 1 <= S f -> G (List.length ts) (p_args_tail tv (S f) ts).
  Proof. intros IH ts L. adq_start IH. rewrite p_args_tail_eq. adq_solve. Qed.
  Lemma AS_bit f : ADQ f ->
    forall minp ts, 5 * List.length ts + 2 <= S f -> G (List.length ts) (p_bit tv (S f) minp ts).
  Proof. intros IH minp ts L. adq_start IH. rewrite p_bit_eq. adq_solve. Qed.
  Lemma AS_bit_loop f : ADQ f ->
    forall minp l ts, 5 * List.length ts + 2 <= S f -> G (S (List.length ts)) (p_bit_loop tv (S f) minp l ts).
  Proof. intros IH minp l ts L. adq_start IH. rewrite p_bit_loop_eq. adq_solve. Qed.
  Lemma AS_pred f : ADQ f -> forall ts, 5 * List.length ts + 3 <= S f -> G (List.length ts) (p_pred tv (S f) ts).
  Proof. intros IH ts L. adq_start IH. rewrite p_pred_eq. adq_solve. Qed.
  Lemma AS_bprim f : ADQ f -> forall ts, 5 * List.length ts + 4 <= S f -> G (List.length ts) (p_bprim tv (S f) ts).
  Proof. intros IH ts L. adq_start IH. rewrite p_bprim_eq. adq_solve. Qed.
  Lemma AS_bprim_loop f : ADQ f ->
    forall l ts, 5 * List.length ts + 4 <= S f -> G (S (List.length ts)) (p_bprim_loop tv (S f) l ts).
  Proof. intros IH l ts L. adq_start IH. rewrite p_bprim_loop_eq. adq_solve. Qed.
  Lemma AS_expr f : ADQ f ->
    forall minp ts, 5 * List.length ts + 5 <= S f -> G (List.length ts) (p_expr tv (S f) minp ts).
  Proof. intros IH minp ts L. adq_start IH. rewrite p_expr_eq. adq_solve. Qed.
  Lemma AS_expr_loop f : ADQ f ->
    forall minp l ts, 5 * List.length ts + 5 <= S f -> G (S (List.length ts)) (p_expr_loop tv (S f) minp l ts).
  Proof. intros IH minp l ts L. adq_start IH. rewrite p_expr_loop_eq. adq_solve. Qed.

  Lemma ADQ_all : forall f, ADQ f.
  Proof.
    induction f as [|f IH]; [apply ADQ_0|].
    repeat apply conj.
    - apply AS_simple; auto.
    - apply AS_args; auto.
    - apply AS_args_tail; auto.
    - apply AS_bit; auto.
    - apply AS_bit_loop; auto.
    - apply AS_pred; auto.
    - apply AS_bprim; auto.
    - apply AS_bprim_loop; auto.
    - apply AS_expr; auto.
    - apply AS_expr_loop; auto.
  Qed.

  (* the per-function statements in the plain form *)
  Lemma p_inlist_adequate : forall f ts, 5 * List.length ts + 1 <= f ->
    p_inlist tv f ts <> PFuel /\ (forall t r, p_inlist tv f ts = POk (t, r) -> List.length r < List.length ts).
  Proof. exact p_inlist_adq. Qed.
  Lemma p_simple_adequate : forall f ts, 5 * List.length ts + 1 <= f ->
    p_simple tv f ts <> PFuel /\ (forall t r, p_simple tv f ts = POk (t, r) -> List.length r < List.length ts).
  Proof. intros f. apply (ADQ_all f). Qed.
  Lemma p_args_adequate : forall f ts, 5 * List.length ts + 6 <= f ->
    p_args tv f ts <> PFuel /\ (forall t r, p_args tv f ts = POk (t, r) -> List.length r < List.length ts).
  Proof. intros f. apply (ADQ_all f). Qed.
  Lemma p_args_tail_adequate : forall f ts, 5 * List.length ts + 1 <= f ->
    p_args_tail tv f ts <> PFuel /\ (forall t r, p_args_tail tv f ts = POk (t, r) -> List.length r < List.length ts).
  Proof. intros f. apply (ADQ_all f). Qed.
  Lemma p_bit_adequate : forall f minp ts, 5 * List.length ts + 2 <= f ->
    p_bit tv f minp ts <> PFuel /\ (forall t r, p_bit tv f minp ts = POk (t, r) -> List.length r < List.length ts).
  Proof. intros f. apply (ADQ_all f). Qed.
  Lemma p_bit_loop_adequate : forall f minp l ts, 5 * List.length ts + 2 <= f ->
    p_bit_loop tv f minp l ts <> PFuel /\
    (forall t r, p_bit_loop tv f minp l ts = POk (t, r) -> List.length r <= List.length ts).
  Proof.
    intros f minp l ts L. destruct (proj1 (proj2 (proj2 (proj2 (proj2 (ADQ_all f))))) minp l ts L) as [H1 H2].
    split; auto. intros t r E. specialize (H2 t r E). lia.
  Qed.
  Lemma p_pred_adequate : forall f ts, 5 * List.length ts + 3 <= f ->
    p_pred tv f ts <> PFuel /\ (forall t r, p_pred tv f ts = POk (t, r) -> List.length r < List.length ts).
  Proof. intros f. apply (ADQ_all f). Qed.
  Lemma p_bprim_adequate : forall f ts, 5 * List.length ts + 4 <= f ->
    p_bprim tv f ts <> PFuel /\ (forall t r, p_bprim tv f ts = POk (t, r) -> List.length r < List.length ts).
  Proof. intros f. apply (ADQ_all f). Qed.
  Lemma p_bprim_loop_adequate : forall f l ts, 5 * List.length ts + 4 <= f ->
    p_bprim_loop tv f l ts <> PFuel /\
    (forall t r, p_bprim_loop tv f l ts = POk (t, r) -> List.length r <= List.length ts).
  Proof.
    intros f l ts L.
    destruct (proj1 (proj2 (proj2 (proj2 (proj2 (proj2 (proj2 (proj2 (ADQ_all f)))))))) l ts L) as [H1 H2].
    split; auto. intros t r E. specialize (H2 t r E). lia.
  Qed.
  Lemma p_expr_adequate : forall f minp ts, 5 * List.length ts + 5 <= f ->
    p_expr tv f minp ts <> PFuel /\ (forall t r, p_expr tv f minp ts = POk (t, r) -> List.length r < List.length ts).
  Proof. intros f. apply (ADQ_all f). Qed.
  Lemma p_expr_loop_adequate : forall f minp l ts, 5 * List.length ts + 5 <= f ->
    p_expr_loop tv f minp l ts <> PFuel /\
    (forall t r, p_expr_loop tv f minp l ts = POk (t, r) -> List.length r <= List.length ts).
  Proof.
    intros f minp l ts L.
    destruct (proj2 (proj2 (proj2 (proj2 (proj2 (proj2 (proj2 (proj2 (proj2 (ADQ_all f))))))))) minp l ts L) as [H1 H2].
    split; auto. intros t r E. specialize (H2 t r E). lia.
  Qed.

  Theorem fuel_adequate : forall ts fuel, fuel_for ts <= fuel -> parse tv fuel ts <> PFuel.
  Proof.
    intros ts fuel L. unfold fuel_for in L. unfold parse. destruct ts as [|t ts]; [discriminate|].
    destruct (p_expr_adequate fuel 0 (t :: ts)) as [H _]; [lia|].
    destruct (p_expr tv fuel 0 (t :: ts)) as [[x r]|e|]; simpl.
    - destruct r; discriminate.
    - discriminate.
    - congruence.
  Qed.

  Theorem parse_fuel_stable : forall ts fuel, fuel_for ts <= fuel -> parse tv fuel ts = parse_tokens tv ts.
  Proof.
    intros ts fuel L. unfold parse_tokens. apply parse_fuel_mono; auto.
    apply fuel_adequate. apply Nat.le_refl.
  Qed.

  Theorem ev_parse_tokens : forall ts x, ev (fun fuel => parse tv fuel ts) x -> parse_tokens tv ts = POk x.
  Proof.
    intros ts x [n Hn].
    rewrite <- (parse_fuel_stable ts (Nat.max n (fuel_for ts))) by apply Nat.le_max_r.
    apply Hn. apply Nat.le_max_l.
  Qed.

  Theorem parse_tokens_ev : forall ts x, parse_tokens tv ts = POk x -> ev (fun fuel => parse tv fuel ts) x.
  Proof.
    intros ts x H. exists (fuel_for ts). intros fuel L. rewrite parse_fuel_stable by exact L. exact H.
  Qed.

End Fuel.
