(* C18 -- lemmas about the Config key model (Model/ConfigKey.v). *)
From Coq Require Import ZArith NArith List Bool Lia.
From V Require Import Model.ConfigKey.
Import ListNotations.
Open Scope N_scope.

Lemma seqb_eq : forall a b, seqb a b = true -> a = b.
Proof.
  induction a; destruct b; simpl; intros; try discriminate; auto.
  apply andb_true_iff in H as [H1 H2]. apply N.eqb_eq in H1. f_equal; auto.
Qed.

Lemma memc_cons_false : forall d c k, memc d (c :: k) = false -> (c =? d) = false /\ memc d k = false.
Proof.
  unfold memc; simpl; intros. apply orb_false_iff in H as [H1 H2]. split; auto. rewrite N.eqb_sym; auto.
Qed.

(* ---------- split is a left inverse of join on delimiter-free parts ---------- *)
Lemma split_nodelim_end : forall d k, memc d k = false -> split d k = [k].
Proof.
  induction k; simpl; intros; auto.
  apply memc_cons_false in H as [H1 H2]. rewrite H1, (IHk H2). reflexivity.
Qed.
Lemma split_nodelim : forall d k rest, memc d k = false -> split d (k ++ d :: rest) = k :: split d rest.
Proof.
  induction k; simpl; intros.
  - rewrite N.eqb_refl. reflexivity.
  - apply memc_cons_false in H as [H1 H2]. rewrite H1, (IHk rest H2). reflexivity.
Qed.
Lemma split_join_p : forall d ks, ks <> [] -> Forall (fun k => memc d k = false) ks -> split d (join d ks) = ks.
Proof.
  induction ks as [|k r IH]; intros Hne H; [congruence|].
  inversion H; subst. destruct r as [|k2 r'].
  - simpl. apply split_nodelim_end; auto.
  - change (join d (k :: k2 :: r')) with (k ++ d :: join d (k2 :: r')).
    rewrite split_nodelim by auto. rewrite IH; auto. discriminate.
Qed.

(* ---------- escaping is the identity on delimiter-free keys ---------- *)
Lemma esc_nodelim : forall d k, memc d k = false -> esc d k = k.
Proof.
  unfold esc. induction k; simpl; intros; auto.
  apply memc_cons_false in H as [H1 H2]. rewrite H1. simpl. f_equal; auto.
Qed.
Lemma map_esc_nodelim : forall d ks, Forall (fun k => memc d k = false) ks ->
  map (fun k => esc d (key_str k)) (map KS ks) = ks.
Proof.
  induction ks; simpl; intros; auto. inversion H; subst. rewrite esc_nodelim by auto. f_equal; auto.
Qed.

(* ---------- no "backslash delimiter" pair in the joined name ---------- *)
Fixpoint ends_bs (k : str) : bool :=
  match k with [] => false | [c] => c =? BS | _ :: r => ends_bs r end.
Fixpoint nonlast_ok (ks : list str) : bool :=
  match ks with [] => true | [_] => true | k :: r => negb (ends_bs k) && nonlast_ok r end.

Lemma infixb2_cons : forall a b x s,
  infixb [a; b] (x :: s) = ((a =? x) && match s with y :: _ => b =? y | [] => false end) || infixb [a; b] s.
Proof.
  intros. simpl. destruct s; simpl; [rewrite andb_false_r; reflexivity|]. rewrite andb_true_r. reflexivity.
Qed.
Lemma no_infix_nodelim : forall d s, memc d s = false -> infixb [BS; d] s = false.
Proof.
  induction s as [|x s IH]; intros; [reflexivity|].
  apply memc_cons_false in H as [H1 H2]. rewrite infixb2_cons, (IH H2).
  destruct s as [|y s']; [rewrite andb_false_r; reflexivity|].
  apply memc_cons_false in H2 as [H3 _]. rewrite (N.eqb_sym d y), H3, andb_false_r. reflexivity.
Qed.
Lemma infix_app_delim : forall d k rest, d <> BS -> memc d k = false -> ends_bs k = false ->
  infixb [BS; d] (k ++ d :: rest) = infixb [BS; d] rest.
Proof.
  intros d k rest Hd. induction k as [|c k IH]; intros Hm He.
  - simpl app. rewrite infixb2_cons. assert (E : (BS =? d) = false) by (apply N.eqb_neq; congruence).
    rewrite E. reflexivity.
  - apply memc_cons_false in Hm as [H1 H2]. destruct k as [|c' k'].
    + simpl in He. simpl app. rewrite infixb2_cons. rewrite (N.eqb_sym BS c), He. simpl.
      apply (IH eq_refl eq_refl).
    + change ((c :: c' :: k') ++ d :: rest) with (c :: ((c' :: k') ++ d :: rest)).
      rewrite infixb2_cons. simpl app at 1.
      apply memc_cons_false in H2 as [H3 H4].
      rewrite (N.eqb_sym d c'), H3, andb_false_r. simpl orb.
      apply IH; auto. unfold memc; simpl. rewrite (N.eqb_sym d c'), H3. exact H4.
Qed.
Lemma no_infix_join : forall d ks, d <> BS -> Forall (fun k => memc d k = false) ks -> nonlast_ok ks = true ->
  infixb [BS; d] (join d ks) = false.
Proof.
  intros d ks Hd. induction ks as [|k r IH]; intros H Hn; [reflexivity|].
  inversion H; subst. destruct r as [|k2 r'].
  - simpl. apply no_infix_nodelim; auto.
  - change (join d (k :: k2 :: r')) with (k ++ d :: join d (k2 :: r')).
    change (nonlast_ok (k :: k2 :: r')) with (negb (ends_bs k) && nonlast_ok (k2 :: r')) in Hn.
    apply andb_true_iff in Hn as [Hn1 Hn2]. apply negb_true_iff in Hn1.
    rewrite infix_app_delim by auto. apply IH; auto.
Qed.

(* ---------- the name of a string path splits back into the path ---------- *)
Lemma name_split_p : forall alnum d ks, alnum d = false -> d <> BS -> ks <> [] ->
  Forall (fun k => memc d k = false) ks -> nonlast_ok ks = true ->
  split_key alnum (mkname d (map KS ks)) = Ok (map KS ks).
Proof.
  intros alnum d ks Ha Hd Hne Hf Hn. unfold mkname, split_key.
  rewrite map_esc_nodelim by auto. rewrite Ha, no_infix_join by auto. rewrite split_join_p by auto. reflexivity.
Qed.

(* ---------- the delimiter that names() chooses ---------- *)
Lemma next_delim_ge : forall alnum f d d', next_delim alnum f d = Some d' -> d < d'.
Proof.
  induction f; simpl; intros; [discriminate|].
  destruct (alnum (d + 1)); [apply IHf in H; lia | inversion H; lia].
Qed.
Local Opaque next_delim.
Lemma find_delim_sound : forall alnum t d comb d', find_delim alnum t d comb = Some d' -> memc d' comb = false /\ d <= d'.
Proof.
  induction t; simpl; intros d comb d' H.
  - destruct (memc d comb) eqn:E; simpl in H; [discriminate | inversion H; subst; split; [auto | lia]].
  - destruct (memc d comb) eqn:E; simpl in H.
    + destruct (next_delim alnum 256 d) eqn:En; [|discriminate]. apply next_delim_ge in En.
      apply IHt in H as [H1 H2]. split; [auto | lia].
    + inversion H; subst; split; [auto | lia].
Qed.
Local Transparent next_delim.
Lemma memc_flat_map : forall {A} d (f : A -> str) l a, memc d (flat_map f l) = false -> In a l -> memc d (f a) = false.
Proof.
  unfold memc. induction l; simpl; intros; [contradiction|].
  rewrite existsb_app in H. apply orb_false_iff in H as [H1 H2]. destruct H0; subst; auto.
Qed.
Lemma default_delim_fresh : forall alnum top d l t x k, names_default alnum top = Some (d, l) ->
  In (t, x) (tuples (CDict top)) -> In k t -> memc d (key_str k) = false /\ d <> BS.
Proof.
  unfold names_default. intros alnum top d l t x k H Hi Hk.
  destruct (find_delim alnum 100 D0c (combined top)) eqn:E; [|discriminate]. inversion H; subst.
  apply find_delim_sound in E as [E1 E2]. split.
  - unfold combined in E1. pose proof (memc_flat_map d _ _ (t, x) E1 Hi) as H1. simpl in H1.
    exact (memc_flat_map d key_str t k H1 Hk).
  - unfold D0c, BS in *. lia.
Qed.

(* ---------- top-level shortcut: a name that starts with a fresh delimiter is not a top-level key ---------- *)
Lemma dget_fresh : forall d s top, (forall k v, In (KS k, v) top -> memc d k = false) -> dget (KS (d :: s)) top = None.
Proof.
  induction top as [|[k v] r IH]; intros H; [reflexivity|].
  destruct k as [k| | |]; cbn [dget key_eq key_num].
  - destruct (seqb (d :: s) k) eqn:E.
    + apply seqb_eq in E. subst. specialize (H (d :: s) v (or_introl eq_refl)). unfold memc in H. simpl in H.
      rewrite N.eqb_refl in H. discriminate.
    + apply IH. intros; eapply H; right; eauto.
  - apply IH. intros; eapply H; right; eauto.
  - apply IH. intros; eapply H; right; eauto.
  - apply IH. intros; eapply H; right; eauto.
Qed.

(* ---------- names x [] for string paths ---------- *)
Lemma names_retrieve_core_p : forall alnum top d ks x,
  alnum d = false -> d <> BS -> ks <> [] ->
  Forall (fun k => memc d k = false) ks -> nonlast_ok ks = true ->
  (forall k v, In (KS k, v) top -> memc d k = false) ->
  walk (map KS ks) (CDict top) = Ok (Some x) ->
  lookup alnum top (mkname d (map KS ks)) = Ok x /\ contains alnum top (mkname d (map KS ks)) = Ok true.
Proof.
  intros alnum top d ks x Ha Hd Hne Hf Hn Ht Hw.
  set (n := mkname d (map KS ks)).
  assert (Hg : dget (KS n) top = None) by (unfold n, mkname; apply dget_fresh; auto).
  assert (Hs : split_key alnum n = Ok (map KS ks)) by (apply name_split_p; auto).
  unfold lookup, contains. rewrite Hg, Hs. unfold walk1.
  destruct ks as [|k0 r]; [congruence|]. cbn [map] in *. rewrite Hw. split; reflexivity.
Qed.

Lemma top_keys_in_tuples : forall top k v, In (k, v) top -> In ([k], v) (tuples (CDict top)).
Proof.
  intros top k v. simpl. induction top as [|[k' v'] r IH]; intros H; [contradiction|].
  destruct H as [H|H].
  - inversion H; subst. left. reflexivity.
  - right. apply in_or_app. right. apply IH; auto.
Qed.

Lemma tuples_nonempty : forall top x, ~ In ([], x) (tuples (CDict top)).
Proof.
  intros top x. simpl. induction top as [|[k v] r IH]; simpl; intros H; [auto|].
  destruct H as [H|H]; [discriminate|]. apply in_app_or in H as [H|H]; [|auto].
  apply in_map_iff in H as [[t y] [H _]]. discriminate.
Qed.

Lemma names_retrieve_partial_p : forall alnum top d l ks x,
  names_default alnum top = Some (d, l) -> alnum d = false ->
  In (map KS ks, x) (tuples (CDict top)) -> nonlast_ok ks = true ->
  walk (map KS ks) (CDict top) = Ok (Some x) ->
  In (mkname d (map KS ks), x) l /\
  lookup alnum top (mkname d (map KS ks)) = Ok x /\ contains alnum top (mkname d (map KS ks)) = Ok true.
Proof.
  intros alnum top d l ks x Hn Ha Hi Hok Hw.
  assert (Hl : l = names_with d top).
  { unfold names_default in Hn. destruct (find_delim alnum 100 D0c (combined top)); inversion Hn; auto. }
  split.
  - subst l. unfold names_with. apply in_map_iff. exists (map KS ks, x). split; auto.
  - assert (Hne : ks <> []).
    { intro; subst ks. exact (tuples_nonempty _ _ Hi). }
    assert (Hd : d <> BS).
    { destruct ks as [|k0 r]; [congruence|]. eapply (default_delim_fresh alnum top d l _ x (KS k0) Hn Hi). left; reflexivity. }
    apply names_retrieve_core_p; auto.
    + apply Forall_forall. intros k Hk.
      destruct (default_delim_fresh alnum top d l _ x (KS k) Hn Hi) as [H1 _]; [apply in_map; auto | exact H1].
    + intros k v Hin. apply top_keys_in_tuples in Hin.
      destruct (default_delim_fresh alnum top d l _ v (KS k) Hn Hin) as [H1 _]; [left; reflexivity | exact H1].
Qed.

(* ---------- the property fails on the faithful model: witnesses ---------- *)
Definition ascii_alnum (c : N) : bool :=
  ((48 <=? c) && (c <=? 57)) || ((65 <=? c) && (c <=? 90)) || ((97 <=? c) && (c <=? 122)).
(* Config({"a\\": {"b": 1}}) *)
Definition w_backslash : list (key * cv) := [(KS [97; 92], CDict [(KS [98], CInt 1)])].
(* Config({"a": {1: 2}}) *)
Definition w_intkey : list (key * cv) := [(KS [97], CDict [(KI 1%Z, CInt 2)])].

Definition refutes (top : list (key * cv)) : Prop :=
  exists d l n x, names_default ascii_alnum top = Some (d, l) /\ In (n, x) l /\ lookup ascii_alnum top n = Err KeyErr.

Lemma names_retrieve_refuted_backslash_p : refutes w_backslash.
Proof.
  exists 8594, (names_with 8594 w_backslash), [8594; 97; 92; 8594; 98], (CInt 1).
  split; [vm_compute; reflexivity|]. split; [vm_compute; right; left; reflexivity | vm_compute; reflexivity].
Qed.
Lemma names_retrieve_refuted_intkey_p : refutes w_intkey.
Proof.
  exists 8594, (names_with 8594 w_intkey), [8594; 97; 8594; 49], (CInt 2).
  split; [vm_compute; reflexivity|]. split; [vm_compute; right; left; reflexivity | vm_compute; reflexivity].
Qed.
(* Config({"a\\.b": 1}).names(delimiter=".") : the reported key raises ValueError *)
Lemma names_explicit_refuted_p :
  exists top l n x, names_explicit ascii_alnum 46 top = Some l /\ In (n, x) l /\ lookup ascii_alnum top n = Err ValueErr.
Proof.
  exists [(KS [97; 92; 46; 98], CInt 1)], (names_with 46 [(KS [97; 92; 46; 98], CInt 1)]), [46; 97; 92; 92; 46; 98], (CInt 1).
  split; [vm_compute; reflexivity|]. split; [vm_compute; left; reflexivity | vm_compute; reflexivity].
Qed.
