(* Lemmas for C09 over Model/Trash.v and the regenerated template data (Gen/TemplateGen.v). *)
From Coq Require Import String Ascii List Bool NArith Lia.
From V Require Import Model.Template Gen.TemplateGen Model.Trash.
Import ListNotations.
Open Scope string_scope.

Definition fields_D (dt run inst det detname : string) : fields :=
  [("datasetType", dt); ("run", run); ("instrument", inst); ("detector", det); ("detector.full_name", detname)].

(* ---- location keys and the file map -------------------------------------------------------------------- *)
Lemma lkey_eqb_eq : forall a b, lkey_eqb a b = true <-> a = b.
Proof.
  induction a as [|x r IH]; destruct b as [|y r']; simpl; split; intro H; try reflexivity; try discriminate.
  - apply andb_true_iff in H. destruct H as [H1 H2]. apply String.eqb_eq in H1. apply IH in H2. subst. reflexivity.
  - inversion H; subst. rewrite String.eqb_refl. simpl. apply IH. reflexivity.
Qed.

Lemma lkey_eqb_refl : forall a, lkey_eqb a a = true.
Proof. intro a. apply lkey_eqb_eq. reflexivity. Qed.

Lemma lkey_eqb_neq : forall a b, a <> b -> lkey_eqb a b = false.
Proof. intros a b H. destruct (lkey_eqb a b) eqn:E; [apply lkey_eqb_eq in E; contradiction | reflexivity]. Qed.

Lemma inside_differ : forall k l, inside k = true -> inside l = false -> lkey_eqb k l = false.
Proof. intros k l Hk Hl. apply lkey_eqb_neq. intro E. subst. rewrite Hk in Hl. discriminate. Qed.

Lemma fget_fdel_other : forall f k l, lkey_eqb k l = false -> fget (fdel f k) l = fget f l.
Proof.
  induction f as [|[k' v] r IH]; intros k l H; simpl; [reflexivity|].
  destruct (lkey_eqb k' k) eqn:E.
  - apply lkey_eqb_eq in E. subst k'. rewrite H. apply IH. exact H.
  - simpl. destruct (lkey_eqb k' l); [reflexivity | apply IH; exact H].
Qed.

Lemma fget_fdel_same : forall f k, fget (fdel f k) k = None.
Proof.
  induction f as [|[k' v] r IH]; intro k; simpl; [reflexivity|].
  destruct (lkey_eqb k' k) eqn:E; [apply IH | simpl; rewrite E; apply IH].
Qed.

Lemma fget_fset_same : forall f k v, fget (fset f k v) k = Some v.
Proof. intros. unfold fset. simpl. rewrite lkey_eqb_refl. reflexivity. Qed.

Lemma fget_fset_other : forall f k v l, lkey_eqb k l = false -> fget (fset f k v) l = fget f l.
Proof. intros. unfold fset. simpl. rewrite H. apply fget_fdel_other. exact H. Qed.

(* ---- emptyTrash ------------------------------------------------------------------------------------------ *)
Lemma delete_all_frame : forall s rows f l,
  (forall r, In r rows -> deletes s (snd r) = true -> lkey_eqb (loc (snd r)) l = false) ->
  fget (delete_all s rows f) l = fget f l.
Proof.
  induction rows as [|r rest IH]; intros f l H; simpl; [reflexivity|].
  rewrite IH by (intros r' Hin; apply H; right; exact Hin).
  destruct (deletes s (snd r)) eqn:D; [|reflexivity].
  apply fget_fdel_other. apply H; [left; reflexivity | exact D].
Qed.

Lemma delete_all_deleted : forall s rows f l c,
  fget f l = Some c -> fget (delete_all s rows f) l = None ->
  exists r, In r rows /\ deletes s (snd r) = true /\ loc (snd r) = l.
Proof.
  induction rows as [|r rest IH]; intros f l c Hf Hd; simpl in Hd; [rewrite Hf in Hd; discriminate|].
  destruct (deletes s (snd r)) eqn:D.
  - destruct (lkey_eqb (loc (snd r)) l) eqn:E.
    + exists r. split; [left; reflexivity|]. split; [exact D | apply lkey_eqb_eq; exact E].
    + rewrite <- (fget_fdel_other f _ _ E) in Hf.
      destruct (IH _ _ _ Hf Hd) as [r' [Hin Hr']]. exists r'. split; [right; exact Hin | exact Hr'].
  - destruct (IH _ _ _ Hf Hd) as [r' [Hin Hr']]. exists r'. split; [right; exact Hin | exact Hr'].
Qed.

(* ---- strings: the text before the last "#" and SQL LIKE ------------------------------------------------------ *)
Lemma cut_last_split : forall c s h, cut_last c s = Some h -> exists t, s = h ++ String c t.
Proof.
  induction s as [|d r IH]; intros h H; simpl in H; [discriminate|].
  destruct (cut_last c r) as [h'|] eqn:E.
  - inversion H; subst. destruct (IH h' eq_refl) as [t Ht]. exists t. simpl. rewrite <- Ht. reflexivity.
  - destruct (Ascii.eqb d c) eqn:Ed; [|discriminate]. inversion H; subst. apply Ascii.eqb_eq in Ed. subst.
    exists r. reflexivity.
Qed.

Lemma cut_last_none : forall c s, has_char c s = false -> cut_last c s = None.
Proof.
  induction s as [|d r IH]; intro H; simpl in *; [reflexivity|].
  destruct (Ascii.eqb c d) eqn:E; [discriminate|]. rewrite (IH H).
  rewrite Ascii.eqb_sym. rewrite E. reflexivity.
Qed.

Lemma cut_last_some : forall c s, has_char c s = true -> exists h, cut_last c s = Some h.
Proof.
  induction s as [|d r IH]; intro H; simpl in *; [discriminate|].
  destruct (cut_last c r) as [h'|] eqn:E; [eexists; reflexivity|].
  destruct (Ascii.eqb c d) eqn:Ed.
  - rewrite Ascii.eqb_sym. rewrite Ed. eexists; reflexivity.
  - destruct (IH H) as [h Hh]. discriminate.
Qed.

Lemma artifact_of_plain : forall p, has_char "#"%char p = false -> artifact_of p = p.
Proof. intros p H. unfold artifact_of, before_last. rewrite (cut_last_none _ _ H). reflexivity. Qed.

Lemma artifact_of_split : forall p, has_char "#"%char p = true -> exists t, p = artifact_of p ++ String "#"%char t.
Proof.
  intros p H. destruct (cut_last_some _ _ H) as [h Hh]. unfold artifact_of, before_last. rewrite Hh.
  apply cut_last_split. exact Hh.
Qed.

Lemma like_pct_any : forall t, like "%" t = true.
Proof. induction t as [|d r IH]; [reflexivity|]. simpl. simpl in IH. exact IH. Qed.

Lemma like_pct_here : forall pr t, like pr t = true -> like (String "%"%char pr) t = true.
Proof. intros pr t H. destruct t; simpl; rewrite H; reflexivity. Qed.

Lemma like_pct_skip : forall pr d t, like (String "%"%char pr) t = true -> like (String "%"%char pr) (String d t) = true.
Proof. intros pr d t H. simpl. simpl in H. rewrite H. apply orb_true_r. Qed.

Lemma like_app_self : forall a pat s, like pat s = true -> like (a ++ pat) (a ++ s) = true.
Proof.
  induction a as [|c r IH]; intros pat s H; [exact H|].
  change ((String c r ++ pat)) with (String c (r ++ pat)). change (String c r ++ s) with (String c (r ++ s)).
  destruct (Ascii.eqb c "%"%char) eqn:E.
  - apply Ascii.eqb_eq in E. subst c. apply like_pct_skip. apply like_pct_here. apply IH. exact H.
  - simpl. rewrite E. rewrite Ascii.eqb_refl. rewrite orb_true_r. simpl. apply IH. exact H.
Qed.

Lemma sapp_assoc : forall a b c : string, (a ++ b) ++ c = a ++ (b ++ c).
Proof. induction a as [|x r IH]; intros; simpl; [reflexivity | rewrite IH; reflexivity]. Qed.

Lemma like_self_prefix : forall p, has_char "#"%char p = true -> like_prefix (artifact_of p ++ "#") p = true.
Proof.
  intros p H. destruct (artifact_of_split p H) as [t Ht]. unfold like_prefix.
  rewrite Ht at 2. rewrite sapp_assoc. apply like_app_self.
  simpl. apply (like_pct_any t).
Qed.
