(* finite table: lookup_order of {one skypix dimension at the end of a pixelization system} + every closed set of non-skypix dimensions *)
From Coq Require Import String List Bool Arith.
From V Require Import Model.Universe Model.Group Model.GroupX Gen.Universes Proofs.GroupProofs Proofs.GroupProofsShipped Proofs.GroupProofsXS.
Import ListNotations.
Open Scope string_scope.
Open Scope list_scope.

Lemma skypix_lookup_sample : skypix_lookup_okb u_current sky_sample_current cl_current = true.
Proof. vm_compute. reflexivity. Qed.
