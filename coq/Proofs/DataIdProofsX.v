(* Wave-5 extensions for C13 (1): union is TOTAL on well-formed data IDs (with or without attached records), and
   Registry.expandDataId as a whole (standardize, walk, the final `standardize(keys, dimensions).expanded(records)`) is
   sound and complete with respect to the stored rows. *)
From Coq Require Import String List Bool Arith ZArith Lia.
From V Require Import Model.Universe Model.Group Model.DataId Proofs.GroupProofs Proofs.DataIdProofs
  Proofs.DataIdProofsUnion Proofs.DataIdProofsExpand.
Import ListNotations.
Open Scope string_scope.
Open Scope list_scope.

(* ---------------------------------------------------------------------------------------------------------------- *)
(* keys of a value tuple                                                                                            *)
(* ---------------------------------------------------------------------------------------------------------------- *)
Lemma combine_has_key (ks : list string) : forall (vs : list value) k,
  length vs = length ks -> In k ks -> has_key (combine ks vs) k = true.
Proof.
  induction ks as [|x r IH]; intros vs k L Hk; [contradiction|].
  destruct vs as [|v vs]; [discriminate|]. unfold has_key. simpl.
  destruct (String.eqb x k) eqn:E; [reflexivity|].
  destruct Hk as [->|Hk]; [rewrite String.eqb_refl in E; discriminate|].
  assert (length vs = length r) as L' by (simpl in L; lia).
  specialize (IH vs k L' Hk). unfold has_key in IH. exact IH.
Qed.

Lemma combine_key_in (ks : list string) : forall (vs : list value) k v, aget (combine ks vs) k = Some v -> In k ks.
Proof.
  induction ks as [|x r IH]; intros vs k v H; [discriminate|].
  destruct vs as [|w vs]; [discriminate|]. simpl in H.
  destruct (String.eqb x k) eqn:E; [apply String.eqb_eq in E; now left | right; eapply IH; eauto].
Qed.

Lemma full_has_keys d k : dfull d = true -> In k (data_coordinate_keys (dgroup d)) -> has_key (dmapping d) k = true.
Proof. unfold dfull, dmapping. intros F Hk. apply Nat.eqb_eq in F. now apply combine_has_key. Qed.

Lemma has_required_keys d k : has_required d -> In k (grequired (dgroup d)) -> has_key (dmapping d) k = true.
Proof.
  unfold has_required. intros H Hk. destruct (map_opt_all _ _ _ H k Hk) as [v Hv].
  unfold has_key. unfold dc_get in Hv. now rewrite Hv.
Qed.

(* ---------------------------------------------------------------------------------------------------------------- *)
(* union: totality                                                                                                  *)
(* ---------------------------------------------------------------------------------------------------------------- *)
(* the record-free part of `union` (the three classes' short-cuts and the dictionary merge) *)
Definition union_plain (a b : dataid) (G : group) : result dataid :=
  let merged := std_core G (dmapping b ++ dmapping a) in
  if dfull a then
    if geqb (dgroup b) G && has_recs b then Ok b
    else if geqb (dgroup a) G && negb (has_recs b) then Ok a
    else merged
  else if geqb (dgroup b) G then Ok b else merged.

Lemma union_unfold u a b :
  union u a b =
  rbind (match gunion u (dgroup a) (dgroup b) with GOk g => Ok g | GKeyError => Err EKeyError | GOutOfFuel => Err EOutOfFuel end)
  (fun G =>
    match drecs a, drecs b with
    | Some ra, Some rb =>
      rbind (union_plain a b G) (fun r =>
        if has_recs r then Ok r
        else match restrict_recs rb (gelements (dgroup b)), restrict_recs ra (gelements (dgroup a)) with
             | Some rb', Some ra' =>
               let records := rb' ++ ra' in
               if forallb (has_key records) (gelements (dgroup r)) then expanded_with r records else Ok r
             | _, _ => Err EKeyError
             end)
    | _, _ => union_plain a b G
    end).
Proof. reflexivity. Qed.

(* a required dimension of the union is a required dimension of one of the operands *)
Lemma union_required_split u la lb a b G : wf_universe u = true ->
  mkgroup u la = GOk a -> mkgroup u lb = GOk b -> gunion u a b = GOk G ->
  forall k, In k (grequired G) -> In k (grequired a) \/ In k (grequired b).
Proof.
  intros W Ha Hb HG k Hk.
  destruct (union_spec u la lb a b W Ha Hb) as (c & Hc & Hm). rewrite HG in Hc. inversion Hc; subst c.
  unfold gunion in HG.
  apply (required_char_p _ _ _ k HG) in Hk as [Hn Hni].
  apply Hm in Hn as [Hn|Hn]; [left | right].
  - apply (required_char_p _ _ _ k Ha). split; [exact Hn|]. intros d2 e2 Hd2. apply Hni. apply Hm. now left.
  - apply (required_char_p _ _ _ k Hb). split; [exact Hn|]. intros d2 e2 Hd2. apply Hni. apply Hm. now right.
Qed.

Lemma union_merged_ok u la lb a b G : wf_universe u = true ->
  mkgroup u la = GOk (dgroup a) -> mkgroup u lb = GOk (dgroup b) -> has_required a -> has_required b ->
  gunion u (dgroup a) (dgroup b) = GOk G -> exists r, std_core G (dmapping b ++ dmapping a) = Ok r.
Proof.
  intros W Ha Hb Ra Rb HG. pose proof HG as HG'. unfold gunion in HG'.
  apply (std_core_ok_iff u _ G _ HG'). intros k Hk.
  unfold has_key. rewrite aget_app.
  destruct (union_required_split u la lb _ _ G W Ha Hb HG k Hk) as [H|H].
  - destruct (aget (dmapping b) k); [reflexivity|]. pose proof (has_required_keys a k Ra H) as Hh. exact Hh.
  - pose proof (has_required_keys b k Rb H) as Hh. unfold has_key in Hh. destruct (aget (dmapping b) k); [reflexivity | discriminate].
Qed.

Lemma union_plain_total u la lb a b G : wf_universe u = true ->
  mkgroup u la = GOk (dgroup a) -> mkgroup u lb = GOk (dgroup b) -> has_required a -> has_required b ->
  gunion u (dgroup a) (dgroup b) = GOk G -> exists r, union_plain a b G = Ok r.
Proof.
  intros W Ha Hb Ra Rb HG. destruct (union_merged_ok u la lb a b G W Ha Hb Ra Rb HG) as [r Hr].
  unfold union_plain. rewrite Hr.
  destruct (dfull a).
  - destruct (geqb (dgroup b) G && has_recs b); [eauto|]. destruct (geqb (dgroup a) G && negb (has_recs b)); eauto.
  - destruct (geqb (dgroup b) G); eauto.
Qed.

(* the union of two FULL data IDs is full (or is the empty data ID, which holds its records already) *)
Lemma union_plain_full u la lb a b G r : wf_universe u = true ->
  mkgroup u la = GOk (dgroup a) -> mkgroup u lb = GOk (dgroup b) -> gunion u (dgroup a) (dgroup b) = GOk G ->
  dfull a = true -> dfull b = true -> union_plain a b G = Ok r -> has_recs r = true \/ dfull r = true.
Proof.
  intros W Ha Hb HG Fa Fb H. unfold union_plain in H. rewrite Fa in H.
  destruct (geqb (dgroup b) G && has_recs b); [inversion H; subst; now right|].
  destruct (geqb (dgroup a) G && negb (has_recs b)); [inversion H; subst; now right|].
  destruct (union_spec u la lb _ _ W Ha Hb) as (c & Hc & Hm). rewrite HG in Hc. inversion Hc; subst c.
  assert (forallb (has_key (dmapping b ++ dmapping a)) (gnames G) = true) as Hall.
  { apply forallb_forall. intros n Hn. unfold has_key. rewrite aget_app. apply Hm in Hn as [Hn|Hn].
    - destruct (aget (dmapping b) n); [reflexivity|].
      pose proof (full_has_keys a n Fa (names_incl_dck _ _ _ Ha n Hn)) as Hh. exact Hh.
    - pose proof (full_has_keys b n Fb (names_incl_dck _ _ _ Hb n Hn)) as Hh. unfold has_key in Hh.
      destruct (aget (dmapping b) n); [reflexivity | discriminate]. }
  apply std_core_inv in H as [_ [[_ ->] | [_ (ks & vs & -> & M & Hks)]]]; [now left|]. right.
  destruct Hks as [[-> _] | [_ F]]; [|congruence].
  unfold dfull. simpl. apply Nat.eqb_eq. eapply map_opt_length; eauto.
Qed.

(* attached records cover the group's elements, and a data ID with records is full (true of everything
   expandDataId / make_empty return) *)
Definition recs_cover (d : dataid) : Prop :=
  forall r, drecs d = Some r -> dfull d = true /\ forall e, In e (gelements (dgroup d)) -> has_key r e = true.

Lemma restrict_recs_total r els : (forall e, In e els -> has_key r e = true) -> exists r', restrict_recs r els = Some r'.
Proof.
  intro H. unfold restrict_recs. apply map_opt_total. intros e He. specialize (H e He). unfold has_key in H.
  destruct (aget r e); [eauto | discriminate].
Qed.

(* UNION IS TOTAL: on data IDs over groups of the universe that hold their required values (and, when records are
   attached, are full and carry a record entry per element) `a.union(b)` always returns a data ID *)
Lemma union_total_p u la lb a b : wf_universe u = true ->
  mkgroup u la = GOk (dgroup a) -> mkgroup u lb = GOk (dgroup b) -> has_required a -> has_required b ->
  recs_cover a -> recs_cover b -> exists c, union u a b = Ok c.
Proof.
  intros W Ha Hb Ra Rb Ca Cb. rewrite union_unfold.
  destruct (union_spec u la lb _ _ W Ha Hb) as (G & HG & _). rewrite HG. simpl.
  destruct (union_plain_total u la lb a b G W Ha Hb Ra Rb HG) as [r Hr].
  destruct (drecs a) as [ra|] eqn:Da; [|eauto]. destruct (drecs b) as [rb|] eqn:Db; [|eauto].
  rewrite Hr. simpl. destruct (has_recs r) eqn:HR; [eauto|].
  destruct (Ca ra Da) as [Fa Ka]. destruct (Cb rb Db) as [Fb Kb].
  destruct (restrict_recs_total rb _ Kb) as [rb' ->]. destruct (restrict_recs_total ra _ Ka) as [ra' ->].
  destruct (forallb _ (gelements (dgroup r))); [|eauto].
  destruct (union_plain_full u la lb a b G r W Ha Hb HG Fa Fb Hr) as [H|H]; [congruence|].
  unfold expanded_with. unfold has_recs in HR. destruct (drecs r); [discriminate|]. rewrite H. eauto.
Qed.

(* ... and, without records, the result is characterised completely: dimensions = the union group, it holds its
   required values, every value comes from an operand (union_plain_strong) -- so `union` is a total function onto
   the data IDs of the union group *)
Lemma union_total_plain_p u la lb a b : wf_universe u = true ->
  mkgroup u la = GOk (dgroup a) -> mkgroup u lb = GOk (dgroup b) -> drecs a = None -> drecs b = None ->
  has_required a -> has_required b ->
  exists c G, union u a b = Ok c /\ gunion u (dgroup a) (dgroup b) = GOk G /\ dgroup c = G /\ has_required c /\
    (forall k v, dc_get c k = Some v -> dc_get b k = Some v \/ dc_get a k = Some v) /\
    (forall k, In k (grequired G) -> exists v, dc_get c k = Some v).
Proof.
  intros W Ha Hb Da Db Ra Rb.
  destruct (union_total_p u la lb a b W Ha Hb Ra Rb) as [c Hc]; try (intros r Hr; congruence).
  destruct (union_plain_strong _ _ _ _ _ _ Ha Hb Da Ra Rb Hc) as (G & HG & EG & Rc & P).
  exists c, G. repeat split; auto. intros k Hk. unfold has_required in Rc. rewrite EG in Rc.
  eapply map_opt_all; eauto.
Qed.

(* ---------------------------------------------------------------------------------------------------------------- *)
(* expandDataId as a whole                                                                                          *)
(* ---------------------------------------------------------------------------------------------------------------- *)
(* join tables (combinations) have no implied dimensions: true of every shipped universe (checked by computation);
   with it every name a record check touches is a dimension of the group *)
Definition comb_imp_closedb (u : universe) : bool := forallb (fun e => is_dimension e || is_nil (eimp e)) u.

Lemma zip_pad_In names : forall vals d, In d names -> exists v, In (d, v) (zip_pad names vals).
Proof.
  induction names as [|n ns IH]; intros vals d H; [contradiction|].
  destruct vals as [|w ws]; simpl; destruct H as [->|H]; eauto;
    (edestruct IH as [v Hv]; [exact H|]; exists v; right; exact Hv).
Qed.

(* after a successful walk EVERY dimension of the group has a binding *)
Lemma walk_binds_names u D l G k0 k1 recs : mkgroup u l = GOk G -> lookup_okb u G = true ->
  (forall p, In p (grequired G) -> has_key k0 p = true) ->
  expand_keys u D G k0 = Ok (k1, recs) -> forall n, In n (gnames G) -> has_key k1 n = true.
Proof.
  intros HG LK Hreq EK n Hn.
  destruct (expand_keys_sound_p _ _ _ _ _ _ EK) as (E & L2 & Hc).
  unfold lookup_okb in LK. rewrite L2 in LK.
  repeat (apply andb_true_iff in LK as [LK ?]).
  rename H into C5, H0 into C4, H1 into C3, H2 into C2.
  apply (partition_p u l G n HG) in Hn as [Hr|Hi].
  - specialize (Hreq n Hr). unfold has_key in *. destruct (aget k0 n) eqn:E0; [|discriminate]. now rewrite (E _ _ E0).
  - rewrite forallb_forall in C5. specialize (C5 n Hi). apply existsb_exists in C5 as (a & Ha & C5).
    apply andb_true_iff in C5 as [M _]. unfold eimp_of in M. destruct (find_elem u a) as [ea|] eqn:Fa; [|discriminate].
    apply memb_In in M.
    assert (In a (map fst recs)) as Hin.
    { rewrite forallb_forall in C3. apply memb_In. apply C3. eapply names_in_elements_p; eauto. }
    apply in_map_iff in Hin as ([a' ro] & E1 & Hin). simpl in E1; subst a'.
    destruct (Hc _ _ Hin) as (e & kv & F & _ & _ & _ & Hr). rewrite Fa in F. inversion F; subst e.
    destruct ro as [r|]; [|destruct Hr as [Hr _]; contradiction].
    destruct (zip_pad_In (eimp ea) (rimp r) n M) as [v Hv]. unfold has_key. now rewrite (Hr _ _ Hv).
Qed.

(* the shape of what `expand` returns for a standardized, non-empty, record-free data ID *)
Lemma expand_shape u D l s k1 recs : mkgroup u l = GOk (dgroup s) -> lookup_okb u (dgroup s) = true ->
  is_nil (gnames (dgroup s)) = false -> drecs s = None -> has_required s ->
  expand_keys u D (dgroup s) (dmapping s) = Ok (k1, recs) ->
  exists vs, map_opt (aget k1) (data_coordinate_keys (dgroup s)) = Some vs /\
    expand u D s = Ok {| dgroup := dgroup s; dvals := vs; drecs := Some recs |}.
Proof.
  intros HG LK N R HR EK.
  assert (forall n, In n (gnames (dgroup s)) -> has_key k1 n = true) as Hall.
  { eapply walk_binds_names; eauto. intros p Hp. now apply has_required_keys. }
  destruct (map_opt_total (aget k1) (data_coordinate_keys (dgroup s))) as [vs Hvs].
  { intros x Hx. apply (dck_incl_names _ _ _ HG) in Hx. specialize (Hall x Hx). unfold has_key in Hall.
    destruct (aget k1 x); [eauto | discriminate]. }
  exists vs. split; [exact Hvs|].
  unfold expand, has_recs. rewrite R, EK. simpl. unfold std_core. rewrite N.
  assert (forallb (has_key k1) (gnames (dgroup s)) = true) as -> by (apply forallb_forall; exact Hall).
  rewrite Hvs. simpl. unfold from_values. rewrite N. unfold expanded_with, dfull. simpl.
  now rewrite (map_opt_length _ _ _ Hvs), Nat.eqb_refl.
Qed.

(* record entries only look at dimensions of the group: two assignments that agree there have the same rec_ok *)
Lemma rec_ok_agree u D l G K K' x ro : wf_universe u = true -> dims_selfb u = true -> comb_imp_closedb u = true ->
  mkgroup u l = GOk G -> In x (gelements G) ->
  (forall n, In n (gnames G) -> aget K' n = aget K n) ->
  rec_ok u D G K x ro -> rec_ok u D G K' x ro.
Proof.
  intros W DS CI HG Hx AG (e & kv & F & M & Hf & P & Hr).
  pose proof (find_elem_some _ _ _ F) as [He Hn].
  assert (incl (ereq e) (gnames G)) as Hreq.
  { apply (elements_char_p u l G x HG) in Hx as (e' & He' & Hn' & Hinc).
    assert (e = e') as -> by (eapply elem_unique; eauto using wf_nodup; congruence). exact Hinc. }
  assert (is_dimension e = true -> In x (gnames G)) as Hself.
  { intro Hd. unfold dims_selfb in DS. rewrite forallb_forall in DS. specialize (DS e He). rewrite Hd in DS. simpl in DS.
    apply memb_In in DS. rewrite Hn in DS. now apply Hreq. }
  assert (incl (eimp e) (gnames G)) as Himp.
  { destruct (is_dimension e) eqn:Hd.
    - destruct (group_facts _ _ _ HG) as (Hcl & _ & _). intros d Hdin.
      apply (Hcl x e (Hself eq_refl) F). unfold deps. apply in_or_app. now right.
    - unfold comb_imp_closedb in CI. rewrite forallb_forall in CI. specialize (CI e He). rewrite Hd in CI. simpl in CI.
      destruct (eimp e); [intros ? [] | discriminate]. }
  exists e, kv. repeat split; auto.
  - rewrite <- M. apply map_opt_ext_in. intros p Hp. apply AG. now apply Hreq.
  - intro Hd. unfold present. rewrite (AG x (Hself Hd)). now apply P.
  - destruct ro as [r|]; [|exact Hr]. intros d v Hin. rewrite AG; [now apply Hr|].
    apply Himp. rewrite <- (zip_pad_fst (eimp e) (rimp r)). apply in_map_iff. now exists (d, v).
Qed.

(* SOUND: what Registry.expandDataId returns (after the final standardize().expanded()) *)
Lemma expand_data_id_sound_p u D dims mp kw df d :
  wf_universe u = true -> dims_selfb u = true -> comb_imp_closedb u = true ->
  (forall s, standardize u dims mp kw df = Ok s -> lookup_okb u (dgroup s) = true) ->
  expand_data_id u D dims mp kw df = Ok d ->
  exists s, standardize u dims mp kw df = Ok s /\ dgroup d = dgroup s /\
    (forall k v, dc_get s k = Some v -> dc_get d k = Some v) /\
    (is_nil (gnames (dgroup d)) = true /\ d = s \/
     is_nil (gnames (dgroup d)) = false /\ dfull d = true /\
     exists recs, drecs d = Some recs /\ glookup (dgroup d) = GOk (map fst recs) /\
       consistent u D (dgroup d) (dmapping d) recs).
Proof.
  intros W DS CI LKH H. unfold expand_data_id in H.
  destruct (standardize u dims mp kw df) as [s|] eqn:S; simpl in H; [|discriminate].
  specialize (LKH s eq_refl). exists s. split; [reflexivity|].
  pose proof (standardize_has_required_p _ _ _ _ _ _ S) as HR.
  apply standardize_inv in S as (G & HG & SC).
  destruct (std_core_inv _ _ _ SC) as [EG [[N ->] | [N (ks & vs0 & Es & _ & _)]]].
  - unfold expand in H. simpl in H. inversion H; subst d. simpl. split; [reflexivity|]. split; [auto|]. left. auto.
  - assert (drecs s = None) as R by (rewrite Es; reflexivity).
    rewrite <- EG in HG, N.
    pose proof H as H0. unfold expand, has_recs in H0. rewrite R in H0.
    destruct (expand_keys u D (dgroup s) (dmapping s)) as [[k1 recs]|] eqn:EK; simpl in H0; [|discriminate]. clear H0.
    destruct (expand_shape u D _ s k1 recs HG LKH N R HR EK) as (vs & Hvs & Hex).
    rewrite Hex in H. inversion H; subst d. simpl. split; [reflexivity|].
    destruct (expand_keys_sound_p _ _ _ _ _ _ EK) as (E & L2 & Hc).
    assert (forall n, In n (gnames (dgroup s)) ->
              aget (combine (data_coordinate_keys (dgroup s)) vs) n = aget k1 n) as AG.
    { intros n Hn. rewrite (aget_combine_map_opt _ _ _ _ Hvs).
      assert (memb n (data_coordinate_keys (dgroup s)) = true) as -> by (apply memb_In; eapply names_incl_dck; eauto).
      reflexivity. }
    split.
    + intros k v Hk. unfold dc_get, dmapping in *. simpl.
      pose proof (combine_key_in _ _ _ _ Hk) as Hin. apply (dck_incl_names _ _ _ HG) in Hin.
      rewrite (AG k Hin). now apply E.
    + right. split; [exact N|]. split.
      * unfold dfull. simpl. now rewrite (map_opt_length _ _ _ Hvs), Nat.eqb_refl.
      * exists recs. split; [reflexivity|]. split; [exact L2|].
        intros x ro Hin. unfold dmapping. simpl.
        eapply (rec_ok_agree u D _ (dgroup s) k1); eauto.
        unfold lookup_okb in LKH. rewrite L2 in LKH. repeat (apply andb_true_iff in LKH as [LKH ?]).
        rewrite forallb_forall in H3. apply memb_In. apply H3. apply in_map_iff. now exists (x, ro).
Qed.

(* COMPLETE: if the standardized data ID extends to a consistent full assignment K, expandDataId succeeds and every
   value it returns is K's -- so the returned values do not depend on the lookup order *)
Lemma expand_data_id_complete_p u D dims mp kw df s K :
  wf_universe u = true -> dims_selfb u = true ->
  standardize u dims mp kw df = Ok s -> lookup_okb u (dgroup s) = true ->
  extends K (dmapping s) -> (forall n, In n (gnames (dgroup s)) -> present K n = true) ->
  (forall x, In x (gelements (dgroup s)) -> exists ro, rec_ok u D (dgroup s) K x ro) ->
  exists d, expand_data_id u D dims mp kw df = Ok d /\ dgroup d = dgroup s /\ dfull d = true /\ has_recs d = true /\
    forall k v, dc_get d k = Some v -> aget K k = Some v.
Proof.
  intros W DS S LK EX KP KO. unfold expand_data_id. rewrite S. simpl.
  pose proof (standardize_has_required_p _ _ _ _ _ _ S) as HR.
  apply standardize_inv in S as (G & HG & SC).
  destruct (std_core_inv _ _ _ SC) as [EG [[N ->] | [N (ks & vs0 & Es & _ & _)]]].
  - exists (make_empty G). unfold expand. simpl. repeat split; auto.
    unfold dfull. simpl. apply mkgroup_inv in HG as (C & _ & ->). simpl in *. destruct C; [reflexivity | discriminate].
  - assert (drecs s = None) as R by (rewrite Es; reflexivity).
    rewrite <- EG in HG, N.
    destruct (expand_complete_p u D _ (dgroup s) K (dmapping s) W DS HG LK) as (k1 & recs & EK & EK1); auto.
    { intros p Hp. now apply has_required_keys. }
    destruct (expand_shape u D _ s k1 recs HG LK N R HR EK) as (vs & Hvs & Hex).
    eexists. split; [exact Hex|]. simpl. repeat split; auto.
    + unfold dfull. simpl. now rewrite (map_opt_length _ _ _ Hvs), Nat.eqb_refl.
    + intros k v Hk. unfold dc_get, dmapping in Hk. simpl in Hk. rewrite (aget_combine_map_opt _ _ _ _ Hvs) in Hk.
      destruct (memb k (data_coordinate_keys (dgroup s))); [now apply EK1 | discriminate].
Qed.
