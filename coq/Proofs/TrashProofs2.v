(* C09: emptyTrash removes only unreferenced artifacts; nothing outside the root is touched -- step lemmas and
   their lifting to every history. *)
From Coq Require Import String Ascii List Bool NArith Lia.
From V Require Import Model.Template Model.Trash Proofs.TrashProofs.
Import ListNotations.
Open Scope string_scope.

Lemma memS_in : forall x l, In x l -> memS x l = true.
Proof. intros x l H. unfold memS. apply existsb_exists. exists x. split; [exact H | apply String.eqb_refl]. Qed.

(* ---- the heart: an artifact removed by emptyTrash is not referenced by any live dataset afterwards ------------ *)
Lemma empty_trash_unreferenced_p : forall s l c,
  sharing_visible s = true ->
  fget (fs s) l = Some c -> fget (fs (empty_trash s)) l = None ->
  referenced (empty_trash s) l = false.
Proof.
  intros s l c Hvis Hf Hd. simpl in Hd.
  destruct (delete_all_deleted _ _ _ _ _ Hf Hd) as [[id p] [Hin [Hdel Hloc]]]. simpl in Hdel, Hloc.
  apply filter_In in Hin. destruct Hin as [Hrec Htr]. simpl in Htr.
  destruct (referenced (empty_trash s) l) eqn:R; [|reflexivity]. exfalso.
  unfold referenced, live_recs in R. apply existsb_exists in R. destruct R as [[id' p'] [Hin' Hl']]. simpl in Hl'.
  apply filter_In in Hin'. destruct Hin' as [Hrec' Hlive']. simpl in Hrec', Hlive'.
  apply filter_In in Hrec'. destruct Hrec' as [Hrec' Hnt']. simpl in Hnt'.
  (* the two rows name the same location: the guard says emptyTrash can see it *)
  unfold sharing_visible in Hvis. rewrite forallb_forall in Hvis. specialize (Hvis _ Hrec).
  rewrite forallb_forall in Hvis. specialize (Hvis _ Hrec'). simpl in Hvis. unfold visible_pair in Hvis.
  apply lkey_eqb_eq in Hl'. assert (El : lkey_eqb (loc p) (loc p') = true) by (apply lkey_eqb_eq; congruence).
  rewrite El in Hvis. simpl in Hvis.
  unfold deletes in Hdel. apply andb_true_iff in Hdel. destruct Hdel as [Hkeep _]. apply negb_true_iff in Hkeep.
  assert (Hlr : In (id', p') (live_recs s)).
  { unfold live_recs. apply filter_In. split; [exact Hrec' | exact Hlive']. }
  assert (Htrr : In (id, p) (trashed_recs s)).
  { unfold trashed_recs. apply filter_In. split; [exact Hrec | exact Htr]. }
  assert (Hslow : has_char "#"%char p = true -> has_char "#"%char p' = true -> artifact_of p = artifact_of p' -> False).
  { intros Hh Hh' Ha.
    assert (K : memS (artifact_of p) (keep s) = true).
    { apply memS_in. unfold keep. apply in_or_app. right.
      replace (existsb (fun r => has_char "#"%char (snd r)) (trashed_recs s)) with true.
      2:{ symmetry. apply existsb_exists. exists (id, p). split; [exact Htrr | exact Hh]. }
      unfold slow_keep. rewrite Ha. apply (in_map (fun r => artifact_of (snd r)) _ (id', p')).
      apply filter_In. split; [exact Hrec'|]. simpl. rewrite Hnt'. simpl.
      apply existsb_exists. exists (artifact_of p). split.
      - unfold prefixes. apply (in_map (fun r => artifact_of (snd r)) _ (id, p)). apply filter_In. split; [exact Htrr | exact Hh].
      - rewrite Ha. apply like_self_prefix. exact Hh'. }
    rewrite K in Hkeep. discriminate. }
  apply orb_true_iff in Hvis. destruct Hvis as [Heq | Hfrag].
  - apply String.eqb_eq in Heq. subst p'.
    destruct (has_char "#"%char p) eqn:Hh.
    + apply Hslow; reflexivity.
    + assert (K : memS (artifact_of p) (keep s) = true).
      { apply memS_in. unfold keep. apply in_or_app. left. rewrite (artifact_of_plain _ Hh).
        unfold preserved. apply (in_map snd _ (id, p)). apply filter_In. split; [exact Htrr|].
        apply existsb_exists. exists (id', p). split; [exact Hlr | apply String.eqb_refl]. }
      rewrite K in Hkeep. discriminate.
  - apply andb_true_iff in Hfrag. destruct Hfrag as [Hfrag Ha]. apply andb_true_iff in Hfrag. destruct Hfrag as [Hh Hh'].
    apply String.eqb_eq in Ha. apply Hslow; assumption.
Qed.

(* trash only moves ids between the two location tables *)
Lemma do_trash_fs : forall s ids, fs (do_trash s ids) = fs s.
Proof. reflexivity. Qed.
Lemma do_trash_recs : forall s ids, recs (do_trash s ids) = recs s.
Proof. reflexivity. Qed.

Lemma sharing_visible_trash : forall s ids, sharing_visible (do_trash s ids) = sharing_visible s.
Proof. reflexivity. Qed.

(* the environment's own doing at location l: an external write/removal there, or the source of a move ingest *)
Definition touches_env (s : state) (x : op) (l : lkey) : bool :=
  match x with Ext l' _ => lkey_eqb l' l | _ => moved_source s x l end.

(* ---- one step: a file that disappears was unreferenced -------------------------------------------------------- *)
Lemma step_deletes_unreferenced_p : forall s x l c,
  sharing_visible s = true -> reingest s x = false -> target_inside x = true -> put_coherent x = true ->
  touches_env s x l = false ->
  fget (fs s) l = Some c -> fget (fs (fst (step s x))) l = None ->
  referenced (fst (step s x)) l = false.
Proof.
  intros s x l c Hvis Hre Hti Hpc Henv Hf Hd.
  destruct x as [id fr ext c0 | m ids fr ext src | ids a | ids rel | members z c0 | ids | | ids | ids | l' c'];
    unfold step, step_v in Hd |- *; simpl in Hre, Hti, Henv.
  - (* Put *)
    destruct fr as [p| |]; [| simpl in Hd; rewrite Hf in Hd; discriminate | simpl in Hd; rewrite Hf in Hd; discriminate].
    destruct (refuse_location true p); [simpl in Hd; rewrite Hf in Hd; discriminate|].
    destruct (held_any s [id]); [simpl in Hd; rewrite Hf in Hd; discriminate|].
    simpl in Hpc. apply andb_true_iff in Hpc. destruct Hpc as [E1 E2]. apply lkey_eqb_eq in E1. apply lkey_eqb_eq in E2.
    cbv zeta in Hd. rewrite Hti in Hd. rewrite E1 in Hd. rewrite E2 in Hd. rewrite fget_fset_same in Hd.
    cbn [fst fs add_recs with_fs] in Hd.
    destruct (lkey_eqb (target_loc p ext) l) eqn:E.
    + apply lkey_eqb_eq in E. subst l. rewrite fget_fset_same in Hd. discriminate.
    + rewrite (fget_fset_other _ _ _ _ E) in Hd. rewrite Hf in Hd. discriminate.
  - (* Ingest *)
    destruct fr as [p| |]; [| simpl in Hd; rewrite Hf in Hd; discriminate | simpl in Hd; rewrite Hf in Hd; discriminate].
    destruct (fget (fs s) src) as [cs|] eqn:Es; [| simpl in Hd; rewrite Hf in Hd; discriminate].
    destruct (refuse_location true p); [simpl in Hd; rewrite Hf in Hd; discriminate|].
    rewrite Hre in Hd. cbn [fst fs add_recs with_fs] in Hd.
    destruct (lkey_eqb (target_loc p ext) l) eqn:E.
    + apply lkey_eqb_eq in E. subst l. rewrite fget_fset_same in Hd. discriminate.
    + rewrite (fget_fset_other _ _ _ _ E) in Hd. destruct m.
      * rewrite Hf in Hd. discriminate.
      * rewrite Hre in Henv. simpl in Henv. rewrite andb_true_r in Henv.
        rewrite (fget_fdel_other _ _ _ Henv) in Hd. rewrite Hf in Hd. discriminate.
  - (* IngestDirect *)
    destruct (fget (fs s) (abs_loc a)); [| simpl in Hd; rewrite Hf in Hd; discriminate].
    destruct (held_any s ids); simpl in Hd; rewrite Hf in Hd; discriminate.
  - (* IngestInPlace *)
    destruct (negb (inside (rel_loc (stage_a rel)))); [simpl in Hd; rewrite Hf in Hd; discriminate|].
    destruct (fget (fs s) (rel_loc (stage_a rel))); [| simpl in Hd; rewrite Hf in Hd; discriminate].
    destruct (held_any s ids); simpl in Hd; rewrite Hf in Hd; discriminate.
  - (* IngestZip *)
    rewrite Hre in Hd. cbn [fst fs add_recs with_fs] in Hd.
    destruct (lkey_eqb (rel_loc z) l) eqn:E.
    + apply lkey_eqb_eq in E. subst l. rewrite fget_fset_same in Hd. discriminate.
    + rewrite (fget_fset_other _ _ _ _ E) in Hd. rewrite Hf in Hd. discriminate.
  - (* Trash *) simpl in Hd. rewrite Hf in Hd. discriminate.
  - (* EmptyTrash *) apply (empty_trash_unreferenced_p s l c Hvis Hf Hd).
  - (* Prune *) apply (empty_trash_unreferenced_p (do_trash s ids) l c); [exact Hvis | exact Hf | exact Hd].
  - (* RemoveRun *) apply (empty_trash_unreferenced_p (do_trash s ids) l c); [exact Hvis | exact Hf | exact Hd].
  - (* Ext *)
    destruct c' as [v|]; cbn [fst fs with_fs] in Hd.
    + rewrite (fget_fset_other _ _ _ _ Henv) in Hd. rewrite Hf in Hd. discriminate.
    + rewrite (fget_fdel_other _ _ _ Henv) in Hd. rewrite Hf in Hd. discriminate.
Qed.

(* ---- one step: nothing outside the root changes ------------------------------------------------------------------ *)
Lemma recs_inside_trash : forall s ids, recs_inside (do_trash s ids) = recs_inside s.
Proof. reflexivity. Qed.

Lemma empty_trash_outside_frame : forall s l, recs_inside s = true -> inside l = false ->
  fget (fs (empty_trash s)) l = fget (fs s) l.
Proof.
  intros s l Hri Hl. simpl. apply delete_all_frame. intros [id p] Hin Hdel. simpl in *.
  apply filter_In in Hin. destruct Hin as [Hrec _].
  unfold recs_inside in Hri. rewrite forallb_forall in Hri. specialize (Hri _ Hrec). simpl in Hri.
  unfold deletes in Hdel. apply andb_true_iff in Hdel. destruct Hdel as [_ Hna]. apply negb_true_iff in Hna.
  rewrite Hna in Hri. simpl in Hri. apply inside_differ; assumption.
Qed.

Lemma step_outside_frame_p : forall s x l,
  recs_inside s = true -> target_inside x = true -> put_coherent x = true -> inside l = false -> touches_env s x l = false ->
  fget (fs (fst (step s x))) l = fget (fs s) l.
Proof.
  intros s x l Hri Hti Hpc Hl Henv.
  destruct x as [id fr ext c0 | m ids fr ext src | ids a | ids rel | members z c0 | ids | | ids | ids | l' c'];
    unfold step, step_v; simpl in Hti, Henv.
  - destruct fr as [p| |]; [| reflexivity | reflexivity].
    destruct (refuse_location true p); [reflexivity|].
    destruct (held_any s [id]); [reflexivity|].
    simpl in Hpc. apply andb_true_iff in Hpc. destruct Hpc as [E1 E2]. apply lkey_eqb_eq in E1. apply lkey_eqb_eq in E2.
    cbv zeta. rewrite Hti. rewrite E1. rewrite E2. rewrite fget_fset_same. cbn [fst fs add_recs with_fs].
    apply fget_fset_other. apply inside_differ; assumption.
  - destruct fr as [p| |]; [| reflexivity | reflexivity].
    destruct (fget (fs s) src) as [cs|] eqn:Es; [|reflexivity].
    destruct (refuse_location true p); [reflexivity|].
    assert (E : lkey_eqb (target_loc p ext) l = false) by (apply inside_differ; assumption).
    destruct (held_any s ids) eqn:Hh; cbn [fst fs add_recs with_fs].
    + apply fget_fdel_other. exact E.
    + rewrite (fget_fset_other _ _ _ _ E). destruct m; [reflexivity|].
      rewrite andb_true_r in Henv. apply fget_fdel_other. exact Henv.
  - destruct (fget (fs s) (abs_loc a)); [|reflexivity]. destruct (held_any s ids); reflexivity.
  - destruct (negb (inside (rel_loc (stage_a rel)))); [reflexivity|].
    destruct (fget (fs s) (rel_loc (stage_a rel))); [|reflexivity]. destruct (held_any s ids); reflexivity.
  - assert (E : lkey_eqb (rel_loc z) l = false) by (apply inside_differ; assumption).
    destruct (held_any s (map fst members)); cbn [fst fs add_recs with_fs]; [apply fget_fdel_other | apply fget_fset_other]; exact E.
  - reflexivity.
  - apply empty_trash_outside_frame; assumption.
  - apply (empty_trash_outside_frame (do_trash s ids)); assumption.
  - apply (empty_trash_outside_frame (do_trash s ids)); assumption.
  - destruct c'; cbn [fst fs with_fs]; [apply fget_fset_other | apply fget_fdel_other]; exact Henv.
Qed.

(* ---- every history ---------------------------------------------------------------------------------------------------- *)
Fixpoint guarded (s : state) (h : list op) : bool :=
  match h with
  | [] => true
  | x :: r => sharing_visible s && negb (reingest s x) && target_inside x && recs_inside s && put_coherent x
              && guarded (fst (step s x)) r
  end.

Fixpoint untouched_by_env (s : state) (h : list op) (l : lkey) : bool :=
  match h with
  | [] => true
  | x :: r => negb (touches_env s x l) && untouched_by_env (fst (step s x)) r l
  end.

Lemma run_cons : forall s x h, run s (x :: h) = run (fst (step s x)) h.
Proof. reflexivity. Qed.

Lemma run_app : forall h1 s h2, run s (h1 ++ h2) = run (run s h1) h2.
Proof. intros. unfold run. apply fold_left_app. Qed.

Lemma guarded_app : forall h1 s h2, guarded s (h1 ++ h2) = true -> guarded (run s h1) h2 = true.
Proof.
  induction h1 as [|x r IH]; intros s h2 H; [exact H|].
  simpl in H. rewrite run_cons. apply IH. apply andb_true_iff in H. destruct H as [_ H]. exact H.
Qed.

Lemma never_touch_foreign_p : forall h s l,
  guarded s h = true -> inside l = false -> untouched_by_env s h l = true ->
  fget (fs (run s h)) l = fget (fs s) l.
Proof.
  induction h as [|x r IH]; intros s l G Hl U; [reflexivity|].
  simpl in G, U. rewrite run_cons.
  repeat (apply andb_true_iff in G; destruct G as [G ?]).
  apply andb_true_iff in U. destruct U as [U1 U2]. apply negb_true_iff in U1.
  rewrite (IH _ l) by assumption. apply step_outside_frame_p; assumption.
Qed.

Lemma delete_only_unreferenced_p : forall h1 x h2 s l c,
  guarded s (h1 ++ x :: h2) = true ->
  touches_env (run s h1) x l = false ->
  fget (fs (run s h1)) l = Some c -> fget (fs (fst (step (run s h1) x))) l = None ->
  referenced (fst (step (run s h1) x)) l = false.
Proof.
  intros h1 x h2 s l c G Henv Hf Hd. apply guarded_app in G. simpl in G.
  repeat (apply andb_true_iff in G; destruct G as [G ?]).
  apply (step_deletes_unreferenced_p _ x l c); try assumption.
  apply negb_true_iff. assumption.
Qed.

(* a sibling that shares the artifact keeps it: multi-ref files, zip members *)
Lemma shared_survives_p : forall s ids l c,
  sharing_visible s = true -> fget (fs s) l = Some c ->
  referenced (empty_trash (do_trash s ids)) l = true ->
  fget (fs (fst (step s (Prune ids)))) l = Some c.
Proof.
  intros s ids l c Hvis Hf Href. change (fst (step s (Prune ids))) with (empty_trash (do_trash s ids)).
  destruct (fget (fs (empty_trash (do_trash s ids))) l) as [c'|] eqn:E.
  - (* still there: the content is unchanged because emptyTrash only deletes *)
    assert (K : forall rows f, fget (delete_all (do_trash s ids) rows f) l = Some c' -> fget f l = Some c').
    { induction rows as [|r rest IH]; intros f H; simpl in H; [exact H|].
      specialize (IH _ H). destruct (deletes (do_trash s ids) (snd r)); [|exact IH].
      destruct (lkey_eqb (loc (snd r)) l) eqn:El.
      - apply lkey_eqb_eq in El. subst l. rewrite fget_fdel_same in IH. discriminate.
      - rewrite (fget_fdel_other _ _ _ El) in IH. exact IH. }
    cbn [empty_trash fs] in E. apply K in E. rewrite do_trash_fs in E. rewrite Hf in E. symmetry. exact E.
  - exfalso. pose proof (empty_trash_unreferenced_p (do_trash s ids) l c Hvis Hf E) as R. rewrite R in Href. discriminate.
Qed.
