(* C09: emptyTrash removes only unreferenced artifacts; nothing outside the root is touched -- step lemmas and
   their lifting to every history. *)
From Coq Require Import String Ascii List Bool NArith Lia.
From V Require Import Model.Template Model.Trash Proofs.TrashProofs.
Import ListNotations.
Open Scope string_scope.

Lemma memS_in : forall x l, In x l -> memS x l = true.
Proof. intros x l H. unfold memS. apply existsb_exists. exists x. split; [exact H | apply String.eqb_refl]. Qed.

(* ---- the heart: an artifact removed by emptyTrash is not referenced by any live dataset afterwards ------------ *)
Lemma empty_trash_unreferenced_p : forall s l c,
  sharing_visible s = true ->
  fget (fs s) l = Some c -> fget (fs (empty_trash s)) l = None ->
  referenced (empty_trash s) l = false.
Proof.
  intros s l c Hvis Hf Hd. simpl in Hd.
  destruct (delete_all_deleted _ _ _ _ _ Hf Hd) as [[id p] [Hin [Hdel Hloc]]]. simpl in Hdel, Hloc.
  apply filter_In in Hin. destruct Hin as [Hrec Htr]. simpl in Htr.
  destruct (referenced (empty_trash s) l) eqn:R; [|reflexivity]. exfalso.
  unfold referenced, live_recs in R. apply existsb_exists in R. destruct R as [[id' p'] [Hin' Hl']]. simpl in Hl'.
  apply filter_In in Hin'. destruct Hin' as [Hrec' Hlive']. simpl in Hrec', Hlive'.
  apply filter_In in Hrec'. destruct Hrec' as [Hrec' Hnt']. simpl in Hnt'.
  (* the two rows name the same location: the guard says emptyTrash can see it *)
  unfold sharing_visible in Hvis. rewrite forallb_forall in Hvis. specialize (Hvis _ Hrec).
  rewrite forallb_forall in Hvis. specialize (Hvis _ Hrec'). simpl in Hvis. unfold visible_pair in Hvis.
  apply lkey_eqb_eq in Hl'. assert (El : lkey_eqb (loc p) (loc p') = true) by (apply lkey_eqb_eq; congruence).
  rewrite El in Hvis. simpl in Hvis.
  unfold deletes in Hdel. apply andb_true_iff in Hdel. destruct Hdel as [Hkeep _]. apply negb_true_iff in Hkeep.
  assert (Hlr : In (id', p') (live_recs s)).
  { unfold live_recs. apply filter_In. split; [exact Hrec' | exact Hlive']. }
  assert (Htrr : In (id, p) (trashed_recs s)).
  { unfold trashed_recs. apply filter_In. split; [exact Hrec | exact Htr]. }
  assert (Hslow : has_char "#"%char p = true -> has_char "#"%char p' = true -> artifact_of p = artifact_of p' -> False).
  { intros Hh Hh' Ha.
    assert (K : memS (artifact_of p) (keep s) = true).
    { apply memS_in. unfold keep. apply in_or_app. right.
      replace (existsb (fun r => has_char "#"%char (snd r)) (trashed_recs s)) with true.
      2:{ symmetry. apply existsb_exists. exists (id, p). split; [exact Htrr | exact Hh]. }
      unfold slow_keep. rewrite Ha. apply (in_map (fun r => artifact_of (snd r)) _ (id', p')).
      apply filter_In. split; [exact Hrec'|]. simpl. rewrite Hnt'. simpl.
      apply existsb_exists. exists (artifact_of p). split.
      - unfold prefixes. apply (in_map (fun r => artifact_of (snd r)) _ (id, p)). apply filter_In. split; [exact Htrr | exact Hh].
      - rewrite Ha. apply like_self_prefix. exact Hh'. }
    rewrite K in Hkeep. discriminate. }
  apply orb_true_iff in Hvis. destruct Hvis as [Heq | Hfrag].
  - apply String.eqb_eq in Heq. subst p'.
    destruct (has_char "#"%char p) eqn:Hh.
    + apply Hslow; reflexivity.
    + assert (K : memS (artifact_of p) (keep s) = true).
      { apply memS_in. unfold keep. apply in_or_app. left. rewrite (artifact_of_plain _ Hh).
        unfold preserved. apply (in_map snd _ (id, p)). apply filter_In. split; [exact Htrr|].
        apply existsb_exists. exists (id', p). split; [exact Hlr | apply String.eqb_refl]. }
      rewrite K in Hkeep. discriminate.
  - apply andb_true_iff in Hfrag. destruct Hfrag as [Hfrag Ha]. apply andb_true_iff in Hfrag. destruct Hfrag as [Hh Hh'].
    apply String.eqb_eq in Ha. apply Hslow; assumption.
Qed.

(* the same clash, as a statement about rows: a trashed row whose artifact emptyTrash removes and a row of a dataset that
   is stored and not trashed never name the same location *)
Lemma trashed_deleted_live_clash : forall s id p id' p',
  sharing_visible s = true ->
  In (id, p) (recs s) -> memN id (trash s) = true ->
  In (id', p') (recs s) -> memN id' (live s) = true -> memN id' (trash s) = false ->
  deletes s p = true -> loc p = loc p' -> False.
Proof.
  intros s id p id' p' Hvis Hrec Htr Hrec' Hlive' Hnt Hdel Hloc.
  assert (Hnt' : negb (memN id' (trash s)) = true) by (rewrite Hnt; reflexivity).
  unfold sharing_visible in Hvis. rewrite forallb_forall in Hvis. specialize (Hvis _ Hrec).
  rewrite forallb_forall in Hvis. specialize (Hvis _ Hrec'). simpl in Hvis. unfold visible_pair in Hvis.
  assert (El : lkey_eqb (loc p) (loc p') = true) by (apply lkey_eqb_eq; exact Hloc).
  rewrite El in Hvis. simpl in Hvis.
  unfold deletes in Hdel. apply andb_true_iff in Hdel. destruct Hdel as [Hkeep _]. apply negb_true_iff in Hkeep.
  assert (Hlr : In (id', p') (live_recs s)).
  { unfold live_recs. apply filter_In. split; [exact Hrec' | exact Hlive']. }
  assert (Htrr : In (id, p) (trashed_recs s)).
  { unfold trashed_recs. apply filter_In. split; [exact Hrec | exact Htr]. }
  assert (Hslow : has_char "#"%char p = true -> has_char "#"%char p' = true -> artifact_of p = artifact_of p' -> False).
  { intros Hh Hh' Ha.
    assert (K : memS (artifact_of p) (keep s) = true).
    { apply memS_in. unfold keep. apply in_or_app. right.
      replace (existsb (fun r => has_char "#"%char (snd r)) (trashed_recs s)) with true.
      2:{ symmetry. apply existsb_exists. exists (id, p). split; [exact Htrr | exact Hh]. }
      unfold slow_keep. rewrite Ha. apply (in_map (fun r => artifact_of (snd r)) _ (id', p')).
      apply filter_In. split; [exact Hrec'|]. simpl. rewrite Hnt'. simpl.
      apply existsb_exists. exists (artifact_of p). split.
      - unfold prefixes. apply (in_map (fun r => artifact_of (snd r)) _ (id, p)). apply filter_In. split; [exact Htrr | exact Hh].
      - rewrite Ha. apply like_self_prefix. exact Hh'. }
    rewrite K in Hkeep. discriminate. }
  apply orb_true_iff in Hvis. destruct Hvis as [Heq | Hfrag].
  - apply String.eqb_eq in Heq. subst p'.
    destruct (has_char "#"%char p) eqn:Hh.
    + apply Hslow; reflexivity.
    + assert (K : memS (artifact_of p) (keep s) = true).
      { apply memS_in. unfold keep. apply in_or_app. left. rewrite (artifact_of_plain _ Hh).
        unfold preserved. apply (in_map snd _ (id, p)). apply filter_In. split; [exact Htrr|].
        apply existsb_exists. exists (id', p). split; [exact Hlr | apply String.eqb_refl]. }
      rewrite K in Hkeep. discriminate.
  - apply andb_true_iff in Hfrag. destruct Hfrag as [Hfrag Ha]. apply andb_true_iff in Hfrag. destruct Hfrag as [Hh Hh'].
    apply String.eqb_eq in Ha. apply Hslow; assumption.
Qed.

(* ---- emptyTrash with the record-location check (5539e78) ---------------------------------------------------------- *)
Lemma delete_upto_complete : forall s rows f f', delete_upto s rows f = (f', true) -> f' = delete_all s rows f.
Proof.
  induction rows as [|r rest IH]; intros f f' H; simpl in H |- *; [inversion H; reflexivity|].
  destruct (poison s (snd r)); [discriminate|]. apply IH. exact H.
Qed.

(* whatever the records say, the rows that ARE processed name locations inside the root *)
Lemma delete_upto_frame : forall s rows f l, inside l = false -> fget (fst (delete_upto s rows f)) l = fget f l.
Proof.
  induction rows as [|r rest IH]; intros f l Hl; simpl; [reflexivity|].
  destruct (poison s (snd r)) eqn:P; [reflexivity|].
  rewrite IH by exact Hl. destruct (deletes s (snd r)) eqn:D; [|reflexivity].
  unfold poison in P. rewrite D in P. simpl in P. apply negb_false_iff in P.
  apply fget_fdel_other. apply inside_differ; assumption.
Qed.

Lemma delete_upto_deleted : forall s rows f l c,
  fget f l = Some c -> fget (fst (delete_upto s rows f)) l = None ->
  exists r, In r rows /\ deletes s (snd r) = true /\ loc (snd r) = l.
Proof.
  induction rows as [|r rest IH]; intros f l c Hf Hd; simpl in Hd; [rewrite Hf in Hd; discriminate|].
  destruct (poison s (snd r)); [simpl in Hd; rewrite Hf in Hd; discriminate|].
  destruct (deletes s (snd r)) eqn:D.
  - destruct (lkey_eqb (loc (snd r)) l) eqn:E.
    + exists r. split; [left; reflexivity|]. split; [exact D | apply lkey_eqb_eq; exact E].
    + rewrite <- (fget_fdel_other f _ _ E) in Hf.
      destruct (IH _ _ _ Hf Hd) as [r' [Hin Hr']]. exists r'. split; [right; exact Hin | exact Hr'].
  - destruct (IH _ _ _ Hf Hd) as [r' [Hin Hr']]. exists r'. split; [right; exact Hin | exact Hr'].
Qed.

Lemma empty_trash_v_outside_frame : forall s l, inside l = false ->
  fget (fs (fst (empty_trash_v true s))) l = fget (fs s) l.
Proof.
  intros s l Hl. unfold empty_trash_v.
  pose proof (delete_upto_frame s (trashed_recs s) (fs s) l Hl) as K.
  destruct (delete_upto s (trashed_recs s) (fs s)) as [f b]. simpl in K. destruct b; simpl; exact K.
Qed.

Lemma live_disjoint_spec : forall s id, live_trash_disjoint s = true -> memN id (live s) = true -> memN id (trash s) = false.
Proof.
  intros s id H Hl. unfold live_trash_disjoint in H. rewrite forallb_forall in H.
  unfold memN in Hl. apply existsb_exists in Hl. destruct Hl as [y [Hin Hy]]. apply N.eqb_eq in Hy. subst y.
  specialize (H _ Hin). apply negb_true_iff in H. exact H.
Qed.

Lemma empty_trash_v_unreferenced_p : forall s l c,
  sharing_visible s = true -> live_trash_disjoint s = true ->
  fget (fs s) l = Some c -> fget (fs (fst (empty_trash_v true s))) l = None ->
  referenced (fst (empty_trash_v true s)) l = false.
Proof.
  intros s l c Hvis Hdis Hf Hd. unfold empty_trash_v in *.
  destruct (delete_upto s (trashed_recs s) (fs s)) as [f b] eqn:E.
  destruct b.
  - (* the loop completed: exactly emptyTrash without the check *)
    pose proof (delete_upto_complete _ _ _ _ E) as Ef. subst f.
    apply (empty_trash_unreferenced_p s l c Hvis Hf). exact Hd.
  - (* refused part-way: records and tables unchanged, some artifacts of trashed rows gone *)
    cbn [fst fs with_fs] in Hd |- *.
    assert (Hd' : fget (fst (delete_upto s (trashed_recs s) (fs s))) l = None) by (rewrite E; exact Hd).
    destruct (delete_upto_deleted _ _ _ _ _ Hf Hd') as [[id p] [Hin [Hdel Hloc]]]. simpl in Hdel, Hloc.
    apply filter_In in Hin. destruct Hin as [Hrec Htr]. simpl in Htr.
    destruct (referenced (with_fs s f) l) eqn:R; [|reflexivity]. exfalso.
    unfold referenced, live_recs in R. apply existsb_exists in R. destruct R as [[id' p'] [Hin' Hl']]. simpl in Hl'.
    apply filter_In in Hin'. destruct Hin' as [Hrec' Hlive']. simpl in Hrec', Hlive'.
    apply lkey_eqb_eq in Hl'.
    apply (trashed_deleted_live_clash s id p id' p' Hvis Hrec Htr Hrec' Hlive'
             (live_disjoint_spec s id' Hdis Hlive') Hdel). congruence.
Qed.

Lemma disjoint_trash : forall s ids, live_trash_disjoint s = true -> live_trash_disjoint (do_trash s ids) = true.
Proof.
  intros s ids H. unfold live_trash_disjoint in *. rewrite forallb_forall in *. intros id Hin. simpl in Hin.
  apply filter_In in Hin. destruct Hin as [Hin Hni]. simpl.
  apply negb_true_iff. unfold memN. rewrite existsb_app. apply orb_false_iff. split.
  - destruct (existsb (N.eqb id) (filter (fun id0 => memN id0 ids) (live s))) eqn:E; [|exact E].
    apply existsb_exists in E. destruct E as [y [Hy Ey]]. apply N.eqb_eq in Ey. subst y.
    apply filter_In in Hy. destruct Hy as [_ Hy]. rewrite Hy in Hni. discriminate.
  - specialize (H _ Hin). apply negb_true_iff in H. exact H.
Qed.

(* trash only moves ids between the two location tables *)
Lemma do_trash_fs : forall s ids, fs (do_trash s ids) = fs s.
Proof. reflexivity. Qed.
Lemma do_trash_recs : forall s ids, recs (do_trash s ids) = recs s.
Proof. reflexivity. Qed.

Lemma sharing_visible_trash : forall s ids, sharing_visible (do_trash s ids) = sharing_visible s.
Proof. reflexivity. Qed.

(* the environment's own doing at location l: an external write/removal there, or the source of a move ingest *)
Definition touches_env (s : state) (x : op) (l : lkey) : bool :=
  match x with Ext l' _ => lkey_eqb l' l | _ => moved_source s x l end.

(* 2da36a1: an ingest of a dataset the datastore already holds changes nothing *)
Lemma ingest_held_noop : forall s m ids fr ext src, held_any s ids = true -> fst (step s (Ingest m ids fr ext src)) = s.
Proof.
  intros s m ids fr ext src H. unfold step, step_v. rewrite H.
  destruct (fget (fs s) src) as [c|] eqn:E; cbn [andb].
  - reflexivity.
  - destruct fr; reflexivity.
Qed.

Lemma zip_held_noop : forall s members z c, held_any s (map fst members) = true -> fst (step s (IngestZip members z c)) = s.
Proof. intros s members z c H. unfold step, step_v. rewrite H. reflexivity. Qed.

(* ---- one step: a file that disappears was unreferenced -------------------------------------------------------- *)
Lemma step_deletes_unreferenced_p : forall s x l c,
  sharing_visible s = true -> target_inside x = true -> put_coherent x = true ->
  live_trash_disjoint s = true ->
  touches_env s x l = false ->
  fget (fs s) l = Some c -> fget (fs (fst (step s x))) l = None ->
  referenced (fst (step s x)) l = false.
Proof.
  intros s x l c Hvis Hti Hpc Hdis Henv Hf Hd.
  destruct x as [id fr ext c0 | m ids fr ext src | ids a | ids rel | members z c0 | ids | | ids | ids | l' c' | rids];
    simpl in Hti, Henv;
    try (destruct (held_any s ids) eqn:Hh; [rewrite (ingest_held_noop _ _ _ _ _ _ Hh) in Hd; rewrite Hf in Hd; discriminate|]);
    try (destruct (held_any s (map fst members)) eqn:Hh; [rewrite (zip_held_noop _ _ _ _ Hh) in Hd; rewrite Hf in Hd; discriminate|]);
    unfold step, step_v in Hd |- *.
  - (* Put *)
    destruct fr as [p| |]; [| simpl in Hd; rewrite Hf in Hd; discriminate | simpl in Hd; rewrite Hf in Hd; discriminate].
    destruct (refuse_w true true p); [simpl in Hd; rewrite Hf in Hd; discriminate|].
    destruct (held_any s [id]); [simpl in Hd; rewrite Hf in Hd; discriminate|].
    simpl in Hpc. apply andb_true_iff in Hpc. destruct Hpc as [E1 E2]. apply lkey_eqb_eq in E1. apply lkey_eqb_eq in E2.
    cbv zeta in Hd. rewrite Hti in Hd. rewrite E1 in Hd. rewrite E2 in Hd. rewrite fget_fset_same in Hd.
    cbn [fst fs add_recs with_fs] in Hd.
    destruct (lkey_eqb (target_loc p ext) l) eqn:E.
    + apply lkey_eqb_eq in E. subst l. rewrite fget_fset_same in Hd. discriminate.
    + rewrite (fget_fset_other _ _ _ _ E) in Hd. rewrite Hf in Hd. discriminate.
  - (* Ingest *)
    rewrite Hh in Hd. cbn [andb] in Hd. simpl in Henv.
    destruct fr as [p| |]; [| simpl in Hd; rewrite Hf in Hd; discriminate | simpl in Hd; rewrite Hf in Hd; discriminate].
    destruct (fget (fs s) src) as [cs|] eqn:Es; [| simpl in Hd; rewrite Hf in Hd; discriminate].
    destruct (refuse_w true true p); [simpl in Hd; rewrite Hf in Hd; discriminate|].
    cbn [fst fs add_recs with_fs] in Hd.
    destruct (lkey_eqb (target_loc p ext) l) eqn:E.
    + apply lkey_eqb_eq in E. subst l. rewrite fget_fset_same in Hd. discriminate.
    + rewrite (fget_fset_other _ _ _ _ E) in Hd. destruct m.
      * rewrite Hf in Hd. discriminate.
      * simpl in Henv. try rewrite andb_true_r in Henv.
        rewrite (fget_fdel_other _ _ _ Henv) in Hd. rewrite Hf in Hd. discriminate.
  - (* IngestDirect *)
    destruct (fget (fs s) (abs_loc a)); [| simpl in Hd; rewrite Hf in Hd; discriminate].
    destruct (held_any s ids); simpl in Hd; rewrite Hf in Hd; discriminate.
  - (* IngestInPlace *)
    destruct (negb (inside (rel_loc (stage_a rel)))); [simpl in Hd; rewrite Hf in Hd; discriminate|].
    destruct (fget (fs s) (rel_loc (stage_a rel))); [| simpl in Hd; rewrite Hf in Hd; discriminate].
    destruct (held_any s ids); simpl in Hd; rewrite Hf in Hd; discriminate.
  - (* IngestZip *)
    rewrite Hh in Hd. cbn [andb] in Hd. cbn [fst fs add_recs with_fs] in Hd.
    destruct (lkey_eqb (rel_loc z) l) eqn:E.
    + apply lkey_eqb_eq in E. subst l. rewrite fget_fset_same in Hd. discriminate.
    + rewrite (fget_fset_other _ _ _ _ E) in Hd. rewrite Hf in Hd. discriminate.
  - (* Trash *) simpl in Hd. rewrite Hf in Hd. discriminate.
  - (* EmptyTrash *) apply (empty_trash_v_unreferenced_p s l c Hvis Hdis Hf Hd).
  - (* Prune *) apply (empty_trash_v_unreferenced_p (do_trash s ids) l c); [exact Hvis | apply disjoint_trash; exact Hdis | exact Hf | exact Hd].
  - (* RemoveRun *) apply (empty_trash_v_unreferenced_p (do_trash s ids) l c); [exact Hvis | apply disjoint_trash; exact Hdis | exact Hf | exact Hd].
  - (* Ext *)
    destruct c' as [v|]; cbn [fst fs with_fs] in Hd.
    + rewrite (fget_fset_other _ _ _ _ Henv) in Hd. rewrite Hf in Hd. discriminate.
    + rewrite (fget_fdel_other _ _ _ Henv) in Hd. rewrite Hf in Hd. discriminate.
  - (* Reorder *) simpl in Hd. rewrite Hf in Hd. discriminate.
Qed.

(* ---- one step: nothing outside the root changes ------------------------------------------------------------------ *)
Lemma step_outside_frame_p : forall s x l,
  target_inside x = true -> put_coherent x = true -> inside l = false -> touches_env s x l = false ->
  fget (fs (fst (step s x))) l = fget (fs s) l.
Proof.
  intros s x l Hti Hpc Hl Henv.
  destruct x as [id fr ext c0 | m ids fr ext src | ids a | ids rel | members z c0 | ids | | ids | ids | l' c' | rids];
    simpl in Hti, Henv;
    try (destruct (held_any s ids) eqn:Hh; [rewrite (ingest_held_noop _ _ _ _ _ _ Hh); reflexivity|]);
    try (destruct (held_any s (map fst members)) eqn:Hh; [rewrite (zip_held_noop _ _ _ _ Hh); reflexivity|]);
    unfold step, step_v.
  - destruct fr as [p| |]; [| reflexivity | reflexivity].
    destruct (refuse_w true true p); [reflexivity|].
    destruct (held_any s [id]); [reflexivity|].
    simpl in Hpc. apply andb_true_iff in Hpc. destruct Hpc as [E1 E2]. apply lkey_eqb_eq in E1. apply lkey_eqb_eq in E2.
    cbv zeta. rewrite Hti. rewrite E1. rewrite E2. rewrite fget_fset_same. cbn [fst fs add_recs with_fs].
    apply fget_fset_other. apply inside_differ; assumption.
  - rewrite Hh. cbn [andb].
    destruct fr as [p| |]; [| reflexivity | reflexivity].
    destruct (fget (fs s) src) as [cs|] eqn:Es; [|reflexivity].
    destruct (refuse_w true true p); [reflexivity|].
    assert (E : lkey_eqb (target_loc p ext) l = false) by (apply inside_differ; assumption).
    cbn [fst fs add_recs with_fs].
    rewrite (fget_fset_other _ _ _ _ E). destruct m; [reflexivity|].
    try rewrite andb_true_r in Henv. apply fget_fdel_other. exact Henv.
  - destruct (fget (fs s) (abs_loc a)); [|reflexivity]. destruct (held_any s ids); reflexivity.
  - destruct (negb (inside (rel_loc (stage_a rel)))); [reflexivity|].
    destruct (fget (fs s) (rel_loc (stage_a rel))); [|reflexivity]. destruct (held_any s ids); reflexivity.
  - assert (E : lkey_eqb (rel_loc z) l = false) by (apply inside_differ; assumption).
    rewrite Hh. cbn [andb]. cbn [fst fs add_recs with_fs]. apply fget_fset_other. exact E.
  - reflexivity.
  - apply empty_trash_v_outside_frame; assumption.
  - apply (empty_trash_v_outside_frame (do_trash s ids)); assumption.
  - apply (empty_trash_v_outside_frame (do_trash s ids)); assumption.
  - destruct c'; cbn [fst fs with_fs]; [apply fget_fset_other | apply fget_fdel_other]; exact Henv.
  - reflexivity.
Qed.

(* ---- every history ---------------------------------------------------------------------------------------------------- *)
Fixpoint guarded (s : state) (h : list op) : bool :=
  match h with
  | [] => true
  | x :: r => sharing_visible s && target_inside x && recs_inside s && put_coherent x
              && live_trash_disjoint s && guarded (fst (step s x)) r
  end.

Fixpoint untouched_by_env (s : state) (h : list op) (l : lkey) : bool :=
  match h with
  | [] => true
  | x :: r => negb (touches_env s x l) && untouched_by_env (fst (step s x)) r l
  end.

Lemma run_cons : forall s x h, run s (x :: h) = run (fst (step s x)) h.
Proof. reflexivity. Qed.

Lemma run_app : forall h1 s h2, run s (h1 ++ h2) = run (run s h1) h2.
Proof. intros. unfold run. apply fold_left_app. Qed.

Lemma guarded_app : forall h1 s h2, guarded s (h1 ++ h2) = true -> guarded (run s h1) h2 = true.
Proof.
  induction h1 as [|x r IH]; intros s h2 H; [exact H|].
  simpl in H. rewrite run_cons. apply IH. apply andb_true_iff in H. destruct H as [_ H]. exact H.
Qed.

Lemma never_touch_foreign_p : forall h s l,
  guarded s h = true -> inside l = false -> untouched_by_env s h l = true ->
  fget (fs (run s h)) l = fget (fs s) l.
Proof.
  induction h as [|x r IH]; intros s l G Hl U; [reflexivity|].
  simpl in G, U. rewrite run_cons.
  repeat (apply andb_true_iff in G; destruct G as [G ?]).
  apply andb_true_iff in U. destruct U as [U1 U2]. apply negb_true_iff in U1.
  rewrite (IH _ l) by assumption. apply step_outside_frame_p; assumption.
Qed.

Lemma delete_only_unreferenced_p : forall h1 x h2 s l c,
  guarded s (h1 ++ x :: h2) = true ->
  touches_env (run s h1) x l = false ->
  fget (fs (run s h1)) l = Some c -> fget (fs (fst (step (run s h1) x))) l = None ->
  referenced (fst (step (run s h1) x)) l = false.
Proof.
  intros h1 x h2 s l c G Henv Hf Hd. apply guarded_app in G. simpl in G.
  repeat (apply andb_true_iff in G; destruct G as [G ?]).
  apply (step_deletes_unreferenced_p _ x l c); assumption.
Qed.

(* a sibling that shares the artifact keeps it: multi-ref files, zip members *)
Lemma delete_upto_only_deletes : forall s rows f l c',
  fget (fst (delete_upto s rows f)) l = Some c' -> fget f l = Some c'.
Proof.
  induction rows as [|r rest IH]; intros f l c' H; simpl in H; [exact H|].
  destruct (poison s (snd r)); [exact H|].
  specialize (IH _ _ _ H). destruct (deletes s (snd r)); [|exact IH].
  destruct (lkey_eqb (loc (snd r)) l) eqn:El.
  - apply lkey_eqb_eq in El. subst l. rewrite fget_fdel_same in IH. discriminate.
  - rewrite (fget_fdel_other _ _ _ El) in IH. exact IH.
Qed.

Lemma shared_survives_p : forall s ids l c,
  sharing_visible s = true -> live_trash_disjoint s = true -> fget (fs s) l = Some c ->
  referenced (fst (step s (Prune ids))) l = true ->
  fget (fs (fst (step s (Prune ids)))) l = Some c.
Proof.
  intros s ids l c Hvis Hdis Hf Href.
  change (fst (step s (Prune ids))) with (fst (empty_trash_v true (do_trash s ids))) in *.
  destruct (fget (fs (fst (empty_trash_v true (do_trash s ids)))) l) as [c'|] eqn:E.
  - assert (K : fget (fs (do_trash s ids)) l = Some c').
    { unfold empty_trash_v in E.
      pose proof (delete_upto_only_deletes (do_trash s ids) (trashed_recs (do_trash s ids)) (fs (do_trash s ids)) l c') as D.
      destruct (delete_upto (do_trash s ids) (trashed_recs (do_trash s ids)) (fs (do_trash s ids))) as [f b].
      destruct b; cbn [fst fs with_fs] in E; apply D; exact E. }
    rewrite do_trash_fs in K. rewrite Hf in K. symmetry. exact K.
  - exfalso.
    pose proof (empty_trash_v_unreferenced_p (do_trash s ids) l c Hvis (disjoint_trash s ids Hdis) Hf E) as R.
    rewrite R in Href. discriminate.
Qed.
