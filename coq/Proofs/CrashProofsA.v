(* C08 lemmas, part A: list-set facts, file-map facts, the `always` combinator (a predicate holds after EVERY prefix of a
   plan), transaction blocks, file-system safety of plans (never a partial file under a final name). *)
From Coq Require Import NArith PeanoNat List Bool Lia.
From V Require Import Model.Crash.
Import ListNotations.
Open Scope N_scope.

(* ------------------------------------------------------------------ list sets *)
Lemma mem_In : forall x l, mem x l = true <-> In x l.
Proof.
  induction l as [|y r IH]; simpl; [split; [discriminate | tauto]|].
  destruct (N.eqb_spec x y) as [->|N]; split; auto; intros H.
  - right. apply IH, H.
  - destruct H as [H|H]; [congruence | apply IH, H].
Qed.

Lemma mem_false_In : forall x l, mem x l = false <-> ~ In x l.
Proof. intros. rewrite <- mem_In. destruct (mem x l); split; congruence. Qed.

Lemma mem_add : forall x y l, mem x (add y l) = (x =? y) || mem x l.
Proof.
  intros. unfold add. destruct (mem y l) eqn:E; simpl.
  - destruct (N.eqb_spec x y) as [->|]; simpl; auto.
  - reflexivity.
Qed.

Lemma mem_addl : forall x xs l, mem x (addl xs l) = mem x xs || mem x l.
Proof.
  induction xs as [|y r IH]; intros; simpl; auto.
  rewrite mem_add, IH. destruct (x =? y); reflexivity.
Qed.

Lemma mem_filter : forall x f l, mem x (filter f l) = mem x l && f x.
Proof.
  induction l as [|y r IH]; simpl; auto.
  destruct (f y) eqn:F; simpl; destruct (N.eqb_spec x y) as [->|]; simpl; rewrite ?IH, ?F; auto;
    destruct (mem y r); reflexivity.
Qed.

Lemma mem_reml : forall x xs l, mem x (reml xs l) = mem x l && negb (mem x xs).
Proof. intros. unfold reml. apply mem_filter. Qed.

Lemma mem_inter : forall x xs l, mem x (inter xs l) = mem x xs && mem x l.
Proof. intros. unfold inter. apply mem_filter. Qed.

Lemma mem_rem : forall x y l, mem x (rem y l) = mem x l && negb (x =? y).
Proof.
  induction l as [|z r IH]; simpl; auto.
  destruct (N.eqb_spec y z) as [->|N].
  - rewrite IH. destruct (N.eqb_spec x z); simpl; auto. destruct (mem x r); auto.
  - simpl. rewrite IH. destruct (N.eqb_spec x z) as [->|]; simpl; auto.
    destruct (N.eqb_spec z y); [congruence | reflexivity].
Qed.

Lemma mem_app : forall x a b, mem x (a ++ b) = mem x a || mem x b.
Proof. induction a; simpl; intros; auto. destruct (x =? a); auto. Qed.

Lemma mem_order_by : forall x ord rows, mem x (order_by ord rows) = mem x rows.
Proof.
  intros. unfold order_by. rewrite mem_app, mem_inter, mem_reml.
  destruct (mem x ord), (mem x rows); reflexivity.
Qed.

(* ------------------------------------------------------------------ file maps *)
Lemma fname_eqb_refl : forall f, fname_eqb f f = true.
Proof. destruct f; simpl; apply N.eqb_refl. Qed.

Lemma fname_eqb_eq : forall a b, fname_eqb a b = true <-> a = b.
Proof.
  destruct a, b; simpl; split; intros H; try discriminate; try (apply N.eqb_eq in H; congruence);
    inversion H; apply N.eqb_refl.
Qed.

Lemma fname_eqb_neq : forall a b, fname_eqb a b = false <-> a <> b.
Proof. intros. rewrite <- fname_eqb_eq. destruct (fname_eqb a b); split; congruence. Qed.

Lemma fget_fdel_same : forall f m, fget f (fdel f m) = None.
Proof.
  induction m as [|[g c] r IH]; simpl; auto.
  destruct (fname_eqb f g) eqn:E; simpl; auto. rewrite E. exact IH.
Qed.

Lemma fget_fdel_other : forall f g m, f <> g -> fget f (fdel g m) = fget f m.
Proof.
  induction m as [|[h c] r IH]; simpl; intros N; auto.
  destruct (fname_eqb g h) eqn:E.
  - apply fname_eqb_eq in E. subst h. rewrite IH by exact N.
    destruct (fname_eqb f g) eqn:E2; auto. apply fname_eqb_eq in E2. congruence.
  - simpl. destruct (fname_eqb f h); auto.
Qed.

Lemma fget_fset_same : forall f c m, fget f (fset f c m) = Some c.
Proof. intros. unfold fset. simpl. rewrite fname_eqb_refl. reflexivity. Qed.

Lemma fget_fset_other : forall f g c m, f <> g -> fget f (fset g c m) = fget f m.
Proof.
  intros. unfold fset. simpl. destruct (fname_eqb f g) eqn:E.
  - apply fname_eqb_eq in E. congruence.
  - apply fget_fdel_other. exact H.
Qed.

(* ------------------------------------------------------------------ always: after every prefix *)
Definition always (P : state -> Prop) (s : state) (p : list step) : Prop :=
  forall k, P (run_steps s (firstn k p)).

Lemma always_nil : forall (P : state -> Prop) s, P s -> always P s [].
Proof. intros P s H k. destruct k; exact H. Qed.

Lemma always_cons : forall (P : state -> Prop) s t p, P s -> always P (do_step s t) p -> always P s (t :: p).
Proof. intros P s t p H A k. destruct k; simpl; [exact H | apply A]. Qed.

Lemma run_steps_app : forall p q s, run_steps s (p ++ q) = run_steps (run_steps s p) q.
Proof. intros. unfold run_steps. apply fold_left_app. Qed.

Lemma always_app : forall (P : state -> Prop) s p q, always P s p -> always P (run_steps s p) q -> always P s (p ++ q).
Proof.
  intros P s p q A B k. rewrite firstn_app, run_steps_app.
  destruct (Nat.le_gt_cases k (length p)) as [L|L].
  - replace (k - length p)%nat with 0%nat by lia. simpl.
    specialize (A k). exact A.
  - rewrite (firstn_all2 p) by lia. apply B.
Qed.

Lemma always_here : forall (P : state -> Prop) s p, always P s p -> P s.
Proof. intros P s p A. exact (A 0%nat). Qed.

Lemma always_end : forall (P : state -> Prop) s p, always P s p -> P (run_steps s p).
Proof. intros P s p A. specialize (A (length p)). rewrite firstn_all in A. exact A. Qed.

Lemma always_impl : forall (P Q : state -> Prop) s p, (forall x, P x -> Q x) -> always P s p -> always Q s p.
Proof. intros P Q s p I A k. apply I, A. Qed.

Lemma always_and : forall (P Q : state -> Prop) s p, always P s p -> always Q s p -> always (fun x => P x /\ Q x) s p.
Proof. intros P Q s p A B k. split; [apply A | apply B]. Qed.

(* a step-wise invariant holds always *)
Lemma always_steps : forall (P : state -> Prop) (ok : step -> Prop) p s,
  (forall x t, P x -> ok t -> P (do_step x t)) -> Forall ok p -> P s -> always P s p.
Proof.
  intros P ok p. induction p as [|t r IH]; intros s H F Ps.
  - apply always_nil, Ps.
  - inversion F; subst. apply always_cons; [exact Ps | apply IH; auto].
Qed.

(* ------------------------------------------------------------------ transaction blocks *)
Definition is_txn_marker (t : step) : bool := match t with SqlBegin | SqlCommit => true | _ => false end.
Definition no_marker (p : list step) : Prop := Forall (fun t => is_txn_marker t = false) p.

Definition stmts_of (p : list step) : list stmt :=
  flat_map (fun t => match t with SqlStmt q => [q] | _ => [] end) p.
Definition apply_all (qs : list stmt) (b : db) : db := fold_left (fun x q => apply_stmt q x) qs b.

(* inside an open transaction the committed rows never move, and the overlay accumulates the statements *)
Lemma in_txn_steps : forall body s o,
  no_marker body -> ovl s = Some o ->
  cdb (run_steps s body) = cdb s /\ ovl (run_steps s body) = Some (apply_all (stmts_of body) o).
Proof.
  induction body as [|t r IH]; intros s o NM O.
  - split; [reflexivity | exact O].
  - inversion NM as [|? ? Ht Hr]; subst.
    change (run_steps s (t :: r)) with (run_steps (do_step s t) r).
    change (stmts_of (t :: r)) with ((match t with SqlStmt q => [q] | _ => [] end) ++ stmts_of r).
    destruct t; simpl in Ht; try discriminate.
    + assert (E : do_step s (SqlStmt q) = mkSt (cdb s) (Some (apply_stmt q o)) (fs s)) by (simpl; rewrite O; reflexivity).
      rewrite E. destruct (IH (mkSt (cdb s) (Some (apply_stmt q o)) (fs s)) (apply_stmt q o) Hr eq_refl) as [A B].
      split; [exact A | rewrite B; reflexivity].
    + destruct (IH (do_step s (FsWriteTmp f c)) o Hr) as [A B]; [simpl; exact O|]. split; [exact A | exact B].
    + assert (O' : ovl (do_step s (FsRename src dst)) = Some o /\ cdb (do_step s (FsRename src dst)) = cdb s).
      { simpl. destruct (fget src (fs s)); simpl; auto. }
      destruct O' as [O1 O2]. destruct (IH _ o Hr O1) as [A B]. split; [rewrite <- O2; exact A | exact B].
    + destruct (IH (do_step s (FsDelete f)) o Hr) as [A B]; [simpl; exact O|]. split; [exact A | exact B].
Qed.

Lemma no_marker_firstn : forall k p, no_marker p -> no_marker (firstn k p).
Proof.
  induction k; intros p H; simpl; [constructor|].
  destruct p; [constructor|]. inversion H; subst. constructor; auto. apply IHk. assumption.
Qed.

(* a whole block SqlBegin; body; SqlCommit from a state without an open transaction *)
Lemma txn_block_cdb_prefix : forall body s k,
  no_marker body -> ovl s = None -> (k <= S (length body))%nat ->
  cdb (run_steps s (firstn k (SqlBegin :: body ++ [SqlCommit]))) = cdb s.
Proof.
  intros body s k NM O L. destruct k; [reflexivity|].
  change (firstn (S k) (SqlBegin :: body ++ [SqlCommit])) with (SqlBegin :: firstn k (body ++ [SqlCommit])).
  change (run_steps s (SqlBegin :: firstn k (body ++ [SqlCommit]))) with (run_steps (do_step s SqlBegin) (firstn k (body ++ [SqlCommit]))).
  assert (E : do_step s SqlBegin = mkSt (cdb s) (Some (cdb s)) (fs s)) by (simpl; rewrite O; reflexivity).
  rewrite E.
  rewrite firstn_app. replace (k - length body)%nat with 0%nat by lia. simpl firstn. rewrite app_nil_r.
  destruct (in_txn_steps (firstn k body) (mkSt (cdb s) (Some (cdb s)) (fs s)) (cdb s)) as [A _];
    [apply no_marker_firstn, NM | reflexivity |]. exact A.
Qed.

Lemma txn_block_end : forall body s,
  no_marker body -> ovl s = None ->
  cdb (run_steps s (SqlBegin :: body ++ [SqlCommit])) = apply_all (stmts_of body) (cdb s)
  /\ ovl (run_steps s (SqlBegin :: body ++ [SqlCommit])) = None.
Proof.
  intros body s NM O.
  assert (E : do_step s SqlBegin = mkSt (cdb s) (Some (cdb s)) (fs s)) by (simpl; rewrite O; reflexivity).
  change (run_steps s (SqlBegin :: body ++ [SqlCommit])) with (run_steps (do_step s SqlBegin) (body ++ [SqlCommit])).
  rewrite E, run_steps_app.
  destruct (in_txn_steps body (mkSt (cdb s) (Some (cdb s)) (fs s)) (cdb s) NM eq_refl) as [A B].
  change (run_steps (run_steps (mkSt (cdb s) (Some (cdb s)) (fs s)) body) [SqlCommit])
    with (do_step (run_steps (mkSt (cdb s) (Some (cdb s)) (fs s)) body) SqlCommit).
  simpl. rewrite B. simpl. split; reflexivity.
Qed.

(* the file system does not care about SQL steps, and the rows do not care about file steps *)
Definition is_sql (t : step) : bool := match t with SqlBegin | SqlStmt _ | SqlCommit => true | _ => false end.

Lemma sql_step_fs : forall s t, is_sql t = true -> fs (do_step s t) = fs s.
Proof. intros s t H. destruct t; simpl in *; try discriminate; destruct (ovl s); reflexivity. Qed.

Lemma fs_step_db : forall s t, is_sql t = false -> cdb (do_step s t) = cdb s /\ ovl (do_step s t) = ovl s.
Proof.
  intros s t H. destruct t; simpl in *; try discriminate; auto.
  destruct (fget src (fs s)); auto.
Qed.

(* ------------------------------------------------------------------ never a partial file under a final name *)
(* J: every file under a final name and every staging file is complete (temporary names may hold anything) *)
Definition J (m : fsmap) : Prop :=
  forall d, fget (Final d) m <> Some Partial /\ fget (Ext d) m <> Some Partial.

Definition Js (s : state) : Prop := J (fs s).

(* the shapes of file activity the plans are made of *)
Inductive fs_safe : list step -> Prop :=
| fss_nil : fs_safe []
| fss_sql : forall t p, is_sql t = true -> fs_safe p -> fs_safe (t :: p)
| fss_write : forall t d v p, fs_safe p -> fs_safe (write_artifact t d v ++ p)
| fss_move : forall d p, fs_safe p -> fs_safe (FsRename (Ext d) (Final d) :: p)
| fss_delete : forall f p, fs_safe p -> fs_safe (FsDelete f :: p).

Lemma J_fdel : forall f m, J m -> J (fdel f m).
Proof.
  intros f m H d. destruct (H d) as [A B]. split.
  - destruct (fname_eqb (Final d) f) eqn:E.
    + apply fname_eqb_eq in E. subst f. rewrite fget_fdel_same. discriminate.
    + apply fname_eqb_neq in E. rewrite fget_fdel_other by exact E. exact A.
  - destruct (fname_eqb (Ext d) f) eqn:E.
    + apply fname_eqb_eq in E. subst f. rewrite fget_fdel_same. discriminate.
    + apply fname_eqb_neq in E. rewrite fget_fdel_other by exact E. exact B.
Qed.

Lemma J_fset_tmp : forall t c m, J m -> J (fset (Tmp t) c m).
Proof.
  intros t c m H d. destruct (H d) as [A B].
  split; rewrite fget_fset_other by discriminate; assumption.
Qed.

Lemma J_fset_complete : forall f v m, J m -> J (fset f (Complete v) m).
Proof.
  intros f v m H d. destruct (H d) as [A B]. split.
  - destruct (fname_eqb (Final d) f) eqn:E.
    + apply fname_eqb_eq in E. subst f. rewrite fget_fset_same. discriminate.
    + apply fname_eqb_neq in E. rewrite fget_fset_other by exact E. exact A.
  - destruct (fname_eqb (Ext d) f) eqn:E.
    + apply fname_eqb_eq in E. subst f. rewrite fget_fset_same. discriminate.
    + apply fname_eqb_neq in E. rewrite fget_fset_other by exact E. exact B.
Qed.

Lemma write_artifact_safe : forall t d v s, Js s -> always Js s (write_artifact t d v).
Proof.
  intros t d v s H. unfold write_artifact.
  apply always_cons; [exact H|].
  apply always_cons; [unfold Js; cbn [do_step fs]; apply J_fset_tmp, H|].
  apply always_cons; [unfold Js; cbn [do_step fs]; apply J_fset_tmp, J_fset_tmp, H|].
  apply always_nil. unfold Js. cbn [do_step fs cdb ovl].
  rewrite fget_fset_same. cbn [fs]. apply J_fset_complete, J_fdel, J_fset_tmp, J_fset_tmp, H.
Qed.

Lemma fs_safe_always : forall p, fs_safe p -> forall s, Js s -> always Js s p.
Proof.
  induction 1 as [|t p St Sp IH|t d v p Sp IH|d p Sp IH|f p Sp IH]; intros s H0.
  - apply always_nil, H0.
  - apply always_cons; [exact H0|]. apply IH. unfold Js. rewrite sql_step_fs by assumption. exact H0.
  - apply always_app; [apply write_artifact_safe, H0|]. apply IH.
    exact (always_end _ _ _ (write_artifact_safe t d v s H0)).
  - apply always_cons; [exact H0|]. apply IH. unfold Js. cbn [do_step].
    destruct (fget (Ext d) (fs s)) as [c|] eqn:E; [|exact H0]. cbn [fs].
    destruct c as [|v].
    + exfalso. destruct (H0 d) as [_ B]. apply B. exact E.
    + apply J_fset_complete, J_fdel, H0.
  - apply always_cons; [exact H0|]. apply IH. unfold Js. cbn [do_step fs]. apply J_fdel, H0.
Qed.

Lemma fs_safe_app : forall p q, fs_safe p -> fs_safe q -> fs_safe (p ++ q).
Proof.
  induction 1 as [|t p St Sp IH|t d v p Sp IH|d p Sp IH|f p Sp IH]; intros Q.
  - exact Q.
  - change ((t :: p) ++ q) with (t :: (p ++ q)). apply fss_sql; auto.
  - rewrite <- app_assoc. apply fss_write; auto.
  - change ((FsRename (Ext d) (Final d) :: p) ++ q) with (FsRename (Ext d) (Final d) :: (p ++ q)). apply fss_move; auto.
  - change ((FsDelete f :: p) ++ q) with (FsDelete f :: (p ++ q)). apply fss_delete; auto.
Qed.

Lemma fs_safe_sql_list : forall p, Forall (fun t => is_sql t = true) p -> fs_safe p.
Proof. induction 1; [constructor | apply fss_sql; auto]. Qed.

Lemma fs_safe_write_all : forall value l t, fs_safe (write_all t value l).
Proof.
  induction l as [|d r IH]; intros t; simpl; [constructor|].
  change (write_artifact t d (value d) ++ write_all (t + 1) value r) with (write_artifact t d (value d) ++ write_all (t + 1) value r).
  apply fss_write, IH.
Qed.

Lemma fs_safe_deletes : forall rows, fs_safe (map (fun d => FsDelete (Final d)) rows).
Proof. induction rows as [|d r IH]; simpl; [constructor | apply fss_delete, IH]. Qed.

Lemma fs_safe_plan_empty : forall b ord, fs_safe (plan_empty b ord).
Proof.
  intros. unfold plan_empty. destruct (order_by ord (inter (d_trash b) (d_recs b))) as [|x r] eqn:E; [constructor|].
  apply fs_safe_app; [apply fs_safe_deletes|].
  apply fs_safe_sql_list. repeat constructor.
Qed.

Lemma fs_safe_plan : forall s o, fs_safe (plan s o).
Proof.
  intros s o. unfold plan.
  assert (SQLL : forall p, Forall (fun t => is_sql t = true) p -> fs_safe p) by apply fs_safe_sql_list.
  destruct o; simpl.
  - (* Put *) destruct (insert_ok (cdb s) [d]); [|constructor].
    simpl. do 2 (apply fss_sql; [reflexivity|]). apply (fss_write _ d v). apply SQLL. repeat constructor.
  - destruct (fget (Ext d) (fs s)) as [[|v]|]; try constructor.
    destruct (insert_ok (cdb s) [d]); [|constructor].
    simpl. do 2 (apply fss_sql; [reflexivity|]). apply (fss_write _ d v). apply SQLL. repeat constructor.
  - destruct (fget (Ext d) (fs s)) as [[|v]|]; try constructor.
    destruct (insert_ok (cdb s) [d]); [|constructor].
    simpl. do 2 (apply fss_sql; [reflexivity|]). apply fss_move. apply SQLL. repeat constructor.
  - destruct l as [|x r]; [constructor|].
    destruct (insert_ok (cdb s) (x :: r)); [|constructor].
    cbn [fst snd]. change ([SqlBegin; SqlStmt (InsDataset (x :: r))] ++ write_all (next_tmp (fs s)) src_value (x :: r) ++
       [SqlStmt (InsLocation (x :: r)); SqlStmt (InsRecords (x :: r)); SqlCommit])
      with (SqlBegin :: SqlStmt (InsDataset (x :: r)) :: (write_all (next_tmp (fs s)) src_value (x :: r) ++
       [SqlStmt (InsLocation (x :: r)); SqlStmt (InsRecords (x :: r)); SqlCommit])).
    do 2 (apply fss_sql; [reflexivity|]). apply fs_safe_app; [apply fs_safe_write_all|]. apply SQLL. repeat constructor.
  - (* Prune *) destruct (inter l (d_ds (cdb s))) as [|x r]; cbn [fst snd].
    + simpl. apply fs_safe_plan_empty.
    + apply fs_safe_app; [|apply fs_safe_plan_empty]. apply SQLL. repeat constructor.
  - destruct (inter (inter l (d_ds (cdb s))) (d_loc (cdb s))) as [|x r]; cbn [fst snd].
    + simpl. apply fs_safe_plan_empty.
    + apply fs_safe_app; [|apply fs_safe_plan_empty]. apply SQLL. repeat constructor.
  - destruct (inter (inter l (d_ds (cdb s))) (d_loc (cdb s))) as [|x r]; cbn [fst snd]; [constructor|].
    apply SQLL. repeat constructor.
  - destruct (mem r (d_runs (cdb s))); cbn [fst snd]; [|constructor].
    apply fs_safe_app; [|apply fs_safe_plan_empty]. apply SQLL. repeat constructor.
  - simpl. apply fs_safe_plan_empty.
Qed.

(* THEOREM material: after every prefix of every plan, and after recovery, no final name holds a partial file *)
Lemma no_partial_final_l : forall s o k d, Js s -> fget (Final d) (fs (crash s (plan s o) k)) <> Some Partial.
Proof.
  intros s o k d H. unfold crash, recover. simpl.
  pose proof (fs_safe_always _ (fs_safe_plan s o) s H k) as A. destruct (A d) as [A1 _]. exact A1.
Qed.

Lemma Js_crash : forall s o k, Js s -> Js (crash s (plan s o) k).
Proof.
  intros s o k H. unfold crash, recover, Js. simpl. exact (fs_safe_always _ (fs_safe_plan s o) s H k).
Qed.

Lemma Js_run_op : forall s o, Js s -> Js (run_op s o).
Proof.
  intros s o H. unfold run_op.
  assert (H' : Js (recover s)) by exact H.
  pose proof (fs_safe_always _ (fs_safe_plan (recover s) o) (recover s) H') as A.
  apply always_end in A. exact A.
Qed.

Lemma Js_run : forall h s, Js s -> Js (run s h).
Proof. induction h as [|o r IH]; intros s H; simpl; [exact H | apply IH, Js_run_op, H]. Qed.

Lemma Js_init : Js init.
Proof.
  intros d. unfold init, Js. cbn. split; [discriminate|].
  repeat match goal with |- context [?a =? ?b] => destruct (a =? b) end; discriminate.
Qed.
