(* C02: abs_commutes for histories with FORGED refs, with the exact guard.
   A forged ref handed to associate (live id, other dataset type / data ID) is stored by the registry as given; the abstract
   map follows it (a_assoc1 uses the ref's key), so associate / disassociate / removals / insert still simulate.  The one
   operation that can tell is import: its second validation query reads every membership of a dataset id.  The guard
   `import_guard s c refs` = every ref of the batch is honest in s, or the abstract map refuses it anyway.  Under the
   guard at every import (`guarded h`) the full simulation holds, whatever was forged before; `honest h -> guarded h`;
   and the guard is needed (witness in Props/C02.v). *)
From Coq Require Import NArith Arith List Bool Lia.
From V Require Import Model.Registry Model.RegistryAbs Proofs.RegistryProofs Proofs.RegistryProofsX1 Proofs.RegistryProofsX2
  Proofs.RegistryProofsX3.
Import ListNotations.
Open Scope N_scope.

Definition import_guard (s : state) (c : N) (refs : list ref) : bool :=
  forallb (fun f => honest_ref s f || a_bad (abs s) c f) refs.
Definition guarded_op (s : state) (o : op) : bool :=
  match o with Import c refs => import_guard s c refs | _ => true end.
Fixpoint guarded_from (s : state) (h : list op) : bool :=
  match h with [] => true | o :: r => guarded_op s o && guarded_from (exec s o) r end.
Definition guarded (h : list op) : bool := guarded_from init h.

Lemma a_bad_aeq : forall a a' c f, aeq a a' -> a_bad a c f = a_bad a' c f.
Proof. intros a a' c f [_ [_ [Hd Hm]]]. unfold a_bad. rewrite Hd, Hm. reflexivity. Qed.

Section Guard.
  Variables (s : state) (a : astate).
  Hypothesis HU : Uniq s.
  Hypothesis HJ : J s.
  Hypothesis HA : aeq a (abs s).

  Let Hc : forall c, a_coll a c = coll_type s c. Proof. destruct HA as [H _]; exact H. Qed.
  Let Ht : forall t, a_type a t = has_type s t. Proof. destruct HA as [_ [H _]]; exact H. Qed.
  Let Hd : forall i, a_def a i = dlook (datasets s) i. Proof. destruct HA as [_ [_ [H _]]]; exact H. Qed.
  Let Hm : forall c t d, a_mem a c t d = look (tags s) c t d. Proof. destruct HA as [_ [_ [_ H]]]; exact H. Qed.

  (* the three validation queries of import say what a_bad says for every ref that is honest or refused by the map *)
  Lemma bad_equiv_guard : forall c f, honest_ref s f || a_bad a c f = true ->
    a_bad a c f = imp_bad_def s c f || imp_bad_dataid s f || imp_bad_key s c f.
  Proof.
    intros c f HG. destruct HJ as [I0 [FK [Ra Rb]]]. destruct f as [i t d].
    assert (HG' : (forall y, In y (tags s) -> r_id y = i -> r_type y = t /\ r_data y = d) \/ a_bad a c (Ref i t d) = true).
    { apply orb_true_iff in HG. destruct HG as [HG|HG]; [left|right; exact HG].
      intros y Hy Ey. exact (honest_ref_spec s (Ref i t d) y HG Hy Ey). }
    clear HG. revert HG'. unfold a_bad, imp_bad_def; simpl. rewrite Hd, Hm. unfold dlook.
    destruct (ds_find (datasets s) i) as [x|] eqn:E; simpl.
    - destruct (d_type x =? t) eqn:E1; simpl; [|reflexivity].
      destruct (d_run x =? c) eqn:E2; simpl; [|reflexivity].
      apply N.eqb_eq in E1. apply N.eqb_eq in E2. apply ds_find_some in E. destruct E as [Hx Ei].
      destruct (Ra x Hx) as [_ [d0 Hrow]]. rewrite E1, E2, Ei in Hrow.
      destruct (look (tags s) c t d) as [j|] eqn:L.
      + destruct (j =? i) eqn:Ej; simpl.
        * intros [HG|HG]; [|discriminate].
          apply N.eqb_eq in Ej. subst j. apply look_some_in in L. symmetry. apply orb_false_iff. split.
          -- unfold imp_bad_dataid. apply existsb_false_forall. intros y Hy. simpl.
             destruct (r_id y =? i) eqn:Ey; [|reflexivity]. apply N.eqb_eq in Ey.
             destruct (HG y Hy Ey) as [G1 G2]. rewrite G1, G2, !N.eqb_refl. reflexivity.
          -- unfold imp_bad_key. apply existsb_false_forall. intros y Hy. simpl.
             destruct ((r_type y =? t) && (r_coll y =? c) && (r_data y =? d)) eqn:K; [|reflexivity]. simpl.
             apply andb_true_iff in K. destruct K as [K K3]. apply andb_true_iff in K. destruct K as [K1 K2].
             apply N.eqb_eq in K1. apply N.eqb_eq in K2. apply N.eqb_eq in K3.
             assert (r_id y = i) as ->.
             { apply (uniq_key s c t d (r_id y) i HU); auto. rewrite <- K1, <- K2, <- K3, row_eta. exact Hy. }
             rewrite N.eqb_refl. reflexivity.
        * intros _. symmetry. apply orb_true_iff. right. unfold imp_bad_key. apply existsb_exists.
          exists (Row c t d j). split; [apply look_some_in; exact L|]. simpl. rewrite !N.eqb_refl, Ej. reflexivity.
      + intros _. simpl. symmetry. apply orb_true_iff. left. unfold imp_bad_dataid. apply existsb_exists.
        exists (Row c t d0 i). split; [exact Hrow|]. simpl. rewrite !N.eqb_refl. simpl.
        destruct (d0 =? d) eqn:Ed; [|reflexivity]. apply N.eqb_eq in Ed. subst d0.
        apply look_none in L. exfalso. apply L. apply in_map_iff. exists (Row c t d i). split; auto.
    - intros _.
      assert (NoRow : forall y, In y (tags s) -> (r_id y =? i) = false).
      { intros y Hy. destruct (r_id y =? i) eqn:Ey; [|reflexivity]. apply N.eqb_eq in Ey.
        destruct (FK y Hy) as [Al _]. unfold alive in Al. rewrite Ey, E in Al. discriminate. }
      assert (imp_bad_dataid s (Ref i t d) = false) as ->.
      { unfold imp_bad_dataid. apply existsb_false_forall. intros y Hy. simpl. rewrite (NoRow y Hy). reflexivity. }
      simpl. destruct (look (tags s) c t d) as [j|] eqn:L.
      + symmetry. unfold imp_bad_key. apply existsb_exists. exists (Row c t d j).
        pose proof (look_some_in _ _ _ _ _ L) as Hj. split; [exact Hj|]. simpl. rewrite !N.eqb_refl.
        pose proof (NoRow _ Hj) as Q. simpl in Q. rewrite Q. reflexivity.
      + symmetry. unfold imp_bad_key. apply existsb_false_forall. intros y Hy. simpl.
        destruct ((r_type y =? t) && (r_coll y =? c) && (r_data y =? d)) eqn:K; [|reflexivity].
        apply andb_true_iff in K. destruct K as [K K3]. apply andb_true_iff in K. destruct K as [K1 K2].
        apply N.eqb_eq in K1. apply N.eqb_eq in K2. apply N.eqb_eq in K3.
        apply look_none in L. exfalso. apply L. apply in_map_iff. exists y. split; auto.
        unfold ukey. congruence.
  Qed.

  Lemma import_sim_guard : forall c refs, import_guard s c refs = true -> sim_res (a_import a c refs) (do_import s c refs).
  Proof.
    intros c refs HG. unfold a_import, do_import. destruct refs as [|f0 refs]; [apply same_sim; exact HA|].
    cbv iota. remember (f0 :: refs) as rfs eqn:Erfs. clear Erfs.
    rewrite Hc. destruct (coll_type s c) as [[|]|]; try (apply same_sim; exact HA).
    destruct (negb (forallb (fun f => valid_d (f_data f)) rfs)); [apply same_sim; exact HA|].
    rewrite (forallb_ext' (fun f => a_type a (f_type f)) (fun f => has_type s (f_type f)) rfs) by (intros; apply Ht).
    destruct (negb (forallb (fun f => has_type s (f_type f)) rfs)); [apply same_sim; exact HA|].
    unfold batch_ok. destruct (fold_opt tag_insert [] (map (ref_row c) rfs)); simpl; [|apply same_sim; exact HA].
    rewrite (existsb_ext' (a_bad a c) (fun f => imp_bad_def s c f || imp_bad_dataid s f || imp_bad_key s c f) rfs).
    2:{ intros f Hf. apply bad_equiv_guard. unfold import_guard in HG. rewrite forallb_forall in HG. specialize (HG f Hf).
        rewrite (a_bad_aeq a (abs s) c f HA). exact HG. }
    rewrite existsb_or3.
    destruct (existsb (imp_bad_def s c) rfs); simpl; [apply same_sim; exact HA|].
    destruct (existsb (imp_bad_dataid s) rfs); simpl; [apply same_sim; exact HA|].
    destruct (existsb (imp_bad_key s c) rfs); simpl; [apply same_sim; exact HA|].
    rewrite (filter_ext (fun f => match a_def a (f_id f) with Some _ => false | None => true end)
                        (fun f => negb (alive s (f_id f))))
      by (intros f; rewrite Hd, dlook_alive; destruct (dlook (datasets s) (f_id f)); reflexivity).
    set (fresh := filter (fun f => negb (alive s (f_id f))) rfs).
    pose proof (add_sim s a HJ HA c (map (ref_row c) fresh)) as S. rewrite map_map in S. simpl in S.
    destruct (fold_opt ds_insert (datasets s) (map (fun f => Ds (f_id f) (f_type f) c) fresh)) as [ds'|],
             (fold_opt d_ins (a_def a) (map (fun f => Ds (f_id f) (f_type f) c) fresh)) as [f'|]; try contradiction;
      [|apply same_sim; exact HA].
    destruct S as [S1 S2]. unfold sim_opt in S2.
    destruct (fold_opt tag_insert (tags s) (map (ref_row c) fresh)) as [tg'|],
             (fold_opt m_ins (a_mem a) (map (ref_row c) fresh)) as [m'|]; try contradiction; [|apply same_sim; exact HA].
    split; [reflexivity|]. split; [|split; [|split]]; simpl; auto;
      try (intros i; symmetry; apply S1); try (intros c' t' d'; symmetry; apply S2).
  Qed.

  Lemma step_sim_guard : forall o, guarded_op s o = true -> sim_res (astep a o) (step s o).
  Proof.
    intros o HG. destruct o; try (apply (step_sim s a HU HJ HA); right; reflexivity).
    simpl. apply import_sim_guard. exact HG.
  Qed.
End Guard.

Lemma step_J : forall s o, J s -> J (exec s o).
Proof. intros s o H. apply changed_J with (s := s); auto. apply step_changed. Qed.

Lemma guard_sim_from : forall h s a, Uniq s -> J s -> aeq a (abs s) -> guarded_from s h = true ->
  aeq (fold_left aexec h a) (abs (fold_left exec h s)) /\ aouts a h = outs s h.
Proof.
  induction h as [|o h IH]; simpl; intros s a HU HJ HA HH; [split; [exact HA | reflexivity]|].
  apply andb_true_iff in HH. destruct HH as [H1 H2].
  destruct (step_sim_guard s a HU HJ HA o H1) as [S1 S2].
  destruct (IH (exec s o) (aexec a o)) as [Q1 Q2]; auto.
  - apply step_uniq; exact HU.
  - apply step_J; exact HJ.
  - split; [exact Q1|]. rewrite S1, Q2. reflexivity.
Qed.

Lemma abs_commutes_guarded_p : forall h, guarded h = true ->
  aeq (arun h) (abs (run h)) /\ aouts ainit h = outs init h.
Proof.
  intros h H. apply guard_sim_from; [exact (uniq_run []) | exact (J_run []) | apply aeq_init | exact H].
Qed.

(* one import from ANY reachable state (forged memberships allowed) *)
Lemma abs_commutes_import_guard_p : forall h c refs, import_guard (run h) c refs = true ->
  snd (astep (abs (run h)) (Import c refs)) = snd (step (run h) (Import c refs)) /\
  aeq (fst (astep (abs (run h)) (Import c refs))) (abs (exec (run h) (Import c refs))).
Proof.
  intros h c refs H. exact (step_sim_guard (run h) (abs (run h)) (uniq_run h) (J_run h) (aeq_refl _) (Import c refs) H).
Qed.

(* honesty implies the guard: the new theorem generalises abs_commutes *)
Lemma agree_guard : forall s c refs, Uniq s -> J s -> Agree s -> import_guard s c refs = true.
Proof.
  intros s c refs HU HJ HG. unfold import_guard. apply forallb_forall. intros f _.
  destruct (honest_ref s f) eqn:Hh; [reflexivity|]. simpl.
  (* some membership of f's dataset disagrees with f; under Agree all memberships agree, so the RUN membership does *)
  unfold honest_ref in Hh. assert (exists y, In y (tags s) /\ r_id y = f_id f /\ (r_type y <> f_type f \/ r_data y <> f_data f)) as [y [Hy [Ey Hne]]].
  { destruct (forallb _ (tags s)) eqn:F in Hh; [discriminate|]. clear Hh.
    assert (~ (forall y, In y (tags s) -> (negb (r_id y =? f_id f) || (r_type y =? f_type f) && (r_data y =? f_data f)) = true)) as N0.
    { intros A. rewrite (proj2 (forallb_forall _ _) A) in F. discriminate. }
    induction (tags s) as [|y l IH]; [exfalso; apply N0; intros y []|].
    destruct (negb (r_id y =? f_id f) || (r_type y =? f_type f) && (r_data y =? f_data f)) eqn:Q.
    - destruct IH as [z [Hz Pz]].
      + simpl in F. rewrite Q in F. exact F.
      + intros A. apply N0. intros z [<-|Hz]; [exact Q|apply A; exact Hz].
      + exists z. split; [right; exact Hz|exact Pz].
    - exists y. split; [left; reflexivity|]. apply orb_false_iff in Q. destruct Q as [Q1 Q2]. apply negb_false_iff in Q1. apply N.eqb_eq in Q1.
      split; [exact Q1|]. apply andb_false_iff in Q2. destruct Q2 as [Q2|Q2]; apply N.eqb_neq in Q2; [left|right]; exact Q2. }
  destruct HJ as [I0 [FK [Ra Rb]]]. destruct (FK y Hy) as [Al _]. unfold alive in Al. rewrite Ey in Al.
  destruct (ds_find (datasets s) (f_id f)) as [x|] eqn:E; [|discriminate].
  unfold a_bad. simpl. unfold dlook. rewrite E. simpl.
  destruct (d_type x =? f_type f) eqn:E1; simpl; [|reflexivity].
  destruct (d_run x =? c) eqn:E2; simpl; [|reflexivity].
  apply N.eqb_eq in E1. apply N.eqb_eq in E2. pose proof E as E0. apply ds_find_some in E. destruct E as [Hx Ei].
  destruct (Ra x Hx) as [_ [d0 Hrow]]. rewrite E1, E2, Ei in Hrow.
  destruct (HG y _ Hy Hrow Ey) as [G1 G2]. simpl in G1, G2.
  assert (d0 <> f_data f) as Hd0 by (destruct Hne as [Hne|Hne]; congruence).
  destruct (look (tags s) c (f_type f) (f_data f)) as [j|] eqn:L; [|reflexivity].
  destruct (j =? f_id f) eqn:Ej; [|reflexivity]. exfalso. apply N.eqb_eq in Ej. subst j. apply look_some_in in L.
  (* two rows of one (dataset, collection): primary key *)
  destruct HU as [_ HP].
  assert (Row c (f_type f) (f_data f) (f_id f) = Row c (f_type f) d0 (f_id f)) as Q by (apply (nodup_pk_inj (tags s)); auto).
  inversion Q. congruence.
Qed.

Lemma honest_guarded : forall h, honest h = true -> guarded h = true.
Proof.
  intros h. unfold honest, guarded.
  assert (G : forall h s, Inv s -> honest_from s h = true -> guarded_from s h = true).
  { induction h0 as [|o h0 IH]; simpl; intros s HI HH; [reflexivity|]. apply andb_true_iff in HH. destruct HH as [H1 H2].
    apply andb_true_iff. split.
    - destruct o; try reflexivity. simpl. destruct HI as [HU [HJ HG]]. apply agree_guard; auto.
    - apply IH; [apply step_inv; auto|exact H2]. }
  apply G. apply inv_init.
Qed.
