(* C19 -- lemmas about Model/Transfer.v, part 1: what a refused import / transfer leaves behind, id reuse. *)
From Coq Require Import NArith List Bool Lia.
From V Require Import Model.Transfer.
Import ListNotations.
Open Scope N_scope.

Lemma exim_export_error_unchanged : forall m ids cs src t e,
  export ids cs src = XErr e -> exim m ids cs src t = (t, Err e).
Proof. intros. unfold exim, exim_v. rewrite H. reflexivity. Qed.

(* the part of the state that lives inside the import / transfer transaction *)
Definition same_data (t t' : state) : Prop :=
  dims t' = dims t /\ dsets t' = dsets t /\ stored t' = stored t /\ tags t' = tags t /\ calibs t' = calibs t.
(* everything but the dataset types *)
Definition same_but_types (t t' : state) : Prop :=
  same_data t t' /\ colls t' = colls t /\ chains t' = chains t.

Lemma same_data_refl t : same_data t t.
Proof. repeat split. Qed.
Lemma same_data_trans a b c : same_data a b -> same_data b c -> same_data a c.
Proof. unfold same_data. intuition congruence. Qed.
Lemma same_but_types_refl t : same_but_types t t.
Proof. repeat split. Qed.
Lemma same_but_types_trans a b c : same_but_types a b -> same_but_types b c -> same_but_types a c.
Proof. unfold same_but_types, same_data. intuition congruence. Qed.

Lemma reg_type_same p t t' : reg_type p t = ROk t' -> same_but_types t t'.
Proof.
  unfold reg_type. destruct (lookup (fst p) (types t)).
  - destruct (n =? snd p); intros H; inversion H; subst. apply same_but_types_refl.
  - intros H; inversion H; subst. repeat split.
Qed.
Lemma chk_type_same p t t' : chk_type p t = ROk t' -> same_but_types t t'.
Proof.
  unfold chk_type. destruct (lookup (fst p) (types t)); [|discriminate].
  destruct (n =? snd p); intros H; inversion H; subst. apply same_but_types_refl.
Qed.
Lemma reg_coll_same c k t : same_data t (reg_coll c k t).
Proof. unfold reg_coll. destruct (has_key c (colls t)); [apply same_data_refl|]. destruct k; repeat split. Qed.
Lemma set_chain_same c ch t t' : set_chain c ch t = ROk t' -> same_data t t'.
Proof.
  unfold set_chain. destruct (negb _); [discriminate|]. destruct (memN _ _); [discriminate|].
  destruct (lookup c (colls t)) as [[]|]; try discriminate. intros H; inversion H; subst. repeat split.
Qed.
Lemma chain_step_same o t t' : chain_step o t = ROk t' -> same_data t t'.
Proof.
  unfold chain_step. destruct (snd o).
  - apply set_chain_same.
  - intros H; inversion H; subst. apply reg_coll_same.
Qed.

Lemma reg_steps_inv {A} (R : state -> state -> Prop) (f : A -> state -> res) :
  (forall t, R t t) -> (forall a b c, R a b -> R b c -> R a c) ->
  (forall x t t', f x t = ROk t' -> R t t') ->
  forall l t t' oe, reg_steps f l t = (t', oe) -> R t t'.
Proof.
  intros Hr Ht Hf. induction l as [|x l IH]; simpl; intros t t' oe H.
  - inversion H; subst. apply Hr.
  - destruct (f x t) eqn:Ef.
    + eapply Ht; [eapply Hf; eassumption | eapply IH; eassumption].
    + inversion H; subst. apply Hr.
Qed.

Lemma fold_reg_coll_same {A} (g : A -> N) (k : A -> kind) l : forall t,
  same_data t (fold_left (fun t p => reg_coll (g p) (k p) t) l t).
Proof.
  induction l as [|x l IH]; simpl; intros t; [apply same_data_refl|].
  eapply same_data_trans; [apply reg_coll_same | apply IH].
Qed.

Lemma register_same b t t' oe : register b t = (t', oe) -> same_data t t'.
Proof.
  unfold register. destruct (reg_steps reg_type (b_types b) t) as [t1 o1] eqn:E1.
  assert (H1 : same_data t t1).
  { eapply (reg_steps_inv same_data); [apply same_data_refl | apply same_data_trans | | exact E1].
    intros x u u' Hx. apply reg_type_same in Hx. apply Hx. }
  destruct o1.
  - intros H; inversion H; subst. exact H1.
  - intros H. eapply same_data_trans; [exact H1|].
    eapply same_data_trans; [apply (fold_reg_coll_same (fun p : N * kind * list N => fst (fst p)) (fun p => snd (fst p)))|].
    eapply (reg_steps_inv same_data); [apply same_data_refl | apply same_data_trans | | exact H].
    intros x u u'. apply chain_step_same.
Qed.

(* a refused import_: records, dataset rows and associations of the target are as before ... *)
Lemma import_refused_registry : forall m b t t' e, import_ m b t = (t', Err e) ->
  dims t' = dims t /\ dsets t' = dsets t /\ tags t' = tags t /\ calibs t' = calibs t.
Proof.
  intros m b t t' e. unfold import_, import_v. destruct (register b t) as [t0 oe] eqn:Er.
  apply register_same in Er. destruct Er as (Hd & Hs & Hst & Ht & Hc).
  destruct oe.
  - intros H; inversion H; subst. auto.
  - destruct (load_v true m b t0) as [[t2|e2] copied].
    + intros H; inversion H.
    + intros H; inversion H; subst. destruct m, copied; simpl; auto.
Qed.
(* ... and the datastore either as before or with artifacts of the file's datasets destroyed (never anything else) *)
Lemma import_refused_stored : forall m b t t' e, import_ m b t = (t', Err e) ->
  stored t' = stored t \/ (m = Copy /\ stored t' = lose (bundle_ids b) (stored t)).
Proof.
  intros m b t t' e. unfold import_, import_v. destruct (register b t) as [t0 oe] eqn:Er.
  apply register_same in Er. destruct Er as (Hd & Hs & Hst & Ht & Hc).
  destruct oe.
  - intros H; inversion H; subst. auto.
  - destruct (load_v true m b t0) as [[t2|e2] copied].
    + intros H; inversion H.
    + intros H; inversion H; subst. destruct m, copied; simpl; auto. right. rewrite Hst. auto.
Qed.
Lemma import_refused_direct : forall b t t' e, import_ Direct b t = (t', Err e) -> same_data t t'.
Proof.
  intros b t t' e H. destruct (import_refused_registry _ _ _ _ _ H) as (A & B & C & D').
  destruct (import_refused_stored _ _ _ _ _ H) as [E|[E _]]; [|discriminate]. repeat split; assumption.
Qed.
(* loss is confined to datasets of the file that were stored in the store *)
Lemma lose_spec ids st n i : In (n, i) (lose ids st) ->
  In (n, i) st \/ (memN n ids = true /\ i = (None, true) /\ exists v, In (n, (Some v, true)) st).
Proof.
  unfold lose. rewrite in_map_iff. intros ([n' [[v|] [|]]] & Hp & Hin); try (inversion Hp; subst; auto; fail).
  destruct (memN n' ids) eqn:Em; inversion Hp; subst; auto. right. repeat split; eauto.
Qed.

(* a refused transfer_from leaves everything but (possibly) the registered dataset types *)
Lemma transfer_refused : forall m ids rt xd src t t' e ph,
  transfer_from m ids rt xd src t = (t', Err e, ph) -> same_but_types t t'.
Proof.
  intros m ids rt xd src t t' e ph. unfold transfer_from.
  match goal with |- context [reg_steps ?f ?l t] => destruct (reg_steps f l t) as [t0 oe] eqn:Er end.
  assert (H0 : same_but_types t t0).
  { eapply (reg_steps_inv same_but_types); [apply same_but_types_refl | apply same_but_types_trans | | exact Er].
    intros x u u'. destruct rt; [apply reg_type_same | apply chk_type_same]. }
  destruct oe.
  - intros H; inversion H; subst. exact H0.
  - match goal with |- context [foldr ?f ?l ?s] => destruct (foldr f l s) end.
    + destruct m; intros H; inversion H; subst. exact H0.
    + intros H; inversion H; subst. exact H0.
Qed.

(* ---------------------------------------------------------------- id reuse: same id + same definition = no-op *)
Lemma dset_eqb_eq a b : dset_eqb a b = true <-> a = b.
Proof.
  destruct a, b. unfold dset_eqb; simpl. rewrite !andb_true_iff, !N.eqb_eq. split.
  - intros [[[-> ->] ->] ->]. reflexivity.
  - intros H; inversion H; auto.
Qed.
Lemma find_id_app_new n l d : find_id n l = None -> d_id d = n -> find_id n (l ++ [d]) = Some d.
Proof.
  unfold find_id. induction l as [|x l IH]; simpl; intros H Hd.
  - rewrite Hd, N.eqb_refl. reflexivity.
  - destruct (d_id x =? n); [discriminate|]. auto.
Qed.

Lemma import_one_idempotent d t t' : import_one d t = ROk t' -> import_one d t' = ROk t'.
Proof.
  unfold import_one. destruct (lookup (d_run d) (colls t)) as [[]|] eqn:El; try discriminate.
  destruct (negb (has_dims (d_data d) t)) eqn:Ed; [discriminate|].
  destruct (negb (has_key (d_type d) (types t))) eqn:Et; [discriminate|].
  destruct (find_id (d_id d) (dsets t)) as [d'|] eqn:Ef.
  - destruct (dset_eqb d d') eqn:Ee; [|discriminate]. intros H; inversion H; subst.
    rewrite El, Ed, Et, Ef, Ee. reflexivity.
  - destruct (existsb (same_key d) (dsets t)); [discriminate|]. intros H; inversion H; subst. simpl.
    rewrite El. unfold has_dims in *. simpl. rewrite Ed, Et.
    rewrite (find_id_app_new _ _ d Ef eq_refl).
    assert (dset_eqb d d = true) as -> by (apply dset_eqb_eq; reflexivity). reflexivity.
Qed.

(* a dataset whose id is taken by a different definition is refused *)
Lemma find_id_some n l d : find_id n l = Some d -> In d l /\ d_id d = n.
Proof. unfold find_id. intros H. apply find_some in H. rewrite N.eqb_eq in H. exact H. Qed.
Lemma import_one_conflict d d' t : find_id (d_id d) (dsets t) = Some d' -> d <> d' ->
  forall t', import_one d t <> ROk t'.
Proof.
  intros Hf Hne t'. unfold import_one. destruct (lookup (d_run d) (colls t)) as [[]|]; try discriminate.
  destruct (negb _); [discriminate|]. destruct (negb _); [discriminate|]. rewrite Hf.
  destruct (dset_eqb d d') eqn:Ee; [|discriminate]. apply dset_eqb_eq in Ee. contradiction.
Qed.
