(* Facts about the REGENERATED current universe (Gen/Universes.v) and worked examples, decided by computation. *)
From Coq Require Import String List Bool Arith ZArith.
From V Require Import Model.Universe Model.Group Model.DataId Model.DataIdCheck Gen.Universes
  Proofs.GroupProofs Proofs.GroupProofsShipped Proofs.DataIdProofs Proofs.DataIdProofsExpand.
Import ListNotations.
Open Scope string_scope.
Open Scope list_scope.

Lemma dims_self_current_p : dims_selfb u_current = true.
Proof. vm_compute. reflexivity. Qed.

Lemma minimal_required_current_p : minimal_required_ok u_current = true.
Proof. vm_compute. reflexivity. Qed.

(* completeness of the walk for EVERY group over the non-skypix dimensions of the current universe *)
Lemma expand_complete_current_p D l G K k0 :
  In l (all_subsets (nonskypix_dimension_names u_current)) -> mkgroup u_current l = GOk G ->
  (forall p, In p (grequired G) -> has_key k0 p = true) -> extends K k0 ->
  (forall n, In n (gnames G) -> present K n = true) ->
  (forall x, In x (gelements G) -> exists ro, rec_ok u_current D G K x ro) ->
  exists k1 recs, expand_keys u_current D G k0 = Ok (k1, recs) /\ extends K k1.
Proof.
  intros Hl HG. destruct (lookup_ok_current_forall_p l Hl) as (g & Hg & LK).
  rewrite HG in Hg. inversion Hg; subst g.
  eapply expand_complete_p; eauto using current_wf_p, dims_self_current_p.
Qed.

(* a small store: one instrument, one filter (band g), one day, visit 5 and exposures 50 / 51, only (50, 5) related *)
Definition ex_db : db :=
  [("instrument", [mkRecord [VStr "Cam"] []]);
   ("band", [mkRecord [VStr "g"] []; mkRecord [VStr "r"] []]);
   ("physical_filter", [mkRecord [VStr "Cam"; VStr "pf1"] [VStr "g"]; mkRecord [VStr "Cam"; VStr "pf2"] [VStr "r"]]);
   ("day_obs", [mkRecord [VStr "Cam"; VInt 20240101] []]);
   ("group", [mkRecord [VStr "Cam"; VStr "g1"] []]);
   ("visit", [mkRecord [VStr "Cam"; VInt 5] [VInt 20240101; VStr "pf1"]]);
   ("exposure", [mkRecord [VStr "Cam"; VInt 50] [VInt 20240101; VStr "g1"; VStr "pf1"];
                 mkRecord [VStr "Cam"; VInt 51] [VInt 20240101; VStr "g1"; VStr "pf2"]]);
   ("visit_definition", [mkRecord [VStr "Cam"; VInt 50; VInt 5] []])].

Definition summary (r : result dataid) : result (amap * bool) :=
  match r with Ok d => Ok (dmapping d, has_recs d) | Err e => Err e end.

Lemma ex_expand_ok_p :
  summary (expand_data_id u_current ex_db None [("visit", VInt 5); ("instrument", VStr "Cam")] [] [])
  = Ok ([("instrument", VStr "Cam"); ("visit", VInt 5); ("band", VStr "g"); ("day_obs", VInt 20240101);
         ("physical_filter", VStr "pf1")], true).
Proof. vm_compute. reflexivity. Qed.

(* a COMPLETE set of implied values, one of them wrong: refused as inconsistent *)
Lemma ex_expand_contradiction_p :
  summary (expand_data_id u_current ex_db None
             [("instrument", VStr "Cam"); ("visit", VInt 5); ("band", VStr "g"); ("day_obs", VInt 20240101);
              ("physical_filter", VStr "pf2")] [] []) = Err EInconsistent.
Proof. vm_compute. reflexivity. Qed.

(* key values whose records contradict each other (visit 5 has filter pf1, exposure 51 has pf2) *)
Lemma ex_expand_records_contradict_p :
  summary (expand_data_id u_current ex_db None [("instrument", VStr "Cam"); ("visit", VInt 5); ("exposure", VInt 51)] [] [])
  = Err EInconsistent.
Proof. vm_compute. reflexivity. Qed.

(* a partial set of implied values is dropped by standardize before expansion can see it: accepted *)
Lemma ex_partial_implied_dropped_p :
  summary (expand_data_id u_current ex_db None
             [("instrument", VStr "Cam"); ("visit", VInt 5); ("physical_filter", VStr "pf2")] [] [])
  = Ok ([("instrument", VStr "Cam"); ("visit", VInt 5); ("band", VStr "g"); ("day_obs", VInt 20240101);
         ("physical_filter", VStr "pf1")], true).
Proof. vm_compute. reflexivity. Qed.

Lemma ex_missing_row_p :
  summary (expand_data_id u_current ex_db None [("instrument", VStr "Cam"); ("visit", VInt 6)] [] []) = Err EDataIdValue.
Proof. vm_compute. reflexivity. Qed.

(* before /repo 02977ba an unknown key produced the bare KeyError (the finding F-C13-expand-keyerror); the repaired model
   reports DimensionNameError on the same input *)
Lemma expand_unknown_key_refuted_without_fix_p :
  exists mp e, expand_data_id_bare u_current ex_db None mp [] [] = Err e /\ documented e = false
    /\ expand_data_id u_current ex_db None mp [] [] = Err EDimensionName.
Proof. exists [("instrument", VStr "Cam"); ("foo", VInt 5)], EKeyError. repeat split; vm_compute; reflexivity. Qed.

Lemma ex_eq_spellings_p :
  exists a b, standardize u_current None [("visit", VInt 5); ("instrument", VStr "Cam")] [] [] = Ok a
    /\ expand_data_id u_current ex_db (Some ["visit"]) [("foo", VInt 1)] [("visit", VInt 5)] [("instrument", VStr "Cam")] = Ok b
    /\ dc_eq a b = true /\ dc_hash_key a = dc_hash_key b /\ dfull a = false /\ dfull b = true /\ has_recs b = true.
Proof. eexists. eexists. split; [vm_compute; reflexivity|]. split; [vm_compute; reflexivity|]. vm_compute. auto. Qed.

(* the hypotheses of expand_complete are satisfiable: the consistent assignment of the first example *)
Lemma ex_complete_hyps_p :
  exists G K, mkgroup u_current ["visit"] = GOk G /\ lookup_okb u_current G = true
    /\ (forall n, In n (gnames G) -> present K n = true)
    /\ (forall x, In x (gelements G) -> exists ro, rec_ok u_current ex_db G K x ro).
Proof.
  eexists. exists [("instrument", VStr "Cam"); ("visit", VInt 5); ("band", VStr "g"); ("day_obs", VInt 20240101); ("physical_filter", VStr "pf1")].
  split; [vm_compute; reflexivity|]. split; [vm_compute; reflexivity|]. split.
  - simpl. intros n [<-|[<-|[<-|[<-|[<-|[]]]]]]; reflexivity.
  - simpl. intros x [<-|[<-|[<-|[<-|[<-|[]]]]]]; eexists; unfold rec_ok; eexists; eexists;
      (split; [vm_compute; reflexivity|]); (split; [vm_compute; reflexivity|]); (split; [vm_compute; reflexivity|]);
      (split; [intros _; reflexivity|]); simpl; intros d v H;
      repeat (destruct H as [H|H]; [inversion H; subst; reflexivity|]); contradiction.
Qed.

(* union both ways of two data IDs that share `instrument` and agree on it *)
Lemma ex_union_commutes_p :
  exists a b c1 c2, standardize u_current None [("instrument", VStr "Cam"); ("visit", VInt 5)] [] [] = Ok a
    /\ standardize u_current None [("detector", VInt 1); ("instrument", VStr "Cam")] [] [] = Ok b
    /\ union u_current a b = Ok c1 /\ union u_current b a = Ok c2 /\ dc_eq c1 c2 = true
    /\ dmapping c1 = [("instrument", VStr "Cam"); ("detector", VInt 1); ("visit", VInt 5)].
Proof. do 4 eexists. repeat split; vm_compute; reflexivity. Qed.
