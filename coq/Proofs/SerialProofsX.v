(* C18 (extension) -- minimal form of COMPONENT refs, nested pickle forms, opaque region / hash payloads
   (Model/SerialX.v). *)
From Coq Require Import ZArith List Bool Ascii String Lia.
From V Require Import Model.Serial Model.SerialX Proofs.SerialProofs Proofs.SerialProofsB.
Import ListNotations.
Open Scope string_scope.

(* ---------- dataset type names: root + "." + component ---------- *)
Lemma root_component : forall s c, component_of s = Some c -> (root_of s ++ "." ++ c)%string = s.
Proof.
  induction s as [|a s IH]; simpl; intros c H; [discriminate|].
  destruct (Ascii.eqb a ".") eqn:E.
  - apply Ascii.eqb_eq in E. subst. inversion H; subst. reflexivity.
  - simpl. f_equal. exact (IH c H).
Qed.
Lemma component_of_root : forall s, component_of (root_of s) = None.
Proof.
  induction s as [|a s IH]; simpl; [reflexivity|].
  destruct (Ascii.eqb a ".") eqn:E; simpl; [reflexivity|]. rewrite E. exact IH.
Qed.
Lemma alpha_not_dot : forall a, is_alpha_ a = true -> Ascii.eqb a "." = false.
Proof.
  intros a H. destruct (Ascii.eqb a ".") eqn:E; [|reflexivity].
  apply Ascii.eqb_eq in E. subst. vm_compute in H. discriminate.
Qed.
Lemma valid_root_from : forall s b, valid_name_from b s = true -> valid_name_from b (root_of s) = true.
Proof.
  induction s as [|a s IH]; intros b H; [exact H|].
  simpl in H. destruct b.
  - apply andb_true_iff in H as [Ha Hr]. simpl. rewrite (alpha_not_dot a Ha). simpl. rewrite Ha. simpl. apply IH; exact Hr.
  - simpl. destruct (Ascii.eqb a ".") eqn:E; [reflexivity|].
    apply andb_true_iff in H as [Ha Hr]. simpl. rewrite E, Ha. simpl. apply IH; exact Hr.
Qed.
Lemma valid_root : forall s, valid_name s = true -> valid_name (root_of s) = true.
Proof. intros. apply valid_root_from. assumption. Qed.

Lemma mk_dt_some : forall u n g sc psc cal t, mk_dt u n g sc psc cal = Some t ->
  t = {| t_name := n; t_grp := g; t_sc := sc; t_psc := psc; t_calib := cal |}.
Proof.
  unfold mk_dt. intros u n g sc psc cal t H.
  destruct (negb (valid_name n)); [discriminate|]. destruct (mem n (u_governors u)); [discriminate|].
  destruct psc; destruct (component_of n); try discriminate; inversion H; reflexivity.
Qed.

(* a well-formed component type has a composite (the governor check of DatasetType.__init__ is on the root name) *)
Lemma composite_dt_wf : forall u t c, wf_dt u t -> component_of (t_name t) = Some c ->
  mem (root_of (t_name t)) (u_governors u) = false ->
  exists p, t_psc t = Some p /\
    composite_dt u t = Some {| t_name := root_of (t_name t); t_grp := t_grp t; t_sc := p; t_psc := None; t_calib := t_calib t |}.
Proof.
  intros u t c (Hv & _ & Hc & _) Hcomp Hg.
  destruct (t_psc t) as [p|] eqn:Ep.
  - exists p. split; [reflexivity|]. unfold composite_dt. rewrite Hcomp, Ep. unfold mk_dt.
    rewrite (valid_root _ Hv), Hg, component_of_root. reflexivity.
  - destruct Hc as [Hc _]. rewrite (Hc eq_refl) in Hcomp. discriminate.
Qed.

(* makeComponentRef of makeCompositeRef is the component ref again, when the parent storage class declares this
   component with the component's storage class *)
Lemma component_of_composite : forall u r p comp,
  wf_dt u (f_type r) -> component_of (t_name (f_type r)) = Some comp ->
  composite_ref u r = Some p ->
  (forall ps, t_psc (f_type r) = Some ps -> aget (ps ++ "." ++ comp) (u_compsc u) = Some (t_sc (f_type r))) ->
  component_ref u p comp = Some r.
Proof.
  intros u r p comp Hwf Hcomp Hcr Hsc.
  unfold composite_ref, composite_dt in Hcr. rewrite Hcomp in Hcr.
  destruct (t_psc (f_type r)) as [ps|] eqn:Eps; [|discriminate].
  destruct (mk_dt u (root_of (t_name (f_type r))) (t_grp (f_type r)) ps None (t_calib (f_type r))) as [t'|] eqn:Em; [|discriminate].
  apply mk_dt_some in Em. inversion Hcr; subst p; clear Hcr. subst t'.
  unfold component_ref. cbn [f_type f_id f_run f_coord t_name t_grp t_sc t_psc t_calib].
  rewrite (Hsc ps eq_refl). rewrite (root_component _ _ Hcomp).
  pose proof (mk_dt_wf u (f_type r) Hwf) as Hm. rewrite Eps in Hm. rewrite Hm.
  destruct r; reflexivity.
Qed.

(* the minimal form {id, component} of a component ref resolves to the ref *)
Lemma dec_enc_ref_minimal_component_p : forall u r p comp,
  wf_dt u (f_type r) -> component_of (t_name (f_type r)) = Some comp ->
  composite_ref u r = Some p -> aget (f_id r) (u_refs u) = Some p ->
  (forall ps, t_psc (f_type r) = Some ps -> aget (ps ++ "." ++ comp) (u_compsc u) = Some (t_sc (f_type r))) ->
  dec_ref u (enc_ref true r) = Some r.
Proof.
  intros u r p comp Hwf Hcomp Hcr Hreg Hsc.
  pose proof (component_of_composite u r p comp Hwf Hcomp Hcr Hsc) as Hc.
  unfold dec_ref, enc_ref. rewrite Hcomp. simpl. rewrite Hreg. exact Hc.
Qed.

(* every ref, component or not: one statement *)
Lemma dec_enc_ref_minimal_all_p : forall u r,
  match component_of (t_name (f_type r)) with
  | None => aget (f_id r) (u_refs u) = Some r
  | Some comp => wf_dt u (f_type r) /\
                 (exists p, composite_ref u r = Some p /\ aget (f_id r) (u_refs u) = Some p) /\
                 (forall ps, t_psc (f_type r) = Some ps -> aget (ps ++ "." ++ comp) (u_compsc u) = Some (t_sc (f_type r)))
  end -> dec_ref u (enc_ref true r) = Some r.
Proof.
  intros u r. destruct (component_of (t_name (f_type r))) as [comp|] eqn:E.
  - intros (Hwf & (p & Hcr & Hreg) & Hsc). eapply dec_enc_ref_minimal_component_p; eauto.
  - intros H. apply dec_enc_ref_minimal_p; assumption.
Qed.

(* ---------- nested pickle forms ---------- *)
Lemma combine_fst_snd_app {A B} : forall (l : list (A * B)) x, combine (map fst l ++ x) (map snd l) = l.
Proof. induction l as [|[a b] l IH]; intros x; simpl; [destruct x; reflexivity | rewrite IH; reflexivity]. Qed.
Lemma combine_fst_snd {A B} : forall (l : list (A * B)), combine (map fst l) (map snd l) = l.
Proof. intros. rewrite <- (app_nil_r (map fst l)). apply combine_fst_snd_app. Qed.
Lemma rebuild_reduce_records : forall rs, rebuild_records (reduce_records rs) = rs.
Proof.
  unfold rebuild_records, reduce_records. induction rs as [|[k [r|]] rs IH]; simpl; [reflexivity | |]; rewrite IH; [destruct r|]; reflexivity.
Qed.

(* the names of a group are its required and implied dimensions *)
Definition grp_ok (g : grp) : Prop := List.length (g_req g ++ g_impl g) = List.length (g_names g).

Lemma coord_pickle_deep_p : forall u c, wf_coord u c -> in_universe u (c_grp c) -> grp_ok (c_grp c) ->
  rebuild_coord_deep u (reduce_coord_deep c) = Some c.
Proof.
  intros u [g vals recs]. unfold wf_coord, in_universe, grp_ok. cbn [c_grp c_vals c_recs].
  intros (Hm & Hconf & Hnd & H) Hu Hg.
  unfold reduce_coord_deep, rebuild_coord_deep, reduce_grp, rebuild_grp, cls_of, has_full. cbn [c_grp c_vals c_recs].
  rewrite Hu. destruct (g_names g) as [|n0 nl] eqn:En.
  - destruct H as [Hv Hr]. subst vals recs. simpl in Hg. cbn [option_map map List.length reduce_records].
    rewrite Hg. cbn [Nat.eqb]. rewrite combine_nil. reflexivity.
  - destruct recs as [rs|]; cbn [option_map].
    + destruct H as (Hk & _ & _). rewrite <- Hk. rewrite !map_length, Nat.eqb_refl.
      rewrite combine_fst_snd, rebuild_reduce_records. reflexivity.
    + assert (E : combine (g_req g ++ g_impl g) (map snd vals) = vals).
      { destruct H as [[Hk _] | [Hk _]]; rewrite <- Hk; [apply combine_fst_snd | apply combine_fst_snd_app]. }
      destruct (Nat.eqb (List.length vals) (List.length (g_req g) + List.length (g_impl g))); rewrite E; reflexivity.
Qed.

(* what the unpickled data ID can be asked: same answers, for EVERY key (dimension or not) *)
Lemma coord_pickle_keeps_records_p : forall u c, wf_coord u c -> in_universe u (c_grp c) -> grp_ok (c_grp c) ->
  exists c', rebuild_coord_deep u (reduce_coord_deep c) = Some c' /\ has_full c' = has_full c /\
             has_records c' = has_records c /\ forall k, record_state c' k = record_state c k.
Proof. intros u c H1 H2 H3. exists c. rewrite (coord_pickle_deep_p u c H1 H2 H3). repeat split; reflexivity. Qed.

(* trimming the pickled records to the dimension NAMES loses the record of a non-dimension element *)
Lemma coord_pickle_trimmed_variant_refuted_p : exists c',
  rebuild_coord_deep w_u (reduce_coord_trimmed w_c) = Some c' /\ record_state w_c "x" = 1%N /\ record_state c' "x" = 2%N.
Proof. eexists. split; [vm_compute; reflexivity|]. split; vm_compute; reflexivity. Qed.

Lemma dt_pickle_deep_p : forall u t, wf_dt u t -> in_universe u (t_grp t) -> rebuild_dt_deep u (reduce_dt_deep t) = Some t.
Proof.
  intros u t H Hu. unfold rebuild_dt_deep, reduce_dt_deep, rebuild_grp, reduce_grp. rewrite Hu. apply mk_dt_wf; assumption.
Qed.

Lemma ref_pickle_deep_p : forall u r, wf_ref u r ->
  in_universe u (t_grp (f_type r)) -> in_universe u (c_grp (f_coord r)) -> grp_ok (c_grp (f_coord r)) ->
  rebuild_ref_deep u (reduce_ref_deep r) = Some r.
Proof.
  intros u r (Ht & Hc & Hn) H1 H2 H3. unfold rebuild_ref_deep, reduce_ref_deep.
  rewrite (dt_pickle_deep_p u _ Ht H1), (coord_pickle_deep_p u _ Hc H2 H3).
  unfold mk_ref. rewrite Hn, slist_eqb_refl. destruct r; reflexivity.
Qed.

(* ---------- opaque region / hash payloads ---------- *)
Section PayloadProofs.
  Variables region bytes : Type.
  Variable region_encode : region -> bytes.
  Variable region_decode : bytes -> option region.
  Variable hex : bytes -> string.
  Variable fromhex : string -> option bytes.
  Hypothesis fromhex_hex : forall b, fromhex (hex b) = Some b.
  Hypothesis decode_encode : forall r, region_decode (region_encode r) = Some r.

  Local Notation wirev := (wire_pval region bytes region_encode hex).
  Local Notation wirer := (wire_rec region bytes region_encode hex).
  Local Notation wirec := (wire_coord region bytes region_encode hex).
  Local Notation loadv := (load_fval region bytes region_decode fromhex).
  Local Notation loadr := (load_rec region bytes region_decode fromhex).
  Local Notation loadc := (load_coord region bytes region_decode fromhex).

  Lemma load_wire_pval : forall v, loadv (wirev v) = Some v.
  Proof. destruct v; simpl; rewrite ?fromhex_hex, ?decode_encode; reflexivity. Qed.

  Lemma load_wire_rec : forall r, loadr (wirer r) = Some r.
  Proof.
    intros [d fs]. unfold load_rec, wire_rec. cbn [r_fields r_def p_def p_fields].
    assert (E : mapM (fun p : string * fval => match loadv (snd p) with Some v => Some (fst p, v) | None => None end)
                     (map (fun p : string * pval region bytes => (fst p, wirev (snd p))) fs) = Some fs).
    { induction fs as [|[k v] fs IH]; [reflexivity|]. simpl. rewrite load_wire_pval. simpl in IH. rewrite IH. reflexivity. }
    rewrite E. reflexivity.
  Qed.

  Lemma dec_enc_prec_p : forall u r, (0 < u_max u)%Z -> wf_rec u (wirer r) ->
    dec_prec region bytes region_decode fromhex u (enc_prec region bytes region_encode hex r) = Some r.
  Proof.
    intros u r Hm Hw. unfold dec_prec, enc_prec. rewrite (dec_enc_rec_p u _ Hm Hw). apply load_wire_rec.
  Qed.

  Lemma load_wire_coord : forall c, loadc (wirec c) = Some c.
  Proof.
    intros [g vals recs]. unfold load_coord, wire_coord. cbn [c_recs c_grp c_vals pc_grp pc_vals pc_recs].
    destruct recs as [rs|]; cbn [option_map]; [|reflexivity].
    assert (E : mapM (load_orec region bytes region_decode fromhex)
                     (map (fun p : string * option (prec region bytes) => (fst p, option_map wirer (snd p))) rs) = Some rs).
    { induction rs as [|[k [r|]] rs IH]; [reflexivity | |]; cbn [map mapM]; rewrite IH; unfold load_orec; cbn [fst snd option_map].
      - rewrite load_wire_rec. reflexivity.
      - reflexivity. }
    rewrite E. reflexivity.
  Qed.

  Lemma dec_enc_pcoord_p : forall u c, wf_coord u (wirec c) ->
    dec_pcoord region bytes region_decode fromhex u (enc_pcoord region bytes region_encode hex false c) = Some c.
  Proof.
    intros u c Hw. unfold dec_pcoord, enc_pcoord. rewrite (coord_full_form_identity_p u _ Hw). apply load_wire_coord.
  Qed.
End PayloadProofs.
