(* C05 proofs, part B: leaves, conversion, numbering, CNF -> SQL, the main theorem. *)
From Coq Require Import ZArith List Bool String Lia.
From V Require Import Base.Tri Gen.TimespanGen Model.Pred Gen.PredGen Proofs.PredProofs Model.Expr Model.SqlExpr Proofs.ExprProofsA.
Import ListNotations.
Open Scope Z_scope.

Definition leaf_val (rho : env) (l : leaf) : tri := tri_of_nv (seval rho (leaf_sql l)).
Fixpoint bfeval (rho : env) (f : bform) : tri :=
  match f with
  | BLeaf l => leaf_val rho l
  | BConst b => tri_of_bool b
  | BNot g => tri_not (bfeval rho g)
  | BAnd g h => tri_and (bfeval rho g) (bfeval rho h)
  | BOr g h => tri_or (bfeval rho g) (bfeval rho h)
  end.

Lemma erase_bool : forall t, erase t = TyBool -> t = DBool.
Proof. destruct t; simpl; congruence. Qed.
Lemma erase_span : forall t, ty_eqb (erase t) TySpan = dty_eqb t DSpan.
Proof. destruct t; reflexivity. Qed.
Lemma tri_not_of_bool : forall b, tri_not (tri_of_bool b) = tri_of_bool (negb b).
Proof. destruct b; reflexivity. Qed.

(* ------------------------------------------------------------------ value shapes from typing *)
Lemma val_int : forall rho e, typeof e = Some DInt -> env_ok rho e = true ->
  dval rho e = None \/ exists z, dval rho e = Some (VInt z).
Proof.
  intros rho e Ht He. destruct (dval rho e) as [v|] eqn:D; [|now left]. right.
  pose proof (preservation rho e DInt v Ht He D) as P. destruct v; try contradiction. eauto.
Qed.
Lemma val_span : forall rho e, typeof e = Some DSpan -> env_ok rho e = true ->
  dval rho e = None \/ exists b c, dval rho e = Some (VSpan b c).
Proof.
  intros rho e Ht He. destruct (dval rho e) as [v|] eqn:D; [|now left]. right.
  pose proof (preservation rho e DSpan v Ht He D) as P. destruct v; try contradiction. eauto.
Qed.
Lemma val_time : forall rho e, typeof e = Some DTime -> env_ok rho e = true ->
  dval rho e = None \/ exists z, dval rho e = Some (VTime z).
Proof.
  intros rho e Ht He. destruct (dval rho e) as [v|] eqn:D; [|now left]. right.
  pose proof (preservation rho e DTime v Ht He D) as P. destruct v; try contradiction. eauto.
Qed.

(* ------------------------------------------------------------------ IN items *)
Lemma in_list_sql : forall rho x vs,
  fold_right (fun y acc => tri_or (cmp3 CEq x (seval rho y)) acc) FF (map (fun v => SVal (Some v)) vs)
  = fold_right (fun v acc => tri_or (cmp3 CEq x (Some v)) acc) FF vs.
Proof. induction vs; simpl; [reflexivity|]. now rewrite IHvs. Qed.

Lemma listable_cmp_ok : forall ta t, listable ta = true -> ty_eqb t (erase ta) = true ->
  cmp_ok CEq (erase ta) t && negb (ty_eqb t TyBool) = true.
Proof. intros ta t L E. apply ty_eqb_eq in E; subst. destruct ta; try discriminate; reflexivity. Qed.

Lemma conv_item_correct : forall rho a ta it,
  typeof a = Some ta -> ta <> DBool -> env_ok rho a = true -> bounds_ok rho a = true ->
  item_ok ta it = true ->
  exists p, conv_item a (erase ta) it = Some p /\ bfeval rho p = d_item rho (dval rho a) it.
Proof.
  intros rho a ta it Ht Hnb He Hb Hok.
  destruct (typeof_scalar a ta Ht Hnb) as [Sa Ca].
  pose proof (sc_correct rho a Sa Hb) as SC.
  destruct it as [v|c t|s e st|vs|]; simpl in *.
  - apply andb_true_iff in Hok as [E L]. rewrite (listable_cmp_ok ta _ L E).
    eexists; split; [reflexivity|]. simpl. unfold leaf_val; simpl. now rewrite SC, tri_nv_id.
  - apply andb_true_iff in Hok as [E L]. rewrite (listable_cmp_ok ta _ L E).
    eexists; split; [reflexivity|]. simpl. unfold leaf_val; simpl. now rewrite SC, tri_nv_id.
  - apply andb_true_iff in Hok as [Hok H3]. apply andb_true_iff in Hok as [H1 H2].
    apply dty_eqb_eq in H1; subst ta. simpl. rewrite H2, H3. simpl.
    eexists; split; [reflexivity|]. simpl. unfold leaf_val, leaf_sql; simpl.
    apply Z.leb_le in H2.
    rewrite in_range_correct_p; [now rewrite SC| assumption |].
    rewrite SC. apply val_int; assumption.
  - apply andb_true_iff in Hok as [E L].
    assert (negb (ty_eqb (erase ta) TySpan) = true) as -> by (destruct ta; try discriminate; reflexivity).
    rewrite E. simpl. eexists; split; [reflexivity|]. simpl. unfold leaf_val; simpl.
    now rewrite SC, tri_nv_id, in_list_sql.
  - eexists; split; [reflexivity|]. simpl. unfold leaf_val; simpl. now rewrite SC.
Qed.

Lemma conv_items_correct : forall rho a ta, 
  typeof a = Some ta -> ta <> DBool -> env_ok rho a = true -> bounds_ok rho a = true ->
  forall its acc, forallb (item_ok ta) its = true ->
  exists f, conv_items a (erase ta) its acc = Some f /\
    bfeval rho f = tri_or (bfeval rho acc) (fold_right (fun it r => tri_or (d_item rho (dval rho a) it) r) FF its).
Proof.
  intros rho a ta Ht Hnb He Hb. induction its as [|it its IH]; intros acc Hok; simpl in *.
  - eexists; split; [reflexivity|]. now rewrite tri_or_FF_r.
  - apply andb_true_iff in Hok as [H1 H2].
    destruct (conv_item_correct rho a ta it Ht Hnb He Hb H1) as [p [Cp Ep]]. rewrite Cp.
    destruct (IH (BOr acc p) H2) as [f [Cf Ef]]. exists f. split; [assumption|].
    rewrite Ef. simpl. rewrite Ep. now rewrite tri_or_assoc.
Qed.

(* ------------------------------------------------------------------ timespan operators (C11's regenerated SQL forms) *)
Lemma overlaps_ss : forall x y,
  (x = None \/ exists b c, x = Some (VSpan b c)) -> (y = None \/ exists b c, y = Some (VSpan b c)) ->
  sql_overlaps (sts_of x) (sts_of y) = d_overlaps x y.
Proof.
  intros x y [->|[a [b ->]]] [->|[c [d ->]]]; try reflexivity.
  simpl. unfold sql_overlaps, py_overlaps, sv_gt, sv_cmp; simpl. destruct (b >? c), (d >? a); reflexivity.
Qed.
Lemma overlaps_st : forall x y,
  (x = None \/ exists b c, x = Some (VSpan b c)) -> (y = None \/ exists t, y = Some (VTime t)) ->
  sql_contains_t (sts_of x) (sv_of y) = d_overlaps x y /\ sql_contains_t (sts_of x) (sv_of y) = d_overlaps y x.
Proof.
  intros x y [->|[a [b ->]]] [->|[t ->]]; try (split; reflexivity).
  simpl. unfold sql_contains_t, py_contains_t, sv_le, sv_gt, sv_cmp; simpl. destruct (a <=? t), (b >? t); split; reflexivity.
Qed.

(* ------------------------------------------------------------------ expression -> Predicate formula *)
Ltac tycases H :=
  repeat match type of H with
  | context [match typeof ?e with _ => _ end] => destruct (typeof e) as [[]|]
  | context [if ?b then _ else _] => destruct b
  | context [match ?o with OAdd => _ | _ => _ end] => destruct o
  end; try (cbn iota in H; discriminate H).

Lemma conv_correct : forall rho e,
  typeof e = Some DBool -> env_ok rho e = true -> bounds_ok rho e = true ->
  exists f, conv e = Some f /\ bfeval rho f = deval rho e.
Proof.
  intros rho. induction e; intros Ht He Hb.
  - simpl in Ht. destruct v; discriminate.
  - discriminate.
  - simpl in Ht. destruct t; try discriminate. eexists; split; [reflexivity|]. reflexivity.
  - simpl in Ht. destruct (typeof e) as [[]|]; discriminate.
  - simpl in Ht. destruct (typeof e) as [[]|]; discriminate.
  - simpl in Ht. destruct (typeof e) as [[]|]; discriminate.
  - simpl in Ht. exfalso. tycases Ht.
  - (* ECmp *)
    simpl in Ht, He, Hb. apply andb_true_iff in He as [He1 He2]. apply andb_true_iff in Hb as [Hb1 Hb2].
    unfold deval. simpl.
    destruct (is_ENull e2) eqn:N2.
    + destruct (typeof e1) as [ta|] eqn:T1; [|discriminate].
      destruct (cop_is_eq o && (negb (dty_eqb ta DBool) || is_ECol e1)) eqn:C; [|discriminate].
      apply andb_true_iff in C as [Co Ca].
      assert (null_operand e1 = true /\ scalar e1 = true) as [NO S1].
      { destruct (dty_eqb ta DBool) eqn:Eb.
        - simpl in Ca. destruct e1; try discriminate. simpl in T1. inversion T1; subst.
          destruct t; try discriminate. split; reflexivity.
        - assert (ta <> DBool) by (intros ->; discriminate).
          destruct (typeof_scalar e1 ta T1 H) as [S C']. unfold null_operand. rewrite C'. auto. }
      rewrite NO. pose proof (sc_correct rho e1 S1 Hb1) as SC.
      destruct o; try discriminate; (eexists; split; [reflexivity|]); simpl; unfold leaf_val; simpl; rewrite SC;
        destruct (is_null (dval rho e1)); reflexivity.
    + destruct (is_ENull e1) eqn:N1.
      * destruct (typeof e2) as [tb|] eqn:T2; [|discriminate].
        destruct (cop_is_eq o && (negb (dty_eqb tb DBool) || is_ECol e2)) eqn:C; [|discriminate].
        apply andb_true_iff in C as [Co Ca].
        assert (null_operand e2 = true /\ scalar e2 = true) as [NO S2].
        { destruct (dty_eqb tb DBool) eqn:Eb.
          - simpl in Ca. destruct e2; try discriminate. simpl in T2. inversion T2; subst.
            destruct t; try discriminate. split; reflexivity.
          - assert (tb <> DBool) by (intros ->; discriminate).
            destruct (typeof_scalar e2 tb T2 H) as [S C']. unfold null_operand. rewrite C'. auto. }
        rewrite NO. pose proof (sc_correct rho e2 S2 Hb2) as SC.
        destruct o; try discriminate; (eexists; split; [reflexivity|]); simpl; unfold leaf_val; simpl; rewrite SC;
          destruct (is_null (dval rho e2)); reflexivity.
      * destruct (typeof e1) as [ta|] eqn:T1; [|discriminate]. destruct (typeof e2) as [tb|] eqn:T2; [|discriminate].
        destruct (ty_eqb (erase ta) (erase tb) && negb (dty_eqb ta DBool) && negb (dty_eqb ta DSpan)
                  && (cop_is_eq o || ordered (erase ta))) eqn:C; [|discriminate].
        apply andb_true_iff in C as [C C4]. apply andb_true_iff in C as [C C3]. apply andb_true_iff in C as [C1 C2].
        assert (ta <> DBool) by (intros ->; discriminate).
        assert (tb <> DBool).
        { intros ->. apply ty_eqb_eq in C1. apply erase_bool in C1. contradiction. }
        destruct (typeof_scalar e1 ta T1 H) as [S1 K1]. destruct (typeof_scalar e2 tb T2 H0) as [S2 K2].
        rewrite K1, K2. unfold cmp_ok. rewrite C1, erase_span, C3, C4. simpl.
        eexists; split; [reflexivity|]. simpl. unfold leaf_val; simpl.
        now rewrite (sc_correct rho e1 S1 Hb1), (sc_correct rho e2 S2 Hb2).
  - (* EOverlaps *)
    simpl in Ht, He, Hb. apply andb_true_iff in He as [He1 He2]. apply andb_true_iff in Hb as [Hb1 Hb2].
    unfold deval. simpl. rewrite tri_nv_id.
    destruct (typeof e1) as [ta|] eqn:T1; [|discriminate]. destruct (typeof e2) as [tb|] eqn:T2; [|destruct ta; discriminate].
    assert (ta <> DBool) by (intros ->; discriminate).
    assert (tb <> DBool) by (intros ->; destruct ta; discriminate).
    destruct (typeof_scalar e1 ta T1 H) as [S1 K1]. destruct (typeof_scalar e2 tb T2 H0) as [S2 K2].
    pose proof (sc_correct rho e1 S1 Hb1) as SC1. pose proof (sc_correct rho e2 S2 Hb2) as SC2.
    rewrite K1, K2.
    destruct ta; try discriminate; destruct tb; try discriminate; simpl;
      (eexists; split; [reflexivity|]); simpl; unfold leaf_val, leaf_sql; simpl; rewrite K1, K2; simpl;
      rewrite SC1, SC2, tri_nv_id.
    + apply (overlaps_st (dval rho e2) (dval rho e1)); [apply val_span | apply val_time]; assumption.
    + apply (overlaps_st (dval rho e1) (dval rho e2)); [apply val_span | apply val_time]; assumption.
    + apply overlaps_ss; apply val_span; assumption.
  - (* EIn *)
    simpl in Ht, He, Hb. apply andb_true_iff in He as [He1 He2].
    destruct (typeof e) as [ta|] eqn:T; [|discriminate].
    destruct (negb (dty_eqb ta DBool) && forallb (item_ok ta) its) eqn:C; [|discriminate].
    apply andb_true_iff in C as [C1 C2].
    assert (ta <> DBool) by (intros ->; discriminate).
    destruct (typeof_scalar e ta T H) as [S K]. simpl. rewrite K.
    destruct (conv_items_correct rho e ta T H He1 Hb its (BConst false) C2) as [f [Cf Ef]]. rewrite Cf.
    eexists; split; [reflexivity|]. unfold deval; simpl. rewrite tri_nv_id.
    cbn [bfeval tri_of_bool] in Ef. rewrite tri_or_FF_l in Ef. destruct neg; simpl; now rewrite Ef.
  - simpl in Ht, He, Hb. destruct (typeof e) as [[]|] eqn:T; try discriminate.
    destruct (IHe eq_refl He Hb) as [f [Cf Ef]]. simpl. rewrite Cf. eexists; split; [reflexivity|].
    unfold deval in *; simpl. now rewrite tri_nv_id, Ef.
  - simpl in Ht, He, Hb. apply andb_true_iff in He as [He1 He2]. apply andb_true_iff in Hb as [Hb1 Hb2].
    destruct (typeof e1) as [[]|] eqn:T1; try discriminate. destruct (typeof e2) as [[]|] eqn:T2; try discriminate.
    destruct (IHe1 eq_refl He1 Hb1) as [f [Cf Ef]]. destruct (IHe2 eq_refl He2 Hb2) as [g [Cg Eg]].
    simpl. rewrite Cf, Cg. eexists; split; [reflexivity|]. unfold deval in *; simpl. now rewrite tri_nv_id, Ef, Eg.
  - simpl in Ht, He, Hb. apply andb_true_iff in He as [He1 He2]. apply andb_true_iff in Hb as [Hb1 Hb2].
    destruct (typeof e1) as [[]|] eqn:T1; try discriminate. destruct (typeof e2) as [[]|] eqn:T2; try discriminate.
    destruct (IHe1 eq_refl He1 Hb1) as [f [Cf Ef]]. destruct (IHe2 eq_refl He2 Hb2) as [g [Cg Eg]].
    simpl. rewrite Cf, Cg. eexists; split; [reflexivity|]. unfold deval in *; simpl. now rewrite tri_nv_id, Ef, Eg.
Qed.

(* ------------------------------------------------------------------ numbering of the leaves *)
Definition tval (rho : env) (tbl : list leaf) : atom -> tri :=
  fun a => leaf_val rho (nth (N.to_nat a) tbl dflt_leaf).

Lemma number_correct : forall rho f tbl fm tbl',
  number f tbl = (fm, tbl') ->
  (exists ext, tbl' = tbl ++ ext) /\ no_flags fm = true /\
  forall more, feval3 (tval rho (tbl' ++ more)) fm = bfeval rho f.
Proof.
  intros rho. induction f; intros tbl fm tbl' Hn; simpl in Hn.
  - inversion Hn; subst. split; [eauto|]. split; [reflexivity|]. intros more. simpl. unfold tval.
    rewrite Nnat.Nat2N.id, <- app_assoc. simpl. now rewrite nth_middle.
  - inversion Hn; subst. split; [exists []; now rewrite app_nil_r|]. split; reflexivity.
  - destruct (number f tbl) as [g' t] eqn:Ng. inversion Hn; subst.
    destruct (IHf _ _ _ Ng) as [E [NF EV]]. split; [assumption|]. split; [assumption|].
    intros more. simpl. now rewrite EV.
  - destruct (number f1 tbl) as [g' t1] eqn:N1. destruct (number f2 t1) as [h' t2] eqn:N2. inversion Hn; subst.
    destruct (IHf1 _ _ _ N1) as [[e1 E1] [NF1 EV1]]. destruct (IHf2 _ _ _ N2) as [[e2 E2] [NF2 EV2]].
    split; [exists (e1 ++ e2); subst; now rewrite app_assoc|]. split; [simpl; now rewrite NF1, NF2|].
    intros more. simpl. rewrite EV2. subst tbl'. rewrite <- app_assoc. now rewrite EV1.
  - destruct (number f1 tbl) as [g' t1] eqn:N1. destruct (number f2 t1) as [h' t2] eqn:N2. inversion Hn; subst.
    destruct (IHf1 _ _ _ N1) as [[e1 E1] [NF1 EV1]]. destruct (IHf2 _ _ _ N2) as [[e2 E2] [NF2 EV2]].
    split; [exists (e1 ++ e2); subst; now rewrite app_assoc|]. split; [simpl; now rewrite NF1, NF2|].
    intros more. simpl. rewrite EV2. subst tbl'. rewrite <- app_assoc. now rewrite EV1.
Qed.

(* ------------------------------------------------------------------ Predicate.operands -> SQL *)
Lemma lit_sql_eval : forall rho tbl l,
  tri_of_nv (seval rho (lit_sql range_sql tbl l)) = lit_eval (tval rho tbl) l.
Proof. intros rho tbl [a|a]; simpl; [reflexivity|]. now rewrite tri_nv_id. Qed.

Lemma sor_eval : forall rho tbl l,
  tri_of_nv (seval rho (SOr (map (lit_sql range_sql tbl) l))) = any3 (tval rho tbl) l.
Proof.
  intros rho tbl l. cbn [seval]. rewrite tri_nv_id.
  induction l; simpl; [reflexivity|]. now rewrite lit_sql_eval, IHl.
Qed.

Lemma or_sql_eval : forall rho tbl g,
  tri_of_nv (seval rho (or_sql (map (lit_sql range_sql tbl) g))) = any3 (tval rho tbl) g.
Proof.
  intros rho tbl g. destruct g as [|x [|y g]].
  - reflexivity.
  - simpl. rewrite lit_sql_eval. now rewrite tri_or_FF_r.
  - exact (sor_eval rho tbl (x :: y :: g)).
Qed.

Lemma sand_eval : forall rho tbl l,
  tri_of_nv (seval rho (SAnd (map (fun g => or_sql (map (lit_sql range_sql tbl) g)) l))) = eval3 (tval rho tbl) l.
Proof.
  intros rho tbl l. cbn [seval]. rewrite tri_nv_id.
  induction l; simpl; [reflexivity|]. now rewrite or_sql_eval, IHl.
Qed.

Lemma cnf_sql_eval : forall rho tbl p,
  tri_of_nv (seval rho (cnf_sql range_sql tbl p)) = eval3 (tval rho tbl) p.
Proof.
  intros rho tbl p. unfold cnf_sql. destruct p as [|x [|y p]].
  - reflexivity.
  - cbn [map and_sql]. rewrite or_sql_eval. simpl. now rewrite tri_and_TT_r.
  - exact (sand_eval rho tbl (x :: y :: p)).
Qed.

(* ------------------------------------------------------------------ the main theorem *)
Lemma compile_correct_p : forall rho e,
  typeof e = Some DBool -> env_ok rho e = true -> bounds_ok rho e = true ->
  exists q, compile e = Some q /\ tri_of_nv (seval rho q) = deval rho e.
Proof.
  intros rho e Ht He Hb. destruct (conv_correct rho e Ht He Hb) as [f [Cf Ef]].
  unfold compile, compile_g. rewrite Cf. destruct (number f []) as [fm tbl] eqn:Nf.
  destruct (number_correct rho f [] fm tbl Nf) as [_ [NF EV]].
  eexists; split; [reflexivity|].
  rewrite cnf_sql_eval, build_sound_noflags_p by assumption.
  specialize (EV []). rewrite app_nil_r in EV. now rewrite EV.
Qed.

(* a well-typed expression is never rejected (conversion does not look at the row: one row on which the hypotheses hold
   is enough to know that the expression compiles) *)
Lemma welltyped_accepted_p : forall rho e,
  typeof e = Some DBool -> env_ok rho e = true -> bounds_ok rho e = true -> compile e <> None.
Proof. intros rho e Ht He Hb. destruct (compile_correct_p rho e Ht He Hb) as [q [C _]]. congruence. Qed.
