(* C18 -- round-trip lemmas for DimensionRecord, DataCoordinate, DatasetRef (Model/Serial.v). *)
From Coq Require Import ZArith List Bool String Lia.
From V Require Import Model.Serial Proofs.SerialProofs.
Import ListNotations.
Open Scope string_scope.
Open Scope Z_scope.

(* ---------- association lists ---------- *)
Lemma aget_in {A} : forall (l : list (string * A)) k v, NoDup (map fst l) -> In (k, v) l -> aget k l = Some v.
Proof.
  induction l as [|[k' v'] l IH]; simpl; intros k v Hnd Hin; [contradiction|].
  inversion Hnd; subst. destruct Hin as [H|H].
  - inversion H; subst. rewrite String.eqb_refl. reflexivity.
  - destruct (String.eqb k k') eqn:E.
    + apply String.eqb_eq in E; subst. exfalso. apply H1. change k' with (fst (k', v)). apply in_map. exact H.
    + apply IH; auto.
Qed.
Lemma aget_notin {A} : forall (l : list (string * A)) k, ~ In k (map fst l) -> aget k l = None.
Proof.
  induction l as [|[k' v'] l IH]; simpl; intros k H; [reflexivity|].
  destruct (String.eqb k k') eqn:E.
  - apply String.eqb_eq in E; subst. exfalso; apply H; left; reflexivity.
  - apply IH. intro; apply H; right; assumption.
Qed.
Lemma jget_map_in {A} : forall (f : A -> jv) (l : list (string * A)) k v, NoDup (map fst l) -> In (k, v) l ->
  jget k (map (fun p => (fst p, f (snd p))) l) = Some (f v).
Proof.
  induction l as [|[k' v'] l IH]; simpl; intros k v Hnd Hin; [contradiction|].
  inversion Hnd; subst. destruct Hin as [H|H].
  - inversion H; subst. rewrite String.eqb_refl. reflexivity.
  - destruct (String.eqb k k') eqn:E.
    + apply String.eqb_eq in E; subst. exfalso. apply H1. change k' with (fst (k', v)). apply in_map. exact H.
    + apply IH; auto.
Qed.
Lemma map_fst_snd {A B} : forall (f : A -> B) (l : list (string * A)), map fst (map (fun p => (fst p, f (snd p))) l) = map fst l.
Proof. induction l; simpl; auto. rewrite IHl. reflexivity. Qed.
Lemma mem_In : forall s l, mem s l = true <-> In s l.
Proof.
  unfold mem. intros. rewrite existsb_exists. split.
  - intros [x [H1 H2]]. apply String.eqb_eq in H2. subst; auto.
  - intros H. exists s. split; auto. apply String.eqb_refl.
Qed.

(* ---------- DimensionRecord ---------- *)
Definition fval_ok (mx : Z) (spec : ftype * bool) (v : fval) : Prop :=
  match v with
  | FNull => snd spec = true
  | FBool _ => fst spec = TBool
  | FInt _ => fst spec = TInt
  | FFlt _ => fst spec = TFlt
  | FStr _ => fst spec = TStr
  | FTs t => fst spec = TTs /\ ts_wf mx t
  | FRegion _ => fst spec = TRegion
  | FHash _ => fst spec = THash
  end.
Definition field_ok (mx : Z) (sp : string * (ftype * bool)) (fv : string * fval) : Prop :=
  fst sp = fst fv /\ fval_ok mx (snd sp) (snd fv).
(* the record has exactly the fields of its element's schema, in slot order, each of the declared type
   (None only where nullable, timespans canonical) *)
Definition wf_rec (u : uctx) (r : drec) : Prop :=
  exists specs, aget (r_def r) (u_schema u) = Some specs /\ NoDup (map fst specs)
                /\ Forall2 (field_ok (u_max u)) specs (r_fields r).

Lemma dec_enc_fval : forall mx spec v, 0 < mx -> fval_ok mx spec v -> dec_fval mx spec (enc_fval v) = Some v.
Proof.
  intros mx [t n] v Hm H. destruct v; simpl in H; subst; try reflexivity.
  destruct H as [H1 H2]. simpl in H1. subst t.
  pose proof (ts_json_roundtrip_p mx t0 Hm H2) as R. unfold enc_ts in R.
  unfold dec_fval, enc_fval, enc_ts. cbn [fst snd]. rewrite R. reflexivity.
Qed.

Lemma Forall2_names : forall mx specs fs, Forall2 (field_ok mx) specs fs -> map fst specs = map fst fs.
Proof. induction 1; simpl; auto. destruct H as [H _]. rewrite H, IHForall2. reflexivity. Qed.

Lemma mapM_fields : forall mx o specs fs, 0 < mx -> Forall2 (field_ok mx) specs fs ->
  (forall k v, In (k, v) fs -> jget k o = Some (enc_fval v)) ->
  mapM (fun sp => match jget (fst sp) o with
                  | Some x => match dec_fval mx (snd sp) x with Some v => Some (fst sp, v) | None => None end
                  | None => None
                  end) specs = Some fs.
Proof.
  intros mx o specs fs Hm H. induction H as [|sp [k v] specs fs [Hn Hok] Hrest IH]; intros Hall; [reflexivity|].
  simpl in Hn, Hok. simpl mapM. rewrite Hn, (Hall k v (or_introl eq_refl)), (dec_enc_fval mx _ v Hm Hok).
  rewrite IH; [reflexivity|]. intros; apply Hall; right; assumption.
Qed.

Lemma jfield_definition : forall d o, jfield "definition" (JObj [("definition", JStr d); ("record", JObj o)]) = Some (JStr d).
Proof. reflexivity. Qed.
Lemma jfield_record : forall d o, jfield "record" (JObj [("definition", JStr d); ("record", JObj o)]) = Some (JObj o).
Proof. reflexivity. Qed.

Lemma dec_enc_rec_p : forall u r, 0 < u_max u -> wf_rec u r -> dec_rec u (enc_rec r) = Some r.
Proof.
  intros u r Hm (specs & Ha & Hnd & Hf). unfold dec_rec, enc_rec.
  rewrite jfield_definition, jfield_record. cbv beta iota. rewrite Ha.
  rewrite (mapM_fields (u_max u) _ specs (r_fields r) Hm Hf).
  - destruct r; reflexivity.
  - intros k v Hin. apply (jget_map_in enc_fval); auto.
    rewrite <- (Forall2_names _ _ _ Hf). exact Hnd.
Qed.

Lemma rec_pickle_p : forall r, rebuild_rec (reduce_rec r) = r.
Proof. destruct r; reflexivity. Qed.

(* ---------- DataCoordinate ---------- *)
Definition recs_ok (u : uctx) (g : grp) (rs : list (string * option drec)) : Prop :=
  map fst rs = g_elems g /\ NoDup (g_elems g) /\ forall k r, In (k, Some r) rs -> wf_rec u r.
(* a data ID of the universe: its keys are the required (or required + implied) dimensions of its group, the group
   is what conform gives for those keys, "full" is recognisable from the keys, records (None allowed) cover exactly
   the group's elements; the empty data ID is the expanded make_empty one *)
Definition wf_coord (u : uctx) (c : coord) : Prop :=
  let g := c_grp c in
  let keys := map fst (c_vals c) in
  0 < u_max u /\ conform u keys = Some g /\ NoDup keys /\
  match g_names g with
  | [] => c_vals c = [] /\ c_recs c = Some []
  | _ => match c_recs c with
         | Some rs => keys = (g_req g ++ g_impl g)%list /\ subset (g_names g) keys = true /\ recs_ok u g rs
         | None => (keys = (g_req g ++ g_impl g)%list /\ subset (g_names g) keys = true)
                   \/ (keys = g_req g /\ subset (g_names g) keys = false)
         end
  end.

Lemma mapM_dvals : forall vals,
  mapM (fun p : string * jv => match dec_dval (snd p) with Some v => Some (fst p, v) | None => None end)
       (map (fun p : string * dval => (fst p, enc_dval (snd p))) vals) = Some vals.
Proof.
  induction vals as [|[k v] vals IH]; [reflexivity|]. simpl. rewrite IH. destruct v; reflexivity.
Qed.

Lemma pick_incl : forall kv l, NoDup (map fst kv) -> incl l kv -> pick (map fst l) kv = Some l.
Proof.
  unfold pick. induction l as [|[k v] l IH]; intros Hnd Hi; [reflexivity|].
  simpl. rewrite (aget_in kv k v Hnd (Hi _ (or_introl eq_refl))).
  rewrite IH; auto. intros x Hx; apply Hi; right; assumption.
Qed.
Lemma pick_self : forall kv, NoDup (map fst kv) -> pick (map fst kv) kv = Some kv.
Proof. intros. apply pick_incl; auto. apply incl_refl. Qed.

Definition kept (rs : list (string * option drec)) : list (string * drec) :=
  flat_map (fun p => match snd p with Some r => [(fst p, r)] | None => [] end) rs.

Lemma enc_records_kept : forall rs, enc_records rs = JObj (map (fun q => (fst q, enc_rec (snd q))) (kept rs)).
Proof.
  unfold enc_records, kept. intros. f_equal. induction rs as [|[k [r|]] rs IH]; simpl; auto. rewrite IH. reflexivity.
Qed.
Lemma kept_in : forall rs k r, In (k, r) (kept rs) -> In (k, Some r) rs.
Proof.
  unfold kept. induction rs as [|[k' [r'|]] rs IH]; simpl; intros k r H.
  - contradiction.
  - destruct H as [H|H]; [inversion H; subst; auto | right; auto].
  - right; auto.
Qed.
Lemma dec_items_kept : forall u l, 0 < u_max u -> (forall k r, In (k, r) l -> wf_rec u r) ->
  dec_record_items u (map (fun q => (fst q, enc_rec (snd q))) l) = Some l.
Proof.
  unfold dec_record_items. induction l as [|[k r] l IH]; intros Hm H; [reflexivity|].
  simpl. rewrite (dec_enc_rec_p u r Hm (H k r (or_introl eq_refl))). rewrite IH; auto.
  intros; eapply H; right; eauto.
Qed.
Lemma aget_kept : forall rs k o, NoDup (map fst rs) -> In (k, o) rs -> aget k (kept rs) = o.
Proof.
  unfold kept. induction rs as [|[k' o'] rs IH]; simpl; intros k o Hnd Hin; [contradiction|].
  inversion Hnd; subst. destruct Hin as [H|H].
  - inversion H; subst. destruct o as [r|]; simpl.
    + rewrite String.eqb_refl. reflexivity.
    + apply aget_notin. intro Hc. apply H1. apply in_map_iff in Hc as [[k2 r2] [E Hc]]. simpl in E; subst.
      apply (kept_in rs) in Hc. change k with (fst (k, Some r2)). apply in_map. exact Hc.
  - assert (E : String.eqb k k' = false).
    { apply String.eqb_neq. intro; subst. apply H1. change k' with (fst (k', o)). apply in_map. exact H. }
    destruct o' as [r'|]; simpl; [rewrite E|]; apply IH; auto.
Qed.
Lemma fill_kept : forall rs, NoDup (map fst rs) -> fill_records (map fst rs) (kept rs) = rs.
Proof.
  intros rs Hnd. unfold fill_records.
  assert (H1 : forall l, incl l rs -> map (fun e => (e, aget e (kept rs))) (map fst l) = l).
  { induction l as [|[k o] l IH]; intros Hi; [reflexivity|]. simpl.
    rewrite (aget_kept rs k o Hnd (Hi _ (or_introl eq_refl))). rewrite IH; auto.
    intros x Hx; apply Hi; right; assumption. }
  rewrite (H1 rs (incl_refl rs)).
  assert (H2 : filter (fun p => negb (mem (fst p) (map fst rs))) (kept rs) = []).
  { assert (G : forall l, (forall p, In p l -> In (fst p) (map fst rs)) ->
                filter (fun p : string * drec => negb (mem (fst p) (map fst rs))) l = []).
    { induction l as [|p l IH]; intros H; [reflexivity|]. simpl.
      destruct (mem (fst p) (map fst rs)) eqn:E.
      - simpl. apply IH. intros; apply H; right; assumption.
      - exfalso. assert (T : mem (fst p) (map fst rs) = true) by (apply mem_In; apply H; left; reflexivity). congruence. }
    apply G. intros [k r] Hp. apply kept_in in Hp. simpl. apply in_map_iff. exists (k, Some r). split; auto. }
  rewrite H2. apply app_nil_r.
Qed.

Lemma jfield_dataId : forall X rest, jfield "dataId" (JObj (("dataId", JObj X) :: rest)) = Some (JObj X).
Proof. reflexivity. Qed.
Lemma jfield_records_none : forall X, jfield "records" (JObj [("dataId", JObj X)]) = None.
Proof. reflexivity. Qed.
Lemma jfield_records_some : forall X Y, jfield "records" (JObj [("dataId", JObj X); ("records", JObj Y)]) = Some (JObj Y).
Proof. reflexivity. Qed.

Lemma expected_full_id : forall c, expected_coord false c = c.
Proof. intros [g v r]. unfold expected_coord. simpl. destruct (g_names g); reflexivity. Qed.

Lemma dec_enc_coord_p : forall u m c, wf_coord u c -> dec_coord u (enc_coord m c) = Some (expected_coord m c).
Proof.
  intros u m [g vals recs]. unfold wf_coord. cbn [c_grp c_vals c_recs].
  intros (Hm & Hconf & Hnd & H).
  unfold dec_coord, dec_coord_with, enc_coord, expected_coord. cbn [c_grp c_vals c_recs].
  rewrite jfield_dataId. cbv beta iota. rewrite mapM_dvals. cbv beta iota. rewrite Hconf.
  destruct (g_names g) as [|n0 nl] eqn:En.
  - destruct H as [Hv Hr]. subst. reflexivity.
  - assert (Hnone : forall keys, map fst vals = keys ->
              pick keys vals = Some vals) by (intros; subst; apply pick_self; exact Hnd).
    destruct recs as [rs|].
    + destruct H as (Hk & Hs & (He & Hne & Hw)). rewrite Hs. rewrite (Hnone _ Hk).
      destruct m.
      * rewrite jfield_records_none. reflexivity.
      * rewrite enc_records_kept, jfield_records_some. unfold attach_records.
        rewrite dec_items_kept; auto.
        -- rewrite <- He. rewrite fill_kept; [reflexivity | rewrite He; exact Hne].
        -- intros k r Hin. apply (Hw k). apply kept_in. exact Hin.
    + assert (Hj : jfield "records" (JObj (("dataId", JObj (map (fun p => (fst p, enc_dval (snd p))) vals))
                     :: match (if m then None else (None : option (list (string * option drec)))) with
                        | Some rs => [("records", enc_records rs)] | None => [] end)) = None)
        by (destruct m; reflexivity).
      rewrite Hj. destruct H as [[Hk Hs] | [Hk Hs]]; rewrite Hs, (Hnone _ Hk); destruct m; reflexivity.
Qed.

Lemma coord_full_form_identity_p : forall u c, wf_coord u c -> dec_coord u (enc_coord false c) = Some c.
Proof. intros u c H. rewrite <- (expected_full_id c) at 2. exact (dec_enc_coord_p u false c H). Qed.

Lemma coord_pickle_p : forall c, rebuild_coord (reduce_coord c) = c.
Proof. destruct c; reflexivity. Qed.

(* ---------- DatasetRef ---------- *)
Definition wf_ref (u : uctx) (r : dref) : Prop :=
  wf_dt u (f_type r) /\ wf_coord u (f_coord r)
  /\ g_names (c_grp (f_coord r)) = g_names (t_grp (f_type r)).

Lemma enc_dt_full_obj : forall t, exists o, enc_dt false t = JObj o.
Proof. intros. unfold enc_dt. eexists; reflexivity. Qed.
Lemma enc_coord_obj : forall m c, exists o, enc_coord m c = JObj o.
Proof. intros. unfold enc_coord. eexists; reflexivity. Qed.

Lemma dec_enc_ref_p : forall u r, wf_ref u r -> dec_ref u (enc_ref false r) = Some r.
Proof.
  intros u r (Ht & Hc & Hn).
  pose proof (dec_enc_dt_full_p u _ Ht) as Hdt.
  pose proof (dec_enc_coord_p u false _ Hc) as Hdc. rewrite expected_full_id in Hdc.
  destruct (enc_dt_full_obj (f_type r)) as [o1 H1]. destruct (enc_coord_obj false (f_coord r)) as [o2 H2].
  unfold dec_ref, enc_ref. rewrite H1, H2 in *.
  Local Opaque dec_dt dec_coord.
  simpl. rewrite Hdt, Hdc. unfold mk_ref. rewrite Hn, slist_eqb_refl. destruct r; reflexivity.
  Local Transparent dec_dt dec_coord.
Qed.

Lemma dec_enc_ref_minimal_p : forall u r, aget (f_id r) (u_refs u) = Some r ->
  component_of (t_name (f_type r)) = None -> dec_ref u (enc_ref true r) = Some r.
Proof.
  intros u r H Hc. unfold dec_ref, enc_ref. rewrite Hc. simpl. rewrite H. reflexivity.
Qed.

Lemma ref_pickle_p : forall r, g_names (c_grp (f_coord r)) = g_names (t_grp (f_type r)) ->
  rebuild_ref (reduce_ref r) = Some r.
Proof.
  intros r Hn. unfold rebuild_ref, reduce_ref, mk_ref. rewrite Hn, slist_eqb_refl. destruct r; reflexivity.
Qed.
