(* C19 -- the per-dataset-type association loop (Model/TransferAssoc.v) computes the association lists of `export`. *)
From Coq Require Import NArith List Bool Lia.
From V Require Import Model.Transfer Model.TransferAssoc Proofs.TransferProofs Proofs.TransferProofs2 Proofs.TransferProofsX1 Proofs.TransferProofsX2.
Import ListNotations.
Open Scope N_scope.

Lemma queried_in s cnames ty : forall tys, In ty tys -> resolved s cnames ty <> [] -> In ty (queried false s cnames tys).
Proof.
  induction tys as [|x tys IH]; simpl; intros Hin Hne; [contradiction|].
  destruct Hin as [->|Hin].
  - destruct (resolved s cnames ty); [contradiction Hne; reflexivity | left; reflexivity].
  - destruct (resolved s cnames x); [|right]; apply IH; assumption.
Qed.
Lemma resolved_has s cnames ty c k : In c cnames -> lookup c (colls s) = Some k -> kind_wanted s ty k = true ->
  resolved s cnames ty <> [].
Proof.
  intros Hc Hk Hw Hnil. assert (Hin : In c (resolved s cnames ty)) by (apply filter_In; rewrite Hk; auto).
  rewrite Hnil in Hin. contradiction.
Qed.
Lemma kind_of_eq s c k : k <> RUN -> kind_eqb (kind_of s c) k = true -> lookup c (colls s) = Some k.
Proof. intros Hk H. apply (kd_eq s c k Hk). exact H. Qed.

Section Loop.
  Variable s : state.
  Variables cnames xids tys : list N.
  (* the context has met the dataset type of every exported dataset *)
  Hypothesis Htys : forall n, memN n xids = true -> exists ty, type_of n s = Some ty /\ In ty tys.
  (* validity ranges exist only for datasets of calibration types (certify refuses anything else) *)
  Hypothesis Hcal : forall c n r ty, In (c, n, r) (calibs s) -> type_of n s = Some ty -> is_calib_type ty s = true.

  Lemma loop_tags : assoc_tags false s cnames xids tys =
    filter (fun p => memN (fst p) cnames && kind_eqb (kind_of s (fst p)) TAGGED && memN (snd p) xids) (tags s).
  Proof.
    unfold assoc_tags. apply filter_ext_in. intros [c n] Hin. simpl.
    destruct (memN c cnames && kind_eqb (kind_of s c) TAGGED && memN n xids) eqn:E; [|reflexivity]. simpl.
    apply andb_true_iff in E. destruct E as [E En]. apply andb_true_iff in E. destruct E as [Ec Ek].
    destruct (Htys n En) as (ty & Hty & Hin'). rewrite Hty. apply memN_In. apply queried_in; [exact Hin'|].
    apply kind_of_eq in Ek; [|discriminate]. apply (resolved_has s cnames ty c TAGGED); auto. apply memN_In. exact Ec.
  Qed.
  Lemma loop_calibs : assoc_calibs false s cnames xids tys =
    filter (fun p => memN (fst (fst p)) cnames && kind_eqb (kind_of s (fst (fst p))) CALIB && memN (snd (fst p)) xids) (calibs s).
  Proof.
    unfold assoc_calibs. apply filter_ext_in. intros [[c n] r] Hin. simpl.
    destruct (memN c cnames && kind_eqb (kind_of s c) CALIB && memN n xids) eqn:E; [|reflexivity]. simpl.
    apply andb_true_iff in E. destruct E as [E En]. apply andb_true_iff in E. destruct E as [Ec Ek].
    destruct (Htys n En) as (ty & Hty & Hin'). rewrite Hty. pose proof (Hcal c n r ty Hin Hty) as Hct. rewrite Hct. simpl.
    apply memN_In. apply queried_in; [exact Hin'|].
    apply kind_of_eq in Ek; [|discriminate]. apply (resolved_has s cnames ty c CALIB); auto. apply memN_In. exact Ec.
  Qed.
End Loop.

(* for the file written by `export`: its association lists are what the loop computes *)
Lemma export_assoc_is_loop : forall ids cs s b tys, export ids cs s = XOk b ->
  (forall n, memN n (map d_id (exp_sel ids s)) = true -> exists ty, type_of n s = Some ty /\ In ty tys) ->
  (forall c n r ty, In (c, n, r) (calibs s) -> type_of n s = Some ty -> is_calib_type ty s = true) ->
  b_tags b = assoc_tags false s (exp_cnames ids cs s) (map d_id (exp_sel ids s)) tys /\
  b_calibs b = assoc_calibs false s (exp_cnames ids cs s) (map d_id (exp_sel ids s)) tys.
Proof.
  intros ids cs s b tys Ex H1 H2. apply export_shape in Ex. destruct Ex as (order & _ & _ & _ & _ & ->). simpl.
  rewrite (loop_tags s _ _ tys H1), (loop_calibs s _ _ tys H1 H2). split; reflexivity.
Qed.
