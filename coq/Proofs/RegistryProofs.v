(* Lemmas for C02 over Model/Registry.v: invariants of every reachable state (induction over histories). *)
From Coq Require Import NArith Arith List Bool Lia.
From V Require Import Model.Registry.
Import ListNotations.
Open Scope N_scope.

Definition ukey (r : row) : N * N * N := (r_coll r, r_type r, r_data r).
Definition pkey (r : row) : N * N := (r_id r, r_coll r).

Lemma uk_eq_true : forall a b, uk_eq a b = true <-> ukey a = ukey b.
Proof.
  intros [c t d i] [c' t' d' i']; unfold uk_eq, ukey; simpl.
  rewrite !andb_true_iff, !N.eqb_eq. split; [intros [[-> ->] ->]; reflexivity | intros H; inversion H; auto].
Qed.
Lemma pk_eq_true : forall a b, pk_eq a b = true <-> pkey a = pkey b.
Proof.
  intros [c t d i] [c' t' d' i']; unfold pk_eq, pkey; simpl.
  rewrite !andb_true_iff, !N.eqb_eq. split; [intros [-> ->]; reflexivity | intros H; inversion H; auto].
Qed.

Lemma existsb_false_forall : forall {A} (f : A -> bool) l, existsb f l = false <-> forall x, In x l -> f x = false.
Proof.
  intros A f l; induction l as [|a l IH]; simpl.
  - split; [intros _ x [] | reflexivity].
  - rewrite orb_false_iff, IH. split.
    + intros [Ha Hl] x [<-|Hx]; auto.
    + intros H; split; [apply H; auto | intros x Hx; apply H; auto].
Qed.

Lemma not_in_map_uk : forall r l, (forall x, In x l -> uk_eq r x = false) -> ~ In (ukey r) (map ukey l).
Proof.
  intros r l H Hin. apply in_map_iff in Hin. destruct Hin as [x [E Hx]].
  specialize (H x Hx). assert (uk_eq r x = true) by (apply uk_eq_true; auto). congruence.
Qed.
Lemma not_in_map_pk : forall r l, (forall x, In x l -> pk_eq r x = false) -> ~ In (pkey r) (map pkey l).
Proof.
  intros r l H Hin. apply in_map_iff in Hin. destruct Hin as [x [E Hx]].
  specialize (H x Hx). assert (pk_eq r x = true) by (apply pk_eq_true; auto). congruence.
Qed.

Lemma NoDup_map_filter : forall {A B} (f : A -> B) (p : A -> bool) l, NoDup (map f l) -> NoDup (map f (filter p l)).
Proof.
  intros A B f p l; induction l as [|a l IH]; simpl; intros H; [constructor|].
  inversion H as [|? ? Hn Hd]; subst. destruct (p a); simpl; auto.
  constructor; auto. intros Hin; apply Hn. apply in_map_iff in Hin. destruct Hin as [x [E Hx]].
  apply filter_In in Hx. apply in_map_iff. exists x; tauto.
Qed.

(* ---- tag_insert / tag_upsert / ds_insert ------------------------------------------------------ *)
Lemma tag_insert_some : forall tg r tg', tag_insert tg r = Some tg' ->
  tg' = r :: tg /\ ~ In (ukey r) (map ukey tg) /\ ~ In (pkey r) (map pkey tg).
Proof.
  unfold tag_insert; intros tg r tg' H.
  destruct (existsb (fun x => pk_eq r x || uk_eq r x) tg) eqn:E; [discriminate|].
  inversion H; subst. split; [reflexivity|].
  rewrite existsb_false_forall in E. split.
  - apply not_in_map_uk. intros x Hx. specialize (E x Hx). apply orb_false_iff in E; tauto.
  - apply not_in_map_pk. intros x Hx. specialize (E x Hx). apply orb_false_iff in E; tauto.
Qed.

Lemma tag_upsert_some : forall tg r tg', tag_upsert tg r = Some tg' ->
  tg' = r :: filter (fun x => negb (pk_eq r x)) tg /\
  ~ In (ukey r) (map ukey (filter (fun x => negb (pk_eq r x)) tg)) /\
  ~ In (pkey r) (map pkey (filter (fun x => negb (pk_eq r x)) tg)).
Proof.
  unfold tag_upsert; intros tg r tg' H.
  destruct (existsb (uk_eq r) (filter (fun x => negb (pk_eq r x)) tg)) eqn:E; [discriminate|].
  inversion H; subst. split; [reflexivity|]. rewrite existsb_false_forall in E. split.
  - apply not_in_map_uk; auto.
  - apply not_in_map_pk. intros x Hx. apply filter_In in Hx. destruct Hx as [_ Hx].
    destruct (pk_eq r x); simpl in Hx; congruence.
Qed.

Lemma fold_tag_insert : forall rows tg tg', fold_opt tag_insert tg rows = Some tg' ->
  tg' = rev rows ++ tg /\
  (NoDup (map ukey tg) -> NoDup (map ukey tg')) /\ (NoDup (map pkey tg) -> NoDup (map pkey tg')).
Proof.
  induction rows as [|r rows IH]; simpl; intros tg tg' H.
  - inversion H; subst; auto.
  - destruct (tag_insert tg r) as [tg1|] eqn:E; [|discriminate].
    apply tag_insert_some in E. destruct E as [-> [Hu Hp]].
    apply IH in H. destruct H as [-> [H1 H2]]. split.
    + rewrite <- app_assoc. reflexivity.
    + split; intros Hn; [apply H1 | apply H2]; simpl; constructor; auto.
Qed.

Lemma ds_find_some : forall l i x, ds_find l i = Some x -> In x l /\ d_id x = i.
Proof.
  induction l as [|a l IH]; simpl; intros i x H; [discriminate|].
  destruct (d_id a =? i) eqn:E.
  - inversion H; subst. apply N.eqb_eq in E. auto.
  - apply IH in H. tauto.
Qed.
Lemma ds_find_none : forall l i, ds_find l i = None <-> ~ In i (map d_id l).
Proof.
  induction l as [|a l IH]; simpl; intros i.
  - split; [intros _ [] | reflexivity].
  - destruct (d_id a =? i) eqn:E.
    + apply N.eqb_eq in E. split; [discriminate | intros H; exfalso; apply H; auto].
    + apply N.eqb_neq in E. rewrite IH. split; [intros H [F|F]; auto | intros H F; apply H; auto].
Qed.
Lemma ds_find_in : forall l x, NoDup (map d_id l) -> In x l -> ds_find l (d_id x) = Some x.
Proof.
  induction l as [|a l IH]; simpl; intros x Hn Hx; [contradiction|]. destruct Hx as [->|Hx].
  - rewrite N.eqb_refl. reflexivity.
  - inversion Hn; subst. destruct (d_id a =? d_id x) eqn:E.
    + apply N.eqb_eq in E. exfalso. apply H1. rewrite E. apply in_map; auto.
    + apply IH; auto.
Qed.

Lemma fold_ds_insert : forall news ds ds', fold_opt ds_insert ds news = Some ds' ->
  ds' = rev news ++ ds /\ (NoDup (map d_id ds) -> NoDup (map d_id ds')) /\
  (forall x, In x news -> ~ In (d_id x) (map d_id ds)).
Proof.
  induction news as [|x news IH]; simpl; intros ds ds' H.
  - inversion H; subst. split; [reflexivity|]. split; [auto | intros x []].
  - unfold ds_insert at 1 in H. destruct (ds_find ds (d_id x)) eqn:E; [discriminate|].
    apply IH in H. destruct H as [-> [H1 H2]]. apply ds_find_none in E. split.
    + rewrite <- app_assoc; reflexivity.
    + split.
      * intros Hn. apply H1. simpl. constructor; auto.
      * intros y [<-|Hy]; auto. intros F. apply (H2 y Hy). simpl. auto.
Qed.

Lemma ds_find_app_old : forall news ds i, ~ In i (map d_id news) -> ds_find (news ++ ds) i = ds_find ds i.
Proof.
  induction news as [|a news IH]; simpl; intros ds i H; [reflexivity|].
  destruct (d_id a =? i) eqn:E.
  - apply N.eqb_eq in E. exfalso; apply H; auto.
  - apply IH. intros F; apply H; auto.
Qed.

Lemma ds_find_filter : forall (p : dsrow -> bool) l i x, NoDup (map d_id l) ->
  ds_find (filter p l) i = Some x -> ds_find l i = Some x.
Proof.
  intros p l i x Hn H. apply ds_find_some in H. destruct H as [Hin <-].
  apply filter_In in Hin. apply ds_find_in; tauto.
Qed.

(* ---- refused operations change nothing ----------------------------------------------------------- *)
Lemma refused_changes_nothing_p : forall s o s' e, step s o = (s', Err e) -> s' = s.
Proof.
  intros s o s' e H. destruct o; simpl in H.
  - unfold do_register in H. destruct (coll_type s c); inversion H.
  - unfold do_register in H. destruct (coll_type s c); inversion H.
  - unfold do_register_type in H. destruct (has_type s t); inversion H.
  - unfold do_insert in H.
    destruct (negb (has_type s t)); [inversion H; auto|].
    destruct (coll_type s c) as [[|]|]; try (inversion H; auto; fail).
    destruct (negb (forallb (fun it => valid_d (fst it)) items)); [inversion H; auto|].
    destruct items; [inversion H|].
    destruct (fold_opt ds_insert _ _); [|inversion H; auto].
    destruct (fold_opt tag_insert _ _); inversion H; auto.
  - unfold do_import in H. destruct refs; [inversion H|].
    destruct (coll_type s c) as [[|]|]; try (inversion H; auto; fail).
    destruct (negb (forallb _ _)); [inversion H; auto|].
    destruct (negb (forallb _ _)); [inversion H; auto|].
    destruct (fold_opt tag_insert [] _); [|inversion H; auto].
    destruct (existsb _ _); [inversion H; auto|].
    destruct (existsb _ _); [inversion H; auto|].
    destruct (existsb _ _); [inversion H; auto|].
    destruct (fold_opt ds_insert _ _); [|inversion H; auto].
    destruct (fold_opt tag_insert _ _); inversion H; auto.
  - unfold do_associate in H. destruct (coll_type s c); [|inversion H; auto].
    destruct (assoc_groups _ _ _ _ _ _) as [[[tg st] sg]|]; [|inversion H; auto].
    destruct refs; inversion H.
  - unfold do_disassociate in H. destruct (coll_type s c); [|inversion H; auto].
    destruct (disassoc_groups _ _ _ _ _ _); [|inversion H; auto].
    destruct refs; inversion H.
  - unfold do_remove_datasets in H. destruct ids; inversion H.
  - unfold do_remove_collection in H. destruct (coll_type s c); inversion H; auto.
Qed.

(* ---- uniqueness of tag rows ---------------------------------------------------------------------- *)
Definition Uniq (s : state) : Prop := NoDup (map ukey (tags s)) /\ NoDup (map pkey (tags s)).

Lemma fold_assoc_row_uniq : forall s c g tg tg', fold_opt (assoc_row s c) tg g = Some tg' ->
  NoDup (map ukey tg) /\ NoDup (map pkey tg) -> NoDup (map ukey tg') /\ NoDup (map pkey tg').
Proof.
  induction g as [|f g IH]; simpl; intros tg tg' H Hn.
  - inversion H; subst; auto.
  - unfold assoc_row at 1 in H. destruct (alive s (f_id f)); [|discriminate].
    destruct (tag_upsert tg (ref_row c f)) as [tg1|] eqn:E; [|discriminate].
    apply tag_upsert_some in E. destruct E as [-> [Hu Hp]].
    apply IH in H; auto. destruct Hn as [N1 N2]. split; simpl; constructor; auto; apply NoDup_map_filter; auto.
Qed.

Lemma assoc_groups_uniq : forall s c k refs ts tg st sg tg' st' sg',
  assoc_groups s c k refs ts (tg, st, sg) = inl (tg', st', sg') ->
  NoDup (map ukey tg) /\ NoDup (map pkey tg) -> NoDup (map ukey tg') /\ NoDup (map pkey tg').
Proof.
  induction ts as [|t ts IH]; simpl; intros tg st sg tg' st' sg' H Hn.
  - inversion H; subst; auto.
  - destruct (negb (has_type s t)); [discriminate|]. destruct k; [discriminate|].
    destruct (fold_opt (assoc_row s c) tg (group refs t)) as [tg1|] eqn:E; [|discriminate].
    apply IH in H; auto. eapply fold_assoc_row_uniq; eauto.
Qed.

Lemma disassoc_groups_uniq : forall s c k refs ts tg tg',
  disassoc_groups s c k refs ts tg = inl tg' ->
  NoDup (map ukey tg) /\ NoDup (map pkey tg) -> NoDup (map ukey tg') /\ NoDup (map pkey tg').
Proof.
  induction ts as [|t ts IH]; simpl; intros tg tg' H Hn.
  - inversion H; subst; auto.
  - destruct (negb (has_type s t)); [discriminate|]. destruct k; [discriminate|].
    apply IH in H; auto. destruct Hn; split; apply NoDup_map_filter; auto.
Qed.

Lemma step_uniq : forall s o, Uniq s -> Uniq (fst (step s o)).
Proof.
  intros s o U. destruct (step s o) as [s' out] eqn:H. simpl.
  destruct out as [| |e]; [| |apply refused_changes_nothing_p in H; subst; auto].
  2:{ destruct o; simpl in H;
      try (unfold do_register in H; destruct (coll_type s c); inversion H; subst; exact U);
      try (unfold do_register_type in H; destruct (has_type s t); inversion H; subst; exact U).
      - unfold do_insert in H. destruct (negb (has_type s t)); [inversion H|].
        destruct (coll_type s c) as [[|]|]; try (inversion H; fail).
        destruct (negb (forallb _ _)); [inversion H|]. destruct items; [inversion H|].
        destruct (fold_opt ds_insert _ _); [|inversion H]. destruct (fold_opt tag_insert _ _); inversion H.
      - unfold do_import in H. destruct refs; [inversion H|].
        destruct (coll_type s c) as [[|]|]; try (inversion H; fail).
        destruct (negb (forallb _ _)); [inversion H|]. destruct (negb (forallb _ _)); [inversion H|].
        destruct (fold_opt tag_insert [] _); [|inversion H].
        destruct (existsb _ _); [inversion H|]. destruct (existsb _ _); [inversion H|]. destruct (existsb _ _); [inversion H|].
        destruct (fold_opt ds_insert _ _); [|inversion H]. destruct (fold_opt tag_insert _ _); inversion H.
      - unfold do_associate in H. destruct (coll_type s c); [|inversion H].
        destruct (assoc_groups _ _ _ _ _ _) as [[[tg st] sg]|]; [|inversion H]. destruct refs; inversion H.
      - unfold do_disassociate in H. destruct (coll_type s c); [|inversion H].
        destruct (disassoc_groups _ _ _ _ _ _); [|inversion H]. destruct refs; inversion H.
      - unfold do_remove_datasets in H. destruct ids; inversion H.
      - unfold do_remove_collection in H. destruct (coll_type s c); inversion H. }
  destruct o; simpl in H.
  - unfold do_register in H. destruct (coll_type s c); inversion H; subst; exact U.
  - unfold do_register in H. destruct (coll_type s c); inversion H; subst; exact U.
  - unfold do_register_type in H. destruct (has_type s t); inversion H; subst; exact U.
  - unfold do_insert in H. destruct (negb (has_type s t)); [inversion H|].
    destruct (coll_type s c) as [[|]|]; try (inversion H; fail).
    destruct (negb (forallb _ _)); [inversion H|]. destruct items as [|it items]; [inversion H; subst; exact U|].
    destruct (fold_opt ds_insert _ _); [|inversion H].
    destruct (fold_opt tag_insert (tags s) _) as [tg'|] eqn:E; inversion H; subst.
    apply fold_tag_insert in E. destruct E as [_ [E1 E2]]. destruct U; split; simpl; auto.
  - unfold do_import in H. destruct refs as [|f refs]; [inversion H; subst; exact U|].
    destruct (coll_type s c) as [[|]|]; try (inversion H; fail).
    destruct (negb (forallb _ _)); [inversion H|]. destruct (negb (forallb _ _)); [inversion H|].
    destruct (fold_opt tag_insert [] _); [|inversion H].
    destruct (existsb _ _); [inversion H|]. destruct (existsb _ _); [inversion H|]. destruct (existsb _ _); [inversion H|].
    destruct (fold_opt ds_insert _ _); [|inversion H].
    destruct (fold_opt tag_insert (tags s) _) as [tg'|] eqn:E; inversion H; subst.
    apply fold_tag_insert in E. destruct E as [_ [E1 E2]]. destruct U; split; simpl; auto.
  - unfold do_associate in H. destruct (coll_type s c); [|inversion H].
    destruct (assoc_groups _ _ _ _ _ _) as [[[tg st] sg]|] eqn:E; [|inversion H].
    destruct refs; inversion H; subst; [exact U|]. apply assoc_groups_uniq in E; auto.
  - unfold do_disassociate in H. destruct (coll_type s c); [|inversion H].
    destruct (disassoc_groups _ _ _ _ _ _) eqn:E; [|inversion H].
    destruct refs; inversion H; subst; [exact U|]. apply disassoc_groups_uniq in E; auto.
  - unfold do_remove_datasets in H. destruct ids; inversion H; subst; [exact U|].
    destruct U; split; simpl; apply NoDup_map_filter; auto.
  - unfold do_remove_collection in H. destruct (coll_type s c); inversion H; subst.
    destruct U; split; simpl; apply NoDup_map_filter; auto.
Qed.

Lemma run_snoc : forall h o, run (h ++ [o]) = exec (run h) o.
Proof. intros; unfold run; rewrite fold_left_app; reflexivity. Qed.

Lemma reach_ind : forall (P : state -> Prop), P init -> (forall s o, P s -> P (fst (step s o))) -> forall h, P (run h).
Proof.
  intros P H0 HS h. induction h as [|o h IH] using rev_ind; [exact H0|].
  rewrite run_snoc. apply HS; auto.
Qed.

Lemma uniq_run : forall h, Uniq (run h).
Proof. apply reach_ind; [split; constructor | apply step_uniq]. Qed.

Lemma tags_unique_p : forall h, NoDup (map ukey (tags (run h))).
Proof. intros h; apply uniq_run. Qed.
Lemma tags_pk_unique_p : forall h, NoDup (map pkey (tags (run h))).
Proof. intros h; apply uniq_run. Qed.

(* a collection never reports two datasets under one (type, data id) *)
Lemma one_dataset_per_key_p : forall h c t d i j,
  In (Row c t d i) (tags (run h)) -> In (Row c t d j) (tags (run h)) -> i = j.
Proof.
  intros h c t d i j Hi Hj. pose proof (tags_unique_p h) as Hn. revert Hn Hi Hj.
  generalize (tags (run h)). induction l as [|a l IH]; simpl; intros Hn Hi Hj; [contradiction|].
  inversion Hn; subst. destruct Hi as [->|Hi], Hj as [E|Hj].
  - inversion E; auto.
  - exfalso; apply H1. apply in_map_iff. exists (Row c t d j); auto.
  - subst a. exfalso; apply H1. apply in_map_iff. exists (Row c t d i); auto.
  - auto.
Qed.

(* ---- shape of every state change -------------------------------------------------------------- *)
Inductive Changed (s : state) : state -> Prop :=
| ch_same : Changed s s
| ch_coll c k : coll_type s c = None ->
    Changed s (St ((c, k) :: colls s) (dtypes s) (datasets s) (tags s) (summ_t s) (summ_g s))
| ch_type t : Changed s (St (colls s) (t :: dtypes s) (datasets s) (tags s) (summ_t s) (summ_g s))
| ch_add c rows rows0 ds' tg' :
    coll_type s c = Some RUN ->
    fold_opt ds_insert (datasets s) (map (fun r => Ds (r_id r) (r_type r) c) rows) = Some ds' ->
    fold_opt tag_insert (tags s) rows = Some tg' ->
    (forall r, In r rows -> r_coll r = c) -> incl rows rows0 ->
    Changed s (St (colls s) (dtypes s) ds' tg' (summ_add_rows c rows0 (summ_t s)) (summ_add_govs c rows0 (summ_g s)))
| ch_assoc c refs ts tg st sg :
    coll_type s c = Some TAGGED ->
    assoc_groups s c TAGGED refs ts (tags s, summ_t s, summ_g s) = inl (tg, st, sg) ->
    Changed s (St (colls s) (dtypes s) (datasets s) tg st sg)
| ch_disassoc c refs ts tg :
    coll_type s c = Some TAGGED ->
    disassoc_groups s c TAGGED refs ts (tags s) = inl tg ->
    Changed s (St (colls s) (dtypes s) (datasets s) tg (summ_t s) (summ_g s))
| ch_rmds ids :
    Changed s (St (colls s) (dtypes s) (filter (fun x => negb (memN (d_id x) ids)) (datasets s))
                  (filter (fun x => negb (memN (r_id x) ids)) (tags s)) (summ_t s) (summ_g s))
| ch_rmcoll c k : coll_type s c = Some k ->
    Changed s (St (filter (fun p => negb (fst p =? c)) (colls s)) (dtypes s)
                  (filter (fun x => negb (d_run x =? c)) (datasets s))
                  (filter (fun x => negb ((r_coll x =? c) ||
                     match ds_find (datasets s) (r_id x) with Some y => d_run y =? c | None => false end)) (tags s))
                  (filter (fun p => negb (fst p =? c)) (summ_t s))
                  (filter (fun p => negb (fst p =? c)) (summ_g s))).

Lemma types_in_order_nonempty : forall f r, types_in_order (f :: r) [] <> [].
Proof. intros f r; simpl; discriminate. Qed.

Lemma assoc_groups_run : forall s c refs ts acc, ts <> [] -> exists e, assoc_groups s c RUN refs ts acc = inr e.
Proof. intros s c refs [|t ts] acc H; [congruence|]. simpl. destruct (negb (has_type s t)); eauto. Qed.
Lemma disassoc_groups_run : forall s c refs ts acc, ts <> [] -> exists e, disassoc_groups s c RUN refs ts acc = inr e.
Proof. intros s c refs [|t ts] acc H; [congruence|]. simpl. destruct (negb (has_type s t)); eauto. Qed.

Lemma step_changed : forall s o, Changed s (fst (step s o)).
Proof.
  intros s o. destruct o; simpl.
  - unfold do_register. destruct (coll_type s c) eqn:E; simpl; [constructor | apply ch_coll; auto].
  - unfold do_register. destruct (coll_type s c) eqn:E; simpl; [constructor | apply ch_coll; auto].
  - unfold do_register_type. destruct (has_type s t); simpl; constructor.
  - unfold do_insert. destruct (negb (has_type s t)); simpl; [constructor|].
    destruct (coll_type s c) as [[|]|] eqn:Ec; simpl; try constructor.
    destruct (negb (forallb _ _)); simpl; [constructor|]. destruct items as [|it items]; [simpl; constructor|].
    cbv iota. remember (it :: items) as its eqn:Eits. clear Eits.
    match goal with |- context [fold_opt ds_insert ?a ?b] => destruct (fold_opt ds_insert a b) as [ds'|] eqn:Ed end; simpl; [|constructor].
    match goal with |- context [fold_opt tag_insert (tags s) ?b] => destruct (fold_opt tag_insert (tags s) b) as [tg'|] eqn:Et end; simpl; [|constructor].
    apply ch_add with (rows := map (fun it0 => Row c t (fst it0) (snd it0)) its); auto.
    + rewrite map_map. simpl. exact Ed.
    + intros r Hr. apply in_map_iff in Hr. destruct Hr as [x [<- _]]. reflexivity.
    + apply incl_refl.
  - unfold do_import. destruct refs as [|f refs]; [simpl; constructor|].
    cbv iota. remember (f :: refs) as rfs eqn:Erfs. clear Erfs.
    destruct (coll_type s c) as [[|]|] eqn:Ec; simpl; try constructor.
    destruct (negb (forallb _ _)); simpl; [constructor|]. destruct (negb (forallb _ _)); simpl; [constructor|].
    destruct (fold_opt tag_insert [] _); simpl; [|constructor].
    destruct (existsb _ _); simpl; [constructor|]. destruct (existsb _ _); simpl; [constructor|].
    destruct (existsb _ _); simpl; [constructor|].
    match goal with |- context [fold_opt ds_insert ?a ?b] => destruct (fold_opt ds_insert a b) as [ds'|] eqn:Ed end; simpl; [|constructor].
    match goal with |- context [fold_opt tag_insert (tags s) ?b] => destruct (fold_opt tag_insert (tags s) b) as [tg'|] eqn:Et end; simpl; [|constructor].
    apply ch_add with (rows := map (ref_row c) (filter (fun f0 => negb (alive s (f_id f0))) rfs)); auto.
    + rewrite map_map. simpl. exact Ed.
    + intros r Hr. apply in_map_iff in Hr. destruct Hr as [x [<- _]]. reflexivity.
    + intros r Hr. apply in_map_iff in Hr. destruct Hr as [x [<- Hx]]. apply filter_In in Hx.
      apply in_map. tauto.
  - unfold do_associate. destruct (coll_type s c) as [k|] eqn:Ec; simpl; [|constructor].
    destruct refs as [|f refs]; [simpl; destruct k; constructor|].
    destruct k.
    + destruct (assoc_groups_run s c (f :: refs) (types_in_order (f :: refs) []) (tags s, summ_t s, summ_g s)
                (types_in_order_nonempty f refs)) as [e ->]. simpl; constructor.
    + destruct (assoc_groups _ _ _ _ _ _) as [[[tg st] sg]|] eqn:E; simpl; [|constructor].
      eapply ch_assoc; eauto.
  - unfold do_disassociate. destruct (coll_type s c) as [k|] eqn:Ec; simpl; [|constructor].
    destruct refs as [|f refs]; [simpl; destruct k; constructor|].
    destruct k.
    + destruct (disassoc_groups_run s c (f :: refs) (types_in_order (f :: refs) []) (tags s)
                (types_in_order_nonempty f refs)) as [e ->]. simpl; constructor.
    + destruct (disassoc_groups _ _ _ _ _ _) eqn:E; simpl; [|constructor].
      eapply ch_disassoc; eauto.
  - unfold do_remove_datasets. destruct ids as [|i0 ids]; [simpl; constructor|]. cbv iota. cbn [fst]. apply ch_rmds.
  - unfold do_remove_collection. destruct (coll_type s c) eqn:E; cbn [fst]; [|constructor].
    eapply ch_rmcoll; eauto.
Qed.

(* ---- dataset ids are unique; a dataset keeps its definition while it is alive ------------------- *)
Definition Ids (s : state) : Prop := NoDup (map d_id (datasets s)).

Lemma changed_ids : forall s s', Changed s s' -> Ids s -> Ids s'.
Proof.
  intros s s' C I. destruct C; unfold Ids in *; simpl; auto.
  - apply fold_ds_insert in H0. tauto.
  - apply NoDup_map_filter; auto.
  - apply NoDup_map_filter; auto.
Qed.

Lemma ids_run : forall h, Ids (run h).
Proof. apply reach_ind; [constructor | intros; eapply changed_ids; eauto using step_changed]. Qed.

Lemma changed_def_constant : forall s s' i x x', Changed s s' -> Ids s ->
  ds_find (datasets s) i = Some x -> ds_find (datasets s') i = Some x' -> x' = x.
Proof.
  intros s s' i x x' C I Hx Hx'. destruct C; simpl in *; try congruence.
  - apply fold_ds_insert in H0. destruct H0 as [-> [_ Hnew]].
    rewrite ds_find_app_old in Hx'; [congruence|].
    intros F. rewrite <- in_rev in F || (rewrite map_rev in F; apply in_rev in F).
    apply in_map_iff in F. destruct F as [y [E Hy]]. apply in_rev in Hy || idtac.
    apply (Hnew y); [try (apply in_rev; exact Hy); try exact Hy|].
    rewrite E. apply ds_find_some in Hx. destruct Hx as [Hin <-]. apply in_map; auto.
  - apply ds_find_filter in Hx'; auto. congruence.
  - apply ds_find_filter in Hx'; auto. congruence.
Qed.

Lemma step_def_constant_p : forall h o i x x',
  ds_find (datasets (run h)) i = Some x -> ds_find (datasets (exec (run h) o)) i = Some x' -> x' = x.
Proof.
  intros h o i x x' H H'. eapply changed_def_constant; eauto.
  - unfold exec. apply step_changed.
  - apply ids_run.
Qed.

Lemma one_run_for_life_p : forall h h' i,
  (forall k, (k <= length h')%nat -> alive (run (h ++ firstn k h')) i = true) ->
  run_of (run (h ++ h')) i = run_of (run h) i.
Proof.
  intros h h' i. induction h' as [|o h' IH] using rev_ind; intros A.
  - rewrite app_nil_r. reflexivity.
  - rewrite <- IH.
    + rewrite app_assoc, run_snoc.
      pose proof (A (length h') ltac:(rewrite app_length; lia)) as A1.
      pose proof (A (length (h' ++ [o])) ltac:(lia)) as A2.
      rewrite firstn_app, firstn_all, PeanoNat.Nat.sub_diag in A1. simpl in A1. rewrite app_nil_r in A1.
      rewrite firstn_all, app_assoc, run_snoc in A2.
      unfold alive in A1, A2. unfold run_of.
      destruct (ds_find (datasets (run (h ++ h'))) i) as [x|] eqn:E1; [|discriminate].
      destruct (ds_find (datasets (exec (run (h ++ h')) o)) i) as [x'|] eqn:E2; [|discriminate].
      rewrite (step_def_constant_p _ _ _ _ _ E1 E2). reflexivity.
    + intros k Hk. specialize (A k ltac:(rewrite app_length; lia)).
      rewrite firstn_app in A. replace (k - length h')%nat with 0%nat in A by lia. simpl in A.
      rewrite app_nil_r in A. exact A.
Qed.

(* ---- summaries over-approximate the contents ------------------------------------------------------ *)
Lemma pair_eqb_true : forall a b, pair_eqb a b = true <-> a = b.
Proof.
  intros [a1 a2] [b1 b2]; unfold pair_eqb; simpl. rewrite andb_true_iff, !N.eqb_eq.
  split; [intros [-> ->]; auto | intros H; inversion H; auto].
Qed.
Lemma mem2_in : forall p l, mem2 p l = true <-> In p l.
Proof.
  intros p l; unfold mem2. rewrite existsb_exists. split.
  - intros [x [Hx E]]. apply pair_eqb_true in E. subst; auto.
  - intros H; exists p; split; auto. apply pair_eqb_true; auto.
Qed.
Lemma mem2_add2 : forall p x l, mem2 p (add2 x l) = true <-> p = x \/ mem2 p l = true.
Proof.
  intros p x l; unfold add2. destruct (mem2 x l) eqn:E.
  - split; auto. intros [->|H]; auto.
  - rewrite !mem2_in. simpl. split; intros [H|H]; auto.
Qed.

Lemma fold_add2_mono : forall {A} (f : A -> N * N) rows st p,
  mem2 p st = true -> mem2 p (fold_left (fun acc r => add2 (f r) acc) rows st) = true.
Proof.
  intros A f rows; induction rows as [|r rows IH]; simpl; intros st p H; auto.
  apply IH. apply mem2_add2; auto.
Qed.
Lemma fold_add2_in : forall {A} (f : A -> N * N) rows st r,
  In r rows -> mem2 (f r) (fold_left (fun acc r => add2 (f r) acc) rows st) = true.
Proof.
  intros A f rows; induction rows as [|a rows IH]; simpl; intros st r H; [contradiction|].
  destruct H as [->|H]; [|apply IH; auto]. apply fold_add2_mono. apply mem2_add2; auto.
Qed.

Definition covered (st sg : list (N * N)) (r : row) : Prop :=
  mem2 (r_coll r, r_type r) st = true /\ mem2 (r_coll r, gov_of (r_data r)) sg = true.
Definition Summ (s : state) : Prop := forall r, In r (tags s) -> covered (summ_t s) (summ_g s) r.

Lemma covered_add : forall c rows0 st sg r, In r rows0 -> r_coll r = c ->
  covered (summ_add_rows c rows0 st) (summ_add_govs c rows0 sg) r.
Proof.
  intros c rows0 st sg r H <-. split.
  - apply (fold_add2_in (fun x => (r_coll r, r_type x)) rows0 st r H).
  - apply (fold_add2_in (fun x => (r_coll r, gov_of (r_data x))) rows0 sg r H).
Qed.
Lemma covered_mono : forall c rows0 st sg r, covered st sg r ->
  covered (summ_add_rows c rows0 st) (summ_add_govs c rows0 sg) r.
Proof. intros c rows0 st sg r [H1 H2]; split; apply fold_add2_mono; auto. Qed.

Lemma fold_assoc_row_in : forall s c g tg tg', fold_opt (assoc_row s c) tg g = Some tg' ->
  forall x, In x tg' -> In x tg \/ In x (map (ref_row c) g).
Proof.
  induction g as [|f g IH]; simpl; intros tg tg' H x Hx.
  - inversion H; subst; auto.
  - unfold assoc_row at 1 in H. destruct (alive s (f_id f)); [|discriminate].
    destruct (tag_upsert tg (ref_row c f)) as [tg1|] eqn:E; [|discriminate].
    apply tag_upsert_some in E. destruct E as [-> _].
    destruct (IH _ _ H x Hx) as [[<-|H1]|H1]; auto.
    apply filter_In in H1. tauto.
Qed.

Lemma assoc_groups_summ : forall s c refs ts tg st sg tg' st' sg',
  assoc_groups s c TAGGED refs ts (tg, st, sg) = inl (tg', st', sg') ->
  (forall r, In r tg -> covered st sg r) -> (forall r, In r tg' -> covered st' sg' r).
Proof.
  induction ts as [|t ts IH]; simpl; intros tg st sg tg' st' sg' H C.
  - inversion H; subst; auto.
  - destruct (negb (has_type s t)); [discriminate|].
    destruct (fold_opt (assoc_row s c) tg (group refs t)) as [tg1|] eqn:E; [|discriminate].
    eapply IH; eauto. intros r Hr. destruct (fold_assoc_row_in _ _ _ _ _ E r Hr) as [H1|H1].
    + apply covered_mono; auto.
    + apply covered_add; auto. apply in_map_iff in H1. destruct H1 as [f [<- _]]. reflexivity.
Qed.

Lemma disassoc_groups_incl : forall s c refs ts tg tg',
  disassoc_groups s c TAGGED refs ts tg = inl tg' -> forall x, In x tg' -> In x tg.
Proof.
  induction ts as [|t ts IH]; simpl; intros tg tg' H x Hx.
  - inversion H; subst; auto.
  - destruct (negb (has_type s t)); [discriminate|].
    specialize (IH _ _ H x Hx). apply filter_In in IH. tauto.
Qed.

Lemma mem2_filter_other : forall a b c l, mem2 (a, b) l = true -> a <> c ->
  mem2 (a, b) (filter (fun p => negb (fst p =? c)) l) = true.
Proof.
  intros a b c l H Hn. apply mem2_in. apply mem2_in in H. apply filter_In. split; auto.
  simpl. apply negb_true_iff. apply N.eqb_neq; auto.
Qed.

Lemma changed_summ : forall s s', Changed s s' -> Summ s -> Summ s'.
Proof.
  intros s s' C S. destruct C; unfold Summ in *; simpl; auto.
  - apply fold_tag_insert in H1. destruct H1 as [-> _]. intros r Hr. apply in_app_or in Hr.
    destruct Hr as [Hr|Hr].
    + apply in_rev in Hr. apply covered_add; auto.
    + apply covered_mono; auto.
  - eapply assoc_groups_summ; eauto.
  - intros r Hr. apply S. eapply disassoc_groups_incl; eauto.
  - intros r Hr. apply filter_In in Hr. apply S; tauto.
  - intros r Hr. apply filter_In in Hr. destruct Hr as [Hr Hc].
    apply negb_true_iff, orb_false_iff in Hc. destruct Hc as [Hc _]. apply N.eqb_neq in Hc.
    destruct (S r Hr). split; apply mem2_filter_other; auto.
Qed.

Lemma summ_run : forall h, Summ (run h).
Proof. apply reach_ind; [intros r [] | intros; eapply changed_summ; eauto using step_changed]. Qed.

Lemma summary_over_approx_p : forall h c t d i, In (Row c t d i) (tags (run h)) ->
  mem2 (c, t) (summ_t (run h)) = true /\ mem2 (c, gov_of d) (summ_g (run h)) = true.
Proof. intros h c t d i H. apply (summ_run h _ H). Qed.

Lemma filter_nil : forall {A} (f : A -> bool) l, (forall x, In x l -> f x = false) -> filter f l = [].
Proof.
  intros A f l; induction l as [|a l IH]; simpl; intros H; auto.
  rewrite (H a) by auto. apply IH. intros; apply H; auto.
Qed.

Lemma pruned_query_eq_p : forall h c t g, query_with_summaries (run h) c t g = query_all (run h) c t g.
Proof.
  intros h c t g. unfold query_with_summaries.
  destruct (mem2 (c, t) (summ_t (run h)) && mem2 (c, g) (summ_g (run h))) eqn:E; [reflexivity|].
  symmetry. unfold query_all. apply filter_nil. intros p Hp. unfold contents in Hp.
  apply in_map_iff in Hp. destruct Hp as [x [<- Hx]]. apply filter_In in Hx. destruct Hx as [Hx Hc].
  apply andb_true_iff in Hc. destruct Hc as [Hc Ht]. apply N.eqb_eq in Hc. apply N.eqb_eq in Ht.
  destruct (summ_run h x Hx) as [S1 S2]. simpl. destruct (gov_of (r_data x) =? g) eqn:G; [|reflexivity].
  apply N.eqb_eq in G. rewrite Hc, Ht in S1. rewrite Hc, G in S2. rewrite S1, S2 in E. discriminate.
Qed.

(* ---- frame: a TAGGED collection's contents change only at associate / disassociate / remove steps -- *)
Lemma add_frame : forall rows tg tg' c c' t, fold_opt tag_insert tg rows = Some tg' ->
  (forall r, In r rows -> r_coll r = c) -> c <> c' ->
  filter (fun x => (r_coll x =? c') && (r_type x =? t)) tg' = filter (fun x => (r_coll x =? c') && (r_type x =? t)) tg.
Proof.
  intros rows tg tg' c c' t H Hc Hn. apply fold_tag_insert in H. destruct H as [-> _].
  rewrite filter_app. rewrite filter_nil; [reflexivity|].
  intros x Hx. apply in_rev in Hx. rewrite (Hc x Hx).
  apply andb_false_iff. left. apply N.eqb_neq; auto.
Qed.

Definition touches_tagged (o : op) : bool :=
  match o with
  | Associate _ _ | Disassociate _ _ | RemoveDatasets _ | RemoveCollection _ => true
  | _ => false
  end.

Lemma tagged_frame_p : forall s o c' t, coll_type s c' = Some TAGGED -> touches_tagged o = false ->
  contents (exec s o) c' t = contents s c' t.
Proof.
  intros s o c' t HT Ho. unfold exec. destruct o; try discriminate; simpl.
  - unfold do_register. destruct (coll_type s c); reflexivity.
  - unfold do_register. destruct (coll_type s c); reflexivity.
  - unfold do_register_type. destruct (has_type s t0); reflexivity.
  - unfold do_insert. destruct (negb (has_type s t0)); [reflexivity|].
    destruct (coll_type s c) as [[|]|] eqn:Ec; try reflexivity.
    destruct (negb (forallb _ _)); [reflexivity|]. destruct items as [|it items]; [reflexivity|].
    cbv iota. remember (it :: items) as its eqn:Eits. clear Eits.
    match goal with |- context [fold_opt ds_insert ?a ?b] => destruct (fold_opt ds_insert a b) as [ds'|] eqn:Ed end; [|reflexivity].
    match goal with |- context [fold_opt tag_insert (tags s) ?b] => destruct (fold_opt tag_insert (tags s) b) as [tg'|] eqn:Et end; [|reflexivity].
    unfold contents; simpl. f_equal. eapply add_frame with (c := c); eauto.
    + intros r Hr. apply in_map_iff in Hr. destruct Hr as [x [<- _]]. reflexivity.
    + intros ->. congruence.
  - unfold do_import. destruct refs as [|f refs]; [reflexivity|].
    cbv iota. remember (f :: refs) as rfs eqn:Erfs. clear Erfs.
    destruct (coll_type s c) as [[|]|] eqn:Ec; try reflexivity.
    destruct (negb (forallb _ _)); [reflexivity|]. destruct (negb (forallb _ _)); [reflexivity|].
    destruct (fold_opt tag_insert [] _); [|reflexivity].
    destruct (existsb _ _); [reflexivity|]. destruct (existsb _ _); [reflexivity|]. destruct (existsb _ _); [reflexivity|].
    match goal with |- context [fold_opt ds_insert ?a ?b] => destruct (fold_opt ds_insert a b) as [ds'|] eqn:Ed end; [|reflexivity].
    match goal with |- context [fold_opt tag_insert (tags s) ?b] => destruct (fold_opt tag_insert (tags s) b) as [tg'|] eqn:Et end; [|reflexivity].
    unfold contents; simpl. f_equal. eapply add_frame with (c := c); eauto.
    + intros r Hr. apply in_map_iff in Hr. destruct Hr as [x [<- _]]. reflexivity.
    + intros ->. congruence.
Qed.

(* ---- conflict exactly when uniqueness would break (single-entry batches) ---------------------------- *)
Lemma associate_conflict_iff_p : forall s c i t d,
  coll_type s c = Some TAGGED -> has_type s t = true -> alive s i = true ->
  (snd (step s (Associate c [Ref i t d])) = Err Conflict <->
   exists x, In x (tags s) /\ r_coll x = c /\ r_type x = t /\ r_data x = d /\ r_id x <> i).
Proof.
  intros s c i t d Hc Ht Ha. simpl. unfold do_associate. rewrite Hc. simpl.
  rewrite Ht. simpl. unfold group. simpl. rewrite N.eqb_refl. simpl.
  unfold assoc_row. simpl. rewrite Ha. unfold tag_upsert.
  destruct (existsb (uk_eq (ref_row c (Ref i t d))) (filter (fun x => negb (pk_eq (ref_row c (Ref i t d)) x)) (tags s))) eqn:E; simpl.
  - split; [intros _|reflexivity]. apply existsb_exists in E. destruct E as [x [Hx Hu]].
    apply filter_In in Hx. destruct Hx as [Hx Hp]. exists x. apply uk_eq_true in Hu. unfold ukey, ref_row in Hu; simpl in Hu.
    inversion Hu. repeat split; auto. intros F. apply negb_true_iff in Hp.
    assert (pk_eq (ref_row c (Ref i t d)) x = true) by (apply pk_eq_true; unfold pkey, ref_row; simpl; congruence). congruence.
  - split; [discriminate|]. intros [x [Hx [H1 [H2 [H3 H4]]]]]. exfalso.
    rewrite existsb_false_forall in E. assert (In x (filter (fun x0 => negb (pk_eq (ref_row c (Ref i t d)) x0)) (tags s))) as Hf.
    { apply filter_In. split; auto. apply negb_true_iff. destruct (pk_eq (ref_row c (Ref i t d)) x) eqn:P; auto.
      apply pk_eq_true in P. unfold pkey, ref_row in P; simpl in P. inversion P. congruence. }
    specialize (E x Hf). assert (uk_eq (ref_row c (Ref i t d)) x = true) by (apply uk_eq_true; unfold ukey, ref_row; simpl; congruence).
    congruence.
Qed.

Lemma insert_conflict_iff_p : forall s t c d i,
  has_type s t = true -> coll_type s c = Some RUN -> valid_d d = true -> alive s i = false ->
  (snd (step s (Insert t c [(d, i)])) = Err Conflict <->
   exists x, In x (tags s) /\ (ukey x = (c, t, d) \/ pkey x = (i, c))).
Proof.
  intros s t c d i Ht Hc Hd Ha. simpl. unfold do_insert. rewrite Ht, Hc. simpl. rewrite Hd. simpl.
  unfold ds_insert. simpl. unfold alive in Ha. destruct (ds_find (datasets s) i); [discriminate|].
  unfold tag_insert.
  destruct (existsb (fun x => pk_eq (Row c t d i) x || uk_eq (Row c t d i) x) (tags s)) eqn:E; simpl.
  - split; [intros _|reflexivity]. apply existsb_exists in E. destruct E as [x [Hx Hu]]. exists x. split; auto.
    apply orb_true_iff in Hu. destruct Hu as [Hu|Hu].
    + right. apply pk_eq_true in Hu. symmetry. exact Hu.
    + left. apply uk_eq_true in Hu. symmetry. exact Hu.
  - split; [discriminate|]. intros [x [Hx Hk]]. exfalso. rewrite existsb_false_forall in E. specialize (E x Hx).
    apply orb_false_iff in E. destruct E as [E1 E2]. destruct Hk as [Hk|Hk].
    + assert (uk_eq (Row c t d i) x = true) by (apply uk_eq_true; symmetry; exact Hk). congruence.
    + assert (pk_eq (Row c t d i) x = true) by (apply pk_eq_true; symmetry; exact Hk). congruence.
Qed.

(* ---- RUN membership is exactly run_of ------------------------------------------------------------ *)
Definition FK (s : state) : Prop :=
  forall r, In r (tags s) -> alive s (r_id r) = true /\ coll_type s (r_coll r) <> None.
Definition RunM (s : state) : Prop :=
  (forall x, In x (datasets s) -> coll_type s (d_run x) = Some RUN /\
       exists d, In (Row (d_run x) (d_type x) d (d_id x)) (tags s)) /\
  (forall r, In r (tags s) -> coll_type s (r_coll r) = Some RUN -> In (Ds (r_id r) (r_type r) (r_coll r)) (datasets s)).
Definition J (s : state) : Prop := Ids s /\ FK s /\ RunM s.

Lemma ds_find_in_some : forall l x, In x l -> exists y, ds_find l (d_id x) = Some y.
Proof.
  induction l as [|a l IH]; simpl; intros x H; [contradiction|].
  destruct (d_id a =? d_id x) eqn:E; [eauto|]. destruct H as [->|H]; [rewrite N.eqb_refl in E; discriminate | auto].
Qed.
Lemma ds_find_in_some' : forall l x i, In x l -> d_id x = i -> ds_find l i <> None.
Proof. intros l x i H <-. destruct (ds_find_in_some l x H) as [y ->]. discriminate. Qed.

Lemma alive_iff : forall s i, alive s i = true <-> ds_find (datasets s) i <> None.
Proof. intros s i; unfold alive. destruct (ds_find (datasets s) i); split; congruence. Qed.

Lemma coll_type_in_filter : forall l c c', coll_type_in (filter (fun p => negb (fst p =? c)) l) c' =
  if c' =? c then None else coll_type_in l c'.
Proof.
  induction l as [|[a k] l IH]; simpl; intros c c'.
  - destruct (c' =? c); reflexivity.
  - destruct (a =? c) eqn:E1; simpl.
    + rewrite IH. destruct (c' =? c) eqn:E2; [reflexivity|].
      apply N.eqb_eq in E1. subst. rewrite N.eqb_sym, E2. reflexivity.
    + rewrite IH. destruct (a =? c') eqn:E3; [|reflexivity].
      apply N.eqb_eq in E3. subst. rewrite E1. reflexivity.
Qed.

Lemma row_eta : forall r, Row (r_coll r) (r_type r) (r_data r) (r_id r) = r.
Proof. intros []; reflexivity. Qed.

Lemma fold_assoc_row_alive : forall s c g tg tg', fold_opt (assoc_row s c) tg g = Some tg' ->
  (forall x, In x tg' -> In x tg \/ (r_coll x = c /\ alive s (r_id x) = true)) /\
  (forall x, In x tg -> r_coll x <> c -> In x tg').
Proof.
  induction g as [|f g IH]; simpl; intros tg tg' H.
  - inversion H; subst; auto.
  - unfold assoc_row at 1 in H. destruct (alive s (f_id f)) eqn:A; [|discriminate].
    destruct (tag_upsert tg (ref_row c f)) as [tg1|] eqn:E; [|discriminate].
    apply tag_upsert_some in E. destruct E as [-> _]. destruct (IH _ _ H) as [I1 I2]. split.
    + intros x Hx. destruct (I1 x Hx) as [[<-|H1]|H1]; auto.
      apply filter_In in H1. tauto.
    + intros x Hx Hc. apply I2; auto. right. apply filter_In. split; auto.
      apply negb_true_iff. destruct (pk_eq (ref_row c f) x) eqn:P; auto.
      apply pk_eq_true in P. unfold pkey, ref_row in P; simpl in P. inversion P. congruence.
Qed.

Lemma assoc_groups_alive : forall s c refs ts tg st sg tg' st' sg',
  assoc_groups s c TAGGED refs ts (tg, st, sg) = inl (tg', st', sg') ->
  (forall x, In x tg' -> In x tg \/ (r_coll x = c /\ alive s (r_id x) = true)) /\
  (forall x, In x tg -> r_coll x <> c -> In x tg').
Proof.
  induction ts as [|t ts IH]; simpl; intros tg st sg tg' st' sg' H.
  - inversion H; subst; auto.
  - destruct (negb (has_type s t)); [discriminate|].
    destruct (fold_opt (assoc_row s c) tg (group refs t)) as [tg1|] eqn:E; [|discriminate].
    apply fold_assoc_row_alive in E. destruct E as [E1 E2]. destruct (IH _ _ _ _ _ _ H) as [I1 I2]. split.
    + intros x Hx. destruct (I1 x Hx) as [H1|H1]; auto.
    + intros x Hx Hc. apply I2; auto.
Qed.

Lemma disassoc_groups_keep : forall s c refs ts tg tg',
  disassoc_groups s c TAGGED refs ts tg = inl tg' -> forall x, In x tg -> r_coll x <> c -> In x tg'.
Proof.
  induction ts as [|t ts IH]; simpl; intros tg tg' H x Hx Hc.
  - inversion H; subst; auto.
  - destruct (negb (has_type s t)); [discriminate|].
    eapply IH; eauto. apply filter_In. split; auto. apply negb_true_iff, andb_false_iff. left. apply N.eqb_neq; auto.
Qed.

Lemma changed_J : forall s s', Changed s s' -> J s -> J s'.
Proof.
  intros s s' C [I [F [Ra Rb]]]. split; [eapply changed_ids; eauto|].
  destruct C.
  - split; [|split]; auto.
  - (* new collection *)
    assert (Hct : forall c', coll_type (St ((c, k) :: colls s) (dtypes s) (datasets s) (tags s) (summ_t s) (summ_g s)) c' =
                         if c =? c' then Some k else coll_type s c') by reflexivity.
    split; [|split].
    + intros r Hr. destruct (F r Hr) as [A B]. split; [exact A|]. rewrite Hct. destruct (c =? r_coll r); [discriminate|exact B].
    + intros x Hx. destruct (Ra x Hx) as [A B]. split; [|exact B]. rewrite Hct.
      destruct (c =? d_run x) eqn:E; [|exact A]. apply N.eqb_eq in E. subst. congruence.
    + intros r Hr. rewrite Hct. destruct (c =? r_coll r) eqn:E; [|apply Rb; auto].
      apply N.eqb_eq in E. subst. destruct (F r Hr) as [_ B]. contradiction.
  - split; [|split]; auto.
  - (* insert / import *)
    apply fold_ds_insert in H0. destruct H0 as [-> [_ Hnew]].
    apply fold_tag_insert in H1. destruct H1 as [-> _].
    assert (Hal : forall i, alive s i = true ->
              alive (St (colls s) (dtypes s) (rev (map (fun r => Ds (r_id r) (r_type r) c) rows) ++ datasets s)
                        (rev rows ++ tags s) (summ_add_rows c rows0 (summ_t s)) (summ_add_govs c rows0 (summ_g s))) i = true).
    { intros i A. apply alive_iff in A. apply alive_iff. simpl.
      destruct (ds_find (datasets s) i) as [y|] eqn:E; [|congruence].
      apply ds_find_some in E. destruct E as [E1 E2].
      eapply ds_find_in_some'; [apply in_or_app; right; exact E1 | exact E2]. }
    split; [|split].
    + intros r Hr. simpl in Hr. apply in_app_or in Hr. destruct Hr as [Hr|Hr].
      * apply in_rev in Hr. split.
        -- apply alive_iff. simpl. eapply ds_find_in_some' with (x := Ds (r_id r) (r_type r) c); [|reflexivity].
           apply in_or_app; left. apply in_rev. rewrite rev_involutive. apply in_map_iff. exists r; auto.
        -- rewrite (H2 r Hr). unfold coll_type in *. simpl. congruence.
      * destruct (F r Hr) as [A B]. split; [apply Hal; auto | exact B].
    + intros x Hx. simpl in Hx. apply in_app_or in Hx. destruct Hx as [Hx|Hx].
      * apply in_rev in Hx. apply in_map_iff in Hx. destruct Hx as [r [<- Hr]]. simpl. split; [exact H|].
        exists (r_data r). apply in_or_app; left. apply in_rev. rewrite rev_involutive.
        rewrite <- (H2 r Hr). rewrite row_eta. exact Hr.
      * destruct (Ra x Hx) as [A [d B]]. split; [exact A|]. exists d. simpl. apply in_or_app; right; exact B.
    + intros r Hr HR. simpl in Hr. apply in_app_or in Hr. simpl. destruct Hr as [Hr|Hr].
      * apply in_rev in Hr. apply in_or_app; left. apply in_rev. rewrite rev_involutive.
        apply in_map_iff. exists r. rewrite (H2 r Hr). auto.
      * apply in_or_app; right. apply Rb; auto.
  - (* associate *)
    apply assoc_groups_alive in H0. destruct H0 as [A1 A2]. split; [|split].
    + intros r Hr. simpl in Hr. destruct (A1 r Hr) as [H1|[H1 H2]]; [apply F; auto|].
      split; [exact H2|]. simpl. unfold coll_type in *. simpl. rewrite H1. congruence.
    + intros x Hx. destruct (Ra x Hx) as [A [d B]]. split; [exact A|]. exists d. simpl. apply A2; auto.
      simpl. intros E. rewrite E in A. congruence.
    + intros r Hr HR. simpl in *. destruct (A1 r Hr) as [H1|[H1 H2]]; [apply Rb; auto|].
      rewrite H1 in HR. unfold coll_type in *. simpl in HR. congruence.
  - (* disassociate *)
    split; [|split].
    + intros r Hr. simpl in Hr. apply (disassoc_groups_incl _ _ _ _ _ _ H0) in Hr. apply F; auto.
    + intros x Hx. destruct (Ra x Hx) as [A [d B]]. split; [exact A|]. exists d. simpl.
      eapply disassoc_groups_keep; eauto. simpl. intros E. rewrite E in A. congruence.
    + intros r Hr HR. simpl in *. apply (disassoc_groups_incl _ _ _ _ _ _ H0) in Hr. apply Rb; auto.
  - (* remove datasets *)
    split; [|split].
    + intros r Hr. simpl in Hr. apply filter_In in Hr. destruct Hr as [Hr Hm]. destruct (F r Hr) as [A B].
      split; [|exact B]. apply alive_iff in A. apply alive_iff. simpl.
      destruct (ds_find (datasets s) (r_id r)) as [y|] eqn:E; [|congruence]. apply ds_find_some in E. destruct E as [E1 E2].
      eapply ds_find_in_some'; [|exact E2]. apply filter_In. split; auto. rewrite E2. exact Hm.
    + intros x Hx. simpl in Hx. apply filter_In in Hx. destruct Hx as [Hx Hm]. destruct (Ra x Hx) as [A [d B]].
      split; [exact A|]. exists d. simpl. apply filter_In. split; auto.
    + intros r Hr HR. simpl in *. apply filter_In in Hr. destruct Hr as [Hr Hm]. apply filter_In. split; [apply Rb; auto|exact Hm].
  - (* remove collection *)
    assert (Hct : forall c', coll_type (St (filter (fun p => negb (fst p =? c)) (colls s)) (dtypes s)
                  (filter (fun x => negb (d_run x =? c)) (datasets s))
                  (filter (fun x => negb ((r_coll x =? c) ||
                     match ds_find (datasets s) (r_id x) with Some y => d_run y =? c | None => false end)) (tags s))
                  (filter (fun p => negb (fst p =? c)) (summ_t s))
                  (filter (fun p => negb (fst p =? c)) (summ_g s))) c' = if c' =? c then None else coll_type s c').
    { intros c'. unfold coll_type. simpl. apply coll_type_in_filter. }
    split; [|split].
    + intros r Hr. simpl in Hr. apply filter_In in Hr. destruct Hr as [Hr Hm].
      apply negb_true_iff, orb_false_iff in Hm. destruct Hm as [M1 M2]. destruct (F r Hr) as [A B]. split.
      * apply alive_iff in A. apply alive_iff. simpl.
        destruct (ds_find (datasets s) (r_id r)) as [y|] eqn:E; [|congruence]. apply ds_find_some in E. destruct E as [E1 E2].
        eapply ds_find_in_some'; [|exact E2]. apply filter_In. split; auto. rewrite M2. reflexivity.
      * rewrite Hct. simpl. rewrite M1. exact B.
    + intros x Hx. simpl in Hx. apply filter_In in Hx. destruct Hx as [Hx Hm]. destruct (Ra x Hx) as [A [d B]].
      apply negb_true_iff in Hm. split.
      * rewrite Hct. rewrite Hm. exact A.
      * exists d. simpl. apply filter_In. split; auto. simpl. rewrite Hm. simpl.
        rewrite (ds_find_in _ _ I Hx). rewrite Hm. reflexivity.
    + intros r Hr HR. simpl in Hr. apply filter_In in Hr. destruct Hr as [Hr Hm].
      apply negb_true_iff, orb_false_iff in Hm. destruct Hm as [M1 M2]. rewrite Hct in HR. simpl in HR. rewrite M1 in HR.
      simpl. apply filter_In. split; [apply Rb; auto|]. simpl. rewrite M1. reflexivity.
Qed.

Lemma J_run : forall h, J (run h).
Proof.
  apply reach_ind.
  - split; [constructor|]. split; [intros r []|]. split; [intros x []|intros r []].
  - intros; eapply changed_J; eauto using step_changed.
Qed.

(* every row of a RUN collection belongs to a dataset whose run it is, and every dataset sits in its run *)
Lemma run_membership_p : forall h c i,
  coll_type (run h) c = Some RUN ->
  ((exists t d, In (Row c t d i) (tags (run h))) <-> run_of (run h) i = Some c).
Proof.
  intros h c i HR. destruct (J_run h) as [I [F [Ra Rb]]]. split.
  - intros [t [d H]]. specialize (Rb _ H HR). simpl in Rb. unfold run_of.
    pose proof (ds_find_in _ _ I Rb) as Q. simpl in Q. rewrite Q. reflexivity.
  - unfold run_of. destruct (ds_find (datasets (run h)) i) as [x|] eqn:E; [|discriminate].
    simpl. intros Hx. inversion Hx; subst. apply ds_find_some in E. destruct E as [E1 E2]. subst.
    destruct (Ra x E1) as [_ [d B]]. eauto.
Qed.

(* foreign keys: every tag row refers to a live dataset and an existing collection *)
Lemma tags_refer_to_live_p : forall h r, In r (tags (run h)) ->
  alive (run h) (r_id r) = true /\ coll_type (run h) (r_coll r) <> None.
Proof. intros h r H. destruct (J_run h) as [_ [F _]]. auto. Qed.

(* ---- the abstract map (collection, type, data id) -> dataset is well defined -------------------------- *)
Lemma find_spec_p : forall h c t d i,
  find (run h) c t d = Some i <-> In (Row c t d i) (tags (run h)).
Proof.
  intros h c t d i. unfold find.
  set (p := fun x => (r_coll x =? c) && (r_type x =? t) && (r_data x =? d)).
  assert (Hp : forall x, p x = true <-> r_coll x = c /\ r_type x = t /\ r_data x = d).
  { intros x. unfold p. rewrite !andb_true_iff, !N.eqb_eq. tauto. }
  split.
  - destruct (filter p (tags (run h))) as [|x l] eqn:E; [discriminate|]. intros H. inversion H; subst.
    assert (In x (filter p (tags (run h)))) as Hx by (rewrite E; left; reflexivity).
    apply filter_In in Hx. destruct Hx as [Hx Hk]. apply Hp in Hk. destruct Hk as [<- [<- <-]].
    rewrite row_eta. exact Hx.
  - intros H. assert (In (Row c t d i) (filter p (tags (run h)))) as Hf.
    { apply filter_In. split; auto. apply Hp. simpl. auto. }
    destruct (filter p (tags (run h))) as [|x l] eqn:E; [contradiction|].
    assert (In x (filter p (tags (run h)))) as Hx by (rewrite E; left; reflexivity).
    apply filter_In in Hx. destruct Hx as [Hx Hk]. apply Hp in Hk. destruct Hk as [K1 [K2 K3]].
    f_equal. eapply one_dataset_per_key_p; [|exact H]. rewrite <- K1, <- K2, <- K3, row_eta. exact Hx.
Qed.
