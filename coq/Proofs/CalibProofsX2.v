(* C04 extension, part 2: search paths with CHAINED and RUN collections, queryDatasetAssociations as a view of the
   same interval map, and the refutation of the early-exit loop (seed C04b). *)
From Coq Require Import ZArith NArith List Bool Lia Permutation.
From V Require Import Base.Tri Gen.TimespanGen Model.Timespan Proofs.TimespanProofs Model.Calib Proofs.CalibProofs
  Model.CalibPath Proofs.CalibProofsX1.
Import ListNotations.
Open Scope N_scope.

(* ---------- first-occurrence dedup of the flattened path is unobservable ---------- *)
Lemma first_rows_dedup rows ty d q : forall p seen,
  (forall c, In c seen -> coll_rows rows c ty d q = []) ->
  first_rows rows (dedup seen p) ty d q = first_rows rows p ty d q.
Proof.
  induction p as [|c p IH]; intros seen Hs; [reflexivity|]. cbn [dedup first_rows].
  destruct (memN c seen) eqn:E.
  - apply memN_In in E. rewrite (Hs c E). apply IH, Hs.
  - cbn [first_rows]. destruct (coll_rows rows c ty d q) eqn:Ec; [|reflexivity].
    apply IH. intros c' [<-|H]; [exact Ec|apply Hs, H].
Qed.

Lemma xlookup_first_wins_p fuel e s path p ty d q : flatten fuel (e_chains e) path = Some p ->
  xlookup fuel e s path ty d q = Some (first_rows (all_rows e s) p ty d q).
Proof.
  intros H. unfold xlookup. rewrite H. f_equal. rewrite lookup_rows_first_wins_p.
  apply first_rows_dedup. intros c [].
Qed.

(* ---------- what a collection contributes: RUN rows + calibration rows ---------- *)
Lemma coll_rows_all e s c ty d q :
  coll_rows (all_rows e s) c ty d q = coll_rows (run_rows e s) c ty d q ++ overlapping s c ty d q.
Proof. unfold coll_rows, all_rows, overlapping. apply filter_app. Qed.

Definition not_a_run (e : penv) (c : N) : Prop := forall x, In x (e_runs e) -> fst x <> c.

Lemma run_rows_other e s c ty d q : not_a_run e c -> coll_rows (run_rows e s) c ty d q = [].
Proof.
  intros H. unfold coll_rows. apply filter_nil_all. intros r Hr. unfold run_rows in Hr.
  apply in_flat_map in Hr as (x & Hx & Hr). destruct (memN (f_ds (snd x)) (dsets s)); [|contradiction].
  destruct Hr as [<-|[]]. unfold key_match. cbn [r_coll]. specialize (H x Hx). apply N.eqb_neq in H. rewrite H. reflexivity.
Qed.

(* a path (after flattening) made of calibration collections only: the plain ordered lookup *)
Lemma first_rows_calib_only e s ty d q : forall p, Forall (not_a_run e) p ->
  first_rows (all_rows e s) p ty d q = lookup_first s p ty d q.
Proof.
  induction p as [|c p IH]; intros H; [reflexivity|]. inversion H; subst. cbn [first_rows lookup_first].
  rewrite coll_rows_all, run_rows_other by assumption. cbn [app]. rewrite (IH H3).
  rewrite lookup_span_rows. unfold overlapping, coll_rows.
  destruct (filter (fun r => key_match c ty d r && py_overlaps (r_ts r) q) (calibs s)) as [|a [|b l]]; reflexivity.
Qed.

Lemma xlookup_calibration_chain_p fuel e s path p ty d q :
  flatten fuel (e_chains e) path = Some p -> Forall (not_a_run e) p ->
  xlookup fuel e s path ty d q = Some (lookup_first s p ty d q).
Proof. intros H1 H2. rewrite (xlookup_first_wins_p fuel e s path p ty d q H1). f_equal. apply first_rows_calib_only, H2. Qed.

(* the row of a RUN member overlaps every probe that has an instant, and no other *)
Lemma run_row_overlaps q : wf q -> (py_overlaps (GEN_MIN, GEN_MAX) q = true <-> exists x, mem x q).
Proof.
  intros Hq. split.
  - intros H. unfold py_overlaps in H. exists (fst q). unfold mem.
    destruct Hq as [(H1 & H2 & H3) | -> ]; cbn [fst snd] in *; unfold GEN_MIN, GEN_MAX in *; lia.
  - intros (x & Hx). unfold py_overlaps. unfold mem in Hx.
    destruct Hq as [(H1 & H2 & H3) | -> ]; cbn [fst snd] in *; unfold GEN_MIN, GEN_MAX in *; lia.
Qed.

Lemma run_member_rows e s c ty d q r : In r (coll_rows (run_rows e s) c ty d q) <->
  exists f, In (c, f) (e_runs e) /\ memN (f_ds f) (dsets s) = true /\ f_ty f = ty /\ f_did f = d /\
            py_overlaps (GEN_MIN, GEN_MAX) q = true /\ r = mkRow c ty d (f_ds f) (GEN_MIN, GEN_MAX).
Proof.
  unfold coll_rows. rewrite filter_In. unfold run_rows. rewrite in_flat_map. split.
  - intros ((x & Hx & Hr) & Hk). destruct (memN (f_ds (snd x)) (dsets s)) eqn:El; [|contradiction].
    destruct Hr as [<-|[]]. unfold key_match in Hk. cbn [r_coll r_ty r_did r_ts] in Hk.
    apply andb_true_iff in Hk as [Hk H4]. apply andb_true_iff in Hk as [Hk H3]. apply andb_true_iff in Hk as [H1 H2].
    apply N.eqb_eq in H1, H2, H3. exists (snd x). destruct x as [c0 f]. cbn [fst snd] in *. subst.
    repeat split; assumption.
  - intros (f & Hf & Hl & <- & <- & Ho & ->). split.
    + exists (c, f). split; [exact Hf|]. cbn [fst snd]. rewrite Hl. left. reflexivity.
    + unfold key_match. cbn [r_coll r_ty r_did r_ts]. rewrite !N.eqb_refl, Ho. reflexivity.
Qed.

(* ---------- flattening ---------- *)
Lemma flatten_plain f ch path : (forall c, In c path -> lookup c ch = None) -> flatten (S f) ch path = Some path.
Proof.
  induction path as [|c p IH]; intros H; [reflexivity|].
  cbn [flatten fold_right] in *. rewrite IH by (intros c' Hc'; apply H; right; exact Hc').
  rewrite (H c (or_introl eq_refl)). reflexivity.
Qed.

Lemma flatten_app f ch p1 p2 : flatten (S f) ch (p1 ++ p2) =
  match flatten (S f) ch p2 with
  | None => None
  | Some r2 => match flatten (S f) ch p1 with None => None | Some r1 => Some (r1 ++ r2) end
  end.
Proof.
  cbn [flatten]. induction p1 as [|c p IH]; cbn [app fold_right].
  - destruct (fold_right _ (Some []) p2); reflexivity.
  - rewrite IH. destruct (fold_right _ (Some []) p2) as [r2|]; [|reflexivity].
    destruct (fold_right _ (Some []) p) as [r1|]; [|reflexivity].
    destruct (lookup c ch) as [kids|]; [|reflexivity].
    destruct (flatten f ch kids) as [k|]; [|reflexivity]. rewrite app_assoc. reflexivity.
Qed.

Lemma flatten_chain f ch c kids rest k r : lookup c ch = Some kids ->
  flatten f ch kids = Some k -> flatten (S f) ch rest = Some r -> flatten (S f) ch (c :: rest) = Some (k ++ r).
Proof.
  intros H1 H2 H3. cbn [flatten fold_right] in *. rewrite H3, H1, H2. reflexivity.
Qed.

(* a chain in the path is searched exactly as if its (flattened) children were written in its place *)
Lemma xlookup_chain_inline_p f e s pre c kids post p1 k p2 ty d q :
  lookup c (e_chains e) = Some kids -> flatten f (e_chains e) kids = Some k ->
  flatten (S f) (e_chains e) pre = Some p1 -> flatten (S f) (e_chains e) post = Some p2 ->
  xlookup (S f) e s (pre ++ c :: post) ty d q = Some (first_rows (all_rows e s) (p1 ++ k ++ p2) ty d q).
Proof.
  intros Hc Hk H1 H2. apply xlookup_first_wins_p.
  rewrite flatten_app, (flatten_chain f _ c kids post k p2 Hc Hk H2), H1. reflexivity.
Qed.

(* ---------- queryDatasetAssociations: lookups and validity are views of the rows it reports ---------- *)
Lemma filter_filter {A} (f g : A -> bool) l : filter f (filter g l) = filter (fun x => g x && f x) l.
Proof. induction l as [|a l IH]; cbn; [reflexivity|]. destruct (g a); cbn; [destruct (f a)|]; rewrite IH; reflexivity. Qed.

Lemma valid_at_assoc_p s c ty d x :
  valid_at s c ty d x = map r_ds (filter (fun r => (r_did r =? d) && memb x (r_ts r)) (associations s [c] ty)).
Proof.
  unfold valid_at, associations. rewrite filter_filter. f_equal. apply filter_ext. intros r.
  unfold key_match, memN. cbn [existsb]. rewrite orb_false_r.
  destruct (r_coll r =? c), (r_ty r =? ty), (r_did r =? d), (memb x (r_ts r)); reflexivity.
Qed.

Lemma overlapping_assoc_p s c ty d q :
  overlapping s c ty d q = filter (fun r => (r_did r =? d) && py_overlaps (r_ts r) q) (associations s [c] ty).
Proof.
  unfold overlapping, associations. rewrite filter_filter. apply filter_ext. intros r.
  unfold key_match, memN. cbn [existsb]. rewrite orb_false_r.
  destruct (r_coll r =? c), (r_ty r =? ty), (r_did r =? d), (py_overlaps (r_ts r) q); reflexivity.
Qed.

Lemma assoc_in s cs ty r : In r (associations s cs ty) <-> In r (calibs s) /\ In (r_coll r) cs /\ r_ty r = ty.
Proof.
  unfold associations. rewrite filter_In, andb_true_iff, memN_In, N.eqb_eq. tauto.
Qed.

(* ---------- UNION (SELECT DISTINCT) of the tags and calibs subqueries removes nothing on a reachable state ---------- *)
Lemma overlap_nonempty a q : wf a -> wf q -> py_overlaps a q = true -> mem (fst a) a.
Proof.
  intros Ha Hq H. apply (overlaps_spec_p a q Ha Hq) in H as (x & Hx & _). unfold mem in *. lia.
Qed.

Lemma nodup_filter_rows (f : crow -> bool) (l : list crow) :
  (forall l1 r l2 l3, l = l1 ++ r :: l2 ++ r :: l3 -> f r = true -> False) -> NoDup (filter f l).
Proof.
  induction l as [|a l IH]; intros H; cbn; [constructor|].
  assert (IHl : NoDup (filter f l)).
  { apply IH. intros l1 r l2 l3 E Hr. apply (H (a :: l1) r l2 l3); [rewrite E; reflexivity|exact Hr]. }
  destruct (f a) eqn:Ea; [|exact IHl]. constructor; [|exact IHl].
  intros Hin. apply filter_In in Hin as [Hin _]. apply in_split in Hin as (l2 & l3 & ->).
  apply (H [] a l2 l3); [reflexivity|exact Ea].
Qed.

Lemma overlapping_nodup_p s c ty d q : Inv s -> wf q -> NoDup (overlapping s c ty d q).
Proof.
  intros Hi Hq. unfold overlapping. apply nodup_filter_rows. intros l1 r l2 l3 E Hr.
  apply andb_true_iff in Hr as [_ Ho].
  assert (Hw : wf (r_ts r)).
  { destruct Hi as [Hwf _]. unfold rows_wf in Hwf. rewrite Forall_forall in Hwf. apply Hwf. rewrite E.
    apply in_or_app. right. left. reflexivity. }
  pose proof (overlap_nonempty _ _ Hw Hq Ho) as Hm.
  exact (inv_pairwise_p s Hi l1 r l2 r l3 (fst (r_ts r)) E eq_refl eq_refl eq_refl Hm Hm).
Qed.
