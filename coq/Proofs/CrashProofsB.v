(* C08 lemmas, part B: bystanders are untouched at every crash point (frame property of plans); insertions are
   all-or-nothing; emptyTrash completes what still has records; the refutation witnesses. *)
From Coq Require Import NArith PeanoNat List Bool Lia.
From V Require Import Model.Crash Proofs.CrashProofsA.
Import ListNotations.
Open Scope N_scope.

(* ------------------------------------------------------------------ frames *)
Definition stmt_touches (d : N) (q : stmt) : bool :=
  match q with
  | InsDataset l | InsLocation l | InsRecords l | DelLocation l | InsTrash l | DelDataset l | DelRecords l | DelTrash l => mem d l
  | DelRun r => run_of d =? r
  end.

Definition frames (d : N) (t : step) : Prop :=
  match t with
  | SqlStmt q => stmt_touches d q = false
  | FsWriteTmp f _ => f <> Final d
  | FsRename a b => a <> Final d /\ b <> Final d
  | FsDelete f => f <> Final d
  | _ => True
  end.

Definition db_agree (d : N) (a b : db) : Prop :=
  mem d (d_ds b) = mem d (d_ds a) /\ mem d (d_loc b) = mem d (d_loc a) /\
  mem d (d_trash b) = mem d (d_trash a) /\ mem d (d_recs b) = mem d (d_recs a).

Definition R (d : N) (s0 x : state) : Prop :=
  db_agree d (cdb s0) (cdb x) /\ (forall o, ovl x = Some o -> db_agree d (cdb s0) o)
  /\ fget (Final d) (fs x) = fget (Final d) (fs s0).

Lemma apply_stmt_agree : forall d q a b, stmt_touches d q = false -> db_agree d a b -> db_agree d a (apply_stmt q b).
Proof.
  intros d q a b T H. unfold db_agree in *. destruct H as (A1 & A2 & A3 & A4).
  destruct q; simpl in T; simpl;
    rewrite ?mem_addl, ?mem_reml, ?mem_filter, ?T; simpl; rewrite ?andb_true_r; auto.
Qed.

Lemma frames_step : forall d s0 x t, R d s0 x -> frames d t -> R d s0 (do_step x t).
Proof.
  intros d s0 x t H F. destruct H as (A & B & C).
  assert (NS : forall f : fname, f <> Final d -> Final d <> f) by (intros f N E; apply N; symmetry; exact E).
  destruct t; simpl in F; cbn [do_step].
  - destruct (ovl x) eqn:O.
    + split; [exact A | split; [intros o' E'; first [apply B; congruence | congruence] | exact C]].
    + split; [exact A|]. split; [|exact C]. cbn. intros o E. inversion E; subst. exact A.
  - destruct (ovl x) as [o|] eqn:O.
    + split; [exact A|]. split; [|exact C]. cbn. intros o' E. inversion E; subst.
      apply apply_stmt_agree; [exact F | apply B; reflexivity].
    + split; [cbn; apply apply_stmt_agree; [exact F | exact A]|]. split; [cbn; intros o E; discriminate | exact C].
  - destruct (ovl x) as [o|] eqn:O.
    + split; [cbn; apply B; reflexivity|]. split; [cbn; intros o' E; discriminate | exact C].
    + split; [exact A | split; [intros o' E'; first [apply B; congruence | congruence] | exact C]].
  - split; [exact A|]. split; [exact B|]. cbn [fs]. rewrite fget_fset_other by (apply NS, F). exact C.
  - destruct F as [F1 F2]. destruct (fget src (fs x)) eqn:E.
    + split; [exact A|]. split; [exact B|]. cbn [fs].
      rewrite fget_fset_other by (apply NS, F2). rewrite fget_fdel_other by (apply NS, F1). exact C.
    + split; [exact A | split; [intros o' E'; first [apply B; congruence | congruence] | exact C]].
  - split; [exact A|]. split; [exact B|]. cbn [fs]. rewrite fget_fdel_other by (apply NS, F). exact C.
Qed.

Lemma R_refl : forall d s, ovl s = None -> R d s s.
Proof. intros d s O. unfold R, db_agree. split; [repeat split; reflexivity|]. split; [intros o9 E9; congruence | reflexivity]. Qed.

Lemma frames_always : forall d s p, ovl s = None -> Forall (frames d) p -> always (R d s) s p.
Proof.
  intros d s p O F. apply (always_steps (R d s) (frames d)); auto.
  - intros x t Hx Ht. apply frames_step; auto.
  - apply R_refl, O.
Qed.

(* --- every plan frames every id that is neither a target nor already marked for deletion *)
Lemma Final_neq : forall a b, a <> b -> Final a <> Final b.
Proof. intros a b N E. inversion E. contradiction. Qed.

Lemma frames_write_artifact : forall d t x v p, x <> d -> Forall (frames d) p -> Forall (frames d) (write_artifact t x v ++ p).
Proof.
  intros. unfold write_artifact. simpl. repeat constructor; simpl; try discriminate; auto.
  apply Final_neq. auto.
Qed.

Lemma frames_write_all : forall d value l t p, mem d l = false -> Forall (frames d) p -> Forall (frames d) (write_all t value l ++ p).
Proof.
  induction l as [|x r IH]; intros t p M F; [exact F|].
  simpl in M. destruct (N.eqb_spec d x) as [->|N]; [discriminate|].
  cbn [write_all]. rewrite <- app_assoc. apply frames_write_artifact; auto.
Qed.

Lemma frames_deletes : forall d rows p, mem d rows = false -> Forall (frames d) p ->
  Forall (frames d) (map (fun x => FsDelete (Final x)) rows ++ p).
Proof.
  induction rows as [|x r IH]; intros p M F; simpl; auto.
  simpl in M. destruct (N.eqb_spec d x) as [->|N]; [discriminate|].
  constructor; [simpl; apply Final_neq; auto | apply IH; auto].
Qed.

Lemma frames_plan_empty : forall d b ord, mem d (d_trash b) = false -> Forall (frames d) (plan_empty b ord).
Proof.
  intros d b ord M. unfold plan_empty.
  assert (MR : mem d (order_by ord (inter (d_trash b) (d_recs b))) = false)
    by (rewrite mem_order_by, mem_inter, M; reflexivity).
  destruct (order_by ord (inter (d_trash b) (d_recs b))) as [|x r] eqn:E; [constructor|].
  apply frames_deletes; [exact MR|]. repeat constructor; simpl; exact MR.
Qed.

Lemma frames_plan : forall s o d, is_target s o d = false -> mem d (d_trash (cdb s)) = false -> Forall (frames d) (plan s o).
Proof.
  intros s o d T M. unfold plan. destruct o; simpl in T; simpl.
  - destruct (insert_ok (cdb s) [d0]); [|constructor]. cbn [fst snd].
    apply N.eqb_neq in T.
    constructor; [exact I|]. constructor; [simpl; rewrite (proj2 (N.eqb_neq d d0) T); reflexivity|].
    apply frames_write_artifact; [auto|]. repeat constructor; simpl; rewrite (proj2 (N.eqb_neq d d0) T); reflexivity.
  - apply N.eqb_neq in T. destruct (fget (Ext d0) (fs s)) as [[|v]|]; try constructor.
    destruct (insert_ok (cdb s) [d0]); [|constructor]. cbn [fst snd].
    constructor; [exact I|]. constructor; [simpl; rewrite (proj2 (N.eqb_neq d d0) T); reflexivity|].
    apply frames_write_artifact; [auto|]. repeat constructor; simpl; rewrite (proj2 (N.eqb_neq d d0) T); reflexivity.
  - apply N.eqb_neq in T. destruct (fget (Ext d0) (fs s)) as [[|v]|]; try constructor.
    destruct (insert_ok (cdb s) [d0]); [|constructor]. cbn [fst snd].
    repeat constructor; simpl; try discriminate; try (rewrite (proj2 (N.eqb_neq d d0) T); reflexivity).
    apply Final_neq; auto.
  - destruct l as [|x r]; [constructor|].
    destruct (insert_ok (cdb s) (x :: r)); [|constructor]. cbn [fst snd].
    change ([SqlBegin; SqlStmt (InsDataset (x :: r))] ++ write_all (next_tmp (fs s)) src_value (x :: r) ++
       [SqlStmt (InsLocation (x :: r)); SqlStmt (InsRecords (x :: r)); SqlCommit])
      with (SqlBegin :: SqlStmt (InsDataset (x :: r)) :: (write_all (next_tmp (fs s)) src_value (x :: r) ++
       [SqlStmt (InsLocation (x :: r)); SqlStmt (InsRecords (x :: r)); SqlCommit])).
    constructor; [exact I|]. constructor; [exact T|].
    apply frames_write_all; [exact T|]. repeat constructor; exact T.
  - (* Prune *)
    assert (T1 : mem d (inter l (d_ds (cdb s))) = false) by (rewrite mem_inter, T; reflexivity).
    destruct (inter l (d_ds (cdb s))) as [|x r] eqn:E; cbn [fst snd].
    + simpl. apply frames_plan_empty, M.
    + assert (T2 : mem d (inter (x :: r) (d_loc (cdb s))) = false) by (rewrite mem_inter, T1; reflexivity).
      apply Forall_app. split.
      * repeat constructor; simpl; auto.
      * apply frames_plan_empty. cbn [fold_left apply_stmt d_trash d_ds d_loc d_recs d_runs]. rewrite mem_addl, T2, M. reflexivity.
  - (* Unstore *)
    assert (T2 : mem d (inter (inter l (d_ds (cdb s))) (d_loc (cdb s))) = false) by (rewrite !mem_inter, T; reflexivity).
    destruct (inter (inter l (d_ds (cdb s))) (d_loc (cdb s))) as [|x r] eqn:E; cbn [fst snd].
    + simpl. apply frames_plan_empty, M.
    + apply Forall_app. split.
      * repeat constructor; simpl; auto.
      * apply frames_plan_empty. cbn [fold_left apply_stmt d_trash d_ds d_loc d_recs d_runs]. rewrite mem_addl, T2, M. reflexivity.
  - (* Trash *)
    assert (T2 : mem d (inter (inter l (d_ds (cdb s))) (d_loc (cdb s))) = false) by (rewrite !mem_inter, T; reflexivity).
    destruct (inter (inter l (d_ds (cdb s))) (d_loc (cdb s))) as [|x r0] eqn:E; cbn [fst snd]; [constructor|].
    repeat constructor; simpl; auto.
  - (* RemoveRuns *)
    destruct (mem r (d_runs (cdb s))); cbn [fst snd]; [|constructor].
    assert (T2 : mem d (inter (filter (fun x => run_of x =? r) (d_ds (cdb s))) (d_loc (cdb s))) = false)
      by (rewrite mem_inter, mem_filter, T, andb_false_r; reflexivity).
    apply Forall_app. split.
    + repeat constructor; simpl; auto.
    + apply frames_plan_empty. cbn [fold_left apply_stmt d_trash d_ds d_loc d_recs d_runs]. rewrite mem_addl, T2, M. reflexivity.
  - simpl. apply frames_plan_empty, M.
Qed.

(* THEOREM material: a dataset that is not a target (and was not already marked for deletion) is reported identically
   after a crash at ANY point of ANY operation from ANY recovered state *)
Lemma bystander_intact_l : forall s o k d,
  ovl s = None -> is_target s o d = false -> mem d (d_trash (cdb s)) = false ->
  let s' := crash s (plan s o) k in
  get s' d = get s d /\ recorded s' d = recorded s d /\ knows s' d = knows s d /\ artifact s' d = artifact s d
  /\ mem d (d_loc (cdb s')) = mem d (d_loc (cdb s)) /\ fget (Final d) (fs s') = fget (Final d) (fs s).
Proof.
  intros s o k d O T M s'.
  pose proof (frames_always d s (plan s o) O (frames_plan s o d T M) k) as ((A1 & A2 & A3 & A4) & _ & C).
  unfold s', crash, get, recorded, artifact, knows, recover. cbn [cdb fs ovl].
  rewrite A1, A2, A4, C. repeat split; reflexivity.
Qed.

(* ------------------------------------------------------------------ insertions are all-or-nothing *)
Definition rows_absent (s : state) (d : N) : Prop :=
  recorded s d = false /\ mem d (d_loc (cdb s)) = false /\ knows s d = false.
Definition fully_present (s : state) (d v : N) : Prop :=
  recorded s d = true /\ mem d (d_loc (cdb s)) = true /\ knows s d = true /\ fget (Final d) (fs s) = Some (Complete v).
Definition fresh_id (s : state) (d : N) : Prop :=
  mem d (d_loc (cdb s)) = false /\ mem d (d_recs (cdb s)) = false.

Lemma insert_ok_absent : forall b l d, insert_ok b l = true -> mem d l = true -> mem d (d_ds b) = false.
Proof.
  intros b l d H M. unfold insert_ok in H. apply andb_prop in H. destruct H as [_ H].
  rewrite forallb_forall in H. apply mem_In in M. specialize (H d M). apply andb_prop in H.
  destruct H as [_ H]. destruct (mem d (d_ds b)); [discriminate | reflexivity].
Qed.

(* the shape shared by all insertion plans *)
Lemma insertion_shape : forall s o, is_insert o = true ->
  plan s o = [] \/ exists l body, plan s o = SqlBegin :: body ++ [SqlCommit] /\ no_marker body
      /\ stmts_of body = [InsDataset l; InsLocation l; InsRecords l]
      /\ insert_ok (cdb s) l = true /\ (forall d, is_target s o d = mem d l).
Proof.
  intros s o I. unfold plan. destruct o; try discriminate; simpl.
  - destruct (insert_ok (cdb s) [d]) eqn:E; [|left; reflexivity]. right.
    exists [d], ([SqlStmt (InsDataset [d])] ++ write_artifact (next_tmp (fs s)) d v ++ [SqlStmt (InsLocation [d]); SqlStmt (InsRecords [d])]).
    split; [reflexivity|]. split; [repeat constructor|]. split; [reflexivity|]. split; [exact E|].
    intros x. simpl. destruct (x =? d); reflexivity.
  - destruct (fget (Ext d) (fs s)) as [[|v]|]; try (left; reflexivity).
    destruct (insert_ok (cdb s) [d]) eqn:E; [|left; reflexivity]. right.
    exists [d], ([SqlStmt (InsDataset [d])] ++ write_artifact (next_tmp (fs s)) d v ++ [SqlStmt (InsLocation [d]); SqlStmt (InsRecords [d])]).
    split; [reflexivity|]. split; [repeat constructor|]. split; [reflexivity|]. split; [exact E|].
    intros x. simpl. destruct (x =? d); reflexivity.
  - destruct (fget (Ext d) (fs s)) as [[|v]|]; try (left; reflexivity).
    destruct (insert_ok (cdb s) [d]) eqn:E; [|left; reflexivity]. right.
    exists [d], [SqlStmt (InsDataset [d]); FsRename (Ext d) (Final d); SqlStmt (InsLocation [d]); SqlStmt (InsRecords [d])].
    split; [reflexivity|]. split; [repeat constructor|]. split; [reflexivity|]. split; [exact E|].
    intros x. simpl. destruct (x =? d); reflexivity.
  - destruct l as [|x r]; [left; reflexivity|].
    destruct (insert_ok (cdb s) (x :: r)) eqn:E; [|left; reflexivity]. right.
    exists (x :: r), ([SqlStmt (InsDataset (x :: r))] ++ write_all (next_tmp (fs s)) src_value (x :: r)
                      ++ [SqlStmt (InsLocation (x :: r)); SqlStmt (InsRecords (x :: r))]).
    split; [cbn [fst snd]; rewrite <- !app_assoc; reflexivity|].
    split.
    { apply Forall_app. split; [repeat constructor|]. apply Forall_app. split; [|repeat constructor].
      generalize (next_tmp (fs s)). generalize (x :: r). induction l as [|y q IH]; intros t; simpl; [constructor|].
      repeat constructor. apply IH. }
    split.
    { unfold stmts_of. rewrite !flat_map_app. simpl.
      assert (Z : forall l t, flat_map (fun t0 => match t0 with SqlStmt q => [q] | _ => [] end) (write_all t src_value l) = []).
      { induction l as [|y q IH]; intros t; simpl; auto. }
      rewrite Z. reflexivity. }
    split; [exact E | reflexivity].
Qed.

Lemma insertion_rows_atomic_l : forall s o k d,
  ovl s = None -> is_insert o = true -> is_target s o d = true -> fresh_id s d ->
  let s' := crash s (plan s o) k in
  plan s o = [] \/ rows_absent s' d
  \/ (recorded s' d = true /\ mem d (d_loc (cdb s')) = true /\ knows s' d = true
      /\ s' = recover (run_steps s (plan s o))).
Proof.
  intros s o k d O I T (F1 & F2) s'.
  destruct (insertion_shape s o I) as [E | (l & body & E & NM & ST & OK & TG)]; [left; exact E | right].
  rewrite TG in T. pose proof (insert_ok_absent _ _ _ OK T) as AB.
  unfold s'. rewrite E. unfold crash.
  destruct (Nat.le_gt_cases k (S (length body))) as [L|L].
  - left. unfold rows_absent, recorded, knows, recover. simpl.
    rewrite (txn_block_cdb_prefix body s k NM O L). auto.
  - right. rewrite firstn_all2 by (simpl; rewrite app_length; simpl; lia).
    destruct (txn_block_end body s NM O) as [C _].
    unfold recorded, knows, recover. cbn [cdb fs ovl]. rewrite C, ST. unfold apply_all.
    cbn [fold_left apply_stmt d_ds d_loc d_recs d_trash d_runs].
    rewrite !mem_addl, T. repeat split; reflexivity.
Qed.
