(* C09 (extension 2): put as coded (formatter location / re-read record text), the guard clauses (4) and (5) are
   necessary on the code as it is -- witnesses replayed on the real Butler (corpus/C09 10, 11, 12). *)
From Coq Require Import String Ascii List Bool NArith Lia.
From V Require Import Model.Template Gen.TemplateGen Model.Trash Proofs.TrashProofs Proofs.TrashProofs2 Proofs.TrashProofs3
                      Proofs.TrashProofsX1.
Import ListNotations.
Open Scope string_scope.

(* ---- the formatter's own location is inside the root as well ------------------------------------------------------- *)
Lemma hd_app_nonempty : forall (a b : list string), a <> [] -> hd "" (a ++ b)%list = hd "" a.
Proof. intros a b H. destruct a; [contradiction | reflexivity]. Qed.

Lemma plain_not_dotdot : forall c, plain_comp c = true -> String.eqb c ".." = false.
Proof.
  intros c H. unfold plain_comp in H. apply andb_true_iff in H. destruct H as [_ H]. apply negb_true_iff in H. exact H.
Qed.

Lemma ext_last_inside : forall l ext, good_ext ext = true -> l <> [] -> inside l = true -> inside (ext_last l ext) = true.
Proof.
  intros l ext Hg Hne Hi. unfold ext_last.
  destruct (rev l) as [|c r] eqn:E.
  - exfalso. apply Hne. rewrite <- (rev_involutive l). rewrite E. reflexivity.
  - assert (El : l = (rev r ++ [c])%list) by (rewrite <- (rev_involutive l); rewrite E; reflexivity).
    unfold inside in *. destruct (rev r) as [|x y] eqn:Er.
    + simpl. rewrite (plain_not_dotdot _ (plain_with_ext (before_last "."%char c) ext Hg)). reflexivity.
    + rewrite El in Hi. exact Hi.
Qed.

Lemma formatter_writes_inside_p : forall p ext,
  good_ext ext = true -> rel_loc (stage_a p) <> [] -> checked true p = true -> inside (write_loc p ext) = true.
Proof.
  intros p ext Hg Hne Hc. unfold write_loc. apply ext_last_inside; [exact Hg | exact Hne |].
  unfold checked in Hc. simpl in Hc. exact Hc.
Qed.

(* a put that is not refused and whose guards hold stores the file exactly at the location its record names *)
Lemma put_coherent_stores_p : forall s id p ext c,
  refuse_w true true p = false -> held_any s [id] = false -> inside (target_loc p ext) = true ->
  put_coherent (Put id (FOk p) ext c) = true ->
  let s' := fst (step s (Put id (FOk p) ext c)) in
  snd (step s (Put id (FOk p) ext c)) = Done
  /\ fget (fs s') (target_loc p ext) = Some c
  /\ recs s' = (id, stage_a (strip_frag (join_slash (target_loc p ext)))) :: recs s.
Proof.
  intros s id p ext c Hr Hh Hi Hpc. simpl in Hpc. apply andb_true_iff in Hpc. destruct Hpc as [E1 E2].
  apply lkey_eqb_eq in E1. apply lkey_eqb_eq in E2.
  unfold step, step_v. rewrite Hr. rewrite Hh. cbv zeta. rewrite Hi. rewrite E1. rewrite E2. rewrite fget_fset_same.
  cbn [fst snd fs recs add_recs]. rewrite fget_fset_same. repeat split; reflexivity.
Qed.

(* ---- witnesses --------------------------------------------------------------------------------------------------------- *)
Definition run3 : string := "%25252E%25252E/sentinel".      (* ".." encoded three times *)
Definition fmt1 (run : string) : fresult := gen_format GEN_DEFAULT (fields_D "dtD" run "Cam" "1" "det1").
Definition sentA : lkey := [".."; "sentinel"; "dtD"; "dtD_Cam_det1_.._sentinel.yaml"].
Definition sentB : lkey := [".."; "sentinel"; "dtD"; "dtD_Cam_det0_.._sentinel.yaml"].
Definition st1 : state := mkState [] [] [] [(stage0, 1%N); (sentA, 3%N); (sentB, 4%N)].

(* REPAIRED by 5539e78.  Before it (step_v true false: df0ecd0 in, no check on record paths at use time): ingest(copy) into a
   run that encodes ".." three times is accepted -- the written location is inside the root -- the record it leaves names a
   location OUTSIDE the root, and pruning the dataset deleted the foreign file there *)
Definition step_nofix : state -> op -> state * outcome := step_v true false true false.
Definition nested_ingest : op := Ingest Copy [1%N] (fmt1 run3) ".yaml" stage0.
Definition nested_put : op := Put 2 (fmt run3) ".yaml" 9.

Lemma foreign_refuted_nested_escape_p :
  let s1 := fst (step_nofix st1 nested_ingest) in
    (exists p, fmt1 run3 = FOk p /\ checked true p = true)
    /\ snd (step_nofix st1 nested_ingest) = Done
    /\ target_inside nested_ingest = true
    /\ fget (fs s1) sentA = Some 3%N /\ inside sentA = false
    /\ recs_inside s1 = false
    /\ fget (fs (fst (step_nofix s1 (Prune [1%N])))) sentA = None.
Proof.
  cbv zeta. split.
  - exists "%25252E%25252E/sentinel/dtD/dtD_Cam_det1_%25252E%25252E_sentinel". split; vm_compute; reflexivity.
  - vm_compute. repeat split; reflexivity.
Qed.

Lemma foreign_refuted_nested_escape_put_p :
  let s1 := fst (step_nofix st1 nested_put) in
    snd (step_nofix st1 nested_put) = Done
    /\ target_inside nested_put = true /\ put_coherent nested_put = false
    /\ recs s1 = [(2%N, "../sentinel/dtD/dtD_Cam_det0_.._sentinel.yaml")]
    /\ fget (fs s1) sentB = Some 4%N /\ inside sentB = false
    /\ fget (fs (fst (step_nofix s1 (Prune [2%N])))) sentB = None.
Proof. vm_compute. repeat split; reflexivity. Qed.

(* the code before a79f022 (step_nowrule: all earlier repairs in, no write-time rule) still ACCEPTED the ingest and left such a
   record; from that state the code as it is (step) refuses the prune at use time (ValueError), the foreign file keeps its content;
   the dataset sits in the trash with its record and its artifact inside the root: the RESIDUE that a79f022 makes unreachable *)
Definition step_nowrule : state -> op -> state * outcome := step_v true true true false.
Lemma nested_escape_refused_now_p :
  let s1 := fst (step_nowrule st1 nested_ingest) in
  let s2 := fst (step s1 (Prune [1%N])) in
    snd (step_nowrule st1 nested_ingest) = Done /\ recs_inside s1 = false
    /\ snd (step s1 (Prune [1%N])) = Refused ValueErr
    /\ fget (fs s2) sentA = Some 3%N
    /\ recs s2 = recs s1 /\ live s2 = [] /\ trash s2 = [1%N]
    /\ fget (fs s2) ["%2E%2E"; "sentinel"; "dtD"; "dtD_Cam_det1_%2E%2E_sentinel.yaml"] = Some 1%N
    /\ snd (step s2 EmptyTrash) = Refused ValueErr.
Proof. vm_compute. repeat split; reflexivity. Qed.

(* with a79f022 (step): the name is refused at WRITE time, for ingest and for put, with the state unchanged *)
Lemma nested_escape_refused_at_write_p :
  step st1 nested_ingest = (st1, Refused ValueErr) /\ step st1 nested_put = (st1, Refused ValueErr)
  /\ (exists p, fmt1 run3 = FOk p /\ checked true p = true /\ write_rule p = false).
Proof.
  split; [vm_compute; reflexivity|]. split; [vm_compute; reflexivity|].
  exists "%25252E%25252E/sentinel/dtD/dtD_Cam_det1_%25252E%25252E_sentinel". repeat split; vm_compute; reflexivity.
Qed.

(* ---- MAIN 2 at full strength: no state guard at all --------------------------------------------------------------------- *)
(* conditions on the OPERATIONS only: put / ingest carry a formatter extension, a zip path is inside, a put's text does not
   resolve to the root itself *)
Definition op_ok (x : op) : bool := ext_ok x && zip_inside x && put_nonroot x.
Definition all_ops_ok (h : list op) : bool := forallb op_ok h.

Lemma step_outside_frame_full_p : forall s x l,
  op_ok x = true -> inside l = false -> touches_env s x l = false ->
  fget (fs (fst (step s x))) l = fget (fs s) l.
Proof.
  intros s x l Hok Hl Henv. unfold op_ok in Hok.
  apply andb_true_iff in Hok. destruct Hok as [Hok Hnr]. apply andb_true_iff in Hok. destruct Hok as [He Hz].
  assert (Other : put_coherent x = true ->
                  fget (fs (fst (step s x))) l = fget (fs s) l).
  { intro Hpc. destruct (target_inside_or_noop_p s x He Hz) as [Hti | Hno].
    - apply step_outside_frame_p; assumption.
    - rewrite Hno. reflexivity. }
  destruct x as [id fr ext c0 | m ids fr ext src | ids a | ids rel | members z c0 | ids | | ids | ids | l' c' | rids];
    try (apply Other; reflexivity).
  destruct fr as [p| |]; try (apply Other; reflexivity).
  simpl in He, Hnr. apply negb_true_iff in Hnr.
  unfold step, step_v.
  destruct (refuse_w true true p) eqn:R; [reflexivity|].
  destruct (held_any s [id]); [reflexivity|].
  pose proof (refuse_false_checked p R) as Hc.
  pose proof (writes_inside_root_p p ext He Hc) as Hti.
  assert (HW : inside (write_loc p ext) = true).
  { apply formatter_writes_inside_p; [exact He | | exact Hc].
    intro E. rewrite E in Hnr. discriminate Hnr. }
  cbv zeta. rewrite Hti.
  destruct (fget (fset (fs s) (write_loc p ext) c0) (loc (join_slash (target_loc p ext)))); cbn [fst fs add_recs with_fs].
  - apply fget_fset_other. apply inside_differ; assumption.
  - rewrite fget_fdel_other by (apply inside_differ; assumption).
    apply fget_fset_other. apply inside_differ; assumption.
Qed.

Lemma never_touch_foreign_full_p : forall h s l,
  all_ops_ok h = true -> inside l = false -> untouched_by_env s h l = true ->
  fget (fs (run s h)) l = fget (fs s) l.
Proof.
  induction h as [|x r IH]; intros s l G Hl U; [reflexivity|].
  simpl in G, U. rewrite run_cons.
  apply andb_true_iff in G. destruct G as [G1 G2].
  apply andb_true_iff in U. destruct U as [U1 U2]. apply negb_true_iff in U1.
  rewrite (IH _ l) by assumption. apply step_outside_frame_full_p; assumption.
Qed.

(* every removal (emptyTrash / prune / removeRuns), whatever the record table says: nothing outside the root changes *)
Lemma removal_never_outside_p : forall s ids l, inside l = false ->
  fget (fs (fst (step s EmptyTrash))) l = fget (fs s) l
  /\ fget (fs (fst (step s (Prune ids)))) l = fget (fs s) l
  /\ fget (fs (fst (step s (RemoveRun ids)))) l = fget (fs s) l.
Proof.
  intros s ids l Hl. repeat split.
  - apply empty_trash_v_outside_frame; exact Hl.
  - apply (empty_trash_v_outside_frame (do_trash s ids)); exact Hl.
  - apply (empty_trash_v_outside_frame (do_trash s ids)); exact Hl.
Qed.

(* guard (5) fails on "a%2eb": the put is refused (FileNotFoundError) and leaves the formatter's file behind -- an orphan
   INSIDE the root, no record, nothing outside touched *)
Definition dot_put : op := Put 2 (fmt "a%2eb") ".yaml" 9.
Definition dot_orphan : lkey := ["a.b"; "dtD"; "dtD_Cam_det0_a.yaml"].
Lemma put_dot_escape_orphan_p :
  let s1 := fst (step st0 dot_put) in
    snd (step st0 dot_put) = Refused NotFound
    /\ put_coherent dot_put = false
    /\ recs s1 = [] /\ live s1 = []
    /\ fget (fs st0) dot_orphan = None /\ fget (fs s1) dot_orphan = Some 9%N /\ inside dot_orphan = true
    /\ fget (fs s1) sent0 = fget (fs st0) sent0.
Proof. vm_compute. repeat split; reflexivity. Qed.

(* "#" in a run name: every record of the run has artifact text "a"; removing one dataset while another of the run is
   stored keeps (LEAKS) its file -- removal is incomplete (C10), but nothing referenced is lost (C09 holds, guards hold) *)
Definition hash_hist : list op :=
  [Put 1 (fmt "a#b") ".yaml" 5; Ingest Copy [2%N] (fmt1 "a#b") ".yaml" stage0; Prune [1%N]].
Lemma hash_run_leaks_not_loses_p :
  guarded st0 hash_hist = true
  /\ let s := run st0 hash_hist in
     recs s = [(2%N, "a#b/dtD/dtD_Cam_det1_aHASHb.yaml")]
     /\ fget (fs s) ["a#b"; "dtD"; "dtD_Cam_det0_aHASHb.yaml"] = Some 5%N
     /\ referenced s ["a#b"; "dtD"; "dtD_Cam_det0_aHASHb.yaml"] = false
     /\ fget (fs s) ["a#b"; "dtD"; "dtD_Cam_det1_aHASHb.yaml"] = Some 1%N.
Proof. vm_compute. repeat split; reflexivity. Qed.

(* an absolute record path (direct ingest: a file the datastore does not own, wherever it lives) is never removed *)
Lemma direct_never_deleted_p : forall s p, is_abs p = true -> deletes s p = false /\ poison s p = false.
Proof. intros s p H. unfold poison, deletes. rewrite H. simpl. rewrite andb_false_r. split; reflexivity. Qed.

Example good_ext_formatters : good_ext GEN_EXT_YAML = true /\ good_ext GEN_EXT_JSON = true /\ good_ext GEN_EXT_PICKLE = true.
Proof. vm_compute. repeat split; reflexivity. Qed.

Example demo_guarded2 : guarded2 st0 demo = true.
Proof. vm_compute. reflexivity. Qed.

Example demo_ops_ok : all_ops_ok demo = true /\ all_ops_ok [nested_ingest; nested_put; Prune [1%N; 2%N]] = true.
Proof. vm_compute. split; reflexivity. Qed.
