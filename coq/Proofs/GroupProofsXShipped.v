(* Facts about the shipped universes and the GENERATED algorithms, settled by computation. *)
From Coq Require Import String List Bool Arith.
From V Require Import Model.Universe Model.Group Model.GroupX Gen.Universes Gen.GroupGen Proofs.GroupProofsX3.
Import ListNotations.
Open Scope string_scope.
Open Scope list_scope.

Lemma skypix_isolated_shipped_p : forallb skypix_isolatedb shipped_universes = true.
Proof. vm_compute. reflexivity. Qed.

Lemma example_gen_group_p :
  exists g, gen_group u_current ["visit"; "htm7"] true = GOk g
    /\ grequired g = ["htm7"; "instrument"; "visit"] /\ gskypix g = ["htm7"]
    /\ gen_union u_current g [g; g] = GOk g.
Proof. eexists. split; [vm_compute; reflexivity|]. split; [reflexivity|]. split; [reflexivity|]. vm_compute. reflexivity. Qed.
