(* C09: refutation witnesses (each replayed on the real Butler, corpus/C09) and the percent-free reduction. *)
From Coq Require Import String Ascii List Bool NArith Lia.
From V Require Import Model.Template Gen.TemplateGen Model.Trash Proofs.TrashProofs Proofs.TrashProofs2.
Import ListNotations.
Open Scope string_scope.

Ltac conj := repeat match goal with |- _ /\ _ => split end.

Definition stage0 : lkey := [".."; "stage"; "f0.yaml"].
Definition sent0 : lkey := [".."; "sentinel"; "dtD"; "dtD_Cam_det0_..yaml"].
Definition st0 : state := mkState [] [] [] [(stage0, 1%N); (sent0, 2%N)].
Definition fmt (run : string) : fresult := gen_format GEN_DEFAULT (fields_D "dtD" run "Cam" "0" "det0").

(* ---- before df0ecd0 (textual check only): witnesses on step_v false ------------------------------------------ *)

(* the textual containment check of FileTemplate.format accepts a run whose percent-escapes decode to ".." ... *)
Lemma containment_refuted_without_fix_p :
  exists run p, fmt run = FOk p /\ checked false p = true /\ inside (target_loc p ".yaml") = false.
Proof. exists "%2E%2E/sentinel". eexists. conj; vm_compute; reflexivity. Qed.

(* ... and without the textual check (cf1a6db) a plain "../outside" would pass FileTemplate.format *)
Lemma containment_refuted_without_check_p :
  exists run raw, fmt run = FOutside
    /\ format_raw GEN_SAN_VALUE GEN_SAN_SLASH (fst GEN_DEFAULT) (fields_D "dtD" run "Cam" "0" "det0") "" = Some raw
    /\ inside (target_loc (finish_path_unchecked (fix_tail GEN_SAN_TAIL raw)) ".yaml") = false.
Proof. exists "../outside". eexists. split; [|split]; vm_compute; reflexivity. Qed.

(* put into such a run: the pre-existing file outside the root was overwritten and removed by the rollback *)
Lemma outside_put_refuted_without_fix_p :
  exists run s', fget (fs st0) sent0 = Some 2%N
    /\ step_v false false false false st0 (Put 1 (fmt run) ".yaml" 9) = (s', Refused RuntimeErr)
    /\ fget (fs s') sent0 = None /\ inside sent0 = false.
Proof. exists "%2E%2E/sentinel". eexists. conj; vm_compute; reflexivity. Qed.

(* ingest(copy) into such a run SUCCEEDED: a file outside the root was overwritten; pruning the dataset removed it *)
Lemma outside_ingest_refuted_without_fix_p :
  exists run s1,
    step_v false false false false st0 (Ingest Copy [1%N] (fmt run) ".yaml" stage0) = (s1, Done)
    /\ fget (fs st0) sent0 = Some 2%N /\ fget (fs s1) sent0 = Some 1%N
    /\ recs_inside s1 = false
    /\ fget (fs (fst (step_v false false false false s1 (Prune [1%N])))) sent0 = None.
Proof. exists "%2E%2E/sentinel". eexists. conj; vm_compute; reflexivity. Qed.

(* ---- with df0ecd0: a text whose RESOLVED location is not under the root is refused before anything happens ------ *)
Lemma unchecked_put_refused_p : forall s id p ext c,
  inside (rel_loc (stage_a p)) = false -> step s (Put id (FOk p) ext c) = (s, Refused ValueErr).
Proof.
  intros s id p ext c H. unfold step, step_v, refuse_w, refuse_location, checked. rewrite H. simpl.
  rewrite orb_true_r. reflexivity.
Qed.

Lemma unchecked_ingest_refused_p : forall s m ids p ext src,
  inside (rel_loc (stage_a p)) = false ->
  fst (step s (Ingest m ids (FOk p) ext src)) = s /\ snd (step s (Ingest m ids (FOk p) ext src)) <> Done.
Proof.
  intros s m ids p ext src H. unfold step, step_v, refuse_w, refuse_location, checked. rewrite H. simpl negb.
  rewrite orb_true_r.
  destruct (held_any s ids); destruct (fget (fs s) src); cbn [andb fst snd]; split; try reflexivity; discriminate.
Qed.

(* the four spellings of the repaired defect are refused for put and ingest, the outside file keeps its content *)
Lemma escapes_refused_now_p : forall run, In run ["%2E%2E/sentinel"; "%2e%2e/sentinel"; "%252E%252E/sentinel"; "%2fsentinel"] ->
  step st0 (Put 1 (fmt run) ".yaml" 9) = (st0, Refused ValueErr)
  /\ step st0 (Ingest Copy [1%N] (fmt run) ".yaml" stage0) = (st0, Refused ValueErr).
Proof.
  intros run H. simpl in H. repeat (destruct H as [<-|H]; [split; vm_compute; reflexivity|]). contradiction.
Qed.

(* ---- containment on components: "outside" is absorbing, so a prefix of an inside path is inside ----------------- *)
Definition bot (st : list string) : string := last st "".

Lemma bot_cons : forall a st, st <> [] -> bot (a :: st) = bot st.
Proof. intros a st H. unfold bot. destruct st; [contradiction | reflexivity]. Qed.

Lemma norm_step_absorbs : forall st c, bot st = ".." -> bot (norm_step false st c) = "..".
Proof.
  intros st c H. unfold norm_step.
  destruct (String.eqb c "" || String.eqb c "."); [exact H|].
  assert (Hne : st <> []) by (intro E; subst; discriminate H).
  destruct (String.eqb c "..").
  - destruct st as [|top rest]; [contradiction|].
    destruct (String.eqb top "..") eqn:Et.
    + rewrite bot_cons by discriminate. exact H.
    + destruct rest as [|r2 rest'].
      * unfold bot in H. simpl in H. subst top. discriminate Et.
      * rewrite bot_cons in H by discriminate. exact H.
  - rewrite bot_cons by exact Hne. exact H.
Qed.

Lemma fold_absorbs : forall l st, bot st = ".." -> bot (fold_left (norm_step false) l st) = "..".
Proof. induction l as [|c r IH]; intros st H; [exact H|]. simpl. apply IH. apply norm_step_absorbs. exact H. Qed.

Lemma hd_rev_bot : forall st, hd "" (rev st) = bot st.
Proof.
  induction st as [|a r IH]; [reflexivity|]. simpl.
  destruct r as [|b r'].
  - reflexivity.
  - rewrite bot_cons by discriminate. rewrite <- IH.
    destruct (rev (b :: r')) eqn:E; [|reflexivity].
    apply (f_equal (@length string)) in E. rewrite rev_length in E. discriminate E.
Qed.

Lemma is_prefix_split : forall a b, is_prefix a b = true -> exists r, b = (a ++ r)%list.
Proof.
  induction a as [|x r IH]; intros b H; [exists b; reflexivity|].
  destruct b as [|y r']; [discriminate|]. simpl in H. apply andb_true_iff in H. destruct H as [H1 H2].
  apply String.eqb_eq in H1. subst y. destruct (IH _ H2) as [t Ht]. exists t. simpl. rewrite Ht. reflexivity.
Qed.

Lemma plain_step : forall st c, plain_comp c = true -> norm_step false st c = c :: st.
Proof.
  intros st c H. unfold plain_comp in H. apply andb_true_iff in H. destruct H as [H H3].
  apply andb_true_iff in H. destruct H as [H1 H2].
  apply negb_true_iff in H1, H2, H3. unfold norm_step. rewrite H1, H2, H3. reflexivity.
Qed.

(* if the normalised comps `a` are inside, so are (any prefix of a) ++ [ordinary name] *)
Lemma prefix_plain_inside : forall a init lst,
  inside (rev (fold_left (norm_step false) a [])) = true ->
  is_prefix init a = true -> plain_comp lst = true ->
  inside (rev (fold_left (norm_step false) (init ++ [lst])%list [])) = true.
Proof.
  intros a init lst Ha Hp Hl. destruct (is_prefix_split _ _ Hp) as [r Hr]. subst a.
  rewrite fold_left_app in Ha. rewrite fold_left_app. simpl.
  set (s1 := fold_left (norm_step false) init []) in *.
  rewrite plain_step by exact Hl.
  unfold inside in *. rewrite hd_rev_bot in *.
  destruct (String.eqb (bot s1) "..") eqn:E.
  - apply String.eqb_eq in E. rewrite (fold_absorbs r s1 E) in Ha. discriminate Ha.
  - destruct s1 as [|x y] eqn:Es.
    + unfold bot. simpl. unfold plain_comp in Hl. apply andb_true_iff in Hl. destruct Hl as [_ Hl]. exact Hl.
    + rewrite bot_cons by discriminate. rewrite E. reflexivity.
Qed.

(* writes_inside_root, partial: the location CHECKED by Location (df0ecd0) is inside => the location WRITTEN (after the
   extension is attached) is inside, for every text -- any characters, any escapes -- provided attaching the extension
   acts on the decoded components as `ext_bridge` says (decidable; evaluated on every correspondence case). *)
Lemma writes_inside_root_partial_p : forall p ext,
  is_abs (unq (stage_a p)) = false -> checked true p = true -> ext_bridge p ext = true ->
  inside (target_loc p ext) = true.
Proof.
  intros p ext Hna Hc Hb. unfold checked in Hc. simpl in Hc. unfold rel_loc in Hc. rewrite Hna in Hc.
  unfold ext_bridge in Hb. apply andb_true_iff in Hb. destruct Hb as [Hab Hb]. apply negb_true_iff in Hab.
  unfold target_loc, target_text, rel_loc. rewrite Hab.
  destruct (rev (split_slash (unq (set_ext (stage_a p) ext)))) as [|lst rinit] eqn:E; [discriminate|].
  apply andb_true_iff in Hb. destruct Hb as [Hpl Hpre].
  assert (Es : split_slash (unq (set_ext (stage_a p) ext)) = (rev rinit ++ [lst])%list).
  { rewrite <- (rev_involutive (split_slash _)). rewrite E. reflexivity. }
  unfold norm_comps in *. rewrite Hab. rewrite Hna in Hc. rewrite Es.
  apply (prefix_plain_inside (split_slash (unq (stage_a p)))); assumption.
Qed.

(* two record texts, one file: "aJb/..." (put) and "a%4ab/..." (ingest); pruning one removes the other's artifact *)
Lemma alias_refuted_p :
  exists s l c,
    s = run st0 [Put 1 (fmt "aJb") ".yaml" 5; Ingest Copy [2%N] (fmt "a%4ab") ".yaml" stage0]
    /\ sharing_visible s = false
    /\ fget (fs s) l = Some c /\ fget (fs (fst (step s (Prune [2%N])))) l = None
    /\ referenced (fst (step s (Prune [2%N]))) l = true /\ inside l = true.
Proof. eexists. exists ["aJb"; "dtD"; "dtD_Cam_det0_aJb.yaml"]. eexists. conj; vm_compute; reflexivity. Qed.

(* REPAIRED by 2da36a1.  Before it (step_noichk): a refused re-ingest removed the artifact of the dataset the datastore holds *)
Definition step_noichk : state -> op -> state * outcome := step_v true true false true.
Lemma reingest_refuted_p :
  exists s x l c,
    s = run st0 [Ingest Copy [1%N] (fmt "r1") ".yaml" stage0]
    /\ reingest s x = true /\ snd (step_noichk s x) = Refused Conflict
    /\ fget (fs s) l = Some c /\ fget (fs (fst (step_noichk s x))) l = None /\ referenced (fst (step_noichk s x)) l = true.
Proof.
  eexists. exists (Ingest Copy [1%N] (fmt "r1") ".yaml" stage0), ["r1"; "dtD"; "dtD_Cam_det0_r1.yaml"]. eexists.
  conj; vm_compute; reflexivity.
Qed.

Lemma zip_reingest_refuted_p :
  exists s x l c,
    s = run st0 [IngestZip [(1%N, "m1"); (2%N, "m2")] "zips/ab/z.zip" 7]
    /\ reingest s x = true /\ snd (step_noichk s x) = Refused Conflict
    /\ fget (fs s) l = Some c /\ fget (fs (fst (step_noichk s x))) l = None /\ referenced (fst (step_noichk s x)) l = true.
Proof.
  eexists. exists (IngestZip [(1%N, "m1"); (2%N, "m2")] "zips/ab/z.zip" 7), ["zips"; "ab"; "z.zip"]. eexists.
  conj; vm_compute; reflexivity.
Qed.

(* with 2da36a1 (step): an ingest (copy / move / zip) that is not carried out changes NOTHING -- no file, no record, the
   source of a move stays *)
Lemma ingest_refused_changes_nothing_p : forall s m ids fr ext src,
  snd (step s (Ingest m ids fr ext src)) <> Done -> fst (step s (Ingest m ids fr ext src)) = s.
Proof.
  intros s m ids fr ext src H. unfold step, step_v in *.
  destruct (held_any s ids) eqn:Hh; destruct (fget (fs s) src) as [c|] eqn:Es; cbn [andb] in *;
    try reflexivity; destruct fr as [p| |]; try reflexivity; try rewrite Es in *; try reflexivity.
  destruct (refuse_w true true p); [reflexivity|]. cbn [snd] in H. exfalso. apply H. reflexivity.
Qed.

Lemma zip_refused_changes_nothing_p : forall s members z c,
  snd (step s (IngestZip members z c)) <> Done -> fst (step s (IngestZip members z c)) = s.
Proof.
  intros s members z c H. unfold step, step_v in *.
  destruct (held_any s (map fst members)); cbn [andb] in *; [reflexivity|].
  cbn [snd] in H. exfalso. apply H. reflexivity.
Qed.

Lemma reingest_refused_now_p :
  let s := run st0 [Ingest Copy [1%N] (fmt "r1") ".yaml" stage0] in
  let z := run st0 [IngestZip [(1%N, "m1"); (2%N, "m2")] "zips/ab/z.zip" 7] in
    step s (Ingest Copy [1%N] (fmt "r1") ".yaml" stage0) = (s, Refused Conflict)
    /\ step s (Ingest Move [1%N] (fmt "r1") ".yaml" stage0) = (s, Refused Conflict)
    /\ step z (IngestZip [(1%N, "m1"); (2%N, "m2")] "zips/ab/z.zip" 7) = (z, Refused Conflict).
Proof. vm_compute. repeat split; reflexivity. Qed.

(* ---- the keep-set must be the UNION of the bridge's preserved set and the fragment recount ---------------------- *)
(* variant of emptyTrash in which the recount REPLACES the preserved set whenever a trashed path has a fragment *)
Definition keep_overwrite (s : state) : list string :=
  if existsb (fun r => has_char "#"%char (snd r)) (trashed_recs s) then slow_keep s else preserved s.
Definition deletes_overwrite (s : state) (p : string) : bool :=
  negb (memS (artifact_of p) (keep_overwrite s)) && negb (is_abs p).
Fixpoint delete_all_overwrite (s : state) (rows : list (N * string)) (f : list (lkey * N)) : list (lkey * N) :=
  match rows with
  | [] => f
  | r :: rest => delete_all_overwrite s rest (if deletes_overwrite s (snd r) then fdel f (loc (snd r)) else f)
  end.

(* a file shared by datasets 1 and 2 and a zip with members 3 and 4; ONE trash holding 1 and 3 *)
Definition mixed_state : state :=
  do_trash (run st0 [Ingest Copy [1%N; 2%N] (fmt "r1") ".yaml" stage0; IngestZip [(3%N, "m1"); (4%N, "m2")] "zips/ab/z.zip" 7])
           [1%N; 3%N].
Definition shared_l : lkey := ["r1"; "dtD"; "dtD_Cam_det0_r1.yaml"].

(* with the overwrite the shared file goes although dataset 2 is still stored; the code as it is (union) keeps it *)
Lemma keep_overwrite_refuted_p :
  sharing_visible mixed_state = true
  /\ fget (fs mixed_state) shared_l = Some 1%N
  /\ fget (delete_all_overwrite mixed_state (trashed_recs mixed_state) (fs mixed_state)) shared_l = None
  /\ referenced (empty_trash mixed_state) shared_l = true
  /\ fget (fs (empty_trash mixed_state)) shared_l = Some 1%N
  /\ fget (fs (empty_trash mixed_state)) ["zips"; "ab"; "z.zip"] = Some 7%N.
Proof. conj; vm_compute; reflexivity. Qed.

(* ---- names without "%" : decoding is the identity, the location is the normalised text ---------------------- *)
Definition no_pct (s : string) : bool := negb (has_char "%"%char s).

Lemma unq_plain : forall s, no_pct s = true -> unq s = s.
Proof.
  induction s as [|c r IH]; intro H; [reflexivity|].
  unfold no_pct in *.
  change (has_char "%"%char (String c r)) with (if Ascii.eqb "%"%char c then true else has_char "%"%char r) in H.
  destruct (Ascii.eqb "%"%char c) eqn:E; [discriminate H|].
  change (unq (String c r)) with
    (if Ascii.eqb c "%"%char
     then match r with
          | String a (String b r2) => match hexval a, hexval b with
                                      | Some x, Some y => String (ascii_of_N (16 * x + y)) (unq r2)
                                      | _, _ => String c (unq r) end
          | _ => String c (unq r) end
     else String c (unq r)).
  rewrite Ascii.eqb_sym. rewrite E. rewrite IH by exact H. reflexivity.
Qed.

Lemma upper_plain : forall s, no_pct s = true -> has_upper_escape s = false.
Proof.
  induction s as [|c r IH]; intro H; [reflexivity|].
  unfold no_pct in *.
  change (has_char "%"%char (String c r)) with (if Ascii.eqb "%"%char c then true else has_char "%"%char r) in H.
  destruct (Ascii.eqb "%"%char c) eqn:E; [discriminate H|].
  change (has_upper_escape (String c r)) with
    ((Ascii.eqb c "%"%char && match r with String a (String b _) => uphex a && uphex b | _ => false end)
     || has_upper_escape r).
  rewrite Ascii.eqb_sym. rewrite E. apply IH. exact H.
Qed.

Lemma stage_a_plain : forall s, no_pct s = true -> stage_a s = s.
Proof. intros s H. unfold stage_a. rewrite (upper_plain s H). reflexivity. Qed.

Lemma loc_plain_p : forall p, no_pct p = true -> is_abs p = false -> no_pct (strip_frag p) = true ->
  is_abs (strip_frag p) = false -> loc p = norm_comps (strip_frag p).
Proof.
  intros p Hp Ha Hs Has. unfold loc. rewrite Ha. rewrite (stage_a_plain _ Hs). unfold rel_loc.
  rewrite (unq_plain _ Hs). rewrite Has. reflexivity.
Qed.

Lemma target_loc_plain_p : forall p ext, no_pct p = true -> no_pct (set_ext p ext) = true ->
  is_abs (set_ext p ext) = false -> target_loc p ext = norm_comps (set_ext p ext).
Proof.
  intros p ext Hp Hs Ha. unfold target_loc, target_text, rel_loc. rewrite (stage_a_plain _ Hp).
  rewrite (unq_plain _ Hs). rewrite Ha. reflexivity.
Qed.

(* ---- non-vacuity: a guarded history with a shared file and a zip, a deletion, surviving siblings ----------- *)
Definition demo : list op :=
  [ Put 1 (fmt "r1") ".yaml" 5;
    Ingest Copy [2%N; 3%N] (fmt "r2") ".yaml" stage0;
    IngestZip [(4%N, "m1"); (5%N, "m2")] "zips/ab/z.zip" 7;
    IngestDirect [6%N] "/sentinel/dtD/dtD_Cam_det0_..yaml";
    Prune [2%N; 4%N];
    Prune [1%N; 6%N];
    Prune [3%N] ].
