(* C09: refutation witnesses (each replayed on the real Butler, corpus/C09) and the percent-free reduction. *)
From Coq Require Import String Ascii List Bool NArith Lia.
From V Require Import Model.Template Gen.TemplateGen Model.Trash Proofs.TrashProofs Proofs.TrashProofs2.
Import ListNotations.
Open Scope string_scope.

Ltac conj := repeat match goal with |- _ /\ _ => split end.

Definition stage0 : lkey := [".."; "stage"; "f0.yaml"].
Definition sent0 : lkey := [".."; "sentinel"; "dtD"; "dtD_Cam_det0_..yaml"].
Definition st0 : state := mkState [] [] [] [(stage0, 1%N); (sent0, 2%N)].
Definition fmt (run : string) : fresult := gen_format GEN_DEFAULT (fields_D "dtD" run "Cam" "0" "det0").

(* the containment check of FileTemplate.format accepts a run whose percent-escapes decode to ".." *)
Lemma containment_refuted_p :
  exists run p, fmt run = FOk p /\ inside (target_loc p ".yaml") = false.
Proof. exists "%2E%2E/sentinel". eexists. split; vm_compute; reflexivity. Qed.

(* ... and without the check (cf1a6db) a plain "../outside" would pass *)
Lemma containment_refuted_without_check_p :
  exists run raw, fmt run = FOutside
    /\ format_raw GEN_SAN_VALUE GEN_SAN_SLASH (fst GEN_DEFAULT) (fields_D "dtD" run "Cam" "0" "det0") "" = Some raw
    /\ inside (target_loc (finish_path_unchecked (fix_tail GEN_SAN_TAIL raw)) ".yaml") = false.
Proof. exists "../outside". eexists. split; [|split]; vm_compute; reflexivity. Qed.

(* put into such a run: the pre-existing file outside the root is overwritten and then removed by the rollback *)
Lemma outside_put_refuted_p :
  exists run s', fget (fs st0) sent0 = Some 2%N
    /\ step st0 (Put 1 (fmt run) ".yaml" 9) = (s', Refused RuntimeErr)
    /\ fget (fs s') sent0 = None /\ inside sent0 = false.
Proof. exists "%2E%2E/sentinel". eexists. conj; vm_compute; reflexivity. Qed.

(* ingest(copy) into such a run SUCCEEDS: a file outside the root is overwritten; pruning the dataset removes it *)
Lemma outside_ingest_refuted_p :
  exists run s1,
    step st0 (Ingest Copy [1%N] (fmt run) ".yaml" stage0) = (s1, Done)
    /\ fget (fs st0) sent0 = Some 2%N /\ fget (fs s1) sent0 = Some 1%N
    /\ recs_inside s1 = false
    /\ fget (fs (fst (step s1 (Prune [1%N])))) sent0 = None.
Proof. exists "%2E%2E/sentinel". eexists. conj; vm_compute; reflexivity. Qed.

(* two record texts, one file: "aJb/..." (put) and "a%4ab/..." (ingest); pruning one removes the other's artifact *)
Lemma alias_refuted_p :
  exists s l c,
    s = run st0 [Put 1 (fmt "aJb") ".yaml" 5; Ingest Copy [2%N] (fmt "a%4ab") ".yaml" stage0]
    /\ sharing_visible s = false
    /\ fget (fs s) l = Some c /\ fget (fs (fst (step s (Prune [2%N])))) l = None
    /\ referenced (fst (step s (Prune [2%N]))) l = true /\ inside l = true.
Proof. eexists. exists ["aJb"; "dtD"; "dtD_Cam_det0_aJb.yaml"]. eexists. conj; vm_compute; reflexivity. Qed.

(* a refused re-ingest removes the artifact of the dataset the datastore holds *)
Lemma reingest_refuted_p :
  exists s x l c,
    s = run st0 [Ingest Copy [1%N] (fmt "r1") ".yaml" stage0]
    /\ reingest s x = true /\ snd (step s x) = Refused Conflict
    /\ fget (fs s) l = Some c /\ fget (fs (fst (step s x))) l = None /\ referenced (fst (step s x)) l = true.
Proof.
  eexists. exists (Ingest Copy [1%N] (fmt "r1") ".yaml" stage0), ["r1"; "dtD"; "dtD_Cam_det0_r1.yaml"]. eexists.
  conj; vm_compute; reflexivity.
Qed.

Lemma zip_reingest_refuted_p :
  exists s x l c,
    s = run st0 [IngestZip [(1%N, "m1"); (2%N, "m2")] "zips/ab/z.zip" 7]
    /\ reingest s x = true /\ snd (step s x) = Refused Conflict
    /\ fget (fs s) l = Some c /\ fget (fs (fst (step s x))) l = None /\ referenced (fst (step s x)) l = true.
Proof.
  eexists. exists (IngestZip [(1%N, "m1"); (2%N, "m2")] "zips/ab/z.zip" 7), ["zips"; "ab"; "z.zip"]. eexists.
  conj; vm_compute; reflexivity.
Qed.

(* ---- names without "%" : decoding is the identity, the location is the normalised text ---------------------- *)
Definition no_pct (s : string) : bool := negb (has_char "%"%char s).

Lemma unq_plain : forall s, no_pct s = true -> unq s = s.
Proof.
  induction s as [|c r IH]; intro H; [reflexivity|].
  unfold no_pct in *.
  change (has_char "%"%char (String c r)) with (if Ascii.eqb "%"%char c then true else has_char "%"%char r) in H.
  destruct (Ascii.eqb "%"%char c) eqn:E; [discriminate H|].
  change (unq (String c r)) with
    (if Ascii.eqb c "%"%char
     then match r with
          | String a (String b r2) => match hexval a, hexval b with
                                      | Some x, Some y => String (ascii_of_N (16 * x + y)) (unq r2)
                                      | _, _ => String c (unq r) end
          | _ => String c (unq r) end
     else String c (unq r)).
  rewrite Ascii.eqb_sym. rewrite E. rewrite IH by exact H. reflexivity.
Qed.

Lemma upper_plain : forall s, no_pct s = true -> has_upper_escape s = false.
Proof.
  induction s as [|c r IH]; intro H; [reflexivity|].
  unfold no_pct in *.
  change (has_char "%"%char (String c r)) with (if Ascii.eqb "%"%char c then true else has_char "%"%char r) in H.
  destruct (Ascii.eqb "%"%char c) eqn:E; [discriminate H|].
  change (has_upper_escape (String c r)) with
    ((Ascii.eqb c "%"%char && match r with String a (String b _) => uphex a && uphex b | _ => false end)
     || has_upper_escape r).
  rewrite Ascii.eqb_sym. rewrite E. apply IH. exact H.
Qed.

Lemma stage_a_plain : forall s, no_pct s = true -> stage_a s = s.
Proof. intros s H. unfold stage_a. rewrite (upper_plain s H). reflexivity. Qed.

Lemma loc_plain_p : forall p, no_pct p = true -> is_abs p = false -> no_pct (strip_frag p) = true ->
  is_abs (strip_frag p) = false -> loc p = norm_comps (strip_frag p).
Proof.
  intros p Hp Ha Hs Has. unfold loc. rewrite Ha. rewrite (stage_a_plain _ Hs). unfold rel_loc.
  rewrite (unq_plain _ Hs). rewrite Has. reflexivity.
Qed.

Lemma target_loc_plain_p : forall p ext, no_pct p = true -> no_pct (set_ext p ext) = true ->
  is_abs (set_ext p ext) = false -> target_loc p ext = norm_comps (set_ext p ext).
Proof.
  intros p ext Hp Hs Ha. unfold target_loc, target_text, rel_loc. rewrite (stage_a_plain _ Hp).
  rewrite (unq_plain _ Hs). rewrite Ha. reflexivity.
Qed.

(* ---- non-vacuity: a guarded history with a shared file and a zip, a deletion, surviving siblings ----------- *)
Definition demo : list op :=
  [ Put 1 (fmt "r1") ".yaml" 5;
    Ingest Copy [2%N; 3%N] (fmt "r2") ".yaml" stage0;
    IngestZip [(4%N, "m1"); (5%N, "m2")] "zips/ab/z.zip" 7;
    IngestDirect [6%N] "/sentinel/dtD/dtD_Cam_det0_..yaml";
    Prune [2%N; 4%N];
    Prune [1%N; 6%N];
    Prune [3%N] ].
