(* C08 lemmas, part F: the bridge invariant `good` is preserved by insertions (fresh ids), hence holds in every state
   reached from the initial repository -- by fault-free histories without any premise, by histories with crashes under
   the fresh-id guard; the content of a completed transfer_from. *)
From Coq Require Import NArith PeanoNat List Bool Lia.
From V Require Import Model.Crash Proofs.CrashProofsA Proofs.CrashProofsB Proofs.CrashProofsC Proofs.CrashProofsD Proofs.CrashProofsE.
Import ListNotations.
Open Scope N_scope.

(* ------------------------------------------------------------------ insertions keep the invariant *)
Lemma good_db_insert : forall b l, good_db b -> insert_ok b l = true ->
  (forall d, mem d l = true -> mem d (d_trash b) = false) ->
  good_db (apply_all [InsDataset l; InsLocation l; InsRecords l] b).
Proof.
  intros b l G OK F. unfold apply_all. cbn [fold_left apply_stmt]. unfold good_db. cbn [d_runs d_ds d_loc d_trash d_recs].
  assert (A : forall d, mem d l = true -> mem d (d_ds b) = false) by (intros d M; eapply insert_ok_absent; eauto).
  repeat split; intros d; specialize (A d); specialize (F d); crush G d.
Qed.

(* every target that is not yet registered is not the id of a pending deletion (targets that are registered make the
   insertion refuse, so nothing is required of them) *)
Definition fresh_targets (s : state) (o : op) : Prop :=
  forall d, is_target s o d = true -> mem d (d_ds (cdb s)) = false -> mem d (d_trash (cdb s)) = false.

Lemma insertion_always_good : forall s o, good s -> is_insert o = true -> fresh_targets s o ->
  always (fun x => good_db (cdb x)) s (plan s o).
Proof.
  intros s o [O G] I F.
  destruct (insertion_shape s o I) as [E | (l & body & E & NM & ST & OK & TG)]; rewrite E.
  - apply always_nil, G.
  - intros k. destruct (Nat.le_gt_cases k (S (length body))) as [L|L].
    + rewrite (txn_block_cdb_prefix body s k NM O L). exact G.
    + rewrite firstn_all2 by (simpl; rewrite app_length; simpl; lia).
      destruct (txn_block_end body s NM O) as [C _]. rewrite C, ST.
      apply good_db_insert; auto. intros d M. apply F; [rewrite TG; exact M | eapply insert_ok_absent; eauto].
Qed.

Lemma good_crash_insertion_l : forall s o k, good s -> is_insert o = true -> fresh_targets s o ->
  good (crash s (plan s o) k).
Proof.
  intros s o k G I F. split; [reflexivity|]. unfold crash, recover. cbn [cdb]. exact (insertion_always_good s o G I F k).
Qed.

Lemma insert_or_removal : forall o, is_insert o = true \/ is_removal o = true.
Proof. destruct o; simpl; auto. Qed.

(* every operation, every crash index *)
Lemma good_crash_l : forall s o k, good s -> (is_insert o = true -> fresh_targets s o) -> good (crash s (plan s o) k).
Proof.
  intros s o k G F. destruct (insert_or_removal o) as [I|R].
  - apply good_crash_insertion_l; auto.
  - apply good_crash_removal_l; auto.
Qed.

Lemma good_run_op_l : forall s o, good s -> (is_insert o = true -> fresh_targets s o) -> good (run_op s o).
Proof. intros s o G F. rewrite run_op_is_crash by apply G. apply good_crash_l; assumption. Qed.

(* the boolean guard of the model implies the fresh-targets premise *)
Lemma is_target_ins : forall s o d, is_insert o = true -> is_target s o d = mem d (ins_ids o).
Proof.
  intros s o d I. destruct o; try discriminate; simpl; try reflexivity; destruct (d =? d0); reflexivity.
Qed.

Lemma forallb_mem : forall (f : N -> bool) l d, forallb f l = true -> mem d l = true -> f d = true.
Proof. intros f l d H M. rewrite forallb_forall in H. apply H. apply mem_In. exact M. Qed.

Lemma fresh_ins_targets : forall s o, fresh_ins s o = true -> is_insert o = true -> fresh_targets s o.
Proof.
  intros s o F I d T _. rewrite (is_target_ins s o d I) in T. unfold fresh_ins in F.
  pose proof (forallb_mem _ _ d F T) as X. cbn beta in X. destruct (mem d (d_trash (cdb s))); [discriminate | reflexivity].
Qed.

(* ------------------------------------------------------------------ histories with crashes, under the fresh-id guard *)
Lemma good_run_hop : forall s h, good s -> fresh_ins s (hop_op h) = true -> good (run_hop s h).
Proof.
  intros s h G F. destruct h as [o|o k]; cbn [run_hop hop_op] in *.
  - apply good_run_op_l; [exact G | apply fresh_ins_targets; exact F].
  - rewrite (recover_id s (proj1 G)). apply good_crash_l; [exact G | apply fresh_ins_targets; exact F].
Qed.

Lemma good_runh : forall hs s, good s -> hist_fresh s hs = true -> good (runh s hs).
Proof.
  induction hs as [|h r IH]; intros s G F; [exact G|].
  cbn [hist_fresh] in F. apply andb_prop in F. destruct F as [F1 F2].
  cbn [runh fold_left]. apply IH; [apply good_run_hop; assumption | exact F2].
Qed.

(* ------------------------------------------------------------------ fault-free histories: no premise at all *)
(* in a fault-free history a pending deletion always belongs to a dataset that is still registered (only Datastore.trash
   leaves rows pending; every other removal ends by emptying the trash), so an accepted insertion is always fresh *)
Definition pending_registered (b : db) : Prop := forall d, mem d (d_trash b) = true -> mem d (d_ds b) = true.
Definition good2 (s : state) : Prop := good s /\ pending_registered (cdb s).

Lemma insertion_end_cdb : forall s o, ovl s = None -> is_insert o = true ->
  run_op s o = s \/
  exists l, insert_ok (cdb s) l = true /\ (forall d, is_target s o d = mem d l)
            /\ cdb (run_op s o) = apply_all [InsDataset l; InsLocation l; InsRecords l] (cdb s).
Proof.
  intros s o O I. unfold run_op. rewrite (recover_id s O).
  destruct (insertion_shape s o I) as [E | (l & body & E & NM & ST & OK & TG)]; rewrite E.
  - left. cbn [run_steps fold_left]. apply recover_id, O.
  - right. exists l. split; [exact OK|]. split; [exact TG|].
    destruct (txn_block_end body s NM O) as [C _]. unfold recover. cbn [cdb]. rewrite C, ST. reflexivity.
Qed.

Lemma empty_db_trash : forall b ord d, good_db b ->
  mem d (d_trash (apply_all [DelRecords (order_by ord (inter (d_trash b) (d_recs b)));
                             DelTrash (order_by ord (inter (d_trash b) (d_recs b)))] b)) = false.
Proof.
  intros b ord d G. unfold apply_all. cbn [fold_left apply_stmt d_runs d_ds d_loc d_trash d_recs]. crush G d.
Qed.

Lemma phase_then_empty_trash : forall u qs ord d, ovl u = None -> good_db (apply_all qs (cdb u)) ->
  mem d (d_trash (cdb (recover (run_steps u (block qs ++ plan_empty (apply_all qs (cdb u)) ord))))) = false.
Proof.
  intros u qs ord d O G. destruct (phase_then_empty_run u qs ord O) as (C & _). cbn zeta in C. rewrite C.
  apply empty_db_trash, G.
Qed.

Lemma only_empty_trash : forall u ord d, good u ->
  mem d (d_trash (cdb (recover (run_steps u (plan_empty (cdb u) ord))))) = false.
Proof.
  intros u ord d [O G]. destruct (plan_empty_run u ord O) as (_ & C & _). cbn zeta in C. unfold recover. cbn [cdb].
  rewrite C. apply empty_db_trash, G.
Qed.

(* every removal except Datastore.trash (and a removeRuns of an unknown run, which does nothing) ends with an empty trash *)
Lemma removal_ends_trash_empty : forall u o d, good u ->
  match o with
  | Prune _ _ | Unstore _ _ | EmptyTrash _ => True
  | RemoveRuns r _ => mem r (d_runs (cdb u)) = true
  | _ => False
  end -> mem d (d_trash (cdb (run_op u o))) = false.
Proof.
  intros u o d G H. pose proof G as [O Gd]. unfold run_op. rewrite (recover_id u O). unfold plan.
  destruct o; try contradiction; cbn [plan_body].
  - destruct (inter l (d_ds (cdb u))) as [|x r] eqn:E; cbn [fst snd op_ord].
    + cbn [app]. apply only_empty_trash, G.
    + change ([SqlBegin] ++ [SqlStmt (DelLocation (inter (x :: r) (d_loc (cdb u)))); SqlStmt (InsTrash (inter (x :: r) (d_loc (cdb u))));
                              SqlStmt (DelDataset (x :: r))] ++ [SqlCommit])
        with (block [DelLocation (inter (x :: r) (d_loc (cdb u))); InsTrash (inter (x :: r) (d_loc (cdb u))); DelDataset (x :: r)]).
      change (fold_left (fun x0 y => apply_stmt y x0) [DelLocation (inter (x :: r) (d_loc (cdb u))); InsTrash (inter (x :: r) (d_loc (cdb u))); DelDataset (x :: r)] (cdb u))
        with (apply_all [DelLocation (inter (x :: r) (d_loc (cdb u))); InsTrash (inter (x :: r) (d_loc (cdb u))); DelDataset (x :: r)] (cdb u)).
      apply phase_then_empty_trash; [exact O|]. rewrite <- E. apply good_db_prune, Gd.
  - destruct (inter (inter l (d_ds (cdb u))) (d_loc (cdb u))) as [|x r] eqn:E; cbn [fst snd op_ord].
    + cbn [app]. apply only_empty_trash, G.
    + change ([SqlBegin; SqlStmt (DelLocation (x :: r)); SqlStmt (InsTrash (x :: r)); SqlCommit])
        with (block [DelLocation (x :: r); InsTrash (x :: r)]).
      change (fold_left (fun x0 y => apply_stmt y x0) [DelLocation (x :: r); InsTrash (x :: r)] (cdb u))
        with (apply_all [DelLocation (x :: r); InsTrash (x :: r)] (cdb u)).
      apply phase_then_empty_trash; [exact O|]. rewrite <- E. apply good_db_unstore, Gd.
  - rewrite H. cbn [fst snd op_ord].
    set (tl := inter (filter (fun d0 => run_of d0 =? r) (d_ds (cdb u))) (d_loc (cdb u))).
    change ([SqlBegin; SqlStmt (DelLocation tl); SqlStmt (InsTrash tl); SqlStmt (DelRun r); SqlCommit])
      with (block [DelLocation tl; InsTrash tl; DelRun r]).
    change (fold_left (fun x0 y => apply_stmt y x0) [DelLocation tl; InsTrash tl; DelRun r] (cdb u))
      with (apply_all [DelLocation tl; InsTrash tl; DelRun r] (cdb u)).
    apply phase_then_empty_trash; [exact O|]. apply good_db_removeruns, Gd.
  - cbn [fst snd op_ord app]. apply only_empty_trash, G.
Qed.

Lemma trash_op_cdb : forall u l, ovl u = None ->
  let tl := inter (inter l (d_ds (cdb u))) (d_loc (cdb u)) in
  cdb (run_op u (Trash l)) = cdb u \/ cdb (run_op u (Trash l)) = apply_all [DelLocation tl; InsTrash tl] (cdb u).
Proof.
  intros u l O tl. unfold run_op. rewrite (recover_id u O). unfold plan. cbn [plan_body]. fold tl.
  destruct tl as [|x r] eqn:E; cbn [fst snd].
  - left. reflexivity.
  - right. change ([SqlBegin; SqlStmt (DelLocation (x :: r)); SqlStmt (InsTrash (x :: r)); SqlCommit])
      with (block [DelLocation (x :: r); InsTrash (x :: r)]).
    destruct (block_end [DelLocation (x :: r); InsTrash (x :: r)] u O) as (A & _). unfold recover. cbn [cdb]. exact A.
Qed.

Lemma good2_run_op : forall s o, good2 s -> good2 (run_op s o).
Proof.
  intros s o [G P]. pose proof G as [O Gd].
  assert (FT : is_insert o = true -> fresh_targets s o).
  { intros I d T A. destruct (mem d (d_trash (cdb s))) eqn:M; [|reflexivity]. rewrite (P d M) in A. discriminate. }
  split; [apply good_run_op_l; assumption|].
  destruct (insert_or_removal o) as [I|R].
  - destruct (insertion_end_cdb s o O I) as [E | (l & OK & TG & C)]; [rewrite E; exact P|].
    rewrite C. unfold apply_all. cbn [fold_left apply_stmt]. intros d. cbn [d_ds d_trash]. rewrite mem_addl.
    intros M. rewrite (P d M). apply orb_true_r.
  - intros d. destruct o; try discriminate.
    + rewrite (removal_ends_trash_empty s (Prune l ord) d G I). discriminate.
    + rewrite (removal_ends_trash_empty s (Unstore l ord) d G I). discriminate.
    + destruct (trash_op_cdb s l O) as [C|C]; cbn zeta in C; rewrite C; [apply P|].
      unfold apply_all. cbn [fold_left apply_stmt d_ds d_trash]. rewrite mem_addl, !mem_inter.
      specialize (P d). destruct (mem d (d_ds (cdb s))); [reflexivity|]. rewrite andb_false_r. cbn [andb orb]. exact P.
    + destruct (mem r (d_runs (cdb s))) eqn:Rr.
      * rewrite (removal_ends_trash_empty s (RemoveRuns r ord) d G Rr). discriminate.
      * assert (E : run_op s (RemoveRuns r ord) = s).
        { unfold run_op. rewrite (recover_id s O). unfold plan. cbn [plan_body]. rewrite Rr. cbn [fst snd run_steps fold_left].
          apply recover_id, O. }
        rewrite E. apply P.
    + rewrite (removal_ends_trash_empty s (EmptyTrash ord) d G I). discriminate.
Qed.

Lemma good2_init : good2 init.
Proof. split; [apply good_init|]. intros d H. discriminate. Qed.

Lemma good2_run : forall h s, good2 s -> good2 (run s h).
Proof. induction h as [|o r IH]; intros s G; [exact G|]. cbn [run fold_left]. apply IH, good2_run_op, G. Qed.

Lemma good_all_histories_l : forall h, good (run init h).
Proof. intros h. apply (good2_run h init good2_init). Qed.

(* the fresh-id premise of the all-or-nothing theorem is met by every accepted insertion of a fault-free history *)
Lemma fresh_id_of_good2 : forall s o d, good2 s -> is_insert o = true -> is_target s o d = true -> plan s o <> [] -> fresh_id s d.
Proof.
  intros s o d [[O G] P] I T NE.
  destruct (insertion_shape s o I) as [E | (l & body & E & NM & ST & OK & TG)]; [contradiction|].
  rewrite TG in T. pose proof (insert_ok_absent _ _ _ OK T) as A.
  destruct G as (G1 & G2 & G3 & G4 & G5). specialize (P d). specialize (G4 d). specialize (G5 d).
  unfold fresh_id. bits d. finish_bits.
Qed.

(* ------------------------------------------------------------------ the content of a completed transfer_from *)
Lemma write_artifact_run : forall t d v s,
  run_steps s (write_artifact t d v) =
  mkSt (cdb s) (ovl s) (fset (Final d) (Complete v) (fdel (Tmp t) (fset (Tmp t) (Complete v) (fset (Tmp t) Partial (fs s))))).
Proof.
  intros. unfold write_artifact, run_steps. cbn [fold_left do_step cdb ovl fs]. rewrite fget_fset_same. reflexivity.
Qed.

Lemma write_all_run : forall value l t s,
  let s' := run_steps s (write_all t value l) in
  cdb s' = cdb s /\ ovl s' = ovl s
  /\ (forall d, mem d l = true -> fget (Final d) (fs s') = Some (Complete (value d)))
  /\ (forall d, mem d l = false -> fget (Final d) (fs s') = fget (Final d) (fs s))
  /\ (forall d, fget (Ext d) (fs s') = fget (Ext d) (fs s)).
Proof.
  induction l as [|x r IH]; intros t s; cbn [write_all].
  - cbn zeta. cbn [run_steps fold_left]. repeat split; auto. intros d H. discriminate.
  - cbn zeta. rewrite run_steps_app, write_artifact_run.
    set (s1 := mkSt (cdb s) (ovl s) (fset (Final x) (Complete (value x)) (fdel (Tmp t) (fset (Tmp t) (Complete (value x)) (fset (Tmp t) Partial (fs s)))))).
    destruct (IH (t + 1) s1) as (A & B & C & D & E). cbn zeta in *.
    assert (F1 : forall d, d <> x -> fget (Final d) (fs s1) = fget (Final d) (fs s)).
    { intros d N. unfold s1. cbn [fs]. rewrite fget_fset_other by (apply Final_neq; exact N).
      rewrite fget_fdel_other by discriminate. rewrite !fget_fset_other by discriminate. reflexivity. }
    split; [rewrite A; reflexivity|]. split; [rewrite B; reflexivity|]. split; [|split].
    + intros d M. cbn [mem] in M. destruct (mem d r) eqn:Mr; [apply C; exact Mr|].
      destruct (N.eqb_spec d x) as [->|N]; [|discriminate].
      rewrite (D x Mr). unfold s1. cbn [fs]. apply fget_fset_same.
    + intros d M. cbn [mem] in M. destruct (N.eqb_spec d x) as [Exd|N]; [discriminate|].
      rewrite (D d M). apply F1, N.
    + intros d. rewrite E. unfold s1. cbn [fs]. rewrite fget_fset_other by discriminate.
      rewrite fget_fdel_other by discriminate. rewrite !fget_fset_other by discriminate. reflexivity.
Qed.

Lemma transfer_completes_l : forall s l d, ovl s = None -> insert_ok (cdb s) l = true -> mem d l = true ->
  let s' := run_op s (Transfer l) in
  recorded s' d = true /\ knows s' d = true /\ mem d (d_loc (cdb s')) = true /\ get s' d = GotValue (src_value d)
  /\ artifact s' d = true.
Proof.
  intros s l d O OK M s'.
  assert (NE : l <> []) by (intros ->; discriminate).
  assert (PL : plan s (Transfer l) = SqlBegin :: ([SqlStmt (InsDataset l)] ++ write_all (next_tmp (fs s)) src_value l
                                                    ++ [SqlStmt (InsLocation l); SqlStmt (InsRecords l)]) ++ [SqlCommit]).
  { unfold plan. cbn [plan_body]. destruct l as [|x r]; [contradiction|]. rewrite OK. cbn [fst snd].
    rewrite <- !app_assoc. reflexivity. }
  set (body := [SqlStmt (InsDataset l)] ++ write_all (next_tmp (fs s)) src_value l ++ [SqlStmt (InsLocation l); SqlStmt (InsRecords l)]) in *.
  assert (NM : no_marker body).
  { unfold body. apply Forall_app. split; [repeat constructor|]. apply Forall_app. split; [|repeat constructor].
    generalize (next_tmp (fs s)). generalize l. induction l0 as [|y q IH]; intros t; simpl; [constructor|].
    repeat constructor. apply IH. }
  assert (ST : stmts_of body = [InsDataset l; InsLocation l; InsRecords l]).
  { unfold body, stmts_of. rewrite !flat_map_app. simpl.
    assert (Z : forall l0 t, flat_map (fun t0 => match t0 with SqlStmt q => [q] | _ => [] end) (write_all t src_value l0) = []).
    { induction l0 as [|y q IH]; intros t; simpl; auto. }
    rewrite Z. reflexivity. }
  destruct (txn_block_end body s NM O) as [C _].
  (* the files: only the write_all part touches them *)
  assert (FS : fget (Final d) (fs (run_steps s (SqlBegin :: body ++ [SqlCommit]))) = Some (Complete (src_value d))).
  { change (SqlBegin :: body ++ [SqlCommit]) with ([SqlBegin] ++ body ++ [SqlCommit]). unfold body.
    rewrite <- !app_assoc. rewrite !run_steps_app.
    rewrite (sql_steps_fs [SqlCommit]) by (repeat constructor).
    rewrite (sql_steps_fs [SqlStmt (InsLocation l); SqlStmt (InsRecords l)]) by (repeat constructor).
    set (s1 := run_steps (run_steps s [SqlBegin]) [SqlStmt (InsDataset l)]).
    destruct (write_all_run src_value l (next_tmp (fs s)) s1) as (_ & _ & W & _). cbn zeta in W. apply W, M. }
  unfold s', run_op. rewrite (recover_id s O), PL.
  unfold artifact, recorded, knows, get, recover. cbn [cdb fs]. rewrite C, ST, FS.
  unfold apply_all. cbn [fold_left apply_stmt d_runs d_ds d_loc d_trash d_recs]. rewrite !mem_addl, M.
  repeat split; reflexivity.
Qed.
