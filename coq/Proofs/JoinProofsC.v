(* C06 lemmas, part C: foreign keys survive every history; order independence; the shipped universe; refutations. *)
From Coq Require Import String List Bool ZArith NArith Lia.
From V Require Import Model.Universe Model.Group Gen.Universes Model.Join Model.JoinCheck
  Proofs.GroupProofs Proofs.JoinProofs Proofs.JoinProofsB.
Import ListNotations.
Open Scope string_scope.
Open Scope list_scope.

Lemma fk_ok_parent c d e r n p : fk_ok c d e r = true -> In n (deps e) -> n <> ename e ->
  find_elem (ju c) n = Some p -> has_table c p = true ->
  exists r', In r' (tget d n) /\ agrees (ereq p) (rvals r') r = true.
Proof.
  unfold fk_ok. rewrite forallb_forall. intros H Hn Hne Hf Ht. specialize (H n Hn).
  destruct (String.eqb n (ename e)) eqn:E; [apply String.eqb_eq in E; contradiction|]. simpl in H.
  rewrite Hf, Ht in H. simpl in H. apply existsb_exists in H. exact H.
Qed.

(* a parent row never disappears: tables only grow or have a row replaced by one with the same key *)
Lemma parent_persists c env s b s' n p r0 a : wf_universe (ju c) = true -> trans c env s b s' ->
  find_elem (ju c) n = Some p -> In r0 (tget (recs s) n) -> agrees (ereq p) (rvals r0) a = true ->
  exists r1, In r1 (tget (recs s') n) /\ agrees (ereq p) (rvals r1) a = true.
Proof.
  intros Hwf Ht Hf Hr0 Ha. pose proof (wf_nodup _ Hwf) as Hnd. destruct (find_elem_some _ _ _ Hf) as [Hp Hpn].
  destruct Ht as [|e r Hin Hw Hht Hfind Hfk|e r r1 Hin Hw Hht Hfind Hfk|e r r1 Hin Hw Hht Hfind Hfk Ho|e r r1 Hin Hw Hfind];
    simpl; eauto.
  - unfold add_rec; simpl. destruct (String.eqb n (ename e)) eqn:E.
    + apply String.eqb_eq in E. subst n. rewrite E, tget_tset_same. exists r0. split; auto. apply in_or_app. rewrite <- E. auto.
    + apply String.eqb_neq in E. rewrite tget_tset_other by auto. eauto.
  - destruct (String.eqb n (ename e)) eqn:E.
    + apply String.eqb_eq in E. assert (p = e) by (eapply same_name_eq; eauto; congruence). subst p. rewrite E in *.
      destruct (same_key e (rvals r) r0) eqn:Hk.
      * exists r. split; [eapply put_rec_puts; eauto|]. unfold same_key in Hk. eapply agrees_via; eauto.
      * exists r0. split; auto. eapply put_rec_keeps; eauto.
    + apply String.eqb_neq in E. rewrite put_rec_other by auto. eauto.
  - destruct (String.eqb n (ename e)) eqn:E.
    + apply String.eqb_eq in E. assert (p = e) by (eapply same_name_eq; eauto; congruence). subst p. rewrite E in *.
      destruct (same_key e (rvals r) r0) eqn:Hk.
      * exists r. split; [eapply put_rec_puts; eauto|]. unfold same_key in Hk. eapply agrees_via; eauto.
      * exists r0. split; auto. eapply put_rec_keeps; eauto.
    + apply String.eqb_neq in E. rewrite put_rec_other by auto. eauto.
Qed.

Lemma fk_trans c env s b s' : wf_universe (ju c) = true -> fk_closed c (recs s) -> trans c env s b s' ->
  fk_closed c (recs s').
Proof.
  intros Hwf IH Ht. pose proof (wf_nodup _ Hwf) as Hnd.
  intros t r0 n p Ht0 Hr0 Hn Hne Hf Hhp.
  assert (Hold : In r0 (tget (recs s) (ename t)) ->
                 exists r', In r' (tget (recs s') n) /\ agrees (ereq p) (rvals r') (rvals r0) = true).
  { intros H. destruct (IH t r0 n p Ht0 H Hn Hne Hf Hhp) as (r' & Hr' & Ha). eapply parent_persists; eauto. }
  assert (Hnew : forall e r, In e (ju c) -> fk_ok c (recs s) e (rvals r) = true -> ename t = ename e -> r0 = r ->
                 exists r', In r' (tget (recs s') n) /\ agrees (ereq p) (rvals r') (rvals r0) = true).
  { intros e r Hin Hfk E ->. pose proof (same_name_eq _ _ _ Hnd Ht0 Hin E) as ->.
    destruct (fk_ok_parent _ _ _ _ _ _ Hfk Hn Hne Hf Hhp) as (r' & Hr' & Ha). eapply parent_persists; eauto. }
  destruct Ht as [|e r Hin Hw Hht Hfind Hfk|e r r1 Hin Hw Hht Hfind Hfk|e r r1 Hin Hw Hht Hfind Hfk Ho|e r r1 Hin Hw Hfind];
    simpl in *; auto.
  - unfold add_rec in Hr0; simpl in Hr0. destruct (String.eqb (ename t) (ename e)) eqn:E.
    + apply String.eqb_eq in E. rewrite E, tget_tset_same in Hr0. apply in_app_or in Hr0. destruct Hr0 as [H|[<-|[]]].
      * apply Hold. rewrite E. auto.
      * apply (Hnew e r Hin Hfk E eq_refl).
    + apply String.eqb_neq in E. rewrite tget_tset_other in Hr0 by auto. auto.
  - destruct (String.eqb (ename t) (ename e)) eqn:E.
    + apply String.eqb_eq in E. rewrite E in Hr0. destruct (put_rec_In _ _ _ _ Hr0) as (r2 & Hr2 & [[_ ->]|[_ ->]]).
      * apply (Hnew e r Hin Hfk E eq_refl).
      * apply Hold. rewrite E. auto.
    + apply String.eqb_neq in E. rewrite put_rec_other in Hr0 by auto. auto.
  - destruct (String.eqb (ename t) (ename e)) eqn:E.
    + apply String.eqb_eq in E. rewrite E in Hr0. destruct (put_rec_In _ _ _ _ Hr0) as (r2 & Hr2 & [[_ ->]|[_ ->]]).
      * apply (Hnew e r Hin Hfk E eq_refl).
      * apply Hold. rewrite E. auto.
    + apply String.eqb_neq in E. rewrite put_rec_other in Hr0 by auto. auto.
Qed.

Theorem fk_closed_hist_p c env h : wf_universe (ju c) = true -> fk_closed c (recs (run_hist c env h st0)).
Proof.
  intros Hwf. induction h as [|o h IH] using rev_ind.
  - intros t r n p _ H. simpl in H. contradiction.
  - rewrite run_hist_app. destruct (step_trans c env (run_hist c env h st0) o) as (b & Ht & _).
    eapply fk_trans; eauto.
Qed.

(* ---- the specification looks at the tables as sets ---- *)
Lemma existsb_set {A} (f : A -> bool) l l' : (forall x, In x l <-> In x l') -> existsb f l = existsb f l'.
Proof.
  intros H. apply bool_iff. rewrite !existsb_exists. split; intros (x & Hx & Hf); exists x; split; auto; apply H; auto.
Qed.

Lemma forallb_ext' {A} (f g : A -> bool) l : (forall x, f x = g x) -> forallb f l = forallb g l.
Proof. intros H. induction l as [|x l IH]; simpl; auto. rewrite H, IH. reflexivity. Qed.

Lemma existsb_ext' {A} (f g : A -> bool) l : (forall x, f x = g x) -> existsb f l = existsb g l.
Proof. intros H. induction l as [|x l IH]; simpl; auto. rewrite H, IH. reflexivity. Qed.

Definition same_tables (d d' : db) : Prop := forall e r, In r (tget d e) <-> In r (tget d' e).

Lemma valid_same_tables c ov d d' ns a : same_tables d d' -> valid c ov d ns a = valid c ov d' ns a.
Proof.
  intros H. unfold valid. f_equal.
  - apply forallb_ext'. intros e. unfold has_row. apply existsb_set. apply H.
  - destruct (spatial_pair c ns) as [|ea eb|]; auto. unfold sp_overlap, reg_match.
    transitivity (existsb (fun r => agrees (ereq ea) (rvals r) a
                                    && match rregion r with
                                       | Some x => existsb (fun r0 => agrees (ereq eb) (rvals r0) a
                                                                      && match rregion r0 with Some y => ov x y | None => false end)
                                                           (tget d' (ename eb))
                                       | None => false
                                       end) (tget d (ename ea))).
    + apply existsb_ext'. intros r. f_equal. destruct (rregion r); auto. apply existsb_set. apply H.
    + apply existsb_set. apply H.
Qed.

(* ---- the driver's own plan ---- *)
Lemma greedy_incl c fuel : forall plan ns, incl plan (greedy c fuel plan ns).
Proof.
  induction fuel as [|f IH]; simpl; intros plan ns; [apply incl_refl|].
  destruct (filter (fun d => negb (provided c plan d)) ns) as [|m rest]; [apply incl_refl|].
  destruct (find_elem (ju c) (argmax (score c (m :: rest)) m rest)); [|apply incl_refl].
  intros x Hx. apply IH. apply in_or_app. auto.
Qed.

Lemma greedy_in_u c fuel : forall plan ns, (forall t, In t plan -> In t (ju c)) ->
  forall t, In t (greedy c fuel plan ns) -> In t (ju c).
Proof.
  induction fuel as [|f IH]; simpl; intros plan ns Hp; auto.
  destruct (filter (fun d => negb (provided c plan d)) ns) as [|m rest]; auto.
  destruct (find_elem (ju c) (argmax (score c (m :: rest)) m rest)) as [e|] eqn:Hf; auto.
  apply IH. intros t Ht. apply in_app_or in Ht. destruct Ht as [Ht|[<-|[]]]; auto.
  apply (find_elem_some _ _ _ Hf).
Qed.

Lemma mandatory_in_u c ns t : In t (mandatory c ns) -> In t (ju c).
Proof.
  unfold mandatory. intros H. apply in_app_or in H. destruct H as [H|H].
  - apply filter_In in H. destruct H as [H _]. apply gelems_In in H. tauto.
  - destruct (spatial_pair c ns) as [|a b|] eqn:Hsp; try contradiction.
    destruct (spatial_pair_In _ _ _ _ Hsp) as [Ha Hb].
    destruct H as [<-|[<-|[]]].
    + destruct (fam_choices_In _ _ _ Ha) as (f & m & _ & _ & Hf & _). apply (find_elem_some _ _ _ Hf).
    + destruct (fam_choices_In _ _ _ Hb) as (f & m & _ & _ & Hf & _). apply (find_elem_some _ _ _ Hf).
Qed.

Definition plan_okb (c : jconf) (ns : list string) : bool :=
  let plan := full_plan c ns in
  covers c plan ns
  && forallb (fun t => memb (ename t) (map ename (spec_elems c ns))
                       || match spatial_pair c ns with
                          | SpPair a b => String.eqb (ename t) (ename a) || String.eqb (ename t) (ename b)
                          | _ => false
                          end) plan
  && match spatial_pair c ns with SpMany => false | _ => true end.

Section GeoC.
  Variable ov : N -> N -> bool.
  Variable env : N -> list N.
  Hypothesis env_sound : forall x y, ov x y = true -> exists p, In p (env x) /\ In p (env y).

  Theorem query_correct_p c s ns :
    wf_universe (ju c) = true -> uni_okb c = true -> plan_okb c ns = true ->
    fk_closed c (recs s) -> view_closed c (recs s) -> ovl_sound c env s -> ovl_nonnull c s ->
    query c ov s ns = QOk (spec c ov (recs s) ns).
  Proof.
    intros Hwf Hu Hok Hfk Hvw Hos Hon. pose proof (wf_nodup _ Hwf) as Hnd.
    unfold plan_okb in Hok. rewrite !andb_true_iff in Hok. destruct Hok as [[Hcov Hsub] Hnm].
    assert (Hinu : forall t, In t (full_plan c ns) -> In t (ju c)).
    { unfold full_plan. apply greedy_in_u. apply mandatory_in_u. }
    unfold query. eapply plan_correct_p; eauto.
    - intros t Ht. rewrite forallb_forall in Hsub. specialize (Hsub t Ht). apply orb_true_iff in Hsub.
      destruct Hsub as [H|H].
      + left. apply memb_In in H. apply in_map_iff in H. destruct H as (e & E & He).
        assert (t = e). { eapply same_name_eq; eauto. apply spec_elems_In in He. tauto. } subst. auto.
      + right. destruct (spatial_pair c ns) as [|a b|] eqn:Hsp; try discriminate. exists a, b. split; auto.
        destruct (spatial_pair_In _ _ _ _ Hsp) as [Ha Hb].
        destruct (endpoint_facts c ns a Hu Ha) as (Hia & _). destruct (endpoint_facts c ns b Hu Hb) as (Hib & _).
        apply orb_true_iff in H. destruct H as [H|H]; apply String.eqb_eq in H; [left|right]; eapply same_name_eq; eauto.
    - unfold full_plan. apply greedy_incl.
    - destruct (spatial_pair c ns); congruence.
  Qed.

  (* end to end: after ANY history of inserts / replaces / syncs / sync-updates (skip_existing excluded) the query
     returns the specification of the final records *)
  Theorem history_query_correct_p c h ns :
    wf_universe (ju c) = true -> uni_okb c = true -> plan_okb c ns = true -> skip_free h = true ->
    view_closed c (recs (run_hist c env h st0)) ->
    query c ov (run_hist c env h st0) ns = QOk (spec c ov (recs (run_hist c env h st0)) ns).
  Proof.
    intros Hwf Hu Hok Hsf Hvw. apply query_correct_p; auto.
    - apply fk_closed_hist_p; auto.
    - apply ovl_sound_hist_p; auto.
    - apply (ovl_inv_hist_p c env h Hwf Hsf).
  Qed.

  (* two histories: both answers are the specification of their final records, and the specification's membership
     test sees the tables as sets *)
  Theorem order_independent_partial_p c h h' ns :
    wf_universe (ju c) = true -> uni_okb c = true -> plan_okb c ns = true ->
    skip_free h = true -> skip_free h' = true ->
    let s := run_hist c env h st0 in let s' := run_hist c env h' st0 in
    view_closed c (recs s) -> view_closed c (recs s') -> same_tables (recs s) (recs s') ->
    query c ov s ns = QOk (filter (valid c ov (recs s) ns) (cands (recs s) ns))
    /\ query c ov s' ns = QOk (filter (valid c ov (recs s') ns) (cands (recs s') ns))
    /\ forall a, valid c ov (recs s) ns a = valid c ov (recs s') ns a.
  Proof.
    intros Hwf Hu Hok Hsf Hsf' s s' Hv Hv' Hsame. repeat split.
    - apply history_query_correct_p; auto.
    - apply history_query_correct_p; auto.
    - intros a. apply valid_same_tables. exact Hsame.
  Qed.
End GeoC.

