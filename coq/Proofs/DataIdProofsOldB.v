(* C13 over the older shipped universes: the lookup-order facts of daf_butler universe 6 (today the same model universe
   as the current one; otherwise a sweep of its 2^13 groups). *)
From Coq Require Import String List Bool Arith.
From V Require Import Model.Universe Model.Group Gen.Universes Proofs.DataIdProofsOldA.
Lemma lookup_sweep_old6 : lookup_sweep u_old6 = true.
Proof. first [ exact (sweep_transfer u_old6 u_current eq_refl lookup_sweep_current) | vm_cast_no_check (eq_refl true) ]. Qed.
