(* C13 over the older shipped universes: the lookup-order sweep of daf_butler universe 6 (2^13 groups). *)
From Coq Require Import String List Bool Arith.
From V Require Import Model.Universe Model.Group Gen.Universes Proofs.DataIdProofsOldA.
Lemma lookup_sweep_old6 : lookup_sweep u_old6 = true. Proof. vm_cast_no_check (eq_refl true). Qed.
