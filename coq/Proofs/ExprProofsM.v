(* C05 proofs, part M: the legacy normal form and governor constraint; the exact guard for `.begin` / `.end`. *)
From Coq Require Import ZArith List Bool String Lia.
From V Require Import Base.Tri Gen.TimespanGen Model.Pred Gen.PredGen Proofs.PredProofs Model.Expr Model.SqlExpr
  Model.ExprLegacy Proofs.ExprProofsA Proofs.ExprProofsB Proofs.ExprProofsC Proofs.ExprProofsL.
Import ListNotations.
Open Scope Z_scope.

(* ------------------------------------------------------------------ the disjunctive normal form means the same *)
Definition lit_val (rho : env) (a : bool * expr) : tri := if fst a then tri_not (deval rho (snd a)) else deval rho (snd a).
Definition br_val (rho : env) (br : list (bool * expr)) : tri := fold_right (fun a acc => tri_and (lit_val rho a) acc) TT br.
Definition dnf_val (rho : env) (d : list (list (bool * expr))) : tri := fold_right (fun br acc => tri_or (br_val rho br) acc) FF d.

Lemma br_val_app : forall rho a b, br_val rho (a ++ b) = tri_and (br_val rho a) (br_val rho b).
Proof. intros rho a b. induction a; simpl; [destruct (br_val rho b); reflexivity|]. now rewrite IHa, tri_and_assoc. Qed.
Lemma dnf_val_app : forall rho x y, dnf_val rho (x ++ y) = tri_or (dnf_val rho x) (dnf_val rho y).
Proof. intros rho x y. induction x; simpl; [destruct (dnf_val rho y); reflexivity|]. now rewrite IHx, tri_or_assoc. Qed.

Lemma dnf_val_map : forall rho a y, dnf_val rho (map (fun b => a ++ b) y) = tri_and (br_val rho a) (dnf_val rho y).
Proof.
  intros rho a y. induction y; simpl; [destruct (br_val rho a); reflexivity|].
  now rewrite IHy, br_val_app, tri_and_or_distr_l.
Qed.

Lemma dnf_val_cross : forall rho x y, dnf_val rho (cross x y) = tri_and (dnf_val rho x) (dnf_val rho y).
Proof.
  intros rho x y. unfold cross. induction x as [|a x IH]; simpl; [reflexivity|].
  rewrite dnf_val_app, dnf_val_map, IH.
  destruct (br_val rho a), (dnf_val rho x), (dnf_val rho y); reflexivity.
Qed.

Lemma deval_not : forall rho a, deval rho (ENot a) = tri_not (deval rho a).
Proof. intros. unfold deval. simpl. apply tri_nv_id. Qed.
Lemma deval_and : forall rho a b, deval rho (EAnd a b) = tri_and (deval rho a) (deval rho b).
Proof. intros. unfold deval. simpl. apply tri_nv_id. Qed.
Lemma deval_or : forall rho a b, deval rho (EOr a b) = tri_or (deval rho a) (deval rho b).
Proof. intros. unfold deval. simpl. apply tri_nv_id. Qed.

Lemma atom_dnf : forall rho e ng, dnf_val rho [[(ng, e)]] = if ng then tri_not (deval rho e) else deval rho e.
Proof.
  intros rho e ng. unfold dnf_val, br_val, lit_val. cbn [fold_right fst snd].
  destruct ng; [destruct (tri_not (deval rho e))|destruct (deval rho e)]; reflexivity.
Qed.

Lemma ldnf_sound_p : forall rho e ng,
  dnf_val rho (ldnf ng e) = if ng then tri_not (deval rho e) else deval rho e.
Proof.
  intros rho. induction e; intros ng; try (exact (atom_dnf rho _ ng)).
  - simpl. rewrite IHe, deval_not. destruct ng; simpl; [now rewrite tri_not_invol|reflexivity].
  - simpl. rewrite deval_and. destruct ng.
    + now rewrite dnf_val_app, IHe1, IHe2, tri_not_and.
    + now rewrite dnf_val_cross, IHe1, IHe2.
  - simpl. rewrite deval_or. destruct ng.
    + now rewrite dnf_val_cross, IHe1, IHe2, tri_not_or.
    + now rewrite dnf_val_app, IHe1, IHe2.
Qed.

(* ------------------------------------------------------------------ the governor constraint *)
Lemma dnf_true_branch : forall rho d, dnf_val rho d = TT -> exists br, In br d /\ br_val rho br = TT.
Proof.
  intros rho. induction d as [|b d IH]; simpl; intros H; [discriminate|].
  destruct (br_val rho b) eqn:E.
  - exists b; auto.
  - destruct (dnf_val rho d) eqn:D; try discriminate. destruct (IH eq_refl) as [br [I V]]. exists br; auto.
  - destruct (dnf_val rho d) eqn:D; try discriminate. destruct (IH eq_refl) as [br [I V]]. exists br; auto.
Qed.

Lemma br_true_lits : forall rho br, br_val rho br = TT -> forall a, In a br -> lit_val rho a = TT.
Proof.
  intros rho. induction br as [|x br IH]; simpl; intros H a Ha; [contradiction|].
  destruct (lit_val rho x) eqn:E; destruct (br_val rho br) eqn:B; try discriminate.
  destruct Ha as [<-|Ha]; [assumption|]. now apply IH.
Qed.

Lemma all_some_in : forall {A B} (f : A -> option B) l vs x,
  all_some (map f l) = Some vs -> In x l -> exists v, f x = Some v /\ In v vs.
Proof.
  intros A B f. induction l as [|y l IH]; simpl; intros vs x H Hx; [contradiction|].
  destruct (f y) as [w|] eqn:F; [|discriminate].
  destruct (all_some (map f l)) as [t|] eqn:T; [|discriminate]. inversion H; subst vs.
  destruct Hx as [<-|Hx].
  - exists w. split; [assumption|now left].
  - destruct (IH t x eq_refl Hx) as [v [Fv Iv]]. exists v. split; [assumption|now right].
Qed.

Lemma kv_first_in : forall k l v, kv_first k l = Some v -> In (k, v) l.
Proof.
  intros k. induction l as [|[c w] l IH]; simpl; intros v H; [discriminate|].
  destruct (N.eqb c k) eqn:E.
  - apply N.eqb_eq in E. inversion H; subst. now left.
  - right. now apply IH.
Qed.

Section Gov.
  Variable iskey : col -> bool.
  Variable gov : col.

  (* the atom either says nothing about the governor, or is the POSITIVE `gov = literal` / `literal = gov` *)
  Definition plain_gov_atom (a : bool * expr) : bool :=
    match atom_kv iskey a with
    | (k, _) :: _ =>
        negb (N.eqb k gov) ||
        (negb (fst a) &&
         match snd a with
         | ECmp CEq (ECol _ _) (ELit _) | ECmp CEq (ELit _) (ECol _ _) => true
         | _ => false
         end)
    | [] => true
    end.
  Definition plain_gov (e : expr) : bool := forallb (forallb plain_gov_atom) (ldnf false e).

  Lemma plain_atom_holds : forall rho a v,
    plain_gov_atom a = true -> In (gov, v) (atom_kv iskey a) -> lit_val rho a = TT ->
    cmp3 CEq (rho gov) (Some v) = TT \/ cmp3 CEq (Some v) (rho gov) = TT.
  Proof.
    intros rho [ng a] v Hp Hin Hv. unfold plain_gov_atom in Hp.
    destruct (atom_kv iskey (ng, a)) as [|[k w] r] eqn:K; [contradiction|].
    assert (Hr : r = []).
    { unfold atom_kv in K. simpl in K. destruct a; try discriminate. destruct o; try discriminate.
      destruct (key_of iskey a1), (val_of a2), (val_of a1), (key_of iskey a2); inversion K; reflexivity. }
    subst r. destruct Hin as [Hin|[]]. inversion Hin; subst k w. rewrite N.eqb_refl in Hp. simpl in Hp.
    apply andb_true_iff in Hp as [Hng Hs]. apply negb_true_iff in Hng. simpl in Hng; subst ng.
    unfold lit_val in Hv. simpl in Hv, Hs.
    destruct a; try discriminate. destruct o; try discriminate.
    destruct a1; try discriminate; destruct a2; try discriminate.
    - (* literal = column *)
      unfold atom_kv in K. simpl in K. destruct (iskey c) eqn:Ik.
      + destruct v0; inversion K; subst; right; unfold deval in Hv; simpl in Hv; rewrite tri_nv_id in Hv; exact Hv.
      + destruct v0; discriminate.
    - (* column = literal *)
      unfold atom_kv in K. simpl in K. destruct (iskey c) eqn:Ik.
      + destruct v0; inversion K; subst; left; unfold deval in Hv; simpl in Hv; rewrite tri_nv_id in Hv; exact Hv.
      + discriminate.
  Qed.

  (* on expressions whose governor atoms are all positive equalities the constraint handed to the dataset search is
     sound: every row on which the expression is TRUE carries one of the listed governor values *)
  Lemma lgov_sound_p : forall rho e vs,
    plain_gov e = true -> lgov iskey gov e = Some vs -> deval rho e = TT ->
    exists v, In v vs /\ (cmp3 CEq (rho gov) (Some v) = TT \/ cmp3 CEq (Some v) (rho gov) = TT).
  Proof.
    intros rho e vs Hp Hg Hv.
    pose proof (ldnf_sound_p rho e false) as S. simpl in S. rewrite Hv in S.
    destruct (dnf_true_branch rho _ S) as [br [Ibr Vbr]].
    unfold lgov in Hg.
    destruct (all_some_in (fun br => kv_first gov (branch_kvs iskey br)) _ vs br Hg Ibr) as [v [Fv Iv]].
    exists v. split; [assumption|].
    apply kv_first_in in Fv. unfold branch_kvs in Fv. apply in_flat_map in Fv as [a [Ia Ka]].
    unfold plain_gov in Hp. rewrite forallb_forall in Hp. specialize (Hp br Ibr). rewrite forallb_forall in Hp.
    eapply plain_atom_holds; [exact (Hp a Ia) | exact Ka | exact (br_true_lits rho br Vbr a Ia)].
  Qed.
End Gov.

(* ... and a NEGATED governor equality breaks it: NOT (instrument = 'Cam') is accepted, keeps the 'Oth' row, yet the
   constraint is {'Cam'}: a RUN whose summary holds only 'Oth' is dropped from the dataset search *)
Lemma legacy_negated_governor_refuted_p :
  let iskey := fun c => N.eqb c 0 in
  plain_gov iskey 0%N e_notgov = false /\
  lgov iskey 0%N e_notgov = Some [VStr "Cam"] /\
  deval rho_oth e_notgov = TT /\
  match lcompile iskey (fun _ => true) 0%N [VStr "Cam"; VStr "Oth"] e_notgov with
  | Some q => keeps rho_oth q = true | None => False end /\
  lprune_row [("rO"%string, [VStr "Oth"]); ("rm"%string, [VStr "Cam"; VStr "Oth"])]
             (lgov iskey 0%N e_notgov) (Some (VStr "rO")) = false /\
  lprune_row [("rO"%string, [VStr "Oth"]); ("rm"%string, [VStr "Cam"; VStr "Oth"])]
             (lgov iskey 0%N e_notgov) (Some (VStr "rm")) = true.
Proof. vm_compute. repeat split; reflexivity. Qed.

(* ------------------------------------------------------------------ `.begin` / `.end`: bounds_ok is EXACTLY the guard *)
Lemma typed_bounds_false : forall rho e t,
  typeof e = Some t -> t <> DBool -> bounds_ok rho e = false ->
  exists a, (e = EBegin a \/ e = EEnd a) /\ typeof a = Some DSpan /\ dval rho a = None /\ bounds_ok rho a = true.
Proof.
  intros rho. induction e; simpl; intros dt Ht Hnb Hb; try discriminate.
  - (* EBegin *)
    destruct (typeof e) as [[]|] eqn:T; try discriminate.
    destruct (bounds_ok rho e) eqn:B.
    + exists e. rewrite andb_true_r in Hb. apply negb_false_iff in Hb.
      destruct (dval rho e); [discriminate|]. auto.
    + destruct (IHe DSpan eq_refl ltac:(discriminate) eq_refl) as [a [[-> | ->] _]]; simpl in T;
        destruct (typeof a) as [[]|]; discriminate.
  - (* EEnd *)
    destruct (typeof e) as [[]|] eqn:T; try discriminate.
    destruct (bounds_ok rho e) eqn:B.
    + exists e. rewrite andb_true_r in Hb. apply negb_false_iff in Hb.
      destruct (dval rho e); [discriminate|]. auto.
    + destruct (IHe DSpan eq_refl ltac:(discriminate) eq_refl) as [a [[-> | ->] _]]; simpl in T;
        destruct (typeof a) as [[]|]; discriminate.
  - (* ENeg *)
    exfalso. destruct (typeof e) as [te|] eqn:T; [|discriminate].
    assert (te <> DBool /\ te <> DTime) as [N1 N2] by (destruct te; try discriminate; split; discriminate).
    destruct (IHe te eq_refl N1 Hb) as [a [[-> | ->] [Ta _]]]; simpl in T; rewrite Ta in T; inversion T; subst; contradiction.
  - (* EArith *)
    exfalso. destruct (typeof e1) as [ta|] eqn:T1; [|discriminate]. destruct (typeof e2) as [tb|] eqn:T2; [|dsc].
    assert (ta <> DBool /\ ta <> DTime /\ tb <> DBool /\ tb <> DTime) as [A1 [A2 [B1 B2]]].
    { destruct (intlike ta && intlike tb) eqn:Ei.
      - apply andb_true_iff in Ei as [Ia Ib]. destruct ta, tb; try discriminate; repeat split; discriminate.
      - destruct (dty_eqb ta DReal && dty_eqb tb DReal) eqn:Er; [|dsc].
        apply andb_true_iff in Er as [Ea Eb]. apply dty_eqb_eq in Ea, Eb. subst. repeat split; discriminate. }
    apply andb_false_iff in Hb as [Hb|Hb].
    + destruct (IHe1 ta eq_refl A1 Hb) as [a [[-> | ->] [Ta _]]]; simpl in T1; rewrite Ta in T1; inversion T1; subst; contradiction.
    + destruct (IHe2 tb eq_refl B1 Hb) as [a [[-> | ->] [Ta _]]]; simpl in T2; rewrite Ta in T2; inversion T2; subst; contradiction.
  - exfalso. destruct (is_ENull e2).
    + destruct (typeof e1); [|dsc]. destruct (_ && _); inversion Ht; subst; contradiction.
    + destruct (is_ENull e1).
      * destruct (typeof e2); [|dsc]. destruct (_ && _); inversion Ht; subst; contradiction.
      * destruct (typeof e1), (typeof e2); try discriminate. destruct (_ && _); inversion Ht; subst; contradiction.
  - exfalso. destruct (typeof e1) as [[]|], (typeof e2) as [[]|]; try discriminate; inversion Ht; subst; contradiction.
  - exfalso. destruct (typeof e); [|dsc]. destruct (_ && _); inversion Ht; subst; contradiction.
  - exfalso. destruct (typeof e) as [[]|]; try discriminate; inversion Ht; subst; contradiction.
  - exfalso. destruct (typeof e1) as [[]|], (typeof e2) as [[]|]; try discriminate; inversion Ht; subst; contradiction.
  - exfalso. destruct (typeof e1) as [[]|], (typeof e2) as [[]|]; try discriminate; inversion Ht; subst; contradiction.
Qed.

(* the SQL value of a well-typed column expression is its documented value IF AND ONLY IF no `.begin` / `.end` in it is
   applied to a NULL timespan; where the guard fails the SQL value is nanosecond 0 and the documented value NULL *)
Lemma scalar_correct_iff_p : forall rho e t,
  typeof e = Some t -> t <> DBool -> env_ok rho e = true ->
  (seval rho (sc e) = dval rho e <-> bounds_ok rho e = true).
Proof.
  intros rho e t Ht Hnb He. destruct (typeof_scalar e t Ht Hnb) as [S _]. split.
  - intros E. destruct (bounds_ok rho e) eqn:B; [reflexivity|]. exfalso.
    destruct (typed_bounds_false rho e t Ht Hnb B) as [a [Sh [Ta [Da Ba]]]].
    assert (Sa : scalar a = true) by (destruct Sh as [->| ->]; exact S).
    pose proof (sc_correct rho a Sa Ba) as SA. rewrite Da in SA.
    destruct Sh as [-> | ->]; simpl in E; rewrite SA, Da in E; discriminate.
  - intros B. now apply sc_correct.
Qed.

Lemma null_bound_is_zero_p : forall rho a,
  scalar a = true -> bounds_ok rho a = true -> dval rho a = None ->
  seval rho (sc (EBegin a)) = Some (VTime 0) /\ seval rho (sc (EEnd a)) = Some (VTime 0) /\
  dval rho (EBegin a) = None /\ dval rho (EEnd a) = None.
Proof.
  intros rho a S B D. pose proof (sc_correct rho a S B) as SA. rewrite D in SA.
  simpl. now rewrite SA, D.
Qed.
