(* C15 -- lemmas about the legacy normal-form machinery (Model/NormalForm.v):
   soundness (Kleene truth value preserved), normality (`satisfies form` holds for whatever normalize
   returns), termination (enough fuel always exists, so the out-of-fuel / assertion result never occurs),
   and soundness of flatten / fromTree. *)
From Coq Require Import NArith List Bool Lia Arith.
From V Require Import Base.Tri Model.Pred Model.NormalForm.
Import ListNotations.

Ltac tri_cases := intros; repeat match goal with x : tri |- _ => destruct x end; reflexivity.
Ltac bt_cases := intros; repeat match goal with x : bool |- _ => destruct x end;
                 repeat match goal with x : tri |- _ => destruct x end; reflexivity.

(* ---- Kleene algebra, generically in the operator ---------------------------------------------------- *)
Lemma bop3_assoc : forall o a b c, bop3 o a (bop3 o b c) = bop3 o (bop3 o a b) c. Proof. bt_cases. Qed.
Lemma bop3_comm : forall o a b, bop3 o a b = bop3 o b a. Proof. bt_cases. Qed.
Lemma bop3_unit_r : forall o a, bop3 o a (unit3 o) = a. Proof. bt_cases. Qed.
Lemma bop3_unit_l : forall o a, bop3 o (unit3 o) a = a. Proof. bt_cases. Qed.
Lemma bop3_de_morgan : forall o a b, tri_not (bop3 o a b) = bop3 (negb o) (tri_not a) (tri_not b). Proof. bt_cases. Qed.
(* either operator distributes over either operator (over itself by idempotence) *)
Lemma bop3_distr_l : forall o o2 x a b, bop3 o x (bop3 o2 a b) = bop3 o2 (bop3 o x a) (bop3 o x b). Proof. bt_cases. Qed.
Lemma bop3_distr_r : forall o o2 x a b, bop3 o (bop3 o2 a b) x = bop3 o2 (bop3 o a x) (bop3 o b x). Proof. bt_cases. Qed.
(* the four-way rule needs the two inner operators to be equal and different from the outer one *)
Lemma bop3_distr_4 : forall o a b c d,
  bop3 o (bop3 (negb o) a b) (bop3 (negb o) c d)
  = bop3 (negb o) (bop3 (negb o) (bop3 o a c) (bop3 o a d)) (bop3 (negb o) (bop3 o b c) (bop3 o b d)).
Proof. bt_cases. Qed.
Lemma tri_not_invol' : forall a, tri_not (tri_not a) = a. Proof. tri_cases. Qed.

(* ---- NOT pushed to the atoms, tree -> wrapper --------------------------------------------------------- *)
Lemma not_sound_p : forall v w, weval3 v (not_ w) = tri_not (weval3 v w).
Proof.
  intros v w. induction w as [a|a|l IHl o r IHr]; cbn [not_ weval3].
  - reflexivity.
  - now rewrite tri_not_invol'.
  - now rewrite IHl, IHr, bop3_de_morgan.
Qed.

Lemma not_invol_p : forall w, not_ (not_ w) = w.
Proof. induction w as [a|a|l IHl o r IHr]; cbn [not_]; auto. now rewrite IHl, IHr, negb_involutive. Qed.

Lemma wrap_of_sound_p : forall v t, weval3 v (wrap_of t) = leval3 v t.
Proof.
  intros v t. induction t as [a|t IH|l IHl o r IHr|t IH]; cbn [wrap_of weval3 leval3]; auto.
  - now rewrite not_sound_p, IH.
  - now rewrite IHl, IHr.
Qed.

(* ---- facts about `allows` -------------------------------------------------------------------------------- *)
Lemma allows_false : forall form i o, allows form i o = false -> i = form /\ o = negb form.
Proof. intros [] [] []; cbn; intros H; try discriminate; auto. Qed.
Lemma allows_outer : forall form i, allows form i form = true.
Proof. intros [] []; reflexivity. Qed.

(* ---- dispatch: soundness ----------------------------------------------------------------------------------- *)
Definition rec_sound (v : atom -> tri) (rec : wrap -> option wrap) : Prop :=
  forall x y, rec x = Some y -> weval3 v y = weval3 v x.

Ltac inv_some :=
  repeat match goal with
  | H : Some _ = Some _ |- _ => inversion H; subst; clear H
  | H : None = Some _ |- _ => discriminate H
  | H : match ?r ?x with Some _ => _ | None => _ end = Some _ |- _ =>
      let E := fresh "E" in destruct (r x) eqn:E; try discriminate H
  end.

Lemma dispatch_sound_p : forall v rec form L o R w, rec_sound v rec ->
  dispatch rec form L o R = Some w -> weval3 v w = bop3 o (weval3 v L) (weval3 v R).
Proof.
  intros v rec form L o R w HR H.
  destruct L as [a|a|ll lo lr]; destruct R as [b|b|rl ro rr]; cbn [dispatch] in H;
    try (inversion H; subst; reflexivity).
  - (* atom, binary *)
    destruct (allows form ro o); inv_some; [reflexivity|].
    cbn [weval3]. rewrite (HR _ _ E), (HR _ _ E0). cbn [weval3]. symmetry; apply bop3_distr_l.
  - destruct (allows form ro o); inv_some; [reflexivity|].
    cbn [weval3]. rewrite (HR _ _ E), (HR _ _ E0). cbn [weval3]. symmetry; apply bop3_distr_l.
  - (* binary, atom *)
    destruct (allows form lo o); inv_some; [reflexivity|].
    cbn [weval3]. rewrite (HR _ _ E), (HR _ _ E0). cbn [weval3]. symmetry; apply bop3_distr_r.
  - destruct (allows form lo o); inv_some; [reflexivity|].
    cbn [weval3]. rewrite (HR _ _ E), (HR _ _ E0). cbn [weval3]. symmetry; apply bop3_distr_r.
  - (* binary, binary *)
    destruct (allows form lo o) eqn:A1; destruct (allows form ro o) eqn:A2.
    + inv_some. reflexivity.
    + inv_some. cbn [weval3]. rewrite (HR _ _ E), (HR _ _ E0). cbn [weval3]. symmetry; apply bop3_distr_l.
    + inv_some. cbn [weval3]. rewrite (HR _ _ E), (HR _ _ E0). cbn [weval3]. symmetry; apply bop3_distr_r.
    + destruct (allows form lo ro); [|discriminate].
      apply allows_false in A1 as [-> ->]. apply allows_false in A2 as [-> _].
      inv_some. cbn [weval3].
      rewrite (HR _ _ E), (HR _ _ E0), (HR _ _ E1), (HR _ _ E2). cbn [weval3].
      generalize (weval3 v ll) (weval3 v lr) (weval3 v rl) (weval3 v rr). clear.
      destruct form; intros [] [] [] []; reflexivity.
Qed.

Lemma normalize_sound_p : forall v fuel form w w', normalize fuel form w = Some w' -> weval3 v w' = weval3 v w.
Proof.
  intros v fuel form. induction fuel as [|n IH]; intros w w' H; [discriminate|].
  destruct w as [a|a|l o r]; cbn [normalize] in H; try (inversion H; reflexivity).
  destruct (satisfies form (WBin l o r)); [inversion H; reflexivity|].
  destruct (normalize n form l) as [L|] eqn:EL; [|discriminate].
  destruct (normalize n form r) as [R|] eqn:ER; [|discriminate].
  apply (dispatch_sound_p v) in H; [|exact IH].
  cbn [weval3]. now rewrite H, (IH _ _ EL), (IH _ _ ER).
Qed.

(* ---- dispatch: the result is in normal form --------------------------------------------------------------- *)
Definition rec_normal (form : bool) (rec : wrap -> option wrap) : Prop :=
  forall x y, rec x = Some y -> satisfies form y = true.

Lemma sat_outer : forall form x y, satisfies form x = true -> satisfies form y = true ->
  satisfies form (WBin x form y) = true.
Proof.
  intros form x y Hx Hy. cbn [satisfies]. rewrite Hx, Hy. cbn.
  destruct x, y; cbn [sat_dispatch]; rewrite ?allows_outer; reflexivity.
Qed.

Lemma dispatch_normal_p : forall rec form L o R w, rec_normal form rec ->
  satisfies form L = true -> satisfies form R = true ->
  dispatch rec form L o R = Some w -> satisfies form w = true.
Proof.
  intros rec form L o R w HR HL HRr H.
  destruct L as [a|a|ll lo lr]; destruct R as [b|b|rl ro rr]; cbn [dispatch] in H;
    try (inversion H; subst; reflexivity).
  - destruct (allows form ro o) eqn:A; inv_some.
    + cbn [satisfies] in *. rewrite HRr. cbn. now rewrite A.
    + apply allows_false in A as [-> _]. apply sat_outer; eauto.
  - destruct (allows form ro o) eqn:A; inv_some.
    + cbn [satisfies] in *. rewrite HRr. cbn. now rewrite A.
    + apply allows_false in A as [-> _]. apply sat_outer; eauto.
  - destruct (allows form lo o) eqn:A; inv_some.
    + cbn [satisfies] in *. rewrite HL. cbn. now rewrite A.
    + apply allows_false in A as [-> _]. apply sat_outer; eauto.
  - destruct (allows form lo o) eqn:A; inv_some.
    + cbn [satisfies] in *. rewrite HL. cbn. now rewrite A.
    + apply allows_false in A as [-> _]. apply sat_outer; eauto.
  - destruct (allows form lo o) eqn:A1; destruct (allows form ro o) eqn:A2.
    + inv_some. cbn [satisfies] in *. rewrite HL, HRr. cbn. now rewrite A1, A2.
    + inv_some. apply allows_false in A2 as [-> _]. apply sat_outer; eauto.
    + inv_some. apply allows_false in A1 as [-> _]. apply sat_outer; eauto.
    + destruct (allows form lo ro); [|discriminate].
      apply allows_false in A1 as [-> _]. apply allows_false in A2 as [-> _].
      inv_some. apply sat_outer; apply sat_outer; eauto.
Qed.

Lemma normalize_normal_p : forall fuel form w w', normalize fuel form w = Some w' -> satisfies form w' = true.
Proof.
  intros fuel form. induction fuel as [|n IH]; intros w w' H; [discriminate|].
  destruct w as [a|a|l o r]; cbn [normalize] in H; try (inversion H; reflexivity).
  destruct (satisfies form (WBin l o r)) eqn:S; [inversion H; subst; exact S|].
  destruct (normalize n form l) as [L|] eqn:EL; [|discriminate].
  destruct (normalize n form r) as [R|] eqn:ER; [|discriminate].
  eapply dispatch_normal_p; [exact IH| | |exact H]; eauto.
Qed.

(* normalize leaves an already-normal expression alone *)
Lemma normalize_fixpoint_p : forall n form w, satisfies form w = true -> normalize (S n) form w = Some w.
Proof. intros n form [a|a|l o r] H; cbn [normalize]; auto. now rewrite H. Qed.

(* ---- termination: enough fuel always exists ------------------------------------------------------------------ *)
Lemma wsize_pos : forall w, 1 <= wsize w.
Proof. destruct w; cbn; lia. Qed.

Lemma sat_children : forall form l o r, satisfies form (WBin l o r) = true ->
  satisfies form l = true /\ satisfies form r = true.
Proof.
  intros form l o r H. cbn [satisfies] in H.
  apply andb_prop in H as [H _]. now apply andb_prop in H.
Qed.

(* normalize with fuel > k succeeds on `WBin L o R` for normal L, R of total size <= k, provided dispatch does *)
Definition disp_ok (form : bool) (k : nat) : Prop :=
  forall L o R n, satisfies form L = true -> satisfies form R = true -> wsize L + wsize R <= k -> k <= n ->
  exists w, dispatch (normalize n form) form L o R = Some w.
Definition norm_ok (form : bool) (k : nat) : Prop :=
  forall L o R n, satisfies form L = true -> satisfies form R = true -> wsize L + wsize R <= k -> S k <= n ->
  exists w, normalize n form (WBin L o R) = Some w.

Lemma norm_from_disp : forall form k, disp_ok form k -> norm_ok form k.
Proof.
  intros form k D L o R n HL HR Hs Hn.
  destruct n as [|n]; [lia|]. cbn [normalize].
  destruct (satisfies form (WBin L o R)); [eauto|].
  pose proof (wsize_pos L). pose proof (wsize_pos R).
  destruct n as [|n']; [lia|].
  rewrite (normalize_fixpoint_p n' form L HL), (normalize_fixpoint_p n' form R HR).
  apply D; auto. lia.
Qed.

Lemma disp_all : forall form k, disp_ok form k.
Proof.
  intros form k. induction k as [k IHk] using lt_wf_ind.
  intros L o R n HL HR Hs Hn.
  assert (N : forall X Y, satisfies form X = true -> satisfies form Y = true -> wsize X + wsize Y < k ->
              exists w, normalize n form (WBin X o Y) = Some w).
  { intros X Y HX HY Hlt.
    assert (D : disp_ok form (wsize X + wsize Y)) by (apply IHk; exact Hlt).
    apply (norm_from_disp form _ D); auto; lia. }
  destruct L as [a|a|ll lo lr]; destruct R as [b|b|rl ro rr]; cbn [dispatch]; eauto.
  - apply sat_children in HR as HC. destruct HC as [H1 H2]. cbn [wsize] in Hs.
    destruct (allows form ro o); eauto.
    destruct (N (Opaque a) rl) as [x Ex]; auto; [cbn [wsize]; lia|].
    destruct (N (Opaque a) rr) as [y Ey]; auto; [cbn [wsize]; lia|].
    rewrite Ex, Ey. eauto.
  - apply sat_children in HR as HC. destruct HC as [H1 H2]. cbn [wsize] in Hs.
    destruct (allows form ro o); eauto.
    destruct (N (WNot a) rl) as [x Ex]; auto; [cbn [wsize]; lia|].
    destruct (N (WNot a) rr) as [y Ey]; auto; [cbn [wsize]; lia|].
    rewrite Ex, Ey. eauto.
  - apply sat_children in HL as HC. destruct HC as [H1 H2]. cbn [wsize] in Hs.
    destruct (allows form lo o); eauto.
    destruct (N ll (Opaque b)) as [x Ex]; auto; [cbn [wsize]; lia|].
    destruct (N lr (Opaque b)) as [y Ey]; auto; [cbn [wsize]; lia|].
    rewrite Ex, Ey. eauto.
  - apply sat_children in HL as HC. destruct HC as [H1 H2]. cbn [wsize] in Hs.
    destruct (allows form lo o); eauto.
    destruct (N ll (WNot b)) as [x Ex]; auto; [cbn [wsize]; lia|].
    destruct (N lr (WNot b)) as [y Ey]; auto; [cbn [wsize]; lia|].
    rewrite Ex, Ey. eauto.
  - apply sat_children in HL as HC. destruct HC as [L1 L2].
    apply sat_children in HR as HC. destruct HC as [R1 R2].
    cbn [wsize] in Hs.
    pose proof (wsize_pos ll). pose proof (wsize_pos lr). pose proof (wsize_pos rl). pose proof (wsize_pos rr).
    destruct (allows form lo o) eqn:A1; destruct (allows form ro o) eqn:A2; eauto.
    + destruct (N (WBin ll lo lr) rl) as [x Ex]; auto; [cbn [wsize]; lia|].
      destruct (N (WBin ll lo lr) rr) as [y Ey]; auto; [cbn [wsize]; lia|].
      rewrite Ex, Ey. eauto.
    + destruct (N ll (WBin rl ro rr)) as [x Ex]; auto; [cbn [wsize]; lia|].
      destruct (N lr (WBin rl ro rr)) as [y Ey]; auto; [cbn [wsize]; lia|].
      rewrite Ex, Ey. eauto.
    + apply allows_false in A1 as [-> ->]. apply allows_false in A2 as [-> _].
      rewrite allows_outer.
      destruct (N ll rl) as [x Ex]; auto; [lia|].
      destruct (N ll rr) as [y Ey]; auto; [lia|].
      destruct (N lr rl) as [z Ez]; auto; [lia|].
      destruct (N lr rr) as [u Eu]; auto; [lia|].
      rewrite Ex, Ey, Ez, Eu. eauto.
Qed.

Lemma dispatch_mono : forall (r1 r2 : wrap -> option wrap) form L o R w,
  (forall x y, r1 x = Some y -> r2 x = Some y) ->
  dispatch r1 form L o R = Some w -> dispatch r2 form L o R = Some w.
Proof.
  intros r1 r2 form L o R w M H.
  destruct L as [a|a|ll lo lr]; destruct R as [b|b|rl ro rr]; cbn [dispatch] in *; auto;
    repeat match goal with
    | H : (if ?c then _ else _) = Some _ |- _ => destruct c
    end; auto; inv_some;
    repeat match goal with E : r1 _ = Some _ |- _ => apply M in E; rewrite E; clear E end; auto.
Qed.

Lemma normalize_mono_S : forall n form w w', normalize n form w = Some w' -> normalize (S n) form w = Some w'.
Proof.
  induction n as [|n IH]; intros form w w' H; [discriminate|].
  destruct w as [a|a|l o r]; [exact H|exact H|].
  cbn [normalize] in H. change (normalize (S (S n)) form (WBin l o r)) with
    (if satisfies form (WBin l o r) then Some (WBin l o r)
     else match normalize (S n) form l, normalize (S n) form r with
          | Some L, Some R => dispatch (normalize (S n) form) form L o R
          | _, _ => None end).
  destruct (satisfies form (WBin l o r)); [exact H|].
  destruct (normalize n form l) as [L|] eqn:EL; [|discriminate].
  destruct (normalize n form r) as [R|] eqn:ER; [|discriminate].
  rewrite (IH _ _ _ EL), (IH _ _ _ ER).
  eapply dispatch_mono; [|exact H]. intros x y. apply IH.
Qed.

Lemma normalize_mono : forall n m form w w', n <= m -> normalize n form w = Some w' -> normalize m form w = Some w'.
Proof.
  intros n m form w w' Hle H. induction Hle; auto using normalize_mono_S.
Qed.

Lemma normalize_total_p : forall form w, exists n w', normalize n form w = Some w'.
Proof.
  intros form w. induction w as [a|a|l IHl o r IHr].
  - exists 1, (Opaque a). reflexivity.
  - exists 1, (WNot a). reflexivity.
  - destruct IHl as (n1 & L & EL). destruct IHr as (n2 & R & ER).
    pose proof (normalize_normal_p _ _ _ _ EL) as SL. pose proof (normalize_normal_p _ _ _ _ ER) as SR.
    set (n := n1 + n2 + wsize L + wsize R).
    assert (EL' : normalize n form l = Some L) by (eapply normalize_mono; [|exact EL]; unfold n; lia).
    assert (ER' : normalize n form r = Some R) by (eapply normalize_mono; [|exact ER]; unfold n; lia).
    destruct (disp_all form (wsize L + wsize R) L o R n SL SR) as [w' Ew]; [lia|unfold n; lia|].
    exists (S n). cbn [normalize]. destruct (satisfies form (WBin l o r)); [eauto|].
    rewrite EL', ER'. eauto.
Qed.

(* ---- flatten / fromTree ------------------------------------------------------------------------------------------ *)
Definition fold3 (v : atom -> tri) (op : bool) (ws : list wrap) : tri :=
  fold_right (fun x a => bop3 op (weval3 v x) a) (unit3 op) ws.

Lemma fold3_app : forall v op xs ys, fold3 v op (xs ++ ys) = bop3 op (fold3 v op xs) (fold3 v op ys).
Proof.
  intros v op xs ys. unfold fold3. induction xs as [|x xs IH]; cbn [app fold_right].
  - now rewrite bop3_unit_l.
  - rewrite IH. apply bop3_assoc.
Qed.

Lemma flatten_sound_p : forall v op w, fold3 v op (flatten op w) = weval3 v w.
Proof.
  intros v op w. induction w as [a|a|l IHl o r IHr]; cbn [flatten].
  - unfold fold3. cbn [fold_right]. apply bop3_unit_r.
  - unfold fold3. cbn [fold_right]. apply bop3_unit_r.
  - destruct (Bool.eqb op o) eqn:E.
    + apply eqb_prop in E. subst o. rewrite fold3_app, IHl, IHr. reflexivity.
    + unfold fold3. cbn [fold_right]. apply bop3_unit_r.
Qed.

Lemma unwrap_sound_p : forall v w, leval3 v (unwrap w) = weval3 v w.
Proof. intros v w. induction w as [a|a|l IHl o r IHr]; cbn [unwrap leval3 weval3]; auto. now rewrite IHl, IHr. Qed.

Lemma nodes_of_sound_p : forall v form w, nodes_eval3 v form (nodes_of form w) = weval3 v w.
Proof.
  intros v form w. rewrite <- (flatten_sound_p v form w). unfold nodes_of, nodes_eval3, fold3.
  induction (flatten form w) as [|x xs IH]; cbn [map fold_right]; [reflexivity|].
  rewrite IH. f_equal.
  rewrite <- (flatten_sound_p v (negb form) x). unfold fold3.
  induction (flatten (negb form) x) as [|y ys IHy]; cbn [map fold_right]; [reflexivity|].
  now rewrite IHy, unwrap_sound_p.
Qed.

Lemma from_tree_sound_p : forall v fuel form t nodes, from_tree fuel form t = Some nodes ->
  nodes_eval3 v form nodes = leval3 v t.
Proof.
  intros v fuel form t nodes H. unfold from_tree in H.
  destruct (normalize fuel form (wrap_of t)) as [w|] eqn:E; [|discriminate].
  inversion H; subst. rewrite nodes_of_sound_p, (normalize_sound_p v _ _ _ _ E). apply wrap_of_sound_p.
Qed.

Lemma from_tree_total_p : forall form t, exists n nodes, from_tree n form t = Some nodes.
Proof.
  intros form t. destruct (normalize_total_p form (wrap_of t)) as (n & w & E).
  exists n, (nodes_of form w). unfold from_tree. now rewrite E.
Qed.

(* ---- the flattened result really has the documented shape --------------------------------------------------------- *)
Fixpoint pure (io : bool) (w : wrap) : bool :=
  match w with WBin l o r => Bool.eqb o io && pure io l && pure io r | _ => true end.
Definition atomic (w : wrap) : bool := match w with WBin _ _ _ => false | _ => true end.

Lemma sat_inner_pure : forall form w, satisfies form w = true ->
  match w with WBin _ o _ => o = negb form | _ => True end -> pure (negb form) w = true.
Proof.
  intros form w. induction w as [a|a|l IHl o r IHr]; intros S T; cbn [pure]; auto.
  subst o. rewrite eqb_reflx. cbn [andb].
  pose proof (sat_children _ _ _ _ S) as [Sl Sr].
  cbn [satisfies] in S. apply andb_prop in S as [_ D].
  rewrite IHl, IHr; auto.
  - destruct r as [b|b|rl ro rr]; auto.
    destruct l; cbn [sat_dispatch] in D; try (apply andb_prop in D as [_ D]);
      unfold allows in D; destruct ro, form; cbn in D; try discriminate; reflexivity.
  - destruct l as [b|b|ll lo lr]; auto.
    destruct r; cbn [sat_dispatch] in D; try (apply andb_prop in D as [D _]);
      unfold allows in D; destruct lo, form; cbn in D; try discriminate; reflexivity.
Qed.

Lemma pure_flatten_atomic : forall io w, pure io w = true -> forallb atomic (flatten io w) = true.
Proof.
  intros io w. induction w as [a|a|l IHl o r IHr]; cbn [pure flatten]; auto.
  intros H. apply andb_prop in H as [H Hr]. apply andb_prop in H as [Ho Hl].
  apply eqb_prop in Ho. subst o. rewrite eqb_reflx.
  rewrite forallb_app, IHl, IHr; auto.
Qed.

Lemma flatten_outer_inner : forall form w, satisfies form w = true ->
  forallb (fun x => forallb atomic (flatten (negb form) x)) (flatten form w) = true.
Proof.
  intros form w. induction w as [a|a|l IHl o r IHr]; intros S; cbn [flatten]; auto.
  destruct (Bool.eqb form o) eqn:E.
  - pose proof (sat_children _ _ _ _ S) as [Sl Sr]. rewrite forallb_app, IHl, IHr; auto.
  - cbn [forallb]. rewrite andb_true_r. apply pure_flatten_atomic. apply sat_inner_pure; auto.
    destruct form, o; cbn in E; try discriminate; reflexivity.
Qed.

Lemma flatten_nonempty : forall op w, flatten op w <> [].
Proof.
  intros op w. induction w as [a|a|l IHl o r IHr]; cbn [flatten]; try discriminate.
  destruct (Bool.eqb op o); [|discriminate].
  destruct (flatten op l); [contradiction|discriminate].
Qed.

Lemma atomic_branch : forall w, atomic w = true -> is_branch (unwrap w) = true.
Proof. intros [a|a|l o r]; cbn; auto. Qed.

Lemma nodes_of_normal_p : forall form w, satisfies form w = true -> nodes_normal (nodes_of form w) = true.
Proof.
  intros form w S. unfold nodes_normal, nodes_of.
  apply andb_true_intro; split.
  - pose proof (flatten_nonempty form w). destruct (flatten form w); [contradiction|reflexivity].
  - rewrite forallb_forall. intros g Hg. apply in_map_iff in Hg as (y & <- & Hy).
    pose proof (flatten_outer_inner form w S) as F. rewrite forallb_forall in F. specialize (F y Hy).
    apply andb_true_intro; split.
    + pose proof (flatten_nonempty (negb form) y). destruct (flatten (negb form) y); [contradiction|reflexivity].
    + rewrite forallb_forall in *. intros b Hb. apply in_map_iff in Hb as (u & <- & Hu).
      apply atomic_branch. now apply F.
Qed.

Lemma from_tree_normal_p : forall fuel form t nodes, from_tree fuel form t = Some nodes -> nodes_normal nodes = true.
Proof.
  intros fuel form t nodes H. unfold from_tree in H.
  destruct (normalize fuel form (wrap_of t)) as [w|] eqn:E; [|discriminate].
  inversion H; subst. apply nodes_of_normal_p. eapply normalize_normal_p; eauto.
Qed.

(* ---- toTree (TreeReconstructionVisitor) ------------------------------------------------------------------------------ *)
Definition lfold3 (v : atom -> tri) (op : bool) (ts : list ltree) : tri :=
  fold_right (fun t a => bop3 op (leval3 v t) a) (unit3 op) ts.

Lemma chain_sound : forall v op r x, leval3 v (chain op x r) = lfold3 v op (x :: r).
Proof.
  intros v op r. induction r as [|y r IH]; intros x; cbn [chain].
  - unfold lfold3. cbn [fold_right]. now rewrite bop3_unit_r.
  - cbn [leval3]. rewrite IH. reflexivity.
Qed.

Lemma seq_tree_sound : forall v op l t, seq_tree op l = Some t -> leval3 v t = lfold3 v op l.
Proof. intros v op [|x r] t H; [discriminate|]. inversion H. apply chain_sound. Qed.

Lemma visit_inner_sound : forall v form g t, visit_inner form g = Some t -> leval3 v t = lfold3 v (negb form) g.
Proof.
  intros v form g t H. unfold visit_inner in H.
  destruct (seq_tree (negb form) g) as [t0|] eqn:E; [|discriminate].
  apply (seq_tree_sound v) in E. inversion H; subst.
  destruct g as [|a [|b g]]; cbn [leval3]; exact E.
Qed.

Lemma all_some_sound : forall v form nodes gs, all_some (map (visit_inner form) nodes) = Some gs ->
  lfold3 v form gs = nodes_eval3 v form nodes.
Proof.
  intros v form nodes. induction nodes as [|g nodes IH]; intros gs H; cbn [map all_some] in H.
  - inversion H. reflexivity.
  - destruct (visit_inner form g) as [t|] eqn:E; [|discriminate].
    destruct (all_some (map (visit_inner form) nodes)) as [r|] eqn:E2; [|discriminate].
    inversion H; subst. unfold lfold3, nodes_eval3. cbn [fold_right].
    rewrite (visit_inner_sound v _ _ _ E). fold (lfold3 v form r). rewrite (IH r eq_refl). reflexivity.
Qed.

Lemma to_tree_sound_p : forall v form nodes t, to_tree form nodes = Some t -> leval3 v t = nodes_eval3 v form nodes.
Proof.
  intros v form nodes t H. unfold to_tree in H.
  destruct (all_some (map (visit_inner form) nodes)) as [gs|] eqn:E; [|discriminate].
  rewrite <- (all_some_sound v _ _ _ E).
  destruct (seq_tree form gs) as [t0|] eqn:E2; [|discriminate].
  apply (seq_tree_sound v) in E2. rewrite <- E2.
  destruct t0; inversion H; subst; reflexivity.
Qed.

Lemma to_tree_total_p : forall form nodes, nodes_normal nodes = true -> exists t, to_tree form nodes = Some t.
Proof.
  intros form nodes H. unfold nodes_normal in H. apply andb_prop in H as [NE F].
  unfold to_tree.
  assert (A : exists gs, all_some (map (visit_inner form) nodes) = Some gs /\ length gs = length nodes).
  { clear NE. induction nodes as [|g nodes IH]; cbn [map all_some]; [exists []; auto|].
    cbn [forallb] in F. apply andb_prop in F as [Fg F]. apply andb_prop in Fg as [Ng _].
    destruct (IH F) as (gs & E & Len). rewrite E.
    destruct g as [|a g]; [discriminate|]. unfold visit_inner. cbn [seq_tree].
    eexists. split; [reflexivity|]. cbn [length]. now rewrite Len. }
  destruct A as (gs & E & Len). rewrite E.
  destruct nodes as [|g nodes]; [discriminate|]. destruct gs as [|x gs]; [discriminate|].
  cbn [seq_tree]. destruct (chain form x gs); eauto.
Qed.

(* fromTree followed by toTree: the rebuilt tree means what the original tree means *)
Lemma from_to_tree_sound_p : forall v fuel form t nodes t', from_tree fuel form t = Some nodes ->
  to_tree form nodes = Some t' -> leval3 v t' = leval3 v t.
Proof.
  intros v fuel form t nodes t' H1 H2.
  rewrite (to_tree_sound_p v _ _ _ H2). eapply from_tree_sound_p; eauto.
Qed.

Lemma from_to_tree_total_p : forall form t, exists n nodes t',
  from_tree n form t = Some nodes /\ to_tree form nodes = Some t'.
Proof.
  intros form t. destruct (from_tree_total_p form t) as (n & nodes & E).
  destruct (to_tree_total_p form nodes) as [t' E2]; [eapply from_tree_normal_p; eauto|].
  eauto 6.
Qed.

(* Boolean assignments give Boolean values *)
Lemma leval3_two_valued_p : forall v t, (forall a, v a <> UU) -> leval3 v t <> UU.
Proof.
  intros v t H. induction t as [a|t IH|l IHl o r IHr|t IH]; cbn [leval3]; auto.
  - destruct (leval3 v t); cbn; congruence.
  - destruct o, (leval3 v l), (leval3 v r); cbn; congruence.
Qed.
