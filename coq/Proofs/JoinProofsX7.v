(* C06 lemmas, part X7 (extension): join operands in the shipped universe (finite check over the 2^13 subsets). *)
From Coq Require Import String List Bool ZArith NArith Lia.
From V Require Import Model.Universe Model.Group Gen.Universes Model.Join Model.JoinCheck
  Proofs.GroupProofs Proofs.GroupProofsShipped Proofs.JoinProofs Proofs.JoinProofsB Proofs.JoinProofsC Proofs.JoinProofsD
  Proofs.JoinProofsX3 Proofs.JoinProofsX6.
Import ListNotations.
Open Scope string_scope.
Open Scope list_scope.

Definition closed_plan_ns_okb (l : list string) : bool :=
  match closure u_current l with
  | GOk ds => covers jc_current (plan_ns jc_current ds) ds
              && forallb (fun t => memb (ename t) (map ename (spec_elems jc_current ds))) (plan_ns jc_current ds)
  | _ => false
  end.

Lemma plan_ns_total_current_p : forallb closed_plan_ns_okb (all_subsets (nonskypix_dimension_names u_current)) = true.
Proof. vm_compute. reflexivity. Qed.

Lemma plan_op_total_current_forall_p l ds : In l (all_subsets (nonskypix_dimension_names u_current)) ->
  closure u_current l = GOk ds -> plan_okb_op jc_current ds = true.
Proof.
  intros Hl Hc. unfold plan_okb_op. rewrite (plan_total_current_forall_p l ds Hl Hc). simpl.
  pose proof plan_ns_total_current_p as H. rewrite forallb_forall in H. specialize (H l Hl).
  unfold closed_plan_ns_okb in H. rewrite Hc in H. exact H.
Qed.

Theorem operand_query_correct_current_p (ov : N -> N -> bool) (env : N -> list N) :
  (forall x y, ov x y = true -> exists p, In p (env x) /\ In p (env y)) ->
  forall l ds s o, In l (all_subsets (nonskypix_dimension_names u_current)) -> closure u_current l = GOk ds ->
  fk_closed jc_current (recs s) -> view_closed jc_current (recs s) -> ovl_sound jc_current env s -> ovl_nonnull jc_current s ->
  query_op jc_current ov s ds o = QOk (spec_op jc_current ov (recs s) ds o).
Proof.
  intros Hes l ds s o Hl Hc Hfk Hv Hos Hon.
  eapply operand_query_correct_p; eauto using current_wf_j, uni_ok_current_p, plan_op_total_current_forall_p.
Qed.

Theorem history_operand_query_correct_current_p (ov : N -> N -> bool) (env : N -> list N) :
  (forall x y, ov x y = true -> exists p, In p (env x) /\ In p (env y)) ->
  forall h l ds o, In l (all_subsets (nonskypix_dimension_names u_current)) -> closure u_current l = GOk ds ->
  skip_free h = true -> view_closed jc_current (recs (run_hist jc_current env h st0)) ->
  query_op jc_current ov (run_hist jc_current env h st0) ds o
  = QOk (spec_op jc_current ov (recs (run_hist jc_current env h st0)) ds o).
Proof.
  intros Hes h l ds o Hl Hc Hsf Hv. apply operand_query_correct_current_p with (env := env) (l := l); auto.
  - apply fk_closed_hist_p. apply current_wf_j.
  - apply ovl_sound_hist_p. apply current_wf_j.
  - apply (ovl_inv_hist_p jc_current env h current_wf_j Hsf).
Qed.

(* the granularity rule on the shipped universe: query over {visit, detector, patch} (+ what they imply), operand over the
   closure of {visit, tract}: the operand does NOT carry the join (the fine members are visit_detector_region and patch);
   an operand over the query's own group does *)
Definition ds_fine : list string :=
  match closure u_current ["visit"; "detector"; "patch"] with GOk ds => ds | _ => [] end.
Definition ds_coarse : list string :=
  match closure u_current ["visit"; "tract"] with GOk ds => ds | _ => [] end.

Lemma operand_granularity_current_p :
  op_embeds jc_current ds_fine (mkOpd ds_coarse []) = false
  /\ op_embeds jc_current ds_fine (mkOpd ds_fine []) = true
  /\ op_embeds jc_current ds_coarse (mkOpd ds_coarse []) = true
  /\ (match spatial_pair jc_current ds_fine with SpPair a b => (ename a, ename b) | _ => ("", "") end)
     = ("visit_detector_region", "patch").
Proof. vm_compute. repeat split; reflexivity. Qed.
