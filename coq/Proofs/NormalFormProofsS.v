(* C15 -- SIZE BOUND for the legacy normaliser (Model/NormalForm.v; transferred to the regenerated rules by
   Proofs/NormalFormProofsG.v).

   ideal_groups form w : the number of outer groups of the textbook normal form of w -- sum over the outer operator,
                         product over the inner one;   ideal_width form w : its widest group -- max / sum.
   The normaliser never produces more groups, nor a wider group, than that; and ideal_groups <= 2^(leaves - 1),
   ideal_width <= leaves.  (The textbook bound is attained, e.g. by a disjunction of n binary conjunctions to CNF.) *)
From Coq Require Import NArith List Bool Lia Arith.
From V Require Import Base.Tri Model.Pred Model.NormalForm Gen.NormalFormGen Proofs.NormalFormProofs Proofs.NormalFormProofsG.
Import ListNotations.

Fixpoint ideal_groups (form : bool) (w : wrap) : nat :=
  match w with
  | WBin l o r => if Bool.eqb o form then ideal_groups form l + ideal_groups form r
                  else ideal_groups form l * ideal_groups form r
  | _ => 1
  end.
Fixpoint ideal_width (form : bool) (w : wrap) : nat :=
  match w with
  | WBin l o r => if Bool.eqb o form then Nat.max (ideal_width form l) (ideal_width form r)
                  else ideal_width form l + ideal_width form r
  | _ => 1
  end.
Fixpoint leaves (w : wrap) : nat := match w with WBin l _ r => leaves l + leaves r | _ => 1 end.

Lemma ig_pos : forall form w, 1 <= ideal_groups form w.
Proof.
  intros form w. induction w as [a|a|l IHl o r IHr]; cbn [ideal_groups]; try lia.
  destruct (Bool.eqb o form); nia.
Qed.

Lemma leaves_pos : forall w, 1 <= leaves w.
Proof. induction w; cbn [leaves]; lia. Qed.

(* ---- the number of groups ------------------------------------------------------------------------------------- *)
Definition rec_ig (form : bool) (rec : wrap -> option wrap) : Prop :=
  forall x y, rec x = Some y -> ideal_groups form y <= ideal_groups form x.

Ltac dispatch_cases H rec HR :=
  cbv [dispatch] in H;
  repeat match type of H with
  | (if ?c then _ else _) = Some _ => let A := fresh "A" in destruct c eqn:A
  | match rec ?x with Some _ => _ | None => _ end = Some _ =>
      let E := fresh "E" in destruct (rec x) eqn:E; [apply HR in E|discriminate H]
  end;
  try discriminate H; inversion H; subst; clear H.

Lemma dispatch_groups : forall rec form L o R w, rec_ig form rec ->
  dispatch rec form L o R = Some w -> ideal_groups form w <= ideal_groups form (WBin L o R).
Proof.
  intros rec form L o R w HR H.
  destruct L as [a|a|ll lo lr]; destruct R as [b|b|rl ro rr]; dispatch_cases H rec HR;
    try reflexivity;
    repeat match goal with A : allows _ _ _ = _ |- _ => revert A end; cbv [allows];
    repeat match goal with x : bool |- _ => destruct x end; cbn [Bool.eqb orb]; intros; try discriminate;
    cbn [ideal_groups Bool.eqb] in *; nia.
Qed.

Lemma normalize_groups_p : forall fuel form w w', normalize fuel form w = Some w' ->
  ideal_groups form w' <= ideal_groups form w.
Proof.
  intros fuel form. induction fuel as [|n IH]; intros w w' H; [discriminate|].
  destruct w as [a|a|l o r]; cbn [normalize] in H; try (inversion H; subst; reflexivity).
  destruct (satisfies form (WBin l o r)); [inversion H; subst; reflexivity|].
  destruct (normalize n form l) as [L|] eqn:EL; [|discriminate].
  destruct (normalize n form r) as [R|] eqn:ER; [|discriminate].
  apply dispatch_groups in H; [|exact IH].
  apply IH in EL. apply IH in ER. cbn [ideal_groups] in *. destruct (Bool.eqb o form); nia.
Qed.

(* for an expression in normal form the ideal count IS the number of flattened outer groups *)
Lemma pure_ig : forall form w, pure (negb form) w = true -> ideal_groups form w = 1.
Proof.
  intros form w. induction w as [a|a|l IHl o r IHr]; cbn [pure ideal_groups]; auto.
  intros H. apply andb_prop in H as [H Hr]. apply andb_prop in H as [Ho Hl]. apply eqb_prop in Ho. subst o.
  rewrite IHl, IHr by assumption. destruct form; reflexivity.
Qed.

Lemma sat_groups : forall form w, satisfies form w = true -> length (flatten form w) = ideal_groups form w.
Proof.
  intros form w. induction w as [a|a|l IHl o r IHr]; intros S; cbn [flatten ideal_groups]; auto.
  destruct (Bool.eqb form o) eqn:E.
  - apply eqb_prop in E. subst o. rewrite eqb_reflx.
    pose proof (sat_children _ _ _ _ S) as [Sl Sr]. now rewrite app_length, IHl, IHr.
  - assert (O : o = negb form) by (destruct form, o; cbn in E; try discriminate; reflexivity).
    pose proof (sat_inner_pure form (WBin l o r) S O) as P. apply pure_ig in P. cbn [ideal_groups] in P.
    replace (Bool.eqb o form) with false in * by (subst o; destruct form; reflexivity).
    cbn [length]. now rewrite P.
Qed.

Lemma nodes_of_groups : forall form w, length (nodes_of form w) = length (flatten form w).
Proof. intros. unfold nodes_of. apply map_length. Qed.

Lemma from_tree_groups_p : forall fuel form t nodes, from_tree fuel form t = Some nodes ->
  length nodes <= ideal_groups form (wrap_of t).
Proof.
  intros fuel form t nodes H. unfold from_tree in H.
  destruct (normalize fuel form (wrap_of t)) as [w|] eqn:E; [|discriminate]. inversion H; subst.
  rewrite nodes_of_groups, sat_groups by (eapply normalize_normal_p; eauto).
  eapply normalize_groups_p; eauto.
Qed.

(* ---- the width of a group --------------------------------------------------------------------------------------- *)
Definition rec_iw (form : bool) (rec : wrap -> option wrap) : Prop :=
  forall x y, rec x = Some y -> ideal_width form y <= ideal_width form x.

Lemma dispatch_width : forall rec form L o R w, rec_iw form rec ->
  dispatch rec form L o R = Some w -> ideal_width form w <= ideal_width form (WBin L o R).
Proof.
  intros rec form L o R w HR H.
  destruct L as [a|a|ll lo lr]; destruct R as [b|b|rl ro rr]; dispatch_cases H rec HR;
    try reflexivity;
    repeat match goal with A : allows _ _ _ = _ |- _ => revert A end; cbv [allows];
    repeat match goal with x : bool |- _ => destruct x end; cbn [Bool.eqb orb]; intros; try discriminate;
    cbn [ideal_width Bool.eqb] in *; lia.
Qed.

Lemma normalize_width_p : forall fuel form w w', normalize fuel form w = Some w' ->
  ideal_width form w' <= ideal_width form w.
Proof.
  intros fuel form. induction fuel as [|n IH]; intros w w' H; [discriminate|].
  destruct w as [a|a|l o r]; cbn [normalize] in H; try (inversion H; subst; reflexivity).
  destruct (satisfies form (WBin l o r)); [inversion H; subst; reflexivity|].
  destruct (normalize n form l) as [L|] eqn:EL; [|discriminate].
  destruct (normalize n form r) as [R|] eqn:ER; [|discriminate].
  apply dispatch_width in H; [|exact IH].
  apply IH in EL. apply IH in ER. cbn [ideal_width] in *. destruct (Bool.eqb o form); lia.
Qed.

(* for a pure inner expression the ideal width is its number of leaves = the length of its inner flattening *)
Lemma pure_iw : forall form w, pure (negb form) w = true -> length (flatten (negb form) w) = ideal_width form w.
Proof.
  intros form w. induction w as [a|a|l IHl o r IHr]; cbn [pure flatten ideal_width]; auto.
  intros H. apply andb_prop in H as [H Hr]. apply andb_prop in H as [Ho Hl]. apply eqb_prop in Ho. subst o.
  rewrite eqb_reflx, app_length, IHl, IHr by assumption. destruct form; reflexivity.
Qed.

Lemma sat_width : forall form w, satisfies form w = true ->
  forall x, In x (flatten form w) -> length (flatten (negb form) x) <= ideal_width form w.
Proof.
  intros form w. induction w as [a|a|l IHl o r IHr]; intros S x Hx; cbn [flatten] in Hx.
  - destruct Hx as [<-|[]]. cbn. lia.
  - destruct Hx as [<-|[]]. cbn. lia.
  - destruct (Bool.eqb form o) eqn:E.
    + apply eqb_prop in E. subst o. cbn [ideal_width]. rewrite eqb_reflx.
      pose proof (sat_children _ _ _ _ S) as [Sl Sr]. apply in_app_iff in Hx as [Hx|Hx].
      * specialize (IHl Sl x Hx). lia.
      * specialize (IHr Sr x Hx). lia.
    + destruct Hx as [<-|[]].
      assert (O : o = negb form) by (destruct form, o; cbn in E; try discriminate; reflexivity).
      pose proof (sat_inner_pure form (WBin l o r) S O) as P. rewrite (pure_iw _ _ P). lia.
Qed.

Lemma from_tree_width_p : forall fuel form t nodes, from_tree fuel form t = Some nodes ->
  forall g, In g nodes -> length g <= ideal_width form (wrap_of t).
Proof.
  intros fuel form t nodes H g Hg. unfold from_tree in H.
  destruct (normalize fuel form (wrap_of t)) as [w|] eqn:E; [|discriminate]. inversion H; subst.
  unfold nodes_of in Hg. apply in_map_iff in Hg as (x & <- & Hx). rewrite map_length.
  etransitivity; [apply sat_width; [eapply normalize_normal_p; eauto|exact Hx]|].
  eapply normalize_width_p; eauto.
Qed.

(* ---- the ideal sizes in terms of the number of leaves ------------------------------------------------------------ *)
Lemma pow2_pos : forall n, 1 <= 2 ^ n.
Proof. intros n. pose proof (Nat.pow_nonzero 2 n). lia. Qed.

Lemma ig_exp : forall form w, ideal_groups form w <= 2 ^ (leaves w - 1).
Proof.
  intros form w. induction w as [a|a|l IHl o r IHr]; cbn [ideal_groups leaves]; try (cbn; lia).
  pose proof (leaves_pos l). pose proof (leaves_pos r).
  destruct (leaves l) as [|p] eqn:EL; [lia|]. destruct (leaves r) as [|q] eqn:ER; [lia|].
  replace (S p - 1) with p in * by lia. replace (S q - 1) with q in * by lia.
  replace (S p + S q - 1) with (S (p + q)) by lia.
  rewrite Nat.pow_succ_r', Nat.pow_add_r.
  pose proof (pow2_pos p). pose proof (pow2_pos q).
  destruct (Bool.eqb o form); nia.
Qed.

Lemma iw_leaves : forall form w, ideal_width form w <= leaves w.
Proof.
  intros form w. induction w as [a|a|l IHl o r IHr]; cbn [ideal_width leaves]; try lia.
  destruct (Bool.eqb o form); lia.
Qed.

Lemma not_leaves : forall w, leaves (not_ w) = leaves w.
Proof. induction w as [a|a|l IHl o r IHr]; cbn [not_ leaves]; congruence. Qed.

Fixpoint tleaves (t : ltree) : nat :=
  match t with LAtom _ => 1 | LNot t | LParens t => tleaves t | LBin l _ r => tleaves l + tleaves r end.

Lemma wrap_of_leaves : forall t, leaves (wrap_of t) = tleaves t.
Proof.
  induction t as [a|t IH|l IHl o r IHr|t IH]; cbn [wrap_of leaves tleaves]; auto.
  now rewrite not_leaves.
Qed.

(* fromTree on a tree with n atoms occurrences: at most 2^(n-1) groups of at most n branches each *)
Lemma from_tree_size_p : forall fuel form t nodes, from_tree fuel form t = Some nodes ->
  length nodes <= 2 ^ (tleaves t - 1) /\ forall g, In g nodes -> length g <= tleaves t.
Proof.
  intros fuel form t nodes H. rewrite <- wrap_of_leaves. split.
  - etransitivity; [eapply from_tree_groups_p; eauto|apply ig_exp].
  - intros g Hg. etransitivity; [eapply from_tree_width_p; eauto|apply iw_leaves].
Qed.

(* ---- the same over the regenerated definitions -------------------------------------------------------------------- *)
Lemma g_normalize_groups : forall fuel form w w', py_normalize fuel form w = Some w' ->
  ideal_groups form w' <= ideal_groups form w /\ ideal_width form w' <= ideal_width form w.
Proof.
  intros fuel form w w'. rewrite py_normalize_eq. intros H. split; [eapply normalize_groups_p|eapply normalize_width_p]; eauto.
Qed.

Lemma g_from_tree_size : forall fuel form t nodes, py_from_tree fuel form t = Some nodes ->
  length nodes <= 2 ^ (tleaves t - 1) /\ forall g, In g nodes -> length g <= tleaves t.
Proof. intros fuel form t nodes. rewrite py_from_tree_eq. apply from_tree_size_p. Qed.

Lemma g_from_tree_ideal : forall fuel form t nodes, py_from_tree fuel form t = Some nodes ->
  length nodes <= ideal_groups form (py_wrap_of t) /\ forall g, In g nodes -> length g <= ideal_width form (py_wrap_of t).
Proof.
  intros fuel form t nodes. rewrite py_from_tree_eq, py_wrap_of_eq. intros H. split.
  - eapply from_tree_groups_p; eauto.
  - eapply from_tree_width_p; eauto.
Qed.
