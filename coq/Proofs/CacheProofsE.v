(* C17, tie T: the threshold tests of `_expire_cache` regenerated from the source (Gen/CacheExpireGen.v) give exactly the
   hand model's expiry (Model/Cache.v `expire true`).  An edit of a test in the source changes a generated definition and
   breaks one of these proofs. *)
From Coq Require Import ZArith NArith List Bool Lia ZifyBool.
From V Require Import Model.Cache Gen.CacheExpireGen Proofs.CacheProofs Proofs.CacheProofsC.
Import ListNotations.
Open Scope Z_scope.

Lemma gen_structure : gen_scan_before_modes = true /\ gen_no_mode_returns_first = true.
Proof. split; reflexivity. Qed.

(* the proofs below are semantic (lia over the generated arithmetic / comparisons): an equivalent spelling of a test in the
   source (`n_over >= 1`, `thr < size`) still checks, a different test does not *)
Lemma gen_take_files : forall (l : list entry) n thr,
  gen_take (gen_files_over (Z.of_nat n) thr) (gen_files_guard (gen_files_over (Z.of_nat n) thr) thr) l = firstn (n_over n thr) l.
Proof.
  intros. unfold gen_take, gen_files_guard, gen_files_over, n_over.
  match goal with |- (if ?g then _ else _) = _ => destruct g eqn:E end.
  - f_equal; lia.
  - replace (Z.to_nat (Z.of_nat n - thr)) with 0%nat by lia. reflexivity.
Qed.

Lemma gen_take_datasets : forall (l : list N) n thr,
  gen_take (gen_datasets_over (Z.of_nat n) thr) (gen_datasets_guard (gen_datasets_over (Z.of_nat n) thr) thr) l = firstn (n_over n thr) l.
Proof.
  intros. unfold gen_take, gen_datasets_guard, gen_datasets_over, n_over.
  match goal with |- (if ?g then _ else _) = _ => destruct g eqn:E end.
  - f_equal; lia.
  - replace (Z.to_nat (Z.of_nat n - thr)) with 0%nat by lia. reflexivity.
Qed.

Lemma gen_size_stop_eq : forall sz thr, gen_size_stop sz thr = (sz <=? thr).
Proof. intros. unfold gen_size_stop. lia. Qed.
Lemma gen_size_enter_eq : forall sz thr, gen_size_enter sz thr = (thr <? sz).
Proof. intros. unfold gen_size_enter. lia. Qed.
Lemma gen_age_old_eq : forall age thr, gen_age_old age thr = (thr <? age).
Proof. intros. unfold gen_age_old. lia. Qed.

Lemma gen_size_loop_eq : forall thr ks dm, gen_size_loop thr ks dm = size_loop thr ks dm.
Proof. induction ks; intros; cbn [gen_size_loop size_loop]; [reflexivity|]. rewrite gen_size_stop_eq, IHks. reflexivity. Qed.

Lemma gen_age_loop_eq : forall thr now l dm, gen_age_loop thr now l dm = age_loop true thr now l dm.
Proof.
  induction l; intros; cbn [gen_age_loop age_loop]; [reflexivity|]. rewrite gen_age_old_eq, IHl. reflexivity.
Qed.

Lemma gen_expire_eq : forall c now dm, gen_expire c now dm = expire true c now dm.
Proof.
  intros. unfold gen_expire, expire. destruct (c_mode c); try reflexivity; cbv zeta; rewrite (proj1 gen_structure).
  - rewrite gen_take_files. reflexivity.
  - rewrite gen_take_datasets. reflexivity.
  - rewrite gen_size_enter_eq, gen_size_loop_eq. reflexivity.
  - apply gen_age_loop_eq.
Qed.

(* move_to_cache with the generated expiry *)
Definition gen_after_move (c : cfg) (now : Z) (k : N) (size : Z) (dm : list entry * mgr) : list entry * mgr :=
  match c_mode c with
  | MDisabled => dm
  | _ => let dm1 := gen_expire c now dm in
         if has_key k (entries (snd dm1)) then dm1
         else (disk_put (mkEntry k size now) (fst dm1), reg_add (mkEntry k size now) (snd dm1))
  end.

Lemma gen_after_move_eq : forall c now k size dm, gen_after_move c now k size dm = after_move true c now k size dm.
Proof.
  intros. unfold gen_after_move, after_move, mstep. rewrite gen_expire_eq.
  destruct (c_mode c); cbv zeta; try reflexivity; destruct (has_key k (entries (snd (expire true c now dm)))); reflexivity.
Qed.
