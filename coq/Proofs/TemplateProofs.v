(* Lemmas about Model/Template.v over the regenerated tables and default template (Gen/TemplateGen.v). *)
From Coq Require Import String Ascii List Bool Lia.
From V Require Import Model.Template Gen.TemplateGen.
Import ListNotations.
Open Scope string_scope.

(* the fields FileTemplate.format sees for a dataset of type `dt` with dimensions {instrument, detector} *)
Definition fields_D (dt run inst det detname : string) : fields :=
  [("datasetType", dt); ("run", run); ("instrument", inst); ("detector", det); ("detector.full_name", detname)].
Definition fields_I (dt run inst : string) : fields :=
  [("datasetType", dt); ("run", run); ("instrument", inst)].

Lemma template_collision_refuted_p :
  exists f1 f2 p, f1 <> f2 /\ gen_format GEN_DEFAULT f1 = FOk p /\ gen_format GEN_DEFAULT f2 = FOk p.
Proof.
  exists (fields_I "dt1" "r1" "Cam A"), (fields_I "dt1" "r1" "Cam_A"), "r1/dt1/dt1_Cam_A_r1".
  split; [discriminate|]. split; vm_compute; reflexivity.
Qed.

Lemma template_collision_family_p :
  forall inst, In inst ["Cam A"; "Cam_A"; "Cam/A"; "Cam.A"] ->
  gen_format GEN_DEFAULT (fields_I "dt1" "r1" inst) = FOk "r1/dt1/dt1_Cam_A_r1".
Proof. intros inst H. simpl in H. repeat (destruct H as [<-|H]; [vm_compute; reflexivity|]). contradiction. Qed.

Lemma separator_collision_refuted_p :
  exists f1 f2 p, f1 <> f2 /\ gen_format GEN_DEFAULT f1 = FOk p /\ gen_format GEN_DEFAULT f2 = FOk p.
Proof.
  exists (fields_D "dtD" "r1" "A_B" "1" "C"), (fields_D "dtD" "r1" "A" "1" "B_C"), "r1/dtD/dtD_A_B_C_r1".
  split; [discriminate|]. split; vm_compute; reflexivity.
Qed.
