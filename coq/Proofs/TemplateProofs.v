(* Lemmas about Model/Template.v over the regenerated tables and default template (Gen/TemplateGen.v). *)
From Coq Require Import String Ascii List Bool Lia.
From V Require Import Model.Template Gen.TemplateGen.
Import ListNotations.
Open Scope string_scope.

(* the fields FileTemplate.format sees for a dataset of type `dt` with dimensions {instrument, detector} *)
Definition fields_D (dt run inst det detname : string) : fields :=
  [("datasetType", dt); ("run", run); ("instrument", inst); ("detector", det); ("detector.full_name", detname)].
Definition fields_I (dt run inst : string) : fields :=
  [("datasetType", dt); ("run", run); ("instrument", inst)].

Lemma template_collision_refuted_p :
  exists f1 f2 p, f1 <> f2 /\ gen_format GEN_DEFAULT f1 = FOk p /\ gen_format GEN_DEFAULT f2 = FOk p.
Proof.
  exists (fields_I "dt1" "r1" "Cam A"), (fields_I "dt1" "r1" "Cam_A"), "r1/dt1/dt1_Cam_A_r1".
  split; [discriminate|]. split; vm_compute; reflexivity.
Qed.

Lemma template_collision_family_p :
  forall inst, In inst ["Cam A"; "Cam_A"; "Cam/A"; "Cam.A"] ->
  gen_format GEN_DEFAULT (fields_I "dt1" "r1" inst) = FOk "r1/dt1/dt1_Cam_A_r1".
Proof. intros inst H. simpl in H. repeat (destruct H as [<-|H]; [vm_compute; reflexivity|]). contradiction. Qed.

Lemma separator_collision_refuted_p :
  exists f1 f2 p, f1 <> f2 /\ gen_format GEN_DEFAULT f1 = FOk p /\ gen_format GEN_DEFAULT f2 = FOk p.
Proof.
  exists (fields_D "dtD" "r1" "A_B" "1" "C"), (fields_D "dtD" "r1" "A" "1" "B_C"), "r1/dtD/dtD_A_B_C_r1".
  split; [discriminate|]. split; vm_compute; reflexivity.
Qed.

(* ---- values free of the rewritten characters ------------------------------------------------------- *)
Fixpoint clean_for (t : table) (s : string) : bool :=
  match s with
  | EmptyString => true
  | String c r => match tbl_get t c with None => clean_for t r | Some _ => false end
  end.

(* free of every character FileTemplate.format rewrites (" ", "/", ".", "#" in the current source) *)
Definition sane (v : string) : Prop :=
  clean_for GEN_SAN_VALUE v = true /\ clean_for GEN_SAN_SLASH v = true /\ clean_for GEN_SAN_TAIL v = true.

Lemma subst_clean : forall t s, clean_for t s = true -> subst t s = s.
Proof.
  intros t. induction s as [|c r IH]; simpl; intro H; [reflexivity|].
  destruct (tbl_get t c); [discriminate|]. rewrite IH by exact H. reflexivity.
Qed.

Lemma sanitize_sane_id_p : forall keep v, sane v -> sanitize GEN_SAN_VALUE GEN_SAN_SLASH keep v = v.
Proof.
  intros keep v [H1 [H2 _]]. unfold sanitize. rewrite (subst_clean _ _ H1). destruct keep; [reflexivity|apply subst_clean, H2].
Qed.

Lemma fix_tail_sane_id_p : forall v, sane v -> has_char "/"%char v = false -> fix_tail GEN_SAN_TAIL v = v.
Proof.
  intros v [_ [_ H3]] Hs. destruct v as [|c r]; [reflexivity|]. cbn [fix_tail]. rewrite Hs. apply subst_clean, H3.
Qed.

Lemma length_append : forall a b : string, String.length (a ++ b) = String.length a + String.length b.
Proof. induction a as [|x a IH]; intro b; simpl; [reflexivity|]. rewrite IH. reflexivity. Qed.

Lemma append_inv_head : forall p a b : string, p ++ a = p ++ b -> a = b.
Proof. induction p as [|x p IH]; intros a b H; simpl in H; [exact H|]. inversion H. apply IH. assumption. Qed.

Lemma append_inv_tail : forall a b c : string, a ++ c = b ++ c -> a = b.
Proof.
  induction a as [|x a IH]; intros [|y b] c H; simpl in H.
  - reflexivity.
  - exfalso. apply (f_equal String.length) in H. simpl in H. rewrite length_append in H. lia.
  - exfalso. apply (f_equal String.length) in H. simpl in H. rewrite length_append in H. lia.
  - inversion H. f_equal. eapply IH. eassumption.
Qed.

Lemma template_injective_partial_p : forall (pre post : string) (keep : bool) (v v' : string),
  sane v -> sane v' ->
  pre ++ sanitize GEN_SAN_VALUE GEN_SAN_SLASH keep v ++ post = pre ++ sanitize GEN_SAN_VALUE GEN_SAN_SLASH keep v' ++ post ->
  v = v'.
Proof.
  intros pre post keep v v' Hv Hv' H. rewrite !sanitize_sane_id_p in H by assumption.
  apply append_inv_head in H. apply append_inv_tail in H. exact H.
Qed.
