(* C07, removals, DATASTORE side, Part 2: at top level (no transaction open) the invariant
     DI s := every artifact has a datastore record /\ every record is located or trashed /\ every located dataset is
             registered
   is preserved by purge / unstore / emptyTrash whenever the operation FAILS (raises) or no fault fired at all; the only
   way to break it is a fault swallowed by an ignore_errors handler so that the removal reports success (the two known
   findings).  From DI the next fault-free emptyTrash leaves only artifacts of located, registered datasets. *)
From Coq Require Import NArith PeanoNat List Bool Lia.
From V Require Import Model.Txn Model.TxnCheck Proofs.TxnProofs Proofs.TxnFiles Proofs.TxnProofsRm Proofs.TxnProofsLo.
Import ListNotations.
Open Scope N_scope.

Definition Aok (c : db) (f : files) : Prop := forall x, fget x f <> None -> mem x (recs c) = true.
Definition Bok (c : db) : Prop := forall x, mem x (recs c) = true -> mem x (loc c) = true \/ mem x (trash c) = true.
Definition Dok (c : db) : Prop := forall x, mem x (loc c) = true -> mem x (ds c) = true.
Definition DIc (c : db) (f : files) : Prop := Aok c f /\ Bok c /\ Dok c.
Definition DI (s : st) : Prop := DIc (cur s) (fs s).
Definition fired (s s' : st) : Prop := fuse s <> None /\ fuse s' = None.
Definition fmono (s s' : st) : Prop := fuse s = None -> fuse s' = None.

(* ---------------------------------------------------------------------------------------------------------- *)
(* once the fuse is spent nothing fires any more: fuse = None is stable under every action *)
Lemma tick_none : forall s, fuse s = None -> tick s = (s, false).
Proof. intros s F; unfold tick; rewrite F; reflexivity. Qed.

Definition FMo (m : act) : Prop := forall s s' r, m s = (s', r) -> fmono s s'.

Lemma FMo_ret : FMo ret. Proof. intros s s' r H F; inversion H; subst; auto. Qed.
Lemma FMo_raise : FMo raise. Proof. intros s s' r H F; inversion H; subst; auto. Qed.
Lemma FMo_guard : forall b, FMo (guard b). Proof. intros b s s' r H F; unfold guard in H; destruct (b s); inversion H; subst; auto. Qed.
Lemma FMo_upd : forall f, (forall s, fuse (f s) = fuse s) -> FMo (upd f).
Proof. intros f K s s' r H F; inversion H; subst. rewrite K; exact F. Qed.
Lemma FMo_bind : forall m1 m2, FMo m1 -> FMo m2 -> FMo (m1 ;; m2).
Proof.
  intros m1 m2 H1 H2 s s' r H F; unfold bind in H. destruct (m1 s) as [s1 r1] eqn:E. assert (F1 := H1 _ _ _ E F).
  destruct r1; [eapply H2; eauto | inversion H; subst; exact F1].
Qed.
Lemma FMo_ev : forall m, FMo m -> FMo (ev m).
Proof. intros m Hm s s' r H F; unfold ev in H. rewrite (tick_none s F) in H. eapply Hm; eauto. Qed.
Lemma FMo_swallow : forall m, FMo m -> FMo (swallow m).
Proof. intros m Hm s s' r H F; unfold swallow in H. destruct (m s) as [s1 r1] eqn:E. assert (F1 := Hm _ _ _ E F).
  destruct r1 as [|[|]]; inversion H; subst; exact F1. Qed.
Lemma FMo_if : forall (c : st -> bool) m1 m2, FMo m1 -> FMo m2 -> FMo (fun s => if c s then m1 s else m2 s).
Proof. intros c m1 m2 H1 H2 s s' r H; destruct (c s); [eapply H1 | eapply H2]; eauto. Qed.
Lemma FMo_with_ds : forall m, FMo m -> FMo (with_ds shipped m).
Proof.
  intros m Hm s s' r H F; unfold with_ds in H. destruct (m (set_ptr ([] :: ptr s) s)) as [s2 r2] eqn:E.
  assert (F2 : fuse s2 = None) by (apply (Hm _ _ _ E); exact F).
  destruct r2; inversion H; subst; clear H.
  - destruct (ptr s2) as [|l [|p rr]]; exact F2.
  - destruct (ptr s2) as [|l rr]; [exact F2|]. simpl. destruct (undo_all_proj l s2) as (_ & _ & U & _). unfold undo_all in U. rewrite U; exact F2.
Qed.
Lemma fuse_rollback : forall y, fuse (rollback_reg y) = fuse y.
Proof. intro y; unfold rollback_reg. destruct (sql y) as [|[| |] r]; reflexivity. Qed.
Lemma fuse_reset : forall b y, fuse (reset_dc b y) = fuse y.
Proof. intros [|] y; reflexivity. Qed.
Lemma FMo_with_reg : forall sp dc m, FMo m -> FMo (with_reg sp dc m).
Proof.
  intros sp dc m Hm s s' r H F; unfold with_reg in H.
  set (fr := match sql s with [] => FReal (cur s) | _ :: _ => if sp || existsb is_save (sql s) then FSave (cur s) else FNoop end) in *.
  rewrite (tick_none s F) in H.
  assert (E0 : (if match fr with FNoop => true | _ => false end then (s, false) else (s, false)) = (s, false))
    by (destruct (match fr with FNoop => true | _ => false end); reflexivity).
  rewrite E0 in H. clear E0.
  destruct (m (set_sql (fr :: sql s) s)) as [s2 r2] eqn:E. assert (F2 : fuse s2 = None) by (apply (Hm _ _ _ E); exact F).
  destruct r2.
  - destruct (match fr with FNoop => true | _ => false end).
    + inversion H; subst; exact F2.
    + rewrite (tick_none s2 F2) in H. inversion H; subst; exact F2.
  - inversion H; subst. rewrite fuse_reset, fuse_rollback. exact F2.
Qed.
Lemma FMo_del_files : forall l, FMo (del_files l).
Proof. intros l s s' r H. destruct (del_files_frame _ _ _ _ H) as (_ & _ & _ & _ & _ & _ & _ & A & _). exact A. Qed.

Ltac fmo := repeat first
  [ apply FMo_bind | apply FMo_ev | apply FMo_ret | apply FMo_raise | apply FMo_guard | apply FMo_swallow
  | apply FMo_with_ds | apply FMo_with_reg | apply FMo_del_files | apply FMo_if
  | (apply FMo_upd; intro; reflexivity) ].

Lemma FMo_do_trash : forall d, FMo (do_trash shipped d).
Proof. intro d; unfold do_trash. apply FMo_with_ds, FMo_swallow, FMo_bind; [fmo|]. apply (FMo_if (fun s => mem d (loc (cur s)))); fmo. Qed.

Lemma FMo_et_rows : forall tg, FMo (et_rows tg).
Proof. intro tg; unfold et_rows, et_body; fmo. Qed.

(* without a fault emptyTrash's two row deletions succeed *)
Definition NF (m : act) : Prop := forall s, fuse s = None -> exists s', m s = (s', Normal) /\ fuse s' = None.

Lemma NF_bind : forall m1 m2, NF m1 -> NF m2 -> NF (m1 ;; m2).
Proof. intros m1 m2 H1 H2 s F. destruct (H1 s F) as (s1 & E1 & F1). destruct (H2 s1 F1) as (s2 & E2 & F2).
  exists s2. unfold bind. rewrite E1. auto. Qed.
Lemma NF_ev : forall m, NF m -> NF (ev m).
Proof. intros m Hm s F. unfold ev. rewrite (tick_none s F). apply Hm; exact F. Qed.
Lemma NF_upd : forall f, (forall s, fuse (f s) = fuse s) -> NF (upd f).
Proof. intros f K s F. exists (f s). split; [reflexivity | rewrite K; exact F]. Qed.
Lemma NF_with_reg : forall sp dc m, NF m -> NF (with_reg sp dc m).
Proof.
  intros sp dc m Hm s F. unfold with_reg.
  set (fr := match sql s with [] => FReal (cur s) | _ :: _ => if sp || existsb is_save (sql s) then FSave (cur s) else FNoop end).
  rewrite (tick_none s F).
  assert (E0 : (if match fr with FNoop => true | _ => false end then (s, false) else (s, false)) = (s, false))
    by (destruct (match fr with FNoop => true | _ => false end); reflexivity).
  rewrite E0. destruct (Hm (set_sql (fr :: sql s) s) F) as (s2 & E & F2). rewrite E.
  destruct (match fr with FNoop => true | _ => false end).
  - exists (pop_reg s2). split; [reflexivity | exact F2].
  - rewrite (tick_none s2 F2). exists (pop_reg s2). split; [reflexivity | exact F2].
Qed.
Lemma NF_with_ds : forall m, NF m -> NF (with_ds shipped m).
Proof.
  intros m Hm s F. unfold with_ds. destruct (Hm (set_ptr ([] :: ptr s) s) F) as (s2 & E & F2). rewrite E.
  eexists; split; [reflexivity|]. destruct (ptr s2) as [|l [|p rr]]; exact F2.
Qed.
Lemma NF_del_files : forall l, NF (del_files l).
Proof.
  induction l as [|t l IH]; intros s F; simpl; [exists s; auto|].
  rewrite (tick_none s F). apply (IH (set_fs (frm t (fs s)) s)). exact F.
Qed.
Lemma NF_et_rows : forall tg, NF (et_rows tg).
Proof. intro tg. unfold et_rows, et_body. apply NF_with_reg, NF_bind; apply NF_ev, NF_upd; intro; reflexivity. Qed.

Lemma NF_do_empty_trash : NF (do_empty_trash shipped).
Proof.
  intros s F. rewrite do_empty_trash_unfold. revert s F. apply NF_with_ds, NF_ev. intros s F.
  unfold bind. destruct (NF_del_files (trash_targets s) s F) as (s1 & E & F1). rewrite E.
  destruct (trash_targets s); [exists s1; auto | apply NF_et_rows; exact F1].
Qed.

(* ---------------------------------------------------------------------------------------------------------- *)
(* ---- Datastore.transaction() around an action that registers no undo entry: only the pointer moves *)
Lemma with_ds_plain : forall m s s' r, PF m -> with_ds shipped m s = (s', r) ->
  exists s2, m (set_ptr ([] :: ptr s) s) = (s2, r) /\ cur s' = cur s2 /\ fs s' = fs s2 /\ fuse s' = fuse s2 /\
             sql s' = sql s2 /\ hard s' = hard s2 /\ ptr s' = ptr s.
Proof.
  intros m s s' r P H. unfold with_ds in H. destruct (m (set_ptr ([] :: ptr s) s)) as [s2 r2] eqn:E.
  destruct (P _ _ _ E) as (A & _). simpl in A. rewrite A in H. exists s2.
  destruct r2; inversion H; subst; clear H.
  - destruct (ptr s) as [|p rr]; simpl; repeat split; auto.
  - simpl. repeat split; auto.
Qed.

(* ---- Database._transaction at top level: begin fault | body raised (rolled back) | commit fault (rolled back) | committed *)
Lemma with_reg_top : forall sp dc m s s' r, sql s = [] -> WB m -> with_reg sp dc m s = (s', r) ->
  sql s' = [] /\
  ((r <> Normal /\ cur s' = cur s /\ fs s' = fs s) \/
   exists x s2 r2, (fuse s = None -> x = None) /\ m (set_sql [FReal (cur s)] (set_fuse x s)) = (s2, r2) /\ fs s' = fs s2 /\
     ((r <> Normal /\ cur s' = cur s) \/
      (r2 = Normal /\ r = Normal /\ cur s' = cur s2 /\ fmono s2 s'))).
Proof.
  intros sp dc m s s' r Q W H.
  assert (S' : sql s' = []) by (destruct (WB_with_reg sp dc m W _ _ _ H) as (A & _); congruence).
  split; [exact S'|].
  unfold with_reg in H. rewrite Q in H. tks s H. destruct b.
  - inversion H; subst. destruct (reset_dc_all dc (set_fuse x s)) as (R1 & R2 & R3 & R4 & R5 & R6 & R7).
    left. simpl in *. repeat split; auto; discriminate.
  - simpl in H. rewrite ?Q in H. destruct (m (set_sql [FReal (cur s)] (set_fuse x s))) as [s2 r2] eqn:E.
    destruct (W _ _ _ E) as (D & _). simpl in D.
    assert (FX : fuse s = None -> x = None) by (intro F; apply TN; exact F).
    right. exists x, s2, r2. split; [exact FX|]. split; [exact E|].
    destruct r2.
    + tks s2 H. destruct b.
      * inversion H; subst; clear H.
        destruct (rollback_reg_all (set_fuse x0 s2) _ _ D) as (Q1 & Q2 & Q3 & Q4 & Q5 & Q6 & Q7).
        destruct (reset_dc_all dc (rollback_reg (set_fuse x0 s2))) as (R1 & R2 & R3 & R4 & R5 & R6 & R7).
        simpl in *. split; [congruence|]. left. split; [discriminate | congruence].
      * inversion H; subst; clear H. simpl. split; [reflexivity|]. right. repeat split; auto.
        intro F2; simpl. apply TN0; exact F2.
    + inversion H; subst; clear H.
      destruct (rollback_reg_all s2 _ _ D) as (Q1 & Q2 & Q3 & Q4 & Q5 & Q6 & Q7).
      destruct (reset_dc_all dc (rollback_reg s2)) as (R1 & R2 & R3 & R4 & R5 & R6 & R7).
      split; [congruence|]. left. split; [discriminate | congruence].
Qed.

(* two consecutive statements, each behind its own boundary *)
Lemma two_ev_cur : forall F G a a' r, (ev (upd (on_cur F)) ;; ev (upd (on_cur G))) a = (a', r) ->
  fs a' = fs a /\ sql a' = sql a /\ hard a' = hard a /\ fmono a a' /\
  ((r = Raised (hard a) /\ fired a a' /\ cur a' = cur a) \/
   (r = Raised (hard a) /\ fired a a' /\ cur a' = F (cur a)) \/
   (r = Normal /\ cur a' = G (F (cur a)))).
Proof.
  intros F G a a' r H. unfold bind, ev, upd in H. tks a H. destruct b.
  - inversion H; subst; simpl. destruct (TF eq_refl) as (F1 & F2). subst x.
    repeat split; auto. left. repeat split; auto.
  - tks (on_cur F (set_fuse x a)) H. simpl in *. destruct b.
    + inversion H; subst; simpl. destruct (TF0 eq_refl) as (F1 & F2). subst x0. simpl in F1.
      repeat split; auto. right; left. repeat split; auto. intro Z. destruct (TN Z) as (Z1 & _). subst x. apply F1; reflexivity.
    + inversion H; subst; simpl. repeat split; auto.
      intro Z. destruct (TN Z) as (Z1 & _). subst x. destruct (TN0 eq_refl) as (Z2 & _). exact Z2.
Qed.

Lemma with_reg_noop : forall dc m s fr0 rest, sql s = fr0 :: rest -> existsb is_save (sql s) = false ->
  with_reg false dc m s = match m (set_sql (FNoop :: sql s) s) with
                          | (s2, Normal) => (pop_reg s2, Normal)
                          | (s2, Raised h) => (reset_dc dc (rollback_reg s2), Raised h)
                          end.
Proof. intros dc m s fr0 rest Q X. unfold with_reg. rewrite X. destruct (sql s) eqn:QQ; [discriminate Q|]. simpl. rewrite QQ. reflexivity. Qed.

(* ---------------------------------------------------------------------------------------------------------- *)
(* the invariant under the table edits of a removal *)
Lemma mem_rm_inv : forall x d l, mem x (rm d l) = true -> x <> d /\ mem x l = true.
Proof.
  intros x d l H. destruct (N.eq_dec x d) as [E|E].
  - subst. rewrite mem_rm_same in H. discriminate.
  - rewrite mem_rm_other in H by exact E. auto.
Qed.

Lemma DIc_trashed : forall d c f, DIc c f -> DIc (up_trash (add d) (up_loc (rm d) c)) f.
Proof.
  intros d c f (A & B & D). split; [|split].
  - exact A.
  - intros x X; simpl in *. destruct (N.eq_dec x d) as [E|E].
    + subst. right. apply mem_add_same.
    + rewrite mem_rm_other by exact E. destruct (B x X); [left | right; apply mem_add_mono]; assumption.
  - intros x X; simpl in *. apply mem_rm_inv in X. apply D; tauto.
Qed.

Lemma DIc_rmds : forall d c f, DIc c f -> mem d (loc c) = false -> DIc (up_certs (rm d) (up_tags (rm d) (up_ds (rm d) c))) f.
Proof.
  intros d c f (A & B & D) L. split; [|split].
  - exact A.
  - exact B.
  - intros x X; simpl in *. assert (x <> d) by (intro; subst; congruence). rewrite mem_rm_other by assumption. apply D; exact X.
Qed.

Lemma DIc_shrink : forall c f f', DIc c f -> (forall x, fget x f' <> None -> fget x f' = fget x f) -> DIc c f'.
Proof. intros c f f' (A & B & D) S. split; [|split]; auto. intros x X. apply A. rewrite <- (S x X). exact X. Qed.

Lemma DIc_drop : forall c f f' tg, DIc c f -> tg = filter (fun t => mem t (recs c)) (trash c) ->
  (forall x, In x tg -> fget x f' = None) -> (forall x, fget x f' <> None -> fget x f' = fget x f) ->
  DIc (up_trash (drop tg) (up_recs (drop tg) c)) f'.
Proof.
  intros c f f' tg (A & B & D) TG DEL S. split; [|split].
  - intros x X; simpl. unfold drop. rewrite mem_filter. apply andb_true_iff. split.
    + apply A. rewrite <- (S x X). exact X.
    + destruct (mem x tg) eqn:M; [|reflexivity]. apply mem_In in M. apply DEL in M. contradiction.
  - intros x X; simpl in *. unfold drop in X. rewrite mem_filter in X. apply andb_true_iff in X. destruct X as (X1 & X2).
    destruct (B x X1) as [L|T]; [left; exact L|]. exfalso.
    assert (I : In x tg) by (rewrite TG; apply filter_In; split; [apply mem_In; exact T | exact X1]).
    apply mem_In in I. rewrite I in X2. discriminate.
  - exact D.
Qed.

(* ---------------------------------------------------------------------------------------------------------- *)
(* emptyTrash at top level *)
Definition et_inner : act :=
  ev (fun s0 => (del_files (trash_targets s0) ;;
     (fun s1 => if match trash_targets s0 with [] => true | _ => false end then (s1, Normal) else et_rows (trash_targets s0) s1)) s0).

Lemma PF_et_inner : PF et_inner.
Proof.
  intros s s' r H. unfold et_inner, ev in H. tks s H. destruct b.
  { inversion H; subst; simpl; repeat split; strue. }
  unfold bind in H. destruct (del_files (trash_targets (set_fuse x s)) (set_fuse x s)) as [s1 r1] eqn:D.
  destruct (del_files_frame _ _ _ _ D) as (A1 & A2 & _). simpl in A1, A2.
  destruct r1; [|inversion H; subst; repeat split; strue].
  destruct (trash_targets (set_fuse x s)); [inversion H; subst; repeat split; strue|].
  destruct (PF_et_rows _ _ _ _ H) as (E1 & E2 & _). repeat split; strue; congruence.
Qed.

Lemma ET_DI : forall s s' r, sql s = [] -> DI s -> do_empty_trash shipped s = (s', r) ->
  sql s' = [] /\ fmono s s' /\ (DI s' \/ (r = Normal /\ fired s s')).
Proof.
  intros s s' r Q HDI H.
  assert (FM : fmono s s').
  { revert H. rewrite do_empty_trash_unfold. generalize s s' r. change (FMo (with_ds shipped et_inner)).
    apply FMo_with_ds. intros a a' ra Ha. unfold et_inner, ev in Ha. intro Fa. rewrite (tick_none a Fa) in Ha.
    unfold bind in Ha. destruct (del_files (trash_targets a) a) as [a1 r1] eqn:D. assert (F1 := FMo_del_files _ _ _ _ D Fa).
    destruct r1; [|inversion Ha; subst; exact F1].
    destruct (trash_targets a); [inversion Ha; subst; exact F1 | apply (FMo_et_rows _ _ _ _ Ha F1)]. }
  rewrite do_empty_trash_unfold in H. fold et_inner in H.
  apply with_ds_plain in H; [|apply PF_et_inner]. destruct H as (s2 & E & C2 & F2 & U2 & S2 & _).
  rewrite S2. unfold DI in *. unfold fired. rewrite C2, F2, U2.
  unfold et_inner, ev in E. tks (set_ptr ([] :: ptr s) s) E. destruct b.
  { inversion E; subst; simpl. repeat split; auto. }
  set (s0 := set_fuse x (set_ptr ([] :: ptr s) s)) in *.
  assert (K0 : cur s0 = cur s /\ fs s0 = fs s /\ sql s0 = [] /\ fuse s0 = x /\ trash_targets s0 = trash_targets s) by (repeat split; auto).
  destruct K0 as (K1 & K2 & K3 & K4 & K5). simpl in TN. clearbody s0. rewrite K5 in E.
  unfold bind in E. destruct (del_files (trash_targets s) s0) as [s1 r1] eqn:D.
  destruct (del_files_frame _ _ _ _ D) as (A1 & A2 & A3 & A4 & A5 & A6 & A7 & A8 & A9).
  assert (DI1 : DIc (cur s) (fs s1)) by (apply (DIc_shrink _ (fs s)); [exact HDI | intros y Y; rewrite <- K2; apply A6; exact Y]).
  destruct r1.
  2:{ inversion E; subst. split; [congruence|]. split; [exact FM|]. left. rewrite A3, K1. exact DI1. }
  destruct (trash_targets s) as [|t0 tg0] eqn:TG.
  { inversion E; subst. split; [congruence|]. split; [exact FM|]. left. rewrite A3, K1. exact DI1. }
  destruct A9 as [(X & _)|[(_ & Y & Z)|(_ & Y)]]; [discriminate X| |].
  - (* a soft fault while deleting artifacts was ignored: the rows are deleted all the same, the call returns normally *)
    destruct (NF_et_rows (t0 :: tg0) s1 Z) as (s3 & E3 & F3). rewrite E3 in E. inversion E; subst.
    assert (Q3 : sql s2 = []) by (destruct (WB_with_reg false false _ (WB_et_body (t0 :: tg0)) _ _ _ E3) as (W1 & _); congruence).
    split; [exact Q3|]. split; [exact FM|]. right. split; [reflexivity|]. split; [|exact F3].
    intro Fs. apply Y. destruct (TN Fs) as (Z1 & _). congruence.
  - unfold et_rows in E. apply with_reg_top in E; [|congruence | apply WB_et_body].
    destruct E as (Q3 & [(N1 & C1 & F1)|(x1 & s3 & r3 & _ & E3 & F3 & K)]).
    + split; [exact Q3|]. split; [exact FM|]. left. rewrite C1, F1, A3, K1. exact DI1.
    + unfold et_body in E3. apply two_ev_cur in E3. destruct E3 as (G1 & _ & _ & _ & G5). simpl in G1, G5.
      split; [exact Q3|]. split; [exact FM|]. left. destruct K as [(N1 & C1)|(R3 & R1 & C1 & _)].
      * rewrite C1, F3, G1, A3, K1. exact DI1.
      * subst r3. destruct G5 as [(X & _)|[(X & _)|(_ & G6)]]; try discriminate X.
        rewrite C1, G6, F3, G1, A3, K1. apply (DIc_drop _ (fs s)); [exact HDI | symmetry; exact TG | exact Y |].
        intros y Y1. rewrite <- K2. apply A6. exact Y1.
Qed.

(* ---------------------------------------------------------------------------------------------------------- *)
(* Datastore.trash inside the registry transaction of a top-level pruneDatasets *)
Definition trash_rows (d : N) : act := ev (upd (on_cur (up_loc (rm d)))) ;; ev (upd (on_cur (up_trash (add d)))).
Definition trash_inner (d : N) : act :=
  swallow (ev ret ;; (fun s => if mem d (loc (cur s)) then with_reg false false (trash_rows d) s else (s, Normal))).

Lemma do_trash_unfold : forall d, do_trash shipped d = with_ds shipped (trash_inner d).
Proof. reflexivity. Qed.

Lemma PF_trash_inner : forall d, PF (trash_inner d).
Proof.
  intro d. unfold PF, trash_inner, trash_rows. apply RMV_swallow, (RMV_bind _ STrue_trans); [apply (RMV_ev _ STrue_trans STrue_cf), (RMV_ret _ STrue_refl)|].
  apply (RMV_if STrue (fun s => mem d (loc (cur s)))); [|apply (RMV_ret _ STrue_refl)].
  apply (RMV_with_reg _ STrue_trans STrue_cf STrue_rb); [|wb].
  apply (RMV_bind _ STrue_trans); apply (RMV_ev _ STrue_trans STrue_cf), RMV_upd; intro s; repeat split; strue.
Qed.

Lemma TR : forall d s s1 r1 d0, sql s = [FReal d0] -> do_trash shipped d s = (s1, r1) ->
  fs s1 = fs s /\ sql s1 = sql s /\ fmono s s1 /\
  (cur s1 = cur s \/
   (r1 = Normal /\ cur s1 = up_trash (add d) (up_loc (rm d) (cur s))) \/
   (cur s1 = up_loc (rm d) (cur s) /\ (r1 = Raised true \/ (r1 = Normal /\ fired s s1)))).
Proof.
  intros d s s1 r1 d0 Q H.
  assert (FM : fmono s s1) by (apply (FMo_do_trash d _ _ _ H)).
  assert (SQ : sql s1 = sql s) by (destruct (WB_do_trash d _ _ _ H) as (A & _); exact A).
  rewrite do_trash_unfold in H. apply with_ds_plain in H; [|apply PF_trash_inner].
  destruct H as (s2 & E & C2 & F2 & U2 & S2 & H2 & _).
  split; [|split; [exact SQ|split; [exact FM|]]].
  - rewrite F2.
    (* files: the trash step never touches artifacts *)
    assert (QF : RMV Quiet (trash_inner d)).
    { unfold trash_inner, trash_rows. apply RMV_swallow, (RMV_bind _ Quiet_trans); [apply (RMV_ev _ Quiet_trans Quiet_cf), (RMV_ret _ Quiet_refl)|].
      apply (RMV_if Quiet (fun s => mem d (loc (cur s)))); [|apply (RMV_ret _ Quiet_refl)].
      apply (RMV_with_reg _ Quiet_trans Quiet_cf Quiet_rb); [|wb].
      apply (RMV_bind _ Quiet_trans); apply (RMV_ev _ Quiet_trans Quiet_cf), RMV_upd; intro a; repeat split; auto. }
    destruct (QF _ _ _ E) as (_ & _ & (A & _)). exact A.
  - unfold fired. rewrite C2, U2. clear C2 F2 U2 S2 H2 FM SQ.
    set (a := set_ptr ([] :: ptr s) s) in *.
    assert (KA : cur a = cur s /\ sql a = [FReal d0] /\ fuse a = fuse s /\ hard a = hard s) by (repeat split; auto).
    destruct KA as (K1 & K2 & K3 & K4). clearbody a.
    unfold trash_inner, swallow, bind, ev at 1 in E. tks a E. destruct b.
    + destruct (hard (set_fuse x a)); inversion E; subst; left; simpl; exact K1.
    + unfold ret in E. assert (L0 : cur (set_fuse x a) = cur a) by reflexivity. rewrite L0 in E.
      destruct (mem d (loc (cur a))) eqn:L.
      2:{ inversion E; subst. left; simpl; exact K1. }
      rewrite (with_reg_noop false (trash_rows d) (set_fuse x a) (FReal d0) []) in E; [|exact K2 | simpl; rewrite K2; reflexivity].
      destruct (trash_rows d (set_sql (FNoop :: sql (set_fuse x a)) (set_fuse x a))) as [s3 r3] eqn:E3.
      unfold trash_rows in E3. apply two_ev_cur in E3. simpl in E3. destruct E3 as (G1 & G2 & G3 & G4 & G5).
      assert (FA : fuse a = None -> x = None) by (intro Z; apply TN; exact Z).
      destruct G5 as [(X & (Y1 & Y2) & Z)|[(X & (Y1 & Y2) & Z)|(X & Z)]]; subst r3.
      * (* fault at DELETE dataset_location: nothing changed *)
        assert (CC : cur (rollback_reg s3) = cur s3) by (unfold rollback_reg; rewrite G2; reflexivity).
        destruct (hard a); inversion E; subst; left; simpl; rewrite ?CC; congruence.
      * (* fault at INSERT dataset_location_trash: the location row is gone, nothing rolls it back *)
        assert (CC : cur (rollback_reg s3) = cur s3) by (unfold rollback_reg; rewrite G2; reflexivity).
        assert (FC : fuse (rollback_reg s3) = fuse s3) by apply fuse_rollback.
        right; right. destruct (hard a); inversion E; subst; simpl; rewrite ?CC, ?FC; (split; [congruence|]).
        -- left; reflexivity.
        -- right. split; [reflexivity|]. split; [|exact Y2]. intro Z0. apply Y1. rewrite <- K3 in Z0. rewrite (FA Z0). reflexivity.
      * inversion E; subst. right; left. split; [reflexivity|]. simpl. congruence.
Qed.
