(* C07, removals, DATASTORE side, Part 2: at top level (no transaction open) the invariant
     DI s := every artifact has a datastore record /\ every record is located or trashed /\ every located dataset is
             registered
   is preserved by purge / unstore / emptyTrash whenever the operation FAILS (raises) or no fault fired at all; the only
   way to break it is a fault swallowed by an ignore_errors handler so that the removal reports success (the two known
   findings).  From DI the next fault-free emptyTrash leaves only artifacts of located, registered datasets. *)
From Coq Require Import NArith PeanoNat List Bool Lia.
From V Require Import Model.Txn Model.TxnCheck Proofs.TxnProofs Proofs.TxnFiles Proofs.TxnProofsRm Proofs.TxnProofsLo.
Import ListNotations.
Open Scope N_scope.

Definition Aok (c : db) (f : files) : Prop := forall x, fget x f <> None -> mem x (recs c) = true.
Definition Bok (c : db) : Prop := forall x, mem x (recs c) = true -> mem x (loc c) = true \/ mem x (trash c) = true.
Definition Dok (c : db) : Prop := forall x, mem x (loc c) = true -> mem x (ds c) = true.
Definition DIc (c : db) (f : files) : Prop := Aok c f /\ Bok c /\ Dok c.
Definition DI (s : st) : Prop := DIc (cur s) (fs s).
Definition fired (s s' : st) : Prop := fuse s <> None /\ fuse s' = None.
Definition fmono (s s' : st) : Prop := fuse s = None -> fuse s' = None.

(* ---------------------------------------------------------------------------------------------------------- *)
(* once the fuse is spent nothing fires any more: fuse = None is stable under every action *)
Lemma tick_none : forall s, fuse s = None -> tick s = (s, false).
Proof. intros s F; unfold tick; rewrite F; reflexivity. Qed.

Definition FMo (m : act) : Prop := forall s s' r, m s = (s', r) -> fmono s s'.

Lemma FMo_ret : FMo ret. Proof. intros s s' r H F; inversion H; subst; auto. Qed.
Lemma FMo_raise : FMo raise. Proof. intros s s' r H F; inversion H; subst; auto. Qed.
Lemma FMo_guard : forall b, FMo (guard b). Proof. intros b s s' r H F; unfold guard in H; destruct (b s); inversion H; subst; auto. Qed.
Lemma FMo_upd : forall f, (forall s, fuse (f s) = fuse s) -> FMo (upd f).
Proof. intros f K s s' r H F; inversion H; subst. rewrite K; exact F. Qed.
Lemma FMo_bind : forall m1 m2, FMo m1 -> FMo m2 -> FMo (m1 ;; m2).
Proof.
  intros m1 m2 H1 H2 s s' r H F; unfold bind in H. destruct (m1 s) as [s1 r1] eqn:E. assert (F1 := H1 _ _ _ E F).
  destruct r1; [eapply H2; eauto | inversion H; subst; exact F1].
Qed.
Lemma FMo_ev : forall m, FMo m -> FMo (ev m).
Proof. intros m Hm s s' r H F; unfold ev in H. rewrite (tick_none s F) in H. eapply Hm; eauto. Qed.
Lemma FMo_swallow : forall m, FMo m -> FMo (swallow m).
Proof. intros m Hm s s' r H F; unfold swallow in H. destruct (m s) as [s1 r1] eqn:E. assert (F1 := Hm _ _ _ E F).
  destruct r1 as [|[|]]; inversion H; subst; exact F1. Qed.
Lemma FMo_if : forall (c : st -> bool) m1 m2, FMo m1 -> FMo m2 -> FMo (fun s => if c s then m1 s else m2 s).
Proof. intros c m1 m2 H1 H2 s s' r H; destruct (c s); [eapply H1 | eapply H2]; eauto. Qed.
Lemma FMo_with_ds : forall m, FMo m -> FMo (with_ds shipped m).
Proof.
  intros m Hm s s' r H F; unfold with_ds in H. destruct (m (set_ptr ([] :: ptr s) s)) as [s2 r2] eqn:E.
  assert (F2 : fuse s2 = None) by (apply (Hm _ _ _ E); exact F).
  destruct r2; inversion H; subst; clear H.
  - destruct (ptr s2) as [|l [|p rr]]; exact F2.
  - destruct (ptr s2) as [|l rr]; [exact F2|]. simpl. destruct (undo_all_proj l s2) as (_ & _ & U & _). unfold undo_all in U. rewrite U; exact F2.
Qed.
Lemma fuse_rollback : forall y, fuse (rollback_reg y) = fuse y.
Proof. intro y; unfold rollback_reg. destruct (sql y) as [|[| |] r]; reflexivity. Qed.
Lemma fuse_reset : forall b y, fuse (reset_dc b y) = fuse y.
Proof. intros [|] y; reflexivity. Qed.
Lemma FMo_with_reg : forall sp dc m, FMo m -> FMo (with_reg sp dc m).
Proof.
  intros sp dc m Hm s s' r H F; unfold with_reg in H.
  set (fr := match sql s with [] => FReal (cur s) | _ :: _ => if sp || existsb is_save (sql s) then FSave (cur s) else FNoop end) in *.
  rewrite (tick_none s F) in H.
  assert (E0 : (if match fr with FNoop => true | _ => false end then (s, false) else (s, false)) = (s, false))
    by (destruct (match fr with FNoop => true | _ => false end); reflexivity).
  rewrite E0 in H. clear E0.
  destruct (m (set_sql (fr :: sql s) s)) as [s2 r2] eqn:E. assert (F2 : fuse s2 = None) by (apply (Hm _ _ _ E); exact F).
  destruct r2.
  - destruct (match fr with FNoop => true | _ => false end).
    + inversion H; subst; exact F2.
    + rewrite (tick_none s2 F2) in H. inversion H; subst; exact F2.
  - inversion H; subst. rewrite fuse_reset, fuse_rollback. exact F2.
Qed.
Lemma FMo_del_files : forall l, FMo (del_files l).
Proof. intros l s s' r H. destruct (del_files_frame _ _ _ _ H) as (_ & _ & _ & _ & _ & _ & _ & A & _). exact A. Qed.

Ltac fmo := repeat first
  [ apply FMo_bind | apply FMo_ev | apply FMo_ret | apply FMo_raise | apply FMo_guard | apply FMo_swallow
  | apply FMo_with_ds | apply FMo_with_reg | apply FMo_del_files | apply FMo_if
  | (apply FMo_upd; intro; reflexivity) ].

Lemma FMo_do_trash : forall d, FMo (do_trash shipped d).
Proof. intro d; unfold do_trash. apply FMo_with_ds, FMo_swallow, FMo_bind; [fmo|]. apply (FMo_if (fun s => mem d (loc (cur s)))); fmo. Qed.

Lemma FMo_et_rows : forall tg, FMo (et_rows tg).
Proof. intro tg; unfold et_rows, et_body; fmo. Qed.

(* without a fault emptyTrash's two row deletions succeed *)
Definition NF (m : act) : Prop := forall s, fuse s = None -> exists s', m s = (s', Normal) /\ fuse s' = None.

Lemma NF_bind : forall m1 m2, NF m1 -> NF m2 -> NF (m1 ;; m2).
Proof. intros m1 m2 H1 H2 s F. destruct (H1 s F) as (s1 & E1 & F1). destruct (H2 s1 F1) as (s2 & E2 & F2).
  exists s2. unfold bind. rewrite E1. auto. Qed.
Lemma NF_ev : forall m, NF m -> NF (ev m).
Proof. intros m Hm s F. unfold ev. rewrite (tick_none s F). apply Hm; exact F. Qed.
Lemma NF_upd : forall f, (forall s, fuse (f s) = fuse s) -> NF (upd f).
Proof. intros f K s F. exists (f s). split; [reflexivity | rewrite K; exact F]. Qed.
Lemma NF_with_reg : forall sp dc m, NF m -> NF (with_reg sp dc m).
Proof.
  intros sp dc m Hm s F. unfold with_reg.
  set (fr := match sql s with [] => FReal (cur s) | _ :: _ => if sp || existsb is_save (sql s) then FSave (cur s) else FNoop end).
  rewrite (tick_none s F).
  assert (E0 : (if match fr with FNoop => true | _ => false end then (s, false) else (s, false)) = (s, false))
    by (destruct (match fr with FNoop => true | _ => false end); reflexivity).
  rewrite E0. destruct (Hm (set_sql (fr :: sql s) s) F) as (s2 & E & F2). rewrite E.
  destruct (match fr with FNoop => true | _ => false end).
  - exists (pop_reg s2). split; [reflexivity | exact F2].
  - rewrite (tick_none s2 F2). exists (pop_reg s2). split; [reflexivity | exact F2].
Qed.
Lemma NF_with_ds : forall m, NF m -> NF (with_ds shipped m).
Proof.
  intros m Hm s F. unfold with_ds. destruct (Hm (set_ptr ([] :: ptr s) s) F) as (s2 & E & F2). rewrite E.
  eexists; split; [reflexivity|]. destruct (ptr s2) as [|l [|p rr]]; exact F2.
Qed.
Lemma NF_del_files : forall l, NF (del_files l).
Proof.
  induction l as [|t l IH]; intros s F; simpl; [exists s; auto|].
  rewrite (tick_none s F). apply (IH (set_fs (frm t (fs s)) s)). exact F.
Qed.
Lemma NF_et_rows : forall tg, NF (et_rows tg).
Proof. intro tg. unfold et_rows, et_body. apply NF_with_reg, NF_bind; apply NF_ev, NF_upd; intro; reflexivity. Qed.

Lemma NF_do_empty_trash : NF (do_empty_trash shipped).
Proof.
  intros s F. rewrite do_empty_trash_unfold. revert s F. apply NF_with_ds, NF_ev. intros s F.
  unfold bind. destruct (NF_del_files (trash_targets s) s F) as (s1 & E & F1). rewrite E.
  destruct (trash_targets s); [exists s1; auto | apply NF_et_rows; exact F1].
Qed.

(* ---------------------------------------------------------------------------------------------------------- *)
(* ---- Datastore.transaction() around an action that registers no undo entry: only the pointer moves *)
Lemma with_ds_plain : forall m s s' r, PF m -> with_ds shipped m s = (s', r) ->
  exists s2, m (set_ptr ([] :: ptr s) s) = (s2, r) /\ cur s' = cur s2 /\ fs s' = fs s2 /\ fuse s' = fuse s2 /\
             sql s' = sql s2 /\ hard s' = hard s2 /\ ptr s' = ptr s.
Proof.
  intros m s s' r P H. unfold with_ds in H. destruct (m (set_ptr ([] :: ptr s) s)) as [s2 r2] eqn:E.
  destruct (P _ _ _ E) as (A & _). simpl in A. rewrite A in H. exists s2.
  destruct r2; inversion H; subst; clear H.
  - destruct (ptr s) as [|p rr]; simpl; repeat split; auto.
  - simpl. repeat split; auto.
Qed.

(* ---- Database._transaction at top level: begin fault | body raised (rolled back) | commit fault (rolled back) | committed *)
Lemma with_reg_top : forall sp dc m s s' r, sql s = [] -> WB m -> with_reg sp dc m s = (s', r) ->
  sql s' = [] /\
  ((r <> Normal /\ cur s' = cur s /\ fs s' = fs s) \/
   exists x s2 r2, (fuse s = None -> x = None) /\ m (set_sql [FReal (cur s)] (set_fuse x s)) = (s2, r2) /\ fs s' = fs s2 /\
     ((r <> Normal /\ cur s' = cur s) \/
      (r2 = Normal /\ r = Normal /\ cur s' = cur s2 /\ fmono s2 s'))).
Proof.
  intros sp dc m s s' r Q W H.
  assert (S' : sql s' = []) by (destruct (WB_with_reg sp dc m W _ _ _ H) as (A & _); congruence).
  split; [exact S'|].
  unfold with_reg in H. rewrite Q in H. tks s H. destruct b.
  - inversion H; subst. destruct (reset_dc_all dc (set_fuse x s)) as (R1 & R2 & R3 & R4 & R5 & R6 & R7).
    left. simpl in *. repeat split; auto; discriminate.
  - simpl in H. rewrite ?Q in H. destruct (m (set_sql [FReal (cur s)] (set_fuse x s))) as [s2 r2] eqn:E.
    destruct (W _ _ _ E) as (D & _). simpl in D.
    assert (FX : fuse s = None -> x = None) by (intro F; apply TN; exact F).
    right. exists x, s2, r2. split; [exact FX|]. split; [exact E|].
    destruct r2.
    + tks s2 H. destruct b.
      * inversion H; subst; clear H.
        destruct (rollback_reg_all (set_fuse x0 s2) _ _ D) as (Q1 & Q2 & Q3 & Q4 & Q5 & Q6 & Q7).
        destruct (reset_dc_all dc (rollback_reg (set_fuse x0 s2))) as (R1 & R2 & R3 & R4 & R5 & R6 & R7).
        simpl in *. split; [congruence|]. left. split; [discriminate | congruence].
      * inversion H; subst; clear H. simpl. split; [reflexivity|]. right. repeat split; auto.
        intro F2; simpl. apply TN0; exact F2.
    + inversion H; subst; clear H.
      destruct (rollback_reg_all s2 _ _ D) as (Q1 & Q2 & Q3 & Q4 & Q5 & Q6 & Q7).
      destruct (reset_dc_all dc (rollback_reg s2)) as (R1 & R2 & R3 & R4 & R5 & R6 & R7).
      split; [congruence|]. left. split; [discriminate | congruence].
Qed.

(* two consecutive statements, each behind its own boundary *)
Lemma two_ev_cur : forall F G a a' r, (ev (upd (on_cur F)) ;; ev (upd (on_cur G))) a = (a', r) ->
  fs a' = fs a /\ sql a' = sql a /\ hard a' = hard a /\ fmono a a' /\
  ((r = Raised (hard a) /\ fired a a' /\ cur a' = cur a) \/
   (r = Raised (hard a) /\ fired a a' /\ cur a' = F (cur a)) \/
   (r = Normal /\ cur a' = G (F (cur a)))).
Proof.
  intros F G a a' r H. unfold bind, ev, upd in H. tks a H. destruct b.
  - inversion H; subst; simpl. destruct (TF eq_refl) as (F1 & F2). subst x.
    repeat split; auto. left. repeat split; auto.
  - tks (on_cur F (set_fuse x a)) H. simpl in *. destruct b.
    + inversion H; subst; simpl. destruct (TF0 eq_refl) as (F1 & F2). subst x0. simpl in F1.
      repeat split; auto. right; left. repeat split; auto. intro Z. destruct (TN Z) as (Z1 & _). subst x. apply F1; reflexivity.
    + inversion H; subst; simpl. repeat split; auto.
      intro Z. destruct (TN Z) as (Z1 & _). subst x. destruct (TN0 eq_refl) as (Z2 & _). exact Z2.
Qed.

Lemma with_reg_noop : forall dc m s fr0 rest, sql s = fr0 :: rest -> existsb is_save (sql s) = false ->
  with_reg false dc m s = match m (set_sql (FNoop :: sql s) s) with
                          | (s2, Normal) => (pop_reg s2, Normal)
                          | (s2, Raised h) => (reset_dc dc (rollback_reg s2), Raised h)
                          end.
Proof. intros dc m s fr0 rest Q X. unfold with_reg. rewrite X. destruct (sql s) eqn:QQ; [discriminate Q|]. simpl. rewrite QQ. reflexivity. Qed.

(* ---------------------------------------------------------------------------------------------------------- *)
(* the invariant under the table edits of a removal *)
Lemma mem_rm_inv : forall x d l, mem x (rm d l) = true -> x <> d /\ mem x l = true.
Proof.
  intros x d l H. destruct (N.eq_dec x d) as [E|E].
  - subst. rewrite mem_rm_same in H. discriminate.
  - rewrite mem_rm_other in H by exact E. auto.
Qed.

Lemma DIc_trashed : forall d c f, DIc c f -> DIc (up_trash (add d) (up_loc (rm d) c)) f.
Proof.
  intros d c f (A & B & D). split; [|split].
  - exact A.
  - intros x X; simpl in *. destruct (N.eq_dec x d) as [E|E].
    + subst. right. apply mem_add_same.
    + rewrite mem_rm_other by exact E. destruct (B x X); [left | right; apply mem_add_mono]; assumption.
  - intros x X; simpl in *. apply mem_rm_inv in X. apply D; tauto.
Qed.

Definition rmds (d : N) (c : db) : db := up_xf (rm d) (up_certs (rm d) (up_tags (rm d) (up_ds (rm d) c))).

Lemma DIc_rmds : forall d c f, DIc c f -> mem d (loc c) = false -> DIc (rmds d c) f.
Proof.
  intros d c f (A & B & D) L. split; [|split].
  - exact A.
  - exact B.
  - intros x X; simpl in *. assert (x <> d) by (intro; subst; congruence). rewrite mem_rm_other by assumption. apply D; exact X.
Qed.

Lemma DIc_shrink : forall c f f', DIc c f -> (forall x, fget x f' <> None -> fget x f' = fget x f) -> DIc c f'.
Proof. intros c f f' (A & B & D) S. split; [|split]; auto. intros x X. apply A. rewrite <- (S x X). exact X. Qed.

Lemma DIc_drop : forall c f f' tg, DIc c f -> tg = filter (fun t => mem t (recs c)) (trash c) ->
  (forall x, In x tg -> fget x f' = None) -> (forall x, fget x f' <> None -> fget x f' = fget x f) ->
  DIc (up_trash (drop tg) (up_recs (drop tg) c)) f'.
Proof.
  intros c f f' tg (A & B & D) TG DEL S. split; [|split].
  - intros x X; simpl. unfold drop. rewrite mem_filter. apply andb_true_iff. split.
    + apply A. rewrite <- (S x X). exact X.
    + destruct (mem x tg) eqn:M; [|reflexivity]. apply mem_In in M. apply DEL in M. contradiction.
  - intros x X; simpl in *. unfold drop in X. rewrite mem_filter in X. apply andb_true_iff in X. destruct X as (X1 & X2).
    destruct (B x X1) as [L|T]; [left; exact L|]. exfalso.
    assert (I : In x tg) by (rewrite TG; apply filter_In; split; [apply mem_In; exact T | exact X1]).
    apply mem_In in I. rewrite I in X2. discriminate.
  - exact D.
Qed.

(* ---------------------------------------------------------------------------------------------------------- *)
(* emptyTrash at top level *)
Definition et_inner : act :=
  ev (fun s0 => (del_files (trash_targets s0) ;;
     (fun s1 => if match trash_targets s0 with [] => true | _ => false end then (s1, Normal) else et_rows (trash_targets s0) s1)) s0).

Lemma PF_et_inner : PF et_inner.
Proof.
  intros s s' r H. unfold et_inner, ev in H. tks s H. destruct b.
  { inversion H; subst; simpl; repeat split; strue. }
  unfold bind in H. destruct (del_files (trash_targets (set_fuse x s)) (set_fuse x s)) as [s1 r1] eqn:D.
  destruct (del_files_frame _ _ _ _ D) as (A1 & A2 & _). simpl in A1, A2.
  destruct r1; [|inversion H; subst; repeat split; strue].
  destruct (trash_targets (set_fuse x s)); [inversion H; subst; repeat split; strue|].
  destruct (PF_et_rows _ _ _ _ H) as (E1 & E2 & _). repeat split; strue; congruence.
Qed.

Lemma ET_DI : forall s s' r, sql s = [] -> DI s -> do_empty_trash shipped s = (s', r) ->
  sql s' = [] /\ fmono s s' /\ (DI s' \/ (r = Normal /\ fired s s')).
Proof.
  intros s s' r Q HDI H.
  assert (FM : fmono s s').
  { revert H. rewrite do_empty_trash_unfold. generalize s s' r. change (FMo (with_ds shipped et_inner)).
    apply FMo_with_ds. intros a a' ra Ha. unfold et_inner, ev in Ha. intro Fa. rewrite (tick_none a Fa) in Ha.
    unfold bind in Ha. destruct (del_files (trash_targets a) a) as [a1 r1] eqn:D. assert (F1 := FMo_del_files _ _ _ _ D Fa).
    destruct r1; [|inversion Ha; subst; exact F1].
    destruct (trash_targets a); [inversion Ha; subst; exact F1 | apply (FMo_et_rows _ _ _ _ Ha F1)]. }
  rewrite do_empty_trash_unfold in H. fold et_inner in H.
  apply with_ds_plain in H; [|apply PF_et_inner]. destruct H as (s2 & E & C2 & F2 & U2 & S2 & _).
  rewrite S2. unfold DI in *. unfold fired. rewrite C2, F2, U2.
  unfold et_inner, ev in E. tks (set_ptr ([] :: ptr s) s) E. destruct b.
  { inversion E; subst; simpl. repeat split; auto. }
  set (s0 := set_fuse x (set_ptr ([] :: ptr s) s)) in *.
  assert (K0 : cur s0 = cur s /\ fs s0 = fs s /\ sql s0 = [] /\ fuse s0 = x /\ trash_targets s0 = trash_targets s) by (repeat split; auto).
  destruct K0 as (K1 & K2 & K3 & K4 & K5). simpl in TN. clearbody s0. rewrite K5 in E.
  unfold bind in E. destruct (del_files (trash_targets s) s0) as [s1 r1] eqn:D.
  destruct (del_files_frame _ _ _ _ D) as (A1 & A2 & A3 & A4 & A5 & A6 & A7 & A8 & A9).
  assert (DI1 : DIc (cur s) (fs s1)) by (apply (DIc_shrink _ (fs s)); [exact HDI | intros y Y; rewrite <- K2; apply A6; exact Y]).
  destruct r1.
  2:{ inversion E; subst. split; [congruence|]. split; [exact FM|]. left. rewrite A3, K1. exact DI1. }
  destruct (trash_targets s) as [|t0 tg0] eqn:TG.
  { inversion E; subst. split; [congruence|]. split; [exact FM|]. left. rewrite A3, K1. exact DI1. }
  destruct A9 as [(X & _)|[(_ & Y & Z)|(_ & Y)]]; [discriminate X| |].
  - (* a soft fault while deleting artifacts was ignored: the rows are deleted all the same, the call returns normally *)
    destruct (NF_et_rows (t0 :: tg0) s1 Z) as (s3 & E3 & F3). rewrite E3 in E. inversion E; subst.
    assert (Q3 : sql s2 = []) by (destruct (WB_with_reg false false _ (WB_et_body (t0 :: tg0)) _ _ _ E3) as (W1 & _); congruence).
    split; [exact Q3|]. split; [exact FM|]. right. split; [reflexivity|]. split; [|exact F3].
    intro Fs. apply Y. destruct (TN Fs) as (Z1 & _). congruence.
  - unfold et_rows in E. apply with_reg_top in E; [|congruence | apply WB_et_body].
    destruct E as (Q3 & [(N1 & C1 & F1)|(x1 & s3 & r3 & _ & E3 & F3 & K)]).
    + split; [exact Q3|]. split; [exact FM|]. left. rewrite C1, F1, A3, K1. exact DI1.
    + unfold et_body in E3. apply two_ev_cur in E3. destruct E3 as (G1 & _ & _ & _ & G5). simpl in G1, G5.
      split; [exact Q3|]. split; [exact FM|]. left. destruct K as [(N1 & C1)|(R3 & R1 & C1 & _)].
      * rewrite C1, F3, G1, A3, K1. exact DI1.
      * subst r3. destruct G5 as [(X & _)|[(X & _)|(_ & G6)]]; try discriminate X.
        rewrite C1, G6, F3, G1, A3, K1. apply (DIc_drop _ (fs s)); [exact HDI | symmetry; exact TG | exact Y |].
        intros y Y1. rewrite <- K2. apply A6. exact Y1.
Qed.

(* ---------------------------------------------------------------------------------------------------------- *)
(* Datastore.trash inside the registry transaction of a top-level pruneDatasets *)
Definition trash_rows (d : N) : act := ev (upd (on_cur (up_loc (rm d)))) ;; ev (upd (on_cur (up_trash (add d)))).
Definition trash_inner (d : N) : act :=
  swallow (ev ret ;; (fun s => if mem d (loc (cur s)) then with_reg false false (trash_rows d) s else (s, Normal))).

Lemma do_trash_unfold : forall d, do_trash shipped d = with_ds shipped (trash_inner d).
Proof. reflexivity. Qed.

Lemma PF_trash_inner : forall d, PF (trash_inner d).
Proof.
  intro d. unfold PF, trash_inner, trash_rows. apply RMV_swallow, (RMV_bind _ STrue_trans); [apply (RMV_ev _ STrue_trans STrue_cf), (RMV_ret _ STrue_refl)|].
  apply (RMV_if STrue (fun s => mem d (loc (cur s)))); [|apply (RMV_ret _ STrue_refl)].
  apply (RMV_with_reg _ STrue_trans STrue_cf STrue_rb); [|wb].
  apply (RMV_bind _ STrue_trans); apply (RMV_ev _ STrue_trans STrue_cf), RMV_upd; intro s; repeat split; strue.
Qed.

Lemma TR : forall d s s1 r1 d0, sql s = [FReal d0] -> do_trash shipped d s = (s1, r1) ->
  fs s1 = fs s /\ sql s1 = sql s /\ fmono s s1 /\
  (cur s1 = cur s \/
   (r1 = Normal /\ cur s1 = up_trash (add d) (up_loc (rm d) (cur s))) \/
   (cur s1 = up_loc (rm d) (cur s) /\ (r1 = Raised true \/ (r1 = Normal /\ fired s s1)))).
Proof.
  intros d s s1 r1 d0 Q H.
  assert (FM : fmono s s1) by (apply (FMo_do_trash d _ _ _ H)).
  assert (SQ : sql s1 = sql s) by (destruct (WB_do_trash d _ _ _ H) as (A & _); exact A).
  rewrite do_trash_unfold in H. apply with_ds_plain in H; [|apply PF_trash_inner].
  destruct H as (s2 & E & C2 & F2 & U2 & S2 & H2 & _).
  split; [|split; [exact SQ|split; [exact FM|]]].
  - rewrite F2.
    (* files: the trash step never touches artifacts *)
    assert (QF : RMV Quiet (trash_inner d)).
    { unfold trash_inner, trash_rows. apply RMV_swallow, (RMV_bind _ Quiet_trans); [apply (RMV_ev _ Quiet_trans Quiet_cf), (RMV_ret _ Quiet_refl)|].
      apply (RMV_if Quiet (fun s => mem d (loc (cur s)))); [|apply (RMV_ret _ Quiet_refl)].
      apply (RMV_with_reg _ Quiet_trans Quiet_cf Quiet_rb); [|wb].
      apply (RMV_bind _ Quiet_trans); apply (RMV_ev _ Quiet_trans Quiet_cf), RMV_upd; intro a; repeat split; auto. }
    destruct (QF _ _ _ E) as (_ & _ & (A & _)). exact A.
  - unfold fired. rewrite C2, U2. clear C2 F2 U2 S2 H2 FM SQ.
    set (a := set_ptr ([] :: ptr s) s) in *.
    assert (KA : cur a = cur s /\ sql a = [FReal d0] /\ fuse a = fuse s /\ hard a = hard s) by (repeat split; auto).
    destruct KA as (K1 & K2 & K3 & K4). clearbody a.
    unfold trash_inner, swallow, bind, ev at 1 in E. tks a E. destruct b.
    + destruct (hard (set_fuse x a)); inversion E; subst; left; simpl; exact K1.
    + unfold ret in E. assert (L0 : cur (set_fuse x a) = cur a) by reflexivity. rewrite L0 in E.
      destruct (mem d (loc (cur a))) eqn:L.
      2:{ inversion E; subst. left; simpl; exact K1. }
      rewrite (with_reg_noop false (trash_rows d) (set_fuse x a) (FReal d0) []) in E; [|exact K2 | simpl; rewrite K2; reflexivity].
      destruct (trash_rows d (set_sql (FNoop :: sql (set_fuse x a)) (set_fuse x a))) as [s3 r3] eqn:E3.
      unfold trash_rows in E3. apply two_ev_cur in E3. simpl in E3. destruct E3 as (G1 & G2 & G3 & G4 & G5).
      assert (FA : fuse a = None -> x = None) by (intro Z; apply TN; exact Z).
      destruct G5 as [(X & (Y1 & Y2) & Z)|[(X & (Y1 & Y2) & Z)|(X & Z)]]; subst r3.
      * (* fault at DELETE dataset_location: nothing changed *)
        assert (CC : cur (rollback_reg s3) = cur s3) by (unfold rollback_reg; rewrite G2; reflexivity).
        destruct (hard a); inversion E; subst; left; simpl; rewrite ?CC; congruence.
      * (* fault at INSERT dataset_location_trash: the location row is gone, nothing rolls it back *)
        assert (CC : cur (rollback_reg s3) = cur s3) by (unfold rollback_reg; rewrite G2; reflexivity).
        assert (FC : fuse (rollback_reg s3) = fuse s3) by apply fuse_rollback.
        right; right. destruct (hard a); inversion E; subst; simpl; rewrite ?CC, ?FC; (split; [congruence|]).
        -- left; reflexivity.
        -- right. split; [reflexivity|]. split; [|exact Y2]. intro Z0. apply Y1. rewrite <- K3 in Z0. rewrite (FA Z0). reflexivity.
      * inversion E; subst. right; left. split; [reflexivity|]. simpl. congruence.
Qed.

(* ---------------------------------------------------------------------------------------------------------- *)
(* the registry transaction of pruneDatasets at top level *)
Definition purge_tail (d : N) : act := ev (guard (fun s => negb (mem d (loc (cur s))))) ;; remove_ds d.
Definition purge_body (d : N) : act := do_trash shipped d ;; purge_tail d.

Lemma purge_unfold : forall d, do_purge shipped d =
  (ev (guard (has_ds d)) ;; with_ds shipped (with_reg false true (purge_body d)) ;; do_empty_trash shipped).
Proof. reflexivity. Qed.

Lemma unstore_unfold : forall d, do_unstore shipped d =
  (ev (guard (has_ds d)) ;; with_ds shipped (with_reg false true (do_trash shipped d)) ;; do_empty_trash shipped).
Proof. reflexivity. Qed.

Lemma purge_tail_spec : forall d a a' r, purge_tail d a = (a', r) ->
  fs a' = fs a /\ fmono a a' /\
  ((r <> Normal /\ cur a' = cur a) \/ (r = Normal /\ mem d (loc (cur a)) = false /\ cur a' = rmds d (cur a))).
Proof.
  intros d a a' r H. unfold purge_tail, bind, ev, guard, remove_ds, upd in H. tks a H. destruct b.
  - inversion H; subst; simpl. repeat split; auto. { intro Z; destruct (TF eq_refl); contradiction. } left; split; [discriminate | reflexivity].
  - simpl in H. destruct (mem d (loc (cur a))) eqn:L; simpl in H; inversion H; subst; simpl.
    + repeat split; auto. { intro Z; apply TN; exact Z. } left; split; [discriminate | reflexivity].
    + repeat split; auto. { intro Z; apply TN; exact Z. }
Qed.

Lemma WB_purge_body' : forall d, WB (purge_body d).
Proof. intro d. unfold purge_body, purge_tail. apply WB_bind; [apply WB_do_trash | wb]. Qed.

Lemma RMV_PF : forall Stp m, RMV Stp m -> PF m.
Proof. intros Stp m H s s' r E. destruct (H _ _ _ E) as (A & B & _). repeat split; strue. Qed.

Lemma PF_purge_reg : forall d, PF (with_reg false true (purge_body d)).
Proof.
  intro d. apply (RMV_PF (By d)). apply (RMV_with_reg _ (By_trans d) (By_cf d) (By_rb d)); [|apply WB_purge_body'].
  unfold purge_body, purge_tail. apply (RMV_bind _ (By_trans d)); [apply BY_do_trash|].
  apply (RMV_bind _ (By_trans d)); [apply (RMV_ev _ (By_trans d) (By_cf d)), (RMV_guard _ (By_refl d)) | apply BY_remove_ds].
Qed.

Lemma PF_unstore_reg : forall d, PF (with_reg false true (do_trash shipped d)).
Proof.
  intro d. apply (RMV_PF (By d)). apply (RMV_with_reg _ (By_trans d) (By_cf d) (By_rb d)); [apply BY_do_trash | apply WB_do_trash].
Qed.

Lemma P1_purge : forall d s s' r, sql s = [] -> DI s ->
  with_ds shipped (with_reg false true (purge_body d)) s = (s', r) ->
  sql s' = [] /\ fmono s s' /\
  ((r <> Normal /\ cur s' = cur s /\ fs s' = fs s) \/
   (r = Normal /\ DI s' /\ mem d (ds (cur s')) = false) \/
   (r = Normal /\ fired s s')).
Proof.
  intros d s s' r Q HDI H.
  assert (FM : fmono s s').
  { revert H. generalize s s' r. change (FMo (with_ds shipped (with_reg false true (purge_body d)))).
    apply FMo_with_ds, FMo_with_reg. unfold purge_body, purge_tail. apply FMo_bind; [apply FMo_do_trash | fmo]. }
  apply with_ds_plain in H; [|apply PF_purge_reg]. destruct H as (s2 & E & C2 & F2 & U2 & S2 & _).
  rewrite S2. unfold DI, fired in *. rewrite C2, F2, U2.
  set (a := set_ptr ([] :: ptr s) s) in *.
  assert (KA : cur a = cur s /\ sql a = [] /\ fuse a = fuse s /\ fs a = fs s) by (repeat split; auto).
  destruct KA as (K1 & K2 & K3 & K4). clearbody a.
  apply with_reg_top in E; [|exact K2 | apply WB_purge_body'].
  destruct E as (Q3 & [(N1 & C1 & F1)|(x & s3 & r3 & FX & E3 & F3 & K)]).
  { split; [exact Q3|]. split; [exact FM|]. left. repeat split; auto; congruence. }
  split; [exact Q3|]. split; [exact FM|].
  unfold purge_body, bind in E3.
  destruct (do_trash shipped d (set_sql [FReal (cur a)] (set_fuse x a))) as [s4 r4] eqn:E4.
  destruct (TR d (set_sql [FReal (cur a)] (set_fuse x a)) s4 r4 (cur a) eq_refl E4) as (G1 & G2 & G3 & G4). simpl in G1, G2, G4. unfold fired in G4. simpl in G4.
  assert (FS3 : fs s3 = fs s).
  { destruct r4; [apply purge_tail_spec in E3; destruct E3 as (P1 & _); congruence | inversion E3; subst; congruence]. }
  destruct K as [(N1 & C1)|(R3 & R1 & C1 & M1)].
  { left. repeat split; auto; congruence. }
  subst r3 r. destruct r4; [|inversion E3].
  apply purge_tail_spec in E3. destruct E3 as (P1 & P2 & [(X & _)|(_ & L4 & C3)]); [exfalso; apply X; reflexivity|].
  destruct G4 as [C4|[(_ & C4)|(C4 & [X|(_ & Y1 & Y2)])]]; try discriminate X.
  - right; left. split; [reflexivity|]. rewrite C1, C3, C4, F3, FS3. simpl. rewrite K1. rewrite C4 in L4; simpl in L4; rewrite K1 in L4.
    split; [apply DIc_rmds; assumption | simpl; apply mem_rm_same].
  - right; left. split; [reflexivity|]. rewrite C1, C3, F3, FS3. rewrite C4 in L4 |- *. rewrite K1 in L4 |- *.
    split; [apply DIc_rmds; [apply DIc_trashed; assumption | exact L4] | simpl; apply mem_rm_same].
  - right; right. split; [reflexivity|]. split.
    + intro Z. apply Y1. rewrite <- K3 in Z. apply FX. exact Z.
    + apply M1. apply P2. exact Y2.
Qed.

Lemma P1_unstore : forall d s s' r, sql s = [] -> DI s ->
  with_ds shipped (with_reg false true (do_trash shipped d)) s = (s', r) ->
  sql s' = [] /\ fmono s s' /\
  ((r <> Normal /\ cur s' = cur s /\ fs s' = fs s) \/ (r = Normal /\ DI s') \/ (r = Normal /\ fired s s')).
Proof.
  intros d s s' r Q HDI H.
  assert (FM : fmono s s').
  { revert H. generalize s s' r. change (FMo (with_ds shipped (with_reg false true (do_trash shipped d)))).
    apply FMo_with_ds, FMo_with_reg, FMo_do_trash. }
  apply with_ds_plain in H; [|apply PF_unstore_reg]. destruct H as (s2 & E & C2 & F2 & U2 & S2 & _).
  rewrite S2. unfold DI, fired in *. rewrite C2, F2, U2.
  set (a := set_ptr ([] :: ptr s) s) in *.
  assert (KA : cur a = cur s /\ sql a = [] /\ fuse a = fuse s /\ fs a = fs s) by (repeat split; auto).
  destruct KA as (K1 & K2 & K3 & K4). clearbody a.
  apply with_reg_top in E; [|exact K2 | apply WB_do_trash].
  destruct E as (Q3 & [(N1 & C1 & F1)|(x & s3 & r3 & FX & E3 & F3 & K)]).
  { split; [exact Q3|]. split; [exact FM|]. left. repeat split; auto; congruence. }
  split; [exact Q3|]. split; [exact FM|].
  destruct (TR d (set_sql [FReal (cur a)] (set_fuse x a)) s3 r3 (cur a) eq_refl E3) as (G1 & G2 & G3 & G4). simpl in G1, G2, G4. unfold fired in G4. simpl in G4.
  destruct K as [(N1 & C1)|(R3 & R1 & C1 & M1)].
  { left. repeat split; auto; congruence. }
  subst r3 r.
  destruct G4 as [C4|[(_ & C4)|(C4 & [X|(_ & Y1 & Y2)])]]; try discriminate X.
  - right; left. split; [reflexivity|]. rewrite C1, C4, F3, G1, K1, K4. exact HDI.
  - right; left. split; [reflexivity|]. rewrite C1, C4, F3, G1, K1, K4. apply DIc_trashed; exact HDI.
  - right; right. split; [reflexivity|]. split.
    + intro Z. apply Y1. rewrite <- K3 in Z. apply FX. exact Z.
    + apply M1. exact Y2.
Qed.

(* ---------------------------------------------------------------------------------------------------------- *)
(* the statements.  honest s s' r: the removal raised, or no fault fired at all -- i.e. NOT "a fault fired and the call
   nevertheless reported success" (the swallowed-error findings) *)
Definition honest (s s' : st) (r : outcome) : Prop := ~ (r = Normal /\ fired s s').

Lemma has_ds_prefix : forall d (m : act) s s' r, (ev (guard (has_ds d)) ;; m) s = (s', r) ->
  (r <> Normal /\ cur s' = cur s /\ fs s' = fs s /\ sql s' = sql s) \/
  exists x, (fuse s = None -> x = None) /\ m (set_fuse x s) = (s', r).
Proof.
  intros d m s s' r H. unfold bind, ev, guard in H. tks s H. destruct b.
  - inversion H; subst; simpl. left. repeat split; auto. discriminate.
  - simpl in H. destruct (has_ds d (set_fuse x s)).
    + right. exists x. split; [intro Z; apply TN; exact Z | exact H].
    + inversion H; subst; simpl. left. repeat split; auto. discriminate.
Qed.

Lemma purge_DI_p : forall d s s' r, sql s = [] -> DI s -> exec_op shipped (Purge d) s = (s', r) -> honest s s' r ->
  DI s' /\ sql s' = [] /\ ((cur s' = cur s /\ fs s' = fs s) \/ mem d (ds (cur s')) = false).
Proof.
  intros d s s' r Q HDI H HON. simpl in H. rewrite purge_unfold in H.
  apply has_ds_prefix in H. destruct H as [(N1 & C1 & F1 & S1)|(x & FX & H)].
  { split; [unfold DI; rewrite C1, F1; exact HDI|]. split; [congruence | left; auto]. }
  unfold bind in H.
  destruct (with_ds shipped (with_reg false true (purge_body d)) (set_fuse x s)) as [s1 r1] eqn:E1.
  apply P1_purge in E1; [|exact Q | exact HDI]. destruct E1 as (Q1 & M1 & K). simpl in M1.
  assert (M0 : fmono s s1) by (intro Z; apply M1; simpl; apply FX; exact Z).
  destruct K as [(N1 & C1 & F1)|[(R1 & D1 & X1)|(R1 & Y1 & Y2)]].
  - destruct r1; [exfalso; apply N1; reflexivity|]. inversion H; subst. simpl in *.
    split; [unfold DI; rewrite C1, F1; exact HDI|]. split; [exact Q1 | left; auto].
  - subst r1. destruct (KEEP_do_empty_trash _ _ _ H) as (_ & _ & KP). unfold Keep, T3 in KP. inversion KP as [[KD KT KC]].
    apply ET_DI in H; [|exact Q1 | exact D1]. destruct H as (Q2 & M2 & [D2|(R2 & Z1 & Z2)]).
    + split; [exact D2|]. split; [exact Q2|]. right. rewrite KD. exact X1.
    + exfalso. apply HON. split; [exact R2|]. split; [|exact Z2]. intro Z. apply Z1. apply M0. exact Z.
  - subst r1. simpl in Y1. destruct (NF_do_empty_trash s1 Y2) as (s3 & E3 & F3). rewrite E3 in H. inversion H; subst.
    exfalso. apply HON. split; [reflexivity|]. split; [|exact F3]. intro Z. apply Y1. apply FX. exact Z.
Qed.

Lemma unstore_DI_p : forall d s s' r, sql s = [] -> DI s -> exec_op shipped (Unstore d) s = (s', r) -> honest s s' r ->
  DI s' /\ sql s' = [].
Proof.
  intros d s s' r Q HDI H HON. simpl in H. rewrite unstore_unfold in H.
  apply has_ds_prefix in H. destruct H as [(N1 & C1 & F1 & S1)|(x & FX & H)].
  { split; [unfold DI; rewrite C1, F1; exact HDI | congruence]. }
  unfold bind in H.
  destruct (with_ds shipped (with_reg false true (do_trash shipped d)) (set_fuse x s)) as [s1 r1] eqn:E1.
  apply P1_unstore in E1; [|exact Q | exact HDI]. destruct E1 as (Q1 & M1 & K). simpl in M1.
  assert (M0 : fmono s s1) by (intro Z; apply M1; simpl; apply FX; exact Z).
  destruct K as [(N1 & C1 & F1)|[(R1 & D1)|(R1 & Y1 & Y2)]].
  - destruct r1; [exfalso; apply N1; reflexivity|]. inversion H; subst. simpl in *.
    split; [unfold DI; rewrite C1, F1; exact HDI | exact Q1].
  - subst r1. apply ET_DI in H; [|exact Q1 | exact D1]. destruct H as (Q2 & M2 & [D2|(R2 & Z1 & Z2)]).
    + split; [exact D2 | exact Q2].
    + exfalso. apply HON. split; [exact R2|]. split; [|exact Z2]. intro Z. apply Z1. apply M0. exact Z.
  - subst r1. simpl in Y1. destruct (NF_do_empty_trash s1 Y2) as (s3 & E3 & F3). rewrite E3 in H. inversion H; subst.
    exfalso. apply HON. split; [reflexivity|]. split; [|exact F3]. intro Z. apply Y1. apply FX. exact Z.
Qed.

Lemma empty_trash_DI_p : forall s s' r, sql s = [] -> DI s -> exec_op shipped EmptyTrash s = (s', r) -> honest s s' r ->
  DI s' /\ sql s' = [].
Proof.
  intros s s' r Q HDI H HON. simpl in H. apply ET_DI in H; [|exact Q | exact HDI].
  destruct H as (Q2 & _ & [D2|Z]); [auto | exfalso; apply HON; exact Z].
Qed.

(* ---------------------------------------------------------------------------------------------------------- *)
(* the next (fault-free) emptyTrash: afterwards no trash row has a record, so under DI every artifact is located *)
Lemma filter_nil_all : forall (p : N -> bool) l, filter p l = [] -> forall x, In x l -> p x = false.
Proof.
  intros p l; induction l as [|k l IH]; intros H x I; [destruct I|]. simpl in H. destruct (p k) eqn:P; [discriminate H|].
  destruct I as [I|I]; [subst; exact P | apply IH; assumption].
Qed.

Lemma ET_nofault : forall s, fuse s = None -> sql s = [] ->
  exists s', do_empty_trash shipped s = (s', Normal) /\ fuse s' = None /\
             (forall x, mem x (trash (cur s')) = true -> mem x (recs (cur s')) = false).
Proof.
  intros s F Q. destruct (NF_do_empty_trash s F) as (s' & E & F'). exists s'. split; [exact E|]. split; [exact F'|].
  rewrite do_empty_trash_unfold in E. fold et_inner in E. apply with_ds_plain in E; [|apply PF_et_inner].
  destruct E as (s2 & E & C2 & _). rewrite C2. clear C2 F' s'.
  set (a := set_ptr ([] :: ptr s) s) in *.
  assert (KA : cur a = cur s /\ sql a = [] /\ fuse a = None) by (repeat split; auto). destruct KA as (K1 & K2 & K3). clearbody a.
  unfold et_inner, ev in E. rewrite (tick_none a K3) in E. unfold bind in E.
  destruct (del_files (trash_targets a) a) as [s1 r1] eqn:D.
  destruct (del_files_frame _ _ _ _ D) as (_ & _ & A3 & A4 & _).
  destruct r1; [|discriminate E].
  destruct (trash_targets a) as [|t0 tg0] eqn:TG.
  - inversion E; subst. rewrite A3. intros x X. unfold trash_targets in TG.
    apply (filter_nil_all _ _ TG x). apply mem_In. exact X.
  - unfold et_rows in E. apply with_reg_top in E; [|congruence | apply WB_et_body].
    destruct E as (_ & [(N1 & _)|(x1 & s3 & r3 & _ & E3 & _ & K)]); [exfalso; apply N1; reflexivity|].
    destruct K as [(N1 & _)|(R3 & _ & C1 & _)]; [exfalso; apply N1; reflexivity|]. subst r3.
    unfold et_body in E3. apply two_ev_cur in E3. destruct E3 as (_ & _ & _ & _ & G5). simpl in G5.
    destruct G5 as [(X & _)|[(X & _)|(_ & G6)]]; try discriminate X.
    rewrite C1, G6, A3. simpl. intros x X. unfold drop in *. rewrite mem_filter in X. apply andb_true_iff in X. destruct X as (X1 & X2).
    rewrite mem_filter. destruct (mem x (recs (cur a))) eqn:RR; [|reflexivity]. exfalso.
    assert (I : In x (t0 :: tg0)) by (rewrite <- TG; unfold trash_targets; apply filter_In; split; [apply mem_In; exact X1 | exact RR]).
    apply mem_In in I. rewrite I in X2. discriminate X2.
Qed.

Lemma after_empty_collects_p : forall s, sql s = [] -> DI s ->
  DI (after_empty s) /\
  forall x, fget x (fs (after_empty s)) <> None ->
    mem x (loc (cur (after_empty s))) = true /\ mem x (ds (cur (after_empty s))) = true /\ mem x (recs (cur (after_empty s))) = true.
Proof.
  intros s Q HDI. unfold after_empty. simpl exec.
  destruct (ET_nofault (set_fuse None s) eq_refl Q) as (s' & E & F' & NT). rewrite E. simpl fst.
  apply ET_DI in E; [|exact Q | exact HDI]. destruct E as (_ & _ & [D2|(_ & Z & _)]); [|exfalso; apply Z; reflexivity].
  split; [exact D2|]. destruct D2 as (A & B & D). intros x X. assert (R := A x X). destruct (B x R) as [L|T].
  - repeat split; auto.
  - rewrite (NT x T) in R. discriminate R.
Qed.

Lemma purge_leftovers_p : forall d s s' r, sql s = [] -> DI s -> exec_op shipped (Purge d) s = (s', r) -> honest s s' r ->
  (forall x, fget x (fs (after_empty s')) <> None ->
     mem x (loc (cur (after_empty s'))) = true /\ mem x (ds (cur (after_empty s'))) = true /\ mem x (recs (cur (after_empty s'))) = true) /\
  ((cur s' = cur s /\ fs s' = fs s) \/ (mem d (ds (cur s')) = false /\ fget d (fs (after_empty s')) = None)).
Proof.
  intros d s s' r Q HDI H HON. destruct (purge_DI_p _ _ _ _ Q HDI H HON) as (D1 & Q1 & K).
  destruct (after_empty_collects_p s' Q1 D1) as (D2 & COL). split; [exact COL|].
  destruct K as [K|K]; [left; exact K | right]. split; [exact K|].
  destruct (fget d (fs (after_empty s'))) eqn:G; [|reflexivity]. exfalso.
  assert (G' : fget d (fs (after_empty s')) <> None) by (rewrite G; discriminate).
  destruct (COL d G') as (_ & X & _).
  unfold after_empty in X. destruct (exec shipped (POp EmptyTrash) (set_fuse None s')) as [s2 r2] eqn:E. simpl in E, X.
  destruct (KEEP_do_empty_trash _ _ _ E) as (_ & _ & KP). unfold Keep, T3 in KP. inversion KP as [[KD KT KC]]. simpl in KD.
  rewrite KD in X. congruence.
Qed.

Lemma unstore_leftovers_p : forall d s s' r, sql s = [] -> DI s -> exec_op shipped (Unstore d) s = (s', r) -> honest s s' r ->
  forall x, fget x (fs (after_empty s')) <> None ->
     mem x (loc (cur (after_empty s'))) = true /\ mem x (ds (cur (after_empty s'))) = true /\ mem x (recs (cur (after_empty s'))) = true.
Proof.
  intros d s s' r Q HDI H HON. destruct (unstore_DI_p _ _ _ _ Q HDI H HON) as (D1 & Q1).
  destruct (after_empty_collects_p s' Q1 D1) as (_ & COL). exact COL.
Qed.

(* the guard is exactly what the two swallowed-error refutations violate *)
Lemma swallowed_not_honest_p :
  (let '(s', r) := exec_op shipped (Purge 1) (with_fuse 4 s_one) in ~ honest (with_fuse 4 s_one) s' r) /\
  (let '(s', r) := exec_op shipped (Purge 1) (with_fuse 8 s_one) in ~ honest (with_fuse 8 s_one) s' r).
Proof. split; vm_compute; intro H; apply H; repeat split; discriminate. Qed.

(* non-vacuity *)
Lemma DI_init : forall e, DI (init e).
Proof. intro e. split; [|split]; intros x X; simpl in *; congruence. Qed.

Lemma DI_s_one : DI s_one /\ sql s_one = [].
Proof.
  split; [|reflexivity]. split; [|split]; intros x X; vm_compute in X |- *.
  - destruct x as [|[p|p|]]; try reflexivity; exfalso; apply X; reflexivity.
  - left; exact X.
  - exact X.
Qed.
