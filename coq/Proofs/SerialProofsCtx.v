(* C18 (extension 2) -- a per-context memo table never changes an answer, under the exact condition on the history that
   the code relies on; witnesses where the condition fails. *)
From Coq Require Import ZArith List Bool String.
From V Require Import Model.Serial Model.SerialX Model.SerialCtx Proofs.SerialProofs Proofs.SerialProofsB.
Import ListNotations.
Open Scope string_scope.

Section MemoProofs.
  Variables J K V : Type.
  Variable key : J -> K.
  Variable keqb : K -> K -> bool.
  Variable dec : J -> option V.
  Variable cacheable : J -> bool.
  Variable put : J -> V -> V.
  Variable get : J -> V -> option V.
  Variable hist : list J.

  (* what the code relies on: whenever two serialized forms of the history share a key, a hit for the later one on what
     the earlier one stored gives what the later one decodes to by itself *)
  Definition key_sound : Prop :=
    forall j0 j v0 r, In j0 hist -> In j hist -> keqb (key j) (key j0) = true ->
      dec j0 = Some v0 -> get j (put j0 v0) = Some r -> dec j = Some r.

  Definition inv (c : list (K * V)) : Prop :=
    forall k w, In (k, w) c -> exists j0 v0, In j0 hist /\ k = key j0 /\ dec j0 = Some v0 /\ w = put j0 v0.

  Lemma mfind_some : forall k c w, mfind K V keqb k c = Some w -> exists k', In (k', w) c /\ keqb k k' = true.
  Proof.
    induction c as [|[k' v] c IH]; simpl; intros w H; [discriminate|].
    destruct (keqb k k') eqn:E.
    - inversion H; subst. exists k'. split; [left; reflexivity | exact E].
    - destruct (IH w H) as (k2 & Hi & He). exists k2. split; [right; exact Hi | exact He].
  Qed.

  Lemma mmiss_ok : forall c j, In j hist -> inv c ->
    fst (mmiss J K V key dec cacheable put c j) = dec j /\ inv (snd (mmiss J K V key dec cacheable put c j)).
  Proof.
    intros c j Hj Hc. unfold mmiss. destruct (dec j) as [v|] eqn:E; simpl; [|split; auto].
    split; [reflexivity|]. destruct (cacheable j); [|exact Hc].
    intros k w [H|H]; [|apply Hc; exact H]. inversion H; subst. exists j, v. repeat split; auto.
  Qed.

  Lemma mstep_ok : key_sound -> forall c j, In j hist -> inv c ->
    fst (mstep J K V key keqb dec cacheable put get c j) = dec j /\ inv (snd (mstep J K V key keqb dec cacheable put get c j)).
  Proof.
    intros Hs c j Hj Hc. unfold mstep. destruct (mfind K V keqb (key j) c) as [w|] eqn:Ef; [|apply mmiss_ok; auto].
    destruct (get j w) as [r|] eqn:Eg; [|apply mmiss_ok; auto].
    simpl. split; [|exact Hc].
    apply mfind_some in Ef as (k' & Hin & Hk). destruct (Hc _ _ Hin) as (j0 & v0 & Hj0 & Ek & Ed & Ew). subst k' w.
    symmetry. eapply Hs; eauto.
  Qed.

  Lemma mrun_ok : key_sound -> forall js c, incl js hist -> inv c ->
    mrun J K V key keqb dec cacheable put get c js = map dec js.
  Proof.
    intros Hs. induction js as [|j r IH]; intros c Hi Hc; [reflexivity|].
    simpl. pose proof (mstep_ok Hs c j (Hi j (or_introl eq_refl)) Hc) as [H1 H2].
    destruct (mstep J K V key keqb dec cacheable put get c j) as [o c'] eqn:E. simpl in H1, H2.
    rewrite H1, (IH c'); auto. intros x Hx; apply Hi; right; exact Hx.
  Qed.

  Theorem memo_transparent_p : key_sound -> mrun J K V key keqb dec cacheable put get [] hist = map dec hist.
  Proof. intros Hs. apply mrun_ok; auto. - apply incl_refl. - intros k w []. Qed.
End MemoProofs.

(* ---------- instances: the condition in the words of each table ---------- *)
(* plain tables (the object itself is stored and returned): equal keys => equal decodings *)
Lemma plain_key_sound : forall (K V : Type) (key : jv -> K) (keqb : K -> K -> bool) (dec : jv -> option V) hist,
  (forall j0 j, In j0 hist -> In j hist -> keqb (key j) (key j0) = true -> dec j0 <> None -> dec j = dec j0) ->
  key_sound jv K V key keqb dec idv hit_same hist.
Proof.
  intros K V key keqb dec hist H j0 j v0 r Hj0 Hj Hk Hd Hg. unfold hit_same, idv in Hg. inversion Hg; subst.
  rewrite (H j0 j Hj0 Hj Hk); [exact Hd | congruence].
Qed.

Lemma dt_context_transparent_p : forall u hist,
  (forall j0 j, In j0 hist -> In j hist -> pair_seqb (dt_key j) (dt_key j0) = true -> dec_dt u j0 <> None -> dec_dt u j = dec_dt u j0) ->
  dt_run u hist = map (dec_dt u) hist.
Proof. intros u hist H. unfold dt_run. apply memo_transparent_p. apply plain_key_sound. exact H. Qed.

Lemma coord_context_transparent_p : forall u hist,
  (forall j0 j, In j0 hist -> In j hist -> jvb_eqb (coord_key j) (coord_key j0) = true -> dec_coord u j0 <> None -> dec_coord u j = dec_coord u j0) ->
  coord_run u hist = map (dec_coord u) hist.
Proof. intros u hist H. unfold coord_run. apply memo_transparent_p. apply plain_key_sound. exact H. Qed.

Lemma rec_context_transparent_p : forall u hist,
  (forall j0 j, In j0 hist -> In j hist -> jvjv_eqb (rec_key j) (rec_key j0) = true -> dec_rec u j0 <> None -> dec_rec u j = dec_rec u j0) ->
  rec_run u hist = map (dec_rec u) hist.
Proof. intros u hist H. unfold rec_run. apply memo_transparent_p. apply plain_key_sound. exact H. Qed.

Lemma ref_context_transparent_p : forall u hist,
  key_sound jv string dref ref_key String.eqb (dec_ref u) (ref_put u) (ref_get u) hist ->
  ref_run u hist = map (dec_ref u) hist.
Proof. intros u hist H. unfold ref_run. apply memo_transparent_p. exact H. Qed.

(* the loadedTypes condition holds for every history in which (name, storageClass) determines the serialized form:
   the wire forms that share the key are the same document *)
Lemma dt_context_transparent_docs_p : forall u hist,
  (forall j0 j, In j0 hist -> In j hist -> pair_seqb (dt_key j) (dt_key j0) = true -> j = j0) ->
  dt_run u hist = map (dec_dt u) hist.
Proof.
  intros u hist H. apply dt_context_transparent_p. intros j0 j H0 H1 Hk _. rewrite (H j0 j H0 H1 Hk). reflexivity.
Qed.

(* ---------- witnesses ---------- *)
Definition c_g1 : grp := {| g_names := ["a"]; g_req := ["a"]; g_impl := []; g_elems := ["a"] |}.
Definition c_g2 : grp := {| g_names := ["b"]; g_req := ["b"]; g_impl := []; g_elems := ["b"] |}.
Definition c_u : uctx := {| u_max := 100%Z; u_conform := [(["a"], c_g1); (["b"], c_g2)]; u_schema := [("a", [("id", (TInt, false))])];
                            u_governors := []; u_types := []; u_refs := []; u_compsc := [] |}.
Definition c_t (sc : string) (g : grp) : dstype := {| t_name := "x"; t_grp := g; t_sc := sc; t_psc := None; t_calib := false |}.

(* keyed on the parent storage class (seed C18c): "x"/S1 then "x"/S2 in one context -> the second comes back as the first *)
Lemma dt_context_psc_key_refuted_p :
  let h := [enc_dt false (c_t "S1" c_g1); enc_dt false (c_t "S2" c_g1)] in
  map (dec_dt c_u) h = [Some (c_t "S1" c_g1); Some (c_t "S2" c_g1)] /\
  dt_run c_u h = [Some (c_t "S1" c_g1); Some (c_t "S2" c_g1)] /\
  dt_run_psc c_u h = [Some (c_t "S1" c_g1); Some (c_t "S1" c_g1)].
Proof. repeat split; vm_compute; reflexivity. Qed.

(* the key AS CODED, (name, storageClass): same name and storage class, different dimensions -> the first one wins *)
Lemma dt_context_same_key_refuted_p :
  let h := [enc_dt false (c_t "S1" c_g1); enc_dt false (c_t "S1" c_g2)] in
  map (dec_dt c_u) h = [Some (c_t "S1" c_g1); Some (c_t "S1" c_g2)] /\
  dt_run c_u h = [Some (c_t "S1" c_g1); Some (c_t "S1" c_g1)].
Proof. repeat split; vm_compute; reflexivity. Qed.

(* dataCoordinates: same dataId items, both with records, different record contents -> the first one's records *)
Definition c_c (z : Z) : coord := {| c_grp := c_g1; c_vals := [("a", DInt 1)];
                                     c_recs := Some [("a", Some {| r_def := "a"; r_fields := [("id", FInt z)] |})] |}.
Lemma coord_context_same_key_refuted_p :
  let h := [enc_coord false (c_c 1); enc_coord false (c_c 2)] in
  map (dec_coord c_u) h = [Some (c_c 1); Some (c_c 2)] /\ coord_run c_u h = [Some (c_c 1); Some (c_c 1)].
Proof. repeat split; vm_compute; reflexivity. Qed.

(* datasetRefs: same id, different run -> the first one's run *)
Definition c_r (run : string) : dref := {| f_id := "id1"; f_run := run; f_type := c_t "S1" c_g1;
                                           f_coord := {| c_grp := c_g1; c_vals := [("a", DInt 1)]; c_recs := None |} |}.
Lemma ref_context_same_id_refuted_p :
  let h := [enc_ref false (c_r "run1"); enc_ref false (c_r "run2")] in
  map (dec_ref c_u) h = [Some (c_r "run1"); Some (c_r "run2")] /\ ref_run c_u h = [Some (c_r "run1"); Some (c_r "run1")].
Proof. repeat split; vm_compute; reflexivity. Qed.
