(* Wave-5 extensions for C13 (6): (a) which records a union of data IDs carries and when it may claim hasRecords();
   (b) Registry.expandDataId with a DataCoordinate argument as repaired by /repo 822ddb5 (KeyError of the subset short-cut
   translated) and b51cefc (carried records reused only when no value of the argument changed): only documented errors,
   soundness; witnesses that both statements fail for the code before the repairs, and the residual counterexample. *)
From Coq Require Import String List Bool Arith ZArith Lia.
From V Require Import Model.Universe Model.Group Model.DataId Model.DataIdX Model.DataIdCheck Gen.Universes
  Proofs.GroupProofs Proofs.DataIdProofs Proofs.DataIdProofsUnion Proofs.DataIdProofsExpand Proofs.DataIdProofsErrors
  Proofs.DataIdProofsShipped Proofs.DataIdProofsX Proofs.DataIdProofsX2 Proofs.DataIdProofsX4 Proofs.DataIdProofsX5.
Import ListNotations.
Open Scope string_scope.
Open Scope list_scope.

(* ---------------------------------------------------------------------------------------------------------------- *)
(* (a) records of a union                                                                                           *)
(* ---------------------------------------------------------------------------------------------------------------- *)
Lemma restrict_recs_aget (r : recmap) els : forall r' k, restrict_recs r els = Some r' ->
  aget r' k = if memb k els then aget r k else None.
Proof.
  unfold restrict_recs. induction els as [|e els IH]; simpl; intros r' k H.
  - inversion H. reflexivity.
  - destruct (aget r e) as [x|] eqn:Ex; [|discriminate].
    destruct (map_opt _ els) as [s|] eqn:Ms; [|discriminate]. inversion H; subst. simpl.
    rewrite (String.eqb_sym k e). destruct (String.eqb e k) eqn:E; simpl.
    + apply String.eqb_eq in E; subst. now rewrite Ex.
    + now apply IH.
Qed.

Lemma union_plain_cases a b G r : union_plain a b G = Ok r ->
  r = a \/ r = b \/
  (std_core G (dmapping b ++ dmapping a) = Ok r /\
   ((dfull a = true /\ geqb (dgroup b) G && has_recs b = false /\ geqb (dgroup a) G && negb (has_recs b) = false) \/
    (dfull a = false /\ geqb (dgroup b) G = false))).
Proof.
  unfold union_plain. destruct (dfull a).
  - destruct (geqb (dgroup b) G && has_recs b) eqn:E1; [intro H; inversion H; auto|].
    destruct (geqb (dgroup a) G && negb (has_recs b)) eqn:E2; [intro H; inversion H; auto|].
    intro H. right. right. split; [exact H|]. left. auto.
  - destruct (geqb (dgroup b) G) eqn:E1; [intro H; inversion H; auto|].
    intro H. right. right. split; [exact H|]. right. auto.
Qed.

Lemma nil_of_no_members (l : list string) : (forall x, ~ In x l) -> l = [].
Proof. destruct l as [|x l]; [reflexivity|]. intro H. exfalso. apply (H x). now left. Qed.

Lemma union_plain_cover u la lb a b G r : wf_universe u = true ->
  mkgroup u la = GOk (dgroup a) -> mkgroup u lb = GOk (dgroup b) -> gunion u (dgroup a) (dgroup b) = GOk G ->
  recs_cover a -> recs_cover b -> union_plain a b G = Ok r -> recs_cover r.
Proof.
  intros W Ha Hb HG Ca Cb H. apply union_plain_cases in H as [->|[->|[SC Hc]]]; auto.
  intros rr Hr. exfalso.
  apply std_core_inv in SC as [_ [[N ->] | [_ (ks & vs & -> & _ & _)]]]; [|discriminate].
  destruct (union_spec u la lb _ _ W Ha Hb) as (c & Hc' & Hm). rewrite HG in Hc'. inversion Hc'; subst c.
  assert (gnames G = []) as EG by (destruct (gnames G); [reflexivity | discriminate]).
  assert (gnames (dgroup a) = []) as Ea.
  { apply nil_of_no_members. intros x Hx. assert (In x (gnames G)) as Hin by (apply Hm; now left). rewrite EG in Hin. exact Hin. }
  assert (gnames (dgroup b) = []) as Eb.
  { apply nil_of_no_members. intros x Hx. assert (In x (gnames G)) as Hin by (apply Hm; now right). rewrite EG in Hin. exact Hin. }
  assert (geqb (dgroup a) G = true) as Ga by (unfold geqb; rewrite Ea, EG; reflexivity).
  assert (geqb (dgroup b) G = true) as Gb by (unfold geqb; rewrite Eb, EG; reflexivity).
  rewrite Ga, Gb in Hc. simpl in Hc.
  destruct Hc as [(_ & H1 & H2) | (_ & H1)]; [|discriminate].
  rewrite H1 in H2. discriminate.
Qed.

(* A UNION CLAIMS RECORDS ONLY IF IT HAS ONE FOR EVERY ELEMENT OF ITS GROUP (and then it is full): recs_cover is preserved *)
Lemma union_recs_cover_p u la lb a b c : wf_universe u = true ->
  mkgroup u la = GOk (dgroup a) -> mkgroup u lb = GOk (dgroup b) -> recs_cover a -> recs_cover b ->
  union u a b = Ok c -> recs_cover c.
Proof.
  intros W Ha Hb Ca Cb H. rewrite union_unfold in H.
  destruct (gunion u (dgroup a) (dgroup b)) as [G| |] eqn:HG; simpl in H; try discriminate.
  pose proof (union_plain_cover u la lb a b G) as P.
  destruct (drecs a) as [ra|] eqn:Da; [|eapply P; eauto]. destruct (drecs b) as [rb|] eqn:Db; [|eapply P; eauto].
  destruct (union_plain a b G) as [r|] eqn:Hr; simpl in H; [|discriminate].
  specialize (P r W Ha Hb HG Ca Cb eq_refl).
  destruct (has_recs r) eqn:HR; [inversion H; subst; exact P|].
  destruct (restrict_recs rb (gelements (dgroup b))) as [rb'|]; [|discriminate].
  destruct (restrict_recs ra (gelements (dgroup a))) as [ra'|]; [|discriminate].
  destruct (forallb (has_key (rb' ++ ra')) (gelements (dgroup r))) eqn:F; [|inversion H; subst; exact P].
  destruct (Ca ra Da) as [Fa _]. destruct (Cb rb Db) as [Fb _].
  destruct (union_plain_full u la lb a b G r W Ha Hb HG Fa Fb Hr) as [Fr|Fr]; [congruence|].
  unfold expanded_with in H. unfold has_recs in HR. destruct (drecs r); [discriminate|]. rewrite Fr in H.
  inversion H; subst c. intros rc Hrc. simpl in Hrc. inversion Hrc; subst rc. split.
  - unfold dfull in *. simpl. exact Fr.
  - simpl. intros e He. rewrite forallb_forall in F. now apply F.
Qed.

(* WHICH records the union of two EXPANDED data IDs carries: it is one of the operands, or it has no records, or it is the
   empty data ID, or every element's record is the second operand's where that has the element, else the first operand's *)
Lemma union_records_carried_p u a b c ra rb : drecs a = Some ra -> drecs b = Some rb -> union u a b = Ok c ->
  c = a \/ c = b \/ has_recs c = false \/ c = make_empty (dgroup c) \/
  exists rc, drecs c = Some rc /\ forall e, aget rc e =
    match (if memb e (gelements (dgroup b)) then aget rb e else None) with
    | Some x => Some x
    | None => if memb e (gelements (dgroup a)) then aget ra e else None
    end.
Proof.
  intros Da Db H. rewrite union_unfold in H.
  destruct (gunion u (dgroup a) (dgroup b)) as [G| |]; simpl in H; try discriminate.
  rewrite Da, Db in H.
  destruct (union_plain a b G) as [r|] eqn:Hr; simpl in H; [|discriminate].
  destruct (has_recs r) eqn:HR.
  - inversion H; subst c. apply union_plain_cases in Hr as [->|[->|[SC _]]]; auto.
    apply std_core_inv in SC as [EG [[_ ->] | [_ (ks & vs & -> & _ & _)]]]; [|discriminate HR].
    right. right. right. left. reflexivity.
  - destruct (restrict_recs rb (gelements (dgroup b))) as [rb'|] eqn:Rb; [|discriminate].
    destruct (restrict_recs ra (gelements (dgroup a))) as [ra'|] eqn:Ra; [|discriminate].
    destruct (forallb (has_key (rb' ++ ra')) (gelements (dgroup r))).
    + right. right. right. right. exists (rb' ++ ra').
      assert (drecs c = Some (rb' ++ ra')) as Dc.
      { unfold expanded_with in H. unfold has_recs in HR. destruct (drecs r); [discriminate|].
        destruct (dfull r); [inversion H; reflexivity|]. destruct (map_opt _ _); inversion H; reflexivity. }
      split; [exact Dc|]. intro e. rewrite aget_app, (restrict_recs_aget _ _ _ e Rb), (restrict_recs_aget _ _ _ e Ra).
      destruct (memb e (gelements (dgroup b))); [destruct (aget rb e); reflexivity | reflexivity].
    + inversion H; subst c. right. right. left. exact HR.
Qed.

(* ---------------------------------------------------------------------------------------------------------------- *)
(* (b) DataCoordinate arguments after the repairs                                                                   *)
(* ---------------------------------------------------------------------------------------------------------------- *)
Definition wf_dataid (u : universe) (d : dataid) : Prop :=
  (exists l, mkgroup u l = GOk (dgroup d)) /\ has_required d /\ (has_recs d = true -> dfull d = true).

Lemma required_nil_of_empty u l T : mkgroup u l = GOk T -> is_nil (gnames T) = true -> grequired T = [].
Proof.
  intros HG N. destruct (group_parts _ _ _ HG) as [Hr _]. rewrite Hr. destruct (gnames T); [reflexivity | discriminate].
Qed.

(* a value tuple computed key by key from the group's keys (all of them, or the required ones) holds its required values *)
Lemma from_values_has_required u l T (f : string -> option value) ks vs : mkgroup u l = GOk T ->
  ks = data_coordinate_keys T \/ ks = grequired T -> map_opt f ks = Some vs -> has_required (from_values T vs).
Proof.
  intros HG Hks M. unfold from_values. destruct (is_nil (gnames T)) eqn:N.
  - unfold has_required, required_values. simpl. rewrite (required_nil_of_empty _ _ _ HG N). reflexivity.
  - unfold has_required, required_values, dc_get, dmapping. simpl. destruct Hks as [->| ->].
    + unfold data_coordinate_keys in M. apply map_opt_app in M as (va & vb & Ha & Hb & ->).
      rewrite <- (map_opt_length _ _ _ Ha). rewrite firstn_app, Nat.sub_diag, firstn_all. simpl. rewrite app_nil_r.
      rewrite <- Ha. apply map_opt_ext_in. intros k Hk.
      assert (map_opt f (data_coordinate_keys T) = Some (va ++ vb)) as M'.
      { unfold data_coordinate_keys. clear -Ha Hb. revert va Ha. induction (grequired T) as [|x r IH]; simpl; intros va Ha.
        - inversion Ha; subst. simpl. exact Hb.
        - destruct (f x); [|discriminate]. destruct (map_opt f r) eqn:E; [|discriminate]. inversion Ha; subst. simpl.
          now rewrite (IH _ eq_refl). }
      rewrite (aget_combine_map_opt _ _ _ _ M').
      assert (memb k (data_coordinate_keys T) = true) as -> by (apply memb_In; now apply dck_required_incl). reflexivity.
    + unfold data_coordinate_keys. rewrite combine_app_left by (eapply map_opt_length; eauto).
      rewrite <- (map_opt_length _ _ _ M), firstn_all. rewrite <- M. apply map_opt_ext_in. intros k Hk.
      rewrite (aget_combine_map_opt _ _ _ _ M). assert (memb k (grequired T) = true) as -> by now apply memb_In. reflexivity.
Qed.

Lemma values_for_inv2 d T ks s : values_for d T ks = Ok s -> exists vs, map_opt (dc_get d) ks = Some vs /\ s = from_values T vs.
Proof. unfold values_for. destruct (map_opt (dc_get d) ks) as [vs|]; [|discriminate]. intro H; inversion H. eauto. Qed.

Lemma from_values_full T ks vs (f : string -> option value) : ks = data_coordinate_keys T -> map_opt f ks = Some vs ->
  has_recs (from_values T vs) = true \/ dfull (from_values T vs) = true.
Proof.
  intros -> M. unfold from_values. destruct (is_nil (gnames T)); [now left|]. right.
  unfold dfull. simpl. apply Nat.eqb_eq. eapply map_opt_length; eauto.
Qed.

Lemma expanded_with_has_recs s0 r s : expanded_with s0 r = Ok s -> has_recs s = true.
Proof.
  unfold expanded_with, has_recs. destruct (drecs s0) eqn:D0; [intro H; inversion H; subst; now rewrite D0|].
  destruct (dfull s0); [intro H; inversion H; reflexivity|].
  destruct (map_opt _ _); intro H; inversion H; reflexivity.
Qed.

(* what subset returns for a well-formed argument: no AttributeError; without records a well-formed data ID *)
Lemma subset_wf u d l s : wf_universe u = true -> wf_dataid u d -> subset u d l = Ok s ->
  has_recs s = false -> (exists l', mkgroup u l' = GOk (dgroup s)) /\ has_required s.
Proof.
  intros W (Hg & Hr & Hf) H NR. unfold subset in H.
  destruct (conform u l) as [T|] eqn:C; simpl in H; [|discriminate]. apply conform_ok in C.
  destruct (geqb (dgroup d) T); [inversion H; subst; auto|].
  assert (forall ks s0, ks = data_coordinate_keys T \/ ks = grequired T -> values_for d T ks = Ok s0 ->
            (exists l', mkgroup u l' = GOk (dgroup s0)) /\ has_required s0) as V.
  { intros ks s0 Hks Hv. apply values_for_inv2 in Hv as (vs & M & ->). split.
    - rewrite from_values_group. eauto.
    - eapply from_values_has_required; eauto. }
  destruct (drecs d) as [r|] eqn:Dr.
  - exfalso. (* a result with the argument's records attached has records *)
    destruct (dfull d || forallb (fun n => memb n (grequired (dgroup d))) (gnames T));
      (match type of H with rbind ?b _ = _ => destruct b as [s0|] eqn:B; simpl in H; [|discriminate] end);
      apply expanded_with_has_recs in H; congruence.
  - destruct (dfull d || forallb (fun n => memb n (grequired (dgroup d))) (gnames T));
      [apply (V (data_coordinate_keys T)); auto | apply (V (grequired T)); auto].
Qed.

Lemma subset_err u d l e : wf_universe u = true -> wf_dataid u d -> subset u d l = Err e -> e = EKeyError.
Proof.
  intros W (Hg & Hr & Hf) H. unfold subset in H. unfold conform in H.
  pose proof (mkgroup_no_fuel u l W) as NF.
  destruct (mkgroup u l) as [T| |]; simpl in H; [|now inversion H | contradiction].
  destruct (geqb (dgroup d) T); [discriminate|].
  assert (forall ks, values_for d T ks = Err e -> e = EKeyError) as V.
  { intros ks. unfold values_for. destruct (map_opt _ _); [discriminate | intro X; now inversion X]. }
  destruct (drecs d) as [r|] eqn:Dr; [|destruct (dfull d || _); eapply V; eauto].
  assert (dfull d = true) as Fd by (apply Hf; unfold has_recs; now rewrite Dr). rewrite Fd in H. simpl in H.
  destruct (values_for d T (data_coordinate_keys T)) as [s0|e0] eqn:B; simpl in H; [|inversion H; subst; eapply V; eauto].
  exfalso. apply values_for_inv2 in B as (vs & M & ->).
  destruct (from_values_full T _ vs (dc_get d) eq_refl M) as [X|X]; unfold expanded_with in H.
  - unfold has_recs in X. destruct (drecs (from_values T vs)); [discriminate | discriminate].
  - destruct (drecs (from_values T vs)); [discriminate|]. rewrite X in H. discriminate.
Qed.

Lemma standardize_dc2_err u dims d kw df e : wf_universe u = true -> wf_dataid u d ->
  standardize_dc2 u dims d kw df = Err e -> e = EDimensionName.
Proof.
  intros W Wd. unfold standardize_dc2, standardize_dc, conform_id. destruct dims as [l|].
  - pose proof (mkgroup_no_fuel u l W) as NF. destruct (mkgroup u l) as [G| |]; simpl; [|intro H; now inversion H | contradiction].
    destruct (forallb _ (akeys kw)); [|apply std_core_err].
    destruct (subset u d (gnames G)) as [s|e'] eqn:S; [discriminate|].
    rewrite (subset_err _ _ _ _ W Wd S). intro H; now inversion H.
  - destruct (is_nil kw); [discriminate|].
    pose proof (mkgroup_no_fuel u (akeys (kw ++ dmapping d)) W) as NF.
    destruct (mkgroup u _) as [G| |]; simpl; [apply std_core_err | intro H; now inversion H | contradiction].
Qed.

Lemma standardize_dc2_wf u dims d kw df s : wf_universe u = true -> wf_dataid u d ->
  standardize_dc2 u dims d kw df = Ok s -> has_recs s = false ->
  (exists l', mkgroup u l' = GOk (dgroup s)) /\ has_required s.
Proof.
  intros W Wd H NR. pose proof Wd as (Hg & Hr & Hf). unfold standardize_dc2, standardize_dc in H. destruct dims as [l|].
  - destruct (conform_id u l) as [G|] eqn:C; simpl in H; [|discriminate]. apply conform_id_ok in C.
    destruct (forallb _ (akeys kw)).
    + destruct (subset u d (gnames G)) as [s'|e'] eqn:S; [|destruct e'; discriminate].
      inversion H; subst s'. eapply subset_wf; eauto.
    + destruct (std_core_inv _ _ _ H) as [EG _]. split; [rewrite EG; eauto | eapply std_core_has_required; eauto].
  - destruct (is_nil kw); [inversion H; subst; auto|].
    destruct (conform_id u _) as [G|] eqn:C; simpl in H; [|discriminate]. apply conform_id_ok in C.
    destruct (std_core_inv _ _ _ H) as [EG _]. split; [rewrite EG; eauto | eapply std_core_has_required; eauto].
Qed.

(* ---- the walk with supplied records: every dimension gets a binding, only documented failures ---- *)
Lemma walk_binds_names_r u D l G given k0 k1 recs : mkgroup u l = GOk G -> lookup_okb u G = true ->
  (forall p, In p (grequired G) -> has_key k0 p = true) ->
  expand_keys_r u D G given k0 = Ok (k1, recs) -> forall n, In n (gnames G) -> has_key k1 n = true.
Proof.
  intros HG LK Hreq EK n Hn.
  destruct (expand_keys_r_sound_p _ _ _ _ _ _ _ EK) as (E & L2 & Hc).
  unfold lookup_okb in LK. rewrite L2 in LK.
  repeat (apply andb_true_iff in LK as [LK ?]).
  rename H into C5, H0 into C4, H1 into C3, H2 into C2.
  apply (partition_p u l G n HG) in Hn as [Hr|Hi].
  - specialize (Hreq n Hr). unfold has_key in *. destruct (aget k0 n) eqn:E0; [|discriminate]. now rewrite (E _ _ E0).
  - rewrite forallb_forall in C5. specialize (C5 n Hi). apply existsb_exists in C5 as (a & Ha & C5).
    apply andb_true_iff in C5 as [M _]. unfold eimp_of in M. destruct (find_elem u a) as [ea|] eqn:Fa; [|discriminate].
    apply memb_In in M.
    assert (In a (map fst recs)) as Hin.
    { rewrite forallb_forall in C3. apply memb_In. apply C3. eapply names_in_elements_p; eauto. }
    apply in_map_iff in Hin as ([a' ro] & E1 & Hin). simpl in E1; subst a'.
    specialize (Hc _ _ Hin). unfold rec_ok_r in Hc.
    assert (match ro with
            | Some r => forall d v, In (d, v) (zip_pad (eimp ea) (rimp r)) -> aget k1 d = Some v
            | None => ~ In a (gnames G) /\ defines_rel ea = false end) as Hr.
    { destruct (aget given a).
      - destruct Hc as (_ & e & F & Hr). rewrite Fa in F. inversion F; subst e. exact Hr.
      - destruct Hc as (e & kv & F & _ & _ & _ & Hr). rewrite Fa in F. inversion F; subst e. exact Hr. }
    destruct ro as [r|]; [|destruct Hr as [Hr _]; contradiction].
    destruct (zip_pad_In (eimp ea) (rimp r) n M) as [v Hv]. unfold has_key. now rewrite (Hr _ _ Hv).
Qed.

Lemma expand_step_r_err u D G given st x e : (exists el, find_elem u x = Some el) ->
  expand_step_r u D G given st x = Err e -> documented e = true.
Proof.
  intros Hx. unfold expand_step_r. destruct (aget given x) as [g|]; [|now apply expand_step_err].
  destruct Hx as [el F]. destruct st as [k r]. rewrite F. destruct g as [rec|].
  - destruct (check_implied k _) eqn:C; simpl; [discriminate|]. intro H; inversion H; subst.
    now rewrite (check_implied_err _ _ _ C).
  - destruct (memb x (gnames G)); [intro H; now inversion H|].
    destruct (defines_rel el); [intro H; now inversion H | discriminate].
Qed.

Lemma expand_loop_r_err u D G given order : (forall x, In x order -> exists el, find_elem u x = Some el) ->
  forall st e, expand_loop_r u D G given order st = Err e -> documented e = true.
Proof.
  induction order as [|x order IH]; intros Hk st e H.
  - unfold expand_loop_r in H. simpl in H. discriminate.
  - rewrite expand_loop_r_cons in H. destruct (expand_step_r u D G given st x) eqn:S; simpl in H.
    + eapply IH; eauto. intros y Hy. apply Hk. now right.
    + inversion H; subst. eapply expand_step_r_err; eauto. apply Hk. now left.
Qed.

Lemma expand_r_err_p u D l given d e : mkgroup u l = GOk (dgroup d) -> lookup_okb u (dgroup d) = true -> has_required d ->
  expand_r u D given d = Err e -> documented e = true.
Proof.
  intros HG LK HR. unfold expand_r. destruct (has_recs d); [discriminate|].
  destruct (expand_keys_r u D (dgroup d) given (dmapping d)) as [[k1 recs]|e1] eqn:EK; simpl.
  - assert (forall n, In n (gnames (dgroup d)) -> has_key k1 n = true) as Hall.
    { eapply walk_binds_names_r; eauto. intros p Hp. now apply has_required_keys. }
    unfold std_core. destruct (is_nil (gnames (dgroup d))) eqn:N; [simpl; discriminate|].
    assert (forallb (has_key k1) (gnames (dgroup d)) = true) as -> by (apply forallb_forall; exact Hall).
    destruct (map_opt_total (aget k1) (data_coordinate_keys (dgroup d))) as [vs Hvs].
    { intros x Hx. apply (dck_incl_names _ _ _ HG) in Hx. specialize (Hall x Hx). unfold has_key in Hall.
      destruct (aget k1 x); [eauto | discriminate]. }
    rewrite Hvs. simpl. unfold from_values. rewrite N. unfold expanded_with, dfull. simpl.
    rewrite (map_opt_length _ _ _ Hvs), Nat.eqb_refl. discriminate.
  - intro H; inversion H; subst. unfold expand_keys_r in EK.
    unfold lookup_okb in LK. destruct (glookup (dgroup d)) as [o| |] eqn:L; try discriminate.
    repeat (apply andb_true_iff in LK as [LK ?]).
    eapply expand_loop_r_err; eauto. intros x Hx. rewrite forallb_forall in H1. specialize (H1 x Hx).
    destruct (find_elem u x); [eauto | discriminate].
Qed.

(* ONLY DOCUMENTED FAILURES: expandDataId(DataCoordinate, dimensions=, records=, **kwargs) as repaired *)
Lemma expand_dc_err_p u D given dims d kw df e : wf_universe u = true -> wf_dataid u d ->
  (forall s, standardize_dc2 u dims d kw df = Ok s -> lookup_okb u (dgroup s) = true) ->
  expand_data_id_dc2 u D given dims d kw df = Err e -> documented e = true.
Proof.
  intros W Wd LK. unfold expand_data_id_dc2.
  destruct (standardize_dc2 u dims d kw df) as [s|e1] eqn:S; simpl.
  - intro H. destruct (has_recs s) eqn:HR; [unfold expand_r in H; rewrite HR in H; discriminate|].
    destruct (standardize_dc2_wf _ _ _ _ _ _ W Wd S HR) as [[l' Hl] Hreq].
    eapply expand_r_err_p; eauto.
  - intro H; inversion H; subst. now rewrite (standardize_dc2_err _ _ _ _ _ _ W Wd S).
Qed.

(* SOUND: if the argument is itself a sound expansion and the standardized data ID keeps every value of the argument, every
   record the walk attaches -- carried or fetched -- is the stored row under the final values *)
Lemma expand_dc_sound_p u D d s k1 recs :
  consistent u D (dgroup d) (dmapping d) (carried_records d) ->
  (forall k v, dc_get d k = Some v -> dc_get s k = Some v) ->
  expand_keys_r u D (dgroup s) (carried_records2 d s) (dmapping s) = Ok (k1, recs) ->
  extends k1 (dmapping s) /\ glookup (dgroup s) = GOk (map fst recs) /\ consistent u D (dgroup s) k1 recs.
Proof.
  intros Cd Keep EK. eapply expand_keys_r_sound_stored_p; [exact EK|].
  destruct (expand_keys_r_sound_p _ _ _ _ _ _ _ EK) as (E & _ & _).
  assert (extends k1 (dmapping d)) as Ed by (intros n v Hn; apply E; now apply Keep).
  intros x g Hg. unfold carried_records2 in Hg. destruct (carried_ok d s); [|discriminate].
  apply aget_In in Hg. destruct (Cd _ _ Hg) as (e & kv & F & M & Hf & P & _).
  exists e, kv. repeat split; auto.
  - eapply map_opt_mono; eauto.
  - intro Hd. eapply present_mono; eauto.
Qed.

(* b51cefc: when a keyword overrides a value of the argument the carried records are NOT used: the expansion is that of the
   standardized data ID alone *)
Lemma expand_dc_override_refetches_p u D given dims d kw df s :
  standardize_dc2 u dims d kw df = Ok s -> carried_ok d s = false ->
  expand_data_id_dc2 u D given dims d kw df = expand_r u D given s.
Proof. intros S C. unfold expand_data_id_dc2. rewrite S. simpl. unfold carried_records2. rewrite C. reflexivity. Qed.

(* ---- witnesses ---- *)
(* before 822ddb5: bare KeyError; after: DimensionNameError *)
Lemma expand_dc_keyerror_refuted_without_fix_p :
  exists d e, standardize u_current None [("instrument", VStr "Cam")] [] [] = Ok d /\
    expand_data_id_dc_x u_current ex_db [] (Some ["detector"]) d [] [] = Err e /\ documented e = false /\
    expand_data_id_dc_x2 u_current ex_db [] (Some ["detector"]) d [] [] = Err EDimensionName.
Proof. eexists. exists EKeyError. split; [vm_compute; reflexivity|]. repeat split; vm_compute; reflexivity. Qed.

(* before b51cefc: visit 7 with visit 5's record and filter; after: refused like the mapping spelling *)
Lemma expand_dc_carried_records_refuted_without_fix_p :
  exists a d, expand_data_id_x u_current ex_db2 [] None [("instrument", VStr "Cam"); ("visit", VInt 5)] [] [] = Ok a /\
    expand_data_id_dc_x u_current ex_db2 [] None a [("visit", VInt 7)] [] = Ok d /\
    dc_get d "visit" = Some (VInt 7) /\ dc_get d "physical_filter" = Some (VStr "pf1") /\
    expand_data_id_x u_current ex_db2 [] None (dmapping d) [] [] = Err EInconsistent /\
    expand_data_id_dc_x2 u_current ex_db2 [] None a [("visit", VInt 7)] [] = Err EInconsistent.
Proof. do 2 eexists. split; [vm_compute; reflexivity|]. split; [vm_compute; reflexivity|]. repeat split; vm_compute; reflexivity. Qed.

(* after b51cefc, still: the record of a value that standardize DROPPED (physical_filter of the argument, a partial set of
   implied values once visit=7 is added) is reused for the value visit 7 implies (finding
   F-C13-expand-dc-carried-record-of-dropped-value) *)
Lemma expand_dc_carried_records_residual_refuted_p :
  exists p d d', expand_data_id_x u_current ex_db2 [] None [("instrument", VStr "Cam"); ("physical_filter", VStr "pf1")] [] [] = Ok p /\
    expand_data_id_dc_x2 u_current ex_db2 [] None p [("visit", VInt 7)] [] = Ok d /\
    dc_get d "physical_filter" = Some (VStr "pf2") /\ dc_get d "band" = Some (VStr "g") /\
    expand_data_id_x u_current ex_db2 [] None
      [("instrument", VStr "Cam"); ("physical_filter", VStr "pf1"); ("band", VStr "g"); ("visit", VInt 7)] [] [] = Ok d' /\
    dc_get d' "physical_filter" = Some (VStr "pf2") /\ dc_get d' "band" = Some (VStr "r").
Proof. do 3 eexists. split; [vm_compute; reflexivity|]. split; [vm_compute; reflexivity|]. split; [vm_compute; reflexivity|].
  split; [vm_compute; reflexivity|]. split; [vm_compute; reflexivity|]. split; vm_compute; reflexivity. Qed.
