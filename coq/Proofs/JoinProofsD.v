(* C06 lemmas, part D: the shipped universe (finite checks by computation) and the refutation witnesses. *)
From Coq Require Import String List Bool ZArith NArith Lia.
From V Require Import Model.Universe Model.Group Gen.Universes Model.Join Model.JoinCheck
  Proofs.GroupProofs Proofs.GroupProofsShipped Proofs.JoinProofs Proofs.JoinProofsB Proofs.JoinProofsC.
Import ListNotations.
Open Scope string_scope.
Open Scope list_scope.

(* ---- the shipped universe ---- *)
Lemma uni_ok_current_p : uni_okb jc_current = true.
Proof. vm_compute. reflexivity. Qed.

Definition closed_plan_okb (l : list string) : bool :=
  match closure u_current l with GOk ns => plan_okb jc_current ns | _ => false end.

Lemma plan_total_current_p : forallb closed_plan_okb (all_subsets (nonskypix_dimension_names u_current)) = true.
Proof. vm_compute. reflexivity. Qed.

Lemma plan_total_current_forall_p l ns : In l (all_subsets (nonskypix_dimension_names u_current)) ->
  closure u_current l = GOk ns -> plan_okb jc_current ns = true.
Proof.
  intros Hl Hc. pose proof plan_total_current_p as H. rewrite forallb_forall in H. specialize (H l Hl).
  unfold closed_plan_okb in H. rewrite Hc in H. exact H.
Qed.

(* ---- refutations: concrete geometry with env_sound (region x covers pixel x and pixel 0) ---- *)
Definition ov_w (x y : N) : bool := true.
Definition env_w (x : N) : list N := [0%N; N.succ x].
Lemma env_w_sound : forall x y, ov_w x y = true -> exists p, In p (env_w x) /\ In p (env_w y).
Proof. intros x y _. exists 0%N. simpl. auto. Qed.

Definition R (l : list (string * Z)) (o : option N) : rec := mkRec l o None.
Definition h_base : list op :=
  [ mkOp OInsert "instrument" (R [("instrument", 1%Z)] None);
    mkOp OInsert "skymap" (R [("skymap", 1%Z)] None);
    mkOp OInsert "day_obs" (R [("instrument", 1%Z); ("day_obs", 5%Z)] None);
    mkOp OInsert "physical_filter" (R [("instrument", 1%Z); ("physical_filter", 1%Z); ("band", 1%Z)] None);
    mkOp OInsert "tract" (R [("skymap", 1%Z); ("tract", 1%Z)] (Some 1%N));
    mkOp OInsert "visit" (R [("instrument", 1%Z); ("visit", 1%Z); ("day_obs", 5%Z); ("physical_filter", 1%Z)] None) ].
Definition op_skip : op :=
  mkOp OSkip "visit" (R [("instrument", 1%Z); ("visit", 1%Z); ("day_obs", 5%Z); ("physical_filter", 1%Z)] (Some 2%N)).
Definition ns_visit_tract : list string :=
  ["band"; "instrument"; "skymap"; "day_obs"; "physical_filter"; "tract"; "visit"].

(* same final records, different answers: skip_existing of an existing NULL-region visit makes the query raise *)
Lemma order_independent_refuted_skip_p :
  closure u_current ["visit"; "tract"] = GOk ns_visit_tract
  /\ recs (run_hist jc_current env_w (h_base ++ [op_skip]) st0) = recs (run_hist jc_current env_w h_base st0)
  /\ query jc_current ov_w (run_hist jc_current env_w h_base st0) ns_visit_tract = QOk []
  /\ query jc_current ov_w (run_hist jc_current env_w (h_base ++ [op_skip]) st0) ns_visit_tract = QCrash.
Proof. vm_compute. repeat split; reflexivity. Qed.

(* the overlap rows are no longer the envelope of the stored region *)
Lemma overlap_exact_refuted_skip_p :
  let s := run_hist jc_current env_w (h_base ++ [op_skip]) st0 in
  exists k p, In (k, p) (oget (ovl s) "visit")
              /\ forall r, In r (tget (recs s) "visit") -> rregion r = None.
Proof.
  exists [("instrument", 1%Z); ("visit", 1%Z)], 0%N. vm_compute. split; [auto|].
  intros r [<-|[]]. reflexivity.
Qed.

(* without view_closed the plan and the specification differ: a subfilter whose band no physical_filter has *)
Definition h_dangling : list op :=
  [ mkOp OInsert "instrument" (R [("instrument", 1%Z)] None);
    mkOp OInsert "physical_filter" (R [("instrument", 1%Z); ("physical_filter", 1%Z); ("band", 1%Z)] None);
    mkOp OInsert "subfilter" (R [("band", 3%Z); ("subfilter", 1%Z)] None) ].

Lemma dangling_band_refuted_p :
  let s := run_hist jc_current env_w h_dangling st0 in
  run_outs jc_current env_w h_dangling st0 = [ROk; ROk; ROk]
  /\ query jc_current ov_w s ["band"; "subfilter"] = QOk [[("band", 3%Z); ("subfilter", 1%Z)]]
  /\ spec jc_current ov_w (recs s) ["band"; "subfilter"] = []
  /\ query jc_current ov_w s ["band"] = QOk [[("band", 1%Z)]].
Proof. vm_compute. repeat split; reflexivity. Qed.

(* non-vacuity: a history with a replaced region and a spatial query that returns a row *)
Definition h_example : list op :=
  h_base ++ [ mkOp OReplace "visit" (R [("instrument", 1%Z); ("visit", 1%Z); ("day_obs", 5%Z); ("physical_filter", 1%Z)] (Some 3%N));
              mkOp OSyncUpd "tract" (R [("skymap", 1%Z); ("tract", 1%Z)] (Some 4%N)) ].

Lemma example_history_p :
  skip_free h_example = true
  /\ run_outs jc_current env_w h_example st0 = [ROk; ROk; ROk; ROk; ROk; ROk; ROk; RUpdated]
  /\ query jc_current ov_w (run_hist jc_current env_w h_example st0) ns_visit_tract
     = QOk [[("band", 1%Z); ("instrument", 1%Z); ("skymap", 1%Z); ("day_obs", 5%Z); ("physical_filter", 1%Z); ("tract", 1%Z); ("visit", 1%Z)]].
Proof. vm_compute. repeat split; reflexivity. Qed.


(* a computable sufficient check for view_closed, used for the non-vacuity example *)
Definition view_closedb (c : jconf) (d : db) : bool :=
  forallb (fun t => forallb (fun r => forallb (fun n =>
      match view_of c n with
      | Some tgt => String.eqb (ename t) tgt || existsb (fun r' => agree1 (rvals r') (rvals r) n) (tget d tgt)
      | None => true
      end) (deps t)) (tget d (ename t))) (ju c).

Lemma view_closedb_sound c d : view_closedb c d = true -> view_closed c d.
Proof.
  unfold view_closedb. rewrite forallb_forall. intros H t r n tgt Ht Hr Hn Hv Hne.
  specialize (H t Ht). rewrite forallb_forall in H. specialize (H r Hr). rewrite forallb_forall in H. specialize (H n Hn).
  rewrite Hv in H. apply orb_true_iff in H. destruct H as [H|H].
  - apply String.eqb_eq in H. contradiction.
  - apply existsb_exists in H. exact H.
Qed.

Lemma example_view_closed_p : view_closed jc_current (recs (run_hist jc_current env_w h_example st0)).
Proof. apply view_closedb_sound. vm_compute. reflexivity. Qed.

(* ---- the current universe, every dependency-closed group of its non-skypix dimensions ---- *)
Lemma current_wf_j : wf_universe (ju jc_current) = true.
Proof. exact current_wf_p. Qed.

Theorem query_correct_current_p (ov : N -> N -> bool) (env : N -> list N) :
  (forall x y, ov x y = true -> exists p, In p (env x) /\ In p (env y)) ->
  forall l ns s, In l (all_subsets (nonskypix_dimension_names u_current)) -> closure u_current l = GOk ns ->
  fk_closed jc_current (recs s) -> view_closed jc_current (recs s) -> ovl_sound jc_current env s -> ovl_nonnull jc_current s ->
  query jc_current ov s ns = QOk (spec jc_current ov (recs s) ns).
Proof.
  intros Hes l ns s Hl Hc Hfk Hv Hos Hon.
  eapply query_correct_p; eauto using current_wf_j, uni_ok_current_p, plan_total_current_forall_p.
Qed.

Theorem history_query_correct_current_p (ov : N -> N -> bool) (env : N -> list N) :
  (forall x y, ov x y = true -> exists p, In p (env x) /\ In p (env y)) ->
  forall h l ns, In l (all_subsets (nonskypix_dimension_names u_current)) -> closure u_current l = GOk ns ->
  skip_free h = true -> view_closed jc_current (recs (run_hist jc_current env h st0)) ->
  query jc_current ov (run_hist jc_current env h st0) ns = QOk (spec jc_current ov (recs (run_hist jc_current env h st0)) ns).
Proof.
  intros Hes h l ns Hl Hc Hsf Hv.
  eapply history_query_correct_p; eauto using current_wf_j, uni_ok_current_p, plan_total_current_forall_p.
Qed.
