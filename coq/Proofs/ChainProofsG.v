(* C03 proofs, part G: the hand-written position arithmetic of Model/Chain.v equals the arithmetic regenerated
   from the source (Gen/ChainPosGen.v), so every theorem about `edit` holds for `edit_gen`. *)
From Coq Require Import ZArith NArith List Bool Lia.
From V Require Import Model.Chain Gen.ChainPosGen Model.ChainGenEdit Proofs.ChainProofsA Proofs.ChainProofsB
  Proofs.ChainProofsD.
Import ListNotations.
Open Scope Z_scope.

Lemma gen_prepend_eq : forall lo hi n, gen_prepend_position lo hi n = or0 lo - n.
Proof. intros. unfold gen_prepend_position, gen_find_position, or0. destruct lo; reflexivity. Qed.
Lemma gen_extend_eq : forall lo hi n, gen_extend_position lo hi n = or0 hi + 1.
Proof. intros. unfold gen_extend_position, gen_find_position, or0. destruct hi; reflexivity. Qed.

Lemma apply_edit_gen_eq : forall rs k p cs, apply_edit_gen rs k p cs = apply_edit rs k p cs.
Proof.
  intros. destruct k; unfold apply_edit_gen, apply_edit; try reflexivity;
    try (rewrite gen_prepend_eq; reflexivity); rewrite gen_extend_eq; reflexivity.
Qed.
Lemma edit_gen_eq : forall s k p cs, edit_gen s k p cs = edit s k p cs.
Proof. intros. unfold edit_gen, edit. rewrite apply_edit_gen_eq. reflexivity. Qed.

(* the documented child order of every edit, over the REGENERATED arithmetic *)
Lemma edit_orders_gen_p : forall s k p cs s', edit_gen s k p cs = (s', Done) ->
  children s' p =
    match k with
    | KRedefine => dedup cs
    | KPrepend => dedup cs ++ without cs (children s p)
    | KExtend => without cs (children s p) ++ dedup cs
    | KRemove => without cs (children s p)
    end /\
  (forall q, q <> p -> children s' q = children s q) /\
  colls s' = colls s /\ cont s' = cont s.
Proof. intros s k p cs s' H. rewrite edit_gen_eq in H. apply edit_orders_p. exact H. Qed.

(* the regenerated start positions never collide with a surviving row of the chain *)
Lemma positions_unique_gen_p : forall rs k p cs, pos_unique rs -> pos_unique (apply_edit_gen rs k p cs).
Proof. intros. rewrite apply_edit_gen_eq. apply apply_edit_pos_unique. assumption. Qed.

(* what the arithmetic has to guarantee, stated on the generated definitions themselves: the n new rows lie
   strictly below every surviving position (prepend) / strictly above (extend) *)
Lemma gen_positions_outside : forall lo hi n x, 0 <= n ->
  (forall m, lo = Some m -> m <= x) -> (forall m, hi = Some m -> x <= m) -> lo <> None -> hi <> None ->
  gen_prepend_position lo hi n + n <= x /\ x < gen_extend_position lo hi n.
Proof.
  intros lo hi n x Hn Hlo Hhi Nlo Nhi. rewrite gen_prepend_eq, gen_extend_eq.
  destruct lo as [a|]; [|congruence]. destruct hi as [b|]; [|congruence]. simpl.
  specialize (Hlo a eq_refl). specialize (Hhi b eq_refl). lia.
Qed.
