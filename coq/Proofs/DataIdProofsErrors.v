(* Which failures standardize / expandDataId can produce (model of the code after /repo 02977ba):
   only the documented data-ID error classes. *)
From Coq Require Import String List Bool Arith ZArith Lia.
From V Require Import Model.Universe Model.Group Model.DataId Gen.Universes
  Proofs.GroupProofs Proofs.GroupProofsShipped Proofs.DataIdProofs Proofs.DataIdProofsExpand.
Import ListNotations.
Open Scope string_scope.
Open Scope list_scope.

(* ---- the closure never runs out of fuel in a well-formed universe, whatever names it is given ---- *)
Lemma expand_no_fuel u : wf_universe u = true -> forall fuel todo acc,
  NoDup acc -> incl acc (names_of u) -> (forall x, In x todo -> ~ In x acc) ->
  length (names_of u) < fuel + length acc ->
  Universe.expand u fuel todo acc <> GOutOfFuel.
Proof.
  intros Hwf. induction fuel as [|f IH]; intros todo acc Hnd Ha Hdis Hlen; destruct todo as [|d rest]; simpl; try discriminate.
  - exfalso. pose proof (NoDup_incl_length Hnd Ha). simpl in Hlen. lia.
  - destruct (find_elem u d) as [e|] eqn:He; [|discriminate].
    apply IH.
    + constructor; [apply Hdis; now left | exact Hnd].
    + intros x [Hx|Hx]; [subst; eapply find_elem_is_known; eauto | now apply Ha].
    + intros x Hx. apply filter_In in Hx as [_ Hx]. apply negb_true_iff in Hx.
      apply -> (memb_false x (d :: acc)). exact Hx.
    + simpl. lia.
Qed.

Lemma mkgroup_no_fuel u l : wf_universe u = true -> mkgroup u l <> GOutOfFuel.
Proof.
  intros W. unfold mkgroup, closure.
  pose proof (expand_no_fuel u W (S (length u)) l []) as H.
  destruct (Universe.expand u (S (length u)) l []) eqn:E; simpl; try discriminate.
  exfalso. apply H; auto.
  - constructor.
  - intros x [].
  - unfold names_of. rewrite map_length. simpl. lia.
Qed.

Lemma std_core_err G m e : std_core G m = Err e -> e = EDimensionName.
Proof.
  unfold std_core. destruct (is_nil (gnames G)); [discriminate|].
  destruct (map_opt _ _); [discriminate|]. intro H; now inversion H.
Qed.

(* standardize fails only with DimensionNameError: an unknown name (02977ba) or a required dimension without value *)
Lemma standardize_err_p u dims mp kw df e : wf_universe u = true ->
  standardize u dims mp kw df = Err e -> e = EDimensionName.
Proof.
  intros W. unfold standardize, standardize_with, conform_id.
  pose proof (mkgroup_no_fuel u (match dims with Some l => l | None => akeys (kw ++ mp) end) W) as NF.
  destruct (mkgroup u _) as [G| |]; simpl.
  - apply std_core_err.
  - intro H; now inversion H.
  - contradiction.
Qed.

(* ---- the walk ---- *)
Lemma check_implied_err l : forall k e, check_implied k l = Err e -> e = EInconsistent.
Proof.
  induction l as [|[d v] r IH]; simpl; intros k e H; [discriminate|].
  destruct (aget k d); [destruct (value_eqb v0 v); [eauto | now inversion H] | eauto].
Qed.

Lemma expand_step_err u D G st x e : (exists el, find_elem u x = Some el) ->
  expand_step u D G st x = Err e -> documented e = true.
Proof.
  intros [el F]. destruct st as [k r]. unfold expand_step. rewrite F.
  destruct (is_dimension el && negb (present k x)); [intro H; now inversion H|].
  destruct (map_opt (aget k) (ereq el)); [|intro H; now inversion H].
  destruct (fetch D el l).
  - destruct (check_implied k _) eqn:C; simpl; [discriminate|]. intro H; inversion H; subst.
    now rewrite (check_implied_err _ _ _ C).
  - destruct (memb x (gnames G)); [intro H; now inversion H|].
    destruct (defines_rel el); [intro H; now inversion H | discriminate].
Qed.

Lemma expand_loop_err u D G order : (forall x, In x order -> exists el, find_elem u x = Some el) ->
  forall st e, expand_loop u D G order st = Err e -> documented e = true.
Proof.
  induction order as [|x order IH]; intros Hk st e H.
  - unfold expand_loop in H. simpl in H. discriminate.
  - rewrite expand_loop_cons in H. destruct (expand_step u D G st x) eqn:S; simpl in H.
    + eapply IH; eauto. intros y Hy. apply Hk. now right.
    + inversion H; subst. eapply expand_step_err; eauto. apply Hk. now left.
Qed.

Lemma aget_NoDup {A} (m : list (string * A)) k v : NoDup (map fst m) -> In (k, v) m -> aget m k = Some v.
Proof.
  induction m as [|[k' v'] r IH]; simpl; intros ND H; [contradiction|].
  inversion ND as [|? ? Hn ND']; subst.
  destruct H as [H|H].
  - inversion H; subst. now rewrite String.eqb_refl.
  - destruct (String.eqb k' k) eqn:E.
    + apply String.eqb_eq in E; subst. exfalso. apply Hn. apply in_map_iff. now exists (k, v).
    + now apply IH.
Qed.

(* expansion of a standardized data ID (group built by mkgroup, lookup order with the C12 properties) fails only with
   DimensionNameError / DataIdValueError / InconsistentDataIdError *)
Lemma expand_err_p u D l d e : mkgroup u l = GOk (dgroup d) -> lookup_okb u (dgroup d) = true ->
  expand u D d = Err e -> documented e = true.
Proof.
  intros HG LK. unfold expand. destruct (has_recs d); [discriminate|].
  unfold lookup_okb in LK. destruct (glookup (dgroup d)) as [o| |] eqn:L; try discriminate.
  repeat (apply andb_true_iff in LK as [LK ?]).
  rename H into C5, H0 into C4, H1 into C3, H2 into C2. rename LK into C1.
  apply nodupb_NoDup in C1.
  assert (forall x, In x o -> exists el, find_elem u x = Some el) as Hk.
  { intros x Hx. rewrite forallb_forall in C4. specialize (C4 x Hx). destruct (find_elem u x); [now eexists | discriminate]. }
  destruct (expand_keys u D (dgroup d) (dmapping d)) as [[k1 recs]|e1] eqn:EK; simpl.
  - destruct (std_core (dgroup d) k1) as [s|e2] eqn:SC; simpl.
    + (* .expanded(records) cannot fail: every implied dimension of the group has a row *)
      intro H. exfalso.
      destruct (expand_keys_sound_p _ _ _ _ _ _ EK) as (_ & L2 & Hc). rewrite L in L2. inversion L2 as [Ho].
      unfold expanded_with in H. destruct (drecs s); [discriminate|]. destruct (dfull s); [discriminate|].
      destruct (std_core_inv _ _ _ SC) as [GS _]. rewrite GS in H.
      destruct (map_opt_total (fun n => match aget recs n with Some (Some r) => Some (last (rkey r) VNone) | _ => None end)
                              (gimplied (dgroup d))) as [vs Hvs]; [|rewrite Hvs in H; discriminate].
      intros n Hn.
      assert (In n (gnames (dgroup d))) as Hnames.
      { destruct (group_parts _ _ _ HG) as [_ Hi]. rewrite Hi in Hn. apply filter_In in Hn. tauto. }
      assert (In n o) as Hno.
      { rewrite forallb_forall in C3. apply memb_In. apply C3. eapply names_in_elements_p; eauto. }
      rewrite Ho in Hno. apply in_map_iff in Hno as ([n' ro] & E1 & Hin). simpl in E1; subst n'.
      assert (NoDup (map fst recs)) as ND by now rewrite <- Ho.
      rewrite (aget_NoDup _ _ _ ND Hin).
      destruct ro as [r|]; [eexists; reflexivity|].
      destruct (Hc _ _ Hin) as (el & kv & _ & _ & _ & _ & Hnot & _). contradiction.
    + intro H; inversion H; subst. now rewrite (std_core_err _ _ _ SC).
  - intro H; inversion H; subst. unfold expand_keys in EK. rewrite L in EK. eapply expand_loop_err; eauto.
Qed.

(* expandDataId as a whole *)
Lemma expand_data_id_err_p u D dims mp kw df e : wf_universe u = true ->
  (forall d, standardize u dims mp kw df = Ok d -> lookup_okb u (dgroup d) = true) ->
  expand_data_id u D dims mp kw df = Err e -> documented e = true.
Proof.
  intros W LK. unfold expand_data_id. destruct (standardize u dims mp kw df) as [d|e1] eqn:S; simpl.
  - apply standardize_inv in S as HS. destruct HS as (G & HG & SC). destruct (std_core_inv _ _ _ SC) as [EG _].
    intro H. rewrite <- EG in HG. eapply expand_err_p; [exact HG | now apply LK | exact H].
  - intro H; inversion H; subst. now rewrite (standardize_err_p _ _ _ _ _ _ W S).
Qed.

(* ... and with C12's exhaustive lookup-order theorem: every request over non-skypix dimensions of the current universe *)
Lemma expand_data_id_err_current_p D l mp kw df e :
  In l (all_subsets (nonskypix_dimension_names u_current)) ->
  expand_data_id u_current D (Some l) mp kw df = Err e -> documented e = true.
Proof.
  intros Hl. apply expand_data_id_err_p; [exact current_wf_p|].
  intros d S. apply standardize_dims_p in S.
  destruct (lookup_ok_current_forall_p l Hl) as (g & Hg & LK). rewrite S in Hg. inversion Hg; subst. exact LK.
Qed.
