(* Lemmas about the model of SqlRegistry.expandDataId (Model/DataId.v: expand_step / expand_loop / expand_keys).

   extends k' k        every binding of k is a binding of k'
   rec_ok u D G K x ro the record entry `ro` of element x is what the store holds for the values K gives to x's
                       required dimensions: a stored row all of whose implied values are K's values, or no row for
                       an element that is neither a dimension of the group nor relationship-defining
   consistent ...      every element of the lookup order has such an entry, in order *)
From Coq Require Import String List Bool Arith ZArith Lia.
From V Require Import Model.Universe Model.Group Model.DataId Proofs.GroupProofs Proofs.DataIdProofs.
Import ListNotations.
Open Scope string_scope.
Open Scope list_scope.

Definition extends (k' k : amap) : Prop := forall n v, aget k n = Some v -> aget k' n = Some v.

Definition rec_ok (u : universe) (D : db) (G : group) (K : amap) (x : string) (ro : option record) : Prop :=
  exists e kv, find_elem u x = Some e /\ map_opt (aget K) (ereq e) = Some kv /\ fetch D e kv = ro /\
    (is_dimension e = true -> present K x = true) /\
    match ro with
    | Some r => forall d v, In (d, v) (zip_pad (eimp e) (rimp r)) -> aget K d = Some v
    | None => ~ In x (gnames G) /\ defines_rel e = false
    end.

Definition consistent (u : universe) (D : db) (G : group) (K : amap) (recs : recmap) : Prop :=
  forall x ro, In (x, ro) recs -> rec_ok u D G K x ro.

Lemma extends_refl k : extends k k.
Proof. intros n v H; exact H. Qed.
Lemma extends_trans a b c : extends a b -> extends b c -> extends a c.
Proof. intros H1 H2 n v H. apply H1, H2, H. Qed.
Lemma extends_app k l : extends (k ++ l) k.
Proof. intros n v H. rewrite aget_app, H. reflexivity. Qed.

Lemma present_spec k n : present k n = true <-> exists v, aget k n = Some v /\ v <> VNone.
Proof.
  unfold present. destruct (aget k n) as [[z|s|]|]; split; intro H; try discriminate; try reflexivity.
  - eexists; split; [reflexivity | discriminate].
  - eexists; split; [reflexivity | discriminate].
  - destruct H as (v & E & N). inversion E; subst. contradiction.
  - destruct H as (v & E & _). discriminate.
Qed.

Lemma present_mono k' k n : extends k' k -> present k n = true -> present k' n = true.
Proof. intros E H. apply present_spec in H as (v & Hv & N). apply present_spec. exists v. split; [now apply E | exact N]. Qed.

Lemma map_opt_mono k' k l kv : extends k' k -> map_opt (aget k) l = Some kv -> map_opt (aget k') l = Some kv.
Proof.
  intros E H. rewrite <- H. apply map_opt_ext_in. intros x Hx.
  destruct (map_opt_all _ _ _ H x Hx) as [y Hy]. rewrite Hy. now apply E.
Qed.

Lemma rec_ok_mono u D G k' k x ro : extends k' k -> rec_ok u D G k x ro -> rec_ok u D G k' x ro.
Proof.
  intros E (e & kv & F & M & Hf & P & Hr). exists e, kv. repeat split; auto.
  - eapply map_opt_mono; eauto.
  - intro Hd. eapply present_mono; eauto.
  - destruct ro; [|exact Hr]. intros d v Hin. apply E. now apply Hr.
Qed.

(* ---- the setdefault loop ---- *)
Lemma check_implied_sound l : forall k k', check_implied k l = Ok k' ->
  extends k' k /\ forall d v, In (d, v) l -> aget k' d = Some v.
Proof.
  induction l as [|[d v] r IH]; simpl; intros k k' H.
  - inversion H; subst. split; [apply extends_refl | intros ? ? []].
  - destruct (aget k d) as [x|] eqn:E.
    + destruct (value_eqb x v) eqn:Ev; [|discriminate]. apply value_eqb_eq in Ev; subst.
      destruct (IH _ _ H) as [Ex Hr]. split; [exact Ex|].
      intros d' v' [Heq|Hin]; [inversion Heq; subst; now apply Ex | now apply Hr].
    + destruct (IH _ _ H) as [Ex Hr]. split.
      * eapply extends_trans; [exact Ex | apply extends_app].
      * intros d' v' [Heq|Hin]; [|now apply Hr]. inversion Heq; subst. apply Ex.
        rewrite aget_app, E. simpl. now rewrite String.eqb_refl.
Qed.

Lemma check_implied_complete K l : forall k,
  (forall d v, In (d, v) l -> aget K d = Some v) -> extends K k ->
  exists k', check_implied k l = Ok k' /\ extends K k' /\ extends k' k /\ forall d, In d (map fst l) -> has_key k' d = true.
Proof.
  induction l as [|[d v] r IH]; simpl; intros k HK E.
  - exists k. repeat split; auto using extends_refl; try (intros ? []).
  - destruct (aget k d) as [x|] eqn:Ek.
    + assert (x = v) as -> by (apply E in Ek; rewrite (HK d v (or_introl eq_refl)) in Ek; congruence).
      assert (value_eqb v v = true) as -> by now apply value_eqb_eq.
      destruct (IH k) as (k' & Hc & E1 & E2 & Hk); auto.
      exists k'. repeat split; auto. intros d' [<-|Hd]; [|now apply Hk].
      unfold has_key. now rewrite (E2 _ _ Ek).
    + destruct (IH (k ++ [(d, v)])) as (k' & Hc & E1 & E2 & Hk); auto.
      { intros n w H. rewrite aget_app in H. destruct (aget k n) eqn:En; [inversion H; subst; now apply E|].
        simpl in H. destruct (String.eqb d n) eqn:Edn; [|discriminate]. apply String.eqb_eq in Edn; subst.
        inversion H; subst. apply HK. now left. }
      exists k'. repeat split; auto.
      * eapply extends_trans; [exact E2 | apply extends_app].
      * intros d' [<-|Hd]; [|now apply Hk]. unfold has_key.
        rewrite (E2 d v); [reflexivity|]. rewrite aget_app, Ek. simpl. now rewrite String.eqb_refl.
Qed.

Lemma zip_pad_fst names : forall vals, map fst (zip_pad names vals) = names.
Proof. induction names as [|n ns IH]; intros [|v vs]; simpl; try reflexivity; now rewrite IH. Qed.

(* ---- one step ---- *)
Lemma expand_step_sound u D G k r x k' r' : expand_step u D G (k, r) x = Ok (k', r') ->
  extends k' k /\ exists ro, r' = r ++ [(x, ro)] /\ rec_ok u D G k' x ro.
Proof.
  unfold expand_step. destruct (find_elem u x) as [e|] eqn:F; [|discriminate].
  destruct (is_dimension e && negb (present k x)) eqn:P; [discriminate|].
  destruct (map_opt (aget k) (ereq e)) as [kv|] eqn:M; [|discriminate].
  assert (is_dimension e = true -> present k x = true) as HP.
  { intro Hd. rewrite Hd in P. simpl in P. now apply negb_false_iff in P. }
  destruct (fetch D e kv) as [rec|] eqn:Hf.
  - destruct (check_implied k (zip_pad (eimp e) (rimp rec))) as [k2|] eqn:C; simpl; [|discriminate].
    intro H; inversion H; subst. destruct (check_implied_sound _ _ _ C) as [Ex Hr].
    split; [exact Ex|]. exists (Some rec). split; [reflexivity|].
    exists e, kv. repeat split; auto.
    + eapply map_opt_mono; eauto.
    + intro Hd. eapply present_mono; eauto.
  - destruct (memb x (gnames G)) eqn:Mx; [discriminate|]. destruct (defines_rel e) eqn:Dr; [discriminate|].
    intro H; inversion H; subst. split; [apply extends_refl|]. exists None. split; [reflexivity|].
    exists e, kv. repeat split; auto. now apply memb_false.
Qed.

Lemma loop_err u D G order e : fold_left (fun acc x => rbind acc (fun s => expand_step u D G s x)) order (Err e) = Err e.
Proof. induction order; simpl; auto. Qed.

Lemma expand_loop_cons u D G x order st :
  expand_loop u D G (x :: order) st = rbind (expand_step u D G st x) (expand_loop u D G order).
Proof.
  unfold expand_loop. simpl. destruct (expand_step u D G st x) as [s|e]; simpl; [reflexivity | apply loop_err].
Qed.

Lemma expand_loop_sound u D G order : forall k r k' r',
  expand_loop u D G order (k, r) = Ok (k', r') ->
  extends k' k /\ exists rs, r' = r ++ rs /\ map fst rs = order /\ consistent u D G k' rs.
Proof.
  induction order as [|x order IH]; intros k r k' r' H.
  - unfold expand_loop in H. simpl in H. inversion H; subst. split; [apply extends_refl|].
    exists []. rewrite app_nil_r. repeat split; auto. intros ? ? [].
  - rewrite expand_loop_cons in H. destruct (expand_step u D G (k, r) x) as [[k1 r1]|] eqn:S; simpl in H; [|discriminate].
    apply expand_step_sound in S as (E1 & ro & -> & Hro).
    apply IH in H as (E2 & rs & -> & Hm & Hc).
    split; [eapply extends_trans; eauto|].
    exists ((x, ro) :: rs). rewrite <- app_assoc. simpl. repeat split; auto; [now rewrite Hm|].
    intros y ro' [Heq|Hin]; [inversion Heq; subst; eapply rec_ok_mono; eauto | now apply Hc].
Qed.

(* SOUNDNESS of the walk, for ANY lookup order the group carries *)
Lemma expand_keys_sound_p u D G k0 k1 recs : expand_keys u D G k0 = Ok (k1, recs) ->
  extends k1 k0 /\ glookup G = GOk (map fst recs) /\ consistent u D G k1 recs.
Proof.
  unfold expand_keys. destruct (glookup G) as [order| |] eqn:L; try discriminate.
  intro H. apply expand_loop_sound in H as (E & rs & -> & Hm & Hc). simpl. rewrite Hm. auto.
Qed.

(* a data ID that names a stored row contradicting one of its own values is refused *)
Lemma expand_rejects_p u D G k0 x e kv r d v w :
  (exists order, glookup G = GOk order /\ In x order) ->
  find_elem u x = Some e -> map_opt (aget k0) (ereq e) = Some kv -> fetch D e kv = Some r ->
  In (d, v) (zip_pad (eimp e) (rimp r)) -> aget k0 d = Some w -> w <> v ->
  forall res, expand_keys u D G k0 <> Ok res.
Proof.
  intros (order & L & Hx) F M Hf Hin Hw Hne [k1 recs] H.
  apply expand_keys_sound_p in H as (E & L2 & Hc).
  rewrite L in L2. inversion L2 as [Ho]. rewrite Ho in Hx. apply in_map_iff in Hx as ([x' ro] & Hx1 & Hx2). simpl in Hx1; subst x'.
  destruct (Hc _ _ Hx2) as (e' & kv' & F' & M' & Hf' & _ & Hr).
  rewrite F in F'. inversion F'; subst e'.
  rewrite (map_opt_mono _ _ _ _ E M) in M'. inversion M'; subst kv'.
  rewrite Hf in Hf'. subst ro. specialize (Hr _ _ Hin). apply E in Hw. congruence.
Qed.

(* ---- COMPLETENESS under the lookup-order properties that C12 proves for the shipped universe ---- *)
Section Complete.
  Variables (u : universe) (D : db) (G : group) (K : amap) (order : list string).
  (* the consistent full assignment K *)
  Hypothesis K_present : forall n, In n (gnames G) -> present K n = true.
  Hypothesis K_ok : forall x, In x order -> exists ro, rec_ok u D G K x ro.
  (* structure of the group and of its lookup order *)
  Hypothesis names_split : forall n, In n (gnames G) -> In n (grequired G) \/ In n (gimplied G).
  Hypothesis elems_req : forall x e p, In x order -> find_elem u x = Some e -> In p (ereq e) -> In p (gnames G).
  Hypothesis dims_self : forall x e, In x order -> find_elem u x = Some e -> is_dimension e = true -> In x (ereq e).
  Hypothesis req_before : forall l1 x l2 e p, order = l1 ++ x :: l2 -> find_elem u x = Some e -> In p (ereq e) -> p <> x -> In p l1.
  Hypothesis imp_before : forall l1 d l2, order = l1 ++ d :: l2 -> In d (gimplied G) ->
    exists a ea, In a l1 /\ In a (gnames G) /\ find_elem u a = Some ea /\ In d (eimp ea).

  Definition inv (pre : list string) (k : amap) : Prop :=
    extends K k /\ (forall p, In p (grequired G) -> has_key k p = true) /\
    (forall a ea d, In a pre -> In a (gnames G) -> find_elem u a = Some ea -> In d (eimp ea) -> has_key k d = true).

  Lemma avail pre post x e k : order = pre ++ x :: post -> find_elem u x = Some e -> inv pre k ->
    forall p, In p (ereq e) -> aget k p = aget K p /\ present k p = true.
  Proof.
    intros Ho F (E & Hreq & Himp) p Hp.
    assert (In x order) as Hx by (rewrite Ho; apply in_or_app; right; now left).
    assert (In p (gnames G)) as Hn by (eapply elems_req; eauto).
    assert (has_key k p = true) as Hk.
    { destruct (names_split p Hn) as [Hr|Hi]; [now apply Hreq|].
      destruct (string_dec p x) as [->|Hne].
      - destruct (imp_before _ _ _ Ho Hi) as (a & ea & Ha & Han & Fa & Hd). eapply Himp; eauto.
      - pose proof (req_before _ _ _ _ _ Ho F Hp Hne) as Hpre.
        apply in_split in Hpre as (l1 & l2 & ->).
        rewrite <- app_assoc in Ho. simpl in Ho.
        destruct (imp_before _ _ _ Ho Hi) as (a & ea & Ha & Han & Fa & Hd).
        eapply Himp; eauto. apply in_or_app. now left. }
    unfold has_key in Hk. destruct (aget k p) as [v|] eqn:Ev; [|discriminate].
    pose proof (E _ _ Ev) as EK. rewrite EK. split; [reflexivity|].
    pose proof (K_present p Hn) as PK. apply present_spec in PK as (v' & Hv' & N).
    apply present_spec. exists v. split; [exact Ev | congruence].
  Qed.

  Lemma complete_loop : forall post pre k r, order = pre ++ post -> inv pre k ->
    exists k' r', expand_loop u D G post (k, r) = Ok (k', r') /\ extends K k'.
  Proof.
    induction post as [|x post IH]; intros pre k r Ho Hinv.
    - exists k, r. split; [reflexivity | apply Hinv].
    - assert (In x order) as Hx by (rewrite Ho; apply in_or_app; right; now left).
      destruct (K_ok x Hx) as (ro & e & kvK & F & MK & Hf & PK & Hr).
      pose proof (avail _ _ _ _ _ Ho F Hinv) as Hav.
      destruct Hinv as (E & Hreq & Himp).
      assert (map_opt (aget k) (ereq e) = Some kvK) as Mk.
      { rewrite <- MK. apply map_opt_ext_in. intros p Hp. apply (Hav p Hp). }
      rewrite expand_loop_cons. unfold expand_step. rewrite F.
      assert (is_dimension e && negb (present k x) = false) as ->.
      { destruct (is_dimension e) eqn:Hd; [|reflexivity]. simpl. apply negb_false_iff.
        apply (Hav x). eapply dims_self; eauto. }
      rewrite Mk, Hf. destruct ro as [rec|].
      + destruct (check_implied_complete K (zip_pad (eimp e) (rimp rec)) k Hr E) as (k2 & Hc & E1 & E2 & Hk).
        rewrite Hc. simpl. apply (IH (pre ++ [x])).
        * now rewrite <- app_assoc.
        * split; [exact E1|]. split.
          -- intros p Hp. specialize (Hreq p Hp). unfold has_key in *. destruct (aget k p) eqn:Ep; [|discriminate]. now rewrite (E2 _ _ Ep).
          -- intros a ea d Ha Han Fa Hd. apply in_app_or in Ha as [Ha|[<-|[]]].
             ++ specialize (Himp a ea d Ha Han Fa Hd). unfold has_key in *. destruct (aget k d) eqn:Ep; [|discriminate]. now rewrite (E2 _ _ Ep).
             ++ rewrite F in Fa. inversion Fa; subst ea. apply Hk. now rewrite zip_pad_fst.
      + destruct Hr as [Hnot Hdr]. assert (memb x (gnames G) = false) as -> by now apply memb_false.
        rewrite Hdr. simpl. apply (IH (pre ++ [x])).
        * now rewrite <- app_assoc.
        * split; [exact E|]. split; [exact Hreq|].
          intros a ea d Ha Han Fa Hd. apply in_app_or in Ha as [Ha|[<-|[]]]; [eapply Himp; eauto | contradiction].
  Qed.
End Complete.

(* ---- from lookup_okb (Model/Group.v, proved for the shipped universe in C12) to the section hypotheses ---- *)
Lemma index_of_app_notin a l1 r : ~ In a l1 -> index_of a (l1 ++ r) = length l1 + index_of a r.
Proof.
  induction l1 as [|x l IH]; simpl; intro H; [reflexivity|].
  destruct (String.eqb x a) eqn:E; [apply String.eqb_eq in E; exfalso; apply H; now left|].
  rewrite IH; [reflexivity | tauto].
Qed.

Lemma index_of_head d r : index_of d (d :: r) = 0.
Proof. simpl. now rewrite String.eqb_refl. Qed.

Lemma before_in_prefix o l1 d l2 a : NoDup o -> o = l1 ++ d :: l2 -> before o a d = true -> In a l1.
Proof.
  intros ND -> H. unfold before in H. apply Nat.ltb_lt in H.
  assert (~ In d l1) as Hd.
  { intro Hin. apply NoDup_remove_2 in ND. apply ND. apply in_or_app. now left. }
  rewrite (index_of_app_notin d l1 _ Hd), index_of_head in H.
  destruct (in_dec string_dec a l1) as [Hin|Hnot]; [exact Hin|].
  rewrite (index_of_app_notin a l1 _ Hnot) in H. lia.
Qed.

Lemma elem_unique u e e' : NoDup (names_of u) -> In e u -> In e' u -> ename e = ename e' -> e = e'.
Proof.
  induction u as [|a r IH]; simpl; intros ND H1 H2 Hn; [contradiction|].
  inversion ND as [|? ? Hnot ND']; subst.
  destruct H1 as [->|H1], H2 as [->|H2]; auto.
  - exfalso. apply Hnot. rewrite Hn. unfold names_of. now apply in_map.
  - exfalso. apply Hnot. rewrite <- Hn. unfold names_of. now apply in_map.
Qed.

(* every dimension lists itself among its required names (true of every built universe; checked by computation
   for the regenerated one) *)
Definition dims_selfb (u : universe) : bool :=
  forallb (fun e => negb (is_dimension e) || memb (ename e) (ereq e)) u.

Lemma expand_complete_p u D l G K k0 :
  wf_universe u = true -> dims_selfb u = true -> mkgroup u l = GOk G -> lookup_okb u G = true ->
  (forall p, In p (grequired G) -> has_key k0 p = true) -> extends K k0 ->
  (forall n, In n (gnames G) -> present K n = true) ->
  (forall x, In x (gelements G) -> exists ro, rec_ok u D G K x ro) ->
  exists k1 recs, expand_keys u D G k0 = Ok (k1, recs) /\ extends K k1.
Proof.
  intros W DS HG LK Hreq0 E0 KP KO.
  unfold lookup_okb in LK. destruct (glookup G) as [o| |] eqn:L; try discriminate.
  repeat (apply andb_true_iff in LK as [LK ?]).
  rename H into C5, H0 into C4, H1 into C3, H2 into C2. rename LK into C1.
  apply nodupb_NoDup in C1.
  assert (forall x, In x o -> In x (gelements G)) as Oel.
  { intros x Hx. rewrite forallb_forall in C2. apply memb_In. now apply C2. }
  unfold expand_keys. rewrite L.
  eapply (complete_loop u D G K o) with (pre := []); try reflexivity.
  - exact KP.
  - intros x Hx. apply KO. now apply Oel.
  - intros n Hn. now apply (partition_p u l G n HG).
  - intros x e p Hx F Hp. apply Oel in Hx. apply (elements_char_p u l G x HG) in Hx as (e' & He' & Hn' & Hinc).
    apply find_elem_some in F as [He Hn]. assert (e = e') as -> by (eapply elem_unique; eauto using wf_nodup; congruence).
    now apply Hinc.
  - intros x e _ F Hd. apply find_elem_some in F as [He Hn]. unfold dims_selfb in DS. rewrite forallb_forall in DS.
    specialize (DS e He). rewrite Hd in DS. simpl in DS. apply memb_In in DS. now rewrite Hn in DS.
  - intros l1 x l2 e p Ho F Hp Hne. rewrite forallb_forall in C4.
    assert (In x o) as Hx by (rewrite Ho; apply in_or_app; right; now left).
    specialize (C4 x Hx). rewrite F in C4. rewrite forallb_forall in C4. specialize (C4 p Hp).
    apply orb_true_iff in C4 as [C4|C4]; [apply String.eqb_eq in C4; contradiction|].
    apply andb_true_iff in C4 as [_ C4]. eapply before_in_prefix; eauto.
  - intros l1 d l2 Ho Hd. rewrite forallb_forall in C5. specialize (C5 d Hd).
    apply existsb_exists in C5 as (a & Ha & C5). apply andb_true_iff in C5 as [M B].
    unfold eimp_of in M. destruct (find_elem u a) as [ea|] eqn:Fa; [|discriminate].
    exists a, ea. repeat split; auto; [eapply before_in_prefix; eauto | now apply memb_In].
  - split; [exact E0|]. split; [exact Hreq0|]. intros ? ? ? [].
Qed.

(* two successful walks from bindings of one consistent assignment give that assignment on every name they bind:
   the expansion is determined by the stored rows *)
Lemma expand_unique_p u D G K k0 k1 recs n v :
  expand_keys u D G k0 = Ok (k1, recs) -> extends K k1 -> aget k1 n = Some v -> aget K n = Some v.
Proof. intros _ E H. now apply E. Qed.
