(* Lemmas about Model/DataId.v: values, association lists, ==/hash, standardize, subset, union.
   (expandDataId: Proofs/DataIdProofsExpand.v.) *)
From Coq Require Import String List Bool Arith ZArith Lia.
From V Require Import Model.Universe Model.DataId Proofs.GroupProofs.
Import ListNotations.
Open Scope string_scope.
Open Scope list_scope.

(* ---- values ---- *)
Lemma value_eqb_eq a b : value_eqb a b = true <-> a = b.
Proof.
  destruct a, b; simpl; split; intro H; try discriminate; try reflexivity.
  - apply Z.eqb_eq in H. now subst.
  - inversion H. apply Z.eqb_refl.
  - apply String.eqb_eq in H. now subst.
  - inversion H. apply String.eqb_refl.
Qed.

Lemma vals_eqb_eq a : forall b, vals_eqb a b = true <-> a = b.
Proof.
  induction a as [|x r IH]; destruct b as [|y s]; simpl; split; intro H; try discriminate; try reflexivity.
  - apply andb_true_iff in H as [H1 H2]. apply value_eqb_eq in H1. apply IH in H2. now subst.
  - inversion H; subst. apply andb_true_iff; split; [now apply value_eqb_eq | now apply IH].
Qed.

(* ---- association lists ---- *)
Lemma aget_app {A} (a b : list (string * A)) k :
  aget (a ++ b) k = match aget a k with Some v => Some v | None => aget b k end.
Proof.
  induction a as [|[k' v] r IH]; simpl; [reflexivity|]. destruct (String.eqb k' k); [reflexivity | exact IH].
Qed.

Lemma aget_In {A} (m : list (string * A)) k v : aget m k = Some v -> In (k, v) m.
Proof.
  induction m as [|[k' v'] r IH]; simpl; [discriminate|].
  destruct (String.eqb k' k) eqn:E.
  - intro H; inversion H; subst. apply String.eqb_eq in E; subst. now left.
  - intro H; right; now apply IH.
Qed.

Lemma aget_none_notin {A} (m : list (string * A)) k : aget m k = None <-> ~ In k (akeys m).
Proof.
  induction m as [|[k' v'] r IH]; simpl; [tauto|].
  destruct (String.eqb k' k) eqn:E.
  - apply String.eqb_eq in E; subst. split; [discriminate | intro H; exfalso; apply H; now left].
  - apply String.eqb_neq in E. rewrite IH. unfold akeys. simpl. tauto.
Qed.

Lemma has_key_In {A} (m : list (string * A)) k : has_key m k = true <-> In k (akeys m).
Proof.
  unfold has_key. destruct (aget m k) eqn:E.
  - split; [intros _ | reflexivity]. apply aget_In in E. unfold akeys. apply in_map_iff. now exists (k, a).
  - split; [discriminate|]. intro H. apply aget_none_notin in E. contradiction.
Qed.

Lemma map_opt_length {A B} (f : A -> option B) l : forall vs, map_opt f l = Some vs -> length vs = length l.
Proof.
  induction l as [|x r IH]; simpl; intros vs H.
  - inversion H; reflexivity.
  - destruct (f x); [|discriminate]. destruct (map_opt f r); [|discriminate]. inversion H; subst. simpl. f_equal. now apply IH.
Qed.

Lemma map_opt_total {A B} (f : A -> option B) l :
  (forall x, In x l -> exists y, f x = Some y) -> exists vs, map_opt f l = Some vs.
Proof.
  induction l as [|x r IH]; simpl; intro H; [now exists []|].
  destruct (H x (or_introl eq_refl)) as [y Hy]. rewrite Hy.
  destruct IH as [vs Hvs]; [intros z Hz; apply H; now right|]. rewrite Hvs. now eexists.
Qed.

Lemma map_opt_all {A B} (f : A -> option B) l vs : map_opt f l = Some vs -> forall x, In x l -> exists y, f x = Some y.
Proof.
  revert vs. induction l as [|x r IH]; simpl; intros vs H z Hz; [contradiction|].
  destruct (f x) eqn:E; [|discriminate]. destruct (map_opt f r) eqn:E2; [|discriminate].
  destruct Hz as [->|Hz]; [eexists; eassumption | eapply IH; eauto].
Qed.

Lemma map_opt_ext_in {A B} (f g : A -> option B) l : (forall x, In x l -> f x = g x) -> map_opt f l = map_opt g l.
Proof.
  induction l as [|x r IH]; simpl; intro H; [reflexivity|].
  rewrite (H x (or_introl eq_refl)). rewrite IH; [reflexivity|]. intros z Hz; apply H; now right.
Qed.

Lemma map_opt_app {A B} (f : A -> option B) a b vs :
  map_opt f (a ++ b) = Some vs ->
  exists va vb, map_opt f a = Some va /\ map_opt f b = Some vb /\ vs = va ++ vb.
Proof.
  revert vs. induction a as [|x r IH]; simpl; intros vs H.
  - exists [], vs. auto.
  - destruct (f x) eqn:E; [|discriminate]. destruct (map_opt f (r ++ b)) eqn:E2; [|discriminate].
    inversion H; subst. destruct (IH _ eq_refl) as (va & vb & Ha & Hb & ->).
    rewrite Ha. exists (b0 :: va), vb. auto.
Qed.

(* looking a key up in `combine keys values` when the values were computed from the keys *)
Lemma aget_combine_map_opt (f : string -> option value) l : forall vs k,
  map_opt f l = Some vs -> aget (combine l vs) k = if memb k l then f k else None.
Proof.
  induction l as [|x r IH]; simpl; intros vs k H.
  - inversion H; reflexivity.
  - destruct (f x) eqn:E; [|discriminate]. destruct (map_opt f r) eqn:E2; [|discriminate].
    inversion H; subst. simpl. rewrite (String.eqb_sym k x).
    destruct (String.eqb x k) eqn:Ek; simpl.
    + apply String.eqb_eq in Ek; subst. now rewrite E.
    + now apply IH.
Qed.

Lemma aget_combine_firstn (l : list string) : forall (vs : list value) n k v,
  aget (combine l (firstn n vs)) k = Some v -> aget (combine l vs) k = Some v.
Proof.
  induction l as [|x r IH]; simpl; intros vs n k v H; [discriminate|].
  destruct n; simpl in H; [discriminate|]. destruct vs as [|y ys]; simpl in *; [discriminate|].
  destruct (String.eqb x k); [exact H | eapply IH; eauto].
Qed.

(* ---- groups ---- *)
Lemma dck_required_incl G : incl (grequired G) (data_coordinate_keys G).
Proof. unfold data_coordinate_keys. intros x H. apply in_or_app. now left. Qed.

Lemma group_parts u l G : mkgroup u l = GOk G ->
  grequired G = required_of u (gnames G) /\ gimplied G = implied_of u (gnames G).
Proof. intro H. apply mkgroup_inv in H as (C & _ & ->). simpl. auto. Qed.

Lemma dck_incl_names u l G : mkgroup u l = GOk G -> incl (data_coordinate_keys G) (gnames G).
Proof.
  intro H. destruct (group_parts _ _ _ H) as [Hr Hi]. unfold data_coordinate_keys. rewrite Hr, Hi.
  intros x Hx. apply in_app_or in Hx as [Hx|Hx]; apply filter_In in Hx; tauto.
Qed.

Lemma names_incl_dck u l G : mkgroup u l = GOk G -> incl (gnames G) (data_coordinate_keys G).
Proof.
  intros H x Hx. pose proof (partition_p u l G x H) as [P _]. apply P in Hx.
  unfold data_coordinate_keys. apply in_or_app. exact Hx.
Qed.

(* ---- == and hash ---- *)
Lemma dc_eq_spec a b :
  dc_eq a b = true <-> gnames (dgroup a) = gnames (dgroup b) /\ required_values a = required_values b.
Proof.
  unfold dc_eq, geqb. rewrite andb_true_iff, list_eqb_eq, vals_eqb_eq. tauto.
Qed.

Lemma dc_eq_refl a : dc_eq a a = true.
Proof. apply dc_eq_spec; auto. Qed.
Lemma dc_eq_sym a b : dc_eq a b = dc_eq b a.
Proof. apply bool_iff. rewrite !dc_eq_spec. intuition congruence. Qed.
Lemma dc_eq_trans a b c : dc_eq a b = true -> dc_eq b c = true -> dc_eq a c = true.
Proof. rewrite !dc_eq_spec. intuition congruence. Qed.

Lemma hash_respects_eq_p u la lb a b :
  mkgroup u la = GOk (dgroup a) -> mkgroup u lb = GOk (dgroup b) ->
  dc_eq a b = true -> dc_hash_key a = dc_hash_key b.
Proof.
  intros Ha Hb H. apply dc_eq_spec in H as [Hn Hv].
  assert (dgroup a = dgroup b) as E.
  { eapply group_ext; eauto. intro x. now rewrite Hn. }
  unfold dc_hash_key. now rewrite E, Hv.
Qed.

Lemma hash_injective_p u la lb a b : wf_universe u = true ->
  mkgroup u la = GOk (dgroup a) -> mkgroup u lb = GOk (dgroup b) ->
  dc_hash_key a = dc_hash_key b -> dc_eq a b = true.
Proof.
  intros W Ha Hb H. unfold dc_hash_key in H. inversion H as [[H1 H2]].
  apply dc_eq_spec. split; [|exact H2]. eapply hash_spec; eauto.
Qed.

(* ---- standardize ---- *)
Lemma from_values_group G vs : dgroup (from_values G vs) = G.
Proof. unfold from_values. destruct (is_nil (gnames G)); reflexivity. Qed.

Lemma from_values_mapping G vs k v :
  dc_get (from_values G vs) k = Some v -> aget (combine (data_coordinate_keys G) vs) k = Some v.
Proof.
  unfold from_values, dc_get, dmapping. destruct (is_nil (gnames G)); simpl; [|auto].
  destruct (data_coordinate_keys G); simpl; discriminate.
Qed.

Lemma std_core_inv G m d : std_core G m = Ok d ->
  dgroup d = G /\
  (is_nil (gnames G) = true /\ d = make_empty G \/
   is_nil (gnames G) = false /\ exists ks vs, d = {| dgroup := G; dvals := vs; drecs := None |} /\ map_opt (aget m) ks = Some vs /\
     (ks = data_coordinate_keys G /\ forallb (has_key m) (gnames G) = true \/
      ks = grequired G /\ forallb (has_key m) (gnames G) = false)).
Proof.
  unfold std_core. destruct (is_nil (gnames G)) eqn:N.
  - intro H; inversion H; subst. split; [reflexivity | left; auto].
  - destruct (forallb (has_key m) (gnames G)) eqn:F;
      (match goal with |- context [map_opt ?f ?l] => destruct (map_opt f l) as [vs|] eqn:M end; [|discriminate]);
      intro H; inversion H; subst; unfold from_values; rewrite N; split; try reflexivity; right; split; try reflexivity;
      eexists _, vs; split; try reflexivity; split; eauto.
Qed.

(* every value of the result is the value the mapping gives for that key *)
Lemma std_core_restricts G m d k v : std_core G m = Ok d -> dc_get d k = Some v -> aget m k = Some v.
Proof.
  intros H Hg. apply std_core_inv in H as [_ [[_ ->] | [_ (ks & vs & -> & M & Hk)]]].
  - unfold dc_get, dmapping in Hg. simpl in Hg. destruct (data_coordinate_keys G); discriminate.
  - unfold dc_get, dmapping in Hg. simpl in Hg.
    destruct Hk as [[-> _] | [-> _]].
    + rewrite (aget_combine_map_opt _ _ _ _ M) in Hg. destruct (memb k (data_coordinate_keys G)); [exact Hg | discriminate].
    + unfold data_coordinate_keys in Hg.
      assert (length vs = length (grequired G)) as L by (eapply map_opt_length; eauto).
      assert (combine (grequired G ++ gimplied G) vs = combine (grequired G) vs) as C.
      { clear -L. revert vs L. induction (grequired G) as [|x r IH]; intros vs L; destruct vs; simpl in *; try discriminate; try reflexivity.
        - destruct (gimplied G); reflexivity.
        - f_equal. apply IH. lia. }
      rewrite C in Hg. rewrite (aget_combine_map_opt _ _ _ _ M) in Hg. destruct (memb k (grequired G)); [exact Hg | discriminate].
Qed.

Lemma combine_app_left (a b : list string) (vs : list value) : length vs = length a -> combine (a ++ b) vs = combine a vs.
Proof.
  revert vs. induction a as [|x r IH]; intros vs L; destruct vs; simpl in *; try discriminate; try reflexivity.
  - destruct b; reflexivity.
  - f_equal. apply IH. lia.
Qed.

(* every required dimension of the group has, in the result, exactly the mapping's value *)
Lemma std_core_required u l G m d k : mkgroup u l = GOk G -> std_core G m = Ok d -> In k (grequired G) ->
  dc_get d k = aget m k /\ exists v, aget m k = Some v.
Proof.
  intros HG H Hk. apply std_core_inv in H as [_ [[N ->] | [_ (ks & vs & -> & M & Hks)]]].
  - exfalso. destruct (group_parts _ _ _ HG) as [Hr _]. rewrite Hr in Hk. apply filter_In in Hk as [Hk _].
    destruct (gnames G); [contradiction | discriminate].
  - unfold dc_get, dmapping. simpl.
    destruct Hks as [[-> _] | [-> _]].
    + rewrite (aget_combine_map_opt _ _ _ _ M).
      assert (memb k (data_coordinate_keys G) = true) as Hm by (apply memb_In; now apply dck_required_incl).
      rewrite Hm. split; [reflexivity|]. eapply map_opt_all; eauto. now apply dck_required_incl.
    + unfold data_coordinate_keys. rewrite combine_app_left by (eapply map_opt_length; eauto).
      rewrite (aget_combine_map_opt _ _ _ _ M).
      assert (memb k (grequired G) = true) as Hm by now apply memb_In.
      rewrite Hm. split; [reflexivity|]. eapply map_opt_all; eauto.
Qed.

Lemma std_core_ok_iff u l G m : mkgroup u l = GOk G ->
  ((exists d, std_core G m = Ok d) <-> forall k, In k (grequired G) -> has_key m k = true).
Proof.
  intro HG. split.
  - intros [d H] k Hk. destruct (std_core_required _ _ _ _ _ _ HG H Hk) as [_ [v Hv]]. unfold has_key. now rewrite Hv.
  - intro Hreq. unfold std_core. destruct (is_nil (gnames G)); [now eexists|].
    destruct (forallb (has_key m) (gnames G)) eqn:F.
    + destruct (map_opt_total (aget m) (data_coordinate_keys G)) as [vs Hvs].
      { intros x Hx. apply (dck_incl_names _ _ _ HG) in Hx. rewrite forallb_forall in F. specialize (F x Hx).
        unfold has_key in F. destruct (aget m x); [now eexists | discriminate]. }
      rewrite Hvs. now eexists.
    + destruct (map_opt_total (aget m) (grequired G)) as [vs Hvs].
      { intros x Hx. specialize (Hreq x Hx). unfold has_key in Hreq. destruct (aget m x); [now eexists | discriminate]. }
      rewrite Hvs. now eexists.
Qed.

(* fullness: the result carries a value for every dimension exactly when the mapping names them all *)
Lemma std_core_full u l G m d : mkgroup u l = GOk G -> std_core G m = Ok d ->
  (forall k, In k (gnames G) -> has_key m k = true) -> forall k, In k (gnames G) -> dc_get d k = aget m k.
Proof.
  intros HG H Hall k Hk. apply std_core_inv in H as [_ [[N ->] | [_ (ks & vs & -> & M & Hks)]]].
  - destruct (gnames G); [contradiction | discriminate].
  - destruct Hks as [[-> _] | [_ F]].
    + unfold dc_get, dmapping. simpl. rewrite (aget_combine_map_opt _ _ _ _ M).
      assert (memb k (data_coordinate_keys G) = true) as Hm by (apply memb_In; eapply names_incl_dck; eauto).
      now rewrite Hm.
    + exfalso. assert (forallb (has_key m) (gnames G) = true) by (apply forallb_forall; exact Hall). congruence.
Qed.

Lemma conform_ok u l G : conform u l = Ok G <-> mkgroup u l = GOk G.
Proof. unfold conform. destruct (mkgroup u l); split; intro H; inversion H; reflexivity. Qed.

Lemma conform_id_ok u l G : conform_id u l = Ok G <-> mkgroup u l = GOk G.
Proof. unfold conform_id. destruct (mkgroup u l); split; intro H; inversion H; reflexivity. Qed.

Lemma standardize_inv u dims mp kw df d : standardize u dims mp kw df = Ok d ->
  exists G, mkgroup u (match dims with Some l => l | None => akeys (kw ++ mp) end) = GOk G /\ std_core G ((kw ++ mp) ++ df) = Ok d.
Proof.
  unfold standardize, standardize_with. intro H. destruct (conform_id u _) as [G|] eqn:C; simpl in H; [|discriminate].
  exists G. split; [now apply conform_id_ok | exact H].
Qed.

(* two mappings that give the same value to every key standardize to the same data ID: order of the entries,
   the mapping / keyword split and shadowed duplicates are irrelevant *)
Lemma std_core_ext G m1 m2 : (forall k, aget m1 k = aget m2 k) -> std_core G m1 = std_core G m2.
Proof.
  intro E. unfold std_core.
  assert (forallb (has_key m1) (gnames G) = forallb (has_key m2) (gnames G)) as F.
  { induction (gnames G) as [|k r IH]; simpl; [reflexivity|]. rewrite IH. unfold has_key. now rewrite E. }
  rewrite F. destruct (is_nil (gnames G)); [reflexivity|].
  rewrite (map_opt_ext_in (aget m1) (aget m2)); [reflexivity | intros; apply E].
Qed.

(* required values of a standardized data ID *)
Lemma required_values_std u l G m d : mkgroup u l = GOk G -> std_core G m = Ok d ->
  map_opt (aget m) (grequired G) = Some (required_values d).
Proof.
  intros HG H. apply std_core_inv in H as [_ [[N ->] | [_ (ks & vs & -> & M & Hks)]]].
  - destruct (group_parts _ _ _ HG) as [Hr _]. unfold required_values. simpl. rewrite Hr.
    destruct (gnames G); [reflexivity | discriminate].
  - unfold required_values. simpl. destruct Hks as [[-> _] | [-> _]].
    + unfold data_coordinate_keys in M. apply map_opt_app in M as (va & vb & Ha & Hb & ->).
      rewrite Ha. f_equal. rewrite <- (map_opt_length _ _ _ Ha). now rewrite firstn_app, Nat.sub_diag, firstn_all, app_nil_r.
    + rewrite M. f_equal. rewrite <- (map_opt_length _ _ _ M). now rewrite firstn_all.
Qed.

Lemma map_opt_eq_iff (f g : string -> option value) l va vb :
  map_opt f l = Some va -> map_opt g l = Some vb -> (va = vb <-> forall k, In k l -> f k = g k).
Proof.
  revert va vb. induction l as [|x r IH]; simpl; intros va vb Ha Hb.
  - inversion Ha; inversion Hb; subst. split; [intros _ k [] | reflexivity].
  - destruct (f x) eqn:Ef; [|discriminate]. destruct (map_opt f r) eqn:Mf; [|discriminate].
    destruct (g x) eqn:Eg; [|discriminate]. destruct (map_opt g r) eqn:Mg; [|discriminate].
    inversion Ha; inversion Hb; subst. specialize (IH _ _ eq_refl eq_refl). split.
    + intros E k [<-|Hk]; inversion E; subst; [congruence | now apply IH].
    + intro E. f_equal.
      * specialize (E x (or_introl eq_refl)). congruence.
      * apply IH. intros k Hk. apply E. now right.
Qed.

(* == between standardized data IDs of one group: exactly agreement of the two mappings on the required dimensions *)
Lemma std_eq_iff u l G m1 m2 a b : mkgroup u l = GOk G -> std_core G m1 = Ok a -> std_core G m2 = Ok b ->
  (dc_eq a b = true <-> forall k, In k (grequired G) -> aget m1 k = aget m2 k).
Proof.
  intros HG Ha Hb. rewrite dc_eq_spec.
  destruct (std_core_inv _ _ _ Ha) as [Ga _]. destruct (std_core_inv _ _ _ Hb) as [Gb _]. rewrite Ga, Gb.
  pose proof (required_values_std _ _ _ _ _ HG Ha) as Ra. pose proof (required_values_std _ _ _ _ _ HG Hb) as Rb.
  rewrite (map_opt_eq_iff _ _ _ _ _ Ra Rb). tauto.
Qed.

(* ---- statements about `standardize` itself ---- *)
Definition merged (mp kw df : amap) : amap := (kw ++ mp) ++ df.

Lemma standardize_restricts_p u dims mp kw df d k v :
  standardize u dims mp kw df = Ok d -> dc_get d k = Some v -> aget (merged mp kw df) k = Some v.
Proof. intros H Hg. apply standardize_inv in H as (G & _ & H). eapply std_core_restricts; eauto. Qed.

Lemma standardize_required_p u dims mp kw df d k :
  standardize u dims mp kw df = Ok d -> In k (grequired (dgroup d)) ->
  dc_get d k = aget (merged mp kw df) k /\ exists v, dc_get d k = Some v.
Proof.
  intros H Hk. apply standardize_inv in H as (G & HG & H).
  destruct (std_core_inv _ _ _ H) as [EG _]. rewrite EG in Hk.
  destruct (std_core_required _ _ _ _ _ _ HG H Hk) as [E1 [v E2]]. split; [exact E1|]. exists v. now rewrite E1.
Qed.

Lemma standardize_dims_p u l mp kw df d : standardize u (Some l) mp kw df = Ok d -> mkgroup u l = GOk (dgroup d).
Proof. intro H. apply standardize_inv in H as (G & HG & H). destruct (std_core_inv _ _ _ H) as [-> _]. exact HG. Qed.

Lemma standardize_ok_iff_p u l mp kw df :
  (exists d, standardize u (Some l) mp kw df = Ok d) <->
  exists G, mkgroup u l = GOk G /\ forall k, In k (grequired G) -> has_key (merged mp kw df) k = true.
Proof.
  split.
  - intros [d H]. apply standardize_inv in H as (G & HG & H). exists G. split; [exact HG|].
    apply (std_core_ok_iff _ _ _ _ HG). now exists d.
  - intros (G & HG & Hr). apply (std_core_ok_iff _ _ _ ((kw ++ mp) ++ df) HG) in Hr as [d Hd].
    exists d. unfold standardize, standardize_with. apply conform_id_ok in HG. rewrite HG. exact Hd.
Qed.

Lemma standardize_full_p u dims mp kw df d :
  standardize u dims mp kw df = Ok d ->
  (forall k, In k (gnames (dgroup d)) -> has_key (merged mp kw df) k = true) ->
  forall k, In k (gnames (dgroup d)) -> dc_get d k = aget (merged mp kw df) k.
Proof.
  intros H Hall k Hk. apply standardize_inv in H as (G & HG & H).
  destruct (std_core_inv _ _ _ H) as [EG _]. rewrite EG in *. eapply std_core_full; eauto.
Qed.

(* the same key -> value function, spelled differently (entry order, mapping / keyword split, shadowed
   duplicates, where a default is overridden): the SAME data ID *)
Lemma standardize_spelling_p u l mp1 kw1 df1 mp2 kw2 df2 :
  (forall k, aget (merged mp1 kw1 df1) k = aget (merged mp2 kw2 df2) k) ->
  standardize u (Some l) mp1 kw1 df1 = standardize u (Some l) mp2 kw2 df2.
Proof.
  intro E. unfold standardize, standardize_with. destruct (conform_id u l); simpl; [|reflexivity]. now apply std_core_ext.
Qed.

(* == of two standardized data IDs over the same dimensions: agreement on the required dimensions, nothing else *)
Lemma standardize_eq_p u l mp1 kw1 df1 mp2 kw2 df2 a b :
  standardize u (Some l) mp1 kw1 df1 = Ok a -> standardize u (Some l) mp2 kw2 df2 = Ok b ->
  (dc_eq a b = true <->
   forall k, In k (grequired (dgroup a)) -> aget (merged mp1 kw1 df1) k = aget (merged mp2 kw2 df2) k).
Proof.
  intros Ha Hb. apply standardize_inv in Ha as (G & HG & Ha). apply standardize_inv in Hb as (G' & HG' & Hb).
  rewrite HG in HG'. inversion HG'; subst G'. destruct (std_core_inv _ _ _ Ha) as [-> _].
  eapply std_eq_iff; eauto.
Qed.

(* ---- subset ---- *)
Lemma values_for_inv d T ks s : values_for d T ks = Ok s ->
  dgroup s = T /\ forall k v, aget (combine ks (dvals s)) k = Some v -> dc_get d k = Some v.
Proof.
  unfold values_for. destruct (map_opt (dc_get d) ks) as [vs|] eqn:M; [|discriminate].
  intro H; inversion H; subst. split; [apply from_values_group|].
  intros k v Hk. unfold from_values in Hk. destruct (is_nil (gnames T)); simpl in Hk.
  - destruct ks; discriminate.
  - rewrite (aget_combine_map_opt _ _ _ _ M) in Hk. destruct (memb k ks); [exact Hk | discriminate].
Qed.

Lemma expanded_with_values s r s' : expanded_with s r = Ok s' -> dfull s = true -> dgroup s' = dgroup s /\ dvals s' = dvals s.
Proof.
  unfold expanded_with. destruct (drecs s); [intro H; inversion H; auto|]. intros H F. rewrite F in H. inversion H; auto.
Qed.

Lemma combine_nil_r {A B} (l : list A) : combine l (@nil B) = [].
Proof. destruct l; reflexivity. Qed.

Lemma values_for_inv_pad d T ks rest s : values_for d T ks = Ok s ->
  dgroup s = T /\ forall k v, aget (combine (ks ++ rest) (dvals s)) k = Some v -> dc_get d k = Some v.
Proof.
  unfold values_for. destruct (map_opt (dc_get d) ks) as [vs|] eqn:M; [|discriminate].
  intro H; inversion H; subst. split; [apply from_values_group|].
  intros k v Hk. unfold from_values in Hk. destruct (is_nil (gnames T)); simpl in Hk.
  - rewrite combine_nil_r in Hk. discriminate.
  - rewrite combine_app_left in Hk by (eapply map_opt_length; eauto).
    rewrite (aget_combine_map_opt _ _ _ _ M) in Hk. destruct (memb k ks); [exact Hk | discriminate].
Qed.

(* subset of a data ID without attached records: the requested dimensions, and only values of the source *)
Lemma subset_plain_p u d l s : drecs d = None -> subset u d l = Ok s ->
  exists T, mkgroup u l = GOk T /\ gnames (dgroup s) = gnames T /\
    forall k v, dc_get s k = Some v -> dc_get d k = Some v.
Proof.
  intros R H. unfold subset in H. destruct (conform u l) as [T|] eqn:C; simpl in H; [|discriminate].
  apply conform_ok in C. exists T. split; [exact C|].
  destruct (geqb (dgroup d) T) eqn:Eg.
  - inversion H; subst. split; [now apply list_eqb_eq in Eg | auto].
  - rewrite R in H.
    destruct (dfull d || forallb (fun n => memb n (grequired (dgroup d))) (gnames T)).
    + pose proof (values_for_inv_pad d T (data_coordinate_keys T) [] s) as P. rewrite app_nil_r in P.
      destruct (P H) as [E Hv]. split; [now rewrite E|]. intros k v Hk. apply Hv.
      unfold dc_get, dmapping in Hk. now rewrite E in Hk.
    + destruct (values_for_inv_pad d T (grequired T) (gimplied T) s H) as [E Hv]. split; [now rewrite E|].
      intros k v Hk. apply Hv. unfold dc_get, dmapping in Hk. now rewrite E in Hk.
Qed.

(* union of two data IDs without attached records: the union of the dimensions, and every value is a value of one of
   the operands (the second operand's when both have the key and the dictionaries are merged) *)
Lemma union_plain_p u a b c : drecs a = None -> union u a b = Ok c ->
  exists G, gunion u (dgroup a) (dgroup b) = GOk G /\ gnames (dgroup c) = gnames G /\
    forall k v, dc_get c k = Some v -> dc_get b k = Some v \/ dc_get a k = Some v.
Proof.
  intros R H. unfold union in H. destruct (gunion u (dgroup a) (dgroup b)) as [G| |] eqn:U; simpl in H; try discriminate.
  exists G. split; [reflexivity|]. rewrite R in H.
  assert (forall c, std_core G (dmapping b ++ dmapping a) = Ok c ->
            gnames (dgroup c) = gnames G /\ forall k v, dc_get c k = Some v -> dc_get b k = Some v \/ dc_get a k = Some v) as M.
  { intros c0 Hc. destruct (std_core_inv _ _ _ Hc) as [-> _]. split; [reflexivity|].
    intros k v Hk. apply (std_core_restricts _ _ _ _ _ Hc) in Hk. rewrite aget_app in Hk.
    unfold dc_get. destruct (aget (dmapping b) k); [left; exact Hk | right; exact Hk]. }
  destruct (dfull a).
  - destruct (geqb (dgroup b) G && has_recs b) eqn:E1.
    + inversion H; subst. apply andb_true_iff in E1 as [E1 _]. apply list_eqb_eq in E1. split; [exact E1 | auto].
    + destruct (geqb (dgroup a) G && negb (has_recs b)) eqn:E2.
      * inversion H; subst. apply andb_true_iff in E2 as [E2 _]. apply list_eqb_eq in E2. split; [exact E2 | auto].
      * now apply M.
  - destruct (geqb (dgroup b) G) eqn:E1.
    + inversion H; subst. apply list_eqb_eq in E1. split; [exact E1 | auto].
    + now apply M.
Qed.

(* union never fails on data IDs of mkgroup'd groups that carry their required values (no records attached) *)
