(* C09 (extension 3, a79f022): the write-time rule.  Records CREATED by put / ingest lead back to the location that was
   written; for histories from the empty record table every relative record resolves inside the root, so no row can block
   emptyTrash. *)
From Coq Require Import String Ascii List Bool NArith Lia.
From V Require Import Model.Template Model.Trash Model.TrashCheck Proofs.TrashProofs Proofs.TrashProofs2 Proofs.TrashProofs3
                      Proofs.TrashProofsX1 Proofs.TrashProofsX2.
Import ListNotations.
Open Scope string_scope.

Definition row_ok (r : N * string) : bool := is_abs (snd r) || inside (loc (snd r)).

Lemma recs_inside_unfold : forall s, recs_inside s = forallb row_ok (recs s).
Proof. reflexivity. Qed.

Lemma forallb_app_intro : forall (A : Type) (P : A -> bool) a b, forallb P a = true -> forallb P b = true -> forallb P (a ++ b)%list = true.
Proof. intros A P a b Ha Hb. rewrite forallb_app. rewrite Ha, Hb. reflexivity. Qed.

Lemma forallb_filter : forall (A : Type) (P q : A -> bool) l, forallb P l = true -> forallb P (filter q l) = true.
Proof.
  induction l as [|x r IH]; intro H; [reflexivity|]. simpl in H. apply andb_true_iff in H. destruct H as [Hx Hr].
  simpl. destruct (q x); [simpl; rewrite Hx; apply IH; exact Hr | apply IH; exact Hr].
Qed.

Lemma forallb_partition : forall (A : Type) (P q : A -> bool) l a b,
  partition q l = (a, b) -> forallb P l = true -> forallb P a = true /\ forallb P b = true.
Proof.
  induction l as [|x r IH]; intros a b Hp H; simpl in Hp.
  - inversion Hp; subst. split; reflexivity.
  - simpl in H. apply andb_true_iff in H. destruct H as [Hx Hr].
    destruct (partition q r) as [a0 b0] eqn:E. destruct (IH a0 b0 eq_refl Hr) as [Ha Hb].
    destruct (q x); inversion Hp; subst; simpl; [rewrite Hx | rewrite Hx]; split; assumption.
Qed.

Lemma forallb_pick_rows : forall P ids rows a b,
  pick_rows ids rows = (a, b) -> forallb P rows = true -> forallb P a = true /\ forallb P b = true.
Proof.
  induction ids as [|id r IH]; intros rows a b Hp H; simpl in Hp.
  - inversion Hp; subst. split; [reflexivity | exact H].
  - destruct (partition (fun x => N.eqb (fst x) id) rows) as [a0 b0] eqn:E.
    destruct (forallb_partition _ P _ _ _ _ E H) as [Ha0 Hb0].
    destruct (pick_rows r b0) as [a1 b1] eqn:E1. destruct (IH _ _ _ E1 Hb0) as [Ha1 Hb1].
    inversion Hp; subst. split; [apply forallb_app_intro; assumption | exact Hb1].
Qed.

Lemma forallb_reorder : forall P rows ids, forallb P rows = true -> forallb P (reorder rows ids) = true.
Proof.
  intros P rows ids H. unfold reorder. destruct (pick_rows ids rows) as [a b] eqn:E.
  destruct (forallb_pick_rows P _ _ _ _ E H) as [Ha Hb].
  apply forallb_app_intro; [exact Ha|]. apply forallb_app_intro; apply forallb_filter; exact Hb.
Qed.

Lemma forallb_map_const : forall (ids : list N) (t : string), row_ok (0%N, t) = true ->
  forallb row_ok (map (fun id => (id, t)) ids) = true.
Proof. induction ids as [|i r IH]; intros t H; [reflexivity|]. simpl. unfold row_ok in *. simpl in *. rewrite H. apply IH. exact H. Qed.

Lemma recs_inside_empty_trash_v : forall s, recs_inside s = true -> recs_inside (fst (empty_trash_v true s)) = true.
Proof.
  intros s H. unfold empty_trash_v. destruct (delete_upto s (trashed_recs s) (fs s)) as [f b].
  destruct b; cbn [fst]; [|exact H].
  rewrite recs_inside_unfold in *. cbn [recs]. apply forallb_filter. exact H.
Qed.

(* one step keeps "every relative record resolves inside the root" when the operation's own records do *)
Lemma recs_inside_step_p : forall s x, recs_inside s = true -> op_recs_ok x = true -> recs_inside (fst (step s x)) = true.
Proof.
  intros s x H Hok.
  destruct x as [id fr ext c0 | m ids fr ext src | ids a | ids rel | members z c0 | ids | | ids | ids | l' c' | rids];
    unfold step, step_v.
  - destruct fr as [p| |]; try exact H. simpl in Hok.
    destruct (refuse_w true true p) eqn:R; [exact H|]. destruct (held_any s [id]); [exact H|].
    cbv zeta. destruct (inside (target_loc p ext)) eqn:Hi; [|exact H].
    simpl in Hok.
    destruct (fget (fset (fs s) (write_loc p ext) c0) (loc (join_slash (target_loc p ext)))); [|exact H].
    cbn [fst]. rewrite recs_inside_unfold in *. cbn [recs add_recs]. simpl. unfold row_ok at 1. cbn [snd].
    fold (put_record p ext). rewrite Hok. rewrite orb_true_r. exact H.
  - destruct (true && held_any s ids && match fget (fs s) src with Some _ => true | None => false end); [exact H|].
    destruct fr as [p| |]; try exact H. simpl in Hok.
    destruct (fget (fs s) src); [|exact H].
    destruct (refuse_w true true p) eqn:R; [exact H|]. simpl in Hok.
    cbv zeta. destruct (held_any s ids); [exact H|].
    cbn [fst]. rewrite recs_inside_unfold in *. cbn [recs add_recs]. apply forallb_app_intro; [|exact H].
    apply forallb_map_const. unfold row_ok. cbn [snd]. rewrite Hok. apply orb_true_r.
  - simpl in Hok. destruct (fget (fs s) (abs_loc a)); [|exact H]. destruct (held_any s ids); [exact H|].
    cbn [fst]. rewrite recs_inside_unfold in *. cbn [recs add_recs]. apply forallb_app_intro; [|exact H].
    apply forallb_map_const. exact Hok.
  - simpl in Hok. cbv zeta. destruct (negb (inside (rel_loc (stage_a rel)))); [exact H|].
    destruct (fget (fs s) (rel_loc (stage_a rel))); [|exact H]. destruct (held_any s ids); [exact H|].
    cbn [fst]. rewrite recs_inside_unfold in *. cbn [recs add_recs]. apply forallb_app_intro; [|exact H].
    apply forallb_map_const. unfold row_ok. cbn [snd]. rewrite Hok. apply orb_true_r.
  - simpl in Hok. cbv zeta. destruct (true && held_any s (map fst members)); [exact H|].
    destruct (held_any s (map fst members)); [exact H|].
    cbn [fst]. rewrite recs_inside_unfold in *. cbn [recs add_recs]. apply forallb_app_intro; [|exact H].
    clear -Hok. induction members as [|mm r IH]; [reflexivity|]. simpl in *. apply andb_true_iff in Hok. destruct Hok as [H1 H2].
    unfold row_ok at 1. cbn [snd]. rewrite H1. rewrite orb_true_r. apply IH. exact H2.
  - exact H.
  - apply recs_inside_empty_trash_v. exact H.
  - apply (recs_inside_empty_trash_v (do_trash s ids)). exact H.
  - apply (recs_inside_empty_trash_v (do_trash s ids)). exact H.
  - exact H.
  - cbn [fst]. rewrite recs_inside_unfold in *. cbn [recs]. apply forallb_reorder. exact H.
Qed.

Lemma recs_inside_run_p : forall h s, forallb op_recs_ok h = true -> recs_inside s = true -> recs_inside (run s h) = true.
Proof.
  induction h as [|x r IH]; intros s Hok H; [exact H|]. simpl in Hok. apply andb_true_iff in Hok. destruct Hok as [H1 H2].
  rewrite run_cons. apply IH; [exact H2 | apply recs_inside_step_p; assumption].
Qed.

(* no row can stop emptyTrash when every relative record resolves inside the root *)
Lemma recs_inside_no_poison : forall s r, recs_inside s = true -> In r (recs s) -> poison s (snd r) = false.
Proof.
  intros s r H Hin. rewrite recs_inside_unfold in H. rewrite forallb_forall in H. specialize (H _ Hin).
  unfold row_ok in H. unfold poison, deletes. destruct (is_abs (snd r)); [simpl; rewrite andb_false_r; reflexivity|].
  simpl in H. rewrite H. simpl. rewrite andb_false_r. reflexivity.
Qed.

Lemma delete_upto_completes : forall s rows f, (forall r, In r rows -> poison s (snd r) = false) -> snd (delete_upto s rows f) = true.
Proof.
  induction rows as [|r rest IH]; intros f H; [reflexivity|]. simpl. rewrite (H r (or_introl eq_refl)).
  apply IH. intros r' Hin. apply H. right. exact Hin.
Qed.

Lemma empty_trash_not_blocked : forall s, recs_inside s = true -> snd (empty_trash_v true s) = Done.
Proof.
  intros s H. unfold empty_trash_v.
  pose proof (delete_upto_completes s (trashed_recs s) (fs s)) as K.
  destruct (delete_upto s (trashed_recs s) (fs s)) as [f b]. simpl in K.
  rewrite K; [reflexivity|]. intros r Hin. apply (recs_inside_no_poison s r H).
  unfold trashed_recs in Hin. apply filter_In in Hin. destruct Hin as [Hin _]. exact Hin.
Qed.

Lemma no_poisoned_rows_all_histories_p : forall files h,
  forallb op_recs_ok h = true ->
  let s := run (init_state files) h in
    recs_inside s = true
    /\ (forall r, In r (recs s) -> poison s (snd r) = false)
    /\ snd (step s EmptyTrash) = Done
    /\ (forall ids, snd (step s (Prune ids)) = Done /\ snd (step s (RemoveRun ids)) = Done).
Proof.
  intros files h Hok s.
  assert (H : recs_inside s = true) by (apply recs_inside_run_p; [exact Hok | reflexivity]).
  split; [exact H|]. split; [intros r Hin; apply recs_inside_no_poison; assumption|].
  split; [apply empty_trash_not_blocked; exact H|].
  intro ids. split; apply (empty_trash_not_blocked (do_trash s ids)); exact H.
Qed.

(* ---- records created by ingest / put lead back to the written location ------------------------------------------------------ *)
Lemma created_records_lead_back_ingest_p : forall s m ids p ext src s',
  step s (Ingest m ids (FOk p) ext src) = (s', Done) -> good_ext ext = true -> ingest_leads_back p ext = true ->
  write_rule p = true
  /\ (forall id, In id ids -> In (id, target_text p ext) (recs s'))
  /\ loc (target_text p ext) = target_loc p ext
  /\ inside (target_loc p ext) = true
  /\ fget (fs s') (target_loc p ext) <> None.
Proof.
  intros s m ids p ext src s' H Hg Hl. unfold step, step_v in H.
  destruct (true && held_any s ids && match fget (fs s) src with Some _ => true | None => false end); [discriminate|].
  destruct (fget (fs s) src) as [c|]; [|discriminate].
  destruct (refuse_w true true p) eqn:R; [discriminate|].
  cbv zeta in H. destruct (held_any s ids); [discriminate|].
  injection H as H. subst s'.
  pose proof (refuse_false_checked p R) as Hc.
  unfold refuse_w in R. apply orb_false_iff in R. destruct R as [_ R]. simpl in R. apply negb_false_iff in R.
  split; [exact R|]. split.
  - intros id Hin. cbn [recs add_recs]. apply in_or_app. left. apply (in_map (fun i => (i, target_text p ext)) ids id Hin).
  - split; [apply lkey_eqb_eq; exact Hl|]. split; [apply writes_inside_root_p; assumption|].
    cbn [fs add_recs]. rewrite fget_fset_same. discriminate.
Qed.

Lemma created_records_lead_back_put_p : forall s id p ext c s',
  step s (Put id (FOk p) ext c) = (s', Done) -> good_ext ext = true -> put_leads_back p ext = true ->
  write_rule p = true
  /\ In (id, put_record p ext) (recs s')
  /\ loc (put_record p ext) = target_loc p ext
  /\ inside (target_loc p ext) = true.
Proof.
  intros s id p ext c s' H Hg Hl. unfold step, step_v in H.
  destruct (refuse_w true true p) eqn:R; [discriminate|]. destruct (held_any s [id]); [discriminate|].
  cbv zeta in H. destruct (inside (target_loc p ext)) eqn:Hi; [|discriminate].
  destruct (fget (fset (fs s) (write_loc p ext) c) (loc (join_slash (target_loc p ext)))); [|discriminate].
  injection H as H. subst s'.
  unfold refuse_w in R. apply orb_false_iff in R. destruct R as [_ R]. simpl in R. apply negb_false_iff in R.
  split; [exact R|]. split; [cbn [recs add_recs]; left; reflexivity|].
  split; [apply lkey_eqb_eq; exact Hl | reflexivity].
Qed.

(* non-vacuity: ordinary and hostile (singly / doubly encoded) names satisfy the decidable premises; the nested name is refused *)
Example leads_back_examples :
  forallb (fun run => match fmt run with
                      | FOk p => refuse_w true true p || (ingest_leads_back p ".yaml" && put_leads_back p ".yaml")
                      | _ => true end)
          ["r1"; "u/v"; "a b"; "a#b"; "a%2fb"; "a%4ab"; "a%41b"; "a%2541b"; "a%252541b"; "x%2ey"; "%25252E%25252E/sentinel"; "a%"; "a%zz"] = true
  /\ forallb op_recs_ok demo = true /\ forallb op_recs_ok hash_hist = true
  /\ forallb op_recs_ok [nested_ingest; nested_put; dot_put] = true.
Proof. vm_compute. repeat split; reflexivity. Qed.
