(* C20 lemmas, part 3: invariants of EVERY step, hence of every schedule: one dataset per (run, data ID) -- of several
   conflicting inserts exactly one wins -- and one collection per name (registration is get-or-create). *)
From Coq Require Import NArith List Bool Arith Lia.
From V Require Import Model.Conc.
Import ListNotations.
Open Scope N_scope.

Definition dkey (d : dset) : path := (d_run d, d_det d).
Definition uniq_keys (g : gstate) : Prop := NoDup (map dkey (dsets g)).
Definition uniq_names (g : gstate) : Prop := NoDup (map fst (colls g)).

Ltac brk := repeat match goal with
  | H : context[match ?x with _ => _ end] |- _ => destruct x eqn:?
  end.

Ltac invall := repeat match goal with
  | H : (_, _) = (_, _) |- _ => inversion H; clear H; subst
  | H : inl _ = inl _ |- _ => inversion H; clear H; subst
  | H : inr _ = inr _ |- _ => inversion H; clear H; subst
  | H : inl _ = inr _ |- _ => discriminate H
  | H : inr _ = inl _ |- _ => discriminate H
  end.

Lemma mstep_dsets : forall fixed slots g own o s g' nx,
  mstep fixed slots g own o s = (g', nx) ->
  dsets g' = dsets g \/ (exists f, dsets g' = filter f (dsets g)) \/
  (exists i run det v, dsets g' = dsets g ++ [mkD i run det v] /\ has_key g run det = false).
Proof.
  intros fixed slots g own o s g' nx H.
  destruct o; unfold mstep, chain_step, chain_write, et_step, sync_coll, remove_coll in H; brk;
    invall; simpl;
    first [ left; reflexivity
          | right; left; eexists; reflexivity
          | right; right; do 4 eexists; split; [reflexivity | assumption] ].
Qed.

Lemma mstep_colls : forall fixed slots g own o s g' nx,
  mstep fixed slots g own o s = (g', nx) ->
  colls g' = colls g \/ (exists f, colls g' = filter f (colls g)) \/
  (exists n t, colls g' = colls g ++ [(n, t)] /\ lookup n (colls g) = None).
Proof.
  intros fixed slots g own o s g' nx H.
  destruct o; unfold mstep, chain_step, chain_write, et_step, sync_coll, remove_coll, remove_key in H; brk;
    invall; simpl;
    first [ left; reflexivity
          | right; left; eexists; reflexivity
          | right; right; do 2 eexists; split; [reflexivity | assumption] ].
Qed.

Lemma NoDup_map_filter : forall {A B} (k : A -> B) f l, NoDup (map k l) -> NoDup (map k (filter f l)).
Proof.
  intros A B k f l. induction l; simpl; intros; auto.
  inversion H; subst. destruct (f a); simpl; auto.
  constructor; auto. intro X. apply H2. apply in_map_iff in X. destruct X as (x & E & I).
  apply filter_In in I. apply in_map_iff. exists x. tauto.
Qed.

Lemma has_key_false : forall g run det, has_key g run det = false -> ~ In (run, det) (map dkey (dsets g)).
Proof.
  intros g run det H I. unfold has_key in H. apply in_map_iff in I. destruct I as (d & E & I).
  assert (X : existsb (fun d0 => (d_run d0 =? run) && (d_det d0 =? det)) (dsets g) = true).
  { apply existsb_exists. exists d. split; auto. unfold dkey in E. inversion E. rewrite !N.eqb_refl. auto. }
  congruence.
Qed.

Lemma NoDup_app_one : forall {A} (l : list A) x, NoDup l -> ~ In x l -> NoDup (l ++ [x]).
Proof.
  intros A l x. induction l; simpl; intros.
  - constructor; auto.
  - inversion H; subst. constructor.
    + intro X. apply in_app_or in X. destruct X as [X|[X|[]]]; [tauto | subst; tauto].
    + apply IHl; tauto.
Qed.

Lemma lookup_none_notin : forall {A} n (l : list (N * A)), lookup n l = None -> ~ In n (map fst l).
Proof.
  intros A n l. induction l as [|[k v] l IH]; simpl; intros H; [tauto|].
  destruct (n =? k) eqn:E; [discriminate|]. apply N.eqb_neq in E. intros [X|X]; [congruence | tauto].
Qed.

Lemma mstep_uniq_keys : forall fixed slots g own o s g' nx,
  mstep fixed slots g own o s = (g', nx) -> uniq_keys g -> uniq_keys g'.
Proof.
  unfold uniq_keys. intros. destruct (mstep_dsets _ _ _ _ _ _ _ _ H) as [E|[(f & E)|(i & run & det & v & E & K)]]; rewrite E; auto.
  - apply NoDup_map_filter; auto.
  - rewrite map_app. simpl. apply NoDup_app_one; auto. apply has_key_false in K. exact K.
Qed.

Lemma mstep_uniq_names : forall fixed slots g own o s g' nx,
  mstep fixed slots g own o s = (g', nx) -> uniq_names g -> uniq_names g'.
Proof.
  unfold uniq_names. intros. destruct (mstep_colls _ _ _ _ _ _ _ _ H) as [E|[(f & E)|(n & t & E & K)]]; rewrite E; auto.
  - apply NoDup_map_filter; auto.
  - rewrite map_app. simpl. apply NoDup_app_one; auto. apply lookup_none_notin; auto.
Qed.

Section Lift.
  Variable P : gstate -> Prop.
  Hypothesis Pstep : forall fixed slots g own o s g' nx, mstep fixed slots g own o s = (g', nx) -> P g -> P g'.

  Lemma cstep_P : forall fixed slots g c, P g -> P (fst (cstep fixed slots g c)).
  Proof.
    intros. unfold cstep. destruct (prog c); auto.
    destruct (mstep fixed slots g (own c) o (sc c)) as [g' [s'|r o']] eqn:E; simpl; eapply Pstep; eauto.
  Qed.
  Lemma step_at_P : forall fixed slots g cs i, P g -> P (fst (step_at fixed slots g cs i)).
  Proof.
    intros. unfold step_at. destruct (nth_error cs i); auto.
    pose proof (cstep_P fixed slots g c H). destruct (cstep fixed slots g c). auto.
  Qed.
  Lemma run_sched_P : forall fixed slots sched g cs, P g -> P (fst (run_sched fixed slots g cs sched)).
  Proof.
    induction sched; simpl; intros; auto. destruct (pick a cs); auto.
    pose proof (step_at_P fixed slots g cs n H). destruct (step_at fixed slots g cs n). auto.
  Qed.
  Lemma drain_P : forall fuel fixed slots g cs, P g -> P (fst (drain fuel fixed slots g cs)).
  Proof.
    induction fuel; simpl; intros; auto. destruct (pick 0 cs); auto.
    pose proof (step_at_P fixed slots g cs n H). destruct (step_at fixed slots g cs n). auto.
  Qed.
  Lemma run_all_P : forall fixed slots sched g cs, P g -> P (fst (run_all fixed slots g cs sched)).
  Proof.
    intros. unfold run_all. pose proof (run_sched_P fixed slots sched g cs H).
    destruct (run_sched fixed slots g cs sched). apply drain_P. auto.
  Qed.
End Lift.

Lemma one_dataset_per_key_p : forall fixed slots sched g cs,
  uniq_keys g -> uniq_keys (fst (run_all fixed slots g cs sched)).
Proof. intros. apply run_all_P; auto. intros. eapply mstep_uniq_keys; eauto. Qed.

Lemma one_collection_per_name_p : forall fixed slots sched g cs,
  uniq_names g -> uniq_names (fst (run_all fixed slots g cs sched)).
Proof. intros. apply run_all_P; auto. intros. eapply mstep_uniq_names; eauto. Qed.

(* one winner, at the step: a put succeeds only on a free key (of a run whose run row exists) and takes it; on a taken
   key it is refused with a conflict and changes nothing *)
Lemma put_one_winner_step_p : forall fixed slots g own run det v s g' r own',
  mstep fixed slots g own (Put run det v) s = (g', Done r own') ->
  (r = OkU -> has_key g run det = false /\ memN run (runs g) = true /\ has_key g' run det = true) /\
  (has_key g run det = true -> lookup run (colls g) = Some CRun -> r = Err EConflict /\ g' = g).
Proof.
  intros. simpl in H. destruct (lookup run (colls g)) as [[| |]|] eqn:L; try (inversion H; subst; split; [discriminate|congruence]).
  destruct (memN run (runs g)) eqn:R; simpl in H; [|inversion H; subst; split; [discriminate|auto]].
  destruct (has_key g run det) eqn:K; inversion H; subst.
  - split; [discriminate|auto].
  - split; [|discriminate]. intros _. split; auto. split; auto. unfold has_key. simpl. rewrite existsb_app. simpl.
    rewrite !N.eqb_refl. simpl. apply orb_true_r.
Qed.
