(* C05 proofs, part C: selection, NULL handling, and the refutation witnesses (vm_compute). *)
From Coq Require Import ZArith List Bool String Lia.
From V Require Import Base.Tri Gen.TimespanGen Model.Pred Gen.PredGen Proofs.PredProofs Model.Expr Model.SqlExpr
  Proofs.ExprProofsA Proofs.ExprProofsB.
Import ListNotations.
Open Scope Z_scope.

Lemma select_exact_p : forall (R : Type) (envof : R -> env) e q rows,
  typeof e = Some DBool -> compile e = Some q ->
  (forall r, In r rows -> env_ok (envof r) e = true /\ bounds_ok (envof r) e = true) ->
  forall r, In r (select envof q rows) <-> In r rows /\ deval (envof r) e = TT.
Proof.
  intros R envof e q rows Ht Hc Hrows r. unfold select. rewrite filter_In.
  split; intros [Hin Hk]; (split; [assumption|]);
    destruct (Hrows r Hin) as [He Hb];
    destruct (compile_correct_p (envof r) e Ht He Hb) as [q' [C E]];
    rewrite Hc in C; inversion C; subst q'; unfold keeps in *; rewrite E in *.
  - destruct (deval (envof r) e); simpl in Hk; congruence.
  - now rewrite Hk.
Qed.

Lemma select_sublist_p : forall (R : Type) (envof : R -> env) q rows r, In r (select envof q rows) -> In r rows.
Proof. intros R envof q rows r H. unfold select in H. apply filter_In in H. tauto. Qed.

Lemma keeps_iff_true : forall rho q, keeps rho q = true <-> tri_of_nv (seval rho q) = TT.
Proof. intros. unfold keeps. destruct (tri_of_nv (seval rho q)); simpl; split; congruence. Qed.

Lemma null_comparison_unknown_p : forall o x, cmp3 o None x = UU /\ cmp3 o x None = UU.
Proof. intros o [x|]; split; reflexivity. Qed.

Lemma not_unknown_p : forall rho e, deval rho e = UU -> deval rho (ENot e) = UU.
Proof. intros rho e H. unfold deval in *. simpl. rewrite tri_nv_id, H. reflexivity. Qed.

Lemma is_null_two_valued_p : forall rho a,
  deval rho (ECmp CEq a ENull) = tri_of_bool (is_null (dval rho a)) /\
  deval rho (ECmp CNe a ENull) = tri_of_bool (negb (is_null (dval rho a))).
Proof. intros. unfold deval; simpl. split; destruct (is_null (dval rho a)); reflexivity. Qed.

Lemma arith_null_p : forall o x, arith o None x = None /\ arith o x None = None.
Proof. intros o [x|]; split; try reflexivity. Qed.

Lemma div_zero_null_p : forall x,
  arith ODiv x (Some (VInt 0)) = None /\ arith OMod x (Some (VInt 0)) = None.
Proof.
  intros [x|]; split; try reflexivity; unfold arith; destruct (num x) as [[n d]|]; reflexivity.
Qed.

Lemma mod_truncated_p : forall a b, b <> 0 -> arith OMod (Some (VInt a)) (Some (VInt b)) = Some (VInt (Z.rem a b)).
Proof.
  intros a b Hb. unfold arith; simpl. unfold trunc; simpl. rewrite !Z.quot_1_r.
  destruct (b =? 0) eqn:E; [apply Z.eqb_eq in E; contradiction|reflexivity].
Qed.

(* --- constraint summary ------------------------------------------------------------------------------ *)
Lemma cne_ff_ceq : forall x y, cmp3 CNe x y = FF -> cmp3 CEq x y = TT.
Proof.
  intros [x|] [y|]; simpl; try discriminate. unfold cmp3. destruct (vcmp x y) as [[]|]; simpl; congruence.
Qed.

Lemma eq_constraint_sound : forall rho iskey inverted l c v,
  eq_constraint false iskey inverted l = Some (c, v) ->
  (if inverted then tri_not (leaf_val rho l) else leaf_val rho l) = TT ->
  cmp3 CEq (rho c) (Some v) = TT \/ cmp3 CEq (Some v) (rho c) = TT.
Proof.
  intros rho iskey inverted l c v He Hv. destruct l; try discriminate. simpl in He.
  assert (L : leaf_val rho (LCmp o a b) = cmp3 o (seval rho (sc a)) (seval rho (sc b))).
  { unfold leaf_val; simpl. apply tri_nv_id. }
  rewrite L in Hv.
  assert (E : cmp3 CEq (seval rho (sc a)) (seval rho (sc b)) = TT).
  { destruct inverted.
    - destruct o; try discriminate. apply cne_ff_ceq. destruct (cmp3 CNe _ _); simpl in Hv; congruence.
    - destruct o; try discriminate. assumption. }
  destruct inverted; destruct o; try discriminate;
    (destruct a; try discriminate; destruct b; try discriminate;
     match type of He with (if ?k then _ else _) = _ => destruct k end; try discriminate;
     inversion He; subst; simpl in E; auto).
Qed.

Lemma summary_sound_p : forall rho iskey tbl p c v,
  eval3 (tval rho tbl) p = TT -> In (c, v) (summary iskey tbl p) ->
  cmp3 CEq (rho c) (Some v) = TT \/ cmp3 CEq (Some v) (rho c) = TT.
Proof.
  intros rho iskey tbl. induction p as [|g p IH]; intros c v Hev Hin; [contradiction|].
  rewrite eval3_cons in Hev.
  assert (any3 (tval rho tbl) g = TT /\ eval3 (tval rho tbl) p = TT) as [Hg Hp].
  { destruct (any3 (tval rho tbl) g), (eval3 (tval rho tbl) p); simpl in Hev; try discriminate; auto. }
  unfold summary, summary_g in Hin. simpl in Hin. apply in_app_or in Hin as [Hin|Hin].
  - destruct g as [|[a|a] [|? ?]]; try contradiction.
    + destruct (eq_constraint false iskey false _) as [[c' v']|] eqn:E; [|contradiction].
      destruct Hin as [Hin|[]]. inversion Hin; subst.
      eapply eq_constraint_sound; [exact E|]. simpl in Hg. rewrite tri_or_FF_r in Hg. exact Hg.
    + destruct (eq_constraint false iskey true _) as [[c' v']|] eqn:E; [|contradiction].
      destruct Hin as [Hin|[]]. inversion Hin; subst.
      eapply eq_constraint_sound; [exact E|]. simpl in Hg. rewrite tri_or_FF_r in Hg. exact Hg.
  - apply IH; assumption.
Qed.

(* through the whole path: on every row the WHERE clause keeps, each extracted constraint holds *)
Lemma where_summary_sound_p : forall rho iskey e q c v,
  compile e = Some q -> keeps rho q = true -> In (c, v) (where_summary iskey e) ->
  cmp3 CEq (rho c) (Some v) = TT \/ cmp3 CEq (Some v) (rho c) = TT.
Proof.
  intros rho iskey e q c v Hc Hk Hin. unfold compile, compile_g in Hc. unfold where_summary, where_summary_g in Hin.
  destruct (conv e) as [f|]; [|discriminate]. destruct (number f []) as [fm tbl]. inversion Hc; subst q.
  apply keeps_iff_true in Hk. rewrite cnf_sql_eval in Hk. eapply summary_sound_p; eassumption.
Qed.

(* the variant that also reads an inverted `==` as a constraint (seeded change C05a) is unsound:
   NOT (instrument = 'Cam') on a row of instrument 'Oth' *)
Definition e_notgov : expr := ENot (ECmp CEq (ECol 0%N TyStr) (ELit (VStr "Cam"))).
Definition rho_oth : env := fun c => if N.eqb c 0 then Some (VStr "Oth") else None.
Lemma summary_bad_refuted_p :
  match compile e_notgov with Some q => keeps rho_oth q = true | None => False end /\
  where_summary_g true (fun _ => true) e_notgov = [(0%N, VStr "Cam")] /\
  where_summary (fun _ => true) e_notgov = [] /\
  cmp3 CEq (rho_oth 0%N) (Some (VStr "Cam")) = FF.
Proof. vm_compute. repeat split; reflexivity. Qed.

(* --- witnesses ------------------------------------------------------------------------------------ *)
Definition rho_det (d : Z) : env := fun c => if N.eqb c 1 then Some (VInt d) else None.
Definition e_stride : expr := EIn (EArith OSub (ECol 1%N TyInt) (ELit (VInt 10))) [IRange (-3) 3 (Some 2)] false.

(* reverting d6d8862 breaks compile_correct: detector 7, `detector - 10 IN (-3..3:2)` *)
Lemma compile_old_refuted_p :
  typeof e_stride = Some DBool /\ env_ok (rho_det 7) e_stride = true /\ bounds_ok (rho_det 7) e_stride = true /\
  deval (rho_det 7) e_stride = TT /\
  match compile_old e_stride with Some q => tri_of_nv (seval (rho_det 7) q) = FF | None => False end /\
  match compile e_stride with Some q => tri_of_nv (seval (rho_det 7) q) = TT | None => False end.
Proof. vm_compute. repeat split; reflexivity. Qed.

(* `detector / 2 IN (1..2)` keeps detector 3 (1.5): accepted by the implementation's typing, real-interval semantics *)
Definition e_quot : expr := EIn (EArith ODiv (ECol 1%N TyInt) (ELit (VInt 2))) [IRange 1 2 None] false.
Lemma quot_range_refuted_p :
  typeof e_quot = None /\ deval (rho_det 3) e_quot = FF /\
  match compile e_quot with Some q => keeps (rho_det 3) q = true | None => False end.
Proof. vm_compute. repeat split; reflexivity. Qed.

(* `t IN (t1, t2)` is equality with either bound, not containment: 15 in [10, 20) but not selected *)
Definition e_tin : expr := EIn (ELit (VTime 15)) [ILit (VTime 10); ILit (VTime 20)] false.
Lemma time_in_refuted_p :
  (10 <= 15 < 20) /\ typeof e_tin = None /\
  match compile e_tin with Some q => tri_of_nv (seval (fun _ => None) q) = FF | None => False end.
Proof. split; [lia|]. vm_compute. repeat split; reflexivity. Qed.

(* `.begin` of a NULL timespan is 0, not NULL: the row is selected although the comparison is unknown *)
Definition e_nb : expr := ECmp CLt (EBegin (ECol 20%N TySpan)) (ELit (VTime 100)).
Lemma null_bound_refuted_p :
  typeof e_nb = Some DBool /\ env_ok (fun _ => None) e_nb = true /\ bounds_ok (fun _ => None) e_nb = false /\
  deval (fun _ => None) e_nb = UU /\
  match compile e_nb with Some q => keeps (fun _ => None) q = true | None => False end.
Proof. vm_compute. repeat split; reflexivity. Qed.

(* non-vacuity of compile_correct: a row and a well-typed expression with NULLs, strides, NOT, and a kept row *)
Definition rho_ex : env := fun c =>
  if N.eqb c 1 then Some (VInt 7) else if N.eqb c 20 then Some (VSpan 100 130) else if N.eqb c 39 then Some (VBool false) else None.
Definition e_ex : expr :=
  EAnd e_stride
    (EOr (ENot (ECol 39%N TyBool))
         (EAnd (EOverlaps (ECol 20%N TySpan) (ELit (VTime 110))) (ECmp CEq (ECol 4%N TyStr) ENull))).
Lemma compile_correct_example_p :
  typeof e_ex = Some DBool /\ env_ok rho_ex e_ex = true /\ bounds_ok rho_ex e_ex = true /\ deval rho_ex e_ex = TT /\
  match compile e_ex with Some q => keeps rho_ex q = true | None => False end.
Proof. vm_compute. repeat split; reflexivity. Qed.
