(* C14 proofs, part 3: lexer lemmas (keyword case-insensitivity, whitespace skipping, literal values). *)
From Coq Require Import ZArith List Bool String Ascii NArith Lia.
From V Require Import Model.ExprTree Model.Lexer Gen.GrammarGen.
Import ListNotations.
Open Scope string_scope.
Open Scope list_scope.

Lemma upper_char_idem c : upper_char (upper_char c) = upper_char c.
Proof. destruct c as [[|] [|] [|] [|] [|] [|] [|] [|]]; reflexivity. Qed.

Lemma upper_idem s : upper (upper s) = upper s.
Proof.
  unfold upper. rewrite list_ascii_of_string_of_list_ascii, map_map. f_equal.
  apply map_ext. intros; apply upper_char_idem.
Qed.

(* the keyword (if any) a word is classified as *)
Definition keyword_of (s : string) : option token :=
  match classify s with TId _ => None | t => Some t end.

Lemma keyword_case_p s : keyword_of (upper s) = keyword_of s.
Proof.
  unfold keyword_of, classify. rewrite upper_idem.
  destruct (assoc_str (upper s) reserved); [|reflexivity].
  destruct (kw_token s0); reflexivity.
Qed.

Lemma keyword_same_case_p s1 s2 : upper s1 = upper s2 -> keyword_of s1 = keyword_of s2.
Proof. intros H. rewrite <- (keyword_case_p s1), <- (keyword_case_p s2), H. reflexivity. Qed.

(* exactly the five reserved words, whatever their case; everything else is an identifier with its own text *)
Lemma classify_spec_p s :
  classify s =
  if String.eqb "IN" (upper s) then TIN else if String.eqb "OR" (upper s) then TOR
  else if String.eqb "AND" (upper s) then TAND else if String.eqb "NOT" (upper s) then TNOT
  else if String.eqb "OVERLAPS" (upper s) then TOVERLAPS else TId s.
Proof.
  unfold classify, reserved. unfold assoc_str.
  destruct (String.eqb "IN" (upper s)); [reflexivity|].
  destruct (String.eqb "OR" (upper s)); [reflexivity|].
  destruct (String.eqb "AND" (upper s)); [reflexivity|].
  destruct (String.eqb "NOT" (upper s)); [reflexivity|].
  destruct (String.eqb "OVERLAPS" (upper s)); reflexivity.
Qed.

(* spaces, tabs and newlines before a token (hence between tokens) are skipped *)
Definition is_ws (c : ascii) : bool := is_ignore c || is_nl c.

Lemma lex_skip_ws_p ws l fuel :
  forallb is_ws ws = true -> lex_chars (List.length ws + fuel) (ws ++ l) = lex_chars fuel l.
Proof.
  induction ws as [|c ws IH]; simpl; intros H; auto.
  apply andb_true_iff in H. destruct H as [Hc Hr]. unfold is_ws in Hc. rewrite Hc. auto.
Qed.

(* positional value of a digit string *)
Lemma digits_val_snoc ds d : digits_val (ds ++ [d]) = (digits_val ds * 10 + digit_val d)%Z.
Proof. unfold digits_val. rewrite fold_left_app. reflexivity. Qed.

Lemma span_all (p : ascii -> bool) a r :
  forallb p a = true -> match r with c :: _ => p c = false | [] => True end -> span p (a ++ r) = (a, r).
Proof.
  induction a as [|c a IH]; simpl; intros H N.
  - destruct r as [|c r]; auto. simpl. rewrite N. reflexivity.
  - apply andb_true_iff in H. destruct H as [Hc Ha]. rewrite Hc, IH; auto.
Qed.

Definition not_digit_next (r : list ascii) : Prop := match r with c :: _ => is_digit c = false | [] => True end.

(* an unsigned / signed integer spelling has its decimal value *)
Lemma m_int_digit c rest : is_digit c = true ->
  m_int (c :: rest) = match span is_digit (c :: rest) with ([], _) => None | (ds, r) => Some (digits_val ds, r) end.
Proof. intros H. destruct c as [[|] [|] [|] [|] [|] [|] [|] [|]]; try discriminate H; reflexivity. Qed.

Lemma m_int_value ds r : ds <> [] -> forallb is_digit ds = true -> not_digit_next r ->
  m_int (ds ++ r) = Some (digits_val ds, r) /\ m_int ("-"%char :: ds ++ r) = Some ((- digits_val ds)%Z, r).
Proof.
  intros NE F N.
  assert (S1 : span is_digit (ds ++ r) = (ds, r)) by (apply span_all; auto).
  split.
  - destruct ds as [|c ds]; [congruence|]. pose proof F as F'. simpl in F'. apply andb_true_iff in F'. destruct F' as [Fc _].
    change ((c :: ds) ++ r) with (c :: ds ++ r) in *. rewrite (m_int_digit c _ Fc), S1. reflexivity.
  - unfold m_int. rewrite S1. destruct ds; [congruence|reflexivity].
Qed.

(* range literal: start..stop (no stride) when nothing range-like follows *)
Definition plain_next (r : list ascii) : Prop :=
  match r with c :: _ => is_digit c = false /\ is_space c = false /\ c <> ":"%char | [] => True end.

Lemma range_value_p a b r : a <> [] -> b <> [] -> forallb is_digit a = true -> forallb is_digit b = true -> plain_next r ->
  m_range (a ++ "."%char :: "."%char :: b ++ r) = Some (TRange (digits_val a) (digits_val b) None, r).
Proof.
  intros NA NB FA FB N. unfold m_range.
  destruct (m_int_value a ("."%char :: "."%char :: b ++ r) NA FA) as [E1 _]; [reflexivity|].
  rewrite E1. simpl.
  assert (ND : not_digit_next r) by (destruct r; simpl in *; tauto).
  destruct (m_int_value b r NB FB ND) as [E2 _].
  assert (SK : skip_space (b ++ r) = b ++ r).
  { destruct b as [|c b]; [congruence|]. simpl in FB. apply andb_true_iff in FB. destruct FB as [Fc _].
    unfold skip_space. simpl. assert (is_space c = false) by (destruct c as [[|] [|] [|] [|] [|] [|] [|] [|]]; try reflexivity; discriminate Fc).
    rewrite H. reflexivity. }
  rewrite SK, E2.
  assert (ST : m_stride r = (None, r)).
  { unfold m_stride, skip_space. destruct r as [|c r]; [reflexivity|]. simpl in N. destruct N as (_ & N2 & N3).
    simpl. rewrite N2. simpl. destruct c as [[|] [|] [|] [|] [|] [|] [|] [|]]; try reflexivity. congruence. }
  rewrite ST. reflexivity.
Qed.

(* literal spellings, evaluated *)
Example lex_range_examples :
  lex "x IN (1..5, 1 .. 10 : 3, -10..-1:2, 007..010)" =
  [TId "x"; TIN; TLP; TRange 1 5 None; TCOMMA; TRange 1 10 (Some 3%Z); TCOMMA; TRange (-10) (-1) (Some 2%Z); TCOMMA;
   TRange 7 10 None; TRP].
Proof. vm_compute. reflexivity. Qed.

Example lex_number_examples :
  lex "1 1. 1.5 .5 1e3 1E+3 1.5e-3 1e 1..5 a-1..5 a.1 a.b.1" =
  [TNum "1"; TNum "1."; TNum "1.5"; TNum ".5"; TNum "1e3"; TNum "1E+3"; TNum "1.5e-3"; TNum "1"; TId "e";
   TRange 1 5 None; TId "a"; TRange (-1) 5 None; TId "a"; TNum ".1"; TQId "a.b"; TNum ".1"].
Proof. vm_compute. reflexivity. Qed.

Example lex_string_time_examples :
  lex "'some string' T'2020-01-01' t'mjd/58938.515' 'a" =
  [TStr "some string"; TTime "2020-01-01"; TTime "mjd/58938.515"; TBad].
Proof. vm_compute. reflexivity. Qed.

Example lex_keyword_examples :
  lex "a AnD b oR nOt c in (1) Overlaps d android" =
  [TId "a"; TAND; TId "b"; TOR; TNOT; TId "c"; TIN; TLP; TNum "1"; TRP; TOVERLAPS; TId "d"; TId "android"].
Proof. vm_compute. reflexivity. Qed.
