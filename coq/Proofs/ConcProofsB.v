(* C20 lemmas, part 2: the races the faithful model exhibits (witness schedules, vm_compute) and the scenarios in which
   every schedule is fine. *)
From Coq Require Import NArith List Bool Arith Lia.
From V Require Import Model.Conc.
Import ListNotations.
Open Scope N_scope.

(* names: 1 = A, 2 = B (CHAINED); 3 = run r1; 4 = N *)
Definition g_chain : gstate := mkG [(1, CChained); (2, CChained)] [] [] [] [] [] [] [] [(0, 0)] 1 [] [].
Definition cyclic (g : gstate) : bool := memN 2 (children g 1) && memN 1 (children g 2).
Definition p_chain := [client_of [SetChain 1 [2]]; client_of [SetChain 2 [1]]].

(* check1, check2, write1, write2 *)
Lemma chain_cycle_race_refuted_without_fix_p :
  exists sched, let '(g, cs) := run_all false [] g_chain p_chain sched in
                cyclic g = true /\ map outs cs = [[OkU]; [OkU]].
Proof. exists [0; 1; 0; 0]%nat. vm_compute. auto. Qed.

Lemma pick2 : forall k c0 c1, live c0 = true -> live c1 = true ->
  pick k [c0; c1] = Some 0%nat \/ pick k [c0; c1] = Some 1%nat.
Proof.
  intros. unfold pick.
  replace (live_idx 0 [c0; c1]) with [0%nat; 1%nat] by (simpl; rewrite H, H0; auto).
  cbv iota beta. change (length [0%nat; 1%nat]) with 2%nat.
  assert (L : (Nat.modulo k 2 < 2)%nat) by (apply Nat.mod_upper_bound; lia).
  remember (Nat.modulo k 2) as m. destruct m as [|[|n]]; auto. lia.
Qed.

Lemma run_sched_cons : forall f sl g cs k r,
  run_sched f sl g cs (k :: r) =
  match pick k cs with None => (g, cs) | Some i => let '(g', cs') := step_at f sl g cs i in run_sched f sl g' cs' r end.
Proof. reflexivity. Qed.
Lemma pick1 : forall k cs i, live_idx 0 cs = [i] -> pick k cs = Some i.
Proof. intros. unfold pick. rewrite H. simpl length. rewrite Nat.mod_1_r. auto. Qed.
Lemma pick_none : forall k cs, live_idx 0 cs = [] -> pick k cs = None.
Proof. intros. unfold pick. rewrite H. auto. Qed.
Lemma run_sched_done : forall f sl g cs r, live_idx 0 cs = [] -> run_sched f sl g cs r = (g, cs).
Proof. intros. destruct r; auto. rewrite run_sched_cons, pick_none; auto. Qed.
Lemma drain_done : forall fuel f sl g cs, live_idx 0 cs = [] -> drain fuel f sl g cs = (g, cs).
Proof. intros. destruct fuel; auto. simpl. rewrite pick_none; auto. Qed.

(* with the check inside the block: for EVERY schedule exactly one of the two opposite edits is refused, no cycle *)
Lemma chain_cycle_race_fixed_all_schedules_p : forall sched,
  let '(g, cs) := run_all true [] g_chain p_chain sched in
  cyclic g = false /\ (map outs cs = [[OkU]; [Err ECycle]] \/ map outs cs = [[Err ECycle]; [OkU]]).
Proof.
  intros sched. unfold run_all.
  destruct sched as [|k r]; [vm_compute; auto|].
  rewrite run_sched_cons.
  destruct (pick2 k (client_of [SetChain 1 [2]]) (client_of [SetChain 2 [1]]) eq_refl eq_refl) as [E|E];
    unfold p_chain; rewrite E.
  - match goal with |- context[step_at ?a ?b ?c ?d ?e] => let x := eval vm_compute in (step_at a b c d e) in change (step_at a b c d e) with x end.
    cbv iota beta.
    destruct r as [|k2 r2]; [vm_compute; auto|].
    rewrite run_sched_cons. rewrite (pick1 k2 _ 1%nat) by reflexivity.
    match goal with |- context[step_at ?a ?b ?c ?d ?e] => let x := eval vm_compute in (step_at a b c d e) in change (step_at a b c d e) with x end.
    cbv iota beta. rewrite run_sched_done by reflexivity. rewrite drain_done by reflexivity. vm_compute. auto.
  - match goal with |- context[step_at ?a ?b ?c ?d ?e] => let x := eval vm_compute in (step_at a b c d e) in change (step_at a b c d e) with x end.
    cbv iota beta.
    destruct r as [|k2 r2]; [vm_compute; auto|].
    rewrite run_sched_cons. rewrite (pick1 k2 _ 0%nat) by reflexivity.
    match goal with |- context[step_at ?a ?b ?c ?d ?e] => let x := eval vm_compute in (step_at a b c d e) in change (step_at a b c d e) with x end.
    cbv iota beta. rewrite run_sched_done by reflexivity. rewrite drain_done by reflexivity. vm_compute. auto.
Qed.

(* ---- prune (purge + unstore) of a dataset || put of a new dataset with the same data ID into the same run:
        the new dataset's artifact has the SAME path; emptyTrash read the trash before the put and deletes after it *)
Definition setup_r1 : list op := [RegRun 3; Put 3 0 7].
Definition g_r1 : gstate := run_setup setup_r1.
Definition p_prune_put := [client_of [Prune [RKey 3 0]]; client_of [Put 3 0 9]].
Definition all_readable (g : gstate) : bool :=
  forallb (fun d => match read_ds g d with Some v => v =? d_v d | None => false end) (dsets g).

Lemma visible_readable_refuted_p :
  exists sched, let '(g, cs) := run_all true (slots_of g_r1) g_r1 p_prune_put sched in
                map outs cs = [[OkU]; [OkU]] /\ has_key g 3 0 = true /\ all_readable g = false.
Proof. exists [0; 0; 1]%nat. vm_compute. auto. Qed.

(* both serial orders of the same two calls keep everything visible readable (and one of them refuses the put) *)
Lemma visible_readable_serial_p :
  forall order, In order [[0; 0]; [1; 0]]%nat ->
  all_readable (fst (run_serial true (slots_of g_r1) g_r1 p_prune_put order)) = true.
Proof. intros order [H|[H|[]]]; subst; vm_compute; auto. Qed.

(* ---- registration of one name with two different types: the loser is refused with a conflict although every serial
        order answers "already there" (False) -- an outcome no serial order has, state as in the serial orders *)
Definition g_empty : gstate := g0.
Definition p_reg2 := [client_of [RegColl 4 CTagged]; client_of [RegColl 4 CChained]].
Lemma register_type_race_refuted_p :
  (exists sched, map outs (snd (run_all true [] g_empty p_reg2 sched)) = [[OkB true]; [Err EConflict]]) /\
  (forall order, In order [[0; 0]; [1; 0]]%nat ->
     ~ In (Err EConflict) (concat (map outs (snd (run_serial true [] g_empty p_reg2 order))))).
Proof.
  split.
  - exists [0; 1; 0; 0]%nat. vm_compute. auto.
  - intros order [H|[H|[]]]; subst; vm_compute; intuition discriminate.
Qed.

(* ---- registerRun is two blocks (collection row, run row): a removal between them makes it fail half-way *)
Definition p_regrm := [client_of [RegRun 4]; client_of [RmColl 4]].
Lemma regrun_halfway_refuted_p :
  exists sched, map outs (snd (run_all true [] g_empty p_regrm sched)) = [[Err ESqlIntegrity]; [OkU]].
Proof. exists [0; 0; 1; 0]%nat. vm_compute. auto. Qed.

(* ... and while it is between them, another client is told "already registered" (False) and its put into the run is
   refused (FOREIGN KEY to the missing run row, reported as a conflict) -- no serial order refuses that put that way *)
Definition p_reg_put := [client_of [RegRun 4]; client_of [RegRun 4; Put 4 1 52]].
Lemma regrun_halfway_put_refuted_p :
  (exists sched, let '(g, cs) := run_all true [] g_empty p_reg_put sched in
                 map outs cs = [[OkB true]; [OkB false; Err EConflict]] /\ dsets g = []) /\
  (forall order, In order [[0; 0; 0]; [1; 0; 0]; [1; 1; 0]]%nat ->
     ~ In (Err EConflict) (concat (map outs (snd (run_serial true [] g_empty p_reg_put order))))).
Proof.
  split.
  - exists [0; 0; 1; 1]%nat. vm_compute. auto.
  - intros order [H|[H|[H|[]]]]; subst; vm_compute; intuition discriminate.
Qed.

(* ---- removeRuns reads the run's datasets before its block: a put in between makes the block fail (state intact) *)
Definition p_rr_put := [client_of [RemoveRun 3]; client_of [Put 3 1 9]].
Lemma removerun_put_race_refuted_p :
  exists sched, let '(g, cs) := run_all true (slots_of g_r1) g_r1 p_rr_put sched in
                map outs cs = [[Err ESqlIntegrity]; [OkU]] /\ all_readable g = true /\ length (dsets g) = 2%nat.
Proof. exists [0; 0; 1]%nat. vm_compute. auto. Qed.

(* ---- get-or-create: three clients registering the same run under EVERY schedule of at most 12 picks: exactly one
        True, the collection exists once.  (Finite: the picks are taken modulo the number of live clients, <= 3.) *)
Fixpoint all_scheds (n : nat) : list (list nat) :=
  match n with O => [[]] | S m => flat_map (fun s => [0 :: s; 1 :: s; 2 :: s]%nat) (all_scheds m) end.
Definition p_reg3 := [client_of [RegRun 4]; client_of [RegRun 4]; client_of [RegRun 4]].
Definition one_true (cs : list client) : bool :=
  Nat.eqb (length (filter (fun o => match o with OkB true => true | _ => false end) (concat (map outs cs)))) 1
  && forallb (fun o => match o with OkB _ => true | _ => false end) (concat (map outs cs)).
Lemma get_or_create_three_clients_p :
  forallb (fun sched => let '(g, cs) := run_all true [] g_empty p_reg3 sched in
                        one_true cs && Nat.eqb (length (colls g)) 1) (all_scheds 9) = true.
Proof. vm_compute. reflexivity. Qed.
