(* C18 -- names() x [] for whole trees: list indices (int -> str -> int) and the induction over the nested tree. *)
From Coq Require Import ZArith NArith List Bool Lia.
From Coq Require Decimal DecimalN DecimalPos.
From V Require Import Model.ConfigKey Proofs.ConfigKeyProofs.
Import ListNotations.
Open Scope N_scope.

(* ---------- int(str(i)) = i ---------- *)
Lemma uint_chars_nonws : forall u, Forall (fun c => is_ws c = false) (uint_chars u).
Proof. induction u; simpl; constructor; auto. Qed.
Lemma lstrip_nonws : forall s, Forall (fun c => is_ws c = false) s -> lstrip s = s.
Proof. destruct s; simpl; intros H; [reflexivity|]. inversion H; subst. rewrite H2. reflexivity. Qed.
Lemma strip_nonws : forall s, Forall (fun c => is_ws c = false) s -> strip s = s.
Proof.
  intros s H. unfold strip. rewrite (lstrip_nonws s H). rewrite lstrip_nonws; [apply rev_involutive|].
  apply Forall_rev. exact H.
Qed.
Lemma digits_uint : forall u, digits (uint_chars u) true = Some u.
Proof. induction u; simpl; try reflexivity; rewrite IHu; reflexivity. Qed.
Lemma py_int_uint : forall u, u <> Decimal.Nil -> py_int (uint_chars u) = Some (Z.of_N (N.of_uint u)).
Proof.
  intros u Hu. unfold py_int. rewrite (strip_nonws _ (uint_chars_nonws u)).
  destruct u; [congruence | ..]; simpl; rewrite digits_uint; reflexivity.
Qed.
Lemma py_int_Z_str : forall i, (0 <= i)%Z -> py_int (Z_str i) = Some i.
Proof.
  intros [|p|p] H; [reflexivity | | lia].
  unfold Z_str, N_str. simpl N.to_uint. rewrite py_int_uint by apply DecimalPos.Unsigned.to_uint_nonnil.
  change (Pos.to_uint p) with (N.to_uint (Npos p)). rewrite DecimalN.Unsigned.of_to. reflexivity.
Qed.
Lemma ends_bs_uint : forall u, ends_bs (uint_chars u) = false.
Proof.
  induction u; [reflexivity | ..]; simpl uint_chars; destruct (uint_chars u) eqn:E; auto.
Qed.
Lemma ends_bs_Z_str : forall i, (0 <= i)%Z -> ends_bs (Z_str i) = false.
Proof. intros [|p|p] H; [reflexivity | apply ends_bs_uint | lia]. Qed.

Lemma py_index_nth {A} : forall (l : list A) i v, (0 <= i)%Z -> nth_error l (Z.to_nat i) = Some v -> py_index l i = Some v.
Proof.
  intros l i v Hi Hn. unfold py_index.
  assert (Hlt : (Z.to_nat i < length l)%nat) by (apply nth_error_Some; congruence).
  assert (E1 : (0 <=? i)%Z = true) by (apply Z.leb_le; lia).
  assert (E2 : (i <? Z.of_nat (length l))%Z = true) by (apply Z.ltb_lt; lia).
  rewrite E1, E2. simpl. exact Hn.
Qed.

(* ---------- a path of string dict keys and list indices that leads from v to x ---------- *)
Inductive path_ok : list key -> cv -> cv -> Prop :=
| po_nil : forall v, path_ok [] v v
| po_dict : forall s m v' r x, ends_bs s = false -> dget (KS s) m = Some v' -> path_ok r v' x ->
    path_ok (KS s :: r) (CDict m) x
| po_list : forall i l v' r x, (0 <= i)%Z -> nth_error l (Z.to_nat i) = Some v' -> path_ok r v' x ->
    path_ok (KI i :: r) (CList l) x.

Lemma path_walk : forall t v x, path_ok t v x -> walk (map (fun k => KS (key_str k)) t) v = Ok (Some x).
Proof.
  induction 1; simpl.
  - reflexivity.
  - rewrite H0. exact IHpath_ok.
  - rewrite (py_int_Z_str i H). rewrite (py_index_nth l i v' H H0). exact IHpath_ok.
Qed.
Lemma nonlast_cons : forall k r, ends_bs k = false -> nonlast_ok r = true -> nonlast_ok (k :: r) = true.
Proof. intros k r H1 H2. destruct r; [reflexivity|]. simpl nonlast_ok. rewrite H1. simpl. exact H2. Qed.
Lemma path_nonlast : forall t v x, path_ok t v x -> nonlast_ok (map key_str t) = true.
Proof.
  induction 1; simpl map.
  - reflexivity.
  - apply nonlast_cons; auto.
  - apply nonlast_cons; auto. apply ends_bs_Z_str; auto.
Qed.

(* ---------- keys_ok: every dict key anywhere in the tree is a str that does not end in a backslash,
              and no dict has two equal keys ---------- *)
Definition key_okb (k : key) (r : list (key * cv)) : bool :=
  match k with
  | KS s => negb (ends_bs s) && match dget k r with None => true | Some _ => false end
  | _ => false
  end.
Fixpoint keys_okb (v : cv) : bool :=
  match v with
  | CDict d =>
      (fix go (d : list (key * cv)) : bool :=
         match d with [] => true | (k, x) :: r => key_okb k r && keys_okb x && go r end) d
  | CList l =>
      (fix go (l : list cv) : bool := match l with [] => true | x :: r => keys_okb x && go r end) l
  | _ => true
  end.
Lemma keys_okb_dict_cons : forall k x r, keys_okb (CDict ((k, x) :: r)) = key_okb k r && keys_okb x && keys_okb (CDict r).
Proof. reflexivity. Qed.
Lemma keys_okb_list_cons : forall x r, keys_okb (CList (x :: r)) = keys_okb x && keys_okb (CList r).
Proof. reflexivity. Qed.

(* ---------- induction over the nested tree ---------- *)
Section CvInd.
  Variable P : cv -> Prop.
  Hypothesis Hnone : P CNone.
  Hypothesis Hbool : forall b, P (CBool b).
  Hypothesis Hint : forall z, P (CInt z).
  Hypothesis Hflt : forall q, P (CFlt q).
  Hypothesis Hstr : forall s, P (CStr s).
  Hypothesis Hlist : forall l, Forall P l -> P (CList l).
  Hypothesis Hdict : forall d, Forall (fun p => P (snd p)) d -> P (CDict d).
  Fixpoint cv_ind2 (v : cv) : P v :=
    match v with
    | CNone => Hnone | CBool b => Hbool b | CInt z => Hint z | CFlt q => Hflt q | CStr s => Hstr s
    | CList l => Hlist l ((fix go (l : list cv) : Forall P l :=
                             match l with [] => Forall_nil _ | x :: r => Forall_cons x (cv_ind2 x) (go r) end) l)
    | CDict d => Hdict d ((fix go (d : list (key * cv)) : Forall (fun p => P (snd p)) d :=
                             match d with [] => Forall_nil _ | p :: r => Forall_cons p (cv_ind2 (snd p)) (go r) end) d)
    end.
End CvInd.

(* the two inner loops of nameTuples, named *)
Fixpoint golist (i : Z) (l : list cv) : list (list key * cv) :=
  match l with
  | [] => []
  | x :: r => ([KI i], x) :: map (fun p => (KI i :: fst p, snd p)) (tuples x) ++ golist (i + 1)%Z r
  end.
Fixpoint godict (d : list (key * cv)) : list (list key * cv) :=
  match d with
  | [] => []
  | (k, x) :: r => ([k], x) :: map (fun p => (k :: fst p, snd p)) (tuples x) ++ godict r
  end.
Lemma tuples_list : forall l, tuples (CList l) = golist 0%Z l.
Proof. intros. simpl. generalize 0%Z. induction l; intros; simpl; [reflexivity|]. rewrite IHl. reflexivity. Qed.
Lemma tuples_dict : forall d, tuples (CDict d) = godict d.
Proof. intros. simpl. induction d as [|[k x] r IH]; simpl; [reflexivity|]. rewrite IH. reflexivity. Qed.

Lemma golist_in : forall l i t x, In (t, x) (golist i l) ->
  exists j v' t', nth_error l j = Some v' /\ t = KI (i + Z.of_nat j)%Z :: t' /\ In (t', x) (([], v') :: tuples v').
Proof.
  induction l as [|a l IH]; simpl; intros i t x H; [contradiction|].
  destruct H as [H|H].
  - inversion H; subst. exists 0%nat, x, []. repeat split; simpl; auto. f_equal. f_equal. lia.
  - apply in_app_or in H as [H|H].
    + apply in_map_iff in H as [[t' y] [E Hin]]. inversion E; subst. exists 0%nat, a, t'. repeat split; simpl; auto.
      f_equal. f_equal. lia.
    + apply IH in H as (j & v' & t' & Hn & Ht & Hin). exists (S j), v', t'. repeat split; auto.
      rewrite Ht. f_equal. f_equal. lia.
Qed.

Lemma seqb_refl : forall s, seqb s s = true.
Proof. induction s; simpl; auto. rewrite N.eqb_refl. auto. Qed.

Lemma godict_in : forall d t x, keys_okb (CDict d) = true -> In (t, x) (godict d) ->
  exists s v' t', t = KS s :: t' /\ ends_bs s = false /\ dget (KS s) d = Some v' /\ In (KS s, v') d
                  /\ In (t', x) (([], v') :: tuples v').
Proof.
  induction d as [|[k a] r IH]; intros t x Hk H; [contradiction|].
  rewrite keys_okb_dict_cons in Hk. apply andb_true_iff in Hk as [Hk Hr]. apply andb_true_iff in Hk as [Hk Ha].
  destruct k as [s0| | |]; try discriminate. unfold key_okb in Hk. apply andb_true_iff in Hk as [Hb Hu].
  apply negb_true_iff in Hb. destruct (dget (KS s0) r) eqn:Hd0; [discriminate|].
  simpl in H. destruct H as [H|H].
  - inversion H; subst. exists s0, x, []. simpl. rewrite seqb_refl. repeat split; auto.
  - apply in_app_or in H as [H|H].
    + apply in_map_iff in H as [[t' y] [E Hin]]. inversion E; subst. exists s0, a, t'. simpl. rewrite seqb_refl.
      repeat split; auto.
    + destruct (IH t x Hr H) as (s & v' & t' & Ht & He & Hg & Hi & Hin).
      exists s, v', t'. repeat split; auto.
      * simpl. destruct (seqb s s0) eqn:E; [|exact Hg].
        apply seqb_eq in E. subst. congruence.
      * right; exact Hi.
Qed.

Lemma keys_okb_list_in : forall l v, keys_okb (CList l) = true -> In v l -> keys_okb v = true.
Proof.
  induction l as [|a l IH]; intros v H Hin; [contradiction|].
  rewrite keys_okb_list_cons in H. apply andb_true_iff in H as [H1 H2]. destruct Hin; subst; auto.
Qed.
Lemma keys_okb_dict_in : forall d k v, keys_okb (CDict d) = true -> In (k, v) d -> keys_okb v = true.
Proof.
  induction d as [|[k0 a] r IH]; intros k v H Hin; [contradiction|].
  rewrite keys_okb_dict_cons in H. apply andb_true_iff in H as [H H2]. apply andb_true_iff in H as [_ H1].
  destruct Hin as [E|Hin]; [inversion E; subst; auto | eauto].
Qed.

Lemma tuples_path_ok : forall v, keys_okb v = true -> forall t x, In (t, x) (([], v) :: tuples v) -> path_ok t v x.
Proof.
  induction v using cv_ind2; intros Hk t x Hin;
    try (destruct Hin as [E|[]]; inversion E; subst; apply po_nil).
  - (* list *)
    destruct Hin as [E|Hin]; [inversion E; subst; apply po_nil|].
    rewrite tuples_list in Hin. apply golist_in in Hin as (j & v' & t' & Hn & Ht & Hin'). subst t.
    assert (Hv : In v' l) by (eapply nth_error_In; eauto).
    apply po_list with (v' := v'); [lia | simpl; rewrite Nat2Z.id; exact Hn |].
    rewrite Forall_forall in H. apply (H v' Hv); auto. eapply keys_okb_list_in; eauto.
  - (* dict *)
    destruct Hin as [E|Hin]; [inversion E; subst; apply po_nil|].
    rewrite tuples_dict in Hin. apply (godict_in d t x Hk) in Hin as (s & v' & t' & Ht & He & Hg & Hi & Hin'). subst t.
    apply po_dict with (v' := v'); auto.
    rewrite Forall_forall in H. apply (H (KS s, v') Hi); auto. eapply keys_okb_dict_in; eauto.
Qed.

(* ---------- names() x [] for every reported name of a keys_ok tree ---------- *)
Lemma mkname_str : forall d t, mkname d (map KS (map key_str t)) = mkname d t.
Proof. intros. unfold mkname. f_equal. f_equal. rewrite !map_map. apply map_ext. reflexivity. Qed.

Lemma names_retrieve_keys_ok_p : forall alnum top d l,
  keys_okb (CDict top) = true -> names_default alnum top = Some (d, l) -> alnum d = false ->
  forall n x, In (n, x) l -> lookup alnum top n = Ok x /\ contains alnum top n = Ok true.
Proof.
  intros alnum top d l Hk Hn Ha n x Hin.
  assert (Hl : l = names_with d top).
  { unfold names_default in Hn. destruct (find_delim alnum 100 D0c (combined top)); inversion Hn; auto. }
  subst l. unfold names_with in Hin. apply in_map_iff in Hin as [[t y] [E Hi]]. simpl in E. inversion E; subst n y.
  assert (Hp : path_ok t (CDict top) x) by (apply tuples_path_ok; auto; right; exact Hi).
  assert (Hne : t <> []) by (intro; subst; exact (tuples_nonempty _ _ Hi)).
  rewrite <- mkname_str.
  apply names_retrieve_core_p; auto.
  - destruct t as [|k0 r]; [congruence|]. eapply (default_delim_fresh alnum top d _ _ x k0 Hn Hi). left; reflexivity.
  - destruct t; [congruence | discriminate].
  - apply Forall_forall. intros s Hs. apply in_map_iff in Hs as [k [Ek Hk0]]. subst s.
    destruct (default_delim_fresh alnum top d _ t x k Hn Hi Hk0) as [H1 _]. exact H1.
  - eapply path_nonlast; eauto.
  - intros k v Hkv. apply top_keys_in_tuples in Hkv.
    destruct (default_delim_fresh alnum top d _ _ v (KS k) Hn Hkv) as [H1 _]; [left; reflexivity | exact H1].
  - rewrite map_map. apply path_walk. exact Hp.
Qed.
